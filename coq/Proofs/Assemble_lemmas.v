(* Proofs/Assemble_lemmas.v — proofs about Model/Assemble.v (C18). *)
From Coq Require Import List NArith ZArith Ascii Bool Lia ZifyBool Arith.
From Coq Require Decimal DecimalN DecimalZ.
From SV Require Import Lib.Bytes Model.Wire Proofs.Wire_lemmas Model.Assemble Gen.Consts.
Import ListNotations.
Local Open Scope N_scope.

(* ------------------------------------------------------------------ *)
(* character classes (256-case computations)                           *)

Ltac all_chars c :=
  destruct c as [[|] [|] [|] [|] [|] [|] [|] [|]]; vm_compute; intros; try reflexivity; try discriminate.

Lemma is_digit_not_ws c : is_digit c = true -> is_ws c = false.
Proof. all_chars c. Qed.

Lemma is_digit_not_nl c : is_digit c = true -> Ascii.eqb c nl = false.
Proof. all_chars c. Qed.

Lemma is_digit_not_minus c : is_digit c = true -> Ascii.eqb c ch_minus = false.
Proof. all_chars c. Qed.

Lemma is_digit_not_quote c : is_digit c = true -> Ascii.eqb c ch_quote = false.
Proof. all_chars c. Qed.

Lemma plain_not_quote c : plain_char c = true -> Ascii.eqb c ch_quote = false.
Proof. all_chars c. Qed.

Lemma plain_not_nl c : plain_char c = true -> Ascii.eqb c nl = false.
Proof. all_chars c. Qed.

Lemma ident_not_nl c : ident_char c = true -> Ascii.eqb c nl = false.
Proof. all_chars c. Qed.

Lemma ident_not_eq c : ident_char c = true -> Ascii.eqb c ch_eq = false.
Proof. all_chars c. Qed.

Lemma eqb_false_neq c d : Ascii.eqb c d = false -> c <> d.
Proof. apply Ascii.eqb_neq. Qed.

(* ------------------------------------------------------------------ *)
(* decimal                                                             *)

Lemma bytes_uint_uint_bytes u : bytes_uint (uint_bytes u) = Some u.
Proof.
  induction u as [|u IH|u IH|u IH|u IH|u IH|u IH|u IH|u IH|u IH|u IH];
    [reflexivity | cbn [uint_bytes bytes_uint]; rewrite IH; reflexivity ..].
Qed.

Lemma uint_bytes_nil u : uint_bytes u = [] -> u = Decimal.Nil.
Proof. destruct u; cbn [uint_bytes]; intros H; try discriminate; reflexivity. Qed.

Lemma uint_bytes_digits u : Forall (fun c => is_digit c = true) (uint_bytes u).
Proof.
  induction u as [|u IH|u IH|u IH|u IH|u IH|u IH|u IH|u IH|u IH|u IH];
    cbn [uint_bytes]; constructor; try assumption; reflexivity.
Qed.

Lemma to_uint_nonnil n : N.to_uint n <> Decimal.Nil.
Proof.
  intros H. pose proof (DecimalN.Unsigned.of_to n) as E. rewrite H in E.
  cbn in E. subst n. cbn in H. discriminate.
Qed.

Lemma dec_nonnil n : dec n <> [].
Proof. unfold dec. intros H. apply uint_bytes_nil in H. exact (to_uint_nonnil n H). Qed.

Lemma dec_digits n : Forall (fun c => is_digit c = true) (dec n).
Proof. apply uint_bytes_digits. Qed.

Lemma undec_dec n : undec (dec n) = Some n.
Proof.
  unfold undec. pose proof (dec_nonnil n) as Hn.
  destruct (dec n) as [|c tl] eqn:E; [congruence|].
  rewrite <- E. unfold dec. rewrite bytes_uint_uint_bytes.
  rewrite DecimalN.Unsigned.of_to. reflexivity.
Qed.

Lemma zdec_cases z :
  (exists u, Z.to_int z = Decimal.Pos u /\ u <> Decimal.Nil) \/
  (exists u, Z.to_int z = Decimal.Neg u /\ u <> Decimal.Nil).
Proof.
  pose proof (DecimalZ.of_to z) as E.
  destruct (Z.to_int z) as [u|u] eqn:Hz; [left|right]; exists u; (split; [reflexivity|]);
    intros ->; cbn in E; subst z; cbn in Hz; discriminate.
Qed.

Lemma zdec_head z : exists c tl, zdec z = c :: tl /\ (c = ch_minus \/ is_digit c = true).
Proof.
  unfold zdec. destruct (zdec_cases z) as [[u [-> Hu]]|[u [-> Hu]]].
  - pose proof (uint_bytes_digits u) as Hd.
    destruct (uint_bytes u) as [|c tl] eqn:E; [apply uint_bytes_nil in E; contradiction|].
    exists c, tl. split; [reflexivity|]. right. exact (Forall_inv Hd).
  - exists ch_minus, (uint_bytes u). split; [reflexivity|]. left; reflexivity.
Qed.

Lemma zundec_zdec z : zundec (zdec z) = Some z.
Proof.
  unfold zdec. pose proof (DecimalZ.of_to z) as E.
  destruct (zdec_cases z) as [[u [Hz Hu]]|[u [Hz Hu]]]; rewrite Hz in *.
  - pose proof (uint_bytes_digits u) as Hd.
    destruct (uint_bytes u) as [|c tl] eqn:Eu; [apply uint_bytes_nil in Eu; contradiction|].
    unfold zundec. pose proof (Forall_inv Hd) as Hc. cbv beta in Hc.
    rewrite (is_digit_not_minus c Hc). rewrite <- Eu, bytes_uint_uint_bytes. rewrite E. reflexivity.
  - unfold zundec. change (Ascii.eqb ch_minus ch_minus) with true. cbv iota.
    destruct (uint_bytes u) as [|c tl] eqn:Eu; [apply uint_bytes_nil in Eu; contradiction|].
    rewrite <- Eu, bytes_uint_uint_bytes. rewrite E. reflexivity.
Qed.

Lemma zdec_no_nl z : Forall (fun c => Ascii.eqb c nl = false) (zdec z).
Proof.
  unfold zdec. destruct (Z.to_int z) as [u|u].
  - eapply Forall_impl; [|apply uint_bytes_digits]. intros a; apply is_digit_not_nl.
  - constructor; [reflexivity|].
    eapply Forall_impl; [|apply uint_bytes_digits]. intros a; apply is_digit_not_nl.
Qed.

(* ------------------------------------------------------------------ *)
(* strip                                                               *)

Lemma lstrip_cases b : lstrip b = b \/ (length (lstrip b) < length b)%nat.
Proof.
  induction b as [|c tl IH]; [left; reflexivity|].
  cbn [lstrip]. destruct (is_ws c) eqn:Hc; [|left; reflexivity].
  right. cbn [length]. destruct IH as [-> | IH]; lia.
Qed.

Lemma rstrip_len b : (length (rstrip b) <= length b)%nat.
Proof.
  induction b as [|c tl IH]; [cbn; lia|].
  cbn [rstrip]. destruct (rstrip tl) as [|r rs] eqn:Hr.
  - destruct (is_ws c); cbn [length]; lia.
  - cbn [length] in *. lia.
Qed.

Lemma strip_stable_parts b : strip b = b -> lstrip b = b /\ rstrip b = b.
Proof.
  unfold strip. intros H.
  destruct (lstrip_cases b) as [E | Hlt].
  - rewrite E in H. split; assumption.
  - exfalso. pose proof (rstrip_len (lstrip b)) as Hr. rewrite H in Hr. lia.
Qed.

Lemma rstrip_app_ws a w : is_ws w = true -> rstrip (a ++ [w]) = rstrip a.
Proof.
  intros Hw. induction a as [|c tl IH].
  - cbn. rewrite Hw. reflexivity.
  - change (rstrip ((c :: tl) ++ [w])) with
      (match rstrip (tl ++ [w]) with [] => if is_ws c then [] else [c] | r => c :: r end).
    rewrite IH. reflexivity.
Qed.

Lemma lstrip_head_nonws c tl : lstrip (c :: tl) = c :: tl -> is_ws c = false.
Proof.
  cbn [lstrip]. destruct (is_ws c) eqn:Hc; [|reflexivity].
  intros H. exfalso.
  destruct (lstrip_cases tl) as [E | Hlt].
  - rewrite E in H. apply (f_equal (@length ascii)) in H. cbn [length] in H. lia.
  - rewrite H in Hlt. cbn [length] in Hlt. lia.
Qed.

Lemma lstrip_cons_nonws c tl : is_ws c = false -> lstrip (c :: tl) = c :: tl.
Proof. intros H. simpl. rewrite H. reflexivity. Qed.

Lemma strip_line name : strip name = name -> name <> [] -> strip (name ++ [nl]) = name.
Proof.
  intros Hs Hn. destruct (strip_stable_parts name Hs) as [Hl Hr].
  destruct name as [|c tl]; [congruence|].
  pose proof (lstrip_head_nonws c tl Hl) as Hc.
  unfold strip. rewrite <- app_comm_cons, lstrip_cons_nonws by exact Hc.
  rewrite app_comm_cons.
  rewrite rstrip_app_ws by reflexivity. exact Hr.
Qed.

Lemma rstrip_all_nonws b : Forall (fun c => is_ws c = false) b -> rstrip b = b.
Proof.
  induction 1 as [|c tl Hc _ IH]; [reflexivity|].
  cbn [rstrip]. rewrite IH. destruct tl; [rewrite Hc|]; reflexivity.
Qed.

Lemma strip_all_nonws b : Forall (fun c => is_ws c = false) b -> strip b = b.
Proof.
  intros H. unfold strip.
  assert (lstrip b = b) as ->.
  { destruct H as [|c tl Hc _]; [reflexivity|]. apply lstrip_cons_nonws; exact Hc. }
  apply rstrip_all_nonws; assumption.
Qed.

Lemma dec_nonws n : Forall (fun c => is_ws c = false) (dec n).
Proof. eapply Forall_impl; [|apply dec_digits]. intros a; apply is_digit_not_ws. Qed.

Lemma parse_int_line_dec n : parse_int_line (dec n ++ [nl]) = Some n.
Proof.
  unfold parse_int_line. rewrite strip_line.
  - apply undec_dec.
  - apply strip_all_nonws, dec_nonws.
  - apply dec_nonnil.
Qed.

(* ------------------------------------------------------------------ *)
(* lines                                                               *)

Lemma split_line_cons c tl :
  split_line (c :: tl) =
  if Ascii.eqb c nl then Some ([c], tl)
  else match split_line tl with Some (l, r) => Some (c :: l, r) | None => None end.
Proof. reflexivity. Qed.

Lemma split_line_app a b :
  split_line (a ++ b) =
  match split_line a with
  | Some (l, r) => Some (l, r ++ b)
  | None => match split_line b with Some (l, r) => Some (a ++ l, r) | None => None end
  end.
Proof.
  induction a as [|c tl IH].
  - cbn. destruct (split_line b) as [[l r]|]; reflexivity.
  - rewrite <- app_comm_cons, !split_line_cons. destruct (Ascii.eqb c nl); [reflexivity|].
    rewrite IH. destruct (split_line tl) as [[l r]|]; [reflexivity|].
    destruct (split_line b) as [[l r]|]; reflexivity.
Qed.

Lemma split_line_sound s l r : split_line s = Some (l, r) -> s = l ++ r.
Proof.
  revert l r. induction s as [|c tl IH]; intros l r; [discriminate|].
  rewrite split_line_cons. destruct (Ascii.eqb c nl).
  - intros [= <- <-]. reflexivity.
  - destruct (split_line tl) as [[l' r']|]; [|discriminate].
    intros [= <- <-]. cbn [app]. f_equal. apply IH. reflexivity.
Qed.

Definition nl_free (b : bytes) : Prop := Forall (fun c => Ascii.eqb c nl = false) b.

Lemma split_line_nl_free l rest : nl_free l -> split_line (l ++ nl :: rest) = Some (l ++ [nl], rest).
Proof.
  induction 1 as [|c tl Hc _ IH].
  - reflexivity.
  - rewrite <- !app_comm_cons, split_line_cons. rewrite Hc, IH. reflexivity.
Qed.

Lemma line_split_nl_free l rest : nl_free l -> line_split (l ++ nl :: rest) = (l ++ [nl], rest).
Proof. intros H. unfold line_split. rewrite split_line_nl_free by assumption. reflexivity. Qed.

Lemma line_split_app s : fst (line_split s) ++ snd (line_split s) = s.
Proof.
  unfold line_split. destruct (split_line s) as [[l r]|] eqn:E.
  - symmetry. apply split_line_sound. exact E.
  - cbn. apply app_nil_r.
Qed.

(* ------------------------------------------------------------------ *)
(* the buffered reader under any cutting of the stream                 *)

Lemma pull_spec chunks : forall need,
  fst (pull need chunks) ++ concat (snd (pull need chunks)) = concat chunks /\
  (lenN (fst (pull need chunks)) < need -> snd (pull need chunks) = []).
Proof.
  induction chunks as [|c cs IH]; intros need.
  - cbn. split; reflexivity.
  - cbn [pull]. destruct (need =? 0) eqn:Hz.
    + cbn [fst snd]. split; [reflexivity|]. rewrite lenN_nil. lia.
    + specialize (IH (need - lenN c)). destruct (pull (need - lenN c) cs) as [d r].
      cbn [fst snd] in *. destruct IH as [IH1 IH2]. split.
      * cbn [concat]. rewrite <- IH1. apply app_assoc_reverse.
      * rewrite lenN_app. intros H. apply IH2. lia.
Qed.

Lemma rd_read_spec n r :
  fst (rd_read n r) = takeN n (stream_of r) /\
  stream_of (snd (rd_read n r)) = dropN n (stream_of r).
Proof.
  unfold rd_read, stream_of. destruct r as [buf chunks]. cbn [r_buf r_chunks].
  destruct (n <=? lenN buf) eqn:Hle.
  - cbn [fst snd r_buf r_chunks]. rewrite takeN_app_le, dropN_app_le by lia. split; reflexivity.
  - pose proof (pull_spec chunks (n - lenN buf)) as [H1 H2].
    destruct (pull (n - lenN buf) chunks) as [d cs]. cbn [fst snd r_buf r_chunks] in *.
    rewrite <- H1, app_assoc.
    destruct (n <=? lenN (buf ++ d)) eqn:Hle2.
    + rewrite (takeN_app_le n (buf ++ d) (concat cs)), (dropN_app_le n (buf ++ d) (concat cs)) by lia.
      split; reflexivity.
    + rewrite H2 by (rewrite lenN_app in Hle2; lia). cbn [concat]. rewrite !app_nil_r. split; reflexivity.
Qed.

Lemma pull_line_spec chunks :
  fst (pull_line chunks) ++ concat (snd (pull_line chunks)) = concat chunks /\
  (split_line (fst (pull_line chunks)) = None -> snd (pull_line chunks) = []).
Proof.
  induction chunks as [|c cs IH].
  - cbn. split; reflexivity.
  - cbn [pull_line]. destruct (split_line c) as [[l0 r0]|] eqn:Hc.
    + cbn [fst snd]. split; [reflexivity|]. rewrite Hc. discriminate.
    + destruct (pull_line cs) as [d r]. cbn [fst snd] in *. destruct IH as [IH1 IH2]. split.
      * cbn [concat]. rewrite <- IH1. apply app_assoc_reverse.
      * rewrite split_line_app, Hc. destruct (split_line d) as [[l1 r1]|]; [discriminate|].
        intros _. apply IH2. reflexivity.
Qed.

Lemma rd_readline_spec r :
  fst (rd_readline r) = fst (line_split (stream_of r)) /\
  stream_of (snd (rd_readline r)) = snd (line_split (stream_of r)).
Proof.
  unfold rd_readline, stream_of, line_split. destruct r as [buf chunks]. cbn [r_buf r_chunks].
  rewrite split_line_app.
  destruct (split_line buf) as [[l rest]|] eqn:Hb.
  - cbn [fst snd r_buf r_chunks]. split; reflexivity.
  - pose proof (pull_line_spec chunks) as [H1 H2].
    destruct (pull_line chunks) as [d cs]. cbn [fst snd] in *.
    rewrite <- H1.
    pose proof (split_line_app buf d) as Hbd. rewrite Hb in Hbd.
    pose proof (split_line_app d (concat cs)) as Hdc.
    destruct (split_line d) as [[l1 r1]|] eqn:Hd.
    + rewrite Hdc, Hbd. cbn [fst snd r_buf r_chunks]. split; reflexivity.
    + rewrite H2 by reflexivity. rewrite H2 in Hdc by reflexivity. cbn [concat] in *.
      rewrite Hdc, Hbd. rewrite app_nil_r in Hdc. cbn [fst snd r_buf r_chunks concat].
      rewrite !app_nil_r. split; reflexivity.
Qed.

(* ------------------------------------------------------------------ *)
(* the assembler loop on the reader = the loop on the whole stream     *)

Lemma map_left_cons_mod {L L'} (f : L -> L') m (x : asm_result L) :
  map_left f (cons_mod m x) = cons_mod m (map_left f x).
Proof. destruct x; reflexivity. Qed.

Section Segmentation.
  Variable dstate : Type.
  Variable decompress : dstate -> bytes -> dstate * bytes.

  Lemma asm_loop_spec fuel : forall known d r,
    map_left stream_of (asm_loop dstate decompress fuel known d r) =
    asm_spec dstate decompress fuel known d (stream_of r).
  Proof.
    induction fuel as [|fuel IH]; intros known d r; [reflexivity|].
    cbn [asm_loop asm_spec]. cbv zeta.
    destruct (rd_readline_spec r) as [H1 H2]. rewrite <- H1, <- H2.
    destruct (strip (fst (rd_readline r))) as [|c0 name0]; [reflexivity|].
    destruct (negb (forallb is_ascii7 (c0 :: name0))); [reflexivity|].
    destruct (rd_readline_spec (snd (rd_readline r))) as [H3 H4]. rewrite <- H3, <- H4.
    destruct (parse_int_line (fst (rd_readline (snd (rd_readline r))))) as [nbytes|]; [|reflexivity].
    destruct (rd_read_spec nbytes (snd (rd_readline (snd (rd_readline r))))) as [H5 H6].
    rewrite <- H5, <- H6.
    destruct (parent_known (c0 :: name0) known); [|reflexivity].
    rewrite map_left_cons_mod, IH. reflexivity.
  Qed.

  Lemma remote_run_spec pre d0 n chunks :
    (fst (remote_run dstate decompress pre d0 n chunks),
     map_left stream_of (snd (remote_run dstate decompress pre d0 n chunks))) =
    remote_spec dstate decompress pre d0 n (concat chunks).
  Proof.
    unfold remote_run, remote_spec. cbn [fst snd].
    destruct (rd_read_spec n (mkReader [] chunks)) as [H1 H2].
    change (stream_of (mkReader [] chunks)) with (concat chunks) in *.
    rewrite asm_loop_spec, H1, H2. reflexivity.
  Qed.

  (* one well-formed package at the head of the stream *)
  Definition name_ok (name : bytes) : Prop :=
    strip name = name /\ name <> [] /\ nl_free name /\ forallb is_ascii7 name = true.

  Lemma asm_spec_step fuel known d name content X :
    name_ok name -> parent_known name known = true ->
    asm_spec dstate decompress (S fuel) known d
             (name ++ nl :: dec (lenN content) ++ nl :: content ++ X) =
    cons_mod (name, snd (decompress d content))
             (asm_spec dstate decompress fuel (name :: known) (fst (decompress d content)) X).
  Proof.
    intros (Hs & Hn & Hnl & Ha) Hp.
    cbn [asm_spec]. cbv zeta.
    rewrite (line_split_nl_free name _ Hnl). cbn [fst snd].
    rewrite (strip_line name Hs Hn).
    destruct name as [|c0 name0]; [congruence|].
    rewrite Ha. cbn [negb].
    assert (nl_free (dec (lenN content))) as Hd.
    { eapply Forall_impl; [|apply dec_digits]. intros a; apply is_digit_not_nl. }
    rewrite (line_split_nl_free _ _ Hd). cbn [fst snd].
    rewrite parse_int_line_dec, Hp.
    rewrite takeN_app_exact, dropN_app_exact. reflexivity.
  Qed.

  (* the loop always terminates within its fuel *)
  Lemma cons_mod_fuel {L} m (x : asm_result L) : cons_mod m x = AsmFuel -> x = AsmFuel.
  Proof. destruct x; cbn; congruence. Qed.

  Lemma strip_nil_of_nil : strip [] = [].
  Proof. reflexivity. Qed.

  Lemma asm_spec_no_fuel fuel : forall known d s,
    (length s < fuel)%nat -> asm_spec dstate decompress fuel known d s <> AsmFuel.
  Proof.
    induction fuel as [|fuel IH]; intros known d s Hlen; [lia|].
    cbn [asm_spec]. cbv zeta.
    pose proof (line_split_app s) as Hs.
    destruct (strip (fst (line_split s))) as [|c0 name0] eqn:Hn; [discriminate|].
    destruct (negb (forallb is_ascii7 (c0 :: name0))); [discriminate|].
    pose proof (line_split_app (snd (line_split s))) as Hs2.
    destruct (parse_int_line (fst (line_split (snd (line_split s))))) as [nbytes|]; [|discriminate].
    destruct (parent_known (c0 :: name0) known); [|discriminate].
    intros H. apply cons_mod_fuel in H. revert H. apply IH.
    assert (fst (line_split s) <> []) as Hne.
    { intros E. rewrite E in Hn. discriminate. }
    rewrite length_dropN.
    apply (f_equal (@length ascii)) in Hs. apply (f_equal (@length ascii)) in Hs2.
    rewrite app_length in Hs, Hs2.
    destruct (fst (line_split s)) as [|x xs]; [congruence|]. cbn [length] in Hs. lia.
  Qed.

  Lemma remote_run_no_fuel pre d0 n chunks :
    snd (remote_run dstate decompress pre d0 n chunks) <> AsmFuel.
  Proof.
    intros H. pose proof (f_equal snd (remote_run_spec pre d0 n chunks)) as E.
    unfold remote_spec in E. cbn [snd] in E. rewrite H in E.
    change (map_left stream_of (@AsmFuel reader)) with (@AsmFuel bytes) in E.
    symmetry in E. revert E. apply asm_spec_no_fuel. lia.
  Qed.
End Segmentation.

(* ------------------------------------------------------------------ *)
(* packaging followed by assembling, zlib abstract                     *)

Lemma pkg_assoc (name d c p r : bytes) :
  ((name ++ nl :: d ++ nl :: c) ++ p) ++ nl :: r = name ++ nl :: d ++ nl :: c ++ (p ++ nl :: r).
Proof. repeat (rewrite <- app_assoc || rewrite <- app_comm_cons). reflexivity. Qed.

Fixpoint parents_ok (known : list bytes) (names : list bytes) : Prop :=
  match names with
  | [] => True
  | n :: tl => parent_known n known = true /\ parents_ok (n :: known) tl
  end.

Section ZlibLaw.
  Variable zstate dstate : Type.
  Variable compress : zstate -> bytes -> zstate * bytes.
  Variable flush_sync : zstate -> zstate * bytes.
  Variable decompress : dstate -> bytes -> dstate * bytes.
  (* "the decompressor has consumed exactly what the compressor has emitted" *)
  Variable insync : zstate -> dstate -> Prop.

  (* The assumption about zlib: on a shared stream, the output of
     compress(x) followed by flush(Z_SYNC_FLUSH) decompresses to exactly x
     in one decompress() call, and the two stream states stay in step. *)
  Definition sync_flush_law : Prop :=
    forall z d x, insync z d ->
      let zc1 := compress z x in
      let zc2 := flush_sync (fst zc1) in
      let dc := decompress d (snd zc1 ++ snd zc2) in
      snd dc = x /\ insync (fst zc2) (fst dc).

  Hypothesis law : sync_flush_law.
  Variable get_src : bytes -> bytes.

  Definition effective (m : bytes * bytes) : bytes * bytes :=
    (fst m, effective_data get_src (fst m) (snd m)).

  Lemma package_all_len mods : forall z,
    (length mods <= length (package_all zstate compress flush_sync get_src z mods))%nat.
  Proof.
    induction mods as [|m tl IH]; intros z; [cbn; lia|].
    cbn [package_all length]. rewrite app_length.
    specialize (IH (fst (empackage zstate compress flush_sync get_src z (fst m) (snd m)))).
    unfold empackage at 1. cbv zeta. cbn [snd]. rewrite app_length. cbn [length]. lia.
  Qed.

  Lemma asm_spec_upload mods : forall fuel known z d rest,
    insync z d -> Forall name_ok (map fst mods) -> parents_ok known (map fst mods) ->
    (length mods < fuel)%nat ->
    asm_spec dstate decompress fuel known d
             (package_all zstate compress flush_sync get_src z mods ++ nl :: rest) =
    AsmDone (map effective mods) rest.
  Proof.
    induction mods as [|[name data] tl IH]; intros fuel known z d rest Hin Hnames Hpar Hfuel.
    - destruct fuel as [|fuel]; [cbn in Hfuel; lia|].
      cbn [package_all app asm_spec]. cbv zeta.
      unfold line_split. rewrite split_line_cons.
      change (Ascii.eqb nl nl) with true. cbv iota. cbn [fst snd].
      change (strip [nl]) with (@nil ascii). reflexivity.
    - destruct fuel as [|fuel]; [cbn in Hfuel; lia|].
      cbn [map fst] in Hnames, Hpar. cbn [parents_ok] in Hpar. destruct Hpar as [Hp Hpar].
      pose proof (Forall_inv Hnames) as Hname. pose proof (Forall_inv_tail Hnames) as Hnames'.
      cbn [package_all fst snd]. unfold empackage. cbv zeta. cbn [fst snd].
      set (x := effective_data get_src name data).
      destruct (law z d x Hin) as [Hx Hin']. cbv zeta in Hx, Hin'.
      set (zc1 := compress z x) in *. set (zc2 := flush_sync (fst zc1)) in *.
      rewrite pkg_assoc.
      rewrite (asm_spec_step dstate decompress fuel known d name (snd zc1 ++ snd zc2) _ Hname Hp).
      rewrite Hx.
      rewrite (IH fuel (name :: known) (fst zc2) _ rest Hin' Hnames' Hpar) by (cbn [length] in Hfuel; lia).
      reflexivity.
  Qed.

  Theorem remote_run_upload pre z0 d0 mods asm rest chunks :
    insync z0 d0 -> Forall name_ok (map fst mods) -> parents_ok pre (map fst mods) ->
    concat chunks = asm ++ package_all zstate compress flush_sync get_src z0 mods ++ nl :: rest ->
    exists left,
      remote_run dstate decompress pre d0 (lenN asm) chunks = (asm, AsmDone (map effective mods) left)
      /\ stream_of left = rest.
  Proof.
    intros Hin Hnames Hpar Hc.
    pose proof (remote_run_spec dstate decompress pre d0 (lenN asm) chunks) as E.
    rewrite Hc in E. unfold remote_spec in E.
    rewrite takeN_app_exact, dropN_app_exact in E.
    rewrite (asm_spec_upload mods _ pre z0 d0 rest Hin Hnames Hpar) in E.
    - destruct (remote_run dstate decompress pre d0 (lenN asm) chunks) as [src res].
      cbn [fst snd] in E. injection E as E1 E2. subst src.
      destruct res as [ms left|c ms|]; cbn [map_left] in E2; try discriminate.
      injection E2 as E2 E3. subst ms. exists left. split; [reflexivity|exact E3].
    - rewrite app_length. pose proof (package_all_len mods z0). lia.
  Qed.
End ZlibLaw.

(* the stand-in codec satisfies the law: the hypothesis is satisfiable, and by
   a codec whose decompressor really depends on the shared stream position *)
Definition stub_insync (z d : N) : Prop := z = d.

Lemma ends_with_end_snoc x : ends_with_end (x ++ [stub_end]) = true.
Proof.
  unfold ends_with_end. destruct (x ++ [stub_end]) as [|a l] eqn:E.
  - destruct x; discriminate.
  - rewrite <- E, last_last. reflexivity.
Qed.

Lemma stub_law : sync_flush_law N N stub_compress stub_flush stub_decompress stub_insync.
Proof.
  intros z d x Hin. unfold stub_insync in *. subst d. cbv zeta.
  unfold stub_compress, stub_flush. cbn [fst snd].
  rewrite <- app_comm_cons. unfold stub_decompress.
  rewrite Ascii.eqb_refl, ends_with_end_snoc. cbn [andb fst snd].
  rewrite removelast_last. split; reflexivity.
Qed.

(* and so does the trivial one (stored data, no state) *)
Lemma identity_law :
  sync_flush_law unit unit (fun _ x => (tt, x)) (fun _ => (tt, [])) (fun _ c => (tt, c)) (fun _ _ => True).
Proof. intros z d x _. cbv zeta. cbn [fst snd]. rewrite app_nil_r. split; [reflexivity|exact I]. Qed.

(* ------------------------------------------------------------------ *)
(* the options module: rendering then evaluating gives the values back *)

Lemma lines_of_line l : forall cur rest,
  nl_free l -> lines_of cur (l ++ nl :: rest) = (rev cur ++ l) :: lines_of [] rest.
Proof.
  induction l as [|c tl IH]; intros cur rest H.
  - cbn [app lines_of]. change (Ascii.eqb nl nl) with true. cbv iota. rewrite app_nil_r. reflexivity.
  - pose proof (Forall_inv H) as Hc. cbv beta in Hc.
    rewrite <- app_comm_cons. cbn [lines_of]. rewrite Hc.
    rewrite IH by exact (Forall_inv_tail H). cbn [rev]. rewrite <- app_assoc. reflexivity.
Qed.

Lemma split_eq_ident k v :
  Forall (fun c => ident_char c = true) k -> split_eq (k ++ ch_eq :: v) = Some (k, v).
Proof.
  induction 1 as [|c tl Hc _ IH].
  - cbn [app split_eq]. change (Ascii.eqb ch_eq ch_eq) with true. reflexivity.
  - rewrite <- app_comm_cons. cbn [split_eq]. rewrite (ident_not_eq c Hc), IH. reflexivity.
Qed.

Lemma bytes_eqb_head_neq c tl c' tl' : Ascii.eqb c c' = false -> bytes_eqb (c :: tl) (c' :: tl') = false.
Proof.
  intros H. destruct (bytes_eqb (c :: tl) (c' :: tl')) eqn:E; [|reflexivity].
  apply bytes_eqb_eq in E. injection E as E _. subst c'. rewrite Ascii.eqb_refl in H. discriminate.
Qed.

Lemma parse_str_body_plain s :
  forallb plain_char s = true -> parse_str_body (s ++ [ch_quote]) = Some s.
Proof.
  induction s as [|c tl IH]; intros H.
  - reflexivity.
  - cbn [forallb] in H. apply andb_true_iff in H. destruct H as [Hc Ht].
    rewrite <- app_comm_cons. cbn [parse_str_body].
    rewrite (plain_not_quote c Hc), Hc, (IH Ht). reflexivity.
Qed.

Lemma head_not_keyword c :
  c = ch_minus \/ is_digit c = true \/ c = ch_quote ->
  Ascii.eqb c "T" = false /\ Ascii.eqb c "F" = false /\ Ascii.eqb c "N" = false.
Proof.
  intros [-> | [H | ->]]; [repeat split; reflexivity | | repeat split; reflexivity].
  revert H. all_chars c; repeat split; reflexivity.
Qed.

Lemma parse_literal_head c tl :
  c = ch_minus \/ is_digit c = true \/ c = ch_quote ->
  parse_literal (c :: tl) =
  if Ascii.eqb c ch_quote then
    match parse_str_body tl with Some s => Some (PvStr s) | None => None end
  else match zundec (c :: tl) with Some z => Some (PvInt z) | None => None end.
Proof.
  intros H. destruct (head_not_keyword c H) as (HT & HF & HN).
  unfold parse_literal, lit_True, lit_False, lit_None.
  rewrite !bytes_eqb_head_neq by assumption. reflexivity.
Qed.

Lemma parse_literal_repr v : val_ok v = true -> parse_literal (repr v) = Some v.
Proof.
  destruct v as [[|]|z| |s]; intros Hv; try reflexivity.
  - cbn [repr]. destruct (zdec_head z) as (c & tl & E & Hc).
    pose proof (zundec_zdec z) as Hz. rewrite E in *.
    rewrite parse_literal_head by tauto.
    assert (Ascii.eqb c ch_quote = false) as ->.
    { destruct Hc as [-> | Hc]; [reflexivity | apply is_digit_not_quote; exact Hc]. }
    rewrite Hz. reflexivity.
  - cbn [repr val_ok] in *. rewrite parse_literal_head by tauto.
    rewrite Ascii.eqb_refl, (parse_str_body_plain s Hv). reflexivity.
Qed.

Lemma repr_nl_free v : val_ok v = true -> nl_free (repr v).
Proof.
  destruct v as [[|]|z| |s]; intros Hv; cbn [repr].
  - repeat constructor.
  - repeat constructor.
  - apply zdec_no_nl.
  - repeat constructor.
  - cbn [val_ok] in Hv. constructor; [reflexivity|]. apply Forall_app. split.
    + apply Forall_forall. intros c Hc. apply plain_not_nl.
      rewrite forallb_forall in Hv. apply Hv; exact Hc.
    + repeat constructor.
Qed.

Lemma ident_ok_chars k : ident_ok k = true -> Forall (fun c => ident_char c = true) k.
Proof.
  unfold ident_ok. destruct k as [|c tl]; [discriminate|].
  intros H. apply andb_true_iff in H. destruct H as [_ H].
  apply Forall_forall. rewrite forallb_forall in H. exact H.
Qed.

Lemma parse_assign_render kv :
  opt_ok kv = true -> parse_assign (fst kv ++ ch_eq :: repr (snd kv)) = Some kv.
Proof.
  destruct kv as [k v]. unfold opt_ok. cbn [fst snd]. intros H.
  apply andb_true_iff in H. destruct H as [Hk Hv].
  unfold parse_assign. rewrite (split_eq_ident k _ (ident_ok_chars k Hk)).
  rewrite Hk, (parse_literal_repr v Hv). reflexivity.
Qed.

Lemma render_option_line kv :
  opt_ok kv = true ->
  render_option kv = (fst kv ++ ch_eq :: repr (snd kv)) ++ [nl] /\
  nl_free (fst kv ++ ch_eq :: repr (snd kv)).
Proof.
  intros H. split.
  - unfold render_option. rewrite <- app_assoc, <- app_comm_cons. reflexivity.
  - destruct kv as [k v]. unfold opt_ok in H. cbn [fst snd] in *.
    apply andb_true_iff in H. destruct H as [Hk Hv].
    apply Forall_app. split.
    + eapply Forall_impl; [|apply (ident_ok_chars k Hk)]. intros a; apply ident_not_nl.
    + constructor; [reflexivity|]. apply repr_nl_free; exact Hv.
Qed.

Theorem eval_render_options opts :
  Forall (fun kv => opt_ok kv = true) opts -> eval_options (render_options opts) = Some opts.
Proof.
  unfold eval_options, render_options.
  induction 1 as [|kv tl Hkv _ IH]; [reflexivity|].
  cbn [map concat]. destruct (render_option_line kv Hkv) as [-> Hnl].
  rewrite <- app_assoc. cbn [app].
  rewrite (lines_of_line _ [] _ Hnl). cbn [rev app eval_lines].
  rewrite (parse_assign_render kv Hkv), IH. reflexivity.
Qed.

Lemma render_options_nonempty opts : opts <> [] -> render_options opts <> [].
Proof.
  destruct opts as [|[k v] tl]; [congruence|]. intros _.
  unfold render_options, render_option. cbn [map concat fst snd].
  destruct k; cbn; discriminate.
Qed.

(* ------------------------------------------------------------------ *)
(* ssh.connect's upload, assembled                                     *)

Lemma connect_names_ok optdata : Forall name_ok (map fst (connect_modules optdata)).
Proof.
  unfold connect_modules. cbn [map fst].
  unfold n_sshuttle, n_options, n_helpers, n_ssnet, n_hostwatch, n_server.
  repeat (apply Forall_cons;
          [split; [reflexivity | split; [discriminate | split; [repeat constructor | reflexivity]]]|]).
  apply Forall_nil.
Qed.

Lemma connect_parents_ok pre optdata : parents_ok pre (map fst (connect_modules optdata)).
Proof.
  unfold connect_modules. cbn [map fst parents_ok].
  repeat split; reflexivity.
Qed.

Section ConnectProof.
  Variable zstate dstate : Type.
  Variable compress : zstate -> bytes -> zstate * bytes.
  Variable flush_sync : zstate -> zstate * bytes.
  Variable decompress : dstate -> bytes -> dstate * bytes.
  Variable insync : zstate -> dstate -> Prop.
  Hypothesis law : sync_flush_law zstate dstate compress flush_sync decompress insync.
  Variable get_src : bytes -> bytes.

  (* what the remote interpreter should end up with *)
  Definition connect_sources (opts : list (bytes * pyval)) : list (bytes * bytes) :=
    [ (n_sshuttle, get_src n_sshuttle); (n_options, render_options opts);
      (n_helpers, get_src n_helpers); (n_ssnet, get_src n_ssnet);
      (n_hostwatch, get_src n_hostwatch); (n_server, get_src n_server) ].

  Lemma connect_effective opts : opts <> [] ->
    map (effective get_src) (connect_modules (render_options opts)) = connect_sources opts.
  Proof.
    intros H. pose proof (render_options_nonempty opts H) as Hn.
    unfold connect_modules, connect_sources, effective. cbn [map fst snd effective_data].
    destruct (render_options opts) as [|c tl]; [congruence|]. reflexivity.
  Qed.

  Theorem connect_assembles pre z0 d0 opts chunks rest :
    insync z0 d0 -> opts <> [] ->
    concat chunks = fst (connect_upload zstate compress flush_sync get_src z0 opts)
                    ++ snd (connect_upload zstate compress flush_sync get_src z0 opts) ++ rest ->
    exists left,
      remote_run dstate decompress pre d0 (boot_read_len get_src) chunks
      = (get_src n_assembler, AsmDone (connect_sources opts) left)
      /\ stream_of left = rest.
  Proof.
    intros Hin Hopts Hc. unfold connect_upload in Hc. cbn [fst snd] in Hc.
    rewrite <- app_assoc in Hc. cbn [app] in Hc.
    rewrite <- (connect_effective opts Hopts). unfold boot_read_len.
    apply (remote_run_upload zstate dstate compress flush_sync decompress insync law get_src
             pre z0 d0 _ _ rest chunks Hin (connect_names_ok _) (connect_parents_ok pre _) Hc).
  Qed.

  Lemma remote_options_connect opts :
    remote_options (connect_sources opts) = eval_options (render_options opts).
  Proof. reflexivity. Qed.
End ConnectProof.

(* ------------------------------------------------------------------ *)
(* start-up order                                                      *)

Lemma writes_before_sync_startup c1 c2 e :
  writes_before_sync (client_startup c1 c2 e) = [c1; c2].
Proof.
  unfold client_startup. cbn [writes_before_sync].
  destruct (ce_poll e); [reflexivity|].
  destruct (fst (hs_run client_sync (ce_server e))); reflexivity.
Qed.

Lemma sync_ok_verified c1 c2 e :
  In CSyncOk (client_startup c1 c2 e) -> Forall nonempty (ce_server e) ->
  ce_poll e = None /\ fst (hs_spec client_sync (concat (ce_server e))) = true.
Proof.
  unfold client_startup. intros Hin HF.
  destruct (hs_run_spec client_sync (ce_server e) HF) as [H1 _]. rewrite <- H1.
  cbn [In] in Hin. destruct Hin as [Hin|[Hin|[Hin|Hin]]]; try discriminate.
  destruct (ce_poll e).
  - cbn [In] in Hin. destruct Hin as [Hin|[]]. discriminate.
  - destruct (fst (hs_run client_sync (ce_server e))); [split; reflexivity|].
    cbn [In] in Hin. destruct Hin as [Hin|[]]. discriminate.
Qed.

Lemma first_flush_writes acc :
  flat_map (fun e => match e with CWrite b => [b] | _ => [] end) (first_flush acc) = [] \/
  exists k, flat_map (fun e => match e with CWrite b => [b] | _ => [] end) (first_flush acc)
            = [takeN k ping_frame].
Proof. destruct acc as [k|]; [right; eexists; reflexivity | left; reflexivity]. Qed.

Lemma writes_after_sync_startup c1 c2 e :
  writes_after_sync (client_startup c1 c2 e) = [] \/
  exists k, writes_after_sync (client_startup c1 c2 e) = [takeN k ping_frame].
Proof.
  unfold client_startup. cbn [writes_after_sync].
  destruct (ce_poll e); [left; reflexivity|].
  destruct (fst (hs_run client_sync (ce_server e))); [|left; reflexivity].
  cbn [writes_after_sync].
  destruct (ce_seed e) as [s|]; [|apply first_flush_writes].
  destruct (encode (mkFrame 0 CMD_HOST_REQ s)); [|left; reflexivity ..].
  cbn [flat_map app]. apply first_flush_writes.
Qed.

Lemma server_stdout_sync_first lbs later :
  stdout_of (server_main_start lbs ++ later) = server_sync ++ stdout_of later.
Proof.
  unfold stdout_of, server_main_start. rewrite !flat_map_app.
  destruct (Z.eqb lbs 0); cbn [flat_map app]; rewrite app_nil_r; reflexivity.
Qed.
