(* Proofs/FwLife_gen_owner.v — C04, general theorems, part 8: nat with --user/--group.
   The own objects of a family are those of the nat table (FwLife_gen_ipt.v) plus the
   owner MARK rules at the head of mangle/OUTPUT.  A failing tear-down
   `-t mangle -D OUTPUT ... MARK` leaves the MARK rule for good (finding F41): that
   command is the excluded class of FwLife_gen_sess.all_exits. *)
From Coq Require Import String List NArith ZArith Ascii Bool Lia Arith.
From SV Require Import Lib.Bytes Model.FwLife Model.FwLifeSpec Proofs.FwLife_lemmas
  Proofs.FwLife_gen_run Proofs.FwLife_gen_tbl Proofs.FwLife_gen_ipt Proofs.FwLife_gen_sess
  Proofs.FwLife_gen_meth Proofs.FwLife_general.
Import ListNotations.

(* ---- the MARK rules in mangle/OUTPUT, relative to the initial mangle table T0 ---- *)
Definition MRel (M : rule) (T0 Tm : table) (mk : nat) : Prop :=
  exists ro, find_chain bOUTPUT T0 = Some ro /\ Tm = set_chain bOUTPUT (repeat M mk ++ ro) T0 /\
             remove_first M ro = None.

Lemma mrel_insert M T0 Tm mk :
  MRel M T0 Tm mk ->
  exists Tm', tbl_exec (IInsert bOUTPUT M) Tm = Some Tm' /\ MRel M T0 Tm' (S mk).
Proof.
  intros (ro & F0 & -> & Hn). cbn [tbl_exec].
  rewrite (fc_set_same _ _ (repeat M mk ++ ro) _ F0). eexists. split; [reflexivity|].
  exists ro. split; [exact F0|]. split; [|exact Hn]. rewrite set_chain_set. reflexivity.
Qed.

Lemma mrel_delete M T0 Tm mk :
  MRel M T0 Tm mk ->
  match mk with
  | S j => exists Tm', tbl_exec (IDelete bOUTPUT M) Tm = Some Tm' /\ MRel M T0 Tm' j
  | O => tbl_exec (IDelete bOUTPUT M) Tm = None
  end.
Proof.
  intros (ro & F0 & -> & Hn). cbn [tbl_exec].
  rewrite (fc_set_same _ _ (repeat M mk ++ ro) _ F0). destruct mk as [|j].
  - cbn [repeat app]. rewrite Hn. reflexivity.
  - rewrite remove_first_repeat. eexists. split; [reflexivity|].
    exists ro. split; [exact F0|]. split; [|exact Hn]. rewrite set_chain_set. reflexivity.
Qed.

Lemma mrel_zero M T0 Tm : MRel M T0 Tm 0 -> Tm = T0.
Proof. intros (ro & F0 & -> & _). cbn [repeat app]. apply set_chain_same. exact F0. Qed.

(* ---- the product machine simulates the kernel ---- *)
Section OwnerSim.
Variable f : fam.
Variable p : tok.
Variable own : rule.
Hypothesis Hp : pname_ok p = true.
Hypothesis Hpo : port_ok p = true.
Variable T0 : table.
Let sp := nat_is f (Some own) p.
Let M := nat_mark_rule own p.

Lemma nato_is_wf : is_wf sp.
Proof.
  assert (J : jumps_to (nat_chain p) (nat_jump (Some own) p) = true).
  { unfold jumps_to, nat_jump. rewrite (jump_target_mark _ _ Hpo). apply bytes_eqb_refl. }
  constructor.
  - intros x y Hx Hy _. destruct x, y; cbn in Hx, Hy; congruence.
  - intros x _. cbn. unfold nat_chain. discriminate.
  - intros x _. cbn. unfold nat_chain. discriminate.
  - intros x _. cbn. unfold nat_chain. rewrite nospace_app, (pname_nospace p Hp). reflexivity.
  - intros x _. cbn. unfold nat_chain. apply aname_app; [reflexivity | exact (pname_ascii p Hp) | discriminate].
  - intros x Hx. destruct x; cbn in Hx; try discriminate. exact J.
  - intros x Hx. destruct x; cbn in Hx; try discriminate. exact J.
  - reflexivity.
  - reflexivity.
Qed.

Definition OR (s : kstate) (st : ostate) : Prop :=
  RelS sp s (fst st) /\ MRel M T0 (get_tbl f TMangle s) (snd st).

Definition ocmd_on (c : ocmd) : Prop := match c with OI c' => cmd_on sp c' | _ => True end.

Lemma nat_ne_mangle : (f, TMangle) <> (f, TNat).
Proof. discriminate. Qed.
Lemma mangle_ne_nat : (f, TNat) <> (f, TMangle).
Proof. discriminate. Qed.

Lemma oexec_sim c s st :
  ocmd_on c -> OR s st ->
  match oexec sp c st with
  | Some st' => exists s', exec (oconc sp M c) s = (Some s', [], []) /\ OR s' st'
  | None => exec (oconc sp M c) s = (None, [], [])
  end.
Proof.
  intros Hon [Hr Hm]. destruct c as [c'| |]; cbn [oexec oconc ocmd_on] in *.
  - pose proof (iexec_sim sp nato_is_wf c' s (fst st) Hon Hr) as H.
    destruct (iexec sp c' (fst st)) as [a'|]; [|exact H].
    destruct H as (s' & E & Hr'). exists s'. split; [exact E|]. split; [exact Hr'|]. cbn [snd].
    unfold iconc in E. apply exec_ipt_inv in E as (T' & _ & ->). unfold sp. cbn [is_fam is_tbl nat_is].
    rewrite (get_put_other _ _ _ _ T' s nat_ne_mangle). exact Hm.
  - destruct (mrel_insert _ _ _ _ Hm) as (Tm' & E & Hm').
    replace (is_fam sp) with f by reflexivity. rewrite exec_ipt_nl by discriminate. rewrite E.
    eexists. split; [reflexivity|]. split; cbn [fst snd].
    + unfold RelS, sp in *. cbn [is_fam is_tbl nat_is] in *. rewrite (get_put_other _ _ _ _ Tm' s mangle_ne_nat). exact Hr.
    + rewrite get_put_same. exact Hm'.
  - pose proof (mrel_delete _ _ _ _ Hm) as H. replace (is_fam sp) with f by reflexivity. rewrite exec_ipt_nl by discriminate.
    destruct (snd st) as [|j] eqn:Mk.
    + rewrite H. reflexivity.
    + destruct H as (Tm' & E & Hm'). rewrite E. eexists. split; [reflexivity|]. split; cbn [fst snd].
      * unfold RelS, sp in *. cbn [is_fam is_tbl nat_is] in *. rewrite (get_put_other _ _ _ _ Tm' s mangle_ne_nat). exact Hr.
      * rewrite get_put_same. exact Hm'.
Qed.

Lemma otest_sim x s st :
  is_on sp x = true -> OR s st ->
  chain_in_listing (is_nm sp x) (listing (get_tbl (is_fam sp) (is_tbl sp) s)) = otest x st.
Proof. intros Hx [Hr _]. exact (itest_sim sp nato_is_wf x s (fst st) Hx Hr). Qed.

Definition oprog_on (pr : oprog) : Prop :=
  Forall (ok_step ocmd slot ocmd_on (fun x => is_on sp x = true)) pr.

Lemma oconc_fam c : exists t o, oconc sp M c = Ipt f t o.
Proof. destruct c; unfold oconc, iconc; replace (is_fam sp) with f by reflexivity; eauto. Qed.

Lemma ocmds_one c ok st : cmds_of [ECmd (oconc sp M c) ok st] = [oconc sp M c].
Proof. destruct (oconc_fam c) as (t & o & ->). reflexivity. Qed.

Lemma oprog_frame (Q : kstate -> Prop) (pr : oprog) :
  (forall t T s, Q s -> Q (put_tbl f t T s)) -> Forall (step_pres Q) (map (ocomp sp M) pr).
Proof.
  intro HQ. apply Forall_forall. intros st Hin. apply in_map_iff in Hin as (x & <- & _).
  assert (C : forall c, cmd_pres Q (oconc sp M c)).
  { intro c. destruct (oconc_fam c) as (t & o & ->). apply ipt_frame. apply HQ. }
  destruct x as [y|t body]; cbn [ocomp comp step_pres].
  - destruct y; cbn [comp_ss sstep_pres sstep_cmd]; apply C.
  - apply Forall_forall. intros z Hz. apply in_map_iff in Hz as (y & <- & _).
    destruct y; cbn [comp_ss sstep_pres sstep_cmd]; apply C.
Qed.

Theorem orun_sim (Q : kstate -> Prop) F pr n s st ok n' s' ev :
  (forall t T z, Q z -> Q (put_tbl f t T z)) ->
  oprog_on pr -> OR s st -> Q s -> run F (map (ocomp sp M) pr) n s = (ok, n', s', ev) ->
  exists st', orun sp M F pr n st = (ok, n', st', cmds_of ev) /\ OR s' st' /\ Q s'.
Proof.
  intros HQ Hp' Hr Hq H.
  destruct (gsim ostate ocmd slot (oexec sp) otest (oconc sp M) (fun _ => is_fam sp) (fun _ => is_tbl sp) (is_nm sp)
              OR ocmd_on (fun x => is_on sp x = true) oexec_sim
              ocmds_one
              otest_sim F pr n s st ok n' s' ev Hp' Hr H) as (st' & A & Hr').
  exists st'. split; [exact A|]. split; [exact Hr'|].
  exact (run_pres Q F _ _ _ _ _ _ _ (oprog_frame Q pr HQ) H Hq).
Qed.
End OwnerSim.

(* ---- the abstract programs ---- *)
Lemma orun_ext sp M F G pr n st ok n' st' tr :
  orun sp M F pr n st = (ok, n', st', tr) -> (forall i, n <= i < n' -> G i = F i) ->
  orun sp M G pr n st = (ok, n', st', tr).
Proof. unfold orun. apply arun_ext. Qed.
Lemma orun_win sp M F pr n st ok n' st' tr :
  orun sp M F pr n st = (ok, n', st', tr) -> n <= n' /\ length tr = n' - n.
Proof. unfold orun. apply arun_mono. Qed.
Lemma orun_app sp M F xs ys n st :
  orun sp M F (xs ++ ys) n st =
  let '(ok1, n1, a1, t1) := orun sp M F xs n st in
  if ok1 then let '(ok2, n2, a2, t2) := orun sp M F ys n1 a1 in (ok2, n2, a2, t1 ++ t2)
  else (false, n1, a1, t1).
Proof. unfold orun. apply arun_app. Qed.
Lemma orun_shift sp M F pr n st :
  orun sp M F pr n st = let '(ok, m, a', tr) := orun sp M (fun i => F (n + i)) pr 0 st in (ok, n + m, a', tr).
Proof. unfold orun. apply arun_shift. Qed.
Lemma orun_ext_all sp M F G pr n st : (forall i, G i = F i) -> orun sp M G pr n st = orun sp M F pr n st.
Proof.
  intro H. destruct (orun sp M F pr n st) as [[[ok n'] a'] tr] eqn:E.
  eapply orun_ext; [exact E|]. intros i _. apply H.
Qed.

Ltac ox_cbn H :=
  cbn [orun arun arun_step arun_ss arun_sstep oexec iexec aget aset arefs hooks inrefs cnto cntl
       slot_eqb is_on is_to is_tp is_nm nat_is only0 a_c0 a_c1 a_c2 a_jo a_jp
       app map negb andb orb fst snd plus Nat.eqb no_faults fault_at length filter] in H.
Ltac ox_red H := unfold orun in H; ox_cbn H; unfold aissue, otest, itest in H; ox_cbn H.
Ltac ox H := repeat (ox_red H; sx_step H); ox_red H.

Definition o_inv (st : ostate) : Prop :=
  nat_inv (fst st) /\ snd st <= 1 /\ (a_c0 (fst st) = None -> snd st = 0).

Ltac o_fin :=
  unfold o_inv, nat_inv, o_clean, o_full, a_clean, a_nat_full in *;
  cbn [itest aget a_c0 a_c1 a_c2 a_jo a_jp fst snd] in *;
  repeat match goal with
         | H : true = false |- _ => discriminate H
         | H : false = true |- _ => discriminate H
         | H : _ /\ _ |- _ => destruct H
         | H : (_, _) = (_, _) |- _ => injection H as <-
         | H : Some _ = Some _ |- _ => injection H as <-
         | H : Some _ = None |- _ => discriminate H
         | H : None = Some _ |- _ => discriminate H
         | H : Nat.eqb _ _ = true |- _ => apply Nat.eqb_eq in H
         | H : Nat.eqb _ _ = false |- _ => apply Nat.eqb_neq in H
         end; subst; cbn [itest aget a_c0 a_c1 a_c2 a_jo a_jp fst snd] in *.
Ltac o_solve := intuition (try lia; try discriminate; try congruence).

Section OwnerAbs.
Variable f : fam.
Variable p : tok.
Variable own : rule.
Let sp := nat_is f (Some own) p.
Let M := nat_mark_rule own p.

Lemma o_restore_nf n st ok n' st' tr :
  o_inv st -> orun sp M no_faults a_nato_restore n st = (ok, n', st', tr) -> ok = true /\ st' = o_clean.
Proof.
  intros Hi H. destruct st as [[c0 c1 c2 jo jp] mk]. unfold o_inv, nat_inv in Hi.
  cbn [fst snd a_c0 a_c1 a_c2 a_jo a_jp] in Hi. destruct Hi as ((-> & -> & H0 & Ho & Hp') & Hm & Hm0).
  destruct c0 as [rs|].
  - destruct jo as [|[|jo]]; [| |exfalso; lia]; (destruct jp as [|[|jp]]; [| |exfalso; lia]);
      (destruct mk as [|[|mk]]; [| |exfalso; lia]);
      unfold sp, a_nato_restore in H; ox H; o_fin; try (split; reflexivity); try (exfalso; lia).
  - destruct (H0 eq_refl) as [-> ->]. rewrite (Hm0 eq_refl) in H. unfold sp, a_nato_restore in H. ox H. o_fin.
    split; reflexivity.
Qed.

Definition nato_prelude : list (asstep ocmd) :=
  [ADo (OI (CNew S0)); ADo (OI (CFlush S0)); ATry OMark; ADo (OI (CHook true)); ADo (OI (CHook false))].
Definition nato_abody (rs : list rule) : list (asstep ocmd) := map (fun r => ADo (OI (CApp S0 r))) rs.

Lemma nato_setup_split rs :
  a_nato_setup rs = a_nato_restore ++ map ASimple nato_prelude ++ map ASimple (nato_abody rs).
Proof. unfold a_nato_setup. rewrite map_app. reflexivity. Qed.

Lemma o_prelude_nf n ok n' st' tr :
  orun sp M no_faults (map ASimple nato_prelude) n o_clean = (ok, n', st', tr) ->
  ok = true /\ st' = (mkA (Some []) None None 1 1, 1).
Proof. intro H. unfold sp, nato_prelude, o_clean, a_clean in H. ox H. o_fin. split; reflexivity. Qed.

Lemma o_prelude_inv F n ok n' st' tr :
  orun sp M F (map ASimple nato_prelude) n o_clean = (ok, n', st', tr) -> o_inv st'.
Proof. intro H. unfold sp, nato_prelude, o_clean, a_clean in H. ox H; o_fin; o_solve. Qed.

Lemma o_body_nf rs : forall n rs0 mk ok n' st' tr,
  orun sp M no_faults (map ASimple (nato_abody rs)) n (mkA (Some rs0) None None 1 1, mk) = (ok, n', st', tr) ->
  ok = true /\ st' = (mkA (Some (rs0 ++ rs)) None None 1 1, mk).
Proof.
  unfold orun. induction rs as [|r rs IH]; intros n rs0 mk ok n' st' tr H.
  - cbn in H. injection H as <- <- <- <-. rewrite app_nil_r. split; reflexivity.
  - cbn [nato_abody map arun arun_step arun_sstep aissue no_faults oexec iexec aget a_c0 aset a_c1 a_c2 a_jo a_jp fst snd] in H.
    match type of H with context [arun ?A ?B ?C ?D ?E ?G ?H1 ?H2 ?F ?xs ?m ?st] =>
      destruct (arun A B C D E G H1 H2 F xs m st) as [[[ok2 n2] a2] t2] eqn:R2 end.
    apply IH in R2 as [-> ->]. injection H as <- <- <- <-. rewrite <- app_assoc. split; reflexivity.
Qed.

Lemma o_body_inv rs : forall F n st ok n' st' tr,
  o_inv st -> orun sp M F (map ASimple (nato_abody rs)) n st = (ok, n', st', tr) -> o_inv st'.
Proof.
  unfold orun. induction rs as [|r rs IH]; intros F n st ok n' st' tr Hi H.
  - cbn in H. injection H as <- <- <- <-. exact Hi.
  - cbn [nato_abody map arun] in H.
    match type of H with context [arun_step ?A ?B ?C ?D ?E ?G ?H1 ?H2 F ?x n st] =>
      destruct (arun_step A B C D E G H1 H2 F x n st) as [[[ok1 n1] a1] t1] eqn:R1 end.
    assert (I1 : o_inv a1).
    { destruct st as [[c0 c1 c2 jo jp] mk]. unfold sp in R1. ox R1; o_fin; o_solve. }
    destruct ok1.
    + match type of H with context [arun ?A ?B ?C ?D ?E ?G ?H1 ?H2 F ?xs n1 a1] =>
        destruct (arun A B C D E G H1 H2 F xs n1 a1) as [[[ok2 n2] a2] t2] eqn:R2 end.
      injection H as <- <- <- <-. eapply IH; [exact I1 | exact R2].
    + injection H as <- <- <- <-. exact I1.
Qed.

Lemma o_setup_nf rs n st ok n' st' tr :
  o_inv st -> orun sp M no_faults (a_nato_setup rs) n st = (ok, n', st', tr) -> ok = true /\ st' = o_full rs.
Proof.
  intros Hi H. rewrite nato_setup_split, orun_app in H.
  destruct (orun sp M no_faults a_nato_restore n st) as [[[ok1 n1] a1] t1] eqn:R1.
  destruct (o_restore_nf _ _ _ _ _ _ Hi R1) as [-> ->].
  rewrite orun_app in H.
  destruct (orun sp M no_faults (map ASimple nato_prelude) n1 o_clean) as [[[ok2 n2] a2] t2] eqn:R2.
  destruct (o_prelude_nf _ _ _ _ _ R2) as [-> ->].
  destruct (orun sp M no_faults (map ASimple (nato_abody rs)) n2 (mkA (Some []) None None 1 1, 1)) as [[[ok3 n3] a3] t3] eqn:R3.
  destruct (o_body_nf _ _ _ _ _ _ _ _ R3) as [-> ->].
  injection H as <- <- <- <-. split; reflexivity.
Qed.

Lemma o_clean_inv : o_inv o_clean.
Proof. unfold o_inv, nat_inv, o_clean, a_clean. cbn. o_solve. Qed.
Lemma o_full_inv rs : o_inv (o_full rs).
Proof. unfold o_inv, nat_inv, o_full, a_nat_full. cbn. o_solve. Qed.

Lemma o_setup_inv_clean rs F n ok n' st' tr :
  orun sp M F (a_nato_setup rs) n o_clean = (ok, n', st', tr) -> o_inv st'.
Proof.
  intro H. rewrite nato_setup_split, orun_app in H.
  destruct (orun sp M F a_nato_restore n o_clean) as [[[ok1 n1] a1] t1] eqn:R1.
  assert (E1 : a1 = o_clean).
  { unfold sp, a_nato_restore, o_clean, a_clean in R1. ox R1; o_fin; reflexivity. }
  subst a1. destruct ok1; [|injection H as <- <- <- <-; exact o_clean_inv].
  rewrite orun_app in H.
  destruct (orun sp M F (map ASimple nato_prelude) n1 o_clean) as [[[ok2 n2] a2] t2] eqn:R2.
  pose proof (o_prelude_inv _ _ _ _ _ _ R2) as I2.
  destruct ok2.
  - destruct (orun sp M F (map ASimple (nato_abody rs)) n2 a2) as [[[ok3 n3] a3] t3] eqn:R3.
    injection H as <- <- <- <-. eapply o_body_inv; [exact I2 | exact R3].
  - injection H as <- <- <- <-. exact I2.
Qed.

Lemma o_restore_inv_one k n st ok n' st' tr :
  o_inv st -> orun sp M (fault_at k) a_nato_restore n st = (ok, n', st', tr) ->
  o_inv st' \/ (n <= k /\ exists x, nth_error tr (k - n) = Some x /\ is_mark_delete x = true).
Proof.
  intros Hi H. rewrite orun_shift in H.
  destruct (orun sp M (fun i => fault_at k (n + i)) a_nato_restore 0 st) as [[[ok0 m] a0] t0] eqn:E.
  injection H as <- <- <- <-.
  destruct (Nat.ltb k n) eqn:L.
  - apply Nat.ltb_lt in L. rewrite (orun_ext_all sp M no_faults) in E.
    2:{ intro i. unfold fault_at, no_faults. apply Nat.eqb_neq. lia. }
    destruct (o_restore_nf _ _ _ _ _ _ Hi E) as [_ ->]. left. exact o_clean_inv.
  - apply Nat.ltb_ge in L. assert (J : exists j, k = n + j) by (exists (k - n); lia). destruct J as [j ->].
    rewrite (orun_ext_all sp M (fault_at j)) in E by (intro i; apply fault_at_shift).
    replace (n + j - n) with j by lia.
    destruct st as [[c0 c1 c2 jo jp] mk]. destruct c0 as [rs|].
    + destruct j as [|[|[|[|[|[|j]]]]]]; unfold sp, a_nato_restore in E; ox E; o_fin;
        first [left; o_solve; fail | right; split; [lia|]; eexists; split; reflexivity].
    + left. unfold sp, a_nato_restore in E. ox E; o_fin; o_solve.
Qed.

Lemma o_restore_one rs k n ok n' st' tr :
  orun sp M (fault_at k) a_nato_restore n (o_full rs) = (ok, n', st', tr) ->
  a_nd sp (fst st') = true \/ (n <= k /\ exists x, nth_error tr (k - n) = Some x /\ excused x = true).
Proof.
  intro H. rewrite orun_shift in H.
  destruct (orun sp M (fun i => fault_at k (n + i)) a_nato_restore 0 (o_full rs)) as [[[ok0 m] a0] t0] eqn:E.
  injection H as <- <- <- <-.
  destruct (Nat.ltb k n) eqn:L.
  - apply Nat.ltb_lt in L. rewrite (orun_ext_all sp M no_faults) in E.
    2:{ intro i. unfold fault_at, no_faults. apply Nat.eqb_neq. lia. }
    destruct (o_restore_nf _ _ _ _ _ _ (o_full_inv rs) E) as [_ ->]. left. reflexivity.
  - apply Nat.ltb_ge in L. assert (J : exists j, k = n + j) by (exists (k - n); lia). destruct J as [j ->].
    rewrite (orun_ext_all sp M (fault_at j)) in E by (intro i; apply fault_at_shift).
    replace (n + j - n) with j by lia.
    destruct j as [|[|[|[|[|[|j]]]]]]; unfold sp, a_nato_restore, o_full, a_nat_full in E; ox E; o_fin;
      first [left; reflexivity | right; split; [lia|]; eexists; split; reflexivity].
Qed.
End OwnerAbs.

(* ------------------------------------------------------------------ *)
Section OwnerMethod.
Variable c : cfg.
Variable own : rule.
Hypothesis Hm : c_method c = MNat.
Hypothesis Ho : c_owner c = Some own.
Hypothesis Hudp : c_udp c = false.
Hypothesis Hwf : cfg_wf c = true.
Hypothesis Hport : forall f, pname_ok (fc_port (fcfg c f)) = true.
Variable s0 : kstate.
Hypothesis He : erase c s0 = s0.
Hypothesis Hk : kst_wf s0 = true.

Definition osp (f : fam) : ispec := nat_is f (Some own) (fc_port (fcfg c f)).
Definition oM (f : fam) : rule := nat_mark_rule own (fc_port (fcfg c f)).
Definition oR (f : fam) (s : kstate) (st : ostate) : Prop :=
  OR f (fc_port (fcfg c f)) own (get_tbl f TMangle s0) s st.
Definition oAS (f : fam) : oprog := a_nato_setup (map snd (fc_body (fcfg c f))).
Definition oS (F : faultfn) (f : fam) (n : nat) (st : ostate) := orun (osp f) (oM f) F (oAS f) n st.
Definition oRr (F : faultfn) (f : fam) (n : nat) (st : ostate) := orun (osp f) (oM f) F a_nato_restore n st.

Lemma owner_not_pf : not_pf c = true.
Proof. unfold not_pf. rewrite Hm. reflexivity. Qed.
Lemma owner_udp : udp_refused c = false.
Proof. unfold udp_refused. rewrite Hudp. reflexivity. Qed.

Lemma owner_progR f : restore_prog c f = map (ocomp (osp f) (oM f)) a_nato_restore.
Proof. unfold restore_prog. rewrite Hm, Ho. reflexivity. Qed.

Lemma owner_progS f : fc_on (fcfg c f) = true -> setup_prog c f = map (ocomp (osp f) (oM f)) (oAS f).
Proof.
  intro On. unfold setup_prog. rewrite Hm, Ho. unfold nat_setup, oAS, a_nato_setup.
  rewrite (map_app (ocomp (osp f) (oM f))). apply (f_equal2 (@app step)); [reflexivity|].
  cbn [app map]. do 5 (apply (f_equal2 cons); [reflexivity|]).
  rewrite !map_map. apply map_ext_in. intros cr Hin. cbn.
  rewrite (nat_body_chain c Hm Hwf f On cr Hin). reflexivity.
Qed.

Lemma owner_onR f : oprog_on f (fc_port (fcfg c f)) own a_nato_restore.
Proof.
  apply Forall_cons; [|apply Forall_nil]. split; [reflexivity|].
  repeat (apply Forall_cons; [exact I || reflexivity|]). apply Forall_nil.
Qed.

Lemma owner_onS f : oprog_on f (fc_port (fcfg c f)) own (oAS f).
Proof.
  unfold oAS, a_nato_setup. apply forall_and_app; [apply owner_onR|].
  apply Forall_forall. intros x Hx. apply in_map_iff in Hx as (y & <- & Hy).
  apply in_app_iff in Hy as [Hy|Hy].
  - cbn in Hy. repeat (destruct Hy as [<-|Hy]; [cbn; auto|]). destruct Hy.
  - apply in_map_iff in Hy as (r & <- & _). reflexivity.
Qed.

Lemma oR_frame f f' x t T z : f' <> f -> oR f' z x -> oR f' (put_tbl f t T z) x.
Proof.
  intros Hne [Hr Hmr]. unfold oR, OR, RelS in *. cbn [is_fam is_tbl nat_is] in *.
  assert (N : forall t', (f', t') <> (f, t)) by (intros t' E; injection E as E _; contradiction).
  rewrite !(get_put_other _ _ _ _ T z (N _)). split; assumption.
Qed.

Lemma owner_sim (prog : fam -> list step) (AP : fam -> oprog) :
  (forall f, fc_on (fcfg c f) = true -> prog f = map (ocomp (osp f) (oM f)) (AP f)) ->
  (forall f, oprog_on f (fc_port (fcfg c f)) own (AP f)) ->
  sim_hyp c ostate oR prog (fun F f n st => orun (osp f) (oM f) F (AP f) n st).
Proof.
  intros Hpr Hon F f n s st ok n' s' ev On Hr Run. unfold on in On. rewrite (Hpr f On) in Run.
  set (f' := match f with V6 => V4 | V4 => V6 end).
  assert (Hne : f' <> f) by (destruct f; discriminate).
  assert (G : exists st', orun (osp f) (oM f) F (AP f) n st = (ok, n', st', cmds_of ev) /\ oR f s' st' /\
                          forall x, oR f' s x -> oR f' s' x).
  { assert (A : forall x, oR f' s x -> exists st', orun (osp f) (oM f) F (AP f) n st = (ok, n', st', cmds_of ev) /\
                                                   oR f s' st' /\ oR f' s' x).
    { intros x Hx.
      exact (orun_sim f (fc_port (fcfg c f)) own (Hport f) (port_ok_f c f Hwf) (get_tbl f TMangle s0)
               (fun z => oR f' z x) F (AP f) n s st ok n' s' ev
               (fun t T z Hz => oR_frame f f' x t T z Hne Hz) (Hon f) Hr Hx Run). }
    destruct (orun_sim f (fc_port (fcfg c f)) own (Hport f) (port_ok_f c f Hwf) (get_tbl f TMangle s0)
                (fun _ => True) F (AP f) n s st ok n' s' ev (fun _ _ _ _ => I) (Hon f) Hr I Run) as (st' & A1 & A2 & _).
    exists st'. split; [exact A1|]. split; [exact A2|]. intros x Hx.
    destruct (A x Hx) as (st2 & B1 & _ & B3). exact B3. }
  destruct G as (st' & A & Hr' & Hfr). exists st'. split; [exact A|]. split; [exact Hr'|].
  intros g x Hg Hx. assert (D : g = f \/ g = f') by (destruct f, g; cbn; auto).
  destruct D as [->| ->]; [contradiction | apply Hfr; exact Hx].
Qed.

Lemma owner_own_chains f t :
  own_chains c f t = if fc_on (fcfg c f) then match t with TNat => is_names (osp f) | TMangle => [] end else [].
Proof. unfold own_chains. rewrite Hm. destruct (fc_on (fcfg c f)), t; reflexivity. Qed.
Lemma owner_own_mark f t :
  own_mark c f t = if fc_on (fcfg c f) then match t with TNat => None | TMangle => Some (oM f) end else None.
Proof. unfold own_mark. rewrite Hm, Ho. destruct (fc_on (fcfg c f)), t; reflexivity. Qed.
Lemma owner_nft : own_nft c = [].
Proof. unfold own_nft. rewrite Hm. reflexivity. Qed.

Lemma owner_tbl_fix f t s :
  (fc_on (fcfg c f) = true -> oR f s o_clean) ->
  erase_tbl (own_chains c f t) (own_mark c f t) (get_tbl f t s) = get_tbl f t s.
Proof.
  intro H. rewrite owner_own_chains, owner_own_mark. destruct (fc_on (fcfg c f)) eqn:On; [|apply erase_tbl_nil].
  destruct (H eq_refl) as [Hr Hmr]. destruct t.
  - apply clean_erase_fix. apply (rel_clean_fin (osp f)). exact Hr.
  - cbn [snd o_clean] in Hmr. rewrite (mrel_zero _ _ _ Hmr).
    pose proof (erase_get c f TMangle s0 He) as E. rewrite owner_own_chains, owner_own_mark, On in E. exact E.
Qed.

Lemma owner_fin s : (forall f, on c f = true -> oR f s o_clean) -> erase c s = s.
Proof.
  intro H. unfold erase. rewrite owner_nft, erase_nft_nil.
  pose proof (owner_tbl_fix V6 TNat s (H V6)) as E1. pose proof (owner_tbl_fix V6 TMangle s (H V6)) as E2.
  pose proof (owner_tbl_fix V4 TNat s (H V4)) as E3. pose proof (owner_tbl_fix V4 TMangle s (H V4)) as E4.
  cbn [get_tbl] in E1, E2, E3, E4. rewrite E1, E2, E3, E4. destruct s; reflexivity.
Qed.

Lemma owner_tbl_nd f t s (st : ostate) :
  (fc_on (fcfg c f) = true -> oR f s st /\ a_nd (osp f) (fst st) = true) ->
  no_divert_tbl (own_chains c f t) (get_tbl f t s) = true.
Proof.
  intro H. rewrite owner_own_chains. destruct (fc_on (fcfg c f)) eqn:On; [|apply no_divert_nil].
  destruct t; [|apply no_divert_nil]. destruct (H eq_refl) as [[Hr _] Hn].
  exact (rel_no_divert (osp f) _ (fst st) Hr Hn).
Qed.

Lemma owner_nd s (a : fam -> ostate) :
  (forall f, on c f = true -> oR f s (a f) /\ a_nd (osp f) (fst (a f)) = true) -> no_divert c s = true.
Proof.
  intro H. unfold no_divert. rewrite owner_nft.
  pose proof (owner_tbl_nd V6 TNat s (a V6) (H V6)) as E1. pose proof (owner_tbl_nd V6 TMangle s (a V6) (H V6)) as E2.
  pose proof (owner_tbl_nd V4 TNat s (a V4) (H V4)) as E3. pose proof (owner_tbl_nd V4 TMangle s (a V4) (H V4)) as E4.
  cbn [get_tbl] in E1, E2, E3, E4. rewrite E1, E2, E3, E4.
  cbn [andb]. apply forallb_forall. intros x _. reflexivity.
Qed.

Lemma owner_init : St c ostate oR s0 o_clean o_clean.
Proof.
  assert (G : forall f, on c f = true -> oR f s0 o_clean).
  { intros f On. unfold on in On. split; cbn [fst snd o_clean].
    - unfold RelS. cbn [is_fam is_tbl nat_is].
      apply (rel_clean_init (nat_is f (Some own) (fc_port (fcfg c f)))); [|apply kst_wf_tbl; exact Hk].
      apply erase_fix_clean. pose proof (erase_get c f TNat s0 He) as E.
      rewrite owner_own_chains, owner_own_mark, On in E. exact E.
    - pose proof (kst_wf_tbl s0 f TMangle Hk) as W. unfold tbl_wf in W.
      apply andb_true_iff in W as [W _]. apply andb_true_iff in W as [_ W].
      destruct (find_chain bOUTPUT (get_tbl f TMangle s0)) as [ro|] eqn:F0; [|discriminate].
      exists ro. split; [exact F0|]. split; [symmetry; apply set_chain_same; exact F0|].
      apply remove_first_absent. intros r Hr.
      pose proof (erase_get c f TMangle s0 He) as E. rewrite owner_own_chains, owner_own_mark, On in E.
      pose proof (erase_fix_keep _ _ _ (bOUTPUT, ro) r E (find_chain_in _ _ _ F0) Hr) as K.
      unfold keep_rule in K. apply andb_true_iff in K as [_ K]. apply negb_true_iff in K.
      unfold is_mark in K. cbn [fst] in K. change (bytes_eqb bOUTPUT bOUTPUT) with true in K. exact K. }
  split; apply G.
Qed.

Theorem nat_owner_all_exits k cut :
  (let r := session c cut (fault_at k) s0 in
   Nat.leb (r_fin_at r) k && match nth_cmd k (r_events r) with Some x => is_mark_delete x | None => false end = false) ->
  sess_ok c s0 k cut = true.
Proof.
  intro Hexc.
  apply (all_exits c owner_not_pf Hwf owner_udp ostate oR (fun _ => o_clean)
           (fun f st => st = o_full (map snd (fc_body (fcfg c f)))) (fun _ => o_inv)
           (fun f st => a_nd (osp f) (fst st)) is_mark_delete oS oRr).
  - apply (owner_sim (setup_prog c) oAS owner_progS owner_onS).
  - apply (owner_sim (restore_prog c) (fun _ => a_nato_restore) (fun f _ => owner_progR f) owner_onR).
  - intros F G f n a ok n' a' tr. apply orun_ext.
  - intros F G f n a ok n' a' tr. apply orun_ext.
  - intros F f n a ok n' a' tr. apply orun_win.
  - intros F f n a ok n' a' tr. apply orun_win.
  - intro f. apply o_clean_inv.
  - intros F f n a ok n' a' tr Hi [->|Hnf] H.
    + eapply o_setup_inv_clean. exact H.
    + unfold oS in H. rewrite (orun_ext_all _ _ no_faults) in H by (intro i; apply Hnf).
      destruct (o_setup_nf _ _ _ _ _ _ _ _ _ _ Hi H) as [_ ->]. apply o_full_inv.
  - intros k0 f n a ok n' a' tr Hi H. eapply o_restore_inv_one; eassumption.
  - intros f n a ok n' a' tr _ Hi H. exact (proj2 (o_restore_nf _ _ _ _ _ _ _ _ _ Hi H)).
  - intros f n a ok n' a' tr _ Hi H. eapply o_setup_nf; eassumption.
  - intros f k0 n a ok n' a' tr _ -> H. eapply o_restore_one; exact H.
  - exact owner_fin.
  - exact owner_nd.
  - exact owner_init.
  - exact Hexc.
Qed.
End OwnerMethod.
