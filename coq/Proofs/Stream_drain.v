(* Proofs/Stream_drain.v — the liveness half of C01 / C02 / C09 for the stream core:
   the eager drain.  Stream_quiet.v says what holds ONCE the tunnel is quiescent; this
   file shows that it BECOMES quiescent when the environment stops making it wait:

     eager_drain            (= Stream_quiet.eager_drain_full)  from every reachable state
                            without stale delivery some finite schedule of eager micro-steps
                            (no new connection, every recv answers EAGAIN, every send accepts
                            everything, every connect completes, no check_fullness), none of
                            which crashes, reaches a state that is quiescent or in which a
                            stale delivery happened
     eager_drain_sched      ... and that schedule is the one the executable scheduler
                            Model/StreamDrain.drain computes (flush, dispatch, then handlers);
                            the final state is even strictly quiescent (no pending connect)
     d_c01_eventual_delivery  C01: ... in which every byte read before has been delivered
     d_c02_eventually_not_stuck  C02: ... in which nothing is stuck and every handler waits
                            for the outside world (or is F20-shaped)
     d_c09_pause_ends         C09: ... in which no end is paused any more

   Method: a natural-number variant (Model/StreamDrain.mu: bytes x remaining hops, frames
   x remaining hops with a PING counting for its PONG and a CONNECT for the handler it
   creates, chunks, the EOF / STOP_SENDING every mux wrapper may still emit, pending
   connects) that every step of the scheduler makes strictly smaller (sched_some), while the
   scheduler stops only in strictly quiescent states (sched_none).  No step crashes: a
   callback only re-raises an unhandled connect errno (Stream_props.callback_crash), a
   dispatch additionally only trips the CONNECT assertion, which never fires in a state
   without stale delivery (Stream_assert.connect_assert_never_fires).
   Only the dispatch steps need the run invariants (Ginv, Sinv); the variant argument
   itself holds in every state. *)
From Coq Require Import List NArith Ascii Bool Lia FinFun.
From SV Require Import Lib.Bytes Model.Wire Model.Chan Model.Stream Model.StreamQuiet Model.StreamDrain
  Proofs.Wire_lemmas Proofs.Chan_lemmas Proofs.Stream_basic Proofs.Stream_wrap Proofs.Stream_cb
  Proofs.Stream_reg Proofs.Stream_fw Proofs.Stream_view Proofs.Stream_flow Proofs.Stream_lat
  Proofs.Stream_props Proofs.Stream_assert Proofs.Stream_quiet.
Import ListNotations.
Local Open Scope N_scope.

(* ================================================================== *)
(* 1. Arithmetic of the variant                                        *)
(* ================================================================== *)

Lemma bufw_cons c b l : bufw c (b :: l) = c * lenN b + 1 + bufw c l.
Proof. reflexivity. Qed.

Lemma bufw_app c a b : bufw c (a ++ b) = bufw c a + bufw c b.
Proof. induction a as [|x a IH]; [reflexivity|]. cbn [app]. rewrite !bufw_cons, IH. lia. Qed.

Lemma bufw_drop_empty c l : bufw c (drop_empty l) <= bufw c l.
Proof.
  induction l as [|b l IH]; [cbn; lia|].
  destruct b as [|a b]; cbn [drop_empty]; [|lia]. rewrite bufw_cons. lia.
Qed.

Lemma bufw_nonempty c l : nonempty_buf l = true -> 1 <= bufw c l.
Proof. destruct l as [|b l]; [discriminate|]. intros _. rewrite bufw_cons. lia. Qed.

Lemma bufw_advance c b rest w : w <= lenN b ->
  bufw c (advance (b :: rest) w) + c * w <= bufw c (b :: rest).
Proof.
  intros Hw. unfold advance. pose proof (bufw_drop_empty c (dropN w b :: rest)) as H.
  rewrite !bufw_cons in *. rewrite lenN_dropN in H by exact Hw.
  assert (E : c * (lenN b - w) + c * w = c * lenN b) by (rewrite <- N.mul_add_distr_l; f_equal; lia).
  lia.
Qed.

Lemma qw_app a b : qw (a ++ b) = qw a + qw b.
Proof. induction a as [|f a IH]; [reflexivity|]. cbn [app qw fold_right] in *. fold (qw (a ++ b)). fold (qw a). lia. Qed.

Lemma lw_app a b : lw (a ++ b) = lw a + lw b.
Proof. induction a as [|f a IH]; [reflexivity|]. cbn [app lw fold_right] in *. fold (lw (a ++ b)). fold (lw a). lia. Qed.

Lemma qw_one f : qw [f] = fwl f + 2.
Proof. unfold qw, fwq. cbn [fold_right]. lia. Qed.

Lemma qw_cons f l : qw (f :: l) = fwl f + 2 + qw l.
Proof. reflexivity. Qed.

Lemma lw_cons f l : lw (f :: l) = fwl f + lw l.
Proof. reflexivity. Qed.

Lemma fwl_ge f : 2 <= fwl f.
Proof. unfold fwl. lia. Qed.

(* ---- sums over the flow numbers of an end ---- *)
Lemma sumw_cons f g l : sumw f (g :: l) = opw (f g) + sumw f l.
Proof. reflexivity. Qed.

Lemma sumw_app f a b : sumw f (a ++ b) = sumw f a + sumw f b.
Proof. induction a as [|g a IH]; [reflexivity|]. cbn [app]. rewrite !sumw_cons, IH. lia. Qed.

Lemma sumw_upd_notin f g v l : ~ In g l -> sumw (upd f g v) l = sumw f l.
Proof.
  induction l as [|a l IH]; intros H; [reflexivity|].
  rewrite !sumw_cons, IH by (intros C; apply H; right; exact C).
  rewrite upd_other; [reflexivity|]. intros ->. apply H. left. reflexivity.
Qed.

(* updating one handler changes the sum by the difference *)
Lemma sumw_upd f g p p' l : NoDup l -> In g l -> f g = Some p ->
  sumw (upd f g (Some p')) l + pw p = sumw f l + pw p'.
Proof.
  induction l as [|a l IH]; intros Hnd Hin Hf; [destruct Hin|].
  inversion Hnd as [|? ? Hna Hnd']; subst. rewrite !sumw_cons.
  destruct (N.eq_dec a g) as [->|Hne].
  - rewrite upd_same, Hf, (sumw_upd_notin f g _ l Hna). cbn [opw]. lia.
  - destruct Hin as [C|Hin]; [contradiction|].
    rewrite upd_other by exact Hne. specialize (IH Hnd' Hin Hf). lia.
Qed.

Lemma fids_NoDup e : NoDup (fids e).
Proof.
  unfold fids. apply Injective_map_NoDup; [|apply seq_NoDup].
  intros a b H. apply Nnat.Nat2N.inj. exact H.
Qed.

Lemma fids_succ prox x n : fids (mkEnd x prox (n + 1)) = map N.of_nat (seq 0 (N.to_nat n)) ++ [n].
Proof.
  unfold fids. cbn [e_next]. rewrite N.add_1_r, Nnat.N2Nat.inj_succ.
  rewrite seq_S, map_app. cbn [map plus]. rewrite Nnat.N2Nat.id. reflexivity.
Qed.

(* ---- the world ---- *)
Lemma mu_set_end w sd e : mu (set_end w sd e) + ew (get_end w sd) = mu w + ew e.
Proof. unfold mu. destruct sd; cbn [set_end get_end w_cl w_sv w_cs w_sc]; lia. Qed.

Lemma ew_set_prox e g p p' x' : In g (fids e) -> e_prox e g = Some p ->
  ew (set_prox e g p' x') + pw p + qw (x_out (e_mux e)) = ew e + pw p' + qw (x_out x').
Proof.
  intros Hin Hp. unfold ew. cbn [set_prox e_mux e_prox].
  change (fids (set_prox e g p' x')) with (fids e).
  pose proof (sumw_upd (e_prox e) g p p' (fids e) (fids_NoDup e) Hin Hp). lia.
Qed.

(* one handler acts: its weight plus that of the frames it queues *)
Lemma mu_act w sd g p p' x' new : In g (fids (get_end w sd)) -> e_prox (get_end w sd) g = Some p ->
  x_out x' = x_out (e_mux (get_end w sd)) ++ new ->
  mu (set_end w sd (set_prox (get_end w sd) g p' x')) + pw p = mu w + pw p' + qw new.
Proof.
  intros Hin Hp Hout.
  pose proof (mu_set_end w sd (set_prox (get_end w sd) g p' x')) as A.
  pose proof (ew_set_prox (get_end w sd) g p p' x' Hin Hp) as B.
  rewrite Hout, qw_app in B. lia.
Qed.

(* ================================================================== *)
(* 2. The wrapper operations under the variant                         *)
(* ================================================================== *)

Definition eof_w : N := 4.

Lemma nowrite_w m x fid :
  exists new, x_out (snd (m_nowrite m x fid)) = x_out x ++ new /\
    x_too_full (snd (m_nowrite m x fid)) = x_too_full x /\
    pot (fst (m_nowrite m x fid)) + qw new <= pot m /\
    (m_sw m = false -> pot (fst (m_nowrite m x fid)) + qw new < pot m) /\
    m_buf (fst (m_nowrite m x fid)) = m_buf m.
Proof.
  destruct m as [ch sr sw mb]. unfold m_nowrite, m_setnowrite, m_maybe_close, pot. cbn [m_sw m_sr m_chan m_buf].
  destruct sw; cbn [fst snd].
  - exists []. rewrite app_nil_r. cbn. splits; auto; try lia; try discriminate.
  - exists [mkSF ch CEof [] (Some fid)]. destruct sr; cbn; splits; auto; lia.
Qed.

Lemma noread_w m x fid :
  exists new, x_out (snd (m_noread m x fid)) = x_out x ++ new /\
    x_too_full (snd (m_noread m x fid)) = x_too_full x /\
    pot (fst (m_noread m x fid)) + qw new <= pot m /\
    (m_sr m = false -> pot (fst (m_noread m x fid)) + qw new < pot m) /\
    m_buf (fst (m_noread m x fid)) = m_buf m.
Proof.
  destruct m as [ch sr sw mb]. unfold m_noread, m_setnoread, m_maybe_close, pot. cbn [m_sw m_sr m_chan m_buf].
  destruct sr; cbn [fst snd].
  - exists []. rewrite app_nil_r. cbn. splits; auto; try lia; try discriminate.
  - exists [mkSF ch CStop [] (Some fid)]. destruct sw; cbn; splits; auto; lia.
Qed.

Lemma lenN_takeN_pos n a b : 1 <= n -> 1 <= lenN (takeN n (a :: b)) /\ lenN (takeN n (a :: b)) <= lenN (a :: b).
Proof.
  intros Hn. destruct (N.le_gt_cases n (lenN (a :: b))) as [H|H].
  - rewrite lenN_takeN by exact H. lia.
  - rewrite takeN_all by lia. rewrite lenN_cons. lia.
Qed.

(* MuxWrapper.uwrite of a non-empty chunk: the DATA frame costs less than the bytes it takes *)
Lemma uwrite_w m x fid a b0 :
  exists new, x_out (fst (m_uwrite m x fid (a :: b0))) = x_out x ++ new /\
    x_too_full (fst (m_uwrite m x fid (a :: b0))) = x_too_full x /\
    snd (m_uwrite m x fid (a :: b0)) <= lenN (a :: b0) /\
    qw new <= 10 * snd (m_uwrite m x fid (a :: b0)) /\
    (x_too_full x = false -> qw new < 10 * snd (m_uwrite m x fid (a :: b0))).
Proof.
  unfold m_uwrite. destruct (x_too_full x) eqn:Et; cbn [fst snd].
  - exists []. rewrite app_nil_r. cbn. splits; auto; try lia; try discriminate.
  - destruct (lenN_takeN_pos 2048 a b0 ltac:(lia)) as [L1 L2].
    exists [mkSF (m_chan m) CData (takeN 2048 (a :: b0)) (Some fid)]. splits; auto.
    + rewrite qw_one. unfold fwl. cbn [sf_data sf_cmd]. lia.
    + intros _. rewrite qw_one. unfold fwl. cbn [sf_data sf_cmd]. lia.
Qed.

(* SockWrapper.copy_to(MuxWrapper) *)
Lemma copy_s_to_m_w s m x fid :
  let '(s', m', x') := copy_s_to_m s m x fid in
  exists new, x_out x' = x_out x ++ new /\ x_too_full x' = x_too_full x /\
    bufw 10 (s_buf s') + pot m' + qw new <= bufw 10 (s_buf s) + pot m /\
    (nonempty_buf (s_buf s) = true -> x_too_full x = false ->
       bufw 10 (s_buf s') + pot m' + qw new < bufw 10 (s_buf s) + pot m) /\
    m_buf m' = m_buf m /\ s_conn s' = s_conn s /\ s_sw s' = s_sw s.
Proof.
  unfold copy_s_to_m.
  assert (P1 : exists buf' x1 new1,
    (match s_buf s with
     | (a :: b0) :: rest => let '(x1, w) := m_uwrite m x fid (a :: b0) in (advance (s_buf s) w, x1)
     | _ => (drop_empty (s_buf s), x)
     end) = (buf', x1) /\
    x_out x1 = x_out x ++ new1 /\ x_too_full x1 = x_too_full x /\
    bufw 10 buf' + qw new1 <= bufw 10 (s_buf s) /\
    (nonempty_buf (s_buf s) = true -> x_too_full x = false -> bufw 10 buf' + qw new1 < bufw 10 (s_buf s))).
  { destruct (s_buf s) as [|[|a b0] rest] eqn:Eb.
    - exists [], x, []. rewrite app_nil_r. cbn. splits; auto; try lia; try discriminate.
    - exists (drop_empty rest), x, []. rewrite app_nil_r.
      pose proof (bufw_drop_empty 10 rest) as H. rewrite bufw_cons. cbn [qw fold_right]. splits; auto; try lia.
    - destruct (uwrite_w m x fid a b0) as (new & U1 & U2 & U3 & U4 & U5).
      destruct (m_uwrite m x fid (a :: b0)) as [x1 w]. cbn [fst snd] in *.
      exists (advance ((a :: b0) :: rest) w), x1, new.
      pose proof (bufw_advance 10 (a :: b0) rest w U3) as H.
      unfold bytes in *. splits; auto; try lia. intros _ Ht. specialize (U5 Ht). lia. }
  destruct P1 as (buf' & x1 & new1 & -> & Ho1 & Ht1 & Hle & Hlt).
  destruct buf' as [|b1 bs1].
  - destruct (s_sr s) eqn:Esr.
    + destruct (nowrite_w m x1 fid) as (new2 & N1 & N2 & N3 & _ & N5).
      destruct (m_nowrite m x1 fid) as [m' x2]. cbn [fst snd] in *.
      exists (new1 ++ new2). cbn [s_buf s_conn s_sw]. rewrite qw_app. splits; auto; try lia.
      * rewrite N1, Ho1. apply app_assoc_reverse.
      * congruence.
      * intros A B. specialize (Hlt A B). lia.
    + exists new1. cbn [s_buf s_conn s_sw]. splits; auto; try lia.
      intros A B. specialize (Hlt A B). lia.
  - exists new1. cbn [s_buf s_conn s_sw]. splits; auto; try lia.
    intros A B. specialize (Hlt A B). lia.
Qed.

(* MuxWrapper.copy_to(SockWrapper) when send() accepts at least one byte *)
Lemma copy_m_to_s_w m s k ok : 1 <= k ->
  let '(m', s') := copy_m_to_s m s (SendAccept k) ok in
  bufw 1 (m_buf m') <= bufw 1 (m_buf m) /\
  (nonempty_buf (m_buf m) = true -> s_conn s = false ->
     bufw 1 (m_buf m') < bufw 1 (m_buf m) \/ (s_sw s = true /\ nonempty_buf (m_buf m') = true)) /\
  pot m' = pot m /\ s_buf s' = s_buf s /\ s_conn s' = s_conn s /\ (s_sw s = true -> s_sw s' = true).
Proof.
  intros Hk. pose proof (copy_m_to_s_spec m s (SendAccept k) ok) as Sp. unfold copy_m_to_s in *.
  assert (P1 : exists buf' s1,
    (match m_buf m with
     | (a :: b0) :: rest => let '(s1, w) := s_uwrite s (a :: b0) (SendAccept k) ok in (advance (m_buf m) w, s1)
     | _ => (drop_empty (m_buf m), s)
     end) = (buf', s1) /\
    bufw 1 buf' <= bufw 1 (m_buf m) /\
    (nonempty_buf (m_buf m) = true -> s_conn s = false ->
       bufw 1 buf' < bufw 1 (m_buf m) \/ (s_sw s = true /\ nonempty_buf buf' = true))).
  { destruct (m_buf m) as [|[|a b0] rest] eqn:Eb.
    - exists [], s. cbn. splits; auto; try lia; try discriminate.
    - exists (drop_empty rest), s. pose proof (bufw_drop_empty 1 rest) as H. rewrite bufw_cons.
      unfold bytes in *. splits; auto; try lia.
    - unfold s_uwrite. destruct (s_conn s) eqn:Ec.
      + exists (advance ((a :: b0) :: rest) 0), s.
        pose proof (bufw_advance 1 (a :: b0) rest 0 ltac:(lia)) as H.
        unfold bytes in *. splits; auto; try lia; try (intros _ C; discriminate).
      + destruct (s_sw s) eqn:Esw.
        * eexists (advance ((a :: b0) :: rest) 0), _. split; [reflexivity|].
          pose proof (bufw_advance 1 (a :: b0) rest 0 ltac:(lia)) as H.
          unfold bytes in *. split; [lia|]. intros _ _. right. split; [reflexivity|].
          unfold advance. rewrite dropN_0. reflexivity.
        * eexists (advance ((a :: b0) :: rest) (N.min k (lenN (a :: b0)))), _. split; [reflexivity|].
          pose proof (bufw_advance 1 (a :: b0) rest (N.min k (lenN (a :: b0))) ltac:(lia)) as H.
          rewrite lenN_cons in *. unfold bytes in *. split; [lia|]. intros _ _. left. lia. }
  destruct P1 as (buf' & s1 & E1 & Hle & Hlt). rewrite E1 in *.
  destruct buf' as [|b1 bs1].
  - destruct (m_sr m) eqn:Esr; destruct Sp as (d & _ & _ & _ & G1 & G2 & G3 & _ & G4 & (_ & G5 & _) & _);
      cbn [m_buf m_sr m_sw] in *; unfold pot; cbn [m_sr m_sw]; rewrite ?Esr; splits; auto.
  - destruct Sp as (d & _ & _ & _ & G1 & G2 & G3 & _ & G4 & (_ & G5 & _) & _);
      cbn [m_buf m_sr m_sw] in *; unfold pot; cbn [m_sr m_sw]; splits; auto.
Qed.

(* the two copies of one callback, in either order *)
Lemma copies_w sd s1 m0 x fid o k : io_send o = SendAccept k -> 1 <= k ->
  let '(s2, m2, x2) := copies sd s1 m0 x fid o in
  exists new, x_out x2 = x_out x ++ new /\ s_conn s2 = s_conn s1 /\
    bufw 10 (s_buf s2) + bufw 1 (m_buf m2) + pot m2 + qw new <= bufw 10 (s_buf s1) + bufw 1 (m_buf m0) + pot m0 /\
    (nonempty_buf (s_buf s1) = true -> x_too_full x = false ->
       bufw 10 (s_buf s2) + bufw 1 (m_buf m2) + pot m2 + qw new < bufw 10 (s_buf s1) + bufw 1 (m_buf m0) + pot m0) /\
    (nonempty_buf (m_buf m0) = true -> s_conn s1 = false ->
       bufw 10 (s_buf s2) + bufw 1 (m_buf m2) + pot m2 + qw new < bufw 10 (s_buf s1) + bufw 1 (m_buf m0) + pot m0 \/
       (s_sw s2 = true /\ nonempty_buf (m_buf m2) = true)).
Proof.
  intros Es Hk. destruct sd; unfold copies; rewrite Es.
  - pose proof (copy_s_to_m_w s1 m0 x fid) as A.
    destruct (copy_s_to_m s1 m0 x fid) as [[sa ma] xa].
    destruct A as (new & A1 & A2 & A3 & A4 & A5 & A6 & A7).
    pose proof (copy_m_to_s_w ma sa k (io_shut_ok o) Hk) as B.
    destruct (copy_m_to_s ma sa (SendAccept k) (io_shut_ok o)) as [mb sb].
    destruct B as (B1 & B2 & B3 & B4 & B5 & B6).
    exists new. rewrite B4, B3, A5 in *. splits; auto; try lia; try congruence.
    + intros P Q. specialize (A4 P Q). lia.
    + intros P Q. rewrite A6 in B2. destruct (B2 P Q) as [C|[C1 C2]]; [left; lia|right].
      split; [apply B6; exact C1|exact C2].
  - pose proof (copy_m_to_s_w m0 s1 k (io_shut_ok o) Hk) as B.
    destruct (copy_m_to_s m0 s1 (SendAccept k) (io_shut_ok o)) as [ma sa].
    destruct B as (B1 & B2 & B3 & B4 & B5 & B6).
    pose proof (copy_s_to_m_w sa ma x fid) as A.
    destruct (copy_s_to_m sa ma x fid) as [[sb mb] xb].
    destruct A as (new & A1 & A2 & A3 & A4 & A5 & A6 & A7).
    exists new. rewrite B4, A5 in *. splits; auto; try lia; try congruence.
    + intros P Q. specialize (A4 P Q). lia.
    + intros P Q. destruct (B2 P Q) as [C|[C1 C2]]; [left; lia|right].
      split; [rewrite A7; apply B6; exact C1|exact C2].
Qed.

Lemma try_connect_done s ok :
  exists s0, s_try_connect s ConnDone ok = Ok s0 /\ s_buf s0 = s_buf s /\ s_conn s0 = false.
Proof.
  unfold s_try_connect. destruct s as [cn sr sw sb ex rd wr ft]. destruct cn, sw; cbn; eexists; splits; reflexivity.
Qed.

Lemma fill_again s ok : s_fill s RecvAgain ok = s.
Proof. unfold s_fill. destruct (s_buf s); [|reflexivity]. destruct (s_conn s); [reflexivity|]. destruct (s_sr s); reflexivity. Qed.

Lemma eager_eio : eager_io eio.
Proof. unfold eager_io, eio. cbn. splits; auto. exists 65536. split; [reflexivity|lia]. Qed.

(* One Proxy.callback in the eager environment: the handler's weight plus that of the
   frames it queues does not grow, and shrinks when the handler was connecting, could
   frame buffered socket data, or had mux data for its socket. *)
Lemma callback_w sd fid p x o p' x' :
  eager_io o -> proxy_callback sd fid p x o = Ok (p', x') ->
  exists new, x_out x' = x_out x ++ new /\ pw p' + qw new <= pw p /\
    ((s_conn (p_s p) = true \/ (nonempty_buf (s_buf (p_s p)) = true /\ x_too_full x = false) \/
      nonempty_buf (m_buf (p_m p)) = true) -> pw p' + qw new < pw p).
Proof.
  intros (Ec & Er & (k & Es & Hk) & Eok). rewrite proxy_callback_unfold, Ec, Er.
  destruct (try_connect_done (p_s p) (io_shut_ok o)) as (s0 & E0 & B0 & C0). rewrite E0. cbv zeta.
  rewrite fill_again.
  pose proof (copies_w sd s0 (p_m p) x fid o k Es ltac:(lia)) as Hc.
  destruct (copies sd s0 (p_m p) x fid o) as [[s2 m2] x2].
  destruct Hc as (new & Ho & Hcn & Hle & Hlt1 & Hlt2). rewrite B0, C0 in *.
  set (s3 := if nonempty_buf (s_buf s2) && m_sw m2
             then s_noread (mkSock (s_conn s2) (s_sr s2) (s_sw s2) [] (s_exc s2) (s_rd s2) (s_wr s2) (s_fault s2))
             else s2).
  assert (S3 : bufw 10 (s_buf s3) <= bufw 10 (s_buf s2) /\ s_conn s3 = false).
  { unfold s3. destruct (nonempty_buf (s_buf s2) && m_sw m2); cbn; split; auto; lia. }
  destruct S3 as [S3a S3b].
  assert (M3 : forall m3 x3, (if nonempty_buf (m_buf m2) && s_sw s2
                     then m_noread (mkMuxw (m_chan m2) (m_sr m2) (m_sw m2) []) x2 fid
                     else (m2, x2)) = (m3, x3) ->
            exists sn, x_out x3 = x_out x2 ++ sn /\
              bufw 1 (m_buf m3) + pot m3 + qw sn <= bufw 1 (m_buf m2) + pot m2 /\
              (s_sw s2 = true -> nonempty_buf (m_buf m2) = true ->
                 bufw 1 (m_buf m3) + pot m3 + qw sn < bufw 1 (m_buf m2) + pot m2)).
  { intros m3 x3 E. destruct (nonempty_buf (m_buf m2) && s_sw s2) eqn:Ed.
    - apply andb_true_iff in Ed. destruct Ed as [Ed1 Ed2].
      destruct (noread_w (mkMuxw (m_chan m2) (m_sr m2) (m_sw m2) []) x2 fid) as (sn & N1 & _ & N3 & _ & N5).
      rewrite E in *. cbn [fst snd] in *. exists sn. rewrite N5. cbn [m_buf bufw fold_right].
      pose proof (bufw_nonempty 1 _ Ed1) as Hb. unfold pot in *. cbn [m_sr m_sw] in *.
      splits; auto; try lia.
    - inversion E; subst m3 x3. exists []. rewrite app_nil_r. cbn [qw fold_right]. splits; auto; try lia.
      intros P Q. rewrite P, Q in Ed. discriminate. }
  destruct (if nonempty_buf (m_buf m2) && s_sw s2 then _ else _) as [m3 x3].
  destruct (M3 m3 x3 eq_refl) as (sn & Ho3 & Hle3 & Hlt3). clear M3.
  assert (EP : forall pF xF,
    (if s_sr s3 && m_sr m3 && negb (nonempty_buf (s_buf s3)) && negb (nonempty_buf (m_buf m3))
     then let '(m4, x4) := m_nowrite m3 x3 fid in
          Ok (mkProxy false (p_removed p) (s_nowrite s3 (io_shut_ok o)) m4, x4)
     else Ok (mkProxy (p_ok p) (p_removed p) s3 m3, x3)) = Ok (pF, xF) ->
    exists en, x_out xF = x_out x3 ++ en /\
      pw pF + qw en <= bufw 10 (s_buf s3) + bufw 1 (m_buf m3) + pot m3).
  { intros pF xF. destruct (s_sr s3 && m_sr m3 && negb (nonempty_buf (s_buf s3)) && negb (nonempty_buf (m_buf m3))).
    - destruct (nowrite_w m3 x3 fid) as (en & N1 & _ & N3 & _ & N5).
      destruct (m_nowrite m3 x3 fid) as [m4 x4]. cbn [fst snd] in *.
      intros H. apply ok_pair_inj in H. destruct H as [<- <-]. exists en. split; [exact N1|].
      unfold pw. cbn [p_s p_m]. destruct (nowrite_spec s3 (io_shut_ok o)) as ((D1 & _) & _ & _ & D2 & _).
      rewrite D1, D2, S3b, N5. lia.
    - intros H. apply ok_pair_inj in H. destruct H as [<- <-]. exists []. rewrite app_nil_r. split; [reflexivity|].
      unfold pw. cbn [p_s p_m qw fold_right]. rewrite S3b. lia. }
  intros H. destruct (EP p' x' H) as (en & HoF & HleF). clear EP H.
  exists (new ++ sn ++ en). rewrite !qw_app. splits.
  - rewrite HoF, Ho3, Ho, <- !app_assoc. reflexivity.
  - unfold pw at 2. destruct (s_conn (p_s p)); lia.
  - unfold pw at 2. intros [A|[[A1 A2]|A]].
    + rewrite A. lia.
    + specialize (Hlt1 A1 A2). destruct (s_conn (p_s p)); lia.
    + destruct (s_conn (p_s p)) eqn:Ecn; [lia|].
      destruct (Hlt2 A eq_refl) as [C|[C1 C2]]; [lia|]. specialize (Hlt3 C1 C2). lia.
Qed.

(* Proxy.pre_select *)
Lemma pre_select_w sd fid p x :
  let '(p', x', ws) := proxy_pre_select sd fid p x in
  exists new, x_out x' = x_out x ++ new /\ pw p' + qw new <= pw p /\
    (s_sw (p_s p) = true -> m_sr (p_m p) = false -> pw p' + qw new < pw p).
Proof.
  pose proof (pre_select_fields sd fid p x) as F.
  destruct (proxy_pre_select sd fid p x) as [[p' x'] ws].
  destruct F as (_ & _ & F3 & F4 & F5 & _ & _ & F8 & F9 & _ & F11).
  eexists. split; [exact F11|]. unfold pw, pot. rewrite F3, F4, F5, F8, F9.
  destruct (s_sw (p_s p)), (m_sr (p_m p)); cbn [andb negb orb]; unfold stop_frame;
    rewrite ?qw_one; unfold fwl; cbn [sf_data sf_cmd qw fold_right lenN length N.of_nat];
    (split; [lia|intros; try discriminate; lia]).
Qed.

(* ================================================================== *)
(* 3. Mux.got_packet under the variant                                 *)
(* ================================================================== *)

Lemma fids_same_next x prox e : fids (mkEnd x prox (e_next e)) = fids e.
Proof. reflexivity. Qed.

Lemma not_in_fids_next e : ~ In (e_next e) (fids e).
Proof. intros H. apply in_fids in H. lia. Qed.

(* a dispatched frame: what it leaves behind weighs less than the frame did on the link *)
Lemma got_packet_w sd e fr o e' st : Rinv e -> io_conn o = ConnDone ->
  mux_got_packet sd e fr o = Ok (e', st) -> ew e' + 1 <= ew e + fwl fr.
Proof.
  intros R Hc. pose proof (fwl_ge fr) as Hge.
  assert (Hsame : ew e + 1 <= ew e + fwl fr) by lia.
  (* a frame handed to the wrapper of flow g *)
  assert (Hhand : forall g p m' x' k, e_prox e g = Some p -> x_out x' = x_out (e_mux e) ->
     bufw 1 (m_buf m') + pot m' <= bufw 1 (m_buf (p_m p)) + pot (p_m p) + k -> k + 1 <= fwl fr ->
     ew (set_prox e g (mkProxy (p_ok p) (p_removed p) (p_s p) m') x') + 1 <= ew e + fwl fr).
  { intros g p m' x' k Ep Ho Hw Hk.
    assert (Hin : In g (fids e)) by (apply in_fids; exact (r_fresh e R g p Ep)).
    pose proof (ew_set_prox e g p (mkProxy (p_ok p) (p_removed p) (p_s p) m') x' Hin Ep) as A.
    rewrite Ho in A. unfold pw in A. cbn [p_s p_m] in A. lia. }
  unfold mux_got_packet. destruct (sf_cmd fr) eqn:Ecmd.
  - (* PING *)
    intros H. apply ok_pair_inj in H. destruct H as [<- _].
    unfold ew. cbn [e_mux e_prox mux_send x_out]. rewrite fids_same_next, qw_app, qw_one.
    unfold fwl. rewrite Ecmd. cbn [sf_cmd sf_data]. lia.
  - (* PONG *)
    intros H. apply ok_pair_inj in H. destruct H as [<- _].
    unfold ew. cbn [e_mux e_prox x_out]. rewrite fids_same_next. lia.
  - (* CONNECT *)
    destruct (occ (e_mux e) (sf_ch fr)); [discriminate|]. destruct sd.
    + intros H. apply ok_pair_inj in H. destruct H as [<- _]. exact Hsame.
    + unfold server_new_channel. rewrite Hc.
      destruct (try_connect_done (new_sock true) (io_shut_ok o)) as (s0 & E0 & B0 & C0). rewrite E0.
      intros H. apply ok_pair_inj in H. destruct H as [<- _].
      unfold ew. cbn [e_mux e_prox mux_set_chan x_out]. rewrite fids_succ. fold (fids e).
      rewrite sumw_app, (sumw_upd_notin _ _ _ _ (not_in_fids_next e)), sumw_cons, upd_same.
      cbn [opw sumw fold_right]. unfold pw. cbn [p_s p_m]. rewrite B0, C0.
      unfold fwl. rewrite Ecmd. cbn [new_sock new_muxw s_buf m_buf bufw fold_right pot m_sr m_sw]. change (pot (new_muxw (sf_ch fr))) with 10. lia.
  - (* STOP *)
    destruct (x_chan (e_mux e) (sf_ch fr)) as [g|]; [|intros H; apply ok_pair_inj in H; destruct H as [<- _]; exact Hsame].
    destruct (e_prox e g) as [p|] eqn:Ep; [|discriminate]. cbn [m_got_packet].
    destruct (setnowrite_ext (p_m p) (e_mux e) g) as (X & _ & Hsw & Hsr & Hb).
    destruct (m_setnowrite (p_m p) (e_mux e)) as [m' x']. cbn [fst snd] in *.
    intros H. apply ok_pair_inj in H. destruct H as [<- _].
    apply (Hhand g p m' x' 0 Ep); [rewrite (me_out _ _ _ _ _ X); apply app_nil_r| |lia].
    rewrite Hb. unfold pot. rewrite Hsw, Hsr. destruct (m_sw (p_m p)); lia.
  - (* EOF *)
    destruct (x_chan (e_mux e) (sf_ch fr)) as [g|]; [|intros H; apply ok_pair_inj in H; destruct H as [<- _]; exact Hsame].
    destruct (e_prox e g) as [p|] eqn:Ep; [|discriminate]. cbn [m_got_packet].
    destruct (setnoread_ext (p_m p) (e_mux e) g) as (X & _ & Hsr & Hsw & Hb).
    destruct (m_setnoread (p_m p) (e_mux e)) as [m' x']. cbn [fst snd] in *.
    intros H. apply ok_pair_inj in H. destruct H as [<- _].
    apply (Hhand g p m' x' 0 Ep); [rewrite (me_out _ _ _ _ _ X); apply app_nil_r| |lia].
    rewrite Hb. unfold pot. rewrite Hsw, Hsr. destruct (m_sr (p_m p)); lia.
  - (* DATA *)
    destruct (x_chan (e_mux e) (sf_ch fr)) as [g|]; [|intros H; apply ok_pair_inj in H; destruct H as [<- _]; exact Hsame].
    destruct (e_prox e g) as [p|] eqn:Ep; [|discriminate]. cbn [m_got_packet].
    intros H. apply ok_pair_inj in H. destruct H as [<- _].
    apply (Hhand g p _ (e_mux e) (lenN (sf_data fr) + 1) Ep); [reflexivity| |].
    + cbn [m_buf]. rewrite bufw_app, bufw_cons. unfold pot. cbn [m_sr m_sw bufw fold_right]. lia.
    + unfold fwl. lia.
  - (* unknown command *)
    destruct (x_chan (e_mux e) (sf_ch fr)) as [g|]; [|intros H; apply ok_pair_inj in H; destruct H as [<- _]; exact Hsame].
    destruct (e_prox e g) as [p|] eqn:Ep; [|discriminate]. cbn [m_got_packet]. discriminate.
Qed.

(* ================================================================== *)
(* 4. The four kinds of eager micro-step                               *)
(* ================================================================== *)

Lemma mu_alt w sd :
  mu w = ew (get_end w sd) + ew (get_end w (other sd)) + lw (inlink w sd) + lw (inlink w (other sd)).
Proof. unfold mu, inlink. destruct sd; cbn [get_end other]; lia. Qed.

(* Mux.flush: a queued frame goes onto the link *)
Lemma ew_set_mux e x' : ew (set_mux e x') = qw (x_out x') + sumw (e_prox e) (fids e).
Proof. reflexivity. Qed.

Lemma flush_mu w sd f rest : x_out (e_mux (get_end w sd)) = f :: rest ->
  exists w', step w (EvFlush sd) = Ok w' /\ mu w' < mu w.
Proof.
  intros H. cbn [step]. rewrite H. eexists. split; [reflexivity|].
  unfold mu. destruct sd; cbn [get_end set_end w_cl w_sv w_cs w_sc] in *;
    rewrite ew_set_mux, lw_app; cbn [x_out lw fold_right]; unfold ew; rewrite H, qw_cons; lia.
Qed.

(* Mux.handle: the next frame of a link is dispatched; this cannot crash *)
Lemma deliver_mu w sd : Ginv w -> Sinv w -> inlink w (other sd) <> [] ->
  exists w', step w (EvDeliver sd eio) = Ok w' /\ mu w' < mu w.
Proof.
  intros G S Hne. destruct (step w (EvDeliver sd eio)) as [w'|c] eqn:Es.
  - exists w'. split; [reflexivity|].
    destruct (inlink w (other sd)) as [|fr rest] eqn:Hl; [contradiction|].
    destruct (deliver_shape w sd eio w' fr rest Es Hl) as (e' & st & Hg & He & Ho & Hl1 & Hl2 & _).
    pose proof (got_packet_w sd _ fr eio e' st (Winv_get w sd (g_reg w G)) eq_refl Hg) as Hw.
    rewrite (mu_alt w' sd), (mu_alt w sd), He, Ho, Hl1, Hl2, Hl, lw_cons. lia.
  - exfalso. destruct (deliver_crash w sd eio c (g_reg w G) (g_fw w G) Es) as [->|[_ C]].
    + exact (connect_assert_never_fires w sd eio G S Es).
    + discriminate.
Qed.

(* Proxy.callback of a handler that has something to do *)
Lemma callback_mu w sd g p : e_prox (get_end w sd) g = Some p -> In g (fids (get_end w sd)) -> live p = true ->
  (s_conn (p_s p) = true \/
   (nonempty_buf (s_buf (p_s p)) = true /\ x_too_full (e_mux (get_end w sd)) = false) \/
   nonempty_buf (m_buf (p_m p)) = true) ->
  exists w', step w (EvCallback sd g eio) = Ok w' /\ mu w' < mu w.
Proof.
  intros Hp Hin Hl Hc. cbn [step]. rewrite Hp, Hl.
  destruct (proxy_callback sd g p (e_mux (get_end w sd)) eio) as [[p' x']|c] eqn:Ecb.
  - eexists. split; [reflexivity|].
    destruct (callback_w _ _ _ _ _ _ _ eager_eio Ecb) as (new & Ho & _ & Hlt). specialize (Hlt Hc).
    pose proof (mu_act w sd g p p' x' new Hin Hp Ho). lia.
  - destruct (callback_crash _ _ _ _ _ _ Ecb) as [_ C]. discriminate.
Qed.

(* Proxy.pre_select of a handler that has to send STOP_SENDING *)
Lemma preselect_mu w sd g p : e_prox (get_end w sd) g = Some p -> In g (fids (get_end w sd)) -> live p = true ->
  s_sw (p_s p) = true -> m_sr (p_m p) = false ->
  exists w', step w (EvPreSelect sd g) = Ok w' /\ mu w' < mu w.
Proof.
  intros Hp Hin Hl H1 H2. cbn [step]. rewrite Hp, Hl.
  pose proof (pre_select_w sd g p (e_mux (get_end w sd))) as F.
  destruct (proxy_pre_select sd g p (e_mux (get_end w sd))) as [[p' x'] ws].
  destruct F as (new & Ho & _ & Hlt). specialize (Hlt H1 H2).
  eexists. split; [reflexivity|].
  pose proof (mu_act w sd g p p' x' new Hin Hp Ho). lia.
Qed.

(* ================================================================== *)
(* 5. The scheduler: every step it takes makes the variant smaller,    *)
(*    and it stops only in a strictly quiescent state                  *)
(* ================================================================== *)

Lemma forallb_false_ex {A} (f : A -> bool) l : forallb f l = false -> exists a, In a l /\ f a = false.
Proof.
  induction l as [|a l IH]; [discriminate|]. cbn [forallb]. destruct (f a) eqn:E.
  - intros H. destruct (IH H) as (b & Hb & Fb). exists b. split; [right; exact Hb|exact Fb].
  - intros _. exists a. split; [left; reflexivity|exact E].
Qed.

Lemma first_busy_some sd e l ev : first_busy sd e l = Some ev ->
  exists fid p, In fid l /\ e_prox e fid = Some p /\ busy sd fid p (e_mux e) = Some ev.
Proof.
  induction l as [|a l IH]; cbn [first_busy]; [discriminate|].
  destruct (e_prox e a) as [p|] eqn:Ep.
  - destruct (busy sd a p (e_mux e)) as [ev'|] eqn:Eb.
    + intros [= <-]. exists a, p. splits; auto. left. reflexivity.
    + intros H. destruct (IH H) as (fid & q & Hin & Hq & Hb). exists fid, q. splits; auto. right. exact Hin.
  - intros H. destruct (IH H) as (fid & q & Hin & Hq & Hb). exists fid, q. splits; auto. right. exact Hin.
Qed.

Lemma first_busy_none sd e l : first_busy sd e l = None ->
  forall fid p, In fid l -> e_prox e fid = Some p -> busy sd fid p (e_mux e) = None.
Proof.
  induction l as [|a l IH]; intros H fid p Hin Ep; [destruct Hin|]. cbn [first_busy] in H.
  destruct Hin as [->|Hin].
  - rewrite Ep in H. destruct (busy sd fid p (e_mux e)); [discriminate|reflexivity].
  - apply IH; auto. destruct (e_prox e a) as [q|]; [|exact H].
    destruct (busy sd a q (e_mux e)); [discriminate|exact H].
Qed.

(* a handler the scheduler leaves alone is quiet and not connecting *)
Lemma busy_none sd fid p x : busy sd fid p x = None -> active p = true ->
  proxy_quiet sd fid p x = true /\ s_conn (p_s p) = false.
Proof.
  unfold busy. intros H Ha. rewrite Ha in H. cbn [negb] in H.
  destruct (s_conn (p_s p)); [discriminate|].
  destruct (s_sw (p_s p) && negb (m_sr (p_m p))); [discriminate|].
  destruct (proxy_quiet sd fid p x); [auto|discriminate].
Qed.

(* the step the scheduler picks for a handler is eager, cannot crash, and makes the variant smaller *)
Lemma busy_progress w sd fid p ev :
  In fid (fids (get_end w sd)) -> e_prox (get_end w sd) fid = Some p ->
  x_out (e_mux (get_end w sd)) = [] -> busy sd fid p (e_mux (get_end w sd)) = Some ev ->
  eager_event ev /\ exists w', step w ev = Ok w' /\ mu w' < mu w.
Proof.
  intros Hin Hp Ho. unfold busy. destruct (active p) eqn:Ha; cbn [negb]; [|discriminate].
  assert (Hl : live p = true) by (unfold active in Ha; apply andb_true_iff in Ha; apply Ha).
  destruct (s_conn (p_s p)) eqn:Ec.
  { intros [= <-]. split; [exact eager_eio|]. apply (callback_mu w sd fid p Hp Hin Hl). left. exact Ec. }
  destruct (s_sw (p_s p) && negb (m_sr (p_m p))) eqn:Est.
  { intros [= <-]. split; [exact I|]. apply andb_true_iff in Est. destruct Est as [E1 E2].
    apply negb_true_iff in E2. exact (preselect_mu w sd fid p Hp Hin Hl E1 E2). }
  destruct (proxy_quiet sd fid p (e_mux (get_end w sd))) eqn:Q; [discriminate|].
  intros [= <-]. split; [exact eager_eio|]. apply (callback_mu w sd fid p Hp Hin Hl). right.
  unfold proxy_quiet in Q.
  pose proof (pre_select_fields sd fid p (e_mux (get_end w sd))) as F.
  pose proof (wait_set_spec sd fid p (e_mux (get_end w sd))) as Wsp.
  destruct (proxy_pre_select sd fid p (e_mux (get_end w sd))) as [[p1 x1] ws]. cbn [snd] in Wsp.
  destruct F as (_ & _ & F3 & _ & _ & _ & _ & _ & _ & _ & F11).
  apply andb_false_iff in Q. destruct Q as [Q|Q].
  - (* pre_select would queue STOP_SENDING: excluded, the scheduler runs pre_select first *)
    unfold out_empty in Q. rewrite F11, Ho, Est in Q. discriminate.
  - (* a descriptor of the wait set is ready *)
    apply forallb_false_ex in Q. destruct Q as (fd & Hfd & Hr). apply negb_false_iff in Hr.
    apply Wsp in Hfd. destruct fd; cbn [fd_ready] in Hr; try discriminate.
    + destruct Hfd as [C|C]; [congruence|]. right. exact C.
    + destruct Hfd as (_ & C1 & C2). left. auto.
Qed.

Lemma sched_some w ev : Ginv w -> Sinv w -> sched w = Some ev ->
  eager_event ev /\ exists w', step w ev = Ok w' /\ mu w' < mu w.
Proof.
  intros G S. unfold sched.
  destruct (x_out (e_mux (w_cl w))) as [|f1 r1] eqn:E1.
  2:{ intros [= <-]. split; [exact I|]. exact (flush_mu w Client f1 r1 E1). }
  destruct (x_out (e_mux (w_sv w))) as [|f2 r2] eqn:E2.
  2:{ intros [= <-]. split; [exact I|]. exact (flush_mu w Server f2 r2 E2). }
  destruct (w_cs w) as [|f3 r3] eqn:E3.
  2:{ intros [= <-]. split; [exact eager_eio|]. apply (deliver_mu w Server G S).
      cbn [other inlink]. rewrite E3. discriminate. }
  destruct (w_sc w) as [|f4 r4] eqn:E4.
  2:{ intros [= <-]. split; [exact eager_eio|]. apply (deliver_mu w Client G S).
      cbn [other inlink]. rewrite E4. discriminate. }
  destruct (first_busy Client (w_cl w) (fids (w_cl w))) as [ev1|] eqn:B1.
  - intros [= <-]. destruct (first_busy_some _ _ _ _ B1) as (fid & p & Hin & Hp & Hb).
    exact (busy_progress w Client fid p ev1 Hin Hp E1 Hb).
  - intros B2. destruct (first_busy_some _ _ _ _ B2) as (fid & p & Hin & Hp & Hb).
    exact (busy_progress w Server fid p ev Hin Hp E2 Hb).
Qed.

Lemma end_idle sd e : x_out (e_mux e) = [] -> first_busy sd e (fids e) = None ->
  end_quietb sd e = true /\ no_connectingb e = true.
Proof.
  intros Ho B. pose proof (first_busy_none sd e (fids e) B) as H.
  unfold end_quietb, no_connectingb, out_empty. rewrite Ho. cbn [andb].
  split; apply forallb_forall; intros fid Hin; destruct (e_prox e fid) as [p|] eqn:Ep; try reflexivity;
    destruct (active p) eqn:Ha; try reflexivity; destruct (busy_none sd fid p (e_mux e) (H fid p Hin Ep) Ha) as [Q C].
  - exact Q.
  - rewrite C. reflexivity.
Qed.

Lemma sched_none w : sched w = None -> quiescent_eagerb w = true.
Proof.
  unfold sched.
  destruct (x_out (e_mux (w_cl w))) as [|f1 r1] eqn:E1; [|discriminate].
  destruct (x_out (e_mux (w_sv w))) as [|f2 r2] eqn:E2; [|discriminate].
  destruct (w_cs w) as [|f3 r3] eqn:E3; [|discriminate].
  destruct (w_sc w) as [|f4 r4] eqn:E4; [|discriminate].
  destruct (first_busy Client (w_cl w) (fids (w_cl w))) as [ev1|] eqn:B1; [discriminate|].
  intros B2. destruct (end_idle Client (w_cl w) E1 B1) as [A1 A2]. destruct (end_idle Server (w_sv w) E2 B2) as [A3 A4].
  unfold quiescent_eagerb, quiescentb. rewrite E3, E4, A1, A2, A3, A4. reflexivity.
Qed.

(* progress, in the form asked for: a state that is not strictly quiescent has an eager
   micro-step that does not crash and makes the variant smaller *)
Lemma progress w : Ginv w -> Sinv w -> quiescent_eagerb w = false ->
  exists ev w', eager_event ev /\ step w ev = Ok w' /\ mu w' < mu w.
Proof.
  intros G S Q. destruct (sched w) as [ev|] eqn:Es.
  - destruct (sched_some w ev G S Es) as (He & w' & Hs & Hlt). exists ev, w'. auto.
  - rewrite (sched_none w Es) in Q. discriminate.
Qed.

(* ================================================================== *)
(* 6. The drain theorem                                                *)
(* ================================================================== *)

Definition drained (w : world) (d : list event) : Prop :=
  Forall eager_event d /\
  match run w d with
  | Ok w' => w_stale w' = true \/ quiescent_eagerb w' = true
  | Crash _ => False
  end.

Lemma drain_stale n w : w_stale w = true -> drain n w = [].
Proof. intros H. destruct n; cbn [drain]; [reflexivity|]. rewrite H. reflexivity. Qed.

Lemma drain_fuel n : forall w, mu w < N.of_nat n -> Ginv w -> Sinv w -> w_stale w = false ->
  drained w (drain n w).
Proof.
  induction n as [|n IH]; intros w Hn G S Hst; [lia|]. cbn [drain]. rewrite Hst.
  destruct (sched w) as [ev|] eqn:Es.
  - destruct (sched_some w ev G S Es) as (Hev & w' & Hs & Hlt). rewrite Hs.
    destruct (w_stale w') eqn:St.
    + rewrite (drain_stale n w' St). split; [constructor; [exact Hev|constructor]|].
      cbn [run]. rewrite Hs. left. exact St.
    + destruct (IH w' ltac:(lia) (step_Ginv w ev w' G Hs St) (step_Sinv w ev w' G S Hs) St) as [Hd Hr].
      split; [constructor; assumption|]. cbn [run]. rewrite Hs. exact Hr.
  - split; [constructor|]. cbn [run]. right. exact (sched_none w Es).
Qed.

(* the schedule computed by Model/StreamDrain.drain with fuel mu w + 1 *)
Definition drain_of (w : world) : list event := drain (S (N.to_nat (mu w))) w.

Theorem drain_from_invariants w : Ginv w -> Sinv w -> w_stale w = false -> drained w (drain_of w).
Proof.
  intros G Si Hst. apply (drain_fuel (S (N.to_nat (mu w))) w); [lia|exact G|exact Si|exact Hst].
Qed.

(* ================================================================== *)
(* 7. The eager environment delivers no new input                      *)
(* ================================================================== *)

(* everything the socket of flow f at end sd has returned from recv() so far *)
Definition rd_of (w : world) (sd : side) (f : N) : bytes := s_rd (pS (e_prox (get_end w sd) f)).

Lemma callback_rd sd fid p x o p' x' : io_recv o = RecvAgain ->
  proxy_callback sd fid p x o = Ok (p', x') -> s_rd (p_s p') = s_rd (p_s p).
Proof.
  intros Er. rewrite proxy_callback_unfold, Er.
  destruct (s_try_connect (p_s p) (io_conn o) (io_shut_ok o)) as [s0|c] eqn:Etc; [|discriminate].
  destruct (try_connect_spec _ _ _ _ Etc) as ((_ & T2 & _) & _). cbv zeta. rewrite fill_again.
  pose proof (copies_spec sd s0 (p_m p) x fid o) as Hc.
  destruct (copies sd s0 (p_m p) x fid o) as [[s2 m2] x2].
  destruct Hc as (new & d & _ & _ & _ & _ & _ & Crd & _).
  set (s3 := if nonempty_buf (s_buf s2) && m_sw m2
             then s_noread (mkSock (s_conn s2) (s_sr s2) (s_sw s2) [] (s_exc s2) (s_rd s2) (s_wr s2) (s_fault s2))
             else s2).
  assert (S3 : s_rd s3 = s_rd s2) by (unfold s3; destruct (nonempty_buf (s_buf s2) && m_sw m2); reflexivity).
  destruct (if nonempty_buf (m_buf m2) && s_sw s2 then _ else _) as [m3 x3].
  destruct (s_sr s3 && m_sr m3 && negb (nonempty_buf (s_buf s3)) && negb (nonempty_buf (m_buf m3))).
  - destruct (m_nowrite m3 x3 fid) as [m4 x4]. intros H. apply ok_pair_inj in H. destruct H as [<- _].
    cbn [p_s]. destruct (nowrite_spec s3 (io_shut_ok o)) as ((_ & D & _) & _). congruence.
  - intros H. apply ok_pair_inj in H. destruct H as [<- _]. cbn [p_s]. congruence.
Qed.

Lemma got_packet_rd sd e fr o e' st : Rinv e -> mux_got_packet sd e fr o = Ok (e', st) ->
  forall f, s_rd (pS (e_prox e' f)) = s_rd (pS (e_prox e f)).
Proof.
  intros R.
  assert (Hupd : forall g p m' x', e_prox e g = Some p ->
     forall f, s_rd (pS (e_prox (set_prox e g (mkProxy (p_ok p) (p_removed p) (p_s p) m') x') f)) = s_rd (pS (e_prox e f))).
  { intros g p m' x' Ep f. cbn [set_prox e_prox]. unfold upd.
    destruct (N.eqb_spec f g) as [->|Hne]; [rewrite Ep|]; reflexivity. }
  unfold mux_got_packet. destruct (sf_cmd fr) eqn:Ecmd.
  - intros H. apply ok_pair_inj in H. destruct H as [<- _]. reflexivity.
  - intros H. apply ok_pair_inj in H. destruct H as [<- _]. reflexivity.
  - destruct (occ (e_mux e) (sf_ch fr)); [discriminate|]. destruct sd.
    + intros H. apply ok_pair_inj in H. destruct H as [<- _]. reflexivity.
    + unfold server_new_channel.
      destruct (s_try_connect (new_sock true) (io_conn o) (io_shut_ok o)) as [s|] eqn:Etc; [|discriminate].
      destruct (try_connect_spec _ _ _ _ Etc) as ((_ & T2 & _) & _).
      intros H. apply ok_pair_inj in H. destruct H as [<- _]. intros f. cbn [e_prox]. unfold upd.
      destruct (N.eqb_spec f (e_next e)) as [->|Hne]; [|reflexivity].
      destruct (e_prox e (e_next e)) as [q|] eqn:Eq.
      * pose proof (r_fresh e R _ q Eq). lia.
      * cbn [pS p_s]. rewrite T2. reflexivity.
  - destruct (x_chan (e_mux e) (sf_ch fr)) as [g|]; [|intros H; apply ok_pair_inj in H; destruct H as [<- _]; reflexivity].
    destruct (e_prox e g) as [p|] eqn:Ep; [|discriminate]. cbn [m_got_packet].
    destruct (m_setnowrite (p_m p) (e_mux e)) as [m' x'].
    intros H. apply ok_pair_inj in H. destruct H as [<- _]. apply (Hupd g p m' x' Ep).
  - destruct (x_chan (e_mux e) (sf_ch fr)) as [g|]; [|intros H; apply ok_pair_inj in H; destruct H as [<- _]; reflexivity].
    destruct (e_prox e g) as [p|] eqn:Ep; [|discriminate]. cbn [m_got_packet].
    destruct (m_setnoread (p_m p) (e_mux e)) as [m' x'].
    intros H. apply ok_pair_inj in H. destruct H as [<- _]. apply (Hupd g p m' x' Ep).
  - destruct (x_chan (e_mux e) (sf_ch fr)) as [g|]; [|intros H; apply ok_pair_inj in H; destruct H as [<- _]; reflexivity].
    destruct (e_prox e g) as [p|] eqn:Ep; [|discriminate]. cbn [m_got_packet].
    intros H. apply ok_pair_inj in H. destruct H as [<- _]. apply (Hupd g p _ _ Ep).
  - destruct (x_chan (e_mux e) (sf_ch fr)) as [g|]; [|intros H; apply ok_pair_inj in H; destruct H as [<- _]; reflexivity].
    destruct (e_prox e g) as [p|] eqn:Ep; [|discriminate]. cbn [m_got_packet]. discriminate.
Qed.

Lemma eager_step_rd w ev w' : Winv w -> eager_event ev -> step w ev = Ok w' ->
  forall sd f, rd_of w' sd f = rd_of w sd f.
Proof.
  intros W He Hs. unfold rd_of.
  destruct ev as [payload|sd0 g o|sd0 g|sd0|sd0 o|sd0|sd0 g]; cbn [eager_event] in He; try contradiction.
  - (* callback *)
    revert Hs. cbn [step]. destruct (e_prox (get_end w sd0) g) as [p|] eqn:Ep; [|discriminate].
    destruct (live p); [|discriminate].
    destruct (proxy_callback sd0 g p (e_mux (get_end w sd0)) o) as [[p' x']|] eqn:Ecb; [|discriminate].
    intros [= <-] sd f. destruct He as (_ & Er & _). pose proof (callback_rd _ _ _ _ _ _ _ Er Ecb) as Hrd.
    destruct (side_cases sd sd0) as [->| ->].
    + rewrite get_set_end. cbn [set_prox e_prox]. unfold upd.
      destruct (N.eqb_spec f g) as [->|Hne]; [rewrite Ep; exact Hrd|reflexivity].
    + rewrite get_set_end_other. reflexivity.
  - (* pre_select *)
    revert Hs. cbn [step]. destruct (e_prox (get_end w sd0) g) as [p|] eqn:Ep; [|discriminate].
    destruct (live p); [|discriminate].
    pose proof (pre_select_spec sd0 g p (e_mux (get_end w sd0))) as F.
    destruct (proxy_pre_select sd0 g p (e_mux (get_end w sd0))) as [[p' x'] ws].
    destruct F as (sn & _ & _ & _ & _ & _ & _ & _ & (_ & Hrd & _) & _).
    intros [= <-] sd f. destruct (side_cases sd sd0) as [->| ->].
    + rewrite get_set_end. cbn [set_prox e_prox]. unfold upd.
      destruct (N.eqb_spec f g) as [->|Hne]; [rewrite Ep; exact Hrd|reflexivity].
    + rewrite get_set_end_other. reflexivity.
  - (* flush *)
    intros sd f. destruct (flush_views w sd0 w' Hs) as [_ Hf]. rewrite Hf. reflexivity.
  - (* deliver *)
    intros sd f. destruct (inlink w (other sd0)) as [|fr rest] eqn:Hl.
    { rewrite (deliver_empty w sd0 o w' Hs Hl). reflexivity. }
    destruct (deliver_shape w sd0 o w' fr rest Hs Hl) as (e' & st & Hg & E1 & E2 & _).
    destruct (side_cases sd sd0) as [->| ->].
    + rewrite E1. exact (got_packet_rd _ _ _ _ _ _ (Winv_get w sd0 W) Hg f).
    + rewrite E2. reflexivity.
  - (* remove *)
    intros sd f. destruct (remove_views w sd0 g w' Hs) as [_ Hf]. destruct (Hf sd f) as (E & _). rewrite E. reflexivity.
Qed.

Lemma eager_run_rd drain : forall w w', Winv w -> Forall eager_event drain -> run w drain = Ok w' ->
  forall sd f, rd_of w' sd f = rd_of w sd f.
Proof.
  induction drain as [|ev drain IH]; intros w w' W Hall; cbn [run].
  - intros [= <-]. reflexivity.
  - inversion Hall as [|? ? Hev Hrest]; subst.
    destruct (step w ev) as [w1|] eqn:Es; [|discriminate]. intros Hr sd f.
    rewrite (IH w1 w' (step_Winv w ev w1 W Es) Hrest Hr sd f). exact (eager_step_rd w ev w1 W Hev Es sd f).
Qed.

Lemma run_app a : forall w b, run w (a ++ b) = match run w a with Ok w1 => run w1 b | Crash c => Crash c end.
Proof.
  induction a as [|ev a IH]; intros w b; [reflexivity|]. cbn [app run].
  destruct (step w ev) as [w1|]; [apply IH|reflexivity].
Qed.

(* ================================================================== *)
(* 8. The theorems over reachable states                               *)
(* ================================================================== *)

(* From every reachable state without stale delivery, the eager environment (no new
   connection, every recv answers EAGAIN, every send accepts everything offered, every
   pending connect completes, every shutdown succeeds, no check_fullness) runs the two
   loops, by the finite schedule Model/StreamDrain.drain computes, none of whose steps
   crashes, to a state in which a stale delivery has happened or which is quiescent —
   even in the strict sense that no connect is pending any more. *)
Theorem eager_drain_sched : forall maxc lbs evs w,
  run (world0 maxc lbs) evs = Ok w -> w_stale w = false -> drained w (drain_of w).
Proof.
  intros maxc lbs evs w Hr Hst.
  destruct (run_GSinv evs _ _ (Ginv_world0 maxc lbs) (Sinv_world0 maxc lbs) Hr Hst) as [G S].
  exact (drain_from_invariants w G S Hst).
Qed.
Print Assumptions eager_drain_sched.

Theorem eager_drain_strong : forall maxc lbs evs w,
  run (world0 maxc lbs) evs = Ok w -> w_stale w = false ->
  exists drain, Forall eager_event drain /\
    match run w drain with
    | Ok w' => w_stale w' = true \/ quiescent_eagerb w' = true
    | Crash _ => False
    end.
Proof.
  intros maxc lbs evs w Hr Hst.
  exists (drain_of w). exact (eager_drain_sched maxc lbs evs w Hr Hst).
Qed.
Print Assumptions eager_drain_strong.

(* the statement Stream_quiet.eager_drain_full *)
Theorem eager_drain : eager_drain_full.
Proof.
  intros maxc lbs evs w Hr Hst. destruct (eager_drain_strong maxc lbs evs w Hr Hst) as (drain & Hd & Hq).
  exists drain. split; [exact Hd|]. destruct (run w drain) as [w'|]; [|exact Hq].
  destruct Hq as [Hq|Hq]; [left; exact Hq|right].
  unfold quiescent_eagerb in Hq. apply andb_true_iff in Hq. destruct Hq as [Hq _].
  apply andb_true_iff in Hq. apply Hq.
Qed.
Print Assumptions eager_drain.

(* the same, with the final state named: it is reachable, and nothing was read on the way *)
Theorem eager_drain_reachable : forall maxc lbs evs w,
  run (world0 maxc lbs) evs = Ok w -> w_stale w = false ->
  exists drain w', Forall eager_event drain /\ run w drain = Ok w' /\
    run (world0 maxc lbs) (evs ++ drain) = Ok w' /\
    (w_stale w' = true \/ quiescent_eagerb w' = true) /\
    (forall sd f, rd_of w' sd f = rd_of w sd f).
Proof.
  intros maxc lbs evs w Hr Hst. destruct (eager_drain_strong maxc lbs evs w Hr Hst) as (drain & Hd & Hq).
  destruct (run w drain) as [w'|] eqn:Hrun; [|contradiction].
  exists drain, w'. splits; auto.
  - rewrite run_app, Hr. exact Hrun.
  - apply (eager_run_rd drain w w'); [|exact Hd|exact Hrun].
    exact (run_Winv evs _ _ (Winv_world0 maxc lbs) Hr).
Qed.
Print Assumptions eager_drain_reachable.

(* ---- what holds in a strictly quiescent state ---- *)
Lemma run_quiescent_eager maxc lbs evs w : run (world0 maxc lbs) evs = Ok w ->
  quiescent_eagerb w = true -> quiescent_eager w.
Proof.
  intros H Hq. apply quiescent_eagerb_spec; [|exact Hq]. exact (run_Winv evs _ _ (Winv_world0 maxc lbs) H).
Qed.

(* with every connect completed: everything read has been delivered, unless a socket
   call of the receiving end failed *)
Lemma quiet_eager_all_delivered maxc lbs w rs f :
  reachable maxc lbs w -> w_stale w = false -> quiescent_eager w ->
  let v := view_of w rs f in vwfault v = false -> vD v = vA v.
Proof.
  intros Hr Hst Q v Hft. destruct (vfz v) eqn:Hfz.
  - pose proof (g_views w (reachable_Ginv _ _ _ Hr Hst) rs f) as V. fold v in V.
    destruct (vi_clean _ V Hfz) as [C|[C _]]; [congruence|exact C].
  - apply (quiet_eager_no_data maxc lbs w rs f Hr Hst Q Hfz).
Qed.

(* ---- C01: eventual delivery ---- *)
(* From every reachable non-stale state some eager schedule leads, without crash, to a
   state w' that is stale or strictly quiescent, in which — for every flow — every byte
   that had been read from the application in w (nothing more is read on the way) has been
   handed to the destination socket, and vice versa, unless a socket call of the
   receiving end of that flow failed. *)
Theorem d_c01_eventual_delivery : forall maxc lbs evs w,
  run (world0 maxc lbs) evs = Ok w -> w_stale w = false ->
  exists drain w', Forall eager_event drain /\ run w drain = Ok w' /\
    (w_stale w' = true \/
     (quiescent_eagerb w' = true /\
      forall f, (s_fault (pS (sv w' f)) = false -> dst_written w' f = app_read w f) /\
                (s_fault (pS (cl w' f)) = false -> app_written w' f = dst_read w f))).
Proof.
  intros maxc lbs evs w Hr Hst.
  destruct (eager_drain_reachable maxc lbs evs w Hr Hst) as (drain & w' & Hd & Hrun & Hr' & Hq & Hrd).
  exists drain, w'. splits; auto.
  destruct (w_stale w') eqn:St; [left; reflexivity|right].
  destruct Hq as [C|Hq]; [discriminate|]. split; [exact Hq|]. intros f.
  pose proof (run_reachable _ _ _ _ Hr') as Rw. pose proof (run_quiescent_eager _ _ _ _ Hr' Hq) as Q.
  split; intros Hft.
  - pose proof (quiet_eager_all_delivered maxc lbs w' Client f Rw St Q Hft) as E.
    unfold dst_written, app_read. specialize (Hrd Client f). unfold rd_of in Hrd. cbn [get_end] in Hrd.
    unfold cl in *. rewrite <- Hrd. exact E.
  - pose proof (quiet_eager_all_delivered maxc lbs w' Server f Rw St Q Hft) as E.
    unfold app_written, dst_read. specialize (Hrd Server f). unfold rd_of in Hrd. cbn [get_end] in Hrd.
    unfold sv in *. rewrite <- Hrd. exact E.
Qed.
Print Assumptions d_c01_eventual_delivery.

(* ---- C02: no stuck state ---- *)
(* ... to a state in which no direction of any flow whose receiving socket has not been
   shut down holds undelivered data anywhere (peer's mux buffer, frames on the way, reading
   end's buffer), and every handler the loop still runs waits for the outside world —
   directly or through its live peer — or has the F20 shape. *)
Theorem d_c02_eventually_not_stuck : forall maxc lbs evs w,
  run (world0 maxc lbs) evs = Ok w -> w_stale w = false ->
  exists drain w', Forall eager_event drain /\ run w drain = Ok w' /\
    (w_stale w' = true \/
     (quiescent_eagerb w' = true /\
      (forall rs f, let v := view_of w' rs f in
         vfz v = false -> vY v = [] /\ vP v = [] /\ flat (vX v) = [] /\ vD v = vA v) /\
      (forall sd f p, e_prox (get_end w' sd) f = Some p -> active p = true ->
         waits_outside sd f p (e_mux (get_end w' sd)) \/
         (m_sw (p_m p) = true /\ m_sr (p_m p) = false /\
          exists q, e_prox (get_end w' (other sd)) f = Some q /\ active q = true /\
                    m_sr (p_m q) = true /\ m_sw (p_m q) = false /\
                    waits_outside (other sd) f q (e_mux (get_end w' (other sd))))))).
Proof.
  intros maxc lbs evs w Hr Hst.
  destruct (eager_drain_reachable maxc lbs evs w Hr Hst) as (drain & w' & Hd & Hrun & Hr' & Hq & _).
  exists drain, w'. splits; auto.
  destruct (w_stale w') eqn:St; [left; reflexivity|right].
  destruct Hq as [C|Hq]; [discriminate|].
  pose proof (run_reachable _ _ _ _ Hr') as Rw. pose proof (run_quiescent_eager _ _ _ _ Hr' Hq) as Q.
  splits; auto.
  - intros rs f. exact (quiet_eager_no_data maxc lbs w' rs f Rw St Q).
  - intros sd f p. exact (quiet_wait_chain maxc lbs w' sd f p Rw St (proj1 Q)).
Qed.
Print Assumptions d_c02_eventually_not_stuck.

(* ---- C09: every pause ends ---- *)
(* ... to a state in which no end is paused by latency control: the round-trip probe of
   every paused end has been answered. *)
Theorem d_c09_pause_ends : forall maxc lbs evs w,
  run (world0 maxc lbs) evs = Ok w -> w_stale w = false ->
  exists drain w', Forall eager_event drain /\ run w drain = Ok w' /\
    (w_stale w' = true \/
     (quiescent_eagerb w' = true /\ tf w' Client = false /\ tf w' Server = false)).
Proof.
  intros maxc lbs evs w Hr Hst.
  destruct (eager_drain_reachable maxc lbs evs w Hr Hst) as (drain & w' & Hd & Hrun & Hr' & Hq & _).
  exists drain, w'. splits; auto.
  destruct Hq as [C|Hq]; [left; exact C|right].
  pose proof (run_reachable _ _ _ _ Hr') as Rw. pose proof (run_quiescent_eager _ _ _ _ Hr' Hq) as Q.
  splits; auto; apply (quiescent_not_paused maxc lbs w' Rw (proj1 Q)).
Qed.
Print Assumptions d_c09_pause_ends.

(* ================================================================== *)
(* 9. Non-vacuity                                                      *)
(* ================================================================== *)

(* a reachable state that is not quiescent: the application has written "ab", the DATA
   frame is still in the client's queue.  The scheduler drains it in three steps, and
   "ab" arrives at the destination socket. *)
Definition d_pending : list event :=
  q_open ++ [EvCallback Client 0 (mkIO ConnDone (RecvData q_ab) SendAgain true)].

Example drain_ex_pending :
  match run (world0 65535 32768) d_pending with
  | Ok w =>
    w_stale w = false /\ quiescentb w = false /\
    drain_of w = [EvFlush Client; EvDeliver Server eio; EvCallback Server 0 eio] /\
    match run w (drain_of w) with
    | Ok w' => w_stale w' = false /\ quiescent_eagerb w' = true /\
               dst_written w 0 = [] /\ dst_written w' 0 = q_ab /\ app_read w 0 = q_ab
    | Crash _ => False
    end
  | Crash _ => False
  end.
Proof. vm_compute. splits; reflexivity. Qed.

(* the variant along that drain: strictly decreasing *)
Example drain_ex_variant :
  match run (world0 65535 32768) d_pending with
  | Ok w =>
    match run w [EvFlush Client], run w [EvFlush Client; EvDeliver Server eio], run w (drain_of w) with
    | Ok w1, Ok w2, Ok w3 => (mu w, mu w1, mu w2, mu w3) = (34, 32, 23, 20)
    | _, _, _ => False
    end
  | Crash _ => False
  end.
Proof. vm_compute. reflexivity. Qed.

(* from the very first state: the two initial PINGs are flushed, dispatched, answered *)
Example drain_ex_initial :
  length (drain_of (world0 65535 32768)) = 8%nat /\
  match run (world0 65535 32768) (drain_of (world0 65535 32768)) with
  | Ok w' => quiescent_eagerb w' = true /\ mu w' = 0
  | Crash _ => False
  end.
Proof. vm_compute. splits; reflexivity. Qed.

(* a paused end (LATENCY_BUFFER_SIZE = 3: check_fullness after 5000 buffered bytes) with a
   pending connect at the server, data in both a socket buffer and a queue: the drain
   ends the pause, completes the connect and delivers all 5000 bytes *)
Definition d_big : bytes := repeat (ascii_of_N 65) 5000.
Definition d_paused : list event :=
  let ioP := mkIO (ConnErr EInProgress) RecvAgain SendAgain true in
  [EvAccept []; EvFlush Client; EvFlush Client; EvDeliver Server ioP; EvDeliver Server ioP;
   EvCallback Client 0 (mkIO ConnDone (RecvData d_big) SendAgain true); EvCheckFull Client].

Example drain_ex_paused :
  match run (world0 65535 3) d_paused with
  | Ok w =>
    w_stale w = false /\ quiescentb w = false /\ tf w Client = true /\
    s_conn (pS (sv w 0)) = true /\
    match run w (drain_of w) with
    | Ok w' => w_stale w' = false /\ quiescent_eagerb w' = true /\ tf w' Client = false /\
               dst_written w' 0 = d_big /\ length (drain_of w) = 21%nat
    | Crash _ => False
    end
  | Crash _ => False
  end.
Proof. vm_compute. splits; reflexivity. Qed.
