(* Proofs/FwLife_general.v — C04, the general "every exit path" theorems.
   nat_all_exits, tproxy_all_exits (this file) and nft_all_exits (FwLife_gen_nft.v):
   for EVERY configuration of the method, EVERY clean well-formed initial kernel
   state, EVERY failing command index k and EVERY cut: sess_ok c s0 k cut = true.
   Structure: FwLife_gen_run (abstract runner, simulation), FwLife_gen_tbl (table
   calculus), FwLife_gen_ipt (kernel table ~ abstract own objects), FwLife_gen_sess
   (firewall.main over the abstract view, method-generic `all_exits`),
   FwLife_gen_meth (what nat and tproxy share), this file (nat, tproxy). *)
From Coq Require Import String List NArith ZArith Ascii Bool Lia Arith.
From SV Require Import Lib.Bytes Model.FwLife Model.FwLifeSpec Proofs.FwLife_lemmas
  Proofs.FwLife_gen_run Proofs.FwLife_gen_tbl Proofs.FwLife_gen_ipt Proofs.FwLife_gen_sess
  Proofs.FwLife_gen_meth.
From SV Require Export Proofs.FwLife_gen_nft.
Import ListNotations.

Arguments cntl X !rs : simpl nomatch.

(* symbolic execution of an abstract run recorded in hypothesis H: split on the first
   test whose scrutinee is not itself a test *)
Ltac sx_cbn H :=
  cbn [irun arun arun_step arun_ss arun_sstep iexec aget aset arefs hooks inrefs cnto cntl
       slot_eqb is_on is_to is_tp is_nm nat_is tp_is tp_nm only0 a_c0 a_c1 a_c2 a_jo a_jp
       app map negb andb orb fst snd plus Nat.eqb no_faults fault_at length filter] in H.
Ltac sx_red H := unfold irun in H; sx_cbn H; unfold aissue, itest in H; sx_cbn H.
Ltac sx_step H :=
  match type of H with
  | context [match ?x with _ => _ end] =>
      lazymatch x with
      | context [match _ with _ => _ end] => fail
      | _ => destruct x eqn:?
      end
  end.
Ltac sx H := repeat (sx_red H; sx_step H); sx_red H.

(* ------------------------------------------------------------------ *)
(* nat                                                                   *)

Definition nat_inv (a : astate) : Prop :=
  a_c1 a = None /\ a_c2 a = None /\ (a_c0 a = None -> a_jo a = 0 /\ a_jp a = 0) /\ a_jo a <= 1 /\ a_jp a <= 1.

Lemma nospace_app a b : nospace (a ++ b) = nospace a && nospace b.
Proof. unfold nospace. apply forallb_app. Qed.

Section Nat.
Variable f : fam.
Variable p : tok.
Hypothesis Hp : pname_ok p = true.
Let sp := nat_is f None p.

Lemma nat_is_wf : is_wf sp.
Proof.
  constructor.
  - intros x y Hx Hy _. destruct x, y; cbn in Hx, Hy; congruence.
  - intros x _. cbn. unfold nat_chain. discriminate.
  - intros x _. cbn. unfold nat_chain. discriminate.
  - intros x _. cbn. unfold nat_chain. rewrite nospace_app, (pname_nospace p Hp). reflexivity.
  - intros x _. cbn. unfold nat_chain. apply aname_app; [reflexivity | exact (pname_ascii p Hp) | discriminate].
  - intros x Hx. destruct x; cbn in Hx; try discriminate. cbn [is_nm is_jo is_to sp nat_is nat_jump slot_eqb].
    unfold jumps_to. rewrite jump_target_j. apply bytes_eqb_refl.
  - intros x Hx. destruct x; cbn in Hx; try discriminate. cbn [is_nm is_jp is_tp sp nat_is nat_jump slot_eqb].
    unfold jumps_to. rewrite jump_target_j. apply bytes_eqb_refl.
  - reflexivity.
  - reflexivity.
Qed.

Ltac inv_fin :=
  unfold nat_inv in *; cbn [itest aget a_c0 a_c1 a_c2 a_jo a_jp] in *;
  repeat match goal with
         | H : true = false |- _ => discriminate H
         | H : false = true |- _ => discriminate H
         | H : _ /\ _ |- _ => destruct H
         | H : (_, _) = (_, _) |- _ => injection H as <-
         | H : Some _ = Some _ |- _ => injection H as <-
         | H : Some _ = None |- _ => discriminate H
         | H : None = Some _ |- _ => discriminate H
         | H : Nat.eqb _ _ = true |- _ => apply Nat.eqb_eq in H
         | H : Nat.eqb _ _ = false |- _ => apply Nat.eqb_neq in H
         end; subst.

Lemma nat_cpres c : match c with CApp S1 _ | CApp S2 _ | CNew S1 | CNew S2 | CFlush S1 | CFlush S2 | CDel S1 | CDel S2
                               | CHook _ | CNew S0 => False | _ => True end ->
  c_pres sp nat_inv c.
Proof.
  intros Hc a a' E I. destruct a as [c0 c1 c2 jo jp].
  destruct c as [[| |]|[| |]|[| |]|[| |] r|o|[|]]; try contradiction; unfold sp in E; sx E; inv_fin;
    cbn [a_c0 a_c1 a_c2 a_jo a_jp]; intuition (try lia; try discriminate; try congruence).
Qed.

Lemma nat_restore_pres : Forall (st_pres sp nat_inv) a_nat_restore.
Proof.
  apply Forall_cons; [|apply Forall_nil]. cbn [st_pres].
  repeat (apply Forall_cons; [apply nat_cpres; exact I|]). apply Forall_nil.
Qed.

Lemma nat_restore_inv F n a ok n' a' tr :
  nat_inv a -> irun sp F a_nat_restore n a = (ok, n', a', tr) -> nat_inv a'.
Proof. intros Hi H. eapply irun_inv; [exact nat_restore_pres | exact H | exact Hi]. Qed.

Lemma nat_restore_nf n a ok n' a' tr :
  nat_inv a -> irun sp no_faults a_nat_restore n a = (ok, n', a', tr) -> ok = true /\ a' = a_clean.
Proof.
  intros Hi H. destruct a as [c0 c1 c2 jo jp]. unfold nat_inv in Hi. cbn [a_c0 a_c1 a_c2 a_jo a_jp] in Hi.
  destruct Hi as (-> & -> & H0 & Ho & Hp').
  destruct c0 as [rs|].
  - destruct jo as [|[|jo]]; [| |exfalso; lia]; (destruct jp as [|[|jp]]; [| |exfalso; lia]);
      unfold sp, a_nat_restore in H; sx H; inv_fin; try (split; reflexivity); try (exfalso; lia).
  - destruct (H0 eq_refl) as [-> ->]. unfold sp, a_nat_restore in H. sx H. inv_fin. split; reflexivity.
Qed.

Definition nat_prelude : list (asstep icmd) := [ADo (CNew S0); ADo (CFlush S0); ADo (CHook true); ADo (CHook false)].
Definition nat_abody (rs : list rule) : list (asstep icmd) := map (fun r => ADo (CApp S0 r)) rs.

Lemma nat_setup_split rs :
  a_nat_setup rs = a_nat_restore ++ map ASimple nat_prelude ++ map ASimple (nat_abody rs).
Proof. unfold a_nat_setup. rewrite map_app. reflexivity. Qed.

Lemma nat_prelude_inv F n a ok n' a' tr :
  nat_inv a -> irun sp F (map ASimple nat_prelude) n a = (ok, n', a', tr) -> nat_inv a'.
Proof.
  intros Hi H. destruct a as [c0 c1 c2 jo jp]. unfold sp, nat_prelude in H. sx H; inv_fin;
    cbn [a_c0 a_c1 a_c2 a_jo a_jp]; intuition (try lia; try discriminate; try congruence).
Qed.

Lemma nat_body_pres rs : Forall (st_pres sp nat_inv) (map ASimple (nat_abody rs)).
Proof.
  apply Forall_forall. intros x Hx. apply in_map_iff in Hx as (y & <- & Hy).
  apply in_map_iff in Hy as (r & <- & _). apply nat_cpres. exact I.
Qed.

Lemma nat_setup_inv rs F n a ok n' a' tr :
  nat_inv a -> irun sp F (a_nat_setup rs) n a = (ok, n', a', tr) -> nat_inv a'.
Proof.
  intros Hi H. rewrite nat_setup_split, irun_app in H.
  destruct (irun sp F a_nat_restore n a) as [[[ok1 n1] a1] t1] eqn:R1.
  pose proof (nat_restore_inv _ _ _ _ _ _ _ Hi R1) as I1.
  destruct ok1; [|injection H as <- <- <- <-; exact I1].
  rewrite irun_app in H.
  destruct (irun sp F (map ASimple nat_prelude) n1 a1) as [[[ok2 n2] a2] t2] eqn:R2.
  pose proof (nat_prelude_inv _ _ _ _ _ _ _ I1 R2) as I2.
  destruct ok2.
  - destruct (irun sp F (map ASimple (nat_abody rs)) n2 a2) as [[[ok3 n3] a3] t3] eqn:R3.
    injection H as <- <- <- <-. eapply irun_inv; [apply nat_body_pres | exact R3 | exact I2].
  - injection H as <- <- <- <-. exact I2.
Qed.

Lemma nat_prelude_nf n ok n' a' tr :
  irun sp no_faults (map ASimple nat_prelude) n a_clean = (ok, n', a', tr) ->
  ok = true /\ a' = mkA (Some []) None None 1 1.
Proof. intro H. unfold sp, nat_prelude, a_clean in H. sx H. inv_fin. split; reflexivity. Qed.

Lemma nat_body_nf rs : forall n rs0 ok n' a' tr,
  irun sp no_faults (map ASimple (nat_abody rs)) n (mkA (Some rs0) None None 1 1) = (ok, n', a', tr) ->
  ok = true /\ a' = mkA (Some (rs0 ++ rs)) None None 1 1.
Proof.
  unfold irun. induction rs as [|r rs IH]; intros n rs0 ok n' a' tr H.
  - cbn in H. injection H as <- <- <- <-. rewrite app_nil_r. split; reflexivity.
  - cbn [nat_abody map arun arun_step arun_sstep aissue no_faults iexec aget a_c0 aset a_c1 a_c2 a_jo a_jp] in H.
    match type of H with context [arun ?A ?B ?C ?D ?E ?G ?H1 ?H2 ?F ?xs ?m ?st] =>
      destruct (arun A B C D E G H1 H2 F xs m st) as [[[ok2 n2] a2] t2] eqn:R2 end.
    apply IH in R2 as [-> ->]. injection H as <- <- <- <-. rewrite <- app_assoc. split; reflexivity.
Qed.

Lemma nat_setup_nf rs n a ok n' a' tr :
  nat_inv a -> irun sp no_faults (a_nat_setup rs) n a = (ok, n', a', tr) -> ok = true /\ a' = a_nat_full rs.
Proof.
  intros Hi H. rewrite nat_setup_split, irun_app in H.
  destruct (irun sp no_faults a_nat_restore n a) as [[[ok1 n1] a1] t1] eqn:R1.
  destruct (nat_restore_nf _ _ _ _ _ _ Hi R1) as [-> ->].
  rewrite irun_app in H.
  destruct (irun sp no_faults (map ASimple nat_prelude) n1 a_clean) as [[[ok2 n2] a2] t2] eqn:R2.
  destruct (nat_prelude_nf _ _ _ _ _ R2) as [-> ->].
  destruct (irun sp no_faults (map ASimple (nat_abody rs)) n2 (mkA (Some []) None None 1 1)) as [[[ok3 n3] a3] t3] eqn:R3.
  destruct (nat_body_nf _ _ _ _ _ _ _ R3) as [-> ->].
  injection H as <- <- <- <-. split; reflexivity.
Qed.

Lemma nat_full_inv rs : nat_inv (a_nat_full rs).
Proof. unfold nat_inv, a_nat_full. cbn. intuition (try lia; discriminate). Qed.

Lemma fault_at_shift n j i : fault_at (n + j) (n + i) = fault_at j i.
Proof.
  unfold fault_at. destruct (Nat.eqb i j) eqn:E.
  - apply Nat.eqb_eq in E. subst. apply Nat.eqb_refl.
  - apply Nat.eqb_neq in E. apply Nat.eqb_neq. lia.
Qed.

Lemma nat_restore_one k n rs ok n' a' tr :
  irun sp (fault_at k) a_nat_restore n (a_nat_full rs) = (ok, n', a', tr) ->
  a_nd sp a' = true \/ (n <= k /\ exists x, nth_error tr (k - n) = Some x /\ excused x = true).
Proof.
  intro H. rewrite irun_shift in H.
  destruct (irun sp (fun i => fault_at k (n + i)) a_nat_restore 0 (a_nat_full rs)) as [[[ok0 m] a0] t0] eqn:E.
  injection H as <- <- <- <-.
  destruct (Nat.ltb k n) eqn:L.
  - apply Nat.ltb_lt in L. rewrite (irun_ext_all sp no_faults) in E.
    2:{ intro i. unfold fault_at, no_faults. apply Nat.eqb_neq. lia. }
    destruct (nat_restore_nf _ _ _ _ _ _ (nat_full_inv rs) E) as [_ ->]. left. reflexivity.
  - apply Nat.ltb_ge in L. assert (J : exists j, k = n + j) by (exists (k - n); lia). destruct J as [j ->].
    rewrite (irun_ext_all sp (fault_at j)) in E by (intro i; apply fault_at_shift).
    replace (n + j - n) with j by lia.
    destruct j as [|[|[|[|[|j]]]]]; unfold sp, a_nat_restore, a_nat_full in E; sx E; inv_fin;
      first [left; reflexivity | right; split; [lia|]; eexists; split; reflexivity].
Qed.
End Nat.

Lemma forall_and_app {A} (P : A -> Prop) l1 l2 : Forall P l1 -> Forall P l2 -> Forall P (l1 ++ l2).
Proof. intros H1 H2. apply Forall_app. split; assumption. Qed.

Section NatMethod.
Variable c : cfg.
Hypothesis Hm : c_method c = MNat.
Hypothesis Ho : c_owner c = None.
Hypothesis Hudp : c_udp c = false.
Hypothesis Hwf : cfg_wf c = true.
Hypothesis Hport : forall f, pname_ok (fc_port (fcfg c f)) = true.

Definition nsp (f : fam) : ispec := nat_is f None (fc_port (fcfg c f)).
Definition nAS (f : fam) : iprog := a_nat_setup (map snd (fc_body (fcfg c f))).
Definition nAR (f : fam) : iprog := a_nat_restore.

Lemma nat_not_pf : not_pf c = true.
Proof. unfold not_pf. rewrite Hm. reflexivity. Qed.

Lemma nat_udp : udp_refused c = false.
Proof. unfold udp_refused. rewrite Hudp. reflexivity. Qed.

Lemma nat_body_chain f : fc_on (fcfg c f) = true ->
  forall cr, In cr (fc_body (fcfg c f)) -> fst cr = nat_chain (fc_port (fcfg c f)).
Proof.
  intros On cr Hin. pose proof (body_wf_f c f Hwf) as B. unfold body_wf, ipt_table in B. rewrite Hm in B.
  unfold own_chains in B. rewrite On, Hm in B. rewrite forallb_forall in B. specialize (B cr Hin).
  unfold tmem in B. cbn [existsb] in B. rewrite orb_false_r in B. apply bytes_eqb_eq in B. exact B.
Qed.

Lemma nat_HprogR f : fc_on (fcfg c f) = true -> restore_prog c f = map (icomp (nsp f)) (nAR f).
Proof. intros _. unfold restore_prog. rewrite Hm, Ho. reflexivity. Qed.

Lemma nat_HprogS f : fc_on (fcfg c f) = true -> setup_prog c f = map (icomp (nsp f)) (nAS f).
Proof.
  intro On. unfold setup_prog. rewrite Hm, Ho. unfold nat_setup, nAS, a_nat_setup.
  rewrite (map_app (icomp (nsp f))). apply (f_equal2 (@app step)); [reflexivity|].
  cbn [app map]. do 4 (apply (f_equal2 cons); [reflexivity|]).
  rewrite !map_map. apply map_ext_in. intros cr Hin. cbn.
  rewrite (nat_body_chain f On cr Hin). reflexivity.
Qed.

Lemma nat_HonR f : prog_on (nsp f) (nAR f).
Proof.
  apply Forall_cons; [|apply Forall_nil]. split; [reflexivity|].
  repeat (apply Forall_cons; [exact I || reflexivity|]). apply Forall_nil.
Qed.

Lemma nat_HonS f : prog_on (nsp f) (nAS f).
Proof.
  unfold nAS, a_nat_setup. apply forall_and_app; [apply nat_HonR|].
  apply Forall_forall. intros x Hx. apply in_map_iff in Hx as (y & <- & Hy).
  apply in_app_iff in Hy as [Hy|Hy].
  - cbn in Hy. destruct Hy as [<-|[<-|[<-|[<-|[]]]]]; cbn; auto.
  - apply in_map_iff in Hy as (r & <- & _). reflexivity.
Qed.

Lemma nat_Hown f t : own_chains c f t =
  if fc_on (fcfg c f) then (match t, TNat with TNat, TNat | TMangle, TMangle => is_names (nsp f) | _, _ => [] end) else [].
Proof. unfold own_chains. rewrite Hm. destruct (fc_on (fcfg c f)), t; reflexivity. Qed.
Lemma nat_Hmark f t : own_mark c f t = None.
Proof. unfold own_mark. rewrite Hm, Ho. destruct (fc_on (fcfg c f)), t; reflexivity. Qed.
Lemma nat_Hnft : own_nft c = [].
Proof. unfold own_nft. rewrite Hm. reflexivity. Qed.

Theorem nat_all_exits s0 k cut :
  erase c s0 = s0 -> kst_wf s0 = true -> sess_ok c s0 k cut = true.
Proof.
  intros He Hk.
  assert (Wf : forall f, fc_on (fcfg c f) = true -> is_wf (nsp f)) by (intros f _; apply nat_is_wf; apply Hport).
  apply (all_exits c nat_not_pf Hwf nat_udp astate (mR nsp) (fun _ => a_clean)
           (fun f a => a = a_nat_full (map snd (fc_body (fcfg c f)))) (fun _ => nat_inv) (fun f => a_nd (nsp f)) (fun _ => false)
           (mS nsp nAS) (mRr nsp nAR)).
  - apply (m_sim c TNat nsp (fun _ => eq_refl) (fun _ => eq_refl) Wf (setup_prog c) nAS nat_HprogS (fun f _ => nat_HonS f)).
  - apply (m_sim c TNat nsp (fun _ => eq_refl) (fun _ => eq_refl) Wf (restore_prog c) nAR nat_HprogR (fun f _ => nat_HonR f)).
  - apply m_ext.
  - apply m_ext.
  - apply m_win.
  - apply m_win.
  - intro f. unfold nat_inv, a_clean. cbn. intuition lia.
  - intros F f n a ok n' a' tr Hi _ H. eapply nat_setup_inv; eassumption.
  - intros k0 f n a ok n' a' tr Hi H. left. eapply nat_restore_inv; eassumption.
  - intros f n a ok n' a' tr _ Hi H. exact (proj2 (nat_restore_nf _ _ _ _ _ _ _ _ Hi H)).
  - intros f n a ok n' a' tr _ Hi H. eapply nat_setup_nf; eassumption.
  - intros f k0 n a ok n' a' tr _ -> H. eapply nat_restore_one; exact H.
  - apply (m_fin c TNat nsp (fun _ => eq_refl) (fun _ => eq_refl) nat_Hown nat_Hmark nat_Hnft).
  - apply (m_nd c TNat nsp (fun _ => eq_refl) (fun _ => eq_refl) nat_Hown nat_Hnft).
  - apply (m_init c TNat nsp (fun _ => eq_refl) (fun _ => eq_refl) nat_Hown nat_Hmark); assumption.
  - cbv zeta. apply andb_false_iff. right. destruct (nth_cmd _ _); reflexivity.
Qed.
End NatMethod.

(* ------------------------------------------------------------------ *)
(* tproxy (repaired restore_firewall: every deletion is nonfatal)        *)

Definition tp_inv (p : tok) (a : astate) : Prop :=
  (a_c0 a = None -> a_jo a = 0) /\ a_jo a <= 1 /\ (a_c1 a = None -> a_jp a = 0) /\ a_jp a <= 1 /\
  cnto (tp_mark p) (a_c1 a) = 0 /\ cnto (tp_mark p) (a_c2 a) = 0 /\ cnto (tp_tproxy p) (a_c2 a) = 0.

Lemma jumps_to_j X Y : jumps_to X [bs "-j"; Y] = bytes_eqb Y X.
Proof. unfold jumps_to. rewrite jump_target_j. reflexivity. Qed.

Section Tp.
Variable f : fam.
Variable p : tok.
Hypothesis Hp : pname_ok p = true.
Let sp := tp_is f p.

Lemma tp_names_ne x y : x <> y -> tp_nm p x <> tp_nm p y.
Proof.
  intros Hne E. destruct x, y; try (exfalso; apply Hne; reflexivity);
    unfold tp_nm, tp_mark, tp_tproxy, tp_divert in E; cbn [app] in E; discriminate.
Qed.

Lemma tp_is_wf : is_wf sp.
Proof.
  constructor.
  - intros x y _ _ E. destruct x, y; try reflexivity; exfalso; revert E; apply tp_names_ne; discriminate.
  - intros x _. destruct x; cbn; unfold tp_mark, tp_tproxy, tp_divert; discriminate.
  - intros x _. destruct x; cbn; unfold tp_mark, tp_tproxy, tp_divert; discriminate.
  - intros x _. destruct x; cbn; unfold tp_mark, tp_tproxy, tp_divert; rewrite nospace_app, (pname_nospace p Hp); reflexivity.
  - intros x _. destruct x; cbn; unfold tp_mark, tp_tproxy, tp_divert;
      (apply aname_app; [reflexivity | exact (pname_ascii p Hp) | discriminate]).
  - intros x _. cbn [is_nm is_jo is_to sp tp_is]. rewrite jumps_to_j.
    destruct x; cbn [slot_eqb tp_nm]; [apply bytes_eqb_refl | |]; apply beq_false;
      [apply (tp_names_ne S0 S1) | apply (tp_names_ne S0 S2)]; discriminate.
  - intros x _. cbn [is_nm is_jp is_tp sp tp_is]. rewrite jumps_to_j.
    destruct x; cbn [slot_eqb tp_nm]; [|apply bytes_eqb_refl|]; apply beq_false;
      [apply (tp_names_ne S1 S0) | apply (tp_names_ne S1 S2)]; discriminate.
  - reflexivity.
  - reflexivity.
Qed.

Ltac tp_fin :=
  unfold tp_inv in *; cbn [itest aget cnto cntl a_c0 a_c1 a_c2 a_jo a_jp length filter] in *;
  repeat match goal with
         | H : true = false |- _ => discriminate H
         | H : false = true |- _ => discriminate H
         | H : _ /\ _ |- _ => destruct H
         | H : (_, _) = (_, _) |- _ => injection H as <-
         | H : Some _ = Some _ |- _ => injection H as <-
         | H : Some _ = None |- _ => discriminate H
         | H : None = Some _ |- _ => discriminate H
         | H : Nat.eqb _ _ = true |- _ => apply Nat.eqb_eq in H
         | H : Nat.eqb _ _ = false |- _ => apply Nat.eqb_neq in H
         end; subst; cbn [itest aget cnto cntl a_c0 a_c1 a_c2 a_jo a_jp length filter] in *.

Ltac tp_solve := intuition (try lia; try discriminate; try congruence).

Lemma tp_cpres c :
  match c with CApp _ _ | CHook _ => False | _ => True end -> c_pres sp (tp_inv p) c.
Proof.
  intros Hc a a' E I. destruct a as [c0 c1 c2 jo jp].
  destruct c as [[| |]|[| |]|[| |]|x r|o|[|]]; try contradiction; unfold sp in E; sx E; tp_fin; tp_solve.
Qed.

Lemma tp_cpres_app x r : tp_rule_ok p (x, r) = true -> c_pres sp (tp_inv p) (CApp x r).
Proof.
  intros Hr a a' E I. destruct a as [c0 c1 c2 jo jp]. unfold tp_rule_ok in Hr. cbn [fst snd] in Hr.
  destruct x; unfold sp in E; sx E; tp_fin; rewrite ?cntl_app, ?cntl_cons, ?cntl_nil.
  - tp_solve.
  - apply negb_true_iff in Hr. rewrite Hr. tp_solve.
  - apply andb_true_iff in Hr as [Hr1 Hr2]. apply negb_true_iff in Hr1. apply negb_true_iff in Hr2.
    rewrite Hr1, Hr2. tp_solve.
Qed.

Lemma tp_restore_pres : Forall (st_pres sp (tp_inv p)) a_tp_restore.
Proof.
  repeat (apply Forall_cons; [cbn [st_pres]; repeat (apply Forall_cons; [apply tp_cpres; exact I|]); apply Forall_nil|]).
  apply Forall_nil.
Qed.

Lemma tp_restore_inv F n a ok n' a' tr :
  tp_inv p a -> irun sp F a_tp_restore n a = (ok, n', a', tr) -> tp_inv p a'.
Proof. intros Hi H. eapply irun_inv; [exact tp_restore_pres | exact H | exact Hi]. Qed.

Ltac contra :=
  try solve [exfalso;
             repeat match goal with
                    | H : Nat.eqb _ _ = false |- _ => apply Nat.eqb_neq in H
                    | H : Nat.eqb _ _ = true |- _ => apply Nat.eqb_eq in H
                    end; cbn [cnto cntl length filter] in *; lia].
Ltac sxp H := repeat (sx_red H; sx_step H; contra); sx_red H.

Lemma tp_restore_nf n a ok n' a' tr :
  tp_inv p a -> irun sp no_faults a_tp_restore n a = (ok, n', a', tr) -> ok = true /\ a' = a_clean.
Proof.
  intros Hi H. destruct a as [c0 c1 c2 jo jp]. unfold tp_inv in Hi. cbn [a_c0 a_c1 a_c2 a_jo a_jp] in Hi.
  destruct Hi as (H0 & Ho & H1 & Hp' & M1 & M2 & T2).
  destruct jo as [|[|jo]]; [| |exfalso; lia]; (destruct jp as [|[|jp]]; [| |exfalso; lia]);
    destruct c0 as [r0|]; try (specialize (H0 eq_refl); discriminate);
    destruct c1 as [r1|]; try (specialize (H1 eq_refl); discriminate);
    destruct c2 as [r2|]; cbn [cnto] in M1, M2, T2;
    unfold sp, a_tp_restore in H; sxp H; tp_fin; split; reflexivity.
Qed.

Definition tp_prelude : list (asstep icmd) :=
  [ADo (CNew S0); ADo (CFlush S0); ADo (CNew S2); ADo (CFlush S2);
   ADo (CNew S1); ADo (CFlush S1); ADo (CHook true); ADo (CHook false)].
Definition tp_appbody (b : list (slot * rule)) : list (asstep icmd) :=
  map (fun xr : slot * rule => ADo (CApp (fst xr) (snd xr))) b.

Lemma tp_setup_split b :
  a_tp_setup b = a_tp_restore ++ map ASimple tp_prelude ++ map ASimple (tp_appbody b).
Proof. unfold a_tp_setup. rewrite map_app. reflexivity. Qed.

Lemma tp_prelude_inv F n a ok n' a' tr :
  tp_inv p a -> irun sp F (map ASimple tp_prelude) n a = (ok, n', a', tr) -> tp_inv p a'.
Proof.
  intros Hi H. destruct a as [c0 c1 c2 jo jp]. unfold sp, tp_prelude in H. sx H; tp_fin; tp_solve.
Qed.

Lemma tp_body_pres b :
  forallb (tp_rule_ok p) b = true -> Forall (st_pres sp (tp_inv p)) (map ASimple (tp_appbody b)).
Proof.
  intro Hb. rewrite forallb_forall in Hb.
  apply Forall_forall. intros x Hx. apply in_map_iff in Hx as (y & <- & Hy).
  apply in_map_iff in Hy as ([z r] & <- & Hin). apply tp_cpres_app. apply Hb. exact Hin.
Qed.

Lemma tp_setup_inv b F n a ok n' a' tr :
  forallb (tp_rule_ok p) b = true ->
  tp_inv p a -> irun sp F (a_tp_setup b) n a = (ok, n', a', tr) -> tp_inv p a'.
Proof.
  intros Hb Hi H. rewrite tp_setup_split, irun_app in H.
  destruct (irun sp F a_tp_restore n a) as [[[ok1 n1] a1] t1] eqn:R1.
  pose proof (tp_restore_inv _ _ _ _ _ _ _ Hi R1) as I1.
  destruct ok1; [|injection H as <- <- <- <-; exact I1].
  rewrite irun_app in H.
  destruct (irun sp F (map ASimple tp_prelude) n1 a1) as [[[ok2 n2] a2] t2] eqn:R2.
  pose proof (tp_prelude_inv _ _ _ _ _ _ _ I1 R2) as I2.
  destruct ok2.
  - destruct (irun sp F (map ASimple (tp_appbody b)) n2 a2) as [[[ok3 n3] a3] t3] eqn:R3.
    injection H as <- <- <- <-. eapply irun_inv; [apply tp_body_pres; exact Hb | exact R3 | exact I2].
  - injection H as <- <- <- <-. exact I2.
Qed.

Lemma tp_prelude_nf n ok n' a' tr :
  irun sp no_faults (map ASimple tp_prelude) n a_clean = (ok, n', a', tr) ->
  ok = true /\ a' = mkA (Some []) (Some []) (Some []) 1 1.
Proof. intro H. unfold sp, tp_prelude, a_clean in H. sx H. tp_fin. split; reflexivity. Qed.

Lemma tp_body_nf b : forall n x0 x1 x2 ok n' a' tr,
  irun sp no_faults (map ASimple (tp_appbody b)) n (mkA (Some x0) (Some x1) (Some x2) 1 1) = (ok, n', a', tr) ->
  ok = true /\ a' = mkA (Some (x0 ++ sel S0 b)) (Some (x1 ++ sel S1 b)) (Some (x2 ++ sel S2 b)) 1 1.
Proof.
  unfold irun. induction b as [|[x r] b IH]; intros n x0 x1 x2 ok n' a' tr H.
  - cbn in H. injection H as <- <- <- <-. unfold sel. cbn. rewrite !app_nil_r. split; reflexivity.
  - destruct x;
      cbn [tp_appbody map fst snd arun arun_step arun_sstep aissue no_faults iexec aget a_c0 aset a_c1 a_c2 a_jo a_jp] in H;
      match type of H with context [arun ?A ?B ?C ?D ?E ?G ?H1 ?H2 ?F ?xs ?m ?st] =>
        destruct (arun A B C D E G H1 H2 F xs m st) as [[[ok2 n2] a2] t2] eqn:R2 end;
      apply IH in R2 as [-> ->]; injection H as <- <- <- <-; unfold sel; cbn [filter fst snd slot_eqb map];
      rewrite <- ?app_assoc; split; reflexivity.
Qed.

Lemma tp_setup_nf b n a ok n' a' tr :
  tp_inv p a -> irun sp no_faults (a_tp_setup b) n a = (ok, n', a', tr) -> ok = true /\ a' = a_tp_full b.
Proof.
  intros Hi H. rewrite tp_setup_split, irun_app in H.
  destruct (irun sp no_faults a_tp_restore n a) as [[[ok1 n1] a1] t1] eqn:R1.
  destruct (tp_restore_nf _ _ _ _ _ _ Hi R1) as [-> ->].
  rewrite irun_app in H.
  destruct (irun sp no_faults (map ASimple tp_prelude) n1 a_clean) as [[[ok2 n2] a2] t2] eqn:R2.
  destruct (tp_prelude_nf _ _ _ _ _ R2) as [-> ->].
  destruct (irun sp no_faults (map ASimple (tp_appbody b)) n2 (mkA (Some []) (Some []) (Some []) 1 1)) as [[[ok3 n3] a3] t3] eqn:R3.
  destruct (tp_body_nf _ _ _ _ _ _ _ _ _ R3) as [-> ->].
  injection H as <- <- <- <-. split; reflexivity.
Qed.

Lemma tp_full_inv b : forallb (tp_rule_ok p) b = true -> tp_inv p (a_tp_full b).
Proof.
  intro Hb. unfold tp_inv, a_tp_full. cbn [a_c0 a_c1 a_c2 a_jo a_jp cnto].
  assert (Z : forall x X, (forall r, In (x, r) b -> jumps_to X r = false) -> cntl X (sel x b) = 0).
  { intros x X H. apply cntl_zero_all. intros r Hr. unfold sel in Hr. apply in_map_iff in Hr as ([y r'] & E & Hin).
    cbn in E. subst r'. apply filter_In in Hin as [Hin Hy]. cbn in Hy. apply slot_eqb_eq in Hy. subst y.
    apply H. exact Hin. }
  rewrite forallb_forall in Hb.
  repeat split; try discriminate; try lia; apply Z; intros r Hin; specialize (Hb _ Hin);
    unfold tp_rule_ok in Hb; cbn [fst snd] in Hb.
  - apply negb_true_iff in Hb. exact Hb.
  - apply andb_true_iff in Hb as [Hb _]. apply negb_true_iff in Hb. exact Hb.
  - apply andb_true_iff in Hb as [_ Hb]. apply negb_true_iff in Hb. exact Hb.
Qed.

Lemma tp_restore_one b k n ok n' a' tr :
  forallb (tp_rule_ok p) b = true ->
  irun sp (fault_at k) a_tp_restore n (a_tp_full b) = (ok, n', a', tr) ->
  a_nd sp a' = true \/ (n <= k /\ exists x, nth_error tr (k - n) = Some x /\ excused x = true).
Proof.
  intros Hb H. rewrite irun_shift in H.
  destruct (irun sp (fun i => fault_at k (n + i)) a_tp_restore 0 (a_tp_full b)) as [[[ok0 m] a0] t0] eqn:E.
  injection H as <- <- <- <-.
  destruct (Nat.ltb k n) eqn:L.
  - apply Nat.ltb_lt in L. rewrite (irun_ext_all sp no_faults) in E.
    2:{ intro i. unfold fault_at, no_faults. apply Nat.eqb_neq. lia. }
    destruct (tp_restore_nf _ _ _ _ _ _ (tp_full_inv b Hb) E) as [_ ->]. left. reflexivity.
  - apply Nat.ltb_ge in L. assert (J : exists j, k = n + j) by (exists (k - n); lia). destruct J as [j ->].
    rewrite (irun_ext_all sp (fault_at j)) in E by (intro i; apply fault_at_shift).
    replace (n + j - n) with j by lia.
    unfold a_tp_full in E. generalize dependent (sel S0 b). generalize dependent (sel S1 b). generalize dependent (sel S2 b).
    intros l2 l1 l0 E.
    destruct j as [|[|[|[|[|[|[|[|[|[|[|j]]]]]]]]]]]; unfold sp, a_tp_restore in E; sx E; tp_fin;
      first [left; reflexivity | right; split; [lia|]; eexists; split; reflexivity].
Qed.
End Tp.

Section TpMethod.
Variable c : cfg.
Hypothesis Hm : c_method c = MTproxy.
Hypothesis Hrep : c_repaired c = true.
Hypothesis Hwf : cfg_wf c = true.
Hypothesis Hport : forall f, pname_ok (fc_port (fcfg c f)) = true.
Hypothesis Hord : forall f, fc_on (fcfg c f) = true ->
  tp_body_ordered (fc_port (fcfg c f)) (fc_body (fcfg c f)) = true.

Definition tsp (f : fam) : ispec := tp_is f (fc_port (fcfg c f)).
Definition tAB (f : fam) : list (slot * rule) := tp_abody (fc_port (fcfg c f)) (fc_body (fcfg c f)).
Definition tAS (f : fam) : iprog := a_tp_setup (tAB f).
Definition tAR (f : fam) : iprog := a_tp_restore.

Lemma tp_not_pf : not_pf c = true.
Proof. unfold not_pf. rewrite Hm. reflexivity. Qed.
Lemma tp_udp : udp_refused c = false.
Proof. unfold udp_refused. rewrite Hm. apply andb_false_r. Qed.

Lemma tp_body_chain f : fc_on (fcfg c f) = true ->
  forall cr, In cr (fc_body (fcfg c f)) -> tp_nm (fc_port (fcfg c f)) (tp_slot (fc_port (fcfg c f)) (fst cr)) = fst cr.
Proof.
  intros On cr Hin. pose proof (body_wf_f c f Hwf) as B. unfold body_wf, ipt_table in B. rewrite Hm in B.
  unfold own_chains in B. rewrite On, Hm in B. rewrite forallb_forall in B. specialize (B cr Hin).
  unfold tmem in B. cbn [existsb] in B. rewrite orb_false_r in B. unfold tp_slot.
  destruct (bytes_eqb (fst cr) (tp_mark (fc_port (fcfg c f)))) eqn:E1; [apply bytes_eqb_eq in E1; symmetry; exact E1|].
  destruct (bytes_eqb (fst cr) (tp_tproxy (fc_port (fcfg c f)))) eqn:E2; [apply bytes_eqb_eq in E2; symmetry; exact E2|].
  cbn [orb] in B. apply bytes_eqb_eq in B. symmetry. exact B.
Qed.

Lemma tp_HprogR f : fc_on (fcfg c f) = true -> restore_prog c f = map (icomp (tsp f)) (tAR f).
Proof. intros _. unfold restore_prog. rewrite Hm, Hrep. reflexivity. Qed.

Lemma tp_HprogS f : fc_on (fcfg c f) = true -> setup_prog c f = map (icomp (tsp f)) (tAS f).
Proof.
  intro On. unfold setup_prog. rewrite Hm, Hrep. unfold tproxy_setup, tAS, a_tp_setup.
  rewrite (map_app (icomp (tsp f))). apply (f_equal2 (@app step)); [reflexivity|].
  cbn [app map]. do 8 (apply (f_equal2 cons); [reflexivity|]).
  unfold tAB, tp_abody. rewrite !map_map. apply map_ext_in. intros cr Hin.
  unfold icomp, comp, comp_ss, iconc, iop_of. cbn [fst snd is_fam is_tbl is_nm tsp tp_is].
  rewrite (tp_body_chain f On cr Hin). reflexivity.
Qed.

Lemma tp_HonR f : prog_on (tsp f) (tAR f).
Proof.
  repeat (apply Forall_cons; [split; [reflexivity|]; repeat (apply Forall_cons; [exact I || reflexivity|]); apply Forall_nil|]).
  apply Forall_nil.
Qed.

Lemma tp_HonS f : prog_on (tsp f) (tAS f).
Proof.
  unfold tAS, a_tp_setup. apply forall_and_app; [apply tp_HonR|].
  apply Forall_forall. intros x Hx. apply in_map_iff in Hx as (y & <- & Hy).
  apply in_app_iff in Hy as [Hy|Hy].
  - cbn in Hy. repeat (destruct Hy as [<-|Hy]; [cbn; auto|]). destruct Hy.
  - apply in_map_iff in Hy as (r & <- & _). reflexivity.
Qed.

Lemma tp_Hown f t : own_chains c f t =
  if fc_on (fcfg c f) then (match t, TMangle with TNat, TNat | TMangle, TMangle => is_names (tsp f) | _, _ => [] end) else [].
Proof. unfold own_chains. rewrite Hm. destruct (fc_on (fcfg c f)), t; reflexivity. Qed.
Lemma tp_Hmark f t : own_mark c f t = None.
Proof. unfold own_mark. rewrite Hm. destruct (fc_on (fcfg c f)), t; reflexivity. Qed.
Lemma tp_Hnft : own_nft c = [].
Proof. unfold own_nft. rewrite Hm. reflexivity. Qed.

Lemma tp_ord f : fc_on (fcfg c f) = true -> forallb (tp_rule_ok (fc_port (fcfg c f))) (tAB f) = true.
Proof. intro On. exact (Hord f On). Qed.

Theorem tproxy_all_exits s0 k cut :
  erase c s0 = s0 -> kst_wf s0 = true -> sess_ok c s0 k cut = true.
Proof.
  intros He Hk.
  assert (Wf : forall f, fc_on (fcfg c f) = true -> is_wf (tsp f)) by (intros f _; apply tp_is_wf; apply Hport).
  apply (all_exits c tp_not_pf Hwf tp_udp astate (mR tsp) (fun _ => a_clean)
           (fun f a => a = a_tp_full (tAB f))
           (fun f a => fc_on (fcfg c f) = true -> tp_inv (fc_port (fcfg c f)) a)
           (fun f => a_nd (tsp f)) (fun _ => false) (mS tsp tAS) (mRr tsp tAR)).
  - apply (m_sim c TMangle tsp (fun _ => eq_refl) (fun _ => eq_refl) Wf (setup_prog c) tAS tp_HprogS (fun f _ => tp_HonS f)).
  - apply (m_sim c TMangle tsp (fun _ => eq_refl) (fun _ => eq_refl) Wf (restore_prog c) tAR tp_HprogR (fun f _ => tp_HonR f)).
  - apply m_ext.
  - apply m_ext.
  - apply m_win.
  - apply m_win.
  - intros f _. unfold tp_inv, a_clean. cbn. intuition lia.
  - intros F f n a ok n' a' tr Hi _ H On. eapply tp_setup_inv; [exact (tp_ord f On) | exact (Hi On) | exact H].
  - intros k0 f n a ok n' a' tr Hi H. left. intro On. eapply tp_restore_inv; [exact (Hi On) | exact H].
  - intros f n a ok n' a' tr On Hi H. exact (proj2 (tp_restore_nf _ _ _ _ _ _ _ _ (Hi On) H)).
  - intros f n a ok n' a' tr On Hi H. eapply tp_setup_nf; [exact (Hi On) | exact H].
  - intros f k0 n a ok n' a' tr On -> H. eapply tp_restore_one; [exact (tp_ord f On) | exact H].
  - apply (m_fin c TMangle tsp (fun _ => eq_refl) (fun _ => eq_refl) tp_Hown tp_Hmark tp_Hnft).
  - apply (m_nd c TMangle tsp (fun _ => eq_refl) (fun _ => eq_refl) tp_Hown tp_Hnft).
  - apply (m_init c TMangle tsp (fun _ => eq_refl) (fun _ => eq_refl) tp_Hown tp_Hmark); assumption.
  - cbv zeta. apply andb_false_iff. right. destruct (nth_cmd _ _); reflexivity.
Qed.
End TpMethod.
