(* Proofs/FwPfHook_lemmas.v — C03, pf: the anchor's rules decide only where the
   main ruleset calls the anchor. *)
From Coq Require Import List NArith ZArith Ascii Bool Lia ZifyBool.
From SV Require Import Lib.Bytes Model.FwRules Model.FwWalk Model.FwPfHook
                       Proofs.FwRules_lemmas Proofs.FwPf_lemmas.
Import ListNotations.
Local Open Scope N_scope.

Lemma line_evaluated_all os l : line_evaluated os hook_all l = true.
Proof. destruct os, l; reflexivity. Qed.

Lemma filter_all_true {A} (P : A -> bool) l : (forall x, P x = true) -> filter P l = l.
Proof. intros H. induction l as [|a l IH]; simpl; [reflexivity|]. rewrite H, IH. reflexivity. Qed.

Lemma pf_effective_all os ls : pf_effective os hook_all ls = ls.
Proof. apply filter_all_true. apply line_evaluated_all. Qed.

(* both calls present, pf enabled: the complete state decides as the anchor's rules do *)
Theorem pf_state_hooked os ls p :
  pf_state_verdict_of os hook_all ls p = pf_verdict_of os ls p.
Proof. unfold pf_state_verdict_of. rewrite pf_effective_all. reflexivity. Qed.

Lemma filter_flat_map_nil {A B} (P : B -> bool) (F : A -> list B) l :
  (forall x, In x l -> filter P (F x) = []) -> filter P (flat_map F l) = [].
Proof.
  induction l as [|a l IH]; simpl; intros H; [reflexivity|].
  rewrite filter_app, (H a (or_introl eq_refl)), IH; [reflexivity|].
  intros x Hx. apply H. right. exact Hx.
Qed.

(* a line that is evaluated although the filter call is missing holds no `pass out` rule *)
Lemma no_out_without_pass os h tbl l :
  h_pass h = false -> line_evaluated os h l = true -> filter is_out (sem_pf_line tbl l) = [].
Proof.
  intros Hp. unfold line_evaluated. rewrite Hp.
  destruct os, l; simpl; try reflexivity;
    rewrite ?andb_false_r; try discriminate; reflexivity.
Qed.

Lemma no_out_disabled os h tbl l :
  h_enabled h = false -> line_evaluated os h l = true -> filter is_out (sem_pf_line tbl l) = [].
Proof.
  intros He. unfold line_evaluated. rewrite He.
  destruct l; simpl; try reflexivity; discriminate.
Qed.

Lemma untouched_of_no_out os ls p :
  (forall l, In l ls -> filter is_out (sem_pf_line (pf_table_of ls) l) = []) ->
  pf_verdict_of os ls p = Untouched.
Proof.
  intros H. unfold pf_verdict_of. rewrite (filter_flat_map_nil is_out _ ls H). reflexivity.
Qed.

(* the filter `anchor` call is missing (whatever else is there): NOTHING is diverted *)
Theorem pf_state_no_filter_call os h ls p :
  h_pass h = false -> pf_state_verdict_of os h ls p = Untouched.
Proof.
  intros Hp. unfold pf_state_verdict_of. apply untouched_of_no_out.
  intros l Hl. apply (no_out_without_pass os h _ l Hp).
  unfold pf_effective in Hl. apply filter_In in Hl. tauto.
Qed.

Theorem pf_state_disabled os h ls p :
  h_enabled h = false -> pf_state_verdict_of os h ls p = Untouched.
Proof.
  intros He. unfold pf_state_verdict_of. apply untouched_of_no_out.
  intros l Hl. apply (no_out_disabled os h _ l He).
  unfold pf_effective in Hl. apply filter_In in Hl. tauto.
Qed.

(* the property's TCP clause on the complete state *)
Theorem pf_state_tcp_eq os pl p ls :
  wf_plan pl -> p_proto p = Tcp -> p_src_lo p = false ->
  pf_rules os pl (p_fam p) = Some ls ->
  pf_state_verdict_of os hook_all ls p =
  (if spec_interceptb (pl_entries pl) p then Divert (port_of pl (p_fam p)) else Untouched).
Proof.
  intros Hwf Hp Hs Hr. rewrite pf_state_hooked.
  assert (Hne : pf_rules os pl (p_fam p) <> None) by (rewrite Hr; discriminate).
  pose proof (pf_tcp_eq os pl p Hwf Hp Hs Hne) as E.
  unfold pf_verdict in E. rewrite Hr in E. injection E as E. exact E.
Qed.
