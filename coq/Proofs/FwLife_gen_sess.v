(* Proofs/FwLife_gen_sess.v — C04, general theorems, part 4: the session
   (firewall.main) over an abstract view of the own objects of both families.
   Generic in the method: the method supplies the abstract state, the abstract
   runners of its set-up / restore programs with their simulation, and six
   facts about them; the section derives `sess_ok c s0 k cut = true` for every
   clean well-formed s0, every failing command index k and every cut. *)
From Coq Require Import String List NArith ZArith Ascii Bool Lia Arith.
From SV Require Import Lib.Bytes Model.FwLife Model.FwLifeSpec Proofs.FwLife_lemmas Proofs.FwLife_gen_run.
Import ListNotations.

Definition ph (on : bool) (m : mark) (F : faultfn) (prog : list step) (n : nat) (s : kstate) : runres :=
  if on then let '(ok, n', s', ev) := run F prog n s in (ok, n', s', EMark m :: ev) else (true, n, s, []).

Lemma has_mark_app m a b : has_mark m (a ++ b) = has_mark m a || has_mark m b.
Proof. unfold has_mark. apply existsb_app. Qed.

Lemma kstate_eqb_refl s : kstate_eqb s s = true.
Proof. apply kstate_eqb_eq. reflexivity. Qed.

Section Session.
Variable c : cfg.
Hypothesis Hnpf : not_pf c = true.
Hypothesis Hwfc : cfg_wf c = true.
Hypothesis Hudp : udp_refused c = false.

Lemma session_unfold cut F s0 :
  c_nlines c <= cut ->
  session c cut F s0 =
    let tail := firstn (cut - c_nlines c) (c_tail c) in
    let '(ok6, n1, s1, ev1) := ph (fc_on (c_v6 c)) (MSetup V6) F (setup_prog c V6) 0 s0 in
    let '(ok4, n2, s2, ev2) :=
      if ok6 then ph (fc_on (c_v4 c)) (MSetup V4) F (setup_prog c V4) n1 s1 else (false, n1, s1, []) in
    let '(hosts, loop_fatal) := if ok4 then wait_loop tail else (O, false) in
    let ev3 := if ok4 then [EMark MStarted] else [] in
    let '(_, n3, s3, ev4) := ph (fc_on (c_v6 c)) (MRestore V6) F (restore_prog c V6) n2 s2 in
    let '(_, n4, s4, ev5) := ph (fc_on (c_v4 c)) (MRestore V4) F (restore_prog c V4) n3 s3 in
    let ev6 := match hosts with O => [] | _ => [EMark MHosts] end in
    mkRes (if ok4 then (if loop_fatal then ExitFatal else ExitReturn) else ExitFatal)
          s4 (ev1 ++ ev2 ++ ev3 ++ ev4 ++ ev5 ++ ev6) n4 n2 (py_init c).
Proof.
  intro Hle. unfold session.
  assert (Lt : Nat.ltb cut (c_nlines c) = false) by (apply Nat.ltb_ge; exact Hle). rewrite Lt.
  rewrite Hudp. unfold do_setup, do_restore, ph.
  unfold not_pf in Hnpf.
  destruct (c_method c); try discriminate;
    (destruct (fc_on (c_v6 c));
     [destruct (run F (setup_prog c V6) 0 s0) as [[[ok6 n1] s1] ev1]; destruct ok6 | ];
     cbn [andb];
     (destruct (fc_on (c_v4 c));
      repeat match goal with
             | |- context [run ?G ?p ?n ?s] => destruct (run G p n s) as [[[? ?] ?] ?]
             | |- context [wait_loop ?t] => destruct (wait_loop t)
             | |- context [if ?b then _ else _] => destruct b
             end; reflexivity)).
Qed.

(* ---------------- the method's abstract view ---------------- *)
Variable AS : Type.
Variable R : fam -> kstate -> AS -> Prop.
Variable clean : fam -> AS.
Variable Full : fam -> AS -> Prop.     (* the states a fault-free set-up ends in *)
Variable AInv : fam -> AS -> Prop.
Variable nd : fam -> AS -> bool.
Variable Exc : cmd -> bool.            (* tear-down commands whose own failure may break AInv (finding F41) *)
Variables arS arR : faultfn -> fam -> nat -> AS -> bool * nat * AS * list cmd.

Definition on (f : fam) : bool := fc_on (fcfg c f).

Definition sim_hyp (prog : fam -> list step) (ar : faultfn -> fam -> nat -> AS -> bool * nat * AS * list cmd) : Prop :=
  forall F f n s a ok n' s' ev,
    on f = true -> R f s a -> run F (prog f) n s = (ok, n', s', ev) ->
    exists a', ar F f n a = (ok, n', a', cmds_of ev) /\ R f s' a' /\
               (forall f' x, f' <> f -> R f' s x -> R f' s' x).
Definition ext_hyp (ar : faultfn -> fam -> nat -> AS -> bool * nat * AS * list cmd) : Prop :=
  forall F G f n a ok n' a' tr,
    ar F f n a = (ok, n', a', tr) -> (forall i, n <= i < n' -> G i = F i) -> ar G f n a = (ok, n', a', tr).
Definition win_hyp (ar : faultfn -> fam -> nat -> AS -> bool * nat * AS * list cmd) : Prop :=
  forall F f n a ok n' a' tr, ar F f n a = (ok, n', a', tr) -> n <= n' /\ length tr = n' - n.

Hypothesis SIM_S : sim_hyp (setup_prog c) arS.
Hypothesis SIM_R : sim_hyp (restore_prog c) arR.
Hypothesis EXT_S : ext_hyp arS.
Hypothesis EXT_R : ext_hyp arR.
Hypothesis WIN_S : win_hyp arS.
Hypothesis WIN_R : win_hyp arR.
Hypothesis P_inv_clean : forall f, AInv f (clean f).
Hypothesis P_inv_S : forall F f n a ok n' a' tr,
  AInv f a -> (a = clean f \/ forall i, F i = false) -> arS F f n a = (ok, n', a', tr) -> AInv f a'.
Hypothesis P_inv_R : forall k f n a ok n' a' tr,
  AInv f a -> arR (fault_at k) f n a = (ok, n', a', tr) ->
  AInv f a' \/ (n <= k /\ exists x, nth_error tr (k - n) = Some x /\ Exc x = true).
Hypothesis P_R_nf : forall f n a ok n' a' tr,
  on f = true -> AInv f a -> arR no_faults f n a = (ok, n', a', tr) -> a' = clean f.
Hypothesis P_S_nf : forall f n a ok n' a' tr,
  on f = true -> AInv f a -> arS no_faults f n a = (ok, n', a', tr) -> ok = true /\ Full f a'.
Hypothesis P_R_one : forall f k n a ok n' a' tr,
  on f = true -> Full f a -> arR (fault_at k) f n a = (ok, n', a', tr) ->
  nd f a' = true \/ (n <= k /\ exists x, nth_error tr (k - n) = Some x /\ excused x = true).
Hypothesis FIN : forall s, (forall f, on f = true -> R f s (clean f)) -> erase c s = s.
Hypothesis ND : forall s (a : fam -> AS),
  (forall f, on f = true -> R f s (a f) /\ nd f (a f) = true) -> no_divert c s = true.

Definition ares4 := (bool * nat * AS * list cmd)%type.
Definition aph (o : bool) (r : nat -> AS -> ares4) (n : nat) (a : AS) : ares4 :=
  if o then r n a else (true, n, a, []).

Definition asetup (F : faultfn) (a6 a4 : AS) : bool * nat * AS * AS * list cmd :=
  let '(ok6, n1, b6, t1) := aph (on V6) (arS F V6) 0 a6 in
  let '(ok4, n2, b4, t2) := if ok6 then aph (on V4) (arS F V4) n1 a4 else (false, n1, a4, []) in
  (ok4, n2, b6, b4, t1 ++ t2).
Definition arest (F : faultfn) (n2 : nat) (b6 b4 : AS) : nat * AS * AS * list cmd :=
  let '(_, n3, d6, t3) := aph (on V6) (arR F V6) n2 b6 in
  let '(_, n4, d4, t4) := aph (on V4) (arR F V4) n3 b4 in
  (n4, d6, d4, t3 ++ t4).

Definition St (s : kstate) (a6 a4 : AS) : Prop :=
  (on V6 = true -> R V6 s a6) /\ (on V4 = true -> R V4 s a4).

Lemma fam_ne64 : V6 <> V4. Proof. discriminate. Qed.
Lemma fam_ne46 : V4 <> V6. Proof. discriminate. Qed.

(* one phase: concrete vs abstract *)
Lemma ph_sim prog ar f f' m F n s a x ok n' s' ev :
  sim_hyp prog ar -> f' <> f ->
  (on f = true -> R f s a) -> (on f' = true -> R f' s x) ->
  ph (on f) m F (prog f) n s = (ok, n', s', ev) ->
  exists a', aph (on f) (ar F f) n a = (ok, n', a', cmds_of ev) /\
             (on f = true -> R f s' a') /\ (on f' = true -> R f' s' x) /\
             (forall m', has_mark m' ev = on f && has_mark m' [EMark m]).
Proof.
  intros Hsim Hne Hr Hx H. unfold ph, aph in *. destruct (on f) eqn:On.
  - destruct (run F (prog f) n s) as [[[ok1 n1] s1] ev1] eqn:Run.
    destruct (Hsim F f n s a ok1 n1 s1 ev1 On (Hr eq_refl) Run) as (a' & A & Hr' & Hfr).
    injection H as <- <- <- <-. exists a'. split; [exact A|]. split; [intros _; exact Hr'|].
    split; [intro Hf; apply Hfr; [exact Hne | exact (Hx Hf)]|].
    intro m'. change (EMark m :: ev1) with ([EMark m] ++ ev1). rewrite has_mark_app.
    rewrite (run_no_marks _ _ _ _ _ _ _ _ Run m'). rewrite orb_false_r. reflexivity.
  - injection H as <- <- <- <-. exists a. split; [reflexivity|]. split; [discriminate|].
    split; [exact Hx|]. intro m'. reflexivity.
Qed.

Lemma sim_session cut F s0 a6 a4 :
  St s0 a6 a4 -> c_nlines c <= cut ->
  let r := session c cut F s0 in
  let '(ok4, n2, b6, b4, t12) := asetup F a6 a4 in
  let '(n4, d6, d4, t34) := arest F n2 b6 b4 in
  St (r_final r) d6 d4 /\ r_ncmds r = n4 /\ r_fin_at r = n2 /\ cmds_of (r_events r) = t12 ++ t34 /\
  has_mark MStarted (r_events r) = ok4 /\
  has_mark (MRestore V6) (r_events r) = on V6 /\ has_mark (MRestore V4) (r_events r) = on V4 /\
  (ok4 = true -> c_nlines c < cut -> (exists l, c_tail c = true :: l) -> has_mark MHosts (r_events r) = true).
Proof.
  intros [H6 H4] Hle. cbv zeta. rewrite (session_unfold cut F s0 Hle). cbv zeta.
  unfold asetup, arest. fold (on V6). fold (on V4).
  change (fc_on (c_v6 c)) with (on V6). change (fc_on (c_v4 c)) with (on V4).
  destruct (ph (on V6) (MSetup V6) F (setup_prog c V6) 0 s0) as [[[ok6 n1] s1] ev1] eqn:P1.
  destruct (ph_sim (setup_prog c) arS V6 V4 _ _ _ _ a6 a4 _ _ _ _ SIM_S fam_ne46 H6 H4 P1)
    as (b6 & A1 & R6a & R4a & M1). rewrite A1.
  (* v4 set-up *)
  assert (P2 : exists ok4 n2 s2 ev2 b4 t2,
            (if ok6 then ph (on V4) (MSetup V4) F (setup_prog c V4) n1 s1 else (false, n1, s1, [])) = (ok4, n2, s2, ev2) /\
            (if ok6 then aph (on V4) (arS F V4) n1 a4 else (false, n1, a4, [])) = (ok4, n2, b4, t2) /\
            cmds_of ev2 = t2 /\ (on V6 = true -> R V6 s2 b6) /\ (on V4 = true -> R V4 s2 b4) /\
            (forall m', has_mark m' ev2 = ok6 && on V4 && has_mark m' [EMark (MSetup V4)])).
  { destruct ok6.
    - destruct (ph (on V4) (MSetup V4) F (setup_prog c V4) n1 s1) as [[[ok4 n2] s2] ev2] eqn:P2.
      destruct (ph_sim (setup_prog c) arS V4 V6 _ _ _ _ a4 b6 _ _ _ _ SIM_S fam_ne64 R4a R6a P2)
        as (b4 & A2 & R4b & R6b & M2).
      exists ok4, n2, s2, ev2, b4, (cmds_of ev2). repeat (split; [first [reflexivity | assumption]|]). exact M2.
    - exists false, n1, s1, [], a4, []. repeat (split; [first [reflexivity | assumption]|]). intro m'. reflexivity. }
  destruct P2 as (ok4 & n2 & s2 & ev2 & b4 & t2 & E2 & A2 & C2 & R6b & R4b & M2).
  rewrite E2, A2.
  destruct (if ok4 then wait_loop (firstn (cut - c_nlines c) (c_tail c)) else (0, false)) as [hosts lf] eqn:WL.
  destruct (ph (on V6) (MRestore V6) F (restore_prog c V6) n2 s2) as [[[ok7 n3] s3] ev4] eqn:P3.
  destruct (ph_sim (restore_prog c) arR V6 V4 _ _ _ _ b6 b4 _ _ _ _ SIM_R fam_ne46 R6b R4b P3)
    as (d6 & A3 & R6c & R4c & M3). rewrite A3.
  destruct (ph (on V4) (MRestore V4) F (restore_prog c V4) n3 s3) as [[[ok8 n4] s4] ev5] eqn:P4.
  destruct (ph_sim (restore_prog c) arR V4 V6 _ _ _ _ b4 d6 _ _ _ _ SIM_R fam_ne64 R4c R6c P4)
    as (d4 & A4 & R4d & R6d & M4). rewrite A4.
  cbn [r_final r_ncmds r_fin_at r_events].
  split; [split; assumption|]. split; [reflexivity|]. split; [reflexivity|].
  split.
  { rewrite !cmds_of_app. rewrite C2.
    assert (E3 : cmds_of (if ok4 then [EMark MStarted] else []) = []) by (destruct ok4; reflexivity).
    assert (E6 : cmds_of (match hosts with 0 => [] | S _ => [EMark MHosts] end) = []) by (destruct hosts; reflexivity).
    rewrite E3, E6, app_nil_r. cbn [app]. rewrite <- app_assoc. reflexivity. }
  rewrite !has_mark_app. rewrite !M1, !M2, !M3, !M4.
  assert (H3 : forall m', has_mark m' (if ok4 then [EMark MStarted] else []) = ok4 && has_mark m' [EMark MStarted])
    by (intro m'; destruct ok4; reflexivity).
  rewrite !H3.
  split; [|split; [|split]].
  - cbn. rewrite !andb_false_r. cbn. destruct hosts; cbn; rewrite ?orb_false_r, ?andb_true_r; reflexivity.
  - cbn. rewrite !andb_false_r. cbn. destruct hosts; cbn; rewrite ?orb_false_r, ?andb_true_r; reflexivity.
  - cbn. rewrite !andb_false_r. cbn. destruct hosts; cbn; rewrite ?orb_false_r, ?andb_true_r; reflexivity.
  - intros -> Hlt (l & Ht). rewrite Ht in WL.
    destruct (cut - c_nlines c) as [|d] eqn:D; [lia|]. cbn [firstn wait_loop] in WL.
    destruct (wait_loop (firstn d l)) as [h ft]. injection WL as <- <-.
    cbn. rewrite !orb_true_r. reflexivity.
Qed.

(* ---------------- the abstract session ---------------- *)
Lemma aph_inv_S F f n a ok n' a' tr :
  AInv f a -> (a = clean f \/ forall i, F i = false) -> aph (on f) (arS F f) n a = (ok, n', a', tr) -> AInv f a'.
Proof.
  unfold aph. intros Hi Hc H. destruct (on f); [eapply P_inv_S; eassumption|]. injection H as <- <- <- <-. exact Hi.
Qed.
Lemma aph_inv_R k f n a ok n' a' tr :
  AInv f a -> aph (on f) (arR (fault_at k) f) n a = (ok, n', a', tr) ->
  AInv f a' \/ (n <= k /\ exists x, nth_error tr (k - n) = Some x /\ Exc x = true).
Proof.
  unfold aph. intros Hi H. destruct (on f); [eapply P_inv_R; eassumption|]. injection H as <- <- <- <-. left. exact Hi.
Qed.
Lemma aph_win ar F f n a ok n' a' tr :
  win_hyp ar -> aph (on f) (ar F f) n a = (ok, n', a', tr) -> n <= n' /\ length tr = n' - n.
Proof.
  unfold aph. intros Hw H. destruct (on f); [eapply Hw; eassumption|]. injection H as <- <- <- <-. cbn. lia.
Qed.

Lemma aph_S_nf F f n a ok n' a' tr :
  AInv f a -> aph (on f) (arS F f) n a = (ok, n', a', tr) -> (forall i, n <= i < n' -> F i = false) ->
  ok = true /\ (on f = true -> Full f a').
Proof.
  unfold aph. intros Hi H HF. destruct (on f) eqn:On.
  - apply (EXT_S F no_faults) in H; [|intros i Hi'; rewrite (HF i Hi'); reflexivity].
    destruct (P_S_nf _ _ _ _ _ _ _ On Hi H) as [-> Hf]. split; [reflexivity | intros _; exact Hf].
  - injection H as <- <- <- <-. split; [reflexivity | discriminate].
Qed.

Lemma aph_R_nf F f n a ok n' a' tr :
  AInv f a -> aph (on f) (arR F f) n a = (ok, n', a', tr) -> (forall i, n <= i < n' -> F i = false) ->
  on f = true -> a' = clean f.
Proof.
  unfold aph. intros Hi H HF On. rewrite On in H.
  apply (EXT_R F no_faults) in H; [|intros i Hi'; rewrite (HF i Hi'); reflexivity].
  exact (P_R_nf _ _ _ _ _ _ _ On Hi H).
Qed.

Lemma asetup_inv F a6 a4 ok4 n2 b6 b4 t12 :
  AInv V6 a6 -> AInv V4 a4 -> ((a6 = clean V6 /\ a4 = clean V4) \/ forall i, F i = false) ->
  asetup F a6 a4 = (ok4, n2, b6, b4, t12) ->
  AInv V6 b6 /\ AInv V4 b4 /\ length t12 = n2.
Proof.
  intros I6 I4 Hc. unfold asetup.
  assert (Hc6 : a6 = clean V6 \/ forall i, F i = false) by (destruct Hc as [[E _]|E]; [left | right]; exact E).
  assert (Hc4 : a4 = clean V4 \/ forall i, F i = false) by (destruct Hc as [[_ E]|E]; [left | right]; exact E).
  destruct (aph (on V6) (arS F V6) 0 a6) as [[[ok6 n1] x6] t1] eqn:A1.
  pose proof (aph_inv_S _ _ _ _ _ _ _ _ I6 Hc6 A1) as J6. pose proof (aph_win _ _ _ _ _ _ _ _ _ WIN_S A1) as [W1 L1].
  destruct ok6.
  - destruct (aph (on V4) (arS F V4) n1 a4) as [[[ok n2'] x4] t2] eqn:A2.
    pose proof (aph_inv_S _ _ _ _ _ _ _ _ I4 Hc4 A2) as J4. pose proof (aph_win _ _ _ _ _ _ _ _ _ WIN_S A2) as [W2 L2].
    intros [= <- <- <- <- <-]. split; [exact J6|]. split; [exact J4|]. rewrite app_length. lia.
  - intros [= <- <- <- <- <-]. split; [exact J6|]. split; [exact I4|]. rewrite app_length. cbn. lia.
Qed.

Lemma asetup_nf F a6 a4 ok4 n2 b6 b4 t12 :
  AInv V6 a6 -> AInv V4 a4 -> asetup F a6 a4 = (ok4, n2, b6, b4, t12) ->
  (forall i, i < n2 -> F i = false) ->
  ok4 = true /\ (on V6 = true -> Full V6 b6) /\ (on V4 = true -> Full V4 b4).
Proof.
  intros I6 I4. unfold asetup.
  destruct (aph (on V6) (arS F V6) 0 a6) as [[[ok6 n1] x6] t1] eqn:A1.
  pose proof (aph_win _ _ _ _ _ _ _ _ _ WIN_S A1) as [W1 L1].
  destruct ok6 eqn:O6.
  - destruct (aph (on V4) (arS F V4) n1 a4) as [[[ok n2'] x4] t2] eqn:A2.
    pose proof (aph_win _ _ _ _ _ _ _ _ _ WIN_S A2) as [W2 L2].
    intros [= <- <- <- <- <-] HF.
    destruct (aph_S_nf _ _ _ _ _ _ _ _ I6 A1) as [_ F6]; [intros i Hi; apply HF; lia|].
    destruct (aph_S_nf _ _ _ _ _ _ _ _ I4 A2) as [-> F4]; [intros i Hi; apply HF; lia|].
    split; [reflexivity|]. split; assumption.
  - intros [= <- <- <- <- <-] HF.
    destruct (aph_S_nf _ _ _ _ _ _ _ _ I6 A1) as [X _]; [intros i Hi; apply HF; lia|]. discriminate.
Qed.

Lemma arest_inv k n2 b6 b4 n4 d6 d4 t34 :
  AInv V6 b6 -> AInv V4 b4 -> arest (fault_at k) n2 b6 b4 = (n4, d6, d4, t34) ->
  (AInv V6 d6 /\ AInv V4 d4) \/
  (n2 <= k /\ exists x, nth_error t34 (k - n2) = Some x /\ Exc x = true).
Proof.
  intros I6 I4. unfold arest.
  destruct (aph (on V6) (arR (fault_at k) V6) n2 b6) as [[[ok7 n3] x6] t3] eqn:A3.
  destruct (aph (on V4) (arR (fault_at k) V4) n3 b4) as [[[ok8 n4'] x4] t4] eqn:A4.
  pose proof (aph_win _ _ _ _ _ _ _ _ _ WIN_R A3) as [W3 L3]. pose proof (aph_win _ _ _ _ _ _ _ _ _ WIN_R A4) as [W4 L4].
  intros [= <- <- <- <-].
  destruct (aph_inv_R _ _ _ _ _ _ _ _ I6 A3) as [J6|(Hk & x & Hx & Ex)].
  - destruct (aph_inv_R _ _ _ _ _ _ _ _ I4 A4) as [J4|(Hk & x & Hx & Ex)]; [left; split; assumption|].
    right. split; [lia|]. exists x. split; [|exact Ex].
    rewrite nth_error_app2 by lia. rewrite L3. replace (k - n2 - (n3 - n2)) with (k - n3) by lia. exact Hx.
  - right. split; [exact Hk|]. exists x. split; [|exact Ex].
    rewrite nth_error_app1; [exact Hx|]. apply nth_error_Some. rewrite Hx. discriminate.
Qed.

Lemma arest_nf F n2 b6 b4 n4 d6 d4 t34 :
  AInv V6 b6 -> AInv V4 b4 -> arest F n2 b6 b4 = (n4, d6, d4, t34) ->
  (forall i, n2 <= i < n4 -> F i = false) ->
  (on V6 = true -> d6 = clean V6) /\ (on V4 = true -> d4 = clean V4).
Proof.
  intros I6 I4. unfold arest.
  destruct (aph (on V6) (arR F V6) n2 b6) as [[[ok7 n3] x6] t3] eqn:A3.
  destruct (aph (on V4) (arR F V4) n3 b4) as [[[ok8 n4'] x4] t4] eqn:A4.
  pose proof (aph_win _ _ _ _ _ _ _ _ _ WIN_R A3) as [W3 _]. pose proof (aph_win _ _ _ _ _ _ _ _ _ WIN_R A4) as [W4 _].
  intros [= <- <- <- <-] HF. split.
  - apply (aph_R_nf _ _ _ _ _ _ _ _ I6 A3). intros i Hi. apply HF. lia.
  - apply (aph_R_nf _ _ _ _ _ _ _ _ I4 A4). intros i Hi. apply HF. lia.
Qed.

Lemma arest_one k n2 b6 b4 n4 d6 d4 t34 :
  (on V6 = true -> Full V6 b6) -> (on V4 = true -> Full V4 b4) ->
  AInv V6 b6 -> AInv V4 b4 ->
  arest (fault_at k) n2 b6 b4 = (n4, d6, d4, t34) ->
  ((on V6 = true -> nd V6 d6 = true) /\ (on V4 = true -> nd V4 d4 = true)) \/
  (n2 <= k /\ exists x, nth_error t34 (k - n2) = Some x /\ excused x = true).
Proof.
  intros F6 F4 I6 I4. unfold arest.
  destruct (aph (on V6) (arR (fault_at k) V6) n2 b6) as [[[ok7 n3] x6] t3] eqn:A3.
  destruct (aph (on V4) (arR (fault_at k) V4) n3 b4) as [[[ok8 n4'] x4] t4] eqn:A4.
  pose proof (aph_win _ _ _ _ _ _ _ _ _ WIN_R A3) as [W3 L3]. pose proof (aph_win _ _ _ _ _ _ _ _ _ WIN_R A4) as [W4 L4].
  intros [= <- <- <- <-].
  assert (C6 : (on V6 = true -> nd V6 x6 = true) \/
               (n2 <= k /\ exists x, nth_error t3 (k - n2) = Some x /\ excused x = true)).
  { unfold aph in A3. destruct (on V6) eqn:On; [|left; discriminate].
    destruct (P_R_one V6 k n2 _ _ _ _ _ On (F6 eq_refl) A3) as [N|X]; [left; intros _; exact N | right; exact X]. }
  assert (C4 : (on V4 = true -> nd V4 x4 = true) \/
               (n3 <= k /\ exists x, nth_error t4 (k - n3) = Some x /\ excused x = true)).
  { unfold aph in A4. destruct (on V4) eqn:On; [|left; discriminate].
    destruct (P_R_one V4 k n3 _ _ _ _ _ On (F4 eq_refl) A4) as [N|X]; [left; intros _; exact N | right; exact X]. }
  destruct C6 as [N6|(Hk & x & Hx & Ex)].
  - destruct C4 as [N4|(Hk & x & Hx & Ex)]; [left; split; assumption|].
    right. split; [lia|]. exists x. split; [|exact Ex].
    rewrite nth_error_app2 by lia. rewrite L3. replace (k - n2 - (n3 - n2)) with (k - n3) by lia. exact Hx.
  - right. split; [exact Hk|]. exists x. split; [|exact Ex].
    rewrite nth_error_app1; [exact Hx|]. apply nth_error_Some. rewrite Hx. discriminate.
Qed.

Lemma fault_at_false k i : i <> k -> fault_at k i = false.
Proof. intro H. unfold fault_at. apply Nat.eqb_neq. exact H. Qed.

Lemma St_clean_erase s : St s (clean V6) (clean V4) -> erase c s = s.
Proof. intros [H6 H4]. apply FIN. intros [|]; assumption. Qed.

(* ---------------- every exit path ---------------- *)
Theorem all_exits s0 k cut :
  St s0 (clean V6) (clean V4) ->
  (let r := session c cut (fault_at k) s0 in
   Nat.leb (r_fin_at r) k && match nth_cmd k (r_events r) with Some x => Exc x | None => false end = false) ->
  sess_ok c s0 k cut = true.
Proof.
  intros H0 Hexc. cbv zeta in Hexc. unfold sess_ok. destruct (Nat.ltb cut (c_nlines c)) eqn:Lt.
  - apply Nat.ltb_lt in Lt. destruct (no_command_before_go c cut (fault_at k) s0 Lt) as (E1 & E2 & _).
    rewrite E1, E2, kstate_eqb_refl. reflexivity.
  - apply Nat.ltb_ge in Lt.
    pose proof (sim_session cut (fault_at k) s0 _ _ H0 Lt) as S1. cbv zeta in S1.
    destruct (asetup (fault_at k) (clean V6) (clean V4)) as [[[[ok4 n2] b6] b4] t12] eqn:AS1.
    destruct (arest (fault_at k) n2 b6 b4) as [[[n4 d6] d4] t34] eqn:AR1.
    destruct S1 as (St1 & Nc & Nf & Cm & Ms & M6 & M4 & Mh).
    destruct (asetup_inv _ _ _ _ _ _ _ _ (P_inv_clean V6) (P_inv_clean V4) (or_introl (conj eq_refl eq_refl)) AS1)
      as (I6 & I4 & L12).
    pose proof (session_foreign c cut (fault_at k) s0 Hnpf Hwfc) as [_ Er].
    rewrite Nc, Nf.
    destruct (Nat.ltb k n2 || Nat.leb n4 k) eqn:B.
    + (* the fault (if any) is not inside the finally block *)
      apply kstate_eqb_eq.
      destruct (arest_nf _ _ _ _ _ _ _ _ I6 I4 AR1) as [C6 C4].
      { intros i Hi. apply fault_at_false. apply orb_true_iff in B as [B|B];
          [apply Nat.ltb_lt in B | apply Nat.leb_le in B]; lia. }
      rewrite <- Er. symmetry. apply St_clean_erase. destruct St1 as [R6 R4].
      split; intro On; [rewrite <- (C6 On); exact (R6 On) | rewrite <- (C4 On); exact (R4 On)].
    + (* one tear-down command fails *)
      apply orb_false_iff in B as [B1 B2]. apply Nat.ltb_ge in B1. apply Nat.leb_gt in B2.
      destruct (asetup_nf _ _ _ _ _ _ _ _ (P_inv_clean V6) (P_inv_clean V4) AS1) as (Ok & F6 & F4).
      { intros i Hi. apply fault_at_false. lia. }
      rewrite Ok in *. rewrite M6, M4, Ms. rewrite !orb_negb_l. cbn [andb negb orb].
      (* the invariant survives the faulted tear-down unless the failing command is in the excluded class *)
      assert (JJ : AInv V6 d6 /\ AInv V4 d4).
      { destruct (arest_inv _ _ _ _ _ _ _ _ I6 I4 AR1) as [JJ|(Hk & x & Hx & Ex)]; [exact JJ|].
        exfalso. rewrite Nf in Hexc. apply Nat.leb_le in B1. rewrite B1 in Hexc. cbn [andb] in Hexc.
        rewrite nth_cmd_cmds_of, Cm in Hexc. apply Nat.leb_le in B1.
        rewrite nth_error_app2 in Hexc by lia. rewrite L12, Hx, Ex in Hexc. discriminate. }
      destruct JJ as [J6 J4].
      (* (i) hosts *)
      assert (Eh : Nat.leb cut (c_nlines c) ||
                   match c_tail c with true :: _ => has_mark MHosts (r_events (session c cut (fault_at k) s0)) | _ => true end = true).
      { destruct (Nat.leb cut (c_nlines c)) eqn:Le; [reflexivity|]. apply Nat.leb_gt in Le. cbn [orb].
        destruct (c_tail c) as [|[|] l] eqn:Tl; try reflexivity.
        apply (Mh eq_refl Le). exists l. reflexivity. }
      rewrite Eh. cbn [andb].
      (* (ii) nothing diverted unless the failing command is excused *)
      assert (E2 : match nth_cmd k (r_events (session c cut (fault_at k) s0)) with Some x => excused x | None => false end
                   || no_divert c (r_final (session c cut (fault_at k) s0)) = true).
      { rewrite nth_cmd_cmds_of, Cm.
        destruct (arest_one _ _ _ _ _ _ _ _ F6 F4 I6 I4 AR1) as [[N6 N4]|(Hk & x & Hx & Ex)].
        - rewrite (ND _ (fun f => match f with V6 => d6 | V4 => d4 end)); [apply orb_true_r|].
          destruct St1 as [R6 R4]. intros [|] On; split; auto.
        - rewrite nth_error_app2 by lia. rewrite L12, Hx, Ex. reflexivity. }
      rewrite E2. cbn [andb].
      (* (iii) a later fault-free session *)
      assert (Lf : c_nlines c <= full_cut c) by (unfold full_cut; lia).
      pose proof (sim_session (full_cut c) no_faults _ _ _ St1 Lf) as S2. cbv zeta in S2.
      destruct (asetup no_faults d6 d4) as [[[[ok4' n2'] b6'] b4'] t12'] eqn:AS2.
      destruct (arest no_faults n2' b6' b4') as [[[n4' e6] e4] t34'] eqn:AR2.
      destruct S2 as (St2 & _ & _ & _ & Ms2 & _).
      destruct (asetup_inv _ _ _ _ _ _ _ _ J6 J4 (or_intror (fun _ => eq_refl)) AS2) as (K6 & K4 & _).
      destruct (asetup_nf _ _ _ _ _ _ _ _ J6 J4 AS2) as (Ok2 & _ & _); [intros; reflexivity|].
      destruct (arest_nf _ _ _ _ _ _ _ _ K6 K4 AR2) as [C6 C4]; [intros; reflexivity|].
      rewrite Ms2, Ok2. cbn [andb]. apply kstate_eqb_eq.
      pose proof (session_foreign c (full_cut c) no_faults (r_final (session c cut (fault_at k) s0)) Hnpf Hwfc) as [_ Er2].
      rewrite <- Er, <- Er2. symmetry. apply St_clean_erase. destruct St2 as [R6 R4].
      split; intro On; [rewrite <- (C6 On); exact (R6 On) | rewrite <- (C4 On); exact (R4 On)].
Qed.
End Session.
