(* Proofs/Stream_props.v — the property-level consequences of the stream-core
   invariants, in the form the Props/C0x.v files quote. *)
From Coq Require Import List NArith Ascii Bool Lia.
From SV Require Import Lib.Bytes Model.Wire Model.Chan Model.Stream
  Proofs.Wire_lemmas Proofs.Stream_basic Proofs.Stream_wrap Proofs.Stream_cb
  Proofs.Stream_reg Proofs.Stream_fw Proofs.Stream_view Proofs.Stream_flow.
Import ListNotations.
Local Open Scope N_scope.

(* what each end's sockets have seen, per flow incarnation *)
Definition app_read (w : world) (f : N) : bytes := s_rd (pS (cl w f)).   (* read from the application      *)
Definition app_written (w : world) (f : N) : bytes := s_wr (pS (cl w f)). (* handed back to the application *)
Definition dst_read (w : world) (f : N) : bytes := s_rd (pS (sv w f)).   (* read from the destination      *)
Definition dst_written (w : world) (f : N) : bytes := s_wr (pS (sv w f)). (* handed to the destination      *)

Definition reachable (maxc lbs : N) (w : world) : Prop := exists evs, run (world0 maxc lbs) evs = Ok w.

Lemma reachable_Ginv maxc lbs w : reachable maxc lbs w -> w_stale w = false -> Ginv w.
Proof. intros (evs & H) Hs. exact (run_Ginv evs _ _ (Ginv_world0 maxc lbs) H Hs). Qed.

Lemma prefix_both maxc lbs w f : reachable maxc lbs w -> w_stale w = false ->
  prefix (dst_written w f) (app_read w f) /\ prefix (app_written w f) (dst_read w f).
Proof.
  intros Hr Hs. pose proof (reachable_Ginv _ _ _ Hr Hs) as G. split.
  - exact (vi_prefix _ (g_views w G Client f)).
  - exact (vi_prefix _ (g_views w G Server f)).
Qed.

(* nothing is lost on the way while the receiving socket can still be written *)
Lemma no_loss maxc lbs w rs f : reachable maxc lbs w -> w_stale w = false ->
  let v := view_of w rs f in
  vfz v = false -> vD v ++ flat (vY v) ++ data_cat (vP v) ++ flat (vX v) = vA v.
Proof. intros Hr Hs v. exact (vi_pipe _ (g_views w (reachable_Ginv _ _ _ Hr Hs) rs f)). Qed.

(* end-of-stream after all data *)
Lemma eof_after_data maxc lbs w rs f : reachable maxc lbs w -> w_stale w = false ->
  let v := view_of w rs f in
  vfz v = true -> vwfault v = true \/ (vD v = vA v /\ vrsr v = true).
Proof. intros Hr Hs v. exact (vi_clean _ (g_views w (reachable_Ginv _ _ _ Hr Hs) rs f)). Qed.

(* on the wire: no stream payload of a flow follows its EOF *)
Lemma eof_last_on_wire maxc lbs w rs f : reachable maxc lbs w -> w_stale w = false ->
  let v := view_of w rs f in vfz v = false -> dae false (vP v) = [].
Proof. intros Hr Hs v. exact (vi_dae _ (g_views w (reachable_Ginv _ _ _ Hr Hs) rs f)). Qed.

(* ---------------- no echo ---------------- *)
Lemma no_echo sd e fr o e' st : (sf_cmd fr = CEof \/ sf_cmd fr = CStop) ->
  mux_got_packet sd e fr o = Ok (e', st) -> x_out (e_mux e') = x_out (e_mux e).
Proof.
  intros Hc. unfold mux_got_packet. destruct Hc as [Hc|Hc]; rewrite Hc.
  - destruct (x_chan (e_mux e) (sf_ch fr)) as [g|]; [|intros H; apply ok_pair_inj in H; destruct H as [<- _]; reflexivity].
    destruct (e_prox e g) as [p|]; [|discriminate]. cbn [m_got_packet].
    destruct (setnoread_ext (p_m p) (e_mux e) g) as (X1 & _).
    destruct (m_setnoread (p_m p) (e_mux e)) as [m' x']. cbn [fst snd] in *.
    intros H. apply ok_pair_inj in H. destruct H as [<- _]. cbn. rewrite (me_out _ _ _ _ _ X1). apply app_nil_r.
  - destruct (x_chan (e_mux e) (sf_ch fr)) as [g|]; [|intros H; apply ok_pair_inj in H; destruct H as [<- _]; reflexivity].
    destruct (e_prox e g) as [p|]; [|discriminate]. cbn [m_got_packet].
    destruct (setnowrite_ext (p_m p) (e_mux e) g) as (X1 & _).
    destruct (m_setnowrite (p_m p) (e_mux e)) as [m' x']. cbn [fst snd] in *.
    intros H. apply ok_pair_inj in H. destruct H as [<- _]. cbn. rewrite (me_out _ _ _ _ _ X1). apply app_nil_r.
Qed.

(* ---------------- crash analysis ---------------- *)
Definition handled_conn (o : conn_out) : bool :=
  match o with ConnErr EPipe | ConnErr EOtherErr => false | _ => true end.

Lemma try_connect_crash s o ok c : s_try_connect s o ok = Crash c -> c = CrReraise /\ handled_conn o = false.
Proof.
  unfold s_try_connect.
  destruct (negb (s_conn (if s_conn s && s_sw s then s_set_conn (s_noread s) false else s))); [discriminate|].
  destruct o as [|[]]; try discriminate; intros [= <-]; auto.
Qed.

Lemma callback_crash sd g p x o c : proxy_callback sd g p x o = Crash c ->
  c = CrReraise /\ handled_conn (io_conn o) = false.
Proof.
  rewrite proxy_callback_unfold.
  destruct (s_try_connect (p_s p) (io_conn o) (io_shut_ok o)) as [s0|c0] eqn:E.
  - cbv zeta. destruct (copies sd _ (p_m p) x g o) as [[s2 m2] x2].
    destruct (if nonempty_buf (m_buf m2) && s_sw s2 then _ else _) as [m3 x3].
    destruct (_ && _ && _ && _); [destruct (m_nowrite m3 x3 g)|]; discriminate.
  - intros [= <-]. eapply try_connect_crash. exact E.
Qed.

(* With the registration and frame invariants a delivered frame can only make
   the loop raise through the CONNECT assertion or an unhandled connect errno. *)
Lemma deliver_crash w sd o c : Winv w -> FWinv w -> step w (EvDeliver sd o) = Crash c ->
  c = CrAssertConnect \/ (c = CrReraise /\ handled_conn (io_conn o) = false).
Proof.
  intros W F. cbn [step].
  destruct (match sd with Client => w_sc w | Server => w_cs w end) as [|fr rest] eqn:El; [discriminate|].
  destruct (mux_got_packet sd (get_end w sd) fr o) as [[e' st]|c0] eqn:Eg; [destruct sd; discriminate|].
  intros [= <-]. unfold mux_got_packet in Eg.
  pose proof (Winv_get w sd W) as R.
  assert (Hok : match sd with Client => ok_sc fr | Server => ok_cs fr end).
  { destruct F as [Fcs Fsc _ _]. destruct sd.
    - unfold path_sc in Fsc. rewrite El in Fsc. inversion Fsc; assumption.
    - unfold path_cs in Fcs. rewrite El in Fcs. inversion Fcs; assumption. }
  destruct (sf_cmd fr) eqn:Ecmd; try discriminate.
  - destruct (occ (e_mux (get_end w sd)) (sf_ch fr)); [inversion Eg; auto|].
    destruct sd; [discriminate|].
    unfold server_new_channel in Eg.
    destruct (s_try_connect (new_sock true) (io_conn o) (io_shut_ok o)) as [s|c1] eqn:Et; [discriminate|].
    inversion Eg; subst c0. right. eapply try_connect_crash. exact Et.
  - destruct (x_chan (e_mux (get_end w sd)) (sf_ch fr)) as [g|] eqn:Ex; [|discriminate].
    destruct (r_reg _ R _ _ Ex) as (p & Hp & _). rewrite Hp in Eg. cbn [m_got_packet] in Eg.
    destruct (m_setnowrite (p_m p) (e_mux (get_end w sd))); discriminate.
  - destruct (x_chan (e_mux (get_end w sd)) (sf_ch fr)) as [g|] eqn:Ex; [|discriminate].
    destruct (r_reg _ R _ _ Ex) as (p & Hp & _). rewrite Hp in Eg. cbn [m_got_packet] in Eg.
    destruct (m_setnoread (p_m p) (e_mux (get_end w sd))); discriminate.
  - destruct (x_chan (e_mux (get_end w sd)) (sf_ch fr)) as [g|] eqn:Ex; [|discriminate].
    destruct (r_reg _ R _ _ Ex) as (p & Hp & _). rewrite Hp in Eg. cbn [m_got_packet] in Eg. discriminate.
  - exfalso. destruct sd; [unfold ok_sc in Hok|unfold ok_cs in Hok]; rewrite Ecmd in Hok; exact Hok.
Qed.

(* a fault in flow g leaves every other flow's view (both directions) untouched *)
Lemma callback_contained w sd g o w' : step w (EvCallback sd g o) = Ok w' ->
  forall rs f, f <> g -> view_of w' rs f = view_of w rs f /\
               e_prox (get_end w' rs) f = e_prox (get_end w rs) f.
Proof.
  cbn [step]. destruct (e_prox (get_end w sd) g) as [p|] eqn:Ep; [|discriminate].
  destruct (live p); [|discriminate].
  destruct (proxy_callback sd g p (e_mux (get_end w sd)) o) as [[p' x']|cr] eqn:Ecb; [|discriminate].
  intros [= <-] rs f Hfg. pose proof (callback_spec _ _ _ _ _ _ _ Ecb) as F. destr_cb F.
  pose proof (me_out _ _ _ _ _ Fext) as Hout. pose proof (me_frames _ _ _ _ _ Fext) as Hnew.
  fold (w_act w sd g p' x'). split.
  - exact (act_view_other w sd g p p' x' cbnew Ep Hout Hnew rs f Hfg).
  - destruct (side_eq_dec rs sd) as [->|Hne].
    + rewrite act_prox_same. destruct (N.eqb_spec f g); [contradiction|reflexivity].
    + assert (rs = other sd) by (destruct rs, sd; try reflexivity; contradiction). subst rs.
      apply (act_prox_other w sd g p p' x' cbnew Ep Hout).
Qed.
