(* Proofs/Startup_lemmas.v — proofs about Model/Startup.v (C15). *)
From Coq Require Import List NArith Ascii Bool Lia ZifyBool String.
From SV Require Import Lib.Bytes Model.Startup.
Import ListNotations.
Local Open Scope N_scope.

(* ---------- small facts ---------- *)
Lemma memN_false x l : memN x l = false -> ~ In x l.
Proof.
  unfold memN. intros H Hin.
  assert (existsb (N.eqb x) l = true) as E.
  { apply existsb_exists. exists x. split; [exact Hin|apply N.eqb_refl]. }
  congruence.
Qed.

Lemma search_ports_range p : In p search_ports -> 9001 <= p <= 12300.
Proof.
  assert (H : forallb (fun p => (9001 <=? p) && (p <=? 12300)) search_ports = true)
    by (vm_compute; reflexivity).
  rewrite forallb_forall in H. intros Hin. apply H in Hin. lia.
Qed.

Lemma pick_some l port a r : pick l port = (Some a, r) ->
  exists ip p0, l = Some (ip, p0) /\ a = (ip, r) /\ r = (if p0 =? 0 then port else p0).
Proof.
  unfold pick. destruct l as [[ip p0]|]; [|discriminate].
  destruct (p0 =? 0) eqn:E; intros [= <- <-]; exists ip, p0; rewrite E; repeat split.
Qed.
Lemma pick_none l port r : pick l port = (None, r) -> l = None /\ r = 0.
Proof.
  unfold pick. destruct l as [[ip p0]|]; [destruct (p0 =? 0); discriminate|].
  intros [= <-]. split; reflexivity.
Qed.
Lemma at_port_some l port a d : at_port l port = (Some a, d) ->
  exists ip p0, l = Some (ip, p0) /\ a = (ip, port) /\ d = port.
Proof.
  unfold at_port. destruct l as [[ip p0]|]; [|discriminate].
  intros [= <- <-]. exists ip, p0. repeat split.
Qed.
Lemma at_port_none l port d : at_port l port = (None, d) -> l = None /\ d = 0.
Proof.
  unfold at_port. destruct l as [[ip p0]|]; [discriminate|]. intros [= <-]. split; reflexivity.
Qed.
Lemma mbind_true e pr a6 a4 : mbind e pr a6 a4 = true ->
  bind_one e pr V6 a6 = true /\ bind_one e pr V4 a4 = true.
Proof. unfold mbind. destruct (bind_one e pr V6 a6); [intros ->; split; reflexivity|discriminate]. Qed.
Lemma bind_one_some e pr f ip port : bind_one e pr f (Some (ip, port)) = true -> e pr f ip port = false.
Proof. unfold bind_one. destruct (e pr f ip port); [discriminate|reflexivity]. Qed.

Lemma nonempty_in {A} (x : A) l : In x l -> nonempty l = true.
Proof. destruct l; [intros []|reflexivity]. Qed.
Lemma nonempty_false {A} (l : list A) : nonempty l = false -> l = [].
Proof. destruct l; [reflexivity|discriminate]. Qed.
Lemma fam_eqb_eq a b : fam_eqb a b = true <-> a = b.
Proof. destruct a, b; cbn; split; congruence. Qed.
Lemma in_filter_fam f s l : In s (filter (is_fam f) l) <-> In s l /\ sn_fam s = f.
Proof. rewrite filter_In. unfold is_fam. rewrite fam_eqb_eq. reflexivity. Qed.
Lemma in_filter_ns f (n : ns) l : In n (filter (ns_is_fam f) l) <-> In n l /\ fst n = f.
Proof. rewrite filter_In. unfold ns_is_fam. rewrite fam_eqb_eq. reflexivity. Qed.
Lemma existsb_false_iff {A} (g : A -> bool) l : existsb g l = false <-> forall x, In x l -> g x = false.
Proof.
  split.
  - intros H x Hin. destruct (g x) eqn:E; [|reflexivity].
    assert (existsb g l = true) by (apply existsb_exists; exists x; split; assumption). congruence.
  - intros H. destruct (existsb g l) eqn:E; [|reflexivity].
    apply existsb_exists in E. destruct E as (x & Hin & Hg). rewrite (H x Hin) in Hg. discriminate.
Qed.
Lemma ip_listed_true ip l : ip_listed ip l = true -> exists s, In s l /\ sn_ip s = ip.
Proof.
  unfold ip_listed. intros H. apply existsb_exists in H. destruct H as (s & Hin & E).
  apply bytes_eqb_eq in E. exists s. split; [exact Hin|symmetry; exact E].
Qed.

(* ---------- the two port searches ---------- *)
(* a bind that went through was neither busy nor refused *)
Lemma refused_at_none rf pr f ip port : refused_at rf pr f (Some (ip, port)) = None -> rf pr f ip port = None.
Proof. unfold refused_at. destruct (rf pr f ip port); [discriminate|reflexivity]. Qed.

Definition mbind_ok (e : env) (rf : renv) (pr : proto) (a6 a4 : option addr) : Prop :=
  mbind e pr a6 a4 = true /\ refused_at rf pr V6 a6 = None /\ refused_at rf pr V4 a4 = None.

Lemma mrefused_none e rf pr a6 a4 : mrefused e rf pr a6 a4 = None -> mbind e pr a6 a4 = true ->
  mbind_ok e rf pr a6 a4.
Proof.
  unfold mrefused, mbind_ok. intros R B. split; [exact B|].
  destruct (refused_at rf pr V6 a6); [discriminate|]. split; [reflexivity|].
  unfold mbind in B. destruct (bind_one e pr V6 a6); [exact R|discriminate].
Qed.

Lemma tcp_search_bound fx e rf udp l6 l4 ports : forall u le rp6 rp4 tv6 tv4 used le',
  tcp_search fx e rf udp l6 l4 ports (Some u) le = TBound rp6 rp4 tv6 tv4 used le' ->
  exists port, In port ports /\ pick l6 port = (tv6, rp6) /\ pick l4 port = (tv4, rp4) /\
    mbind_ok e rf TCP tv6 tv4 /\ (udp = true -> mbind_ok e rf UDP tv6 tv4) /\
    (fx_F2 fx = true -> In rp6 used /\ In rp4 used).
Proof.
  induction ports as [|a ports IH]; intros u le rp6 rp4 tv6 tv4 used le' H; cbn [tcp_search] in H.
  - discriminate H.
  - destruct (pick l6 a) as [x6 r6] eqn:P6. destruct (pick l4 a) as [x4 r4] eqn:P4.
    destruct (mrefused e rf TCP x6 x4) as [[f0 n0]|] eqn:R1; [discriminate H|].
    destruct (udp && mbind e TCP x6 x4) eqn:U.
    + destruct (mrefused e rf UDP x6 x4) as [[f0 n0]|] eqn:R2; [discriminate H|].
      apply andb_true_iff in U. destruct U as [-> B1]. rewrite B1 in H. cbn [andb] in H.
      destruct (mbind e UDP x6 x4) eqn:B2.
      * injection H as <- <- <- <- <- <-. exists a.
        split; [left; reflexivity|]. split; [exact P6|]. split; [exact P4|].
        split; [apply mrefused_none; assumption|]. split; [intros _; apply mrefused_none; assumption|].
        intros F2. rewrite F2. split; apply in_or_app; right; cbn; tauto.
      * apply IH in H. destruct H as (port & Hin & H).
        exists port. split; [right; exact Hin|exact H].
    + destruct (mbind e TCP x6 x4 && (if udp then mbind e UDP x6 x4 else true)) eqn:B.
      * injection H as <- <- <- <- <- <-. exists a.
        apply andb_true_iff in B. destruct B as [B1 B2].
        rewrite B1, andb_true_r in U. subst udp.
        split; [left; reflexivity|]. split; [exact P6|]. split; [exact P4|].
        split; [apply mrefused_none; assumption|]. split; [discriminate|].
        intros F2. rewrite F2. split; apply in_or_app; right; cbn; tauto.
      * apply IH in H. destruct H as (port & Hin & H).
        exists port. split; [right; exact Hin|exact H].
Qed.

Lemma refused_result_fatal fx dns f n : fx_F131 fx = true -> exists m, refused_result fx dns f n = Fatal m.
Proof.
  intros F. unfold refused_result. rewrite F.
  destruct (fam_eqb f V6 && (n =? EADDRNOTAVAIL)); eauto.
Qed.

Lemma tcp_search_fail fx e rf udp l6 l4 ports : forall u le r,
  fx_F21 fx = true -> fx_F131 fx = true ->
  tcp_search fx e rf udp l6 l4 ports (Some u) le = TFail r -> exists m, r = Fatal m.
Proof.
  induction ports as [|a ports IH]; intros u le r F F' H; cbn [tcp_search] in H.
  - rewrite F in H. injection H as <-. eauto.
  - destruct (pick l6 a) as [x6 r6]. destruct (pick l4 a) as [x4 r4].
    destruct (match mrefused e rf TCP x6 x4 with Some x => Some x | None => _ end) as [[f0 n0]|].
    + injection H as <-. apply refused_result_fatal. exact F'.
    + destruct (mbind e TCP x6 x4 && (if udp then mbind e UDP x6 x4 else true)).
      * discriminate H.
      * eapply IH; eassumption.
Qed.

(* without refusals the search ends only because every port was busy *)
Lemma tcp_search_fail_busy fx e udp l6 l4 ports : forall u le r,
  fx_F21 fx = true ->
  tcp_search fx e no_refusal udp l6 l4 ports (Some u) le = TFail r -> r = Fatal FPortsBusy.
Proof.
  induction ports as [|a ports IH]; intros u le r F H; cbn [tcp_search] in H.
  - rewrite F in H. injection H as <-. reflexivity.
  - destruct (pick l6 a) as [x6 r6]. destruct (pick l4 a) as [x4 r4].
    replace (mrefused e no_refusal TCP x6 x4) with (@None (fam * N)) in H
      by (unfold mrefused, refused_at, no_refusal; destruct x6 as [[? ?]|], x4 as [[? ?]|]; try reflexivity;
          destruct (bind_one _ _ _ _); reflexivity).
    replace (mrefused e no_refusal UDP x6 x4) with (@None (fam * N)) in H
      by (unfold mrefused, refused_at, no_refusal; destruct x6 as [[? ?]|], x4 as [[? ?]|]; try reflexivity;
          destruct (bind_one _ _ _ _); reflexivity).
    replace (if udp && mbind e TCP x6 x4 then @None (fam * N) else None) with (@None (fam * N)) in H
      by (destruct (udp && mbind e TCP x6 x4); reflexivity).
    destruct (mbind e TCP x6 x4 && (if udp then mbind e UDP x6 x4 else true)).
    + discriminate H.
    + eapply IH; eassumption.
Qed.

Lemma dns_search_bound fx e rf l6 l4 ports : forall used cur le dp6 dp4 dv6 dv4,
  dns_search fx e rf l6 l4 ports used cur le = DBound dp6 dp4 dv6 dv4 ->
  exists port, In port ports /\ ~ In port used /\ at_port l6 port = (dv6, dp6) /\
    at_port l4 port = (dv4, dp4) /\ mbind_ok e rf UDP dv6 dv4.
Proof.
  induction ports as [|a ports IH]; intros used cur le dp6 dp4 dv6 dv4 H; cbn [dns_search] in H.
  - discriminate H.
  - destruct (memN a used) eqn:M.
    + apply IH in H. destruct H as (port & Hin & H). exists port. split; [right; exact Hin|exact H].
    + destruct (at_port l6 a) as [x6 d6] eqn:A6. destruct (at_port l4 a) as [x4 d4] eqn:A4.
      destruct (mrefused e rf UDP x6 x4) as [[f0 n0]|] eqn:R; [discriminate H|].
      destruct (mbind e UDP x6 x4) eqn:B.
      * injection H as <- <- <- <-. exists a.
        split; [left; reflexivity|]. split; [apply memN_false; exact M|].
        split; [exact A6|]. split; [exact A4|apply mrefused_none; assumption].
      * apply IH in H. destruct H as (port & Hin & Hn & H). exists port.
        split; [right; exact Hin|]. split; [|exact H].
        intros Hu. apply Hn. apply in_or_app. left. exact Hu.
Qed.

Lemma dns_search_fail fx e rf l6 l4 ports : forall used cur le r,
  fx_F21 fx = true -> fx_F131 fx = true ->
  dns_search fx e rf l6 l4 ports used cur le = DFail r -> exists m, r = Fatal m.
Proof.
  induction ports as [|a ports IH]; intros used cur le r F F' H; cbn [dns_search] in H.
  - rewrite F in H. injection H as <-. eauto.
  - destruct (memN a used).
    + eapply IH; eassumption.
    + destruct (at_port l6 a) as [x6 d6]. destruct (at_port l4 a) as [x4 d4].
      destruct (mrefused e rf UDP x6 x4) as [[f0 n0]|].
      * injection H as <-. apply refused_result_fatal. exact F'.
      * destruct (mbind e UDP x6 x4).
        -- discriminate H.
        -- eapply IH; eassumption.
Qed.

(* every listener address is the family's listen address *)
Lemma listeners_ip l port dport tv rp dv dp (udp : bool) ip pt :
  pick l port = (tv, rp) -> (dv = None \/ at_port l dport = (dv, dp)) ->
  In (Some (ip, pt)) [tv; if udp then tv else None; dv] -> exists p0, l = Some (ip, p0).
Proof.
  intros P D Hin.
  assert (tv = Some (ip, pt) -> exists p0, l = Some (ip, p0)) as HT.
  { intros ->. apply pick_some in P. destruct P as (ip' & p0 & -> & [= -> ->] & _). exists p0. reflexivity. }
  destruct Hin as [E|[E|[E|[]]]].
  - exact (HT E).
  - destruct udp; [exact (HT E)|discriminate E].
  - destruct D as [->|D]; [discriminate E|]. subst dv.
    apply at_port_some in D. destruct D as (ip' & p0 & -> & [= -> ->] & _). exists p0. reflexivity.
Qed.

(* ---------- the resolved listen addresses (client.py:884-901) ---------- *)
Definition l4_of (c : cfg) : option addr :=
  match c_listen4 c with
  | LAuto => Some (if f_loopback (c_feat c) then LOOP4 else ANY4, 0)
  | LAddr ip p => Some (ip, p)
  | LNone => None
  end.
Definition l6_of (c : cfg) : option addr :=
  match c_listen6 c with
  | LNone => None
  | LAuto => if f_ipv6 (c_feat c) then Some (if f_loopback (c_feat c) then LOOP6 else ANY6, 0) else None
  | LAddr ip p => Some (ip, p)
  end.

Lemma l4_of_facts c ip p0 : cfg_ok c -> l4_of c = Some (ip, p0) ->
  p0 <= 65535 /\ (c_listen4 c = LAuto -> f_loopback (c_feat c) = true -> ip = LOOP4).
Proof.
  intros [_ Hports] E. unfold l4_of in E. destruct (c_listen4 c) as [| |ip' p'] eqn:EL.
  - discriminate E.
  - injection E as <- <-. split; [lia|]. intros _ ->. reflexivity.
  - injection E as <- <-. split; [exact (Hports V4 _ _ EL)|discriminate].
Qed.
Lemma l6_of_facts c ip p0 : cfg_ok c -> l6_of c = Some (ip, p0) ->
  p0 <= 65535 /\ (c_listen6 c = LAuto -> f_loopback (c_feat c) = true -> ip = LOOP6).
Proof.
  intros [_ Hports] E. unfold l6_of in E. destruct (c_listen6 c) as [| |ip' p'] eqn:EL.
  - discriminate E.
  - destruct (f_ipv6 (c_feat c)); [|discriminate E].
    injection E as <- <-. split; [lia|]. intros _ ->. reflexivity.
  - injection E as <- <-. split; [exact (Hports V6 _ _ EL)|discriminate].
Qed.
Lemma l6_active c : isSome (l6_of c) && negb (f_ipv6 (c_feat c)) = false ->
  isSome (l6_of c) = ipv6_active c.
Proof.
  unfold ipv6_active, l6_of.
  destruct (c_listen6 c); destruct (f_ipv6 (c_feat c)); cbn [isSome andb negb]; congruence.
Qed.

Lemma pick_reported l port tv rp ip p0 :
  l = Some (ip, p0) -> pick l port = (tv, rp) -> p0 <= 65535 ->
  (p0 = 0 -> 9001 <= port <= 12300) ->
  tv = Some (ip, rp) /\ rp <> 0 /\ rp <= 65535.
Proof.
  intros -> P B Hp. unfold pick in P.
  destruct (p0 =? 0) eqn:Z; injection P as <- <-.
  - assert (p0 = 0) as Z0 by lia. specialize (Hp Z0). repeat split; lia.
  - repeat split; lia.
Qed.

Lemma dns_reported l dv dp used :
  (dv = None /\ dp = 0) \/
  (exists dport, In dport search_ports /\ ~ In dport used /\ at_port l dport = (dv, dp)) ->
  match dv with
  | Some (ip, pt) => exists p0, l = Some (ip, p0) /\ pt = dp /\ dp <> 0 /\ dp <= 65535 /\ ~ In dp used
  | None => dp = 0
  end.
Proof.
  intros [[-> ->]|(dport & I & NI & AP)]; [reflexivity|].
  destruct dv as [[ip pt]|].
  - apply at_port_some in AP. destruct AP as (ip' & p0 & -> & [= -> ->] & ->).
    exists p0. pose proof (search_ports_range _ I). repeat split; try assumption; lia.
  - apply at_port_none in AP. tauto.
Qed.

Lemma no_v6_filter4 l : existsb (is_fam V6) (filter (is_fam V4) l) = false.
Proof.
  apply existsb_false_iff. intros x Hx. apply in_filter_fam in Hx. destruct Hx as [_ E].
  unfold is_fam. rewrite E. reflexivity.
Qed.
Lemma no_v6_empty6 l : nonempty (filter (is_fam V6) l) = false -> existsb (is_fam V6) l = false.
Proof.
  intros H. apply nonempty_false in H. apply existsb_false_iff. intros x Hx.
  destruct (is_fam V6 x) eqn:E; [|reflexivity].
  assert (In x (filter (is_fam V6) l)) as Hin by (apply filter_In; split; assumption).
  rewrite H in Hin. destruct Hin.
Qed.
Lemma ns_no_v6_filter4 l : existsb (ns_is_fam V6) (filter (ns_is_fam V4) l) = false.
Proof.
  apply existsb_false_iff. intros x Hx. apply in_filter_ns in Hx. destruct Hx as [_ E].
  unfold ns_is_fam. rewrite E. reflexivity.
Qed.
Lemma ns_no_v6_empty6 l : nonempty (filter (ns_is_fam V6) l) = false -> existsb (ns_is_fam V6) l = false.
Proof.
  intros H. apply nonempty_false in H. apply existsb_false_iff. intros x Hx.
  destruct (ns_is_fam V6 x) eqn:E; [|reflexivity].
  assert (In x (filter (ns_is_fam V6) l)) as Hin by (apply filter_In; split; assumption).
  rewrite H in Hin. destruct Hin.
Qed.

Global Opaque search_ports.

(* ---------- c15_no_internal_error ---------- *)
Definition ok_result (r : result) : Prop :=
  match r with Crash _ => False | OsError _ => False | _ => True end.

Lemma sanity1_false {A} (b : bool) (l : list A) :
  nonempty (if negb b && nonempty l then [] else l) && negb b = false.
Proof. destruct b, l; reflexivity. Qed.
Lemma sanity3_false {A} (g : A -> bool) (b : bool) (l : list A) :
  nonempty (if nonempty l && negb b && nonempty (filter g l) then [] else filter g l)
  && negb (nonempty l && b) = false.
Proof.
  destruct l as [|x l']; [reflexivity|]. destruct b; cbn [nonempty andb negb].
  - apply andb_false_r.
  - destruct (nonempty (filter g (x :: l'))) eqn:Z; [reflexivity|rewrite Z; reflexivity].
Qed.

Lemma startup_full_no_crash c e rf : f_ipv4 (c_feat c) = true -> ok_result (startup_full c e rf).
Proof.
  intros Hv4. unfold startup_full, startup_gen. cbv zeta.
  rewrite Hv4. cbn [negb all_fixed fx_F1 fx_F2 fx_F14 fx_F15 fx_F21].
  destruct (c_remote c); [|exact I]. cbn [negb].
  set (nslist0 := c_ns_hosts c ++ _).
  set (l6 := match c_listen6 c with LNone => None | _ => _ end).
  set (l4 := match c_listen4 c with LNone => None | _ => _ end).
  set (both := match l6 with Some (_, p6) => _ | None => false end).
  replace (if both then Some [] else Some (@nil N)) with (Some (@nil N)) by (destruct both; reflexivity).
  rewrite sanity1_false. rewrite sanity3_false.
  destruct (isSome l6 && negb (f_ipv6 (c_feat c))); [exact I|].
  destruct (c_user c); try exact I; destruct (c_group c); try exact I;
  (match goal with |- ok_result (if ?b then _ else _) => destruct b; [exact I|] end);
  (destruct (assert_features _ _ _ _ _ _ _ _); [exact I|]);
  (destruct l4 as [[ip4 p4]|]);
  (match goal with |- ok_result (match ?t with TBound _ _ _ _ _ _ => _ | TFail r => r end) =>
     destruct t as [rp6 rp4 tv6 tv4 used last_e|r] eqn:T;
       [|apply tcp_search_fail in T; [destruct T as [m0 ->]; exact I|reflexivity|reflexivity]] end);
  (match goal with |- ok_result (match ?t with DBound _ _ _ _ => _ | DFail r => r end) =>
     destruct t as [dp6 dp4 dv6 dv4|r] eqn:D;
       [|destruct (nonempty nslist0); [apply dns_search_fail in D; [destruct D as [m0 ->]; exact I|reflexivity|reflexivity]|discriminate D]] end);
  repeat (match goal with |- ok_result (if ?b then _ else _) => destruct b; [exact I|] end);
  exact I.
Qed.

Lemma startup_no_crash c e : f_ipv4 (c_feat c) = true -> ok_result (startup c e).
Proof. apply startup_full_no_crash. Qed.

(* ---------- c15_consistent ---------- *)
Lemma mbind_ok_fails e rf pr a6 a4 : mbind_ok e rf pr a6 a4 -> mbind (bind_fails e rf) pr a6 a4 = true.
Proof.
  intros (B & R6 & R4). apply mbind_true in B. destruct B as [B6 B4].
  unfold mbind, bind_one, bind_fails in *.
  destruct a6 as [[ip6 p6]|]; destruct a4 as [[ip4 p4]|]; cbn in *;
    repeat match goal with
           | H : match ?x with Some _ => _ | None => _ end = None |- _ => destruct x eqn:?; [discriminate H|]
           end; try rewrite B6; try rewrite B4; reflexivity.
Qed.

Lemma startup_full_consistent c e rf p :
  cfg_ok c -> startup_full c e rf = Plan p -> consistent c (bind_fails e rf) p.
Proof.
  intros Hok H. pose proof Hok as [Hv4 Hports]. unfold startup_full, startup_gen in H. cbv zeta in H.
  rewrite Hv4 in H. cbn [negb all_fixed fx_F1 fx_F2 fx_F14 fx_F15 fx_F21] in H.
  destruct (c_remote c); [|discriminate H]. cbn [negb] in H.
  set (nslist0 := c_ns_hosts c ++ _) in H.
  set (l6 := match c_listen6 c with LNone => None | _ => _ end) in H.
  set (l4 := match c_listen4 c with LNone => None | _ => _ end) in H.
  set (sub4 := filter (is_fam V4) (c_includes c)) in H.
  set (sub6 := filter (is_fam V6) (c_includes c)) in H.
  set (ns4 := filter (ns_is_fam V4) nslist0) in H.
  set (ns6 := filter (ns_is_fam V6) nslist0) in H.
  set (exc0 := if isSome l6 then c_excludes c else _) in H.
  set (both := match l6 with Some (_, p6) => _ | None => false end) in H.
  set (sub6' := if negb (isSome l6) && nonempty sub6 then [] else sub6) in H.
  set (ns6' := if nonempty nslist0 && negb (isSome l6) && nonempty ns6 then [] else ns6) in H.
  set (nsl := if nonempty nslist0 && negb (isSome l6) && nonempty ns6 then ns4 else nslist0) in H.
  set (incl := if negb (isSome l6) && nonempty sub6 then sub4 else c_includes c) in H.
  destruct (isSome l6 && negb (f_ipv6 (c_feat c))) eqn:C1; [discriminate H|].
  assert (HU : c_user c <> IdMissing) by (intros E; rewrite E in H; discriminate H).
  assert (HG : c_group c <> IdMissing) by (intros E; rewrite E in H; destruct (c_user c); discriminate H).
  assert (H' : (if nonempty nslist0 && negb (nonempty nsl) then Fatal FDnsAllV6 else
               match assert_features all_fixed (c_feat c) (f_udp (c_feat c)) (nonempty nslist0)
                     (isSome l6) true (isSome (idopt (c_user c))) (isSome (idopt (c_group c))) with
               | Some k => Fatal (FFeature k)
               | None => Plan p end) = Plan p).
  { destruct (c_user c); try congruence; destruct (c_group c); try congruence;
    (destruct (nonempty nslist0 && negb (nonempty nsl)); [exact H|]);
    (destruct (assert_features _ _ _ _ _ _ _ _); [exact H|reflexivity]). }
  destruct (nonempty nslist0 && negb (nonempty nsl)) eqn:C2; [discriminate H'|].
  destruct (assert_features all_fixed (c_feat c) (f_udp (c_feat c)) (nonempty nslist0)
                     (isSome l6) true (isSome (idopt (c_user c))) (isSome (idopt (c_group c)))) eqn:AF;
    [discriminate H'|]. clear H'.
  assert (H2 : exists excludes1,
     match l4 with
     | Some (ip4, _) => Some (if ip_listed ip4 sub4 then exc0 else exc0 ++ [host_exclude V4 ip4])
     | None => Some exc0 end = Some excludes1 /\
     match tcp_search all_fixed e rf (f_udp (c_feat c)) l6 l4 (if both then [0] else search_ports)
             (if both then Some [] else Some []) false with
     | TFail r => r
     | TBound rp6 rp4 tv6 tv4 used last_e =>
       match (if nonempty nslist0 then dns_search all_fixed e rf l6 l4 search_ports used false last_e
              else DBound 0 0 None None) with
       | DFail r => r
       | DBound dp6 dp4 dv6 dv4 =>
         if nonempty sub6' && negb (isSome l6) then Crash AssertionError else
         if nonempty sub6' && (rp6 =? 0) then Fatal FV6SubnetsNoListen else
         if nonempty ns6' && negb (nonempty nslist0 && isSome l6) then Crash AssertionError else
         if nonempty ns6' && (dp6 =? 0) then Fatal FV6NsNoListen else
         if nonempty sub4 && (rp4 =? 0) then Fatal FV4SubnetsNoListen else
         if nonempty ns4 && (dp4 =? 0) then Fatal FV4NsNoListen else
         Plan {| p_includes := incl;
                 p_excludes := match l6 with
                               | Some (ip6, _) => if ip_listed ip6 sub6' then excludes1
                                                  else excludes1 ++ [host_exclude V6 ip6]
                               | None => excludes1 end;
                 p_nslist := nsl; p_rport6 := rp6; p_rport4 := rp4; p_dport6 := dp6; p_dport4 := dp4;
                 p_udp := f_udp (c_feat c); p_user := idopt (c_user c); p_group := idopt (c_group c);
                 p_to_ns := if nonempty nslist0 then c_to_ns c else None; p_auto_nets := c_auto_nets c;
                 p_tcp6 := tv6; p_tcp4 := tv4;
                 p_udp6 := if f_udp (c_feat c) then tv6 else None;
                 p_udp4 := if f_udp (c_feat c) then tv4 else None;
                 p_dns6 := dv6; p_dns4 := dv4 |}
       end
     end = Plan p).
  { destruct (c_user c); try congruence; destruct (c_group c); try congruence;
    (destruct l4 as [[ip4 p4]|]; eexists; (split; [reflexivity|exact H])). }
  clear H. destruct H2 as (excludes1 & HE1 & H).
  replace (if both then Some [] else Some (@nil N)) with (Some (@nil N)) in H by (destruct both; reflexivity).
  destruct (tcp_search all_fixed e rf (f_udp (c_feat c)) l6 l4 (if both then [0] else search_ports) (Some []) false)
    as [rp6 rp4 tv6 tv4 used last_e|r] eqn:T.
  2:{ apply tcp_search_fail in T; [|reflexivity|reflexivity]. destruct T as [m0 T]. congruence. }
  apply tcp_search_bound in T.
  destruct T as (port & Hport & P6 & P4 & BT & BU & HF2). specialize (HF2 eq_refl). destruct HF2 as [U6 U4].
  destruct (if nonempty nslist0 then dns_search all_fixed e rf l6 l4 search_ports used false last_e
            else DBound 0 0 None None) as [dp6 dp4 dv6 dv4|r] eqn:D.
  2:{ destruct (nonempty nslist0); [|discriminate D]. apply dns_search_fail in D; [|reflexivity|reflexivity].
      destruct D as [m0 D]. congruence. }
  apply mbind_ok_fails in BT.
  assert (BUf : f_udp (c_feat c) = true -> mbind (bind_fails e rf) UDP tv6 tv4 = true)
    by (intros Eu; apply mbind_ok_fails; exact (BU Eu)).
  clear BU. rename BUf into BU. set (e' := bind_fails e rf) in *.
  destruct (nonempty sub6' && negb (isSome l6)) eqn:K1; [discriminate H|].
  destruct (nonempty sub6' && (rp6 =? 0)) eqn:K2; [discriminate H|].
  destruct (nonempty ns6' && negb (nonempty nslist0 && isSome l6)) eqn:K3; [discriminate H|].
  destruct (nonempty ns6' && (dp6 =? 0)) eqn:K4; [discriminate H|].
  destruct (nonempty sub4 && (rp4 =? 0)) eqn:K5; [discriminate H|].
  destruct (nonempty ns4 && (dp4 =? 0)) eqn:K6; [discriminate H|].
  injection H as <-.
  (* the DNS search, when it ran *)
  assert (DD : (nonempty nslist0 = false /\ dp6 = 0 /\ dp4 = 0 /\ dv6 = None /\ dv4 = None) \/
               (nonempty nslist0 = true /\ exists dport, In dport search_ports /\ ~ In dport used /\
                  at_port l6 dport = (dv6, dp6) /\ at_port l4 dport = (dv4, dp4) /\ mbind e' UDP dv6 dv4 = true)).
  { destruct (nonempty nslist0); [right|left].
    - split; [reflexivity|]. apply dns_search_bound in D. destruct D as (dport & A & B & C & D' & E).
      exists dport. repeat split; try assumption. apply mbind_ok_fails. exact E.
    - injection D as <- <- <- <-. repeat split. }
  clear D.
  (* facts about the resolved listen addresses *)
  assert (L4 : forall ip p0, l4 = Some (ip, p0) ->
            p0 <= 65535 /\ (c_listen4 c = LAuto -> f_loopback (c_feat c) = true -> ip = LOOP4))
    by (intros ip p0; exact (l4_of_facts c ip p0 Hok)).
  assert (L6 : forall ip p0, l6 = Some (ip, p0) ->
            p0 <= 65535 /\ (c_listen6 c = LAuto -> f_loopback (c_feat c) = true -> ip = LOOP6))
    by (intros ip p0; exact (l6_of_facts c ip p0 Hok)).
  assert (A6 : isSome l6 = ipv6_active c) by exact (l6_active c C1).
  assert (HP : both = false -> 9001 <= port <= 12300).
  { intros E. rewrite E in Hport. apply search_ports_range. exact Hport. }
  (* reported TCP ports *)
  assert (R4 : forall ip p0, l4 = Some (ip, p0) -> tv4 = Some (ip, rp4) /\ rp4 <> 0 /\ rp4 <= 65535).
  { intros ip p0 E. pose proof (L4 _ _ E) as [B _].
    apply (pick_reported l4 port tv4 rp4 ip p0 E P4 B).
    intros ->. apply HP. unfold both. rewrite E. destruct l6 as [[? ?]|]; [|reflexivity].
    apply andb_false_r. }
  assert (R6 : forall ip p0, l6 = Some (ip, p0) -> tv6 = Some (ip, rp6) /\ rp6 <> 0 /\ rp6 <= 65535).
  { intros ip p0 E. pose proof (L6 _ _ E) as [B _].
    apply (pick_reported l6 port tv6 rp6 ip p0 E P6 B).
    intros ->. apply HP. unfold both. rewrite E. destruct l4 as [[? ?]|]; reflexivity. }
  assert (N4 : l4 = None -> tv4 = None /\ rp4 = 0).
  { intros E. rewrite E in P4. injection P4 as <- <-. split; reflexivity. }
  assert (N6 : l6 = None -> tv6 = None /\ rp6 = 0).
  { intros E. rewrite E in P6. injection P6 as <- <-. split; reflexivity. }
  (* reported DNS ports *)
  assert (D4 : match dv4 with
               | Some (ip, pt) => exists p0, l4 = Some (ip, p0) /\ pt = dp4 /\ dp4 <> 0 /\ dp4 <= 65535 /\ ~ In dp4 used
               | None => dp4 = 0 end).
  { apply dns_reported. destruct DD as [(_ & _ & -> & _ & ->)|(_ & dport & ? & ? & ? & ? & ?)]; [left; tauto|right; eauto]. }
  assert (D6 : match dv6 with
               | Some (ip, pt) => exists p0, l6 = Some (ip, p0) /\ pt = dp6 /\ dp6 <> 0 /\ dp6 <= 65535 /\ ~ In dp6 used
               | None => dp6 = 0 end).
  { apply dns_reported. destruct DD as [(_ & -> & _ & -> & _)|(_ & dport & ? & ? & ? & ? & ?)]; [left; tauto|right; eauto]. }
  assert (BD : bind_one e' UDP V6 dv6 = true /\ bind_one e' UDP V4 dv4 = true).
  { destruct DD as [(_ & _ & _ & -> & ->)|(_ & dport & _ & _ & _ & _ & B)]; [split; reflexivity|].
    apply mbind_true. exact B. }
  destruct BD as [BD6 BD4].
  apply mbind_true in BT. destruct BT as [BT6 BT4].
  assert (BU' : f_udp (c_feat c) = true -> bind_one e' UDP V6 tv6 = true /\ bind_one e' UDP V4 tv4 = true).
  { intros E. apply mbind_true. exact (BU E). }
  clear BU DD.
  (* every listener address is the family's listen address *)
  assert (LI4 : forall ip pt, In (Some (ip, pt)) [tv4; if f_udp (c_feat c) then tv4 else None; dv4] ->
                exists p0, l4 = Some (ip, p0)).
  { assert (HT : forall ip pt, tv4 = Some (ip, pt) -> exists p0, l4 = Some (ip, p0)).
    { intros ip pt E. rewrite E in P4. apply pick_some in P4.
      destruct P4 as (ip' & p0 & El & [= <- _] & _). exists p0. exact El. }
    intros ip pt [E|[E|[E|[]]]].
    - exact (HT _ _ E).
    - destruct (f_udp (c_feat c)); [exact (HT _ _ E)|discriminate E].
    - rewrite E in D4. destruct D4 as (p0 & El & _). exists p0. exact El. }
  assert (LI6 : forall ip pt, In (Some (ip, pt)) [tv6; if f_udp (c_feat c) then tv6 else None; dv6] ->
                exists p0, l6 = Some (ip, p0)).
  { assert (HT : forall ip pt, tv6 = Some (ip, pt) -> exists p0, l6 = Some (ip, p0)).
    { intros ip pt E. rewrite E in P6. apply pick_some in P6.
      destruct P6 as (ip' & p0 & El & [= <- _] & _). exists p0. exact El. }
    intros ip pt [E|[E|[E|[]]]].
    - exact (HT _ _ E).
    - destruct (f_udp (c_feat c)); [exact (HT _ _ E)|discriminate E].
    - rewrite E in D6. destruct D6 as (p0 & El & _). exists p0. exact El. }
  split.
  - (* cs_loopback *)
    intros f ip pt Hl HA Hin. destruct f; cbn [p_includes p_excludes p_nslist p_rport6 p_rport4 p_dport6 p_dport4 p_udp p_user p_group p_to_ns p_auto_nets p_tcp6 p_tcp4 p_udp6 p_udp4 p_dns6 p_dns4 p_tcp p_udpl p_dnsl p_rport p_dport listeners c_listen LOOP] in Hin, HA |- *.
    + destruct (LI4 _ _ Hin) as (p0 & El). exact (proj2 (L4 _ _ El) HA Hl).
    + destruct (LI6 _ _ Hin) as (p0 & El). exact (proj2 (L6 _ _ El) HA Hl).
  - (* cs_excluded *)
    intros f ip pt Hin. destruct f; cbn [p_includes p_excludes p_nslist p_rport6 p_rport4 p_dport6 p_dport4 p_udp p_user p_group p_to_ns p_auto_nets p_tcp6 p_tcp4 p_udp6 p_udp4 p_dns6 p_dns4 p_tcp p_udpl p_dnsl p_rport p_dport listeners c_listen LOOP] in Hin |- *.
    + destruct (LI4 _ _ Hin) as (p0 & El). rewrite El in HE1. injection HE1 as <-.
      destruct (ip_listed ip sub4) eqn:IL.
      * right. apply ip_listed_true in IL. destruct IL as (s & Hs & Eip).
        apply in_filter_fam in Hs. destruct Hs as [Hs Hf]. exists s.
        split; [|split; assumption]. unfold incl.
        destruct (negb (isSome l6) && nonempty sub6); [apply in_filter_fam; split; assumption|exact Hs].
      * left. assert (In (host_exclude V4 ip) (exc0 ++ [host_exclude V4 ip])) as X
          by (apply in_or_app; right; left; reflexivity).
        destruct l6 as [[ip6 p6]|]; [destruct (ip_listed ip6 sub6')|]; try exact X.
        apply in_or_app. left. exact X.
    + destruct (LI6 _ _ Hin) as (p0 & El). unfold sub6', incl. rewrite El. cbn [isSome negb andb].
      destruct (ip_listed ip sub6) eqn:IL.
      * right. apply ip_listed_true in IL. destruct IL as (s & Hs & Eip).
        apply in_filter_fam in Hs. destruct Hs as [Hs Hf]. exists s. repeat split; assumption.
      * left. apply in_or_app. right. left. reflexivity.
  - (* cs_v6 *)
    rewrite <- A6. unfold plan_has_v6. cbn [p_includes p_excludes p_nslist p_rport6 p_dport6 p_tcp6 p_udp6 p_dns6].
    destruct l6 as [[ip6 p6]|] eqn:El.
    + destruct (R6 _ _ eq_refl) as (Etv & _). rewrite Etv. cbn [isSome].
      rewrite orb_true_r. reflexivity.
    + destruct (N6 eq_refl) as [-> ->].
      assert (dv6 = None /\ dp6 = 0) as [-> ->].
      { destruct dv6 as [[ip pt]|]; [destruct D6 as (p0 & X & _); discriminate X|split; [reflexivity|exact D6]]. }
      cbn [isSome negb N.eqb orb].
      assert (existsb (is_fam V6) incl = false) as ->.
      { unfold incl. cbn [isSome negb andb]. destruct (nonempty sub6) eqn:Z.
        - apply no_v6_filter4. - apply no_v6_empty6. exact Z. }
      assert (existsb (is_fam V6) excludes1 = false) as ->.
      { unfold exc0 in HE1. cbn [isSome] in HE1.
        destruct l4 as [[ip4 p4]|]; [destruct (ip_listed ip4 sub4)|]; injection HE1 as <-;
          try apply no_v6_filter4.
        rewrite existsb_app. rewrite no_v6_filter4. reflexivity. }
      assert (existsb (ns_is_fam V6) nsl = false) as ->.
      { unfold nsl. cbn [isSome negb andb]. rewrite andb_true_r.
        destruct (nonempty nslist0) eqn:Z0; cbn [andb].
        - destruct (nonempty ns6) eqn:Z.
          + apply ns_no_v6_filter4. + apply ns_no_v6_empty6. exact Z.
        - apply nonempty_false in Z0. rewrite Z0. reflexivity. }
      destruct (f_udp (c_feat c)); reflexivity.
  - (* cs_subnets *)
    intros f s Hin Hf. destruct f; cbn [p_includes p_rport p_tcp p_udpl p_udp p_rport4 p_rport6 p_tcp4 p_tcp6 p_udp4 p_udp6] in Hin |- *.
    + assert (In s sub4) as Hs.
      { unfold incl in Hin. destruct (negb (isSome l6) && nonempty sub6); [exact Hin|].
        apply in_filter_fam. split; assumption. }
      rewrite (nonempty_in _ _ Hs) in K5. cbn [andb] in K5. apply N.eqb_neq in K5.
      destruct l4 as [[ip4 p4]|] eqn:El; [|destruct (N4 eq_refl) as [_ X]; contradiction].
      destruct (R4 _ _ eq_refl) as (Etv & _ & _). exists ip4. rewrite Etv in BT4, BU' |- *.
      split; [exact K5|]. split; [reflexivity|]. split; [exact (bind_one_some _ _ _ _ _ BT4)|].
      intros Eu. rewrite Eu. split; [reflexivity|]. exact (bind_one_some _ _ _ _ _ (proj2 (BU' Eu))).
    + unfold incl in Hin. destruct (negb (isSome l6) && nonempty sub6) eqn:Dr.
      { apply in_filter_fam in Hin. destruct Hin as [_ X]. congruence. }
      assert (In s sub6') as Hs.
      { unfold sub6'; try rewrite Dr. apply in_filter_fam. split; assumption. }
      rewrite (nonempty_in _ _ Hs) in K2. cbn [andb] in K2. apply N.eqb_neq in K2.
      destruct l6 as [[ip6 p6]|] eqn:El; [|destruct (N6 eq_refl) as [_ X]; contradiction].
      destruct (R6 _ _ eq_refl) as (Etv & _ & _). exists ip6. rewrite Etv in BT6, BU' |- *.
      split; [exact K2|]. split; [reflexivity|]. split; [exact (bind_one_some _ _ _ _ _ BT6)|].
      intros Eu. rewrite Eu. split; [reflexivity|]. exact (bind_one_some _ _ _ _ _ (proj1 (BU' Eu))).
  - (* cs_ns *)
    intros f n Hin Hf. destruct f; cbn [p_nslist p_dport p_dnsl p_dport4 p_dport6 p_dns4 p_dns6] in Hin |- *.
    + assert (In n ns4) as Hs.
      { unfold nsl in Hin. destruct (nonempty nslist0 && negb (isSome l6) && nonempty ns6); [exact Hin|].
        apply in_filter_ns. split; assumption. }
      rewrite (nonempty_in _ _ Hs) in K6. cbn [andb] in K6. apply N.eqb_neq in K6.
      destruct dv4 as [[ip pt]|]; [|contradiction].
      destruct D4 as (p0 & El & -> & _). exists ip.
      split; [exact K6|]. split; [reflexivity|]. exact (bind_one_some _ _ _ _ _ BD4).
    + unfold nsl in Hin. destruct (nonempty nslist0 && negb (isSome l6) && nonempty ns6) eqn:Dn.
      { apply in_filter_ns in Hin. destruct Hin as [_ X]. congruence. }
      assert (In n ns6') as Hs.
      { unfold ns6'; try rewrite Dn. apply in_filter_ns. split; assumption. }
      rewrite (nonempty_in _ _ Hs) in K4. cbn [andb] in K4. apply N.eqb_neq in K4.
      destruct dv6 as [[ip pt]|]; [|contradiction].
      destruct D6 as (p0 & El & -> & _). exists ip.
      split; [exact K4|]. split; [reflexivity|]. exact (bind_one_some _ _ _ _ _ BD6).
  - (* cs_reported *)
    intros f. destruct f; cbn [p_tcp p_dnsl p_udpl p_rport p_dport p_udp p_tcp4 p_tcp6 p_dns4 p_dns6 p_udp4 p_udp6
                                  p_rport4 p_rport6 p_dport4 p_dport6].
    + split; [|split].
      * destruct l4 as [[ip4 p4]|] eqn:El.
        -- destruct (R4 _ _ eq_refl) as (-> & X & _). split; [reflexivity|exact X].
        -- destruct (N4 eq_refl) as [-> ->]. reflexivity.
      * destruct dv4 as [[ip pt]|]; [|exact D4]. destruct D4 as (p0 & _ & -> & X & _). split; [reflexivity|exact X].
      * destruct (f_udp (c_feat c)); [|exact I]. destruct tv4; [split; reflexivity|exact I].
    + split; [|split].
      * destruct l6 as [[ip6 p6]|] eqn:El.
        -- destruct (R6 _ _ eq_refl) as (-> & X & _). split; [reflexivity|exact X].
        -- destruct (N6 eq_refl) as [-> ->]. reflexivity.
      * destruct dv6 as [[ip pt]|]; [|exact D6]. destruct D6 as (p0 & _ & -> & X & _). split; [reflexivity|exact X].
      * destruct (f_udp (c_feat c)); [|exact I]. destruct tv6; [split; reflexivity|exact I].
  - (* cs_dns_port *)
    intros f g Hnz.
    assert (~ In (p_dport f {| p_includes := incl; p_excludes := match l6 with
                               | Some (ip6, _) => if ip_listed ip6 sub6' then excludes1
                                                  else excludes1 ++ [host_exclude V6 ip6]
                               | None => excludes1 end;
                 p_nslist := nsl; p_rport6 := rp6; p_rport4 := rp4; p_dport6 := dp6; p_dport4 := dp4;
                 p_udp := f_udp (c_feat c); p_user := idopt (c_user c); p_group := idopt (c_group c);
                 p_to_ns := if nonempty nslist0 then c_to_ns c else None; p_auto_nets := c_auto_nets c;
                 p_tcp6 := tv6; p_tcp4 := tv4;
                 p_udp6 := if f_udp (c_feat c) then tv6 else None;
                 p_udp4 := if f_udp (c_feat c) then tv4 else None;
                 p_dns6 := dv6; p_dns4 := dv4 |}) used) as NI.
    { destruct f; cbn [p_dport p_dport4 p_dport6] in Hnz |- *.
      - destruct dv4 as [[ip pt]|]; [|contradiction]. destruct D4 as (p0 & _ & _ & _ & _ & X). exact X.
      - destruct dv6 as [[ip pt]|]; [|contradiction]. destruct D6 as (p0 & _ & _ & _ & _ & X). exact X. }
    intros E. apply NI. rewrite E. destruct g; cbn [p_rport p_rport4 p_rport6]; assumption.
  - (* cs_range *)
    intros f. destruct f; cbn [p_rport p_dport p_rport4 p_rport6 p_dport4 p_dport6].
    + split.
      * destruct l4 as [[ip4 p4]|] eqn:El.
        -- exact (proj2 (proj2 (R4 _ _ eq_refl))).
        -- destruct (N4 eq_refl) as [_ ->]. apply N.le_0_l.
      * destruct dv4 as [[ip pt]|]; [|rewrite D4; apply N.le_0_l].
        destruct D4 as (p0 & _ & _ & _ & X & _). exact X.
    + split.
      * destruct l6 as [[ip6 p6]|] eqn:El.
        -- exact (proj2 (proj2 (R6 _ _ eq_refl))).
        -- destruct (N6 eq_refl) as [_ ->]. apply N.le_0_l.
      * destruct dv6 as [[ip pt]|]; [|rewrite D6; apply N.le_0_l].
        destruct D6 as (p0 & _ & _ & _ & X & _). exact X.
  - (* cs_features *)
    cbn [p_user p_group p_udp p_nslist].
    unfold assert_features in AF. cbn [all_fixed fx_F15] in AF.
    destruct (f_udp (c_feat c) && negb (f_udp (c_feat c))); [discriminate AF|].
    destruct (nonempty nslist0 && negb (f_dns (c_feat c))) eqn:X2; [discriminate AF|].
    rewrite C1 in AF. rewrite Hv4 in AF. cbn [negb andb] in AF.
    destruct (isSome (idopt (c_user c)) && negb (f_user (c_feat c))) eqn:X5; [discriminate AF|].
    destruct (isSome (idopt (c_group c)) && negb (f_group (c_feat c))) eqn:X6; [discriminate AF|].
    split; [|split; [|split]].
    + intros Hne. destruct (idopt (c_user c)); [|congruence]. cbn [isSome andb] in X5.
      destruct (f_user (c_feat c)); [reflexivity|discriminate X5].
    + intros Hne. destruct (idopt (c_group c)); [|congruence]. cbn [isSome andb] in X6.
      destruct (f_group (c_feat c)); [reflexivity|discriminate X6].
    + intros E. exact E.
    + intros Hne. destruct (nonempty nslist0) eqn:Z0.
      * cbn [andb] in X2. destruct (f_dns (c_feat c)); [reflexivity|discriminate X2].
      * exfalso. apply Hne. unfold nsl; try rewrite Z0; cbn [andb]. apply nonempty_false. exact Z0.
Qed.

(* ---------- the shipped methods satisfy the standing assumptions ---------- *)

Lemma startup_consistent c e p : cfg_ok c -> startup c e = Plan p -> consistent c e p.
Proof. intros Hok H. exact (startup_full_consistent c e no_refusal p Hok H). Qed.

Lemma shipped_methods_ok m f : In (m, f) method_features -> f_ipv4 f = true /\ f_loopback f = true.
Proof.
  intros H. cbn in H.
  repeat (destruct H as [H|H]; [injection H as <- <-; split; reflexivity|]). destruct H.
Qed.

(* ---------- witnesses of the defects found in the code as found ---------- *)
Definition ip (s : String.string) : bytes := bytes_of_string s.
Definition net10 : subnet := {| sn_fam := V4; sn_ip := ip "10.0.0.0"%string; sn_width := 8; sn_fport := 0; sn_lport := 0 |}.
Definition netfd : subnet := {| sn_fam := V6; sn_ip := ip "fd00::"%string; sn_width := 8; sn_fport := 0; sn_lport := 0 |}.
Definition w_base (feat : features) (l6 l4 : lspec) : cfg :=
  {| c_feat := feat; c_remote := true; c_listen6 := l6; c_listen4 := l4; c_dns := false; c_resolv := [];
     c_ns_hosts := []; c_to_ns := None; c_includes := [net10]; c_excludes := []; c_auto_nets := false;
     c_user := IdNone; c_group := IdNone |}.
Definition with_ns (c : cfg) (l : list ns) : cfg :=
  {| c_feat := c_feat c; c_remote := c_remote c; c_listen6 := c_listen6 c; c_listen4 := c_listen4 c;
     c_dns := c_dns c; c_resolv := c_resolv c; c_ns_hosts := l; c_to_ns := c_to_ns c;
     c_includes := c_includes c; c_excludes := c_excludes c; c_auto_nets := c_auto_nets c;
     c_user := c_user c; c_group := c_group c |}.
Definition with_includes (c : cfg) (l : list subnet) : cfg :=
  {| c_feat := c_feat c; c_remote := c_remote c; c_listen6 := c_listen6 c; c_listen4 := c_listen4 c;
     c_dns := c_dns c; c_resolv := c_resolv c; c_ns_hosts := c_ns_hosts c; c_to_ns := c_to_ns c;
     c_includes := l; c_excludes := c_excludes c; c_auto_nets := c_auto_nets c;
     c_user := c_user c; c_group := c_group c |}.
Definition with_group (c : cfg) (g : idspec) : cfg :=
  {| c_feat := c_feat c; c_remote := c_remote c; c_listen6 := c_listen6 c; c_listen4 := c_listen4 c;
     c_dns := c_dns c; c_resolv := c_resolv c; c_ns_hosts := c_ns_hosts c; c_to_ns := c_to_ns c;
     c_includes := c_includes c; c_excludes := c_excludes c; c_auto_nets := c_auto_nets c;
     c_user := c_user c; c_group := g |}.
Definition free_env : env := env_of_ranges [].
Definition ns4a : ns := (V4, ip "10.9.9.9"%string).
Definition ns6a : ns := (V6, ip "fd00::53"%string).

(* F1: --listen 127.0.0.1:5004,[::1]:5006 *)
Definition w_F1 : cfg := w_base feat_nat (LAddr LOOP6 5006) (LAddr LOOP4 5004).
(* F2: --listen 127.0.0.1:12299 --ns-hosts 10.9.9.9 *)
Definition w_F2 : cfg := with_ns (w_base feat_nat LNone (LAddr LOOP4 12299)) [ns4a].
(* F14: --method nft --listen [::1]:0 fd00::/8 *)
Definition w_F14 : cfg := with_includes (w_base feat_nft (LAddr LOOP6 0) LNone) [netfd].
(* F15: --method nft --group staff *)
Definition w_F15 : cfg := with_group (w_base feat_nft LAuto LAuto) (IdExists 1000).
(* F21: --listen 127.0.0.1:5000 while TCP port 5000 is taken *)
Definition w_F21 : cfg := w_base feat_nat LNone (LAddr LOOP4 5000).
Definition env_F21 : env := env_of_ranges [(TCP, V4, 5000, 5000)].
(* F21 (second site): --ns-hosts ... while TCP 12300..9002 are taken: every candidate DNS port was already
   tried by the first search, the DNS loop never creates a listener *)
Definition w_F21b : cfg := with_ns (w_base feat_nat LNone LAuto) [ns4a].
Definition env_F21b : env := env_of_ranges [(TCP, V4, 9002, 12300)].
Definition env_F21c : env := env_of_ranges [(UDP, V4, 9001, 12300)].
(* a rich valid configuration: both families, DNS for both, tproxy (UDP listener) *)
Definition w_full : cfg :=
  {| c_feat := feat_tproxy; c_remote := true; c_listen6 := LAuto; c_listen4 := LAuto; c_dns := true;
     c_resolv := [ns6a]; c_ns_hosts := [ns4a]; c_to_ns := Some (ip "10.1.1.1"%string, 53);
     c_includes := [net10; netfd]; c_excludes := []; c_auto_nets := false;
     c_user := IdNone; c_group := IdNone |}.
Definition env_busy_top : env := env_of_ranges [(TCP, V4, 12299, 12300); (UDP, V6, 12297, 12298)].

Definition only_without (k : N) : fixes :=
  {| fx_F1 := negb (k =? 1); fx_F2 := negb (k =? 2); fx_F14 := negb (k =? 14);
     fx_F15 := negb (k =? 15); fx_F21 := negb (k =? 21); fx_F131 := negb (k =? 131) |}.

(* F131: --listen 10.99.99.99:0 where 10.99.99.99 is not an address of the machine (EADDRNOTAVAIL = 99) *)
Definition ip_far : bytes := ip "10.99.99.99"%string.
Definition w_F131 : cfg := w_base feat_nat LNone (LAddr ip_far 0).
Definition rf_F131 : renv := renv_of_list [(TCP, V4, Some ip_far, 0, 65535, 99)].
(* F131: --listen 127.0.0.1:80 without the privilege to bind ports below 1024 (EACCES = 13) *)
Definition w_F131b : cfg := w_base feat_nat LNone (LAddr LOOP4 80).
Definition rf_unpriv : renv := renv_of_list [(TCP, V4, None, 0, 1023, 13); (UDP, V4, None, 0, 1023, 13);
                                             (TCP, V6, None, 0, 1023, 13); (UDP, V6, None, 0, 1023, 13)].
(* F131 (second site): the DNS listener's bind is the one that is refused *)
Definition w_F131c : cfg := with_ns (w_base feat_nat LNone (LAddr ip_far 0)) [ns4a].
Definition rf_F131c : renv := renv_of_list [(UDP, V4, Some ip_far, 0, 65535, 99)].
(* IPv6 switched off in the kernel: every IPv6 bind answers EADDRNOTAVAIL *)
Definition rf_no_v6 : renv := renv_of_list [(TCP, V6, None, 0, 65535, 99); (UDP, V6, None, 0, 65535, 99)].

Ltac solve_cfg_ok :=
  split; [reflexivity|];
  let f := fresh in let a := fresh in let p := fresh in let E := fresh in
  intros f a p E; destruct f; cbn in E; first [discriminate E | injection E as _ <-; lia].

Lemma w_F1_ok : cfg_ok w_F1. Proof. solve_cfg_ok. Qed.
Lemma w_F2_ok : cfg_ok w_F2. Proof. solve_cfg_ok. Qed.
Lemma w_F14_ok : cfg_ok w_F14. Proof. solve_cfg_ok. Qed.
Lemma w_F15_ok : cfg_ok w_F15. Proof. solve_cfg_ok. Qed.
Lemma w_F21_ok : cfg_ok w_F21. Proof. solve_cfg_ok. Qed.
Lemma w_F21b_ok : cfg_ok w_F21b. Proof. solve_cfg_ok. Qed.
Lemma w_full_ok : cfg_ok w_full. Proof. solve_cfg_ok. Qed.
Lemma w_F131_ok : cfg_ok w_F131. Proof. solve_cfg_ok. Qed.
Lemma w_F131b_ok : cfg_ok w_F131b. Proof. solve_cfg_ok. Qed.
Lemma w_F131c_ok : cfg_ok w_F131c. Proof. solve_cfg_ok. Qed.

Lemma asfound_F1 : startup_asfound w_F1 free_env = Crash UnboundLocalError.
Proof. vm_compute. reflexivity. Qed.
Lemma asfound_F14 : startup_asfound w_F14 free_env = Crash TypeError.
Proof. vm_compute. reflexivity. Qed.
Lemma asfound_F21 : startup_asfound w_F21 env_F21 = OsError EADDRINUSE.
Proof. vm_compute. reflexivity. Qed.
Lemma asfound_F21b : startup_asfound w_F21b env_F21b = Crash UnboundLocalError.
Proof. vm_compute. reflexivity. Qed.
Lemma asfound_F21c : startup_asfound w_F21b env_F21c = OsError EADDRINUSE.
Proof. vm_compute. reflexivity. Qed.
Lemma asfound_F2 : exists p, startup_asfound w_F2 free_env = Plan p /\
  p_dport4 p = 12299 /\ p_rport4 p = 12299 /\ p_tcp4 p = Some (LOOP4, 12299) /\ p_dns4 p = Some (LOOP4, 12299).
Proof. eexists. split; [vm_compute; reflexivity|]. repeat split. Qed.
Lemma asfound_F15 : exists p, startup_asfound w_F15 free_env = Plan p /\
  p_group p = Some 1000 /\ f_group (c_feat w_F15) = false.
Proof. eexists. split; [vm_compute; reflexivity|]. repeat split. Qed.

Lemma asfound_F131 : startup_asfound_full w_F131 free_env rf_F131 = OsError 99.
Proof. vm_compute. reflexivity. Qed.
Lemma asfound_F131b : startup_asfound_full w_F131b free_env rf_unpriv = OsError 13.
Proof. vm_compute. reflexivity. Qed.
Lemma asfound_F131c : startup_asfound_full w_F131c free_env rf_F131c = OsError 99.
Proof. vm_compute. reflexivity. Qed.
Lemma needs_F131 : startup_gen (only_without 131) w_F131 free_env rf_F131 = OsError 99.
Proof. vm_compute. reflexivity. Qed.
Lemma repaired_F131 : startup_full w_F131 free_env rf_F131 = Fatal FBindRefused.
Proof. vm_compute. reflexivity. Qed.
Lemma repaired_F131b : startup_full w_F131b free_env rf_unpriv = Fatal FBindRefused.
Proof. vm_compute. reflexivity. Qed.
Lemma repaired_F131c : startup_full w_F131c free_env rf_F131c = Fatal FDnsBindRefused.
Proof. vm_compute. reflexivity. Qed.
(* the one refusal the code as found already explains *)
Lemma no_v6_explained : startup_asfound_full (w_base feat_nat LAuto LAuto) free_env rf_no_v6 = Fatal FV6Unavailable /\
                        startup_full (w_base feat_nat LAuto LAuto) free_env rf_no_v6 = Fatal FV6Unavailable.
Proof. split; vm_compute; reflexivity. Qed.
(* a refusal somewhere else does not disturb a start-up that never binds there *)
Lemma refusal_elsewhere : exists p, startup_full w_F1 free_env rf_F131 = Plan p /\ p_rport4 p = 5004.
Proof. eexists. split; [vm_compute; reflexivity|]. reflexivity. Qed.

(* each repair is needed on its own: with all the others applied the witness still fails *)
Lemma needs_F1 : startup_gen (only_without 1) w_F1 free_env no_refusal = Crash UnboundLocalError.
Proof. vm_compute. reflexivity. Qed.
Lemma needs_F14 : startup_gen (only_without 14) w_F14 free_env no_refusal = Crash TypeError.
Proof. vm_compute. reflexivity. Qed.
Lemma needs_F21 : startup_gen (only_without 21) w_F21 env_F21 no_refusal = OsError EADDRINUSE.
Proof. vm_compute. reflexivity. Qed.
Lemma needs_F2 : exists p, startup_gen (only_without 2) w_F2 free_env no_refusal = Plan p /\ p_dport4 p = p_rport4 p.
Proof. eexists. split; [vm_compute; reflexivity|]. reflexivity. Qed.
Lemma needs_F15 : exists p, startup_gen (only_without 15) w_F15 free_env no_refusal = Plan p /\ p_group p = Some 1000.
Proof. eexists. split; [vm_compute; reflexivity|]. reflexivity. Qed.

(* the repaired code on the same inputs *)
Lemma repaired_F1 : exists p, startup w_F1 free_env = Plan p /\ p_rport6 p = 5006 /\ p_rport4 p = 5004.
Proof. eexists. split; [vm_compute; reflexivity|]. split; reflexivity. Qed.
Lemma repaired_F2 : exists p, startup w_F2 free_env = Plan p /\ p_rport4 p = 12299 /\ p_dport4 p = 12298.
Proof. eexists. split; [vm_compute; reflexivity|]. split; reflexivity. Qed.
Lemma repaired_F14 : exists p, startup w_F14 free_env = Plan p /\ p_rport6 p = 12300 /\ p_rport4 p = 0 /\
  p_tcp4 p = None /\ p_excludes p = [host_exclude V6 LOOP6].
Proof. eexists. split; [vm_compute; reflexivity|]. repeat split. Qed.
Lemma repaired_F14_v4_subnets : startup (with_includes w_F14 [net10]) free_env = Fatal FV4SubnetsNoListen.
Proof. vm_compute. reflexivity. Qed.
Lemma repaired_F15 : startup w_F15 free_env = Fatal (FFeature KGroup).
Proof. vm_compute. reflexivity. Qed.
Lemma repaired_F21 : startup w_F21 env_F21 = Fatal FPortsBusy.
Proof. vm_compute. reflexivity. Qed.
Lemma repaired_F21b : startup w_F21b env_F21b = Fatal FDnsPortsBusy.
Proof. vm_compute. reflexivity. Qed.

(* non-vacuity: a rich configuration in a partly busy environment *)
Lemma full_plan : exists p, startup w_full env_busy_top = Plan p /\
  p_rport6 p = 12296 /\ p_rport4 p = 12296 /\ p_dport6 p = 12295 /\ p_dport4 p = 12295 /\
  p_udp p = true /\ p_nslist p = [ns4a; ns6a] /\
  p_excludes p = [host_exclude V4 LOOP4; host_exclude V6 LOOP6] /\ p_to_ns p = Some (ip "10.1.1.1"%string, 53).
Proof. eexists. split; [vm_compute; reflexivity|]. repeat split. Qed.
