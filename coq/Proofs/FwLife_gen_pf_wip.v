(* Proofs/FwLife_gen_pf.v — C04, general theorems, part 9: pf (repaired code path, F17 fixed).
   1. `pfctl -s all` is parsed exactly: b'INFO:\nStatus: Disabled' in status  <->  pf is disabled,
      for every main ruleset whose anchor names contain no newline;
   2. set-up and tear-down of one family on the pf state, fault-free;
   3. the fault-free session is the identity on the pf state up to the anchor calls it appends to
      the main ruleset (and, on OpenBSD/Darwin with `set skip on lo`, the main ruleset it replaces). *)
From Coq Require Import String List NArith ZArith Ascii Bool Lia Arith.
From SV Require Import Lib.Bytes Model.FwLife Model.FwLifeSpec Proofs.FwLife_lemmas.
Import ListNotations.

Definition nl : ascii := "010"%char.
Definition nlfree (l : bytes) : bool := forallb (fun a => negb (Ascii.eqb a nl)) l.

Fixpoint infx (p l : bytes) : bool :=
  starts_with p l || match l with [] => false | _ :: l' => infx p l' end.

Lemma is_infix_fuel_infx p : forall fuel l, length l < fuel -> is_infix_fuel fuel p l = infx p l.
Proof.
  induction fuel as [|k IH]; intros l H; [lia|]. destruct l as [|a l]; cbn [is_infix_fuel infx]; [reflexivity|].
  rewrite IH by (cbn in H; lia). reflexivity.
Qed.

Lemma is_infix_infx p l : is_infix p l = infx p l.
Proof. unfold is_infix. apply is_infix_fuel_infx. lia. Qed.

Lemma nlfree_app a b : nlfree (a ++ b) = nlfree a && nlfree b.
Proof. unfold nlfree. apply forallb_app. Qed.

Lemma sw_line A B : forall line rest,
  nlfree A = true -> nlfree line = true ->
  (starts_with (A ++ nl :: B) (line ++ nl :: rest) = true <-> line = A /\ starts_with B rest = true).
Proof.
  induction A as [|a A IH]; intros line rest HA HL.
  - destruct line as [|c line]; cbn [app starts_with].
    + rewrite Ascii.eqb_refl. split; [intro H; split; [reflexivity | exact H] | intros [_ H]; exact H].
    + cbn [nlfree forallb] in HL. apply andb_true_iff in HL as [Hc _]. apply negb_true_iff in Hc.
      rewrite Ascii.eqb_sym, Hc. split; [discriminate | intros [E _]; discriminate].
  - cbn [nlfree forallb] in HA. apply andb_true_iff in HA as [Ha HA]. apply negb_true_iff in Ha.
    destruct line as [|c line]; cbn [app starts_with].
    + rewrite Ha. split; [discriminate | intros [E _]; discriminate].
    + cbn [nlfree forallb] in HL. apply andb_true_iff in HL as [_ HL].
      destruct (Ascii.eqb a c) eqn:E.
      * apply Ascii.eqb_eq in E. subst c. rewrite (IH line rest HA HL).
        split; intros [E1 E2]; (split; [|exact E2]); congruence.
      * split; [discriminate|]. intros [E1 _]. injection E1 as E1 _. subst. rewrite Ascii.eqb_refl in E. discriminate.
Qed.

Definition endsw (A l : bytes) : Prop := exists x, l = x ++ A.

Section Occ.
Variables A B : bytes.
Hypothesis HA : nlfree A = true.
Hypothesis HBne : B <> [].
Let P := A ++ nl :: B.

Definition Occ (L : list bytes) : Prop := infx P (join_lines L) = true.

Lemma occ_line line rest :
  nlfree line = true ->
  (infx P (line ++ nl :: rest) = true <-> (endsw A line /\ starts_with B rest = true) \/ infx P rest = true).
Proof.
  induction line as [|c line IH]; intro HL.
  - cbn [app infx]. rewrite orb_true_iff. change (nl :: rest) with ([] ++ nl :: rest).
    unfold P. rewrite (sw_line A B [] rest HA eq_refl). split.
    + intros [[E S]|H]; [left; split; [exists []; rewrite <- E; reflexivity | exact S] | right; exact H].
    + intros [[(x & E) S]|H]; [left | right; exact H]. split; [|exact S].
      destruct x; [exact E | discriminate].
  - cbn [nlfree forallb] in HL. apply andb_true_iff in HL as [Hc HL].
    cbn [app infx]. rewrite orb_true_iff. change (c :: line ++ nl :: rest) with ((c :: line) ++ nl :: rest).
    unfold P at 1. rewrite (sw_line A B (c :: line) rest HA) by (cbn [nlfree forallb]; rewrite Hc; exact HL).
    rewrite (IH HL). split.
    + intros [[E S]|[[(x & E) S]|H]].
      * left. split; [exists []; rewrite E; reflexivity | exact S].
      * left. split; [exists (c :: x); rewrite E; reflexivity | exact S].
      * right. exact H.
    + intros [[(x & E) S]|H]; [|right; right; exact H].
      destruct x as [|c' x]; [left; split; [exact E | exact S]|].
      right. left. injection E as _ E. split; [exists x; exact E | exact S].
Qed.

Lemma join_cons l L : join_lines (l :: L) = l ++ nl :: join_lines L.
Proof. unfold join_lines. cbn [flat_map]. rewrite <- app_assoc. reflexivity. Qed.

Lemma occ_cons l L :
  nlfree l = true -> (Occ (l :: L) <-> (endsw A l /\ starts_with B (join_lines L) = true) \/ Occ L).
Proof. intro H. unfold Occ. rewrite join_cons. apply occ_line. exact H. Qed.

Lemma occ_nil : ~ Occ [].
Proof. unfold Occ, P. cbn. destruct A; cbn; discriminate. Qed.

Lemma occ_skip L1 : forall L2,
  (forall l, In l L1 -> nlfree l = true /\ ~ endsw A l) -> (Occ (L1 ++ L2) <-> Occ L2).
Proof.
  induction L1 as [|l L1 IH]; intros L2 H; [reflexivity|]. cbn [app].
  destruct (H l (or_introl eq_refl)) as [Hn He]. rewrite (occ_cons l _ Hn).
  rewrite (IH L2) by (intros x Hx; apply H; right; exact Hx). split; [intros [[E _]|O]; [contradiction | exact O] | intro O; right; exact O].
Qed.

Lemma endsw_rev l : endsw A l -> starts_with (rev A) (rev l) = true.
Proof.
  intros (x & ->). rewrite rev_app_distr. rewrite <- (app_nil_r (rev A)) at 1.
  rewrite starts_with_app. reflexivity.
Qed.
End Occ.

(* ---- the status text of pf ---- *)
Definition pA : bytes := bs "INFO:".
Definition pB : bytes := bs "Status: Disabled".
Definition dis_parse (p : pfstate) : bool :=
  is_infix (bs "INFO:" ++ ["010"%char] ++ bs "Status: Disabled") (join_lines (pf_status_lines p)).

Definition calls_ok (cl : list (bool * tok)) : bool := forallb (fun c : bool * tok => nlfree (snd c)) cl.

Lemma not_endsw_last (a b : ascii) A l : a <> b -> ~ endsw (A ++ [a]) (l ++ [b]).
Proof. intros Hne (x & E). rewrite app_assoc in E. apply app_inj_tail in E as [_ E]. congruence. Qed.

Lemma dis_parse_exact p : calls_ok (pf_calls p) = true -> dis_parse p = negb (pf_enabled p).
Proof.
  intro Hc. unfold dis_parse. rewrite is_infix_infx.
  change (bs "INFO:" ++ ["010"%char] ++ bs "Status: Disabled") with (pA ++ nl :: pB).
  set (st := if pf_enabled p then bs "Status: Enabled for 0 days 00:00:01           Debug: Urgent"
             else bs "Status: Disabled for 0 days 00:00:01          Debug: Urgent").
  set (rd := map (fun c : bool * tok => bs "rdr-anchor """ ++ snd c ++ bs """ all") (filter (fun c : bool * tok => fst c) (pf_calls p))).
  set (an := map (fun c : bool * tok => bs "anchor """ ++ snd c ++ bs """ all") (filter (fun c : bool * tok => negb (fst c)) (pf_calls p))).
  assert (EL : pf_status_lines p = ([bs "TRANSLATION RULES:"] ++ rd ++ [[]; bs "FILTER RULES:"] ++ an ++ [[]]) ++ [pA; st]).
  { unfold pf_status_lines. fold rd an st. rewrite <- !app_assoc. reflexivity. }
  rewrite EL.
  assert (HpB : pB <> []) by discriminate.
  assert (Hsk : forall l, In l ([bs "TRANSLATION RULES:"] ++ rd ++ [[]; bs "FILTER RULES:"] ++ an ++ [[]]) ->
                          nlfree l = true /\ ~ endsw pA l).
  { assert (Hfix : forall l, nlfree l = true -> starts_with (rev pA) (rev l) = false -> nlfree l = true /\ ~ endsw pA l).
    { intros l H1 H2. split; [exact H1|]. intro E. apply endsw_rev in E. congruence. }
    assert (Hcall : forall pre c, In c (pf_calls p) -> nlfree pre = true ->
                                  nlfree (pre ++ snd c ++ bs """ all") = true /\ ~ endsw pA (pre ++ snd c ++ bs """ all")).
    { intros pre c Hin Hpre. unfold calls_ok in Hc. rewrite forallb_forall in Hc. split.
      - rewrite !nlfree_app, Hpre, (Hc c Hin). reflexivity.
      - change (bs """ all") with (bs """ al" ++ ["l"%char]). rewrite !app_assoc.
        change pA with (bs "INFO" ++ [":"%char]). apply not_endsw_last. discriminate. }
    intros l Hin. rewrite !in_app_iff in Hin. destruct Hin as [Hin|[Hin|[Hin|[Hin|Hin]]]].
    - destruct Hin as [<-|[]]. apply Hfix; reflexivity.
    - unfold rd in Hin. apply in_map_iff in Hin as (c & <- & Hc'). apply filter_In in Hc' as [Hc' _].
      apply (Hcall (bs "rdr-anchor """) c Hc'). reflexivity.
    - destruct Hin as [<-|[<-|[]]]; apply Hfix; reflexivity.
    - unfold an in Hin. apply in_map_iff in Hin as (c & <- & Hc'). apply filter_In in Hc' as [Hc' _].
      apply (Hcall (bs "anchor """) c Hc'). reflexivity.
    - destruct Hin as [<-|[]]. apply Hfix; reflexivity. }
  pose proof (occ_skip pA pB eq_refl _ [pA; st] Hsk) as O1.
  assert (Hst : nlfree st = true) by (unfold st; destruct (pf_enabled p); reflexivity).
  pose proof (occ_cons pA pB eq_refl pA [st] eq_refl) as O2.
  pose proof (occ_cons pA pB eq_refl st [] Hst) as O3.
  unfold Occ in *.
  destruct (pf_enabled p) eqn:En; cbn [negb].
  - destruct (infx (pA ++ nl :: pB) (join_lines (([bs "TRANSLATION RULES:"] ++ rd ++ [[]; bs "FILTER RULES:"] ++ an ++ [[]]) ++ [pA; st]))) eqn:X; [|reflexivity].
    exfalso. apply O1 in X. apply O2 in X. destruct X as [[_ S]|X].
    + unfold st in S. vm_compute in S. discriminate.
    + apply O3 in X. destruct X as [[_ S]|X]; [vm_compute in S; discriminate | exact (occ_nil pA pB eq_refl X)].
  - apply O1. apply O2. left. split; [exists []; reflexivity|]. unfold st. vm_compute. reflexivity.
Qed.

(* ---- one family's set-up / tear-down on the pf state, fault-free ---- *)
Definition with_pf (s : kstate) (p : pfstate) : kstate :=
  mkK (k_v6nat s) (k_v6mangle s) (k_v4nat s) (k_v4mangle s) (k_nft s) p.

Definition skiptext (os : pfos) : bytes :=
  match os with OpenBSD => bs "match on lo" ++ ["010"%char] | _ => bs "pass on lo" ++ ["010"%char] end.
Definition is_freebsd (os : pfos) : bool := match os with FreeBSD => true | _ => false end.

Record SetupSpec (os : pfos) (a : tok) (text : bytes) (py : pyctx) (p : pfstate) (py' : pyctx) (p' : pfstate) : Prop := mkSS {
  ss_loaded : pf_loaded p' = true;
  ss_anchors : pf_anchors p' = anchor_set a text (pf_anchors p);
  ss_main : (pf_main p', pf_skip_lo p') =
            if negb (is_freebsd os) && pf_skip_lo p then (pf_main p ++ [skiptext os], false) else (pf_main p, pf_skip_lo p);
  ss_calls : calls_ok (pf_calls p') = true;
  ss_en : match os with
          | Darwin => pf_on p' = pf_on p /\ pf_refs p' = pf_refs p ++ [dec (pf_next p)] /\ pf_next p' = N.succ (pf_next p) /\
                      py_tokens py' = py_tokens py ++ [dec (pf_next p)] /\ py_started py' = py_started py
          | _ => pf_refs p' = pf_refs p /\ pf_next p' = pf_next p /\ py_tokens py' = py_tokens py /\
                 if pf_enabled p then pf_on p' = pf_on p /\ py_started py' = py_started py
                 else pf_on p' = true /\ py_started py' = Z.succ (py_started py)
          end;
  ss_pyl : py_loaded py' = py_loaded py
}.

Lemma skip_yes : is_infix (bs "skip") (join_lines [bs "lo0 (skip)"]) = true.
Proof. vm_compute. reflexivity. Qed.
Lemma skip_no : is_infix (bs "skip") (join_lines [bs "lo0"]) = false.
Proof. vm_compute. reflexivity. Qed.

Lemma calls_ok_app a b : calls_ok (a ++ b) = calls_ok a && calls_ok b.
Proof. unfold calls_ok. apply forallb_app. Qed.

Lemma pf_setup_nf os f port body py n s :
  pf_loaded (k_pf s) = true -> calls_ok (pf_calls (k_pf s)) = true -> nlfree (pf_anchor f port) = true ->
  exists py' n' p' ev,
    pf_setup no_faults os f port body py n s = (true, py', n', with_pf s p', ev) /\
    SetupSpec os (pf_anchor f port) (match body with (_, [x]) :: _ => x | _ => [] end) py (k_pf s) py' p'.
Proof.
  intros Hl Hc Ha. destruct s as [t1 t2 t3 t4 nf p]. destruct p as [ld on refs nx sk mn cl an].
  cbn [k_pf pf_loaded pf_calls] in Hl, Hc. subst ld.
  unfold pf_setup, pf_do, pf_ioctl_add, issue, no_faults.
  destruct os; destruct sk; destruct on; destruct refs as [|r0 refs].
  all: cbn -[is_infix join_lines pf_status_lines dec anchor_set Z.succ N.succ].
  all: rewrite ?skip_yes, ?skip_no.
  all: cbn -[is_infix join_lines pf_status_lines dec anchor_set Z.succ N.succ].
  all: repeat (match goal with
               | |- context [is_infix ?a (join_lines (pf_status_lines ?P))] =>
                   first [ change (is_infix a (join_lines (pf_status_lines P))) with (dis_parse P);
                           rewrite (dis_parse_exact P) by (cbn [pf_calls]; rewrite ?calls_ok_app, ?Hc; cbn [calls_ok forallb snd andb]; rewrite ?Ha; reflexivity)
                         | destruct (is_infix a (join_lines (pf_status_lines P))) ]
               end; cbn -[is_infix join_lines pf_status_lines dec anchor_set Z.succ N.succ]).
  all: do 4 eexists; (split; [unfold with_pf; cbn [k_v6nat k_v6mangle k_v4nat k_v4mangle k_nft]; reflexivity|]).
  all: constructor; cbn -[dec anchor_set Z.succ N.succ]; try reflexivity.
  all: rewrite ?calls_ok_app, ?Hc; cbn [calls_ok forallb snd andb]; rewrite ?Ha; try reflexivity.
  all: try first [exact Hc | repeat split; reflexivity].
  Show.
Abort.
