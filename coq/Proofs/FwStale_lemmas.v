(* Proofs/FwStale_lemmas.v — proofs for Model/FwStale.v (C03: set-up on a packet
   filter that already holds the session's own objects). *)
From Coq Require Import List NArith ZArith Ascii Bool Lia ZifyBool.
From SV Require Import Lib.Bytes Model.FwRules Model.FwWalk Model.FwStale Proofs.FwRules_lemmas.
Import ListNotations.
Local Open Scope N_scope.

(* ------------------------------------------------------------ nft rule chain *)
(* whatever the regular chain held, after the set-up it holds the rules of this plan *)
Lemma nft_setup_body_on pl f body0 : nft_chain_of (nft_setup pl f) body0 = nft_body pl f.
Proof. rewrite <- (nft_setup_body pl f). unfold nft_setup. cbn [app nft_chain_of]. reflexivity. Qed.

(* ------------------------------------------------------- repeated hook jumps *)
(* rules that neither change the mark nor descend: what nft.py puts into its chain *)
Definition plain (r : srule) : Prop :=
  match sr_tgt r with TSetMark _ | TJump _ => False | _ => True end.

Lemma walk_plain_mark d env p rs :
  (forall r, In r rs -> plain r) -> forall m m', walk d env p rs m = OFall m' -> m' = m.
Proof.
  induction rs as [|r rs IH]; intros Hpl m m'.
  - rewrite walk_nil. intros [= <-]. reflexivity.
  - rewrite walk_cons. pose proof (Hpl r (or_introl eq_refl)) as Hr. unfold plain in Hr.
    assert (IH' := IH (fun r' Hr' => Hpl r' (or_intror Hr')) m m').
    destruct (rule_matches p m r); [|exact IH'].
    destruct (sr_tgt r); try contradiction; try discriminate; try exact IH'.
    intros [= <-]. reflexivity.
Qed.

Lemma find_map_nft_tgt r t : find_map nft_get_tgt r = Some t ->
  match t with TReturn | TRedirect _ => True | _ => False end.
Proof.
  induction r as [|it r IH]; [discriminate|]. cbn [find_map].
  destruct it; cbn [nft_get_tgt]; try exact IH; intros [= <-]; exact I.
Qed.

Lemma sem_nft_plain r : plain (sem_nft r).
Proof.
  unfold plain, sem_nft. cbn [sr_tgt].
  destruct (find_map nft_get_tgt r) as [t|] eqn:E; [|exact I].
  apply find_map_nft_tgt in E. destruct t; try contradiction; exact I.
Qed.

Definition jump_main : srule := mkSrule [] (TJump CMain).

(* k+1 jumps into a chain of plain rules decide like one jump *)
Lemma walk_repeat_jump d env p k :
  (forall r, In r (env CMain) -> plain r) ->
  walk (S d) env p (repeat jump_main (S k)) 0 = walk (S d) env p [jump_main] 0.
Proof.
  intros Hpl. induction k as [|k IH]; [reflexivity|].
  change (repeat jump_main (S (S k))) with (jump_main :: repeat jump_main (S k)).
  rewrite walk_cons. rewrite (walk_cons (S d) env p jump_main []).
  cbn [rule_matches jump_main sr_conds sr_tgt forallb].
  destruct (walk d env p (env CMain) 0) as [m'| | | |] eqn:E; try reflexivity.
  rewrite (walk_plain_mark _ _ _ _ Hpl _ _ E), IH.
  rewrite (walk_cons (S d) env p jump_main []).
  cbn [rule_matches jump_main sr_conds sr_tgt forallb]. rewrite E.
  rewrite (walk_plain_mark _ _ _ _ Hpl _ _ E). reflexivity.
Qed.

(* ------------------------------------------------------------------ one table *)
Theorem nft_table_stale pl f s p :
  nft_table_outcome_on s (nft_setup pl f) p = nft_table_outcome (nft_setup pl f) p.
Proof.
  unfold nft_table_outcome_on, nft_table_outcome, DEPTH.
  rewrite nft_setup_jumps, nft_setup_body_on, nft_setup_body, Nat.add_1_r.
  cbn [repeat]. apply (walk_repeat_jump 2). cbn beta.
  intros r Hr. apply in_map_iff in Hr. destruct Hr as (x & <- & _). apply sem_nft_plain.
Qed.

Lemma nft_table_nothing cmds p : nft_table_outcome_on nft_nothing cmds p = nft_table_outcome cmds p.
Proof. unfold nft_table_outcome_on, nft_table_outcome. destruct (p_origin p); reflexivity. Qed.

Lemma nft_cmds_stale pl f s p :
  (fam_active pl f = false -> s = nft_nothing) ->
  nft_table_outcome_on s (nft_cmds pl f) p = nft_table_outcome (nft_cmds pl f) p.
Proof.
  intros H. unfold nft_cmds. destruct (fam_active pl f).
  - apply nft_table_stale.
  - rewrite (H eq_refl). apply nft_table_nothing.
Qed.

(* both tables *)
Theorem nft_verdict_stale pl s6 s4 p :
  (fam_active pl V6 = false -> s6 = nft_nothing) ->
  (fam_active pl V4 = false -> s4 = nft_nothing) ->
  nft_verdict_on s6 s4 (nft_cmds pl V6) (nft_cmds pl V4) p = nft_verdict pl p.
Proof.
  intros H6 H4. unfold nft_verdict_on, nft_verdict, nft_verdict_of.
  rewrite (nft_cmds_stale pl V6 s6 p H6), (nft_cmds_stale pl V4 s4 p H4). reflexivity.
Qed.

(* --------------------------------------------------------- iptables own chains *)
(* nat.py:36-37, tproxy.py:145-150: `-N c` + `-F c`: whatever an own chain held
   before, after the set-up it holds the rules of this plan only.  (That `-N`
   succeeds, i.e. that restore_firewall has removed the chain, and that the old
   hook rules are gone, is the life cycle of C04.) *)
Lemma nat_own_chain_emptied pl f acc :
  rules_of (nat_setup pl f) TNat CMain acc = rules_of (nat_setup pl f) TNat CMain [].
Proof. unfold nat_setup. cbn [app rules_of tc_eqb table_eqb chain_eqb andb]. reflexivity. Qed.

Lemma tproxy_own_chain_emptied pl f c acc :
  c = CMark \/ c = CTproxy \/ c = CDivert ->
  rules_of (tproxy_setup pl f) TMangle c acc = rules_of (tproxy_setup pl f) TMangle c [].
Proof.
  intros [->|[->| ->]]; unfold tproxy_setup; cbn [app rules_of tc_eqb table_eqb chain_eqb andb]; reflexivity.
Qed.
