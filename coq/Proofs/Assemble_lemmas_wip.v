(* Proofs/Assemble_lemmas.v — proofs about Model/Assemble.v (C18). *)
From Coq Require Import List NArith ZArith Ascii Bool Lia ZifyBool Arith.
From Coq Require Import Decimal DecimalN DecimalZ.
From SV Require Import Lib.Bytes Model.Wire Proofs.Wire_lemmas Model.Assemble Gen.Consts.
Import ListNotations.
Local Open Scope N_scope.

(* ------------------------------------------------------------------ *)
(* character classes (256-case computations)                           *)

Ltac all_chars c :=
  destruct c as [[|] [|] [|] [|] [|] [|] [|] [|]]; vm_compute; intros; try reflexivity; try discriminate.

Lemma is_digit_not_ws c : is_digit c = true -> is_ws c = false.
Proof. all_chars c. Qed.

Lemma is_digit_not_nl c : is_digit c = true -> Ascii.eqb c nl = false.
Proof. all_chars c. Qed.

Lemma is_digit_not_minus c : is_digit c = true -> Ascii.eqb c ch_minus = false.
Proof. all_chars c. Qed.

Lemma is_digit_not_quote c : is_digit c = true -> Ascii.eqb c ch_quote = false.
Proof. all_chars c. Qed.

Lemma plain_not_quote c : plain_char c = true -> Ascii.eqb c ch_quote = false.
Proof. all_chars c. Qed.

Lemma plain_not_nl c : plain_char c = true -> Ascii.eqb c nl = false.
Proof. all_chars c. Qed.

Lemma ident_not_nl c : ident_char c = true -> Ascii.eqb c nl = false.
Proof. all_chars c. Qed.

Lemma ident_not_eq c : ident_char c = true -> Ascii.eqb c ch_eq = false.
Proof. all_chars c. Qed.

Lemma eqb_false_neq c d : Ascii.eqb c d = false -> c <> d.
Proof. apply Ascii.eqb_neq. Qed.

(* ------------------------------------------------------------------ *)
(* decimal                                                             *)

Lemma bytes_uint_uint_bytes u : bytes_uint (uint_bytes u) = Some u.
Proof.
  induction u as [|u IH|u IH|u IH|u IH|u IH|u IH|u IH|u IH|u IH|u IH];
    [reflexivity | cbn [uint_bytes bytes_uint]; rewrite IH; reflexivity ..].
Qed.

Lemma uint_bytes_nil u : uint_bytes u = [] -> u = Decimal.Nil.
Proof. destruct u; cbn [uint_bytes]; intros H; try discriminate; reflexivity. Qed.

Lemma uint_bytes_digits u : Forall (fun c => is_digit c = true) (uint_bytes u).
Proof.
  induction u as [|u IH|u IH|u IH|u IH|u IH|u IH|u IH|u IH|u IH|u IH];
    cbn [uint_bytes]; constructor; try assumption; reflexivity.
Qed.

Lemma to_uint_nonnil n : N.to_uint n <> Decimal.Nil.
Proof.
  intros H. pose proof (DecimalN.Unsigned.of_to n) as E. rewrite H in E.
  cbn in E. subst n. cbn in H. discriminate.
Qed.

Lemma dec_nonnil n : dec n <> [].
Proof. unfold dec. intros H. apply uint_bytes_nil in H. exact (to_uint_nonnil n H). Qed.

Lemma dec_digits n : Forall (fun c => is_digit c = true) (dec n).
Proof. apply uint_bytes_digits. Qed.

Lemma undec_dec n : undec (dec n) = Some n.
Proof.
  unfold undec. pose proof (dec_nonnil n) as Hn.
  destruct (dec n) as [|c tl] eqn:E; [congruence|].
  rewrite <- E. unfold dec. rewrite bytes_uint_uint_bytes.
  rewrite DecimalN.Unsigned.of_to. reflexivity.
Qed.

Lemma zdec_cases z :
  (exists u, Z.to_int z = Decimal.Pos u /\ u <> Decimal.Nil) \/
  (exists u, Z.to_int z = Decimal.Neg u /\ u <> Decimal.Nil).
Proof.
  pose proof (DecimalZ.of_to z) as E.
  destruct (Z.to_int z) as [u|u] eqn:Hz; [left|right]; exists u; (split; [reflexivity|]);
    intros ->; cbn in E; subst z; cbn in Hz; discriminate.
Qed.

Lemma zdec_head z : exists c tl, zdec z = c :: tl /\ (c = ch_minus \/ is_digit c = true).
Proof.
  unfold zdec. destruct (zdec_cases z) as [[u [-> Hu]]|[u [-> Hu]]].
  - pose proof (uint_bytes_digits u) as Hd.
    destruct (uint_bytes u) as [|c tl] eqn:E; [apply uint_bytes_nil in E; contradiction|].
    exists c, tl. split; [reflexivity|]. right. exact (Forall_inv Hd).
  - exists ch_minus, (uint_bytes u). split; [reflexivity|]. left; reflexivity.
Qed.

Lemma zundec_zdec z : zundec (zdec z) = Some z.
Proof.
  unfold zdec. pose proof (DecimalZ.of_to z) as E.
  destruct (zdec_cases z) as [[u [Hz Hu]]|[u [Hz Hu]]]; rewrite Hz in *.
  - pose proof (uint_bytes_digits u) as Hd.
    destruct (uint_bytes u) as [|c tl] eqn:Eu; [apply uint_bytes_nil in Eu; contradiction|].
    unfold zundec. pose proof (Forall_inv Hd) as Hc. cbv beta in Hc.
    rewrite (is_digit_not_minus c Hc). rewrite <- Eu, bytes_uint_uint_bytes. rewrite E. reflexivity.
  - unfold zundec. change (Ascii.eqb ch_minus ch_minus) with true. cbv iota.
    destruct (uint_bytes u) as [|c tl] eqn:Eu; [apply uint_bytes_nil in Eu; contradiction|].
    rewrite <- Eu, bytes_uint_uint_bytes. rewrite E. reflexivity.
Qed.

Lemma zdec_no_nl z : Forall (fun c => Ascii.eqb c nl = false) (zdec z).
Proof.
  unfold zdec. destruct (Z.to_int z) as [u|u].
  - eapply Forall_impl; [|apply uint_bytes_digits]. intros a; apply is_digit_not_nl.
  - constructor; [reflexivity|].
    eapply Forall_impl; [|apply uint_bytes_digits]. intros a; apply is_digit_not_nl.
Qed.

(* ------------------------------------------------------------------ *)
(* strip                                                               *)

Lemma lstrip_cases b : lstrip b = b \/ (length (lstrip b) < length b)%nat.
Proof.
  induction b as [|c tl IH]; [left; reflexivity|].
  cbn [lstrip]. destruct (is_ws c) eqn:Hc; [|left; reflexivity].
  right. cbn [length]. destruct IH as [-> | IH]; lia.
Qed.

Lemma rstrip_len b : (length (rstrip b) <= length b)%nat.
Proof.
  induction b as [|c tl IH]; [cbn; lia|].
  cbn [rstrip]. destruct (rstrip tl) as [|r rs] eqn:Hr.
  - destruct (is_ws c); cbn [length]; lia.
  - cbn [length] in *. lia.
Qed.

Lemma strip_stable_parts b : strip b = b -> lstrip b = b /\ rstrip b = b.
Proof.
  unfold strip. intros H.
  destruct (lstrip_cases b) as [E | Hlt].
  - rewrite E in H. split; assumption.
  - exfalso. pose proof (rstrip_len (lstrip b)) as Hr. rewrite H in Hr. lia.
Qed.

Lemma rstrip_app_ws a w : is_ws w = true -> rstrip (a ++ [w]) = rstrip a.
Proof.
  intros Hw. induction a as [|c tl IH].
  - cbn. rewrite Hw. reflexivity.
  - change (rstrip ((c :: tl) ++ [w])) with
      (match rstrip (tl ++ [w]) with [] => if is_ws c then [] else [c] | r => c :: r end).
    rewrite IH. reflexivity.
Qed.

Lemma lstrip_head_nonws c tl : lstrip (c :: tl) = c :: tl -> is_ws c = false.
Proof.
  cbn [lstrip]. destruct (is_ws c) eqn:Hc; [|reflexivity].
  intros H. exfalso.
  destruct (lstrip_cases tl) as [E | Hlt].
  - rewrite E in H. apply (f_equal (@length ascii)) in H. cbn [length] in H. lia.
  - rewrite H in Hlt. cbn [length] in Hlt. lia.
Qed.

Lemma strip_line name : strip name = name -> name <> [] -> strip (name ++ [nl]) = name.
Proof.
  intros Hs Hn. destruct (strip_stable_parts name Hs) as [Hl Hr].
  destruct name as [|c tl]; [congruence|].
  pose proof (lstrip_head_nonws c tl Hl) as Hc.
  unfold strip. cbn [app lstrip]. rewrite Hc.
  change (c :: tl ++ [nl]) with ((c :: tl) ++ [nl]).
  rewrite rstrip_app_ws by reflexivity. exact Hr.
Qed.

Lemma rstrip_all_nonws b : Forall (fun c => is_ws c = false) b -> rstrip b = b.
Proof.
  induction 1 as [|c tl Hc _ IH]; [reflexivity|].
  cbn [rstrip]. rewrite IH. destruct tl; [rewrite Hc|]; reflexivity.
Qed.

Lemma strip_all_nonws b : Forall (fun c => is_ws c = false) b -> strip b = b.
Proof.
  intros H. unfold strip.
  assert (lstrip b = b) as ->.
  { destruct H as [|c tl Hc _]; [reflexivity|]. cbn [lstrip]. rewrite Hc. reflexivity. }
  apply rstrip_all_nonws; assumption.
Qed.

Lemma dec_nonws n : Forall (fun c => is_ws c = false) (dec n).
Proof. eapply Forall_impl; [|apply dec_digits]. intros a; apply is_digit_not_ws. Qed.

Lemma parse_int_line_dec n : parse_int_line (dec n ++ [nl]) = Some n.
Proof.
  unfold parse_int_line. rewrite strip_line.
  - apply undec_dec.
  - apply strip_all_nonws, dec_nonws.
  - apply dec_nonnil.
Qed.

(* ------------------------------------------------------------------ *)
(* lines                                                               *)

Lemma split_line_app a b :
  split_line (a ++ b) =
  match split_line a with
  | Some (l, r) => Some (l, r ++ b)
  | None => match split_line b with Some (l, r) => Some (a ++ l, r) | None => None end
  end.
Proof.
  induction a as [|c tl IH].
  - cbn. destruct (split_line b) as [[l r]|]; reflexivity.
  - cbn [app split_line]. destruct (Ascii.eqb c nl); [reflexivity|].
    rewrite IH. destruct (split_line tl) as [[l r]|]; [reflexivity|].
    destruct (split_line b) as [[l r]|]; reflexivity.
Qed.

Lemma split_line_sound s l r : split_line s = Some (l, r) -> s = l ++ r.
Proof.
  revert l r. induction s as [|c tl IH]; intros l r; cbn [split_line]; [discriminate|].
  destruct (Ascii.eqb c nl).
  - intros [= <- <-]. reflexivity.
  - destruct (split_line tl) as [[l' r']|]; [|discriminate].
    intros [= <- <-]. cbn [app]. f_equal. apply IH. reflexivity.
Qed.

Definition nl_free (b : bytes) : Prop := Forall (fun c => Ascii.eqb c nl = false) b.

Lemma split_line_nl_free l rest : nl_free l -> split_line (l ++ nl :: rest) = Some (l ++ [nl], rest).
Proof.
  induction 1 as [|c tl Hc _ IH].
  - reflexivity.
  - cbn [app split_line]. rewrite Hc, IH. reflexivity.
Qed.

Lemma line_split_nl_free l rest : nl_free l -> line_split (l ++ nl :: rest) = (l ++ [nl], rest).
Proof. intros H. unfold line_split. rewrite split_line_nl_free by assumption. reflexivity. Qed.

Lemma line_split_app s : fst (line_split s) ++ snd (line_split s) = s.
Proof.
  unfold line_split. destruct (split_line s) as [[l r]|] eqn:E.
  - symmetry. apply split_line_sound. exact E.
  - cbn. apply app_nil_r.
Qed.

(* ------------------------------------------------------------------ *)
(* the buffered reader under any cutting of the stream                 *)

Lemma pull_spec chunks : forall need,
  fst (pull need chunks) ++ concat (snd (pull need chunks)) = concat chunks /\
  (lenN (fst (pull need chunks)) < need -> snd (pull need chunks) = []).
Proof.
  induction chunks as [|c cs IH]; intros need.
  - cbn. split; reflexivity.
  - cbn [pull]. destruct (need =? 0) eqn:Hz.
    + cbn [fst snd]. split; [reflexivity|]. rewrite lenN_nil. lia.
    + specialize (IH (need - lenN c)). destruct (pull (need - lenN c) cs) as [d r].
      cbn [fst snd] in *. destruct IH as [IH1 IH2]. split.
      * cbn [concat]. rewrite <- IH1. apply app_assoc_reverse.
      * rewrite lenN_app. intros H. apply IH2. lia.
Qed.

Lemma rd_read_spec n r :
  fst (rd_read n r) = takeN n (stream_of r) /\
  stream_of (snd (rd_read n r)) = dropN n (stream_of r).
Proof.
  unfold rd_read, stream_of. destruct r as [buf chunks]. cbn [r_buf r_chunks].
  destruct (n <=? lenN buf) eqn:Hle.
  - cbn [fst snd r_buf r_chunks]. rewrite takeN_app_le, dropN_app_le by lia. split; reflexivity.
  - pose proof (pull_spec chunks (n - lenN buf)) as [H1 H2].
    destruct (pull (n - lenN buf) chunks) as [d cs]. cbn [fst snd r_buf r_chunks] in *.
    rewrite <- H1, app_assoc.
    destruct (n <=? lenN (buf ++ d)) eqn:Hle2.
    + rewrite takeN_app_le, dropN_app_le by lia. split; reflexivity.
    + rewrite H2 by (rewrite lenN_app in Hle2; lia). cbn [concat]. rewrite !app_nil_r. split; reflexivity.
Qed.

Lemma pull_line_spec chunks :
  fst (pull_line chunks) ++ concat (snd (pull_line chunks)) = concat chunks /\
  (split_line (fst (pull_line chunks)) = None -> snd (pull_line chunks) = []).
Proof.
  induction chunks as [|c cs IH].
  - cbn. split; reflexivity.
  - cbn [pull_line]. destruct (split_line c) as [[l0 r0]|] eqn:Hc.
    + cbn [fst snd]. split; [reflexivity|]. rewrite Hc. discriminate.
    + destruct (pull_line cs) as [d r]. cbn [fst snd] in *. destruct IH as [IH1 IH2]. split.
      * cbn [concat]. rewrite <- IH1. apply app_assoc_reverse.
      * rewrite split_line_app, Hc. destruct (split_line d) as [[l1 r1]|]; [discriminate|].
        intros _. apply IH2. reflexivity.
Qed.

Lemma rd_readline_spec r :
  fst (rd_readline r) = fst (line_split (stream_of r)) /\
  stream_of (snd (rd_readline r)) = snd (line_split (stream_of r)).
Proof.
  unfold rd_readline, stream_of, line_split. destruct r as [buf chunks]. cbn [r_buf r_chunks].
  rewrite split_line_app.
  destruct (split_line buf) as [[l rest]|] eqn:Hb.
  - cbn [fst snd r_buf r_chunks]. split; reflexivity.
  - pose proof (pull_line_spec chunks) as [H1 H2].
    destruct (pull_line chunks) as [d cs]. cbn [fst snd] in *.
    rewrite <- H1.
    pose proof (split_line_app buf d) as Hbd. rewrite Hb in Hbd.
    pose proof (split_line_app d (concat cs)) as Hdc.
    destruct (split_line d) as [[l1 r1]|] eqn:Hd.
    + rewrite Hdc, Hbd. cbn [fst snd r_buf r_chunks]. split; reflexivity.
    + rewrite H2 by reflexivity. rewrite H2 in Hdc by reflexivity. cbn [concat] in *.
      rewrite Hdc, Hbd. rewrite app_nil_r in Hdc. cbn [fst snd r_buf r_chunks concat].
      rewrite !app_nil_r. split; reflexivity.
Qed.
