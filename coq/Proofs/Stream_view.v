(* Proofs/Stream_view.v — the abstract per-flow, per-direction view of the stream
   core and its invariant.  A view collects, for one flow incarnation and one
   direction (reader end -> writer end), everything that determines what the
   writer end's socket receives:

     A  bytes read so far from the reader end's socket
     X  the reader end's SockWrapper.buf
     P  this flow's frames still travelling from the reader end to the writer end
     Y  the writer end's MuxWrapper.buf
     D  bytes accepted so far by the writer end's socket

   The invariant says the pipeline D ++ Y ++ data(P) ++ X is exactly A as long as
   the writer socket has not been shut down ("frozen"), that D is always a prefix
   of A, and that an orderly shutdown happens only after everything was delivered.
   This file is pure list reasoning; Stream_flow.v shows that every micro-step of
   the executable model induces one of the transitions below on every view. *)
From Coq Require Import List NArith Ascii Bool Lia.
From SV Require Import Lib.Bytes Model.Wire Model.Stream
  Proofs.Stream_basic Proofs.Stream_wrap.
Import ListNotations.
Local Open Scope N_scope.

Definition is_eof (f : sframe) : bool := match sf_cmd f with CEof => true | _ => false end.

(* payload of DATA frames that follow an EOF frame *)
Fixpoint dae (seen : bool) (l : list sframe) : bytes :=
  match l with
  | [] => []
  | f :: t =>
    match sf_cmd f with
    | CEof => dae true t
    | CData => (if seen then sf_data f else []) ++ dae seen t
    | _ => dae seen t
    end
  end.

Definition has_eof (l : list sframe) : bool := existsb is_eof l.
Definition no_eof (l : list sframe) : Prop := forall f, In f l -> sf_cmd f <> CEof.

Lemma dae_true l : dae true l = data_cat l.
Proof.
  unfold data_cat. induction l as [|f t IH]; [reflexivity|].
  cbn [dae filter]. unfold is_data. destruct (sf_cmd f); cbn [map concat]; rewrite ?IH; reflexivity.
Qed.

Lemma has_eof_app a b : has_eof (a ++ b) = has_eof a || has_eof b.
Proof. unfold has_eof. apply existsb_app. Qed.

Lemma no_eof_has l : no_eof l -> has_eof l = false.
Proof.
  unfold no_eof, has_eof. induction l as [|f t IH]; intros H; [reflexivity|].
  cbn [existsb]. rewrite IH by (intros g Hg; apply H; right; exact Hg).
  unfold is_eof. specialize (H f (or_introl eq_refl)). destruct (sf_cmd f); try reflexivity. congruence.
Qed.

Lemma dae_app s a b : dae s (a ++ b) = dae s a ++ dae (s || has_eof a) b.
Proof.
  revert s. induction a as [|f t IH]; intros s; cbn [app dae has_eof existsb].
  - rewrite orb_false_r. reflexivity.
  - fold (has_eof t). unfold is_eof at 1. destruct (sf_cmd f); rewrite IH; cbn [orb];
      rewrite ?orb_true_r, ?orb_false_r, ?app_assoc; try reflexivity.
Qed.

Lemma dae_false_nil_of_data_nil l : data_cat l = [] -> forall s, dae s l = [].
Proof.
  unfold data_cat. induction l as [|f t IH]; intros H s; [reflexivity|].
  cbn [dae]. cbn [filter] in H. unfold is_data in H. destruct (sf_cmd f); cbn [map concat] in H.
  all: try (apply IH; exact H).
  apply app_eq_nil in H. destruct H as [H1 H2]. rewrite H1, (IH H2). destruct s; reflexivity.
Qed.

Lemma data_cat_cons_data f t : sf_cmd f = CData -> data_cat (f :: t) = sf_data f ++ data_cat t.
Proof. intros H. unfold data_cat. cbn [filter]. unfold is_data. rewrite H. reflexivity. Qed.

Lemma data_cat_cons_other f t : sf_cmd f <> CData -> data_cat (f :: t) = data_cat t.
Proof. intros H. unfold data_cat. cbn [filter]. unfold is_data. destruct (sf_cmd f); try reflexivity. congruence. Qed.

Record view := mkView {
  vA : bytes; vX : list bytes; vP : list sframe; vY : list bytes; vD : bytes;
  vrsr : bool;      (* reader end: socket wrapper shut_read             *)
  vrmsw : bool;     (* reader end: mux wrapper shut_write (EOF sent / STOP received) *)
  vwmsr : bool;     (* writer end: mux wrapper shut_read (EOF received / STOP sent)  *)
  vfz : bool;       (* writer end: socket shut_write, i.e. shutdown(SHUT_WR) issued  *)
  vstop : bool;     (* a STOP_SENDING of this flow travels from the writer end back  *)
  vwfault : bool    (* writer end: some socket call of this flow end failed          *)
}.

Record Vinv (v : view) : Prop := {
  vi_pipe : vfz v = false -> vD v ++ flat (vY v) ++ data_cat (vP v) ++ flat (vX v) = vA v;
  vi_prefix : prefix (vD v) (vA v);
  vi_msw : vrmsw v = true -> vfz v = true \/ (flat (vX v) = [] /\ vrsr v = true);
  vi_stop : vstop v = true -> vfz v = true;
  vi_msr : vwmsr v = true -> vfz v = true \/ (data_cat (vP v) = [] /\ flat (vX v) = [] /\ vrsr v = true);
  vi_dae : vfz v = false -> dae false (vP v) = [];
  vi_eof : has_eof (vP v) = true -> vrmsw v = true;
  (* end-of-stream after all data: an orderly shutdown means everything read was delivered *)
  vi_clean : vfz v = true -> vwfault v = true \/ (vD v = vA v /\ vrsr v = true);
  (* how the shut flags of the two ends follow each other (used for "the peer frees an
     identifier before it sees its re-use") *)
  vi_n1 : vrmsw v = true -> vwmsr v = true \/ has_eof (vP v) = true;
  vi_n2 : vstop v = true -> vwmsr v = true;
  vi_n3 : vwmsr v = true -> vrmsw v = true \/ vstop v = true
}.

Inductive vstep (v : view) : view -> Prop :=
| VS_same : vstep v v
| VS_reader r new X' rsr' rmsw' :
    (vrsr v = true -> r = []) ->
    (vrsr v = true -> rsr' = true) -> (vrmsw v = true -> rmsw' = true) ->
    (flat (vX v) ++ r = data_cat new ++ flat X' \/
     (vrmsw v = true /\ flat X' = [] /\ rsr' = true /\ exists dropped, flat (vX v) ++ r = data_cat new ++ dropped)) ->
    (vrmsw v = false -> rmsw' = true ->
       flat X' = [] /\ rsr' = true /\
       exists pre post, new = pre ++ post /\ has_eof pre = true /\ data_cat post = [] /\
                        flat (vX v) ++ r = data_cat pre /\ dae false pre = []) ->
    (rmsw' = vrmsw v -> no_eof new) ->
    vstep v (mkView (vA v ++ r) X' (vP v ++ new) (vY v) (vD v) rsr' rmsw' (vwmsr v) (vfz v) (vstop v) (vwfault v))
| VS_stop_rcvd stop' :
    vstop v = true -> (stop' = true -> vstop v = true) ->
    vstep v (mkView (vA v) (vX v) (vP v) (vY v) (vD v) (vrsr v) true (vwmsr v) (vfz v) stop' (vwfault v))
| VS_stop_gone stop' :
    (stop' = true -> vstop v = true) ->
    (vstop v = true -> stop' = false -> vrmsw v = true) ->
    vstep v (mkView (vA v) (vX v) (vP v) (vY v) (vD v) (vrsr v) (vrmsw v) (vwmsr v) (vfz v) stop' (vwfault v))
| VS_writer d Y' fz' wmsr' stop' wfault' :
    (vfz v = true -> d = []) -> (vfz v = true -> fz' = true) -> (vwmsr v = true -> wmsr' = true) ->
    (vwfault v = true -> wfault' = true) ->
    (flat (vY v) = d ++ flat Y' \/ (fz' = true /\ flat Y' = [] /\ exists dropped, flat (vY v) = d ++ dropped)) ->
    (vwmsr v = false -> wmsr' = true -> fz' = true) ->
    (stop' = true -> vstop v = true \/ fz' = true) ->
    (vfz v = false -> fz' = true -> wfault' = true \/ (vwmsr v = true /\ flat (vY v) = d /\ flat Y' = [])) ->
    (stop' = true -> vstop v = true \/ wmsr' = true) ->
    (vstop v = true -> stop' = true) ->
    (vwmsr v = false -> wmsr' = true -> stop' = true) ->
    vstep v (mkView (vA v) (vX v) (vP v) Y' (vD v ++ d) (vrsr v) (vrmsw v) wmsr' fz' stop' wfault')
| VS_pop_data f P' :
    vP v = f :: P' -> sf_cmd f = CData ->
    vstep v (mkView (vA v) (vX v) P' (vY v ++ [sf_data f]) (vD v) (vrsr v) (vrmsw v) (vwmsr v) (vfz v) (vstop v) (vwfault v))
| VS_pop_drop f P' :
    vP v = f :: P' -> vwmsr v = true ->
    vstep v (mkView (vA v) (vX v) P' (vY v) (vD v) (vrsr v) (vrmsw v) (vwmsr v) (vfz v) (vstop v) (vwfault v))
| VS_pop_eof f P' :
    vP v = f :: P' -> sf_cmd f = CEof ->
    vstep v (mkView (vA v) (vX v) P' (vY v) (vD v) (vrsr v) (vrmsw v) true (vfz v) (vstop v) (vwfault v))
| VS_pop_other f P' :
    vP v = f :: P' -> sf_cmd f <> CData -> sf_cmd f <> CEof ->
    vstep v (mkView (vA v) (vX v) P' (vY v) (vD v) (vrsr v) (vrmsw v) (vwmsr v) (vfz v) (vstop v) (vwfault v)).

Lemma no_eof_dae l : no_eof l -> dae false l = [].
Proof.
  unfold no_eof. induction l as [|f t IH]; intros H; [reflexivity|].
  cbn [dae]. pose proof (H f (or_introl eq_refl)) as Hf.
  rewrite IH by (intros g Hg; apply H; right; exact Hg).
  destruct (sf_cmd f); try reflexivity. congruence.
Qed.

Lemma app_nil_both {A} (a b : list A) : a ++ b = [] -> a = [] /\ b = [].
Proof. apply app_eq_nil. Qed.

Lemma prefix_app_r {A} (p a r : list A) : prefix p a -> prefix p (a ++ r).
Proof. intros [q ->]. exists (q ++ r). apply app_assoc_reverse. Qed.

Lemma has_eof_cons f t : has_eof (f :: t) = is_eof f || has_eof t.
Proof. reflexivity. Qed.

Theorem Vinv_step v v' : Vinv v -> vstep v v' -> Vinv v'.
Proof.
  intros [Hpipe Hpre Hmsw Hstop Hmsr Hdae Heof Hclean Hn1 Hn2 Hn3] Hs.
  destruct Hs as [ | r new X' rsr' rmsw' Hr Hrsr Hrmsw Hcons Hneweof Hnoeof
                   | stop' Hst Hst'
                   | stop' Hst' Hgone
                   | d Y' fz' wmsr' stop' wfault' Hd Hfz Hwm Hwf Hcons Hnewmsr Hst Hshut Hst2 Hst3 Hst4
                   | f P' HP Hc | f P' HP Hw | f P' HP Hc | f P' HP Hc1 Hc2 ].
  - constructor; assumption.
  - (* reader *)
    assert (Hquiet : flat (vX v) = [] -> vrsr v = true -> data_cat new = [] /\ flat X' = []).
    { intros HX Hrs. rewrite HX, (Hr Hrs) in Hcons. cbn [app] in Hcons.
      destruct Hcons as [E|(_ & E1 & _ & dr & E)].
      - symmetry in E. apply app_eq_nil in E. exact E.
      - symmetry in E. apply app_eq_nil in E. destruct E as [E _]. auto. }
    assert (Hn1' : rmsw' = true -> vwmsr v = true \/ has_eof (vP v ++ new) = true).
    { intros Hm. rewrite has_eof_app. destruct (vrmsw v) eqn:Eold.
      - destruct (Hn1 eq_refl) as [C|C]; [left; exact C|right; rewrite C; reflexivity].
      - destruct (Hneweof eq_refl Hm) as (_ & _ & pre & post & -> & He & _). right.
        rewrite has_eof_app, He. cbn. apply orb_true_r. }
    assert (Hn3' : vwmsr v = true -> rmsw' = true \/ vstop v = true).
    { intros Hm. destruct (Hn3 Hm) as [C|C]; [left; apply Hrmsw; exact C|right; exact C]. }
    constructor; cbn [vA vX vP vY vD vrsr vrmsw vwmsr vfz vstop vwfault].
    + intros Hf. specialize (Hpipe Hf). rewrite data_cat_app.
      destruct Hcons as [E|(Em & EX & _ & dr & E)].
      * rewrite <- Hpipe. repeat rewrite <- app_assoc. rewrite E. reflexivity.
      * destruct (Hmsw Em) as [C|[HX Hrs]]; [congruence|].
        destruct (Hquiet HX Hrs) as [Q1 Q2]. rewrite Q1, Q2, (Hr Hrs), !app_nil_r.
        rewrite HX, !app_nil_r in Hpipe. exact Hpipe.
    + apply prefix_app_r. exact Hpre.
    + intros Hm. destruct (vrmsw v) eqn:Eold.
      * destruct (Hmsw eq_refl) as [C|[HX Hrs]]; [left; exact C|right].
        destruct (Hquiet HX Hrs) as [Q1 Q2]. auto.
      * destruct (Hneweof eq_refl Hm) as (Q1 & Q2 & _). right. auto.
    + exact Hstop.
    + intros Hm. destruct (Hmsr Hm) as [C|(Q1 & HX & Hrs)]; [left; exact C|right].
      destruct (Hquiet HX Hrs) as [Q2 Q3]. rewrite data_cat_app, Q1, Q2. auto.
    + intros Hf. rewrite dae_app, (Hdae Hf). cbn [app orb].
      destruct (has_eof (vP v)) eqn:Ee.
      * pose proof (Heof eq_refl) as Em. destruct (Hmsw Em) as [C|[HX Hrs]]; [congruence|].
        destruct (Hquiet HX Hrs) as [Q1 _]. apply dae_false_nil_of_data_nil. exact Q1.
      * destruct (Bool.bool_dec rmsw' (vrmsw v)) as [Eq|Ne].
        -- apply no_eof_dae. apply Hnoeof. exact Eq.
        -- assert (Eold : vrmsw v = false).
           { destruct (vrmsw v) eqn:E; [|reflexivity]. rewrite (Hrmsw eq_refl) in Ne. congruence. }
           assert (Enew : rmsw' = true) by (destruct rmsw'; congruence).
           destruct (Hneweof Eold Enew) as (_ & _ & pre & post & -> & He & Hp & _ & Hdp).
           rewrite dae_app, Hdp, He. cbn [app orb]. rewrite dae_true. exact Hp.
    + rewrite has_eof_app. intros H. apply orb_true_iff in H. destruct H as [H|H].
      * apply Hrmsw. apply Heof. exact H.
      * destruct (Bool.bool_dec rmsw' (vrmsw v)) as [Eq|Ne].
        -- rewrite (no_eof_has _ (Hnoeof Eq)) in H. discriminate.
        -- destruct rmsw'; [reflexivity|]. destruct (vrmsw v) eqn:E; [|congruence].
           specialize (Hrmsw eq_refl). discriminate.
    + intros Hf. destruct (Hclean Hf) as [C|[Q1 Q2]]; [left; exact C|right].
      rewrite (Hr Q2), app_nil_r. auto.
    + exact Hn1'.
    + exact Hn2.
    + exact Hn3'.
  - (* STOP received by the reader end *)
    assert (Hn1' : true = true -> vwmsr v = true \/ has_eof (vP v) = true) by (intros _; left; apply Hn2; exact Hst).
    assert (Hn2' : stop' = true -> vwmsr v = true) by (intros H; apply Hn2, Hst'; exact H).
    assert (Hn3' : vwmsr v = true -> true = true \/ stop' = true) by (intros _; left; reflexivity).
    constructor; cbn [vA vX vP vY vD vrsr vrmsw vwmsr vfz vstop vwfault]; auto;
      try (intros _; left; apply Hstop; exact Hst).
  - assert (Hn2' : stop' = true -> vwmsr v = true) by (intros H; apply Hn2, Hst'; exact H).
    assert (Hn3' : vwmsr v = true -> vrmsw v = true \/ stop' = true).
    { intros Hm. destruct (Hn3 Hm) as [C|C]; [left; exact C|]. destruct stop' eqn:E; [right; reflexivity|left].
      apply Hgone; [exact C|reflexivity]. }
    constructor; cbn [vA vX vP vY vD vrsr vrmsw vwmsr vfz vstop vwfault]; auto.
  - (* writer *)
    assert (Hfz0 : fz' = false -> vfz v = false).
    { intros H. destruct (vfz v) eqn:E; [|reflexivity]. rewrite (Hfz eq_refl) in H. discriminate. }
    constructor; cbn [vA vX vP vY vD vrsr vrmsw vwmsr vfz vstop vwfault].
    + intros Hf. specialize (Hpipe (Hfz0 Hf)).
      destruct Hcons as [E|(C & _)]; [|congruence].
      rewrite <- Hpipe, E, <- !app_assoc. reflexivity.
    + destruct (vfz v) eqn:Ef.
      * rewrite (Hd eq_refl), app_nil_r. exact Hpre.
      * specialize (Hpipe eq_refl).
        destruct Hcons as [E|(_ & _ & dr & E)]; rewrite E in Hpipe; rewrite <- Hpipe.
        -- exists (flat Y' ++ data_cat (vP v) ++ flat (vX v)). rewrite <- !app_assoc. reflexivity.
        -- exists (dr ++ data_cat (vP v) ++ flat (vX v)). rewrite <- !app_assoc. reflexivity.
    + intros Hm. destruct (Hmsw Hm) as [C|Q]; [left; apply Hfz; exact C|right; exact Q].
    + intros Hs. destruct (Hst Hs) as [C|C]; [apply Hfz, Hstop, C|exact C].
    + intros Hm. destruct (vwmsr v) eqn:Eold.
      * destruct (Hmsr eq_refl) as [C|Q]; [left; apply Hfz; exact C|right; exact Q].
      * left. apply Hnewmsr; [reflexivity|exact Hm].
    + intros Hf. apply Hdae. apply Hfz0. exact Hf.
    + exact Heof.
    + intros Hf. destruct (vfz v) eqn:Eold.
      * rewrite (Hd eq_refl), app_nil_r.
        destruct (Hclean eq_refl) as [C|Q]; [left; apply Hwf; exact C|right; exact Q].
      * destruct (Hshut eq_refl Hf) as [C|(Q1 & Q2 & Q3)]; [left; exact C|right].
        destruct (Hmsr Q1) as [C|(R1 & R2 & R3)]; [congruence|].
        specialize (Hpipe eq_refl). rewrite R1, R2, Q2, !app_nil_r in Hpipe. auto.
    + intros Hm. destruct (Hn1 Hm) as [C|C]; [left; apply Hwm; exact C|right; exact C].
    + intros Hs. destruct (Hst2 Hs) as [C|C]; [apply Hwm, Hn2, C|exact C].
    + intros Hm. destruct (vwmsr v) eqn:Eold.
      * destruct (Hn3 eq_refl) as [C|C]; [left; exact C|right; apply Hst3; exact C].
      * right. apply Hst4; [reflexivity|exact Hm].
  - (* DATA delivered *)
    assert (Hn1' : vrmsw v = true -> vwmsr v = true \/ has_eof P' = true).
    { intros Hm. destruct (Hn1 Hm) as [C|C]; [left; exact C|right].
      rewrite HP, has_eof_cons in C. unfold is_eof in C. rewrite Hc in C. exact C. }
    constructor; cbn [vA vX vP vY vD vrsr vrmsw vwmsr vfz vstop vwfault]; auto.
    + intros Hf. specialize (Hpipe Hf). rewrite HP, (data_cat_cons_data _ _ Hc) in Hpipe.
      unfold flat in *. rewrite concat_app. cbn [concat]. rewrite app_nil_r, <- Hpipe, <- !app_assoc. reflexivity.
    + intros Hm. destruct (Hmsr Hm) as [C|(Q1 & Q2 & Q3)]; [left; exact C|right].
      rewrite HP, (data_cat_cons_data _ _ Hc) in Q1. apply app_eq_nil in Q1. destruct Q1 as [_ Q1]. auto.
    + intros Hf. specialize (Hdae Hf). rewrite HP in Hdae. cbn [dae] in Hdae. rewrite Hc in Hdae. exact Hdae.
    + intros H. apply Heof. rewrite HP, has_eof_cons, H. apply orb_true_r.
  - (* frame dropped at a closed wrapper *)
    assert (Hdc : vfz v = false -> data_cat (vP v) = [] /\ data_cat P' = []).
    { intros Hf. destruct (Hmsr Hw) as [C|(Q1 & _)]; [congruence|]. split; [exact Q1|].
      rewrite HP in Q1. destruct (sf_cmd f) eqn:Ec.
      6:{ rewrite (data_cat_cons_data _ _ Ec) in Q1. apply app_eq_nil in Q1. apply Q1. }
      all: rewrite data_cat_cons_other in Q1 by congruence; exact Q1. }
    assert (Hn1' : vrmsw v = true -> vwmsr v = true \/ has_eof P' = true) by (intros _; left; exact Hw).
    constructor; cbn [vA vX vP vY vD vrsr vrmsw vwmsr vfz vstop vwfault]; auto.
    + intros Hf. destruct (Hdc Hf) as [Q1 Q2]. specialize (Hpipe Hf). rewrite Q1 in Hpipe. rewrite Q2. exact Hpipe.
    + intros Hm. destruct (Hmsr Hm) as [C|(Q1 & Q2 & Q3)]; [left; exact C|].
      destruct (vfz v) eqn:Ef; [left; reflexivity|right]. destruct (Hdc eq_refl) as [_ Q]. auto.
    + intros Hf. destruct (Hdc Hf) as [_ Q]. apply dae_false_nil_of_data_nil. exact Q.
    + intros H. apply Heof. rewrite HP, has_eof_cons, H. apply orb_true_r.
  - (* EOF delivered *)
    assert (Hq : vfz v = false -> data_cat P' = [] /\ flat (vX v) = [] /\ vrsr v = true).
    { intros Hf. specialize (Hdae Hf). rewrite HP in Hdae. cbn [dae] in Hdae. rewrite Hc, dae_true in Hdae.
      assert (He : has_eof (vP v) = true) by (rewrite HP, has_eof_cons; unfold is_eof; rewrite Hc; reflexivity).
      destruct (Hmsw (Heof He)) as [C|Q]; [congruence|]. destruct Q. auto. }
    assert (Hn1' : vrmsw v = true -> true = true \/ has_eof P' = true) by (intros _; left; reflexivity).
    assert (Hn2' : vstop v = true -> true = true) by reflexivity.
    assert (Hn3' : true = true -> vrmsw v = true \/ vstop v = true).
    { intros _. left. apply Heof. rewrite HP, has_eof_cons. unfold is_eof. rewrite Hc. reflexivity. }
    constructor; cbn [vA vX vP vY vD vrsr vrmsw vwmsr vfz vstop vwfault]; auto.
    + intros Hf. specialize (Hpipe Hf). rewrite HP, data_cat_cons_other in Hpipe by congruence. exact Hpipe.
    + intros _. destruct (vfz v) eqn:Ef; [left; reflexivity|right]. apply Hq. reflexivity.
    + intros Hf. destruct (Hq Hf) as [Q _]. apply dae_false_nil_of_data_nil. exact Q.
    + intros _. apply Heof. rewrite HP, has_eof_cons. unfold is_eof. rewrite Hc. reflexivity.
  - (* other frame consumed *)
    assert (E1 : data_cat (vP v) = data_cat P') by (rewrite HP; apply data_cat_cons_other; exact Hc1).
    assert (E2 : forall s, dae s (vP v) = dae s P').
    { intros s. rewrite HP. cbn [dae]. destruct (sf_cmd f); try reflexivity; congruence. }
    assert (E3 : has_eof (vP v) = has_eof P').
    { rewrite HP, has_eof_cons. unfold is_eof. destruct (sf_cmd f); try reflexivity. congruence. }
    assert (Hn1' : vrmsw v = true -> vwmsr v = true \/ has_eof P' = true) by (rewrite <- E3; exact Hn1).
    constructor; cbn [vA vX vP vY vD vrsr vrmsw vwmsr vfz vstop vwfault]; auto.
    + intros Hf. rewrite <- E1. apply Hpipe. exact Hf.
    + intros Hm. rewrite <- E1. apply Hmsr. exact Hm.
    + intros Hf. rewrite <- E2. apply Hdae. exact Hf.
    + intros H. apply Heof. rewrite E3. exact H.
Qed.
