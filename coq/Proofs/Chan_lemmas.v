From Coq Require Import List NArith Bool Lia Arith.
From SV Require Import Model.Chan.
Import ListNotations.
Local Open Scope N_scope.

Lemma chan_step_range maxc chani : 1 <= chan_step maxc chani /\ (1 <= maxc -> chan_step maxc chani <= maxc).
Proof.
  unfold chan_step. destruct (maxc <? chani + 1) eqn:E.
  - split; [lia|intros; lia].
  - apply N.ltb_ge in E. split; lia.
Qed.

Lemma chan_iter_S_comm k maxc chani :
  chan_iter k maxc (chan_step maxc chani) = chan_step maxc (chan_iter k maxc chani).
Proof. induction k as [|k IH]; [reflexivity|]. cbn [chan_iter]. rewrite IH. reflexivity. Qed.

(* Some c: c is the first free identifier on the cyclic walk, c >= 1, never 0, cursor = c *)
Lemma next_channel_loop_some tries maxc occ : forall chani c chani',
  next_channel_loop tries maxc occ chani = (Some c, chani') ->
  chani' = c /\ occ c = false /\ 1 <= c /\ (1 <= maxc -> c <= maxc) /\
  exists k, (k < tries)%nat /\ c = chan_iter (S k) maxc chani /\
            forall j, (j < k)%nat -> occ (chan_iter (S j) maxc chani) = true.
Proof.
  induction tries as [|t IH]; intros chani c chani' H; cbn [next_channel_loop] in H; [discriminate|].
  destruct (occ (chan_step maxc chani)) eqn:Ho.
  - destruct (IH _ _ _ H) as (E1 & E2 & E3 & E4 & k & Hk & Hc & Hall).
    repeat split; auto. exists (S k). split; [lia|]. split.
    + rewrite Hc. cbn [chan_iter]. rewrite !chan_iter_S_comm. reflexivity.
    + intros j Hj. destruct j as [|j]; [exact Ho|].
      specialize (Hall j ltac:(lia)). cbn [chan_iter] in *.
      rewrite chan_iter_S_comm in Hall. exact Hall.
  - inversion H; subst. pose proof (chan_step_range maxc chani) as [R1 R2].
    repeat split; auto. exists 0%nat. split; [lia|]. split; [reflexivity|]. intros j Hj; lia.
Qed.

(* None: every one of the `tries` identifiers after the cursor is occupied *)
Lemma next_channel_loop_none tries maxc occ : forall chani chani',
  next_channel_loop tries maxc occ chani = (None, chani') ->
  chani' = chan_iter tries maxc chani /\
  forall j, (j < tries)%nat -> occ (chan_iter (S j) maxc chani) = true.
Proof.
  induction tries as [|t IH]; intros chani chani' H; cbn [next_channel_loop] in H.
  - inversion H; subst. split; [reflexivity|]. intros j Hj; lia.
  - destruct (occ (chan_step maxc chani)) eqn:Ho; [|discriminate].
    destruct (IH _ _ H) as (E1 & Hall). split.
    + rewrite E1. cbn [chan_iter]. rewrite chan_iter_S_comm. reflexivity.
    + intros j Hj. destruct j as [|j]; [exact Ho|].
      specialize (Hall j ltac:(lia)). cbn [chan_iter] in *.
      rewrite chan_iter_S_comm in Hall. exact Hall.
Qed.

Lemma next_channel_some maxc occ chani c chani' :
  next_channel maxc occ chani = (Some c, chani') ->
  chani' = c /\ occ c = false /\ c <> 0 /\ 1 <= c /\ (1 <= maxc -> c <= maxc).
Proof.
  intros H. destruct (next_channel_loop_some _ _ _ _ _ _ H) as (E1 & E2 & E3 & E4 & _).
  repeat split; auto. lia.
Qed.

(* if some identifier within reach is free, allocation succeeds *)
Lemma next_channel_loop_finds tries maxc occ : forall chani k,
  (k < tries)%nat -> occ (chan_iter (S k) maxc chani) = false ->
  exists c, fst (next_channel_loop tries maxc occ chani) = Some c.
Proof.
  induction tries as [|t IH]; intros chani k Hk Hf; [lia|].
  cbn [next_channel_loop]. destruct (occ (chan_step maxc chani)) eqn:Ho.
  - destruct k as [|k]; [cbn [chan_iter] in Hf; congruence|].
    apply (IH _ k); [lia|]. cbn [chan_iter] in *. rewrite chan_iter_S_comm. exact Hf.
  - eexists. reflexivity.
Qed.
