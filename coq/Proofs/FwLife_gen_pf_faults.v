(* Proofs/FwLife_gen_pf_faults.v — C04, general theorems, part 10: pf under EVERY environment script.
   The script `faults : nat -> bool` says which external commands (pfctl / kldload, counted over the whole
   session, set-up and tear-down, both families) return non-zero without effect — any set of them, not just
   one.  Repaired code path (F17 fixed), FreeBSD / OpenBSD / Darwin as modelled in Model/FwLife.v.
   1. one family's set-up and tear-down under an arbitrary script (SetupF / RestoreF);
   2. the enable bookkeeping of pf.py (_pf_context['started_by_sshuttle'], the Darwin -E tokens), the
      anchors and the main ruleset through the four phases of firewall.main, as functions of the script;
   3. pf_every_exit   — what holds after EVERY exit (any script, any cut);
      pf_all_exits    — the identity on module / enable state / tokens unless a `pfctl -d` / `pfctl -X` of the
                        finally block fails (set-up may fail anywhere, the flushes may fail: F150 repaired),
                        on the anchors too unless a flush failed; pf_all_exits_td: no failing tear-down command;
      pf_flush_ok_clean — no failing `pfctl -a A -F all` => nothing the session loaded remains;
      pf_restartable  — a later fault-free session removes left-over anchor content and leaves the
                        enable state as it found it (so a left-over `enabled` stays for good: F150, now only
                        after a failing `pfctl -d` / `pfctl -X` itself).
   Model/FwLife.v pf_restore follows the repaired pf.disable (try/finally around the flush) under c_repaired.
   F43 (main ruleset replaced on OpenBSD/Darwin with `set skip on lo`) is characterised exactly:
   it happens iff the session reaches set-up and its first two commands succeed (f43_hits). *)
From Coq Require Import String List NArith ZArith Ascii Bool Lia Arith.
From SV Require Import Lib.Bytes Model.FwLife Model.FwLifeSpec Proofs.FwLife_lemmas Proofs.FwLife_gen_pf.
Import ListNotations.

(* ------------------------------------------------------------------ *)
Record SetupF (os : pfos) (a : tok) (text : bytes) (faults : faultfn) (n : nat)
       (py : pyctx) (p : pfstate) (ok : bool) (py' : pyctx) (p' : pfstate) : Prop := mkSF {
  sf_ok : ok = true -> SetupSpec os a text py p py' p' /\ faults n = false /\ faults (S n) = false;
  sf_loaded : pf_loaded p' = true;
  sf_calls : calls_ok (pf_calls p') = true;
  sf_anch : anchor_del a (pf_anchors p') = anchor_del a (pf_anchors p);
  sf_main : (pf_main p', pf_skip_lo p') =
            if negb (is_freebsd os) && pf_skip_lo p && negb (faults n) && negb (faults (S n))
            then (pf_main p ++ [skiptext os], false) else (pf_main p, pf_skip_lo p);
  sf_fail : ok = false -> pf_on p' = pf_on p /\ pf_refs p' = pf_refs p /\ pf_next p' = pf_next p /\ py' = py /\
                          exists k, faults k = true
}.

Ltac dfault faults n :=
  first [ match goal with |- context [faults n] => destruct (faults n) eqn:? end
        | match goal with |- context [faults (S n)] => destruct (faults (S n)) eqn:? end
        | match goal with |- context [faults (S (S n))] => destruct (faults (S (S n))) eqn:? end
        | match goal with |- context [faults (S (S (S n)))] => destruct (faults (S (S (S n)))) eqn:? end
        | match goal with |- context [faults (S (S (S (S n))))] => destruct (faults (S (S (S (S n))))) eqn:? end ].

Lemma pf_setup_f faults os f port body py n s :
  pf_loaded (k_pf s) = true -> calls_ok (pf_calls (k_pf s)) = true -> nlfree (pf_anchor f port) = true ->
  exists ok py' n' p' ev,
    pf_setup faults os f port body py n s = (ok, py', n', with_pf s p', ev) /\
    SetupF os (pf_anchor f port) (pf_text_of body) faults n py (k_pf s) ok py' p'.
Proof.
  intros Hl Hc Ha. destruct s as [t1 t2 t3 t4 nf p]. destruct p as [ld on refs nx sk mn cl an].
  cbn [k_pf pf_loaded pf_calls] in Hl, Hc. subst ld. destruct py as [pst pld ptk].
  unfold pf_setup, pf_do, pf_ioctl_add, issue, pf_text_of.
  destruct os; destruct sk; destruct on; destruct refs as [|r0 refs].
  all: cbn -[is_infix join_lines pf_status_lines dec anchor_set Z.succ N.succ].
  all: repeat (first
         [ rewrite skip_yes | rewrite skip_no
         | match goal with
           | |- context [is_infix ?a (join_lines (pf_status_lines ?P))] =>
               first [ change (is_infix a (join_lines (pf_status_lines P))) with (dis_parse P);
                       rewrite (dis_parse_exact P) by (cbn [pf_calls]; rewrite ?calls_ok_app, ?Hc; cbn [calls_ok forallb snd andb]; rewrite ?Ha; reflexivity)
                     | destruct (is_infix a (join_lines (pf_status_lines P))) ]
           end
         | dfault faults n ];
       cbn -[is_infix join_lines pf_status_lines dec anchor_set Z.succ N.succ]).
  all: do 5 eexists; (split; [unfold with_pf; cbn [k_v6nat k_v6mangle k_v4nat k_v4mangle k_nft]; reflexivity|]).
  all: constructor.
  (* sf_ok *)
  all: try (intro E; try discriminate E; split; [|split; assumption]; constructor;
            cbn -[dec anchor_set Z.succ N.succ]; try reflexivity;
            rewrite ?calls_ok_app, ?Hc; cbn [calls_ok forallb snd andb]; rewrite ?Ha; try reflexivity;
            first [exact Hc | repeat split; reflexivity
                  | change (forallb (fun a : ascii => negb (Ascii.eqb a nl)) (pf_anchor f port)) with (nlfree (pf_anchor f port)); rewrite Ha; reflexivity]).
  (* sf_loaded *)
  all: try reflexivity.
  (* sf_calls *)
  all: try (cbn [pf_calls]; rewrite ?calls_ok_app, ?Hc; cbn [calls_ok forallb snd andb]; rewrite ?Ha; reflexivity).
  (* sf_anch *)
  all: try (cbn [pf_anchors]; apply anchor_del_set_same).
  (* sf_main *)
  all: try (cbn [pf_main pf_skip_lo is_freebsd negb andb];
            repeat match goal with H : ?x = _ |- context [negb ?x] => rewrite H end;
            cbn [negb andb]; reflexivity).
  (* sf_fail *)
  all: try (intro E; try discriminate E; cbn [pf_on pf_refs pf_next]; repeat split; try reflexivity; eexists; eassumption).
Qed.

Definition enabledb (on : bool) (refs : list tok) : bool := on || match refs with [] => false | _ => true end.

Definition grestore (b2 : bool) (x : bool * list tok * Z) : bool * list tok * Z :=
  let '(on, refs, st) := x in
  if Z.eqb st 1 then (if b2 then x else if enabledb on refs then (false, [], Z.pred st) else x)
  else (on, refs, Z.pred st).

Definition drestore (b2 : bool) (x : list tok * list tok) : list tok * list tok :=
  let '(refs, tk) := x in
  match rev tk with
  | [] => x
  | t :: rest => ((if b2 then refs else match tok_del t refs with Some l => l | None => refs end), rev rest)
  end.

Definition restore_next (os : pfos) (py : pyctx) (n : nat) : nat :=
  match os with
  | Darwin => match rev (py_tokens py) with [] => S n | _ => S (S n) end
  | _ => if Z.eqb (py_started py) 1 then S (S n) else S n
  end.

Definition is_failed_flush (e : event) : bool :=
  match e with ECmd (Pf (PFlushAnchor _)) false _ => true | _ => false end.
(* a failed `pfctl -d` / `pfctl -X <token>` *)
Definition is_failed_disable (e : event) : bool :=
  match e with ECmd (Pf PDisable) false _ => true | ECmd (Pf (PReleaseRef _)) false _ => true | _ => false end.

Record RestoreF (os : pfos) (a : tok) (faults : faultfn) (n : nat) (py : pyctx) (p : pfstate)
       (py' : pyctx) (n' : nat) (p' : pfstate) (ev : list event) : Prop := mkRF {
  rf_loaded : pf_loaded p' = true;
  rf_anch : pf_anchors p' = if faults n then pf_anchors p else anchor_del a (pf_anchors p);
  rf_same : pf_main p' = pf_main p /\ pf_skip_lo p' = pf_skip_lo p /\ pf_next p' = pf_next p /\ pf_calls p' = pf_calls p;
  rf_pyl : py_loaded py' = false;
  rf_n : n' = restore_next os py n;
  rf_en : match os with
          | Darwin => pf_on p' = pf_on p /\ py_started py' = py_started py /\
                      (pf_refs p', py_tokens py') = drestore (faults (S n)) (pf_refs p, py_tokens py)
          | _ => py_tokens py' = py_tokens py /\
                 (pf_on p', pf_refs p', py_started py') = grestore (faults (S n)) (pf_on p, pf_refs p, py_started py)
          end;
  rf_ev : faults n = true -> existsb is_failed_flush ev = true;
  rf_ev2 : n' = S (S n) -> faults (S n) = true -> existsb is_failed_disable ev = true
}.

Lemma pf_restore_f faults os f port py n s :
  pf_loaded (k_pf s) = true -> py_loaded py = false ->
  exists ok py' n' p' ev,
    pf_restore true faults os f port py n s = (ok, py', n', with_pf s p', ev) /\
    RestoreF os (pf_anchor f port) faults n py (k_pf s) py' n' p' ev.
Proof.
  intros Hl Hpl. destruct s as [t1 t2 t3 t4 nf p]. destruct p as [ld on refs nx sk mn cl an].
  destruct py as [st pl tk]. cbn [k_pf pf_loaded py_loaded] in Hl, Hpl. subst ld pl.
  unfold pf_restore, pf_do, issue.
  destruct (faults n) eqn:F0;
    (destruct os; [destruct (Z.eqb st 1) eqn:E1; destruct on; destruct refs as [|r0 refs]
                  | destruct (Z.eqb st 1) eqn:E1; destruct on; destruct refs as [|r0 refs]
                  | destruct (rev tk) as [|t rest] eqn:Rv; [|destruct (tok_del t refs) as [l|] eqn:Td] ]).
  all: cbn -[anchor_del Z.pred Z.eqb tok_del rev]; rewrite ?E1, ?Rv, ?Td; cbn -[anchor_del Z.pred Z.eqb tok_del rev]; rewrite ?E1, ?Rv, ?Td.
  all: try (destruct (faults (S n)) eqn:F1).
  all: cbn -[anchor_del Z.pred Z.eqb tok_del rev]; rewrite ?E1, ?Rv, ?Td; cbn -[anchor_del Z.pred Z.eqb tok_del rev].
  all: do 5 eexists; (split; [unfold with_pf; cbn [k_v6nat k_v6mangle k_v4nat k_v4mangle k_nft]; reflexivity|]).
  all: constructor; unfold restore_next, grestore, drestore, enabledb;
       cbn -[anchor_del Z.pred Z.eqb tok_del rev]; rewrite ?F0, ?F1, ?E1, ?Rv, ?Td; try reflexivity.
  all: try (repeat split; reflexivity).
  all: try discriminate.
  all: try (intros; discriminate).
  all: try (intro E; exfalso; revert E; clear; intro E; apply (f_equal pred) in E; cbn in E; apply n_Sn in E; exact E).
Qed.

Lemma pf_setup_unloaded_f faults os f port body py n s :
  pf_loaded (k_pf s) = false ->
  exists n' ev, pf_setup faults os f port body py n s = (false, py, n', s, ev).
Proof.
  intro Hl. destruct s as [t1 t2 t3 t4 nf p]. destruct p as [ld on refs nx sk mn cl an].
  cbn [k_pf pf_loaded] in Hl. subst ld. unfold pf_setup, pf_do, issue.
  destruct os; destruct (faults n); cbn -[is_infix join_lines]; do 2 eexists; reflexivity.
Qed.

Lemma pf_restore_unloaded_f rp faults os f port py n s :
  pf_loaded (k_pf s) = false ->
  exists ok py' n' ev, pf_restore rp faults os f port py n s = (ok, py', n', s, ev).
Proof.
  intro Hl. destruct s as [t1 t2 t3 t4 nf p]. destruct p as [ld on refs nx sk mn cl an].
  cbn [k_pf pf_loaded] in Hl. subst ld. unfold pf_restore, pf_do, issue.
  destruct rp; [|destruct (faults n); cbn; do 4 eexists; reflexivity].
  destruct (faults n); (destruct os; [destruct (Z.eqb (py_started py) 1) | destruct (Z.eqb (py_started py) 1) | destruct (rev (py_tokens py))]);
    cbn; try destruct (faults (S n)); cbn; do 4 eexists; reflexivity.
Qed.

Lemma pf_session_unloaded_f os c cut faults s0 :
  c_method c = MPf os -> c_udp c = false -> c_nlines c <= cut -> pf_loaded (k_pf s0) = false ->
  r_final (session c cut faults s0) = s0.
Proof.
  intros Hm Hudp Hle Hl. unfold session.
  assert (Lt : Nat.ltb cut (c_nlines c) = false) by (apply Nat.ltb_ge; exact Hle). rewrite Lt.
  unfold udp_refused. rewrite Hudp. cbn [andb]. unfold do_setup, do_restore. rewrite Hm.
  destruct (fc_on (c_v6 c)) eqn:On6; destruct (fc_on (c_v4 c)) eqn:On4;
    repeat (match goal with
            | |- context [pf_setup faults os ?f ?p ?b ?py ?n s0] =>
                let n' := fresh "n" in let ev := fresh "ev" in let E := fresh "E" in
                destruct (pf_setup_unloaded_f faults os f p b py n s0 Hl) as (n' & ev & E); rewrite E
            | |- context [pf_restore ?rp faults os ?f ?p ?py ?n s0] =>
                let n' := fresh "n" in let ev := fresh "ev" in let E := fresh "E" in
                let ok' := fresh "ok" in let py' := fresh "py" in
                destruct (pf_restore_unloaded_f rp faults os f p py n s0 Hl) as (ok' & py' & n' & ev & E); rewrite E
            end; cbn [andb]);
    try (destruct (wait_loop _)); reflexivity.
Qed.

(* ---- the session, phase by phase, under an arbitrary script ---- *)
Lemma pf_session_f os c cut faults s0 :
  c_method c = MPf os -> c_repaired c = true -> c_udp c = false -> c_nlines c <= cut ->
  pf_loaded (k_pf s0) = true -> calls_ok (pf_calls (k_pf s0)) = true ->
  (forall f, fc_on (fcfg c f) = true -> nlfree (fc_port (fcfg c f)) = true) ->
  exists (ok6 : bool) py1 n1 p1 (ok4 : bool) py2 n2 p2 py3 n3 p3 ev3 py4 n4 p4 ev4 evA evB,
    r_final (session c cut faults s0) = with_pf s0 p4 /\
    r_fin_at (session c cut faults s0) = n2 /\ r_ncmds (session c cut faults s0) = n4 /\
    r_events (session c cut faults s0) =
      evA ++ (if ok4 then [EMark MStarted] else []) ++
      (if fc_on (c_v6 c) then EMark (MRestore V6) :: ev3 else []) ++
      (if fc_on (c_v4 c) then EMark (MRestore V4) :: ev4 else []) ++ evB /\
    (if fc_on (c_v6 c)
     then SetupF os (pf_anchor V6 (fc_port (c_v6 c))) (pf_text_of (fc_body (c_v6 c))) faults 0 (py_init c) (k_pf s0) ok6 py1 p1
     else ok6 = true /\ py1 = py_init c /\ p1 = k_pf s0 /\ n1 = 0) /\
    (if ok6 && fc_on (c_v4 c)
     then SetupF os (pf_anchor V4 (fc_port (c_v4 c))) (pf_text_of (fc_body (c_v4 c))) faults n1 py1 p1 ok4 py2 p2
     else ok4 = ok6 /\ py2 = py1 /\ p2 = p1) /\
    (if fc_on (c_v6 c) then RestoreF os (pf_anchor V6 (fc_port (c_v6 c))) faults n2 py2 p2 py3 n3 p3 ev3
     else py3 = py2 /\ p3 = p2 /\ n3 = n2) /\
    (if fc_on (c_v4 c) then RestoreF os (pf_anchor V4 (fc_port (c_v4 c))) faults n3 py3 p3 py4 n4 p4 ev4
     else py4 = py3 /\ p4 = p3 /\ n4 = n3).
Proof.
  intros Hm Hrep Hudp Hle Hl Hc Hn. unfold session.
  assert (Lt : Nat.ltb cut (c_nlines c) = false) by (apply Nat.ltb_ge; exact Hle). rewrite Lt.
  unfold udp_refused. rewrite Hudp. cbn [andb]. unfold do_setup, do_restore. rewrite Hm. rewrite Hrep.
  assert (Hpl0 : py_loaded (py_init c) = false) by (unfold py_init; rewrite Hrep; reflexivity).
  (* phase 1 *)
  assert (P1 : exists ok6 py1 n1 p1 ev1,
             (if fc_on (c_v6 c)
              then let '(ok, py, n, s, ev) := pf_setup faults os V6 (fc_port (fcfg c V6)) (fc_body (fcfg c V6)) (py_init c) 0 s0 in
                   (ok, py, n, s, EMark (MSetup V6) :: ev)
              else (true, py_init c, 0, s0, [])) = (ok6, py1, n1, with_pf s0 p1, ev1) /\
             (if fc_on (c_v6 c) then SetupF os (pf_anchor V6 (fc_port (c_v6 c))) (pf_text_of (fc_body (c_v6 c))) faults 0 (py_init c) (k_pf s0) ok6 py1 p1
              else ok6 = true /\ py1 = py_init c /\ p1 = k_pf s0 /\ n1 = 0)).
  { destruct (fc_on (c_v6 c)) eqn:On.
    - destruct (pf_setup_f faults os V6 (fc_port (fcfg c V6)) (fc_body (fcfg c V6)) (py_init c) 0 s0 Hl Hc
                  (pf_anchor_nlfree _ _ (Hn V6 On))) as (ok6 & py1 & n1 & p1 & ev1 & E & S).
      rewrite E. do 5 eexists. split; [reflexivity | exact S].
    - exists true, (py_init c), 0, (k_pf s0), []. rewrite with_pf_id. split; [reflexivity|]. repeat split; reflexivity. }
  destruct P1 as (ok6 & py1 & n1 & p1 & ev1 & E1 & S1). rewrite E1.
  assert (Hl1 : pf_loaded p1 = true) by (destruct (fc_on (c_v6 c)); [exact (sf_loaded _ _ _ _ _ _ _ _ _ _ S1) | destruct S1 as (_ & _ & -> & _); exact Hl]).
  assert (Hc1 : calls_ok (pf_calls p1) = true) by (destruct (fc_on (c_v6 c)); [exact (sf_calls _ _ _ _ _ _ _ _ _ _ S1) | destruct S1 as (_ & _ & -> & _); exact Hc]).
  assert (Hpl1 : py_loaded py1 = false).
  { destruct (fc_on (c_v6 c)); [|destruct S1 as (_ & -> & _); exact Hpl0].
    destruct ok6.
    - destruct (sf_ok _ _ _ _ _ _ _ _ _ _ S1 eq_refl) as [SS _]. rewrite (ss_pyl _ _ _ _ _ _ _ SS). exact Hpl0.
    - destruct (sf_fail _ _ _ _ _ _ _ _ _ _ S1 eq_refl) as (_ & _ & _ & -> & _). exact Hpl0. }
  (* phase 2 *)
  assert (P2 : exists ok4 py2 n2 p2 ev2,
             (if ok6 && fc_on (c_v4 c)
              then let '(ok, py, n, s, ev) := pf_setup faults os V4 (fc_port (fcfg c V4)) (fc_body (fcfg c V4)) py1 n1 (with_pf s0 p1) in
                   (ok, py, n, s, EMark (MSetup V4) :: ev)
              else (ok6, py1, n1, with_pf s0 p1, [])) = (ok4, py2, n2, with_pf s0 p2, ev2) /\
             (if ok6 && fc_on (c_v4 c) then SetupF os (pf_anchor V4 (fc_port (c_v4 c))) (pf_text_of (fc_body (c_v4 c))) faults n1 py1 p1 ok4 py2 p2
              else ok4 = ok6 /\ py2 = py1 /\ p2 = p1)).
  { destruct (ok6 && fc_on (c_v4 c)) eqn:On.
    - apply andb_true_iff in On as [_ On].
      destruct (pf_setup_f faults os V4 (fc_port (fcfg c V4)) (fc_body (fcfg c V4)) py1 n1 (with_pf s0 p1) Hl1 Hc1
                  (pf_anchor_nlfree _ _ (Hn V4 On))) as (ok4 & py2 & n2 & p2 & ev2 & E & S).
      rewrite E. do 5 eexists. split; [reflexivity | exact S].
    - exists ok6, py1, n1, p1, []. split; [reflexivity|]. repeat split; reflexivity. }
  destruct P2 as (ok4 & py2 & n2 & p2 & ev2 & E2 & S2). rewrite E2.
  assert (Hl2 : pf_loaded p2 = true) by (destruct (ok6 && fc_on (c_v4 c)); [exact (sf_loaded _ _ _ _ _ _ _ _ _ _ S2) | destruct S2 as (_ & _ & ->); exact Hl1]).
  assert (Hpl2 : py_loaded py2 = false).
  { destruct (ok6 && fc_on (c_v4 c)); [|destruct S2 as (_ & -> & _); exact Hpl1].
    destruct ok4.
    - destruct (sf_ok _ _ _ _ _ _ _ _ _ _ S2 eq_refl) as [SS _]. rewrite (ss_pyl _ _ _ _ _ _ _ SS). exact Hpl1.
    - destruct (sf_fail _ _ _ _ _ _ _ _ _ _ S2 eq_refl) as (_ & _ & _ & -> & _). exact Hpl1. }
  (* phase 3 *)
  assert (P3 : exists ok7 py3 n3 p3 ev3 ev3',
             (if fc_on (c_v6 c)
              then let '(ok, py, n, s, ev) := pf_restore true faults os V6 (fc_port (fcfg c V6)) py2 n2 (with_pf s0 p2) in
                   (ok, py, n, s, EMark (MRestore V6) :: ev)
              else (true, py2, n2, with_pf s0 p2, [])) = (ok7, py3, n3, with_pf s0 p3, ev3') /\
             ev3' = (if fc_on (c_v6 c) then EMark (MRestore V6) :: ev3 else []) /\
             (if fc_on (c_v6 c) then RestoreF os (pf_anchor V6 (fc_port (c_v6 c))) faults n2 py2 p2 py3 n3 p3 ev3
              else py3 = py2 /\ p3 = p2 /\ n3 = n2)).
  { destruct (fc_on (c_v6 c)) eqn:On.
    - destruct (pf_restore_f faults os V6 (fc_port (fcfg c V6)) py2 n2 (with_pf s0 p2) Hl2 Hpl2) as (ok & py3 & n3 & p3 & ev3 & E & S).
      rewrite E. do 6 eexists. split; [reflexivity|]. split; [reflexivity | exact S].
    - exists true, py2, n2, p2, [], []. split; [reflexivity|]. repeat split; reflexivity. }
  destruct P3 as (ok7 & py3 & n3 & p3 & ev3 & ev3' & E3 & Ev3 & S3). rewrite E3.
  assert (Hl3 : pf_loaded p3 = true) by (destruct (fc_on (c_v6 c)); [exact (rf_loaded _ _ _ _ _ _ _ _ _ _ S3) | destruct S3 as (_ & -> & _); exact Hl2]).
  assert (Hpl3 : py_loaded py3 = false) by (destruct (fc_on (c_v6 c)); [exact (rf_pyl _ _ _ _ _ _ _ _ _ _ S3) | destruct S3 as (-> & _); exact Hpl2]).
  assert (P4 : exists ok8 py4 n4 p4 ev4 ev4',
             (if fc_on (c_v4 c)
              then let '(ok, py, n, s, ev) := pf_restore true faults os V4 (fc_port (fcfg c V4)) py3 n3 (with_pf s0 p3) in
                   (ok, py, n, s, EMark (MRestore V4) :: ev)
              else (true, py3, n3, with_pf s0 p3, [])) = (ok8, py4, n4, with_pf s0 p4, ev4') /\
             ev4' = (if fc_on (c_v4 c) then EMark (MRestore V4) :: ev4 else []) /\
             (if fc_on (c_v4 c) then RestoreF os (pf_anchor V4 (fc_port (c_v4 c))) faults n3 py3 p3 py4 n4 p4 ev4
              else py4 = py3 /\ p4 = p3 /\ n4 = n3)).
  { destruct (fc_on (c_v4 c)) eqn:On.
    - destruct (pf_restore_f faults os V4 (fc_port (fcfg c V4)) py3 n3 (with_pf s0 p3) Hl3 Hpl3) as (ok & py4 & n4 & p4 & ev4 & E & S).
      rewrite E. do 6 eexists. split; [reflexivity|]. split; [reflexivity | exact S].
    - exists true, py3, n3, p3, [], []. split; [reflexivity|]. repeat split; reflexivity. }
  destruct P4 as (ok8 & py4 & n4 & p4 & ev4 & ev4' & E4 & Ev4 & S4). rewrite E4.
  destruct (if ok4 then wait_loop (firstn (cut - c_nlines c) (c_tail c)) else (0, false)) as [hosts lf].
  exists ok6, py1, n1, p1, ok4, py2, n2, p2, py3, n3, p3, ev3, py4, n4, p4, ev4, (ev1 ++ ev2),
         (match hosts with 0 => [] | S _ => [EMark MHosts] end).
  cbn [r_final r_fin_at r_ncmds r_events]. subst ev3' ev4'. rewrite <- !app_assoc.
  repeat split; assumption.
Qed.

(* ------------------------------------------------------------------ *)
(* ---- the enable bookkeeping of Generic (FreeBSD, OpenBSD) under every script ---- *)
Lemma gen_chain (on6 on4 ok6 ok4 b26 b24 : bool) (on0 : bool) (refs0 : list tok) :
  (on6 = false -> ok6 = true) ->
  let x0 := (on0, refs0, 0%Z) in
  let x1 := if on6 then (if ok6 then gen_setup x0 else x0) else x0 in
  let x2 := if ok6 && on4 then (if ok4 then gen_setup x1 else x1) else x1 in
  let x3 := if on6 then grestore b26 x2 else x2 in
  let x4 := if on4 then grestore b24 x3 else x3 in
  (snd (fst x4) = refs0 /\ (enabledb on0 refs0 = true -> fst (fst x4) = on0)) /\
  ((on6 = true -> snd x2 = 1%Z -> b26 = false) ->
   (on4 = true -> snd x3 = 1%Z -> b24 = false) -> fst (fst x4) = on0).
Proof.
  intro Hok.
  destruct on0; destruct refs0 as [|r0 refs0]; destruct on6, on4, ok6, ok4; try (specialize (Hok eq_refl); discriminate Hok); cbn;
    destruct b26, b24; cbn; (split; [split; [reflexivity | try reflexivity; intro; try reflexivity; discriminate]|]);
    intros H6 H4; try reflexivity;
    try (specialize (H6 eq_refl eq_refl); discriminate H6);
    try (specialize (H4 eq_refl eq_refl); discriminate H4).
Qed.

(* ---- Darwin: reference tokens under every script ---- *)
Definition dsetup (ok : bool) (x : list tok * N * list tok) : list tok * N * list tok :=
  if ok then dar_setup x else x.

Lemma dar_chain (on6 on4 ok6 ok4 b26 b24 : bool) (refs0 : list tok) (nx0 : N) :
  ~ In (dec nx0) refs0 -> ~ In (dec (N.succ nx0)) refs0 ->
  (on6 = false -> ok6 = true) ->
  let x0 := (refs0, nx0, @nil tok) in
  let x1 := if on6 then dsetup ok6 x0 else x0 in
  let x2 := if ok6 && on4 then dsetup ok4 x1 else x1 in
  let y2 := (fst (fst x2), snd x2) in
  let y3 := if on6 then drestore b26 y2 else y2 in
  let y4 := if on4 then drestore b24 y3 else y3 in
  (exists l, fst y4 = refs0 ++ l) /\
  ((on6 = true -> snd y2 <> [] -> b26 = false) ->
   (on4 = true -> snd y3 <> [] -> b24 = false) -> fst y4 = refs0).
Proof.
  intros F1 F2 Hok.
  assert (NE : forall (t : tok) l, t :: l <> []) by (intros; discriminate).
  assert (D : forall t1 t2 : tok, (t1 = t2) \/ (bytes_eqb t1 t2 = false /\ bytes_eqb t2 t1 = false)).
  { intros t1 t2. destruct (bytes_eqb t1 t2) eqn:B; [left; apply bytes_eqb_eq; exact B | right; split; [reflexivity|]].
    apply bytes_eqb_neq. intro E. subst. rewrite bytes_eqb_refl in B. discriminate. }
  destruct on6, on4, ok6, ok4; try (specialize (Hok eq_refl); discriminate Hok); clear Hok; cbn -[dec tok_del N.succ];
    destruct b26, b24; cbn -[dec tok_del N.succ];
    specialize (D (dec nx0) (dec (N.succ nx0)));
    generalize dependent (dec (N.succ nx0)); generalize dependent (dec nx0); intros t1 F1 t2 F2 D;
    (destruct D as [<- | [B12 B21]]);
    repeat (rewrite <- ?app_assoc; cbn [app];
            first [rewrite (tok_del_notin_app _ _ _ F1) | rewrite (tok_del_notin_app _ _ _ F2)];
            cbn [tok_del]; rewrite ?bytes_eqb_refl, ?B12, ?B21; cbn [app]);
    (split; [eexists; try reflexivity; rewrite <- ?app_assoc; try reflexivity; rewrite app_nil_r; reflexivity |]);
    intros H6 H4; rewrite ?app_nil_r; try reflexivity;
    try (specialize (H6 eq_refl (NE _ _)); discriminate H6);
    try (specialize (H4 eq_refl (NE _ _)); discriminate H4).
Qed.

(* ---- anchors under every script ---- *)
Lemma opt_del_comm b1 a1 b2 a2 L : opt_del b1 a1 (opt_del b2 a2 L) = opt_del b2 a2 (opt_del b1 a1 L).
Proof. destruct b1, b2; cbn [opt_del]; try reflexivity. apply anchor_del_comm. Qed.

Lemma opt_del_idem b a L : opt_del b a (opt_del b a L) = opt_del b a L.
Proof. destruct b; cbn [opt_del]; [apply anchor_del_idem | reflexivity]. Qed.

Lemma anch_chain (on6 on4 ok6 b16 b14 : bool) a6 a4 (A0 A1 A2 A3 A4 : list (tok * bytes)) :
  (if on6 then anchor_del a6 A1 = anchor_del a6 A0 else A1 = A0) ->
  (if ok6 && on4 then anchor_del a4 A2 = anchor_del a4 A1 else A2 = A1) ->
  (if on6 then A3 = (if b16 then A2 else anchor_del a6 A2) else A3 = A2) ->
  (if on4 then A4 = (if b14 then A3 else anchor_del a4 A3) else A4 = A3) ->
  let D := fun X => opt_del on4 a4 (opt_del on6 a6 X) in
  D A4 = D A0 /\ ((on6 = true -> b16 = false) -> (on4 = true -> b14 = false) -> A4 = D A0).
Proof.
  intros H1 H2 H3 H4 D.
  assert (E1 : D A1 = D A0).
  { unfold D. destruct on6; [cbn [opt_del]; rewrite H1; reflexivity | rewrite H1; reflexivity]. }
  assert (E2 : D A2 = D A1).
  { unfold D. destruct (ok6 && on4) eqn:B; [|rewrite H2; reflexivity]. apply andb_true_iff in B as [_ ->].
    rewrite (opt_del_comm true a4 on6 a6 A2), (opt_del_comm true a4 on6 a6 A1). cbn [opt_del]. rewrite H2. reflexivity. }
  assert (E3 : D A3 = D A2 /\ ((on6 = true -> b16 = false) -> A3 = opt_del on6 a6 A2)).
  { unfold D. destruct on6; [|rewrite H3; split; reflexivity]. destruct b16; rewrite H3.
    - split; [reflexivity|]. intro H. specialize (H eq_refl). discriminate.
    - split; [|reflexivity]. cbn [opt_del]. rewrite anchor_del_idem. reflexivity. }
  assert (E4 : D A4 = D A3 /\ ((on4 = true -> b14 = false) -> A4 = opt_del on4 a4 A3)).
  { unfold D. destruct on4; [|rewrite H4; split; reflexivity]. destruct b14; rewrite H4.
    - split; [reflexivity|]. intro H. specialize (H eq_refl). discriminate.
    - split; [|reflexivity]. rewrite (opt_del_comm true a4 on6 a6 (anchor_del a4 A3)), (opt_del_comm true a4 on6 a6 A3).
      cbn [opt_del]. rewrite anchor_del_idem. reflexivity. }
  split.
  - rewrite (proj1 E4), (proj1 E3), E2, E1. reflexivity.
  - intros K6 K4. rewrite (proj2 E4 K4), (proj2 E3 K6). fold (D A2). rewrite E2, E1. reflexivity.
Qed.

(* ---- the main ruleset under every script: F43 happens iff the first two commands succeed ---- *)
Lemma main_chain (nfb on6 on4 ok6 f0 f1 fa fb : bool) (st : bytes) (m0 m1 m2 : list bytes) (k0 k1 k2 : bool) :
  (on6 = false -> ok6 = true /\ fa = f0 /\ fb = f1) ->
  (on6 = true -> ok6 = true -> f0 = false /\ f1 = false) ->
  (if on6 then (m1, k1) = (if nfb && k0 && negb f0 && negb f1 then (m0 ++ [st], false) else (m0, k0)) else (m1, k1) = (m0, k0)) ->
  (if ok6 && on4 then (m2, k2) = (if nfb && k1 && negb fa && negb fb then (m1 ++ [st], false) else (m1, k1)) else (m2, k2) = (m1, k1)) ->
  (m2, k2) = (if nfb && k0 && (on6 || on4) && negb f0 && negb f1 then (m0 ++ [st], false) else (m0, k0)).
Proof.
  intros Hoff Hon H1 H2. destruct on6.
  - clear Hoff. specialize (Hon eq_refl). cbn [orb]. rewrite andb_true_r.
    destruct (nfb && k0 && negb f0 && negb f1) eqn:C.
    + injection H1 as -> ->. rewrite andb_false_r in H2. cbn [andb] in H2. destruct (ok6 && on4); exact H2.
    + injection H1 as -> ->. destruct (ok6 && on4) eqn:B; [|exact H2]. apply andb_true_iff in B as [-> _].
      destruct (Hon eq_refl) as [-> ->]. cbn [negb] in C. rewrite !andb_true_r in C.
      rewrite C in H2. cbn [andb] in H2. exact H2.
  - clear Hon. destruct (Hoff eq_refl) as (-> & -> & ->). injection H1 as -> ->. cbn [andb orb] in *.
    destruct on4; [rewrite andb_true_r; exact H2|]. rewrite andb_false_r. cbn [andb]. exact H2.
Qed.

(* ------------------------------------------------------------------ *)
Definition td_faulted (faults : faultfn) (r : result) : bool :=
  existsb faults (seq (r_fin_at r) (r_ncmds r - r_fin_at r)).
Definition flush_failed (r : result) : bool := existsb is_failed_flush (r_events r).
Definition disable_failed (r : result) : bool := existsb is_failed_disable (r_events r).
Definition own_del (c : cfg) (L : list (tok * bytes)) : list (tok * bytes) :=
  opt_del (fc_on (c_v4 c)) (pf_anchor V4 (fc_port (c_v4 c)))
          (opt_del (fc_on (c_v6 c)) (pf_anchor V6 (fc_port (c_v6 c))) L).
Definition fresh2 (p : pfstate) : Prop :=
  ~ In (dec (pf_next p)) (pf_refs p) /\ ~ In (dec (N.succ (pf_next p))) (pf_refs p).

Lemma restore_next_bounds os py n : n < restore_next os py n <= S (S n).
Proof.
  unfold restore_next. destruct os; try (destruct (Z.eqb (py_started py) 1); lia).
  destruct (rev (py_tokens py)); lia.
Qed.

Lemma td_faulted_false faults r :
  td_faulted faults r = false -> forall k, r_fin_at r <= k < r_ncmds r -> faults k = false.
Proof.
  unfold td_faulted. intros H k Hk. destruct (faults k) eqn:F; [|reflexivity].
  assert (X : existsb faults (seq (r_fin_at r) (r_ncmds r - r_fin_at r)) = true).
  { apply existsb_exists. exists k. split; [apply in_seq; lia | exact F]. }
  congruence.
Qed.

Lemma rev_nil_inv {A} (l : list A) : rev l = [] -> l = [].
Proof. intro H. rewrite <- (rev_involutive l), H. reflexivity. Qed.

Lemma setup_gen os a t faults n py p ok py' p' : os <> Darwin -> SetupF os a t faults n py p ok py' p' ->
  (pf_on p', pf_refs p', py_started py') =
  if ok then gen_setup (pf_on p, pf_refs p, py_started py) else (pf_on p, pf_refs p, py_started py).
Proof.
  intros Hos S. destruct ok.
  - destruct (sf_ok _ _ _ _ _ _ _ _ _ _ S eq_refl) as [SS _]. exact (gen_ss _ _ _ _ _ _ _ Hos SS).
  - destruct (sf_fail _ _ _ _ _ _ _ _ _ _ S eq_refl) as (-> & -> & _ & -> & _). reflexivity.
Qed.

Lemma setup_dar a t faults n py p ok py' p' : SetupF Darwin a t faults n py p ok py' p' ->
  pf_on p' = pf_on p /\ (pf_refs p', pf_next p', py_tokens py') = dsetup ok (pf_refs p, pf_next p, py_tokens py).
Proof.
  intro S. unfold dsetup. destruct ok.
  - destruct (sf_ok _ _ _ _ _ _ _ _ _ _ S eq_refl) as [SS _]. exact (dar_ss _ _ _ _ _ _ SS).
  - destruct (sf_fail _ _ _ _ _ _ _ _ _ _ S eq_refl) as (-> & -> & -> & -> & _). split; reflexivity.
Qed.

Lemma has_mark_app m a b : has_mark m (a ++ b) = has_mark m a || has_mark m b.
Proof. unfold has_mark. apply existsb_app. Qed.

Lemma pf_core os c cut faults s0 :
  c_method c = MPf os -> c_repaired c = true -> c_udp c = false -> c_nlines c <= cut ->
  pf_loaded (k_pf s0) = true -> calls_ok (pf_calls (k_pf s0)) = true ->
  (forall f, fc_on (fcfg c f) = true -> nlfree (fc_port (fcfg c f)) = true) ->
  (os = Darwin -> fresh2 (k_pf s0)) ->
  let r := session c cut faults s0 in
  let p0 := k_pf s0 in
  exists p4 (ok4 : bool),
    r_final r = with_pf s0 p4 /\ pf_loaded p4 = true /\ calls_ok (pf_calls p4) = true /\
    (pf_main p4, pf_skip_lo p4) =
      (if negb (is_freebsd os) && pf_skip_lo p0 && (fc_on (c_v6 c) || fc_on (c_v4 c)) && negb (faults 0) && negb (faults 1)
       then (pf_main p0 ++ [skiptext os], false) else (pf_main p0, pf_skip_lo p0)) /\
    own_del c (pf_anchors p4) = own_del c (pf_anchors p0) /\
    (match os with
     | Darwin => pf_on p4 = pf_on p0 /\ exists l, pf_refs p4 = pf_refs p0 ++ l
     | _ => pf_refs p4 = pf_refs p0 /\ (pf_enabled p0 = true -> pf_on p4 = pf_on p0)
     end) /\
    (td_faulted faults r = false ->
     pf_on p4 = pf_on p0 /\ pf_refs p4 = pf_refs p0 /\ pf_anchors p4 = own_del c (pf_anchors p0)) /\
    (flush_failed r = false -> pf_anchors p4 = own_del c (pf_anchors p0)) /\
    (disable_failed r = false -> pf_on p4 = pf_on p0 /\ pf_refs p4 = pf_refs p0) /\
    (forall f, fc_on (fcfg c f) = true -> has_mark (MRestore f) (r_events r) = true) /\
    (ok4 = true -> has_mark MStarted (r_events r) = true) /\
    ((forall k, faults k = false) -> ok4 = true).
Proof.
  intros Hm Hrep Hudp Hle Hl Hc Hn Hfr r p0.
  destruct (pf_session_f os c cut faults s0 Hm Hrep Hudp Hle Hl Hc Hn)
    as (ok6 & py1 & n1 & p1 & ok4 & py2 & n2 & p2 & py3 & n3 & p3 & ev3 & py4 & n4 & p4 & ev4 & evA & evB &
        Ef & Efin & Encm & Eev & S1 & S2 & S3 & S4).
  fold r in Ef, Efin, Encm, Eev.
  set (on6 := fc_on (c_v6 c)) in *. set (on4 := fc_on (c_v4 c)) in *.
  set (a6 := pf_anchor V6 (fc_port (c_v6 c))) in *. set (a4 := pf_anchor V4 (fc_port (c_v4 c))) in *.
  exists p4, ok4.
  assert (Hoff : on6 = false -> ok6 = true /\ n1 = 0).
  { intro E. rewrite E in S1. destruct S1 as (-> & _ & _ & ->). split; reflexivity. }
  (* loaded, calls *)
  assert (L2 : pf_loaded p2 = true /\ calls_ok (pf_calls p2) = true).
  { assert (L1 : pf_loaded p1 = true /\ calls_ok (pf_calls p1) = true).
    { destruct on6; [split; [exact (sf_loaded _ _ _ _ _ _ _ _ _ _ S1) | exact (sf_calls _ _ _ _ _ _ _ _ _ _ S1)]|].
      destruct S1 as (_ & _ & -> & _). split; assumption. }
    destruct (ok6 && on4); [split; [exact (sf_loaded _ _ _ _ _ _ _ _ _ _ S2) | exact (sf_calls _ _ _ _ _ _ _ _ _ _ S2)]|].
    destruct S2 as (_ & _ & ->). exact L1. }
  assert (Same3 : pf_main p3 = pf_main p2 /\ pf_skip_lo p3 = pf_skip_lo p2 /\ pf_calls p3 = pf_calls p2 /\ pf_loaded p3 = true).
  { destruct on6.
    - destruct (rf_same _ _ _ _ _ _ _ _ _ _ S3) as (-> & -> & _ & ->). repeat split. exact (rf_loaded _ _ _ _ _ _ _ _ _ _ S3).
    - destruct S3 as (_ & -> & _). repeat split. exact (proj1 L2). }
  assert (Same4 : pf_main p4 = pf_main p2 /\ pf_skip_lo p4 = pf_skip_lo p2 /\ pf_calls p4 = pf_calls p2 /\ pf_loaded p4 = true).
  { destruct Same3 as (E1 & E2 & E3 & E4). destruct on4.
    - destruct (rf_same _ _ _ _ _ _ _ _ _ _ S4) as (-> & -> & _ & ->). repeat split; try assumption. exact (rf_loaded _ _ _ _ _ _ _ _ _ _ S4).
    - destruct S4 as (_ & -> & _). repeat split; assumption. }
  destruct Same4 as (M4 & K4 & C4 & L4).
  split; [exact Ef|]. split; [exact L4|]. split; [rewrite C4; exact (proj2 L2)|].
  (* main ruleset *)
  split.
  { rewrite M4, K4.
    apply (main_chain (negb (is_freebsd os)) on6 on4 ok6 (faults 0) (faults 1) (faults n1) (faults (S n1)) (skiptext os)
                      (pf_main p0) (pf_main p1) (pf_main p2) (pf_skip_lo p0) (pf_skip_lo p1) (pf_skip_lo p2)).
    - intro E. destruct (Hoff E) as [-> ->]. repeat split; reflexivity.
    - intros E6 Eok. rewrite E6 in S1. rewrite Eok in S1. exact (proj2 (sf_ok _ _ _ _ _ _ _ _ _ _ S1 eq_refl)).
    - destruct on6; [exact (sf_main _ _ _ _ _ _ _ _ _ _ S1)|]. destruct S1 as (_ & _ & -> & _). reflexivity.
    - destruct (ok6 && on4); [exact (sf_main _ _ _ _ _ _ _ _ _ _ S2)|]. destruct S2 as (_ & _ & ->). reflexivity. }
  (* anchors *)
  destruct (anch_chain on6 on4 ok6 (faults n2) (faults n3) a6 a4
              (pf_anchors p0) (pf_anchors p1) (pf_anchors p2) (pf_anchors p3) (pf_anchors p4)) as [AnF AnC].
  { destruct on6; [exact (sf_anch _ _ _ _ _ _ _ _ _ _ S1)|]. destruct S1 as (_ & _ & -> & _). reflexivity. }
  { destruct (ok6 && on4); [exact (sf_anch _ _ _ _ _ _ _ _ _ _ S2)|]. destruct S2 as (_ & _ & ->). reflexivity. }
  { destruct on6; [exact (rf_anch _ _ _ _ _ _ _ _ _ _ S3)|]. destruct S3 as (_ & -> & _). reflexivity. }
  { destruct on4; [exact (rf_anch _ _ _ _ _ _ _ _ _ _ S4)|]. destruct S4 as (_ & -> & _). reflexivity. }
  cbv beta in AnF, AnC. fold (own_del c (pf_anchors p4)) in AnF. fold (own_del c (pf_anchors p0)) in AnF, AnC.
  split; [exact AnF|].
  (* indices *)
  assert (N3 : n2 <= n3 <= S (S n2) /\ (on6 = true -> n3 = restore_next os py2 n2)).
  { destruct on6.
    - pose proof (rf_n _ _ _ _ _ _ _ _ _ _ S3) as E. pose proof (restore_next_bounds os py2 n2). split; [lia | intros _; exact E].
    - destruct S3 as (_ & _ & ->). split; [lia | discriminate]. }
  assert (N4 : n3 <= n4 /\ (on4 = true -> n4 = restore_next os py3 n3)).
  { destruct on4.
    - pose proof (rf_n _ _ _ _ _ _ _ _ _ _ S4) as E. pose proof (restore_next_bounds os py3 n3). split; [lia | intros _; exact E].
    - destruct S4 as (_ & _ & ->). split; [lia | discriminate]. }
  assert (TD : td_faulted faults r = false -> forall k, n2 <= k < n4 -> faults k = false).
  { intros H k Hk. apply (td_faulted_false faults r H). rewrite Efin, Encm. exact Hk. }
  assert (B16 : td_faulted faults r = false -> on6 = true -> faults n2 = false).
  { intros H E. apply (TD H). pose proof (restore_next_bounds os py2 n2). rewrite <- (proj2 N3 E) in *. lia. }
  assert (B14 : td_faulted faults r = false -> on4 = true -> faults n3 = false).
  { intros H E. apply (TD H). pose proof (restore_next_bounds os py3 n3). rewrite <- (proj2 N4 E) in *. lia. }
  (* a failed -d / -X of either restore shows in the trace *)
  assert (DF : disable_failed r = false ->
               (on6 = true -> n3 = S (S n2) -> faults (S n2) = false) /\ (on4 = true -> n4 = S (S n3) -> faults (S n3) = false)).
  { intro H. unfold disable_failed in H. rewrite Eev in H. rewrite !existsb_app in H.
    apply orb_false_iff in H as [_ H]. apply orb_false_iff in H as [_ H]. apply orb_false_iff in H as [H3 H].
    apply orb_false_iff in H as [H4' _]. split.
    - intros E En. fold on6 in H3. rewrite E in H3. cbn [existsb is_failed_disable orb] in H3.
      destruct (faults (S n2)) eqn:F; [|reflexivity]. rewrite E in S3. rewrite (rf_ev2 _ _ _ _ _ _ _ _ _ _ S3 En F) in H3. discriminate.
    - intros E En. fold on4 in H4'. rewrite E in H4'. cbn [existsb is_failed_disable orb] in H4'.
      destruct (faults (S n3)) eqn:F; [|reflexivity]. rewrite E in S4. rewrite (rf_ev2 _ _ _ _ _ _ _ _ _ _ S4 En F) in H4'. discriminate. }
  (* enable state *)
  assert (EN : (match os with
                | Darwin => pf_on p4 = pf_on p0 /\ exists l, pf_refs p4 = pf_refs p0 ++ l
                | _ => pf_refs p4 = pf_refs p0 /\ (pf_enabled p0 = true -> pf_on p4 = pf_on p0)
                end) /\
               ((td_faulted faults r = false \/ disable_failed r = false) -> pf_on p4 = pf_on p0 /\ pf_refs p4 = pf_refs p0)).
  { assert (B2 : (td_faulted faults r = false \/ disable_failed r = false) ->
                 (on6 = true -> n3 = S (S n2) -> faults (S n2) = false) /\ (on4 = true -> n4 = S (S n3) -> faults (S n3) = false)).
    { intros [H|H]; [|exact (DF H)]. split; intros E En; apply (TD H); lia. }
    assert (Hok : on6 = false -> ok6 = true) by (intro E; exact (proj1 (Hoff E))).
    assert (D : os = Darwin \/ os <> Darwin) by (destruct os; [right; discriminate | right; discriminate | left; reflexivity]).
    destruct D as [->|Hos].
    - (* Darwin *)
      destruct (Hfr eq_refl) as [F1 F2]. fold p0 in F1, F2.
      assert (Y1 : pf_on p1 = pf_on p0 /\
                   (pf_refs p1, pf_next p1, py_tokens py1) =
                   (if on6 then dsetup ok6 (pf_refs p0, pf_next p0, @nil tok) else (pf_refs p0, pf_next p0, @nil tok))).
      { destruct on6; [exact (setup_dar _ _ _ _ _ _ _ _ _ S1)|]. destruct S1 as (_ & -> & -> & _). split; reflexivity. }
      assert (Y2 : pf_on p2 = pf_on p1 /\
                   (pf_refs p2, pf_next p2, py_tokens py2) =
                   (if ok6 && on4 then dsetup ok4 (pf_refs p1, pf_next p1, py_tokens py1) else (pf_refs p1, pf_next p1, py_tokens py1))).
      { destruct (ok6 && on4); [exact (setup_dar _ _ _ _ _ _ _ _ _ S2)|]. destruct S2 as (_ & -> & ->). split; reflexivity. }
      assert (Y3 : pf_on p3 = pf_on p2 /\
                   (pf_refs p3, py_tokens py3) =
                   (if on6 then drestore (faults (S n2)) (pf_refs p2, py_tokens py2) else (pf_refs p2, py_tokens py2))).
      { destruct on6; [|destruct S3 as (-> & -> & _); split; reflexivity].
        destruct (rf_en _ _ _ _ _ _ _ _ _ _ S3) as (E1 & _ & E2). split; assumption. }
      assert (Y4 : pf_on p4 = pf_on p3 /\
                   (pf_refs p4, py_tokens py4) =
                   (if on4 then drestore (faults (S n3)) (pf_refs p3, py_tokens py3) else (pf_refs p3, py_tokens py3))).
      { destruct on4; [|destruct S4 as (-> & -> & _); split; reflexivity].
        destruct (rf_en _ _ _ _ _ _ _ _ _ _ S4) as (E1 & _ & E2). split; assumption. }
      destruct Y1 as [O1 Y1], Y2 as [O2 Y2], Y3 as [O3 Y3], Y4 as [O4 Y4].
      assert (On : pf_on p4 = pf_on p0) by congruence.
      pose proof (dar_chain on6 on4 ok6 ok4 (faults (S n2)) (faults (S n3)) (pf_refs p0) (pf_next p0) F1 F2 Hok) as G.
      cbv zeta in G. rewrite <- Y1 in G. rewrite <- Y2 in G. cbn [fst snd] in G. rewrite <- Y3 in G. rewrite <- Y4 in G. cbn [fst snd] in G.
      destruct G as [G1 G2]. split; [split; [exact On | exact G1]|].
      intro H. destruct (B2 H) as [Q6 Q4]. split; [exact On|]. apply G2.
      + intros E NE. apply (Q6 E). rewrite (proj2 N3 E). unfold restore_next.
        destruct (rev (py_tokens py2)) eqn:R; [apply rev_nil_inv in R; contradiction | reflexivity].
      + intros E NE. apply (Q4 E). rewrite (proj2 N4 E). unfold restore_next.
        destruct (rev (py_tokens py3)) eqn:R; [apply rev_nil_inv in R; contradiction | reflexivity].
    - (* FreeBSD, OpenBSD *)
      assert (X1 : (pf_on p1, pf_refs p1, py_started py1) =
                   (if on6 then (if ok6 then gen_setup (pf_on p0, pf_refs p0, 0%Z) else (pf_on p0, pf_refs p0, 0%Z)) else (pf_on p0, pf_refs p0, 0%Z))).
      { destruct on6; [exact (setup_gen _ _ _ _ _ _ _ _ _ _ Hos S1)|]. destruct S1 as (_ & -> & -> & _). reflexivity. }
      assert (X2 : (pf_on p2, pf_refs p2, py_started py2) =
                   (if ok6 && on4 then (if ok4 then gen_setup (pf_on p1, pf_refs p1, py_started py1) else (pf_on p1, pf_refs p1, py_started py1))
                    else (pf_on p1, pf_refs p1, py_started py1))).
      { destruct (ok6 && on4); [exact (setup_gen _ _ _ _ _ _ _ _ _ _ Hos S2)|]. destruct S2 as (_ & -> & ->). reflexivity. }
      assert (X3 : (pf_on p3, pf_refs p3, py_started py3) =
                   (if on6 then grestore (faults (S n2)) (pf_on p2, pf_refs p2, py_started py2) else (pf_on p2, pf_refs p2, py_started py2))).
      { destruct on6; [|destruct S3 as (-> & -> & _); reflexivity].
        pose proof (rf_en _ _ _ _ _ _ _ _ _ _ S3) as E. destruct os; [exact (proj2 E) | exact (proj2 E) | contradiction]. }
      assert (X4 : (pf_on p4, pf_refs p4, py_started py4) =
                   (if on4 then grestore (faults (S n3)) (pf_on p3, pf_refs p3, py_started py3) else (pf_on p3, pf_refs p3, py_started py3))).
      { destruct on4; [|destruct S4 as (-> & -> & _); reflexivity].
        pose proof (rf_en _ _ _ _ _ _ _ _ _ _ S4) as E. destruct os; [exact (proj2 E) | exact (proj2 E) | contradiction]. }
      pose proof (gen_chain on6 on4 ok6 ok4 (faults (S n2)) (faults (S n3)) (pf_on p0) (pf_refs p0) Hok) as G.
      cbv zeta in G. rewrite <- X1 in G. rewrite <- X2 in G. rewrite <- X3 in G. rewrite <- X4 in G. cbn [fst snd] in G.
      destruct G as [[G1 G2] G3].
      assert (R : match os with
                  | Darwin => pf_on p4 = pf_on p0 /\ (exists l : list tok, pf_refs p4 = pf_refs p0 ++ l)
                  | _ => pf_refs p4 = pf_refs p0 /\ (pf_enabled p0 = true -> pf_on p4 = pf_on p0)
                  end).
      { destruct os; [split; [exact G1 | exact G2] | split; [exact G1 | exact G2] | contradiction]. }
      split; [exact R|]. intro H. destruct (B2 H) as [Q6 Q4]. split; [|exact G1]. apply G3.
      + intros E St. apply (Q6 E). rewrite (proj2 N3 E). unfold restore_next. rewrite St.
        destruct os; [reflexivity | reflexivity | contradiction].
      + intros E St. apply (Q4 E). rewrite (proj2 N4 E). unfold restore_next. rewrite St.
        destruct os; [reflexivity | reflexivity | contradiction]. }
  destruct EN as [EN1 EN2].
  split; [exact EN1|].
  split.
  { intro H. destruct (EN2 (or_introl H)) as [E1 E2]. split; [exact E1|]. split; [exact E2|].
    apply AnC; [exact (B16 H) | exact (B14 H)]. }
  (* failed flush *)
  split.
  { intro H. unfold flush_failed in H. rewrite Eev in H. rewrite !existsb_app in H.
    apply orb_false_iff in H as [_ H]. apply orb_false_iff in H as [_ H]. apply orb_false_iff in H as [H3 H].
    apply orb_false_iff in H as [H4' _].
    apply AnC.
    - intro E. fold on6 in H3. rewrite E in H3. cbn [existsb is_failed_flush orb] in H3.
      destruct (faults n2) eqn:F; [|reflexivity]. rewrite E in S3. rewrite (rf_ev _ _ _ _ _ _ _ _ _ _ S3 F) in H3. discriminate.
    - intro E. fold on4 in H4'. rewrite E in H4'. cbn [existsb is_failed_flush orb] in H4'.
      destruct (faults n3) eqn:F; [|reflexivity]. rewrite E in S4. rewrite (rf_ev _ _ _ _ _ _ _ _ _ _ S4 F) in H4'. discriminate. }
  split; [intro H; exact (EN2 (or_intror H))|].
  (* marks *)
  split.
  { intros f On. rewrite Eev. rewrite !has_mark_app. destruct f; cbn [fcfg] in On.
    - fold on6. fold on6 in On. rewrite On. cbn [has_mark existsb]. rewrite !orb_true_r. reflexivity.
    - fold on4. fold on4 in On. rewrite On. cbn [has_mark existsb]. rewrite !orb_true_r. reflexivity. }
  split.
  { intros ->. rewrite Eev. rewrite !has_mark_app. cbn [has_mark existsb]. rewrite !orb_true_r. reflexivity. }
  intro NF.
  assert (O6 : ok6 = true).
  { destruct on6 eqn:E; [|exact (proj1 (Hoff eq_refl))]. destruct ok6; [reflexivity|].
    destruct (sf_fail _ _ _ _ _ _ _ _ _ _ S1 eq_refl) as (_ & _ & _ & _ & k & Fk). rewrite NF in Fk. discriminate. }
  subst ok6. cbn [andb] in S2. destruct on4.
  - destruct ok4; [reflexivity|]. destruct (sf_fail _ _ _ _ _ _ _ _ _ _ S2 eq_refl) as (_ & _ & _ & _ & k & Fk). rewrite NF in Fk. discriminate.
  - exact (proj1 S2).
Qed.

(* ------------------------------------------------------------------ *)
Definition f43_hits (os : pfos) (c : cfg) (cut : nat) (faults : faultfn) (s0 : kstate) : bool :=
  Nat.leb (c_nlines c) cut && pf_loaded (k_pf s0) &&
  (negb (is_freebsd os) && pf_skip_lo (k_pf s0) && (fc_on (c_v6 c) || fc_on (c_v4 c)) && negb (faults 0) && negb (faults 1)).

Lemma own_del_start os c s0 : pf_start_ok os c s0 -> own_del c (pf_anchors (k_pf s0)) = pf_anchors (k_pf s0).
Proof.
  intros (_ & Hf & _). unfold own_del, opt_del.
  pose proof (fun On => proj2 (Hf V6 On)) as A6. pose proof (fun On => proj2 (Hf V4 On)) as A4. cbn [fcfg] in A6, A4.
  destruct (fc_on (c_v6 c)); destruct (fc_on (c_v4 c)); try rewrite (A6 eq_refl); try rewrite (A4 eq_refl); reflexivity.
Qed.


Lemma restore_marks c cut faults s0 :
  c_nlines c <= cut -> forall f, fc_on (fcfg c f) = true ->
  has_mark (MRestore f) (r_events (session c cut faults s0)) = true.
Proof.
  intros Hle f On. unfold session. rewrite (proj2 (Nat.ltb_ge _ _) Hle).
  repeat match goal with
         | |- context [match ?X with pair _ _ => _ end] =>
             first [destruct X as [[[[? ?] ?] ?] ?] eqn:? | destruct X as [? ?] eqn:?]
         end.
  cbn [r_events]. rewrite !has_mark_app.
  assert (H1 : fc_on (c_v6 c) = true -> has_mark (MRestore V6) l1 = true).
  { intro E. rewrite E in Heqp2. destruct (udp_refused c).
    - injection Heqp2 as _ _ _ _ <-. reflexivity.
    - destruct (do_restore faults c V6 p0 n0 k0) as [[[[? ?] ?] ?] ?]. injection Heqp2 as _ _ _ _ <-. reflexivity. }
  assert (H2 : fc_on (c_v4 c) = true -> has_mark (MRestore V4) l2 = true).
  { intro E. rewrite E in Heqp3. destruct (udp_refused c).
    - injection Heqp3 as _ _ _ _ <-. reflexivity.
    - destruct (do_restore faults c V4 p1 n2 k1) as [[[[? ?] ?] ?] ?]. injection Heqp3 as _ _ _ _ <-. reflexivity. }
  destruct f; cbn [fcfg] in On; [rewrite (H1 On) | rewrite (H2 On)]; rewrite !orb_true_r; reflexivity.
Qed.

(* every exit, every script *)
Theorem pf_every_exit os c cut faults s0 :
  c_method c = MPf os -> c_repaired c = true -> c_udp c = false -> pf_start_ok os c s0 ->
  let r := session c cut faults s0 in
  let sf := r_final r in
  sf = with_pf s0 (k_pf sf) /\
  pf_loaded (k_pf sf) = pf_loaded (k_pf s0) /\
  calls_ok (pf_calls (k_pf sf)) = true /\
  (pf_main (k_pf sf), pf_skip_lo (k_pf sf)) =
    (if f43_hits os c cut faults s0 then (pf_main (k_pf s0) ++ [skiptext os], false)
     else (pf_main (k_pf s0), pf_skip_lo (k_pf s0))) /\
  own_del c (pf_anchors (k_pf sf)) = pf_anchors (k_pf s0) /\
  (match os with
   | Darwin => pf_on (k_pf sf) = pf_on (k_pf s0) /\ exists l, pf_refs (k_pf sf) = pf_refs (k_pf s0) ++ l
   | _ => pf_refs (k_pf sf) = pf_refs (k_pf s0) /\ (pf_enabled (k_pf s0) = true -> pf_on (k_pf sf) = pf_on (k_pf s0))
   end) /\
  (c_nlines c <= cut -> forall f, fc_on (fcfg c f) = true -> has_mark (MRestore f) (r_events r) = true).
Proof.
  intros Hm Hrep Hudp Hs. pose proof Hs as (Hc & Hf & Hd). cbv zeta.
  assert (Same : r_final (session c cut faults s0) = s0 -> f43_hits os c cut faults s0 = false ->
    let sf := r_final (session c cut faults s0) in
    sf = with_pf s0 (k_pf sf) /\ pf_loaded (k_pf sf) = pf_loaded (k_pf s0) /\ calls_ok (pf_calls (k_pf sf)) = true /\
    (pf_main (k_pf sf), pf_skip_lo (k_pf sf)) =
      (if f43_hits os c cut faults s0 then (pf_main (k_pf s0) ++ [skiptext os], false) else (pf_main (k_pf s0), pf_skip_lo (k_pf s0))) /\
    own_del c (pf_anchors (k_pf sf)) = pf_anchors (k_pf s0) /\
    (match os with
     | Darwin => pf_on (k_pf sf) = pf_on (k_pf s0) /\ exists l, pf_refs (k_pf sf) = pf_refs (k_pf s0) ++ l
     | _ => pf_refs (k_pf sf) = pf_refs (k_pf s0) /\ (pf_enabled (k_pf s0) = true -> pf_on (k_pf sf) = pf_on (k_pf s0))
     end)).
  { intros E F. cbv zeta. rewrite E, F, with_pf_id. repeat split; try reflexivity; try exact Hc.
    - exact (own_del_start os c s0 Hs).
    - destruct os; try (split; [reflexivity | intros _; reflexivity]). split; [reflexivity | exists []; rewrite app_nil_r; reflexivity]. }
  destruct (Nat.ltb cut (c_nlines c)) eqn:Lt.
  - apply Nat.ltb_lt in Lt.
    assert (F : f43_hits os c cut faults s0 = false).
    { unfold f43_hits. assert (X : Nat.leb (c_nlines c) cut = false) by (apply Nat.leb_gt; exact Lt). rewrite X. reflexivity. }
    destruct (Same (proj1 (proj2 (no_command_before_go c cut faults s0 Lt))) F) as (A & B & C & D & E & G).
    repeat split; try assumption. intro; lia.
  - apply Nat.ltb_ge in Lt. destruct (pf_loaded (k_pf s0)) eqn:Hl.
    2:{ assert (F : f43_hits os c cut faults s0 = false) by (unfold f43_hits; rewrite Hl, andb_false_r; reflexivity).
        destruct (Same (pf_session_unloaded_f os c cut faults s0 Hm Hudp Lt Hl) F) as (A & B & C & D & E & G).
        repeat split; try assumption. intros _. exact (restore_marks c cut faults s0 Lt). }
    destruct (pf_core os c cut faults s0 Hm Hrep Hudp Lt Hl Hc (fun f On => proj1 (Hf f On)) Hd)
      as (p4 & ok4 & Ef & L4 & C4 & M4 & A4 & En & _ & _ & _ & Mk & _).
    rewrite Ef. cbn [k_pf with_pf].
    assert (F : f43_hits os c cut faults s0 =
                negb (is_freebsd os) && pf_skip_lo (k_pf s0) && (fc_on (c_v6 c) || fc_on (c_v4 c)) && negb (faults 0) && negb (faults 1)).
    { unfold f43_hits. rewrite Hl. assert (X : Nat.leb (c_nlines c) cut = true) by (apply Nat.leb_le; exact Lt). rewrite X.
      cbn [andb]. rewrite <- !andb_assoc. reflexivity. }
    rewrite F. split; [reflexivity|]. split; [exact L4|]. split; [exact C4|]. split; [exact M4|].
    split; [rewrite A4; exact (own_del_start os c s0 Hs)|]. split; [exact En|]. intros _. exact Mk.
Qed.

Lemma td_no_faults r : td_faulted no_faults r = false.
Proof. unfold td_faulted. induction (seq (r_fin_at r) (r_ncmds r - r_fin_at r)); [reflexivity | exact IHl]. Qed.

(* all exits whose tear-down commands are not scripted to fail: the identity (up to F43, characterised exactly) *)
Theorem pf_all_exits_td os c cut faults s0 :
  c_method c = MPf os -> c_repaired c = true -> c_udp c = false -> pf_start_ok os c s0 ->
  td_faulted faults (session c cut faults s0) = false ->
  let sf := r_final (session c cut faults s0) in
  sf = with_pf s0 (k_pf sf) /\
  pf_loaded (k_pf sf) = pf_loaded (k_pf s0) /\ pf_on (k_pf sf) = pf_on (k_pf s0) /\
  pf_refs (k_pf sf) = pf_refs (k_pf s0) /\ pf_anchors (k_pf sf) = pf_anchors (k_pf s0) /\
  (pf_main (k_pf sf), pf_skip_lo (k_pf sf)) =
    (if f43_hits os c cut faults s0 then (pf_main (k_pf s0) ++ [skiptext os], false)
     else (pf_main (k_pf s0), pf_skip_lo (k_pf s0))).
Proof.
  intros Hm Hrep Hudp Hs Htd. cbv zeta.
  destruct (pf_every_exit os c cut faults s0 Hm Hrep Hudp Hs) as (A & B & _ & D & _).
  split; [exact A|]. split; [exact B|].
  pose proof Hs as (Hc & Hf & Hd).
  assert (G : pf_on (k_pf (r_final (session c cut faults s0))) = pf_on (k_pf s0) /\
              pf_refs (k_pf (r_final (session c cut faults s0))) = pf_refs (k_pf s0) /\
              pf_anchors (k_pf (r_final (session c cut faults s0))) = pf_anchors (k_pf s0)).
  { destruct (Nat.ltb cut (c_nlines c)) eqn:Lt.
    - apply Nat.ltb_lt in Lt. rewrite (proj1 (proj2 (no_command_before_go c cut faults s0 Lt))). repeat split.
    - apply Nat.ltb_ge in Lt. destruct (pf_loaded (k_pf s0)) eqn:Hl.
      2:{ rewrite (pf_session_unloaded_f os c cut faults s0 Hm Hudp Lt Hl). repeat split. }
      destruct (pf_core os c cut faults s0 Hm Hrep Hudp Lt Hl Hc (fun f On => proj1 (Hf f On)) Hd)
        as (p4 & ok4 & Ef & _ & _ & _ & _ & _ & Td & _).
      destruct (Td Htd) as (E1 & E2 & E3). rewrite Ef. cbn [k_pf with_pf].
      split; [exact E1|]. split; [exact E2|]. rewrite E3. exact (own_del_start os c s0 Hs). }
  destruct G as (G1 & G2 & G3). split; [exact G1|]. split; [exact G2|]. split; [exact G3 | exact D].
Qed.

Corollary pf_all_exits_td_bool os c cut faults s0 :
  c_method c = MPf os -> c_repaired c = true -> c_udp c = false -> pf_start_ok os c s0 ->
  td_faulted faults (session c cut faults s0) || f43_hits os c cut faults s0 = false ->
  pf_same_but_calls (k_pf (r_final (session c cut faults s0))) (k_pf s0) = true.
Proof.
  intros Hm Hrep Hudp Hs Hk. apply orb_false_iff in Hk as [Htd Hf].
  destruct (pf_all_exits_td os c cut faults s0 Hm Hrep Hudp Hs Htd) as (_ & E1 & E2 & E3 & E4 & E5).
  rewrite Hf in E5. injection E5 as E6 E7. unfold pf_same_but_calls. rewrite E1, E2, E3, E4, E6, E7.
  rewrite !Bool.eqb_reflx, !rule_eqb_refl, anchors_eqb_refl. reflexivity.
Qed.

Lemma td_fault_at_outside k r : k < r_fin_at r \/ r_ncmds r <= k -> td_faulted (fault_at k) r = false.
Proof.
  intro H. unfold td_faulted. destruct (existsb (fault_at k) (seq (r_fin_at r) (r_ncmds r - r_fin_at r))) eqn:E; [|reflexivity].
  apply existsb_exists in E as (j & Hj & Fj). apply in_seq in Hj. unfold fault_at in Fj. apply Nat.eqb_eq in Fj. lia.
Qed.

(* the shape of sess_ok's second clause: ONE failing command, before the finally block (or never issued) *)
Corollary pf_setup_fault_identity os c cut k s0 :
  c_method c = MPf os -> c_repaired c = true -> c_udp c = false -> pf_start_ok os c s0 ->
  (let r := session c cut (fault_at k) s0 in k < r_fin_at r \/ r_ncmds r <= k) ->
  f43_hits os c cut (fault_at k) s0 = false ->
  pf_same_but_calls (k_pf (r_final (session c cut (fault_at k) s0))) (k_pf s0) = true.
Proof.
  intros Hm Hrep Hudp Hs Hk Hf. apply (pf_all_exits_td_bool os c cut (fault_at k) s0 Hm Hrep Hudp Hs).
  rewrite (td_fault_at_outside k _ Hk), Hf. reflexivity.
Qed.

(* no failing `pfctl -a <anchor> -F all` at tear-down: nothing the session loaded is left, whatever else fails *)
Theorem pf_flush_ok_clean os c cut faults s0 :
  c_method c = MPf os -> c_repaired c = true -> c_udp c = false -> pf_start_ok os c s0 ->
  flush_failed (session c cut faults s0) = false ->
  pf_anchors (k_pf (r_final (session c cut faults s0))) = pf_anchors (k_pf s0).
Proof.
  intros Hm Hrep Hudp Hs Hff. pose proof Hs as (Hc & Hf & Hd).
  destruct (Nat.ltb cut (c_nlines c)) eqn:Lt.
  - apply Nat.ltb_lt in Lt. rewrite (proj1 (proj2 (no_command_before_go c cut faults s0 Lt))). reflexivity.
  - apply Nat.ltb_ge in Lt. destruct (pf_loaded (k_pf s0)) eqn:Hl.
    2:{ rewrite (pf_session_unloaded_f os c cut faults s0 Hm Hudp Lt Hl). reflexivity. }
    destruct (pf_core os c cut faults s0 Hm Hrep Hudp Lt Hl Hc (fun f On => proj1 (Hf f On)) Hd)
      as (p4 & ok4 & Ef & _ & _ & _ & _ & _ & _ & Fl & _).
    rewrite Ef. cbn [k_pf with_pf]. rewrite (Fl Hff). exact (own_del_start os c s0 Hs).
Qed.

(* ALL EXITS but a failing `pfctl -d` / `pfctl -X <token>`: set-up may fail anywhere, the flushes of the finally
   block may fail too (F150 repaired: the enable bookkeeping runs all the same) — module, enable state and Darwin
   tokens are those before the session; anchors: nobody else's is touched, and the session's own are gone unless
   their own flush failed *)
Theorem pf_all_exits os c cut faults s0 :
  c_method c = MPf os -> c_repaired c = true -> c_udp c = false -> pf_start_ok os c s0 ->
  disable_failed (session c cut faults s0) = false ->
  let sf := r_final (session c cut faults s0) in
  sf = with_pf s0 (k_pf sf) /\
  pf_loaded (k_pf sf) = pf_loaded (k_pf s0) /\ pf_on (k_pf sf) = pf_on (k_pf s0) /\
  pf_refs (k_pf sf) = pf_refs (k_pf s0) /\
  own_del c (pf_anchors (k_pf sf)) = pf_anchors (k_pf s0) /\
  (flush_failed (session c cut faults s0) = false -> pf_anchors (k_pf sf) = pf_anchors (k_pf s0)) /\
  (pf_main (k_pf sf), pf_skip_lo (k_pf sf)) =
    (if f43_hits os c cut faults s0 then (pf_main (k_pf s0) ++ [skiptext os], false)
     else (pf_main (k_pf s0), pf_skip_lo (k_pf s0))).
Proof.
  intros Hm Hrep Hudp Hs Hdf. cbv zeta.
  destruct (pf_every_exit os c cut faults s0 Hm Hrep Hudp Hs) as (A & B & _ & D & E & _).
  split; [exact A|]. split; [exact B|].
  pose proof Hs as (Hc & Hf & Hd).
  assert (G : pf_on (k_pf (r_final (session c cut faults s0))) = pf_on (k_pf s0) /\
              pf_refs (k_pf (r_final (session c cut faults s0))) = pf_refs (k_pf s0)).
  { destruct (Nat.ltb cut (c_nlines c)) eqn:Lt.
    - apply Nat.ltb_lt in Lt. rewrite (proj1 (proj2 (no_command_before_go c cut faults s0 Lt))). split; reflexivity.
    - apply Nat.ltb_ge in Lt. destruct (pf_loaded (k_pf s0)) eqn:Hl.
      2:{ rewrite (pf_session_unloaded_f os c cut faults s0 Hm Hudp Lt Hl). split; reflexivity. }
      destruct (pf_core os c cut faults s0 Hm Hrep Hudp Lt Hl Hc (fun f On => proj1 (Hf f On)) Hd)
        as (p4 & ok4 & Ef & _ & _ & _ & _ & _ & _ & _ & Df & _).
      rewrite Ef. cbn [k_pf with_pf]. exact (Df Hdf). }
  destruct G as (G1 & G2). split; [exact G1|]. split; [exact G2|]. split; [exact E|]. split; [|exact D].
  intro Hff. exact (pf_flush_ok_clean os c cut faults s0 Hm Hrep Hudp Hs Hff).
Qed.

Corollary pf_all_exits_bool os c cut faults s0 :
  c_method c = MPf os -> c_repaired c = true -> c_udp c = false -> pf_start_ok os c s0 ->
  disable_failed (session c cut faults s0) || flush_failed (session c cut faults s0) || f43_hits os c cut faults s0 = false ->
  pf_same_but_calls (k_pf (r_final (session c cut faults s0))) (k_pf s0) = true.
Proof.
  intros Hm Hrep Hudp Hs Hk. apply orb_false_iff in Hk as [Hk Hf]. apply orb_false_iff in Hk as [Hd Hfl].
  destruct (pf_all_exits os c cut faults s0 Hm Hrep Hudp Hs Hd) as (_ & E1 & E2 & E3 & _ & E4 & E5).
  specialize (E4 Hfl). rewrite Hf in E5. injection E5 as E6 E7. unfold pf_same_but_calls. rewrite E1, E2, E3, E4, E6, E7.
  rewrite !Bool.eqb_reflx, !rule_eqb_refl, anchors_eqb_refl. reflexivity.
Qed.

Lemma with_pf_with_pf s p q : with_pf (with_pf s p) q = with_pf s q.
Proof. reflexivity. Qed.

(* what a later session repairs and what it does not: after ANY exit, a later fault-free session on the same
   ports starts, removes whatever anchor content was left, and leaves the enable state exactly as it found it *)
Theorem pf_restartable os c cut faults cut2 s0 :
  c_method c = MPf os -> c_repaired c = true -> c_udp c = false -> pf_start_ok os c s0 ->
  pf_loaded (k_pf s0) = true -> c_nlines c <= cut2 ->
  let s1 := r_final (session c cut faults s0) in
  (os = Darwin -> fresh2 (k_pf s1)) ->
  let r2 := session c cut2 no_faults s1 in
  has_mark MStarted (r_events r2) = true /\
  r_final r2 = with_pf s0 (k_pf (r_final r2)) /\
  pf_loaded (k_pf (r_final r2)) = true /\
  pf_anchors (k_pf (r_final r2)) = pf_anchors (k_pf s0) /\
  pf_on (k_pf (r_final r2)) = pf_on (k_pf s1) /\ pf_refs (k_pf (r_final r2)) = pf_refs (k_pf s1).
Proof.
  intros Hm Hrep Hudp Hs Hl Hle s1 Hfr r2. pose proof Hs as (Hc & Hf & Hd).
  destruct (pf_every_exit os c cut faults s0 Hm Hrep Hudp Hs) as (A & B & C & _ & E & _).
  fold s1 in A, B, C, E. rewrite Hl in B.
  assert (Hn1 : forall f, fc_on (fcfg c f) = true -> nlfree (fc_port (fcfg c f)) = true) by (intros f On; exact (proj1 (Hf f On))).
  destruct (pf_core os c cut2 no_faults s1 Hm Hrep Hudp Hle B C Hn1 Hfr)
    as (p4 & ok4 & Ef & L4 & _ & _ & _ & _ & Td & _ & _ & _ & St & Ok).
  fold r2 in Ef, Td, St.
  destruct (Td (td_no_faults r2)) as (E1 & E2 & E3).
  split; [apply St; apply Ok; reflexivity|].
  rewrite Ef. cbn [k_pf with_pf]. rewrite A at 1. rewrite with_pf_with_pf.
  split; [reflexivity|]. split; [exact L4|]. split; [rewrite E3; exact E|]. split; [exact E1 | exact E2].
Qed.

(* ------------------------------------------------------------------ *)
(* sample plans and scripts (used by the Examples / _refuted witnesses of Props/C04.v) *)
Definition cfg_pf2 (os : pfos) : cfg :=
  mkCfg (MPf os) (mkFam true P1230 [(pf_anchor V6 P1230, [pf_text])]) (mkFam true P1230 [(pf_anchor V4 P1230, [pf_text])])
        None false true 6 [true].
(* pf enabled before the session *)
Definition ex_pf_on_state : kstate :=
  mkK builtin_nat builtin_mangle builtin_nat builtin_mangle []
      (mkPf true true [] 1 false [] [(false, bs "com.apple")] [(bs "com.apple", bs "pass all")]).
(* `set skip on lo` in force, pf disabled *)
Definition ex_pf_skip_off_state : kstate :=
  mkK builtin_nat builtin_mangle builtin_nat builtin_mangle []
      (mkPf true false [] 1 true [bs "block all"] [(false, bs "com.apple")] [(bs "com.apple", bs "pass all")]).
(* a script failing several commands: the listed indices *)
Definition faults_in (l : list nat) : faultfn := fun n => existsb (Nat.eqb n) l.

Lemma pf_start_ok_sample os c s :
  calls_ok (pf_calls (k_pf s)) = true ->
  (forall f, nlfree (fc_port (fcfg c f)) = true /\
             anchor_del (pf_anchor f (fc_port (fcfg c f))) (pf_anchors (k_pf s)) = pf_anchors (k_pf s)) ->
  pf_refs (k_pf s) = [] -> pf_start_ok os c s.
Proof.
  intros H1 H2 H3. split; [exact H1|]. split; [intros f _; exact (H2 f)|].
  intros _. rewrite H3. split; intros [].
Qed.

Lemma pf_samples_start_ok os :
  pf_start_ok os (cfg_pf os true) ex_pf_state /\ pf_start_ok os (cfg_pf2 os) ex_pf_state /\
  pf_start_ok os (cfg_pf os true) ex_pf_on_state /\ pf_start_ok os (cfg_pf2 os) ex_pf_on_state /\
  pf_start_ok os (cfg_pf os true) ex_pf_skip_off_state /\ pf_start_ok os (cfg_pf2 os) ex_pf_skip_off_state.
Proof.
  refine (conj _ (conj _ (conj _ (conj _ (conj _ _)))));
    (apply pf_start_ok_sample; [reflexivity | intros [|]; split; vm_compute; reflexivity | reflexivity]).
Qed.
