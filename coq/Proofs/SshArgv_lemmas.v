(* Proofs/SshArgv_lemmas.v — the parts of a remote specification reach ssh's
   argument vector as the words the text denotes. *)
From Coq Require Import List NArith Ascii Bool Lia.
From SV Require Import Lib.Bytes Model.Args Proofs.Args_lemmas Model.SshArgv.
Import ListNotations.
Local Open Scope char_scope.
Local Open Scope N_scope.

Lemma host4_not_at c : is_host4 c = true -> negb (Ascii.eqb c "@") = true.
Proof. destruct c as [[] [] [] [] [] [] [] []]; vm_compute; intros; congruence. Qed.

Lemma digit_not_at c : is_digit c = true -> negb (Ascii.eqb c "@") = true.
Proof. destruct c as [[] [] [] [] [] [] [] []]; vm_compute; intros; congruence. Qed.

(* a character of [\w.-] lower-cased is none of the separators *)
Lemma host4_lower_not c k : is_host4 c = true -> is_host4 k = false -> negb (Ascii.eqb (to_lower c) k) = true.
Proof.
  intros Hc Hk. destruct (Ascii.eqb (to_lower c) k) eqn:E; [|reflexivity].
  apply Ascii.eqb_eq in E. subst k. exfalso. revert Hc Hk.
  destruct c as [[] [] [] [] [] [] [] []]; vm_compute; congruence.
Qed.

Lemma host4_lower_lacks h k : forallb is_host4 h = true -> is_host4 k = false -> lacks k (map to_lower h) = true.
Proof.
  intros Hh Hk. unfold lacks. rewrite forallb_forall. intros x Hx.
  apply in_map_iff in Hx. destruct Hx as (c & <- & Hc).
  rewrite forallb_forall in Hh. exact (host4_lower_not c k (Hh c Hc) Hk).
Qed.

Lemma name_port_lacks_at h p :
  name4_ok h = true -> digits_ok p = true -> lacks "@" (h ++ ":" :: p) = true.
Proof.
  intros Hh Hp. destruct (name4_inv h Hh) as [_ Hh'].
  unfold digits_ok in Hp. apply andb_true_iff in Hp as [_ Hp].
  rewrite lacks_app, lacks_cons. unfold lacks.
  rewrite (forallb_impl is_host4 (fun k => negb (Ascii.eqb k "@")) h host4_not_at Hh').
  rewrite (forallb_impl is_digit (fun k => negb (Ascii.eqb k "@")) p digit_not_at Hp).
  reflexivity.
Qed.

Definition canon_host (h : bytes) : bytes :=
  match py_ip_str (map to_lower h) with Some c => c | None => map to_lower h end.

(* user:password@host:port *)
Lemma connect_argv_full sshl u pw h p delim cmd :
  nonempty u = true -> lacks ":" u = true -> nonempty pw = true ->
  name4_ok h = true -> digits_ok p = true -> short p = true -> dec_val p <= 65535 ->
  connect_argv sshl (u ++ ":" :: pw ++ "@" :: h ++ ":" :: p) delim cmd =
  Ok (Some ([w_sshpass; w_e] ++ sshl ++ [w_p; port_text (dec_val p)] ++ [u ++ "@" :: canon_host h]
            ++ (if delim then [w_dd] else []) ++ [cmd], Some pw)).
Proof.
  intros Hu Hc Hpw Hh Hp Hs Hv. unfold connect_argv.
  rewrite (hostport_user_pass u pw (h ++ ":" :: p) Hc (name_port_lacks_at h p Hh Hp)).
  rewrite (host_part_name_port h p Hh Hp Hs Hv). rewrite Hpw. cbn [with_user].
  unfold ssh_argv, ssh_rhost. destruct u as [|c u]; [discriminate|].
  cbn [fmt_opt app]. reflexivity.
Qed.

(* user@host (no password, no port): nothing but the destination is added *)
Lemma connect_argv_user sshl u h delim cmd :
  nonempty u = true -> lacks ":" u = true -> nonempty h = true -> lacks ":" h = true -> lacks "@" h = true ->
  connect_argv sshl (u ++ "@" :: h) delim cmd =
  Ok (Some (sshl ++ [u ++ "@" :: h] ++ (if delim then [w_dd] else []) ++ [cmd], None)).
Proof.
  intros Hu Hc Hn Hh Ha. unfold connect_argv.
  rewrite (hostport_user u h Hc Ha). rewrite (host_part_plain h Hh). cbn [with_user].
  unfold ssh_argv, ssh_rhost. destruct u as [|c u]; [discriminate|].
  cbn [fmt_opt app]. reflexivity.
Qed.

(* host:port *)
Lemma connect_argv_host_port sshl h p delim cmd :
  name4_ok h = true -> digits_ok p = true -> short p = true -> dec_val p <= 65535 ->
  connect_argv sshl (h ++ ":" :: p) delim cmd =
  Ok (Some (sshl ++ [w_p; port_text (dec_val p)] ++ [canon_host h] ++ (if delim then [w_dd] else []) ++ [cmd], None)).
Proof.
  intros Hh Hp Hs Hv. unfold connect_argv.
  assert (Hne : nonempty (h ++ ":" :: p) = true) by (destruct h; reflexivity).
  rewrite (hostport_nouser (h ++ ":" :: p) Hne (name_port_lacks_at h p Hh Hp)).
  rewrite (host_part_name_port h p Hh Hp Hs Hv). cbn [with_user].
  unfold ssh_argv, ssh_rhost.
  assert (Hc : exists c r, canon_host h = c :: r).
  { destruct (name4_inv h Hh) as [Hn Hall].
    unfold canon_host. destruct (py_ip_str (map to_lower h)) as [x|] eqn:E.
    - destruct x as [|c r]; [|eauto].
      exfalso. revert E. unfold py_ip_str. destruct (parse_v4_strict (map to_lower h)) as [v|].
      + intros [= E]. unfold print_v4 in E. apply app_eq_nil in E. destruct E as [E _].
        unfold dec3 in E. destruct (v / 16777216 <? 10); [discriminate|].
        destruct (v / 16777216 <? 100); discriminate.
      + unfold py_ip6_str. rewrite (partition_on_lacks "%" _ (host4_lower_lacks h "%" Hall eq_refl)).
        destruct (mem_char "/" (map to_lower h)); [discriminate|]. cbn [andb].
        destruct (parse_v6 (map to_lower h)) as [ws|] eqn:P; [|discriminate].
        apply parse_v6_has_colon in P.
        rewrite (lacks_mem ":" _ (host4_lower_lacks h ":" Hall eq_refl)) in P. discriminate.
    - destruct h as [|c r]; [discriminate|]. cbn [map]. eauto. }
  destruct Hc as (c & r & Hc). fold (canon_host h). rewrite Hc. reflexivity.
Qed.
