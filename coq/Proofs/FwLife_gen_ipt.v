(* Proofs/FwLife_gen_ipt.v — C04, general theorems, part 3: the relation between a
   kernel table and the abstract state of one family's own iptables objects, and
   its preservation by every command the helper issues (simulation). *)
From Coq Require Import String List NArith ZArith Ascii Bool Lia Arith.
From SV Require Import Lib.Bytes Model.FwLife Model.FwLifeSpec Proofs.FwLife_lemmas
  Proofs.FwLife_gen_run Proofs.FwLife_gen_tbl.
Import ListNotations.

Definition is_names (sp : ispec) : list tok :=
  (if is_on sp S0 then [is_nm sp S0] else []) ++
  (if is_on sp S1 then [is_nm sp S1] else []) ++
  (if is_on sp S2 then [is_nm sp S2] else []).
Definition own (sp : ispec) (n : tok) : bool := tmem n (is_names sp).

Lemma in_names sp X : In X (is_names sp) <-> exists x, is_on sp x = true /\ X = is_nm sp x.
Proof.
  unfold is_names. rewrite !in_app_iff. split.
  - intros [H|[H|H]];
      [destruct (is_on sp S0) eqn:On | destruct (is_on sp S1) eqn:On | destruct (is_on sp S2) eqn:On];
      cbn in H; try contradiction; destruct H as [<-|[]]; eexists; (split; [exact On | reflexivity]).
  - intros (x & On & ->). destruct x; rewrite On; cbn; auto.
Qed.

Lemma own_on sp x : is_on sp x = true -> own sp (is_nm sp x) = true.
Proof.
  intro H. unfold own, tmem. apply existsb_exists. exists (is_nm sp x). split; [|apply bytes_eqb_refl].
  apply in_names. exists x. split; [exact H | reflexivity].
Qed.

Lemma own_inv sp n : own sp n = true -> exists x, is_on sp x = true /\ n = is_nm sp x.
Proof.
  unfold own, tmem. intro H. apply existsb_exists in H as (X & Hin & E). apply bytes_eqb_eq in E. subst X.
  apply in_names. exact Hin.
Qed.

Lemma slot_eqb_eq a b : slot_eqb a b = true <-> a = b.
Proof. destruct a, b; cbn; split; congruence. Qed.
Lemma slot_eqb_refl a : slot_eqb a a = true.
Proof. destruct a; reflexivity. Qed.

Record is_wf (sp : ispec) : Prop := mkWf {
  wf_inj : forall x y, is_on sp x = true -> is_on sp y = true -> is_nm sp x = is_nm sp y -> x = y;
  wf_no : forall x, is_on sp x = true -> is_nm sp x <> bOUTPUT;
  wf_np : forall x, is_on sp x = true -> is_nm sp x <> bPREROUTING;
  wf_sp : forall x, is_on sp x = true -> nospace (is_nm sp x) = true;
  wf_an : forall x, is_on sp x = true -> aname (is_nm sp x) = true;
  wf_jo : forall x, is_on sp x = true -> jumps_to (is_nm sp x) (is_jo sp) = slot_eqb (is_to sp) x;
  wf_jp : forall x, is_on sp x = true -> jumps_to (is_nm sp x) (is_jp sp) = slot_eqb (is_tp sp) x;
  wf_to : is_on sp (is_to sp) = true;
  wf_tp : is_on sp (is_tp sp) = true
}.

Definition set_jo (j : nat) (a : astate) : astate := mkA (a_c0 a) (a_c1 a) (a_c2 a) j (a_jp a).
Definition set_jp (j : nat) (a : astate) : astate := mkA (a_c0 a) (a_c1 a) (a_c2 a) (a_jo a) j.

Record RelT (sp : ispec) (T : table) (a : astate) : Prop := mkRel {
  r_fc : forall x, is_on sp x = true -> find_chain (is_nm sp x) T = aget x a;
  r_out : exists ro, find_chain bOUTPUT T = Some (repeat (is_jo sp) (a_jo a) ++ ro) /\
                     forall x, is_on sp x = true -> cntl (is_nm sp x) ro = 0;
  r_pre : exists rp, find_chain bPREROUTING T = Some (repeat (is_jp sp) (a_jp a) ++ rp) /\
                     forall x, is_on sp x = true -> cntl (is_nm sp x) rp = 0;
  r_nref : forall x, is_on sp x = true -> wref (fun _ => true) (is_nm sp x) T = arefs sp x a;
  r_oref : forall x, is_on sp x = true -> wref (fun n => negb (own sp n)) (is_nm sp x) T = hooks sp x a;
  r_names : names_ok T;
  r_uniq : forall x, is_on sp x = true -> ncnt (is_nm sp x) T <= 1
}.

Lemma aget_aset x y v a : aget x (aset y v a) = if slot_eqb x y then v else aget x a.
Proof. destruct x, y; reflexivity. Qed.
Lemma a_jo_aset y v a : a_jo (aset y v a) = a_jo a.
Proof. destruct y; reflexivity. Qed.
Lemma a_jp_aset y v a : a_jp (aset y v a) = a_jp a.
Proof. destruct y; reflexivity. Qed.
Lemma hooks_aset sp x y v a : hooks sp x (aset y v a) = hooks sp x a.
Proof. unfold hooks. rewrite a_jo_aset, a_jp_aset. reflexivity. Qed.
Lemma inrefs_aset sp x y v a :
  is_on sp y = true ->
  inrefs sp x (aset y v a) + cnto (is_nm sp x) (aget y a) = inrefs sp x a + cnto (is_nm sp x) v.
Proof. intro H. unfold inrefs. destruct y; cbn [aset aget a_c0 a_c1 a_c2]; rewrite H; lia. Qed.

Lemma aget_clean x : aget x a_clean = None.
Proof. destruct x; reflexivity. Qed.

Lemma out_ne_pre : bOUTPUT <> bPREROUTING.
Proof. discriminate. Qed.

Section Rel.
Variable sp : ispec.
Hypothesis Hwf : is_wf sp.

Lemma nm_ne x y : is_on sp x = true -> is_on sp y = true -> slot_eqb y x = false -> is_nm sp x <> is_nm sp y.
Proof.
  intros Hx Hy E Eq. apply (wf_inj sp Hwf) in Eq; try assumption. subst y. rewrite slot_eqb_refl in E. discriminate.
Qed.

Lemma own_out : own sp bOUTPUT = false.
Proof.
  destruct (own sp bOUTPUT) eqn:E; [|reflexivity]. apply own_inv in E as (x & Hx & Eq).
  symmetry in Eq. apply (wf_no sp Hwf) in Eq; [contradiction | exact Hx].
Qed.
Lemma own_pre : own sp bPREROUTING = false.
Proof.
  destruct (own sp bPREROUTING) eqn:E; [|reflexivity]. apply own_inv in E as (x & Hx & Eq).
  symmetry in Eq. apply (wf_np sp Hwf) in Eq; [contradiction | exact Hx].
Qed.

Lemma rel_set_own T a x rs rs' :
  is_on sp x = true -> RelT sp T a -> aget x a = Some rs ->
  RelT sp (set_chain (is_nm sp x) rs' T) (aset x (Some rs') a).
Proof.
  intros Hx [Hfc Hout Hpre Hnref Horef Hnames Huniq] Hrs.
  assert (F : find_chain (is_nm sp x) T = Some rs) by (rewrite Hfc; assumption).
  constructor.
  - intros y Hy. rewrite aget_aset. destruct (slot_eqb y x) eqn:E.
    + apply slot_eqb_eq in E. subst y. apply fc_set_same with rs. exact F.
    + rewrite fc_set_other; [apply Hfc; exact Hy | apply nm_ne; assumption].
  - destruct Hout as (ro & Ho & Hz). exists ro. rewrite a_jo_aset. split; [|exact Hz].
    rewrite fc_set_other; [exact Ho | apply (wf_no sp Hwf); exact Hx].
  - destruct Hpre as (ro & Ho & Hz). exists ro. rewrite a_jp_aset. split; [|exact Hz].
    rewrite fc_set_other; [exact Ho | apply (wf_np sp Hwf); exact Hx].
  - intros y Hy. pose proof (wref_set (fun _ => true) (is_nm sp y) _ _ rs' _ F) as W. cbv beta in W.
    rewrite (Hnref y Hy) in W. unfold arefs in *. rewrite hooks_aset.
    pose proof (inrefs_aset sp y x (Some rs') a Hx) as I. rewrite Hrs in I. cbn [cnto] in I. lia.
  - intros y Hy. pose proof (wref_set (fun n => negb (own sp n)) (is_nm sp y) _ _ rs' _ F) as W. cbv beta in W.
    rewrite (own_on sp x Hx) in W. cbn [negb] in W. rewrite (Horef y Hy) in W. rewrite hooks_aset. lia.
  - apply names_set. exact Hnames.
  - intros y Hy. rewrite ncnt_set. apply Huniq. exact Hy.
Qed.

Lemma rel_new T a x :
  is_on sp x = true -> RelT sp T a -> aget x a = None ->
  RelT sp (T ++ [(is_nm sp x, [])]) (aset x (Some []) a).
Proof.
  intros Hx [Hfc Hout Hpre Hnref Horef Hnames Huniq] Hrs.
  assert (F : find_chain (is_nm sp x) T = None) by (rewrite Hfc; assumption).
  constructor.
  - intros y Hy. rewrite aget_aset, fc_app. destruct (slot_eqb y x) eqn:E.
    + apply slot_eqb_eq in E. subst y. rewrite F, bytes_eqb_refl. reflexivity.
    + rewrite (Hfc y Hy). destruct (aget y a); [reflexivity|].
      rewrite (beq_false _ _ (nm_ne x y Hx Hy E)). reflexivity.
  - destruct Hout as (ro & Ho & Hz). exists ro. rewrite a_jo_aset. split; [|exact Hz]. rewrite fc_app, Ho. reflexivity.
  - destruct Hpre as (ro & Ho & Hz). exists ro. rewrite a_jp_aset. split; [|exact Hz]. rewrite fc_app, Ho. reflexivity.
  - intros y Hy. rewrite wref_app, (Hnref y Hy). unfold arefs. rewrite hooks_aset.
    pose proof (inrefs_aset sp y x (Some []) a Hx) as I. rewrite Hrs in I. cbn [cnto] in I. rewrite cntl_nil in I. lia.
  - intros y Hy. rewrite wref_app, hooks_aset. apply Horef. exact Hy.
  - apply names_app; [apply (wf_sp sp Hwf); exact Hx | exact Hnames].
  - intros y Hy. rewrite ncnt_app. destruct (slot_eqb y x) eqn:E.
    + apply slot_eqb_eq in E. subst y. apply fc_none_ncnt in F. rewrite F, bytes_eqb_refl. lia.
    + rewrite (beq_false _ _ (nm_ne x y Hx Hy E)). specialize (Huniq y Hy). lia.
Qed.

Lemma rel_del T a x :
  is_on sp x = true -> RelT sp T a -> aget x a = Some [] ->
  RelT sp (del_chain (is_nm sp x) T) (aset x None a).
Proof.
  intros Hx [Hfc Hout Hpre Hnref Horef Hnames Huniq] Hrs.
  assert (F : find_chain (is_nm sp x) T = Some []) by (rewrite Hfc; assumption).
  constructor.
  - intros y Hy. rewrite aget_aset. destruct (slot_eqb y x) eqn:E.
    + apply slot_eqb_eq in E. subst y. apply fc_del_same. apply Huniq. exact Hx.
    + rewrite fc_del_other; [apply Hfc; exact Hy | apply nm_ne; assumption].
  - destruct Hout as (ro & Ho & Hz). exists ro. rewrite a_jo_aset. split; [|exact Hz].
    rewrite fc_del_other; [exact Ho | apply (wf_no sp Hwf); exact Hx].
  - destruct Hpre as (ro & Ho & Hz). exists ro. rewrite a_jp_aset. split; [|exact Hz].
    rewrite fc_del_other; [exact Ho | apply (wf_np sp Hwf); exact Hx].
  - intros y Hy. rewrite (wref_del _ _ _ _ F), (Hnref y Hy). unfold arefs. rewrite hooks_aset.
    pose proof (inrefs_aset sp y x None a Hx) as I. rewrite Hrs in I. cbn [cnto] in I. rewrite cntl_nil in I. lia.
  - intros y Hy. rewrite (wref_del _ _ _ _ F), hooks_aset. apply Horef. exact Hy.
  - apply names_del. exact Hnames.
  - intros y Hy. pose proof (ncnt_del_le (is_nm sp y) (is_nm sp x) T). specialize (Huniq y Hy). lia.
Qed.

Lemma hooks_set_jo x j a :
  hooks sp x (set_jo j a) + (if slot_eqb (is_to sp) x then a_jo a else 0) =
  hooks sp x a + (if slot_eqb (is_to sp) x then j else 0).
Proof. unfold hooks, set_jo. cbn [a_jo a_jp]. lia. Qed.
Lemma hooks_set_jp x j a :
  hooks sp x (set_jp j a) + (if slot_eqb (is_tp sp) x then a_jp a else 0) =
  hooks sp x a + (if slot_eqb (is_tp sp) x then j else 0).
Proof. unfold hooks, set_jp. cbn [a_jo a_jp]. lia. Qed.

Lemma rel_set_out T a j' :
  RelT sp T a ->
  exists ro, find_chain bOUTPUT T = Some (repeat (is_jo sp) (a_jo a) ++ ro) /\
             (forall x, is_on sp x = true -> cntl (is_nm sp x) ro = 0) /\
             RelT sp (set_chain bOUTPUT (repeat (is_jo sp) j' ++ ro) T) (set_jo j' a).
Proof.
  intros [Hfc Hout Hpre Hnref Horef Hnames Huniq]. destruct Hout as (ro & Ho & Hz).
  exists ro. split; [exact Ho|]. split; [exact Hz|]. constructor.
  - intros y Hy. rewrite fc_set_other; [exact (Hfc y Hy)|]. intro E. symmetry in E. exact (wf_no sp Hwf y Hy E).
  - exists ro. split; [|exact Hz]. apply fc_set_same with (repeat (is_jo sp) (a_jo a) ++ ro). exact Ho.
  - destruct Hpre as (rp & Hp & Hzp). exists rp. split; [|exact Hzp].
    rewrite fc_set_other; [exact Hp | exact out_ne_pre].
  - intros y Hy.
    pose proof (wref_set (fun _ => true) (is_nm sp y) _ _ (repeat (is_jo sp) j' ++ ro) _ Ho) as W. cbv beta in W.
    rewrite !cntl_app, !cntl_repeat, (Hz y Hy), (wf_jo sp Hwf y Hy), (Hnref y Hy) in W.
    unfold arefs in *. pose proof (hooks_set_jo y j' a) as Hh.
    change (inrefs sp y (set_jo j' a)) with (inrefs sp y a). lia.
  - intros y Hy.
    pose proof (wref_set (fun n => negb (own sp n)) (is_nm sp y) _ _ (repeat (is_jo sp) j' ++ ro) _ Ho) as W.
    cbv beta in W. rewrite own_out in W. cbn [negb] in W.
    rewrite !cntl_app, !cntl_repeat, (Hz y Hy), (wf_jo sp Hwf y Hy), (Horef y Hy) in W.
    pose proof (hooks_set_jo y j' a) as Hh. lia.
  - apply names_set. exact Hnames.
  - intros y Hy. rewrite ncnt_set. exact (Huniq y Hy).
Qed.

Lemma rel_set_pre T a j' :
  RelT sp T a ->
  exists ro, find_chain bPREROUTING T = Some (repeat (is_jp sp) (a_jp a) ++ ro) /\
             (forall x, is_on sp x = true -> cntl (is_nm sp x) ro = 0) /\
             RelT sp (set_chain bPREROUTING (repeat (is_jp sp) j' ++ ro) T) (set_jp j' a).
Proof.
  intros [Hfc Hout Hpre Hnref Horef Hnames Huniq]. destruct Hpre as (ro & Ho & Hz).
  exists ro. split; [exact Ho|]. split; [exact Hz|]. constructor.
  - intros y Hy. rewrite fc_set_other; [exact (Hfc y Hy)|]. intro E. symmetry in E. exact (wf_np sp Hwf y Hy E).
  - destruct Hout as (rp & Hp & Hzp). exists rp. split; [|exact Hzp].
    rewrite fc_set_other; [exact Hp |]. intro E. symmetry in E. exact (out_ne_pre E).
  - exists ro. split; [|exact Hz]. apply fc_set_same with (repeat (is_jp sp) (a_jp a) ++ ro). exact Ho.
  - intros y Hy.
    pose proof (wref_set (fun _ => true) (is_nm sp y) _ _ (repeat (is_jp sp) j' ++ ro) _ Ho) as W. cbv beta in W.
    rewrite !cntl_app, !cntl_repeat, (Hz y Hy), (wf_jp sp Hwf y Hy), (Hnref y Hy) in W.
    unfold arefs in *. pose proof (hooks_set_jp y j' a) as Hh.
    change (inrefs sp y (set_jp j' a)) with (inrefs sp y a). lia.
  - intros y Hy.
    pose proof (wref_set (fun n => negb (own sp n)) (is_nm sp y) _ _ (repeat (is_jp sp) j' ++ ro) _ Ho) as W.
    cbv beta in W. rewrite own_pre in W. cbn [negb] in W.
    rewrite !cntl_app, !cntl_repeat, (Hz y Hy), (wf_jp sp Hwf y Hy), (Horef y Hy) in W.
    pose proof (hooks_set_jp y j' a) as Hh. lia.
  - apply names_set. exact Hnames.
  - intros y Hy. rewrite ncnt_set. exact (Huniq y Hy).
Qed.

Definition cmd_on (c : icmd) : Prop :=
  match c with
  | CNew x | CFlush x | CDel x | CApp x _ => is_on sp x = true
  | _ => True
  end.

(* every command of the helper acts on the kernel table as the abstract command
   acts on the abstract state *)
Lemma icmd_sim c T a :
  cmd_on c -> RelT sp T a ->
  match iexec sp c a with
  | Some a' => exists T', tbl_exec (iop_of sp c) T = Some T' /\ RelT sp T' a'
  | None => tbl_exec (iop_of sp c) T = None
  end.
Proof.
  intros Hon Hr. destruct c as [x|x|x|x r|o|o]; cbn [cmd_on iexec iop_of tbl_exec] in *.
  - (* -N *)
    rewrite (r_fc _ _ _ Hr x Hon). destruct (aget x a) as [rs|] eqn:G; [reflexivity|].
    eexists. split; [reflexivity|]. apply rel_new; assumption.
  - (* -F *)
    rewrite (r_fc _ _ _ Hr x Hon). destruct (aget x a) as [rs|] eqn:G; [|reflexivity].
    eexists. split; [reflexivity|]. apply rel_set_own with rs; assumption.
  - (* -X *)
    rewrite (r_fc _ _ _ Hr x Hon). destruct (aget x a) as [[|r0 rs]|] eqn:G; try reflexivity.
    rewrite referenced_wref, (r_nref _ _ _ Hr x Hon).
    destruct (Nat.eqb (arefs sp x a) 0); cbn [negb]; [|reflexivity].
    eexists. split; [reflexivity|]. apply rel_del; assumption.
  - (* -A *)
    rewrite (r_fc _ _ _ Hr x Hon). destruct (aget x a) as [rs|] eqn:G; [|reflexivity].
    eexists. split; [reflexivity|]. apply rel_set_own with rs; assumption.
  - (* -I *)
    destruct o; cbn [iop_of tbl_exec].
    + destruct (rel_set_out T a (S (a_jo a)) Hr) as (ro & Ho & _ & Hr'). rewrite Ho.
      eexists. split; [reflexivity|]. exact Hr'.
    + destruct (rel_set_pre T a (S (a_jp a)) Hr) as (ro & Ho & _ & Hr'). rewrite Ho.
      eexists. split; [reflexivity|]. exact Hr'.
  - (* -D *)
    destruct o; cbn [iop_of tbl_exec].
    + destruct (a_jo a) as [|j] eqn:J.
      * destruct (r_out _ _ _ Hr) as (ro & Ho & Hz). rewrite Ho, J. cbn [repeat app].
        rewrite (remove_first_none (is_nm sp (is_to sp)) (is_jo sp) ro); [reflexivity| |].
        -- rewrite (wf_jo sp Hwf _ (wf_to sp Hwf)). apply slot_eqb_refl.
        -- apply Hz. apply (wf_to sp Hwf).
      * destruct (rel_set_out T a j Hr) as (ro & Ho & _ & Hr'). rewrite Ho, J.
        rewrite remove_first_repeat. eexists. split; [reflexivity|]. exact Hr'.
    + destruct (a_jp a) as [|j] eqn:J.
      * destruct (r_pre _ _ _ Hr) as (ro & Ho & Hz). rewrite Ho, J. cbn [repeat app].
        rewrite (remove_first_none (is_nm sp (is_tp sp)) (is_jp sp) ro); [reflexivity| |].
        -- rewrite (wf_jp sp Hwf _ (wf_tp sp Hwf)). apply slot_eqb_refl.
        -- apply Hz. apply (wf_tp sp Hwf).
      * destruct (rel_set_pre T a j Hr) as (ro & Ho & _ & Hr'). rewrite Ho, J.
        rewrite remove_first_repeat. eexists. split; [reflexivity|]. exact Hr'.
Qed.

(* ---- lifting to kernel states ---- *)
Definition RelS (s : kstate) (a : astate) : Prop := RelT sp (get_tbl (is_fam sp) (is_tbl sp) s) a.

Lemma get_put_same f t T s : get_tbl f t (put_tbl f t T s) = T.
Proof. destruct f, t; reflexivity. Qed.

Lemma iop_not_list c : iop_of sp c <> IList.
Proof. destruct c as [x|x|x|x r|[|]|[|]]; discriminate. Qed.

Lemma exec_ipt_nl f t o s :
  o <> IList ->
  exec (Ipt f t o) s = match tbl_exec o (get_tbl f t s) with
                       | Some T => (Some (put_tbl f t T s), [], [])
                       | None => (None, [], [])
                       end.
Proof. intro H. destruct o; try reflexivity. contradiction. Qed.

Lemma iexec_sim c s a :
  cmd_on c -> RelS s a ->
  match iexec sp c a with
  | Some a' => exists s', exec (iconc sp c) s = (Some s', [], []) /\ RelS s' a'
  | None => exec (iconc sp c) s = (None, [], [])
  end.
Proof.
  intros Hon Hr. unfold iconc. rewrite (exec_ipt_nl _ _ _ _ (iop_not_list c)).
  pose proof (icmd_sim c _ a Hon Hr) as H. destruct (iexec sp c a) as [a'|].
  - destruct H as (T' & E & Hr'). rewrite E. eexists. split; [reflexivity|].
    unfold RelS. rewrite get_put_same. exact Hr'.
  - rewrite H. reflexivity.
Qed.

Lemma itest_sim x s a :
  is_on sp x = true -> RelS s a ->
  chain_in_listing (is_nm sp x) (listing (get_tbl (is_fam sp) (is_tbl sp) s)) = itest x a.
Proof.
  intros Hx Hr. rewrite listing_test; [|apply (wf_sp sp Hwf); exact Hx | apply (wf_an sp Hwf); exact Hx | exact (r_names _ _ _ Hr)].
  rewrite (r_fc _ _ _ Hr x Hx). reflexivity.
Qed.

Definition prog_on (p : iprog) : Prop :=
  Forall (ok_step icmd slot cmd_on (fun x => is_on sp x = true)) p.

(* frame: everything but this family's table is untouched *)
Lemma get_put_other f t f' t' T s : (f', t') <> (f, t) -> get_tbl f' t' (put_tbl f t T s) = get_tbl f' t' s.
Proof. intro H. destruct f, t, f', t'; try reflexivity; exfalso; apply H; reflexivity. Qed.

Lemma nft_put f t T s : k_nft (put_tbl f t T s) = k_nft s.
Proof. destruct f, t; reflexivity. Qed.

Lemma ipt_frame (Q : kstate -> Prop) f t :
  (forall T s, Q s -> Q (put_tbl f t T s)) -> forall o, cmd_pres Q (Ipt f t o).
Proof.
  intros HQ o s s' out err E Hq. apply exec_ipt_inv in E as (T' & _ & ->). apply HQ. exact Hq.
Qed.

Lemma prog_frame (Q : kstate -> Prop) (p : iprog) :
  (forall T s, Q s -> Q (put_tbl (is_fam sp) (is_tbl sp) T s)) ->
  Forall (step_pres Q) (map (icomp sp) p).
Proof.
  intro HQ. apply Forall_forall. intros st Hin. apply in_map_iff in Hin as (x & <- & _).
  destruct x as [y|t body]; cbn [icomp comp step_pres].
  - destruct y; cbn [comp_ss sstep_pres sstep_cmd]; apply ipt_frame; exact HQ.
  - apply Forall_forall. intros z Hz. apply in_map_iff in Hz as (y & <- & _).
    destruct y; cbn [comp_ss sstep_pres sstep_cmd]; apply ipt_frame; exact HQ.
Qed.

Theorem irun_sim F p n s a ok n' s' ev :
  prog_on p -> RelS s a -> run F (map (icomp sp) p) n s = (ok, n', s', ev) ->
  exists a', irun sp F p n a = (ok, n', a', cmds_of ev) /\ RelS s' a' /\
             (forall f' t', (f', t') <> (is_fam sp, is_tbl sp) -> get_tbl f' t' s' = get_tbl f' t' s) /\
             k_nft s' = k_nft s.
Proof.
  intros Hp Hr H.
  destruct (gsim astate icmd slot (iexec sp) itest (iconc sp) (fun _ => is_fam sp) (fun _ => is_tbl sp) (is_nm sp)
              RelS cmd_on (fun x => is_on sp x = true) iexec_sim (fun _ _ _ => eq_refl) itest_sim
              F p n s a ok n' s' ev Hp Hr H) as (a' & A & Hr').
  exists a'. split; [exact A|]. split; [exact Hr'|]. split.
  - intros f' t' Hne.
    apply (run_pres (fun z => get_tbl f' t' z = get_tbl f' t' s) F _ _ _ _ _ _ _
             (prog_frame _ p (fun T z Hz => eq_trans (get_put_other _ _ _ _ T z Hne) Hz)) H eq_refl).
  - apply (run_pres (fun z => k_nft z = k_nft s) F _ _ _ _ _ _ _
             (prog_frame _ p (fun T z Hz => eq_trans (nft_put _ _ T z) Hz)) H eq_refl).
Qed.

(* ---- clean tables ---- *)
Lemma rel_clean_init T :
  tbl_clean (is_names sp) T -> tbl_wf T = true -> RelT sp T a_clean.
Proof.
  intros Hc Hw. unfold tbl_wf in Hw. apply andb_true_iff in Hw as [Hw Hp]. apply andb_true_iff in Hw as [Hn Ho].
  assert (J : forall x ch r, is_on sp x = true -> In ch T -> In r (snd ch) -> jumps_to (is_nm sp x) r = false).
  { intros x ch r Hx Hch Hr. pose proof (proj2 (Hc ch Hch) r Hr) as O. rewrite owned_rule_existsb in O.
    destruct (jumps_to (is_nm sp x) r) eqn:E; [|reflexivity].
    assert (X : existsb (fun X => jumps_to X r) (is_names sp) = true).
    { apply existsb_exists. exists (is_nm sp x). split; [|exact E]. apply in_names. eauto. }
    congruence. }
  assert (FI : forall b rs, find_chain b T = Some rs -> In (b, rs) T).
  { clear. induction T as [|[n r0] T IH]; cbn [find_chain]; [discriminate|]. intros b rs.
    destruct (bytes_eqb n b) eqn:E; intro H.
    - apply bytes_eqb_eq in E. subst. injection H as ->. left. reflexivity.
    - right. apply IH. exact H. }
  constructor.
  - intros x Hx. rewrite aget_clean. apply fc_none_ncnt. unfold ncnt.
    assert (Z : forall l : table, (forall ch, In ch l -> bytes_eqb (fst ch) (is_nm sp x) = false) ->
                 length (filter (fun ch : chain => bytes_eqb (fst ch) (is_nm sp x)) l) = 0).
    { induction l as [|c0 l IH]; intro H; [reflexivity|]. cbn [filter].
      rewrite (H c0 (or_introl eq_refl)). apply IH. intros ch Hin. apply H. right. exact Hin. }
    apply Z. intros ch Hch. destruct (bytes_eqb (fst ch) (is_nm sp x)) eqn:E; [|reflexivity].
    apply bytes_eqb_eq in E. pose proof (proj1 (Hc ch Hch)) as O. rewrite E in O.
    pose proof (own_on sp x Hx) as O'. unfold own in O'. congruence.
  - destruct (find_chain bOUTPUT T) as [ro|] eqn:F; [|discriminate]. exists ro. split; [reflexivity|].
    intros x Hx. apply cntl_zero_all. intros r Hr. apply (J x (bOUTPUT, ro) r Hx); [apply FI; exact F | exact Hr].
  - destruct (find_chain bPREROUTING T) as [ro|] eqn:F; [|discriminate]. exists ro. split; [reflexivity|].
    intros x Hx. apply cntl_zero_all. intros r Hr. apply (J x (bPREROUTING, ro) r Hx); [apply FI; exact F | exact Hr].
  - intros x Hx. rewrite wref_zero_all; [destruct x; unfold arefs, hooks, inrefs; cbn; destruct (slot_eqb _ _), (slot_eqb _ _), (is_on sp S0), (is_on sp S1), (is_on sp S2); reflexivity|].
    intros ch r Hch Hr. exact (J x ch r Hx Hch Hr).
  - intros x Hx. rewrite wref_zero_all; [unfold hooks; cbn; destruct (slot_eqb _ _), (slot_eqb _ _); reflexivity|].
    intros ch r Hch Hr. exact (J x ch r Hx Hch Hr).
  - exact Hn.
  - intros x Hx.
    assert (Z : ncnt (is_nm sp x) T = 0); [|lia].
    apply fc_none_ncnt.
    destruct (find_chain (is_nm sp x) T) as [rs|] eqn:F; [|reflexivity].
    apply FI in F. pose proof (proj1 (Hc _ F)) as O. cbn [fst] in O.
    pose proof (own_on sp x Hx) as O'. unfold own in O'. congruence.
Qed.

Lemma rel_clean_fin T : RelT sp T a_clean -> tbl_clean (is_names sp) T.
Proof.
  intros Hr ch Hch. split.
  - destruct (tmem (fst ch) (is_names sp)) eqn:E; [|reflexivity].
    apply own_inv in E as (x & Hx & Eq).
    pose proof (r_fc _ _ _ Hr x Hx) as F. rewrite aget_clean in F. apply fc_none_ncnt in F. unfold ncnt in F.
    exfalso. clear -F Hch Eq.
    induction T as [|c0 T IH]; [destruct Hch|]. cbn [filter] in F. destruct Hch as [->|Hin].
    + rewrite Eq, bytes_eqb_refl in F. discriminate.
    + destruct (bytes_eqb (fst c0) (is_nm sp x)); [discriminate | exact (IH Hin F)].
  - intros r Hr'. rewrite owned_rule_existsb.
    destruct (existsb (fun X => jumps_to X r) (is_names sp)) eqn:E; [|reflexivity].
    apply existsb_exists in E as (X & HX & Hj). apply in_names in HX as (x & Hx & ->).
    pose proof (r_nref _ _ _ Hr x Hx) as N.
    assert (Z : arefs sp x a_clean = 0).
    { unfold arefs, hooks, inrefs. cbn. destruct (slot_eqb _ _), (slot_eqb _ _), (is_on sp S0), (is_on sp S1), (is_on sp S2); reflexivity. }
    rewrite Z in N. rewrite (wref_zero_in _ _ _ ch r N Hch eq_refl Hr') in Hj. discriminate.
Qed.

Lemma rel_no_divert T a : RelT sp T a -> a_nd sp a = true -> no_divert_tbl (is_names sp) T = true.
Proof.
  intros Hr Hnd. unfold no_divert_tbl. apply forallb_forall. intros ch Hch.
  destruct (tmem (fst ch) (is_names sp)) eqn:Eo; [reflexivity|]. cbn [orb].
  apply forallb_forall. intros r Hr'. destruct (jump_target r) as [X|] eqn:Jt; [|reflexivity].
  destruct (tmem X (is_names sp)) eqn:EX; [|reflexivity]. cbn [negb orb].
  apply own_inv in EX as (x & Hx & ->). rewrite (r_fc _ _ _ Hr x Hx).
  assert (Hj : jumps_to (is_nm sp x) r = true) by (unfold jumps_to; rewrite Jt; apply bytes_eqb_refl).
  assert (P : (fun n => negb (own sp n)) (fst ch) = true) by (unfold own; rewrite Eo; reflexivity).
  pose proof (wref_pos (fun n => negb (own sp n)) _ T ch r Hch P Hr' Hj) as W.
  rewrite (r_oref _ _ _ Hr x Hx) in W. unfold hooks in W. unfold a_nd in Hnd.
  apply andb_true_iff in Hnd as [N1 N2].
  destruct (slot_eqb (is_to sp) x) eqn:E1.
  - apply slot_eqb_eq in E1. subst x.
    destruct (Nat.eqb (a_jo a) 0) eqn:Z.
    + apply Nat.eqb_eq in Z. destruct (slot_eqb (is_tp sp) (is_to sp)) eqn:E2.
      * apply slot_eqb_eq in E2. rewrite E2 in N2.
        destruct (Nat.eqb (a_jp a) 0) eqn:Z2; [apply Nat.eqb_eq in Z2; lia|].
        cbn [orb] in N2. unfold empty_or_absent in N2. destruct (aget (is_to sp) a) as [[|]|]; congruence.
      * lia.
    + cbn [orb] in N1. unfold empty_or_absent in N1. destruct (aget (is_to sp) a) as [[|]|]; congruence.
  - destruct (slot_eqb (is_tp sp) x) eqn:E2; [|lia]. apply slot_eqb_eq in E2. subst x.
    destruct (Nat.eqb (a_jp a) 0) eqn:Z2; [apply Nat.eqb_eq in Z2; lia|].
    cbn [orb] in N2. unfold empty_or_absent in N2. destruct (aget (is_tp sp) a) as [[|]|]; congruence.
Qed.
End Rel.
