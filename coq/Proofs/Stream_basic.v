(* Proofs/Stream_basic.v — effect lemmas for every primitive of Model/Stream.v:
   what a wrapper operation can do to the Mux (frames appended, channel table,
   fullness) and to the wrappers' flags.  Everything later builds on these. *)
From Coq Require Import List NArith Ascii Bool Lia.
From SV Require Import Lib.Bytes Model.Wire Model.Chan Model.Stream.
Import ListNotations.
Local Open Scope N_scope.

Ltac splits := repeat match goal with |- _ /\ _ => split end.

(* ---------------- upd ---------------- *)
Lemma upd_same {A} (m : N -> A) k v : upd m k v k = v.
Proof. unfold upd. rewrite N.eqb_refl. reflexivity. Qed.

Lemma upd_other {A} (m : N -> A) k v j : j <> k -> upd m k v j = m j.
Proof. unfold upd. intros H. destruct (N.eqb_spec j k); [contradiction|reflexivity]. Qed.

(* ---------------- payload accounting ---------------- *)
Definition pay_len (l : list sframe) : N := fold_right (fun f a => lenN (sf_data f) + a) 0 l.

Lemma pay_len_app a b : pay_len (a ++ b) = pay_len a + pay_len b.
Proof. induction a as [|f a IH]; cbn [app pay_len fold_right]; [reflexivity|]. fold (pay_len (a ++ b)). fold (pay_len a). lia. Qed.

Definition is_data (f : sframe) : bool := match sf_cmd f with CData => true | _ => false end.

Definition data_len (l : list sframe) : N := pay_len (filter is_data l).

Lemma data_len_app a b : data_len (a ++ b) = data_len a + data_len b.
Proof. unfold data_len. rewrite filter_app. apply pay_len_app. Qed.

(* frames a flow's wrappers may emit: on its channel, with its ghost number,
   and only DATA / EOF / STOP *)
Definition flow_frame (c fid : N) (f : sframe) : Prop :=
  sf_ch f = c /\ sf_fid f = Some fid /\
  (sf_cmd f = CData \/ (sf_cmd f = CEof /\ sf_data f = []) \/ (sf_cmd f = CStop /\ sf_data f = [])).

(* ---------------- the effect relation ---------------- *)
(* x' is x after a wrapper of channel c / flow fid acted: *)
Record mux_ext (c fid : N) (x x' : mux) (new : list sframe) : Prop := {
  me_out : x_out x' = x_out x ++ new;
  me_chani : x_chani x' = x_chani x;
  me_tf : x_too_full x' = x_too_full x;
  me_full : x_full x' = x_full x + pay_len new;
  me_chan_other : forall k, k <> c -> x_chan x' k = x_chan x k;
  me_chan_own : x_chan x' c = x_chan x c \/ x_chan x' c = None;
  me_frames : Forall (flow_frame c fid) new
}.

Lemma mux_ext_refl c fid x : mux_ext c fid x x [].
Proof.
  constructor.
  - symmetry. apply app_nil_r.
  - reflexivity.
  - reflexivity.
  - cbn. lia.
  - reflexivity.
  - left. reflexivity.
  - constructor.
Qed.

Lemma mux_ext_trans c fid x x1 x2 n1 n2 :
  mux_ext c fid x x1 n1 -> mux_ext c fid x1 x2 n2 -> mux_ext c fid x x2 (n1 ++ n2).
Proof.
  intros [A1 A2 A3 A4 A5 A6 A7] [B1 B2 B3 B4 B5 B6 B7]. constructor.
  - rewrite B1, A1. apply app_assoc_reverse.
  - congruence.
  - congruence.
  - rewrite B4, A4, pay_len_app. lia.
  - intros k Hk. rewrite B5, A5 by exact Hk. reflexivity.
  - destruct B6 as [B6|B6]; [rewrite B6; exact A6|right; exact B6].
  - apply Forall_app. split; assumption.
Qed.

Lemma mux_send_ext x c cmd data fid :
  (cmd = CData \/ (cmd = CEof /\ data = []) \/ (cmd = CStop /\ data = [])) ->
  mux_ext c fid x (mux_send x c cmd data (Some fid)) [mkSF c cmd data (Some fid)].
Proof.
  intros H. constructor.
  - reflexivity.
  - reflexivity.
  - reflexivity.
  - cbn. lia.
  - intros k Hk. reflexivity.
  - left. reflexivity.
  - constructor; [|constructor]. repeat split; cbn; auto.
Qed.

Lemma set_chan_none_ext x c fid : mux_ext c fid x (mux_set_chan x c None) [].
Proof.
  constructor.
  - cbn. symmetry. apply app_nil_r.
  - reflexivity.
  - reflexivity.
  - cbn. lia.
  - intros k Hk. cbn. apply upd_other. exact Hk.
  - right. cbn. apply upd_same.
  - constructor.
Qed.

Definition closed (m : muxw) : bool := m_sr m && m_sw m.

(* the channel table changes only when a wrapper becomes closed *)
Definition chan_change_ok (m m' : muxw) (x x' : mux) : Prop :=
  (closed m' = closed m /\ x_chan x' (m_chan m) = x_chan x (m_chan m)) \/
  (closed m = false /\ closed m' = true /\ x_chan x' (m_chan m) = None).

Lemma maybe_close_ext m x fid : mux_ext (m_chan m) fid x (m_maybe_close m x) [].
Proof.
  unfold m_maybe_close. destruct (m_sr m && m_sw m).
  - apply set_chan_none_ext.
  - apply mux_ext_refl.
Qed.

(* the muxw component keeps its channel; flags only go up *)
Definition muxw_mono (m m' : muxw) : Prop :=
  m_chan m' = m_chan m /\ (m_sr m = true -> m_sr m' = true) /\ (m_sw m = true -> m_sw m' = true).

Lemma muxw_mono_refl m : muxw_mono m m.
Proof. repeat split; auto. Qed.

Lemma muxw_mono_trans a b c : muxw_mono a b -> muxw_mono b c -> muxw_mono a c.
Proof. intros (A1 & A2 & A3) (B1 & B2 & B3). repeat split; [congruence|auto|auto]. Qed.

Lemma setnoread_ext m x fid :
  mux_ext (m_chan m) fid x (snd (m_setnoread m x)) [] /\
  muxw_mono m (fst (m_setnoread m x)) /\ m_sr (fst (m_setnoread m x)) = true /\
  m_sw (fst (m_setnoread m x)) = m_sw m /\ m_buf (fst (m_setnoread m x)) = m_buf m.
Proof.
  unfold m_setnoread. destruct (m_sr m) eqn:E; cbn [fst snd].
  - splits; auto using mux_ext_refl, muxw_mono_refl.
  - split; [apply (maybe_close_ext (mkMuxw (m_chan m) true (m_sw m) (m_buf m)))|].
    split; [unfold muxw_mono; cbn; splits; auto|]. splits; reflexivity.
Qed.

Lemma setnowrite_ext m x fid :
  mux_ext (m_chan m) fid x (snd (m_setnowrite m x)) [] /\
  muxw_mono m (fst (m_setnowrite m x)) /\ m_sw (fst (m_setnowrite m x)) = true /\
  m_sr (fst (m_setnowrite m x)) = m_sr m /\ m_buf (fst (m_setnowrite m x)) = m_buf m.
Proof.
  unfold m_setnowrite. destruct (m_sw m) eqn:E; cbn [fst snd].
  - splits; auto using mux_ext_refl, muxw_mono_refl.
  - split; [apply (maybe_close_ext (mkMuxw (m_chan m) (m_sr m) true (m_buf m)))|].
    split; [unfold muxw_mono; cbn; splits; auto|]. splits; reflexivity.
Qed.

(* noread: STOP sent exactly when shut_read was still false *)
Lemma noread_ext m x fid :
  exists new, mux_ext (m_chan m) fid x (snd (m_noread m x fid)) new /\
  new = (if m_sr m then [] else [mkSF (m_chan m) CStop [] (Some fid)]) /\
  muxw_mono m (fst (m_noread m x fid)) /\ m_sr (fst (m_noread m x fid)) = true /\
  m_sw (fst (m_noread m x fid)) = m_sw m /\ m_buf (fst (m_noread m x fid)) = m_buf m.
Proof.
  unfold m_noread. destruct (m_sr m) eqn:E.
  - exists []. cbn [fst snd]. splits; auto using mux_ext_refl, muxw_mono_refl.
  - exists [mkSF (m_chan m) CStop [] (Some fid)].
    destruct (setnoread_ext m (mux_send x (m_chan m) CStop [] (Some fid)) fid) as (H1 & H2 & H3 & H4 & H5).
    splits; auto; try apply H2.
    rewrite <- (app_nil_r [mkSF (m_chan m) CStop [] (Some fid)]).
    eapply mux_ext_trans; [apply mux_send_ext; auto|exact H1].
Qed.

Lemma nowrite_ext m x fid :
  exists new, mux_ext (m_chan m) fid x (snd (m_nowrite m x fid)) new /\
  new = (if m_sw m then [] else [mkSF (m_chan m) CEof [] (Some fid)]) /\
  muxw_mono m (fst (m_nowrite m x fid)) /\ m_sw (fst (m_nowrite m x fid)) = true /\
  m_sr (fst (m_nowrite m x fid)) = m_sr m /\ m_buf (fst (m_nowrite m x fid)) = m_buf m.
Proof.
  unfold m_nowrite. destruct (m_sw m) eqn:E.
  - exists []. cbn [fst snd]. splits; auto using mux_ext_refl, muxw_mono_refl.
  - exists [mkSF (m_chan m) CEof [] (Some fid)].
    destruct (setnowrite_ext m (mux_send x (m_chan m) CEof [] (Some fid)) fid) as (H1 & H2 & H3 & H4 & H5).
    splits; auto; try apply H2.
    rewrite <- (app_nil_r [mkSF (m_chan m) CEof [] (Some fid)]).
    eapply mux_ext_trans; [apply mux_send_ext; auto|exact H1].
Qed.

(* uwrite: nothing while too_full, else one DATA frame of at most 2048 bytes
   holding a prefix of the buffer *)
Lemma uwrite_ext m x fid b :
  let '(x', w) := m_uwrite m x fid b in
  exists new, mux_ext (m_chan m) fid x x' new /\
  (x_too_full x = true -> new = [] /\ w = 0) /\
  (x_too_full x = false -> new = [mkSF (m_chan m) CData (takeN 2048 b) (Some fid)] /\ w = lenN (takeN 2048 b)) /\
  w <= lenN b /\ w <= 2048.
Proof.
  unfold m_uwrite. destruct (x_too_full x) eqn:E.
  - exists []. splits; auto using mux_ext_refl, muxw_mono_refl; try discriminate; lia.
  - exists [mkSF (m_chan m) CData (takeN 2048 b) (Some fid)].
    assert (Hl : lenN (takeN 2048 b) <= lenN b /\ lenN (takeN 2048 b) <= 2048).
    { destruct (N.le_gt_cases 2048 (lenN b)).
      - rewrite lenN_takeN by assumption. lia.
      - rewrite takeN_all by lia. lia. }
    splits; auto; try discriminate; try lia.
    apply mux_send_ext. auto.
Qed.

(* ---------------- channel-table changes ---------------- *)
Lemma cc_refl m x : chan_change_ok m m x x.
Proof. left. split; reflexivity. Qed.

Lemma mux_send_chan x c cmd d f k : x_chan (mux_send x c cmd d f) k = x_chan x k.
Proof. reflexivity. Qed.

Lemma setnoread_cc m x : chan_change_ok m (fst (m_setnoread m x)) x (snd (m_setnoread m x)).
Proof.
  unfold m_setnoread. destruct (m_sr m) eqn:E; cbn [fst snd]; [apply cc_refl|].
  unfold chan_change_ok, closed, m_maybe_close. cbn [m_sr m_sw m_chan]. rewrite E.
  destruct (m_sw m); cbn [andb].
  - right. splits; auto. cbn. apply upd_same.
  - left. split; reflexivity.
Qed.

Lemma setnowrite_cc m x : chan_change_ok m (fst (m_setnowrite m x)) x (snd (m_setnowrite m x)).
Proof.
  unfold m_setnowrite. destruct (m_sw m) eqn:E; cbn [fst snd]; [apply cc_refl|].
  unfold chan_change_ok, closed, m_maybe_close. cbn [m_sr m_sw m_chan]. rewrite E.
  destruct (m_sr m) eqn:E2; cbn [andb].
  - right. splits; auto. cbn. apply upd_same.
  - left. split; reflexivity.
Qed.

Lemma noread_cc m x fid : chan_change_ok m (fst (m_noread m x fid)) x (snd (m_noread m x fid)).
Proof.
  unfold m_noread. destruct (m_sr m) eqn:E; [apply cc_refl|].
  pose proof (setnoread_cc m (mux_send x (m_chan m) CStop [] (Some fid))) as H.
  unfold chan_change_ok in *. rewrite mux_send_chan in H. exact H.
Qed.

Lemma nowrite_cc m x fid : chan_change_ok m (fst (m_nowrite m x fid)) x (snd (m_nowrite m x fid)).
Proof.
  unfold m_nowrite. destruct (m_sw m) eqn:E; [apply cc_refl|].
  pose proof (setnowrite_cc m (mux_send x (m_chan m) CEof [] (Some fid))) as H.
  unfold chan_change_ok in *. rewrite mux_send_chan in H. exact H.
Qed.

Lemma closed_mono m m' : muxw_mono m m' -> closed m = true -> closed m' = true.
Proof.
  unfold closed. intros (_ & H1 & H2) H. apply andb_true_iff in H. destruct H as [A B].
  rewrite (H1 A), (H2 B). reflexivity.
Qed.

(* composition: m -> m1 -> m2 with the same channel *)
Lemma cc_trans m m1 m2 x x1 x2 :
  muxw_mono m m1 -> muxw_mono m1 m2 ->
  chan_change_ok m m1 x x1 -> chan_change_ok m1 m2 x1 x2 -> chan_change_ok m m2 x x2.
Proof.
  intros M1 M2 H1 H2. unfold chan_change_ok in *.
  assert (Ec : m_chan m1 = m_chan m) by apply M1. rewrite Ec in H2.
  destruct H1 as [(A1 & B1)|(A1 & B1 & C1)]; destruct H2 as [(A2 & B2)|(A2 & B2 & C2)].
  - left. split; congruence.
  - right. splits; congruence.
  - right. splits; try congruence.
  - congruence.
Qed.
