(* Proofs/Stream_drain_clean.v — the eager drain WITHOUT the escape clause "or a stale delivery
   happened" (C01 (3c), C02 (e), C09 (9)), and without the clause "unless a socket fault
   happened during the drain".

   Stream_drain.eager_drain_sched: from every reachable state with w_stale = false the schedule
   drain_of w ends, without raising, in a state that is stale OR strictly quiescent.  The drain
   accepts no connection, so no identifier is handed out during it; but frames of an OLDER
   incarnation of an identifier may already be on the way — or still unsent in a socket buffer —
   when the drain starts, while the identifier is registered (or about to be registered by a
   CONNECT on the way) for a NEWER incarnation.  Result:

     eager_drain_unconditional_refuted   the unconditional statement is FALSE of the model
                            (witness dc_stale: MAX_CHANNEL = 1, 9 events from world0);
     drain_cleanb           the boolean hypothesis: for all flows g < h of the client that share
                            their identifier,
                              (client end of h closed  OR  nothing of g on the way to the client
                                                           and the server end of g mute)
                              AND
                              (server end of h exists and is closed  OR  nothing of g behind the
                                   CONNECT of h on the way to the server (nothing of g at all once
                                   that CONNECT is gone) and the client end of g mute);
                            `mute` = socket buffer empty and neither EOF nor STOP_SENDING left to
                            send unless the peer or the socket says something new;
                            no_reuseb (no identifier used twice so far) implies it;
     eager_drain_clean      from every reachable non-stale state with drain_cleanb the schedule
                            drain_of w is eager, never raises, makes NO stale delivery and ends
                            strictly quiescent;
     eager_never_stale      ... in fact no schedule of eager events whatsoever makes a stale
                            delivery from such a state, and drain_cleanb is preserved;
     eager_no_new_fault     ... nor sets a failure flag (s_fault) of any flow end: the eager
                            answers never fail, and the one failure the model produces by itself —
                            EPIPE on a write to a socket already shut for writing — needs bytes in
                            the mux buffer of a cleanly shut socket, which never exist (Kall);
     dc_c01_eventual_delivery, dc_c02_eventually_not_stuck, dc_c09_pause_ends
                            the strengthened forms quoted by Props/C01.v, C02.v, C09.v;
     dc_stale_witness_b/c/d every other clause of drain_cleanb is needed (witnesses);
     dc_reuse_clean         a reachable clean state WITH identifier re-use (non-vacuity).

   New run invariants (all reachable non-stale states): Dinv (CONNECTs travel in the order of
   their flow numbers; only PING/PONG carry no flow number) — with Stream_assert.Sinv this shows
   that a dispatched CONNECT is never a stale delivery; Kall (one more clause of the flow views).

   drain_cleanb is sufficient, not necessary: see DESIGN.md 9.2 (a non-mute older server end that
   the frames on the way close before the scheduler calls it is harmless for drain_of). *)
From Coq Require Import List NArith Ascii Bool Lia.
From SV Require Import Lib.Bytes Model.Wire Model.Chan Model.Stream Model.StreamQuiet Model.StreamDrain
  Proofs.Wire_lemmas Proofs.Chan_lemmas Proofs.Stream_basic Proofs.Stream_wrap Proofs.Stream_cb
  Proofs.Stream_reg Proofs.Stream_fw Proofs.Stream_view Proofs.Stream_flow Proofs.Stream_lat
  Proofs.Stream_props Proofs.Stream_assert Proofs.Stream_quiet Proofs.Stream_drain.
Import ListNotations.
Local Open Scope N_scope.

(* ================================================================== *)
(* 1. Mute handlers: nothing to say in the eager environment            *)
(* ================================================================== *)

(* socket buffer empty; shut_read only after EOF was sent (or STOP received); shut_write only
   after EOF was received (or STOP sent); not "connecting and already shut for writing" *)
Definition mute_sm (s : sockw) (m : muxw) : bool :=
  negb (nonempty_buf (s_buf s)) && implb (s_sr s) (m_sw m) && implb (s_sw s) (m_sr m) &&
  negb (s_conn s && s_sw s).
Definition mute (p : proxy) : bool := mute_sm (p_s p) (p_m p).

Lemma mute_sm_spec s m : mute_sm s m = true <->
  s_buf s = [] /\ (s_sr s = true -> m_sw m = true) /\ (s_sw s = true -> m_sr m = true) /\
  (s_conn s = true -> s_sw s = false).
Proof.
  unfold mute_sm. rewrite !andb_true_iff, negb_true_iff, negb_true_iff, andb_false_iff.
  split.
  - intros (((A & B) & C) & D). splits.
    + apply nonempty_buf_false. exact A.
    + intros H. rewrite H in B. exact B.
    + intros H. rewrite H in C. exact C.
    + intros H. destruct D as [D|D]; congruence.
  - intros (A & B & C & D). splits.
    + rewrite A. reflexivity.
    + destruct (s_sr s); [rewrite B; reflexivity|reflexivity].
    + destruct (s_sw s); [rewrite C; reflexivity|reflexivity].
    + destruct (s_conn s); [right; apply D; reflexivity|left; reflexivity].
Qed.

Lemma try_connect_mute s ok : (s_conn s = true -> s_sw s = false) ->
  exists s0, s_try_connect s ConnDone ok = Ok s0 /\ s_buf s0 = s_buf s /\ s_conn s0 = false /\
    s_sr s0 = s_sr s /\ s_sw s0 = s_sw s /\ s_fault s0 = s_fault s /\ s_wr s0 = s_wr s /\ s_rd s0 = s_rd s.
Proof.
  intros H. unfold s_try_connect. destruct s as [cn sr sw sb ex rd wr ft]. cbn in *.
  destruct cn; [rewrite (H eq_refl)|]; cbn; eexists; splits; reflexivity.
Qed.

Lemma copy_s_to_m_mute s m x fid : s_buf s = [] -> (s_sr s = true -> m_sw m = true) ->
  copy_s_to_m s m x fid = (s, m, x).
Proof.
  intros Hb Hs. unfold copy_s_to_m. destruct s as [cn sr sw sb ex rd wr ft]. cbn in *. subst sb. cbn.
  destruct sr; [|reflexivity]. unfold m_nowrite. rewrite (Hs eq_refl). reflexivity.
Qed.

Lemma copy_m_to_s_eager m s k : s_conn s = false ->
  let '(m', s') := copy_m_to_s m s (SendAccept k) true in
  m_chan m' = m_chan m /\ m_sr m' = m_sr m /\ m_sw m' = m_sw m /\
  s_buf s' = s_buf s /\ s_sr s' = s_sr s /\ s_conn s' = false /\ s_rd s' = s_rd s /\
  (s_sw s = true -> s_sw s' = true) /\ (s_sw s' = true -> s_sw s = true \/ m_sr m = true).
Proof.
  intros Hc. unfold copy_m_to_s.
  assert (P1 : exists buf' s1,
    (match m_buf m with
     | (a :: b0) :: rest => let '(s1, w) := s_uwrite s (a :: b0) (SendAccept k) true in (advance (m_buf m) w, s1)
     | _ => (drop_empty (m_buf m), s)
     end) = (buf', s1) /\ s_buf s1 = s_buf s /\ s_sr s1 = s_sr s /\ s_conn s1 = false /\ s_rd s1 = s_rd s /\ s_sw s1 = s_sw s).
  { destruct (m_buf m) as [|[|a b0] rest].
    - exists [], s. splits; auto.
    - eexists _, s. splits; auto.
    - unfold s_uwrite. rewrite Hc. destruct (s_sw s) eqn:Esw.
      + eexists _, _. split; [reflexivity|]. unfold s_nowrite. cbn. splits; auto.
      + eexists _, _. split; [reflexivity|]. cbn. splits; auto. }
  destruct P1 as (buf' & s1 & -> & A1 & A2 & A3 & A4 & A5).
  destruct buf' as [|b1 bs].
  - destruct (m_sr m) eqn:Esr; cbn [m_chan m_sr m_sw].
    + unfold s_nowrite. destruct (s_sw s1) eqn:E1; cbn; splits; auto; try congruence.
    + splits; auto; try congruence. intros H. left. congruence.
  - cbn [m_chan m_sr m_sw]. splits; auto; try congruence. intros H. left. congruence.
Qed.

Lemma copies_mute sd s1 m0 x fid o k : io_send o = SendAccept k -> io_shut_ok o = true ->
  s_buf s1 = [] -> (s_sr s1 = true -> m_sw m0 = true) -> s_conn s1 = false ->
  let '(s2, m2, x2) := copies sd s1 m0 x fid o in
  x2 = x /\ s_buf s2 = [] /\ s_sr s2 = s_sr s1 /\ s_conn s2 = false /\ s_rd s2 = s_rd s1 /\
  m_chan m2 = m_chan m0 /\ m_sr m2 = m_sr m0 /\ m_sw m2 = m_sw m0 /\
  (s_sw s1 = true -> s_sw s2 = true) /\ (s_sw s2 = true -> s_sw s1 = true \/ m_sr m0 = true).
Proof.
  intros Es Eok Hb Hs Hc. unfold copies. rewrite Es, Eok. destruct sd.
  - rewrite (copy_s_to_m_mute s1 m0 x fid Hb Hs).
    pose proof (copy_m_to_s_eager m0 s1 k Hc) as B.
    destruct (copy_m_to_s m0 s1 (SendAccept k) true) as [mb sb].
    destruct B as (B1 & B2 & B3 & B4 & B5 & B6 & B7 & B8 & B9). splits; auto; congruence.
  - pose proof (copy_m_to_s_eager m0 s1 k Hc) as B.
    destruct (copy_m_to_s m0 s1 (SendAccept k) true) as [ma sa].
    destruct B as (B1 & B2 & B3 & B4 & B5 & B6 & B7 & B8 & B9).
    rewrite (copy_s_to_m_mute sa ma x fid); [splits; auto; congruence|congruence|].
    intros H. rewrite B3. apply Hs. congruence.
Qed.

Lemma mute_callback sd fid p x o p' x' : eager_io o -> mute p = true ->
  proxy_callback sd fid p x o = Ok (p', x') ->
  x' = x /\ mute p' = true /\ m_chan (p_m p') = m_chan (p_m p).
Proof.
  intros (Ec & Er & (k & Es & Hk) & Eok) Hm. apply mute_sm_spec in Hm. destruct Hm as (M1 & M2 & M3 & M4).
  rewrite proxy_callback_unfold, Ec, Er, Eok.
  destruct (try_connect_mute (p_s p) true M4) as (s0 & -> & T1 & T2 & T3 & T4 & _). cbv zeta.
  rewrite fill_again.
  pose proof (copies_mute sd s0 (p_m p) x fid o k Es Eok ltac:(congruence) ltac:(intros H; apply M2; congruence) T2) as Hc.
  destruct (copies sd s0 (p_m p) x fid o) as [[s2 m2] x2].
  destruct Hc as (-> & C1 & C2 & C3 & C4 & C5 & C6 & C7 & C8 & C9).
  rewrite C1. cbn [nonempty_buf andb]. rewrite ?C1. cbn [nonempty_buf negb].
  assert (Hsw2 : s_sw s2 = true -> m_sr m2 = true).
  { intros H. rewrite C6. destruct (C9 H) as [A|A]; [apply M3; congruence|exact A]. }
  assert (Hsr2 : s_sr s2 = true -> m_sw m2 = true).
  { intros H. rewrite C7. apply M2. congruence. }
  assert (E3 : exists m3, (if nonempty_buf (m_buf m2) && s_sw s2
                     then m_noread (mkMuxw (m_chan m2) (m_sr m2) (m_sw m2) []) x fid
                     else (m2, x)) = (m3, x) /\ m_sr m3 = m_sr m2 /\ m_sw m3 = m_sw m2 /\ m_chan m3 = m_chan m2).
  { destruct (nonempty_buf (m_buf m2) && s_sw s2) eqn:E.
    - apply andb_true_iff in E. destruct E as [_ E]. unfold m_noread. cbn [m_sr]. rewrite (Hsw2 E).
      eexists. split; [reflexivity|]. cbn. auto.
    - exists m2. auto. }
  destruct E3 as (m3 & -> & D1 & D2 & D3).
  match goal with |- (if ?c then _ else _) = _ -> _ => destruct c eqn:Efin end.
  - apply andb_true_iff in Efin. destruct Efin as [Efin _]. apply andb_true_iff in Efin. destruct Efin as [Efin _].
    apply andb_true_iff in Efin. destruct Efin as [F1 F2].
    unfold m_nowrite. rewrite D2, (Hsr2 F1).
    intros H. apply ok_pair_inj in H. destruct H as [<- <-]. split; [reflexivity|]. split; [|cbn; congruence].
    apply mute_sm_spec. cbn [p_s p_m].
    destruct (nowrite_spec s2 true) as ((N1 & _) & _ & N3 & N4 & _).
    unfold s_nowrite in *. destruct (s_sw s2) eqn:Esw; cbn; splits; auto; try congruence.
    all: intros; try congruence; rewrite ?D1, ?D2; auto.
  - intros H. apply ok_pair_inj in H. destruct H as [<- <-]. split; [reflexivity|]. split; [|cbn; congruence].
    apply mute_sm_spec. cbn [p_s p_m]. rewrite D1, D2. splits; auto. intros; congruence.
Qed.

Lemma mute_preselect sd fid p x : mute p = true ->
  let '(p', x', ws) := proxy_pre_select sd fid p x in
  x_out x' = x_out x /\ mute p' = true /\ m_chan (p_m p') = m_chan (p_m p).
Proof.
  intros Hm. apply mute_sm_spec in Hm. destruct Hm as (M1 & M2 & M3 & M4).
  pose proof (pre_select_fields sd fid p x) as F. pose proof (pre_select_spec sd fid p x) as G.
  destruct (proxy_pre_select sd fid p x) as [[p' x'] ws].
  destruct F as (_ & _ & F3 & F4 & F5 & F6 & F7 & F8 & F9 & _ & F11).
  destruct G as (sn & _ & _ & (G1 & _) & _).
  split; [|split; [|exact G1]].
  - rewrite F11. destruct (s_sw (p_s p)) eqn:E; [rewrite (M3 eq_refl)|]; cbn; apply app_nil_r.
  - apply mute_sm_spec. rewrite F3, F4, F6, F7, F8, F9. splits; auto.
    + intros H. apply orb_true_iff in H. destruct H as [H|H]; auto.
    + intros H. rewrite H. apply orb_true_r.
Qed.

(* ================================================================== *)
(* 2. The shape of the two directed paths after one micro-step          *)
(* ================================================================== *)

Definition step_new (w : world) (ev : event) (sd : side) (k : nat) (new : list sframe) : Prop :=
  match ev with
  | EvAccept payload => sd = Client /\ k = 0%nat /\
      (new = [] \/ exists c, new = [mkSF c CConnect payload (Some (e_next (w_cl w)))])
  | EvCallback s0 g _ | EvPreSelect s0 g => sd = s0 /\ k = 0%nat /\
      exists p, e_prox (get_end w s0) g = Some p /\ Forall (flow_frame (m_chan (p_m p)) g) new
  | EvFlush s0 | EvRemove s0 _ => sd = s0 /\ k = 0%nat /\ new = []
  | EvDeliver s0 _ => sd = s0 /\ (k <= 1)%nat /\ (forall a, In a new -> sf_fid a = None /\ sf_cmd a = CPong)
  | EvCheckFull s0 => sd = s0 /\ k = 0%nat /\ Forall (fun fr => sf_fid fr = None /\ sf_cmd fr = CPing) new
  end.

Lemma step_pshape w ev w' : step w ev = Ok w' ->
  exists sd k new, path w' sd = path w sd ++ new /\ path w' (other sd) = skipn k (path w (other sd)) /\
                   step_new w ev sd k new.
Proof.
  destruct ev as [payload|sd g o|sd g|sd|sd o|sd|sd g]; intros Hs.
  - (* accept *)
    exists Client, 0%nat. revert Hs. cbn [step]. intros [= <-]. unfold client_accept.
    destruct (next_channel (w_maxc w) (occ (e_mux (w_cl w))) (x_chani (e_mux (w_cl w)))) as [[c|] chani'].
    + exists [mkSF c CConnect payload (Some (e_next (w_cl w)))]. split; [|split; [reflexivity|]].
      * unfold path, inlink. cbn. rewrite app_assoc. reflexivity.
      * cbn. splits; auto. right. exists c. reflexivity.
    + exists []. split; [|split; [reflexivity|cbn; auto]]. unfold path, inlink. cbn. rewrite app_nil_r. reflexivity.
  - (* callback *)
    revert Hs. cbn [step]. destruct (e_prox (get_end w sd) g) as [p|] eqn:Ep; [|discriminate].
    destruct (live p); [|discriminate].
    destruct (proxy_callback sd g p (e_mux (get_end w sd)) o) as [[p' x']|cr] eqn:Ecb; [|discriminate].
    intros [= <-]. pose proof (callback_spec _ _ _ _ _ _ _ Ecb) as F. destr_cb F.
    exists sd, 0%nat, cbnew. split; [|split; [|cbn; splits; auto]].
    + exact (act_path_same w sd g p p' x' cbnew Ep (me_out _ _ _ _ _ Fext)).
    + exact (act_path_other w sd g p p' x' cbnew Ep (me_out _ _ _ _ _ Fext)).
    + exists p. split; [exact Ep|exact (me_frames _ _ _ _ _ Fext)].
  - (* pre_select *)
    revert Hs. cbn [step]. destruct (e_prox (get_end w sd) g) as [p|] eqn:Ep; [|discriminate].
    destruct (live p); [|discriminate].
    pose proof (pre_select_spec sd g p (e_mux (get_end w sd))) as F.
    destruct (proxy_pre_select sd g p (e_mux (get_end w sd))) as [[p' x'] ws].
    destruct F as (sn & Fext & _). intros [= <-].
    exists sd, 0%nat, sn. split; [|split; [|cbn; splits; auto]].
    + exact (act_path_same w sd g p p' x' sn Ep (me_out _ _ _ _ _ Fext)).
    + exact (act_path_other w sd g p p' x' sn Ep (me_out _ _ _ _ _ Fext)).
    + exists p. split; [exact Ep|exact (me_frames _ _ _ _ _ Fext)].
  - (* flush *)
    destruct (flush_views _ _ _ Hs) as [Hp _]. exists sd, 0%nat, []. rewrite app_nil_r. cbn. splits; auto.
  - (* deliver *)
    destruct (inlink w (other sd)) as [|fr rest] eqn:Hl.
    { rewrite (deliver_empty _ _ _ _ Hs Hl). exists sd, 0%nat, []. rewrite app_nil_r. cbn. splits; auto.
      intros a []. }
    destruct (deliver_shape _ _ _ _ _ _ Hs Hl) as (e' & st & Hg & E1 & E2 & E3 & E4 & _).
    destruct (got_packet_shape _ _ _ _ _ _ Hg) as (_ & nw & Hout & Hnw).
    exists sd, 1%nat, nw. split; [|split; [|cbn; splits; auto]].
    + unfold path. rewrite E4, E1, Hout, app_assoc. reflexivity.
    + unfold path. rewrite E3, E2, Hl. reflexivity.
  - (* check_fullness *)
    destruct (checkfull_views _ _ _ Hs) as (_ & _ & Hpath).
    destruct (Hpath sd) as (nc & Ec & Hnc). destruct (Hpath (other sd)) as (ns & Es & Hns).
    exists sd, 0%nat, nc. split; [exact Ec|split; [|cbn; splits; auto]]. cbn [skipn].
    revert Hs. cbn [step]. intros [= <-]. unfold path, inlink. destruct sd; reflexivity.
  - (* remove *)
    destruct (remove_views _ _ _ _ Hs) as [Hp _]. exists sd, 0%nat, []. rewrite app_nil_r. cbn. splits; auto.
Qed.

(* a frame that is on a path after the step was there before, or is new *)
Definition new_frame (w : world) (ev : event) (rs : side) (fr : sframe) : Prop :=
  match ev with
  | EvAccept payload => rs = Client /\ exists c, fr = mkSF c CConnect payload (Some (e_next (w_cl w)))
  | EvCallback s0 g _ | EvPreSelect s0 g =>
      rs = s0 /\ exists p, e_prox (get_end w s0) g = Some p /\ flow_frame (m_chan (p_m p)) g fr
  | EvDeliver s0 _ => rs = s0 /\ sf_fid fr = None /\ sf_cmd fr = CPong
  | EvCheckFull s0 => rs = s0 /\ sf_fid fr = None /\ sf_cmd fr = CPing
  | _ => False
  end.

Lemma new_in_frame w ev sd k new fr : step_new w ev sd k new -> In fr new -> new_frame w ev sd fr.
Proof.
  intros Hn Hin.
  destruct ev as [payload|s0 g o|s0 g|s0|s0 o|s0|s0 g]; cbn [step_new new_frame] in *.
  - destruct Hn as (-> & _ & [->|(c & ->)]); [destruct Hin|]. destruct Hin as [<-|[]]. split; [reflexivity|]. exists c. reflexivity.
  - destruct Hn as (-> & _ & p & Ep & Hf). split; [reflexivity|]. exists p. split; [exact Ep|].
    rewrite Forall_forall in Hf. exact (Hf fr Hin).
  - destruct Hn as (-> & _ & p & Ep & Hf). split; [reflexivity|]. exists p. split; [exact Ep|].
    rewrite Forall_forall in Hf. exact (Hf fr Hin).
  - destruct Hn as (_ & _ & ->). destruct Hin.
  - destruct Hn as (-> & _ & Hf). split; [reflexivity|]. exact (Hf fr Hin).
  - destruct Hn as (-> & _ & Hf). split; [reflexivity|]. rewrite Forall_forall in Hf. exact (Hf fr Hin).
  - destruct Hn as (_ & _ & ->). destruct Hin.
Qed.

Lemma step_frames w ev w' rs fr : step w ev = Ok w' -> In fr (path w' rs) ->
  In fr (path w rs) \/ new_frame w ev rs fr.
Proof.
  intros Hs Hin. destruct (step_pshape w ev w' Hs) as (sd & k & new & P1 & P2 & Hn).
  destruct (side_cases rs sd) as [->| ->].
  2:{ left. rewrite P2 in Hin. exact (in_skipn k _ _ Hin). }
  rewrite P1 in Hin. apply in_app_or in Hin. destruct Hin as [Hin|Hin]; [left; exact Hin|right].
  exact (new_in_frame w ev sd k new fr Hn Hin).
Qed.

(* an eager step puts no CONNECT on a path *)
Lemma eager_new_no_connect w ev rs fr : eager_event ev -> new_frame w ev rs fr -> sf_cmd fr <> CConnect.
Proof.
  destruct ev as [payload|s0 g o|s0 g|s0|s0 o|s0|s0 g]; cbn [new_frame eager_event]; try contradiction.
  - intros _ (_ & p & _ & Hf). exact (flow_frame_not_connect _ _ _ Hf).
  - intros _ (_ & p & _ & Hf). exact (flow_frame_not_connect _ _ _ Hf).
  - intros _ (_ & _ & C). congruence.
Qed.

(* ================================================================== *)
(* 3. Two more run invariants: CONNECTs travel in the order of their    *)
(*    flow numbers; only PING / PONG carry no flow number               *)
(* ================================================================== *)

Definition conn_one (fr : sframe) (tl : list sframe) : Prop :=
  forall f, sf_cmd fr = CConnect -> sf_fid fr = Some f ->
  forall fr2 g, In fr2 tl -> sf_cmd fr2 = CConnect -> sf_fid fr2 = Some g -> f < g.

Fixpoint conn_sorted (l : list sframe) : Prop :=
  match l with
  | [] => True
  | fr :: tl => conn_one fr tl /\ conn_sorted tl
  end.

Lemma cs_app l new : conn_sorted l -> conn_sorted new ->
  (forall fr, In fr l -> conn_one fr new) -> conn_sorted (l ++ new).
Proof.
  induction l as [|a l IH]; intros Hl Hn Hx; [exact Hn|].
  destruct Hl as [H1 H2]. cbn [app conn_sorted]. split.
  - intros f Hc Hf fr2 g Hin. apply in_app_or in Hin. destruct Hin as [Hin|Hin].
    + apply (H1 f Hc Hf fr2 g Hin).
    + apply (Hx a (or_introl eq_refl) f Hc Hf fr2 g Hin).
  - apply IH; auto. intros fr Hin. apply Hx. right. exact Hin.
Qed.

Lemma cs_skipn k : forall l, conn_sorted l -> conn_sorted (skipn k l).
Proof.
  induction k as [|k IH]; intros l H; [exact H|].
  destruct l as [|a l]; [exact I|]. cbn [skipn]. apply IH. apply H.
Qed.

Lemma cs_no_connect new : (forall fr, In fr new -> sf_cmd fr <> CConnect) -> conn_sorted new.
Proof.
  induction new as [|a l IH]; intros H; cbn [conn_sorted]; [exact I|]. split.
  - intros f _ _ fr2 g Hin Hc. exfalso. apply (H fr2); [right; exact Hin|exact Hc].
  - apply IH. intros fr Hin. apply H. right. exact Hin.
Qed.

Lemma conn_one_no_connect fr new : (forall a, In a new -> sf_cmd a <> CConnect) -> conn_one fr new.
Proof. intros H f _ _ fr2 g Hin Hc. exfalso. exact (H fr2 Hin Hc). Qed.

Definition fid_ok (fr : sframe) : Prop := sf_fid fr = None -> sf_cmd fr = CPing \/ sf_cmd fr = CPong.

Record Dinv (w : world) : Prop := {
  d_sorted : conn_sorted (path w Client);
  d_fid : forall sd fr, In fr (path w sd) -> fid_ok fr
}.

Lemma Dinv_world0 maxc lbs : Dinv (world0 maxc lbs).
Proof.
  constructor.
  - unfold path; cbn. split; [|exact I]. intros f Hc. discriminate.
  - intros sd fr. unfold path. destruct sd; cbn; intros [<-|[]] _; left; reflexivity.
Qed.

Lemma new_frame_fid_ok w ev rs fr : new_frame w ev rs fr -> fid_ok fr.
Proof.
  destruct ev as [payload|s0 g o|s0 g|s0|s0 o|s0|s0 g]; cbn [new_frame]; try contradiction.
  - intros (_ & c & ->) H. discriminate.
  - intros (_ & p & _ & (_ & Hf & _)) H. congruence.
  - intros (_ & p & _ & (_ & Hf & _)) H. congruence.
  - intros (_ & _ & Hc) _. right. exact Hc.
  - intros (_ & _ & Hc) _. left. exact Hc.
Qed.

Theorem step_Dinv w ev w' : Ginv w -> Dinv w -> step w ev = Ok w' -> Dinv w'.
Proof.
  intros [W _ AL _] [D1 D2] Hs. constructor.
  - destruct (step_pshape w ev w' Hs) as (sd & k & new & P1 & P2 & Hn).
    destruct sd; cbn [other] in *.
    2:{ rewrite P2. apply cs_skipn. exact D1. }
    rewrite P1.
    assert (Hcases : (forall a, In a new -> sf_cmd a <> CConnect) \/
                     exists c payload, new = [mkSF c CConnect payload (Some (e_next (w_cl w)))]).
    { destruct ev as [payload|s0 g o|s0 g|s0|s0 o|s0|s0 g]; cbn [step_new] in Hn.
      - destruct Hn as (_ & _ & [->|(c & ->)]); [left; intros a []|right; eauto].
      - left. destruct Hn as (_ & _ & p & _ & Hf). rewrite Forall_forall in Hf.
        intros a Ha. exact (flow_frame_not_connect _ _ _ (Hf a Ha)).
      - left. destruct Hn as (_ & _ & p & _ & Hf). rewrite Forall_forall in Hf.
        intros a Ha. exact (flow_frame_not_connect _ _ _ (Hf a Ha)).
      - left. destruct Hn as (_ & _ & ->). intros a [].
      - left. destruct Hn as (_ & _ & Hf). intros a Ha. destruct (Hf a Ha) as [_ C]. congruence.
      - left. destruct Hn as (_ & _ & Hf). rewrite Forall_forall in Hf. intros a Ha. destruct (Hf a Ha) as [_ C]. congruence.
      - left. destruct Hn as (_ & _ & ->). intros a []. }
    destruct Hcases as [Hnc|(c & payload & ->)].
    + apply cs_app; [exact D1|apply cs_no_connect; exact Hnc|]. intros fr _. apply conn_one_no_connect. exact Hnc.
    + apply cs_app; [exact D1| |].
      * split; [|exact I]. intros f _ _ fr2 g [].
      * intros fr Hin f Hc Hf fr2 g [<-|[]] _ Hg. cbn in Hg. injection Hg as <-.
        destruct (al_cs w AL fr f Hin Hf) as (q & Hq & _). exact (r_fresh _ (proj1 W) f q Hq).
  - intros sd fr Hin. destruct (step_frames w ev w' sd fr Hs Hin) as [H|H].
    + exact (D2 sd fr H).
    + exact (new_frame_fid_ok _ _ _ _ H).
Qed.

Theorem run_GSDinv evs : forall w w', Ginv w -> Sinv w -> Dinv w -> run w evs = Ok w' -> w_stale w' = false ->
  Ginv w' /\ Sinv w' /\ Dinv w'.
Proof.
  induction evs as [|ev evs IH]; intros w w' G S D; cbn [run].
  - intros [= <-] _. auto.
  - destruct (step w ev) as [w1|] eqn:Es; [|discriminate]. intros Hr Hst.
    apply (IH w1 w'); [| | |exact Hr|exact Hst].
    + apply (step_Ginv w ev w1 G Es).
      destruct (w_stale w1) eqn:E; [|reflexivity].
      rewrite (run_stale_mono _ _ _ Hr E) in Hst. discriminate.
    + apply (step_Sinv w ev w1 G S Es).
    + apply (step_Dinv w ev w1 G D Es).
Qed.

(* ================================================================== *)
(* 4. Clean states: no older incarnation of an identifier can still     *)
(*    reach a newer one                                                 *)
(* ================================================================== *)

(* the frames of the client's path that a wrapper registered by CONNECT(h) can meet at the
   server: those behind that CONNECT while it is still on the way (all of them once it is gone) *)
Definition conn_of (h : N) (fr : sframe) : bool := is_connect fr && fid_is h fr.

Fixpoint live_tail (h : N) (l : list sframe) : list sframe :=
  match l with
  | [] => []
  | fr :: tl => if conn_of h fr || existsb (conn_of h) tl then live_tail h tl else fr :: tl
  end.

Definition region (w : world) (sd : side) (h : N) : list sframe :=
  match sd with Server => path w Server | Client => live_tail h (path w Client) end.

(* end sd of the older flow g has nothing on the way that could meet the wrapper of the newer flow h,
   and nothing to say *)
Definition silent (w : world) (sd : side) (g h : N) : Prop :=
  (forall fr, In fr (region w sd h) -> sf_fid fr <> Some g) /\
  (forall p, e_prox (get_end w sd) g = Some p -> mute p = true).

Definition Clean (w : world) : Prop :=
  forall g h qg qh, g < h -> cl w g = Some qg -> cl w h = Some qh -> m_chan (p_m qg) = m_chan (p_m qh) ->
  (closed (p_m qh) = true \/ silent w Server g h) /\
  ((exists ph, sv w h = Some ph /\ closed (p_m ph) = true) \/ silent w Client g h).

Lemma live_tail_none h l : existsb (conn_of h) l = false -> live_tail h l = l.
Proof.
  destruct l as [|fr tl]; [reflexivity|]. cbn [existsb live_tail]. intros ->. reflexivity.
Qed.

Lemma live_tail_in h : forall l a, In a (live_tail h l) -> In a l.
Proof.
  induction l as [|fr tl IH]; intros a H; [exact H|]. cbn [live_tail] in H.
  destruct (conn_of h fr || existsb (conn_of h) tl); [right; apply IH; exact H|exact H].
Qed.

Lemma live_tail_app h new : existsb (conn_of h) new = false ->
  forall l, live_tail h (l ++ new) = live_tail h l ++ new.
Proof.
  intros Hn. induction l as [|fr tl IH]; [cbn [app live_tail]; apply live_tail_none; exact Hn|].
  cbn [app live_tail]. rewrite existsb_app, Hn, orb_false_r.
  destruct (conn_of h fr || existsb (conn_of h) tl); [exact IH|reflexivity].
Qed.

Lemma live_tail_skipn h k : forall l a, In a (live_tail h (skipn k l)) -> In a (live_tail h l).
Proof.
  induction k as [|k IH]; intros l a H; [exact H|].
  destruct l as [|fr tl]; [exact H|]. cbn [skipn] in H. specialize (IH tl a H).
  cbn [live_tail]. destruct (conn_of h fr || existsb (conn_of h) tl); [exact IH|].
  right. exact (live_tail_in h tl a IH).
Qed.

Lemma conn_of_spec h fr : conn_of h fr = true <-> sf_cmd fr = CConnect /\ sf_fid fr = Some h.
Proof.
  unfold conn_of, is_connect, fid_is, same_fid. rewrite andb_true_iff. split.
  - intros [A B]. split; [destruct (sf_cmd fr); try discriminate; reflexivity|].
    destruct (sf_fid fr) as [f|]; [|discriminate]. apply N.eqb_eq in B. congruence.
  - intros [-> ->]. split; [reflexivity|apply N.eqb_refl].
Qed.

Lemma path_head w sd fr rest : inlink w sd = fr :: rest ->
  path w sd = fr :: rest ++ x_out (e_mux (get_end w sd)).
Proof. intros H. unfold path. rewrite H. reflexivity. Qed.

Lemma same_fid_some f : same_fid (Some f) f = true.
Proof. cbn. apply N.eqb_refl. Qed.

(* a frame of flow g that meets a registered wrapper meets its own *)
Lemma wrapper_own_flow w sd fr tl g h : Ginv w -> Sinv w -> Clean w ->
  path w (other sd) = fr :: tl -> sf_cmd fr <> CConnect -> sf_fid fr = Some g ->
  x_chan (e_mux (get_end w sd)) (sf_ch fr) = Some h -> g = h.
Proof.
  intros [W FW AL V] S C Hp Hnc Hf Hx.
  assert (Hin : In fr (path w (other sd))) by (rewrite Hp; left; reflexivity).
  destruct (N.eq_dec g h) as [E|Hne]; [exact E|exfalso].
  destruct (r_reg _ (Winv_get w sd W) _ _ Hx) as (p & Hph & Hch & Hopen).
  destruct sd; cbn [other get_end] in *.
  - (* at the client: the frame comes from the server's end of g *)
    destruct (al_sc w AL fr g Hin Hf) as (pg & Hpg & Ecg).
    destruct (al_sv_cl w AL g pg Hpg) as (qg & Hqg & Eqg). unfold cl in *.
    assert (Hgh : g < h).
    { destruct (N.lt_trichotomy g h) as [L|[L|L]]; [exact L|contradiction|exfalso].
      pose proof (e_hist _ (s_cl w S) h g p qg L Hph Hqg ltac:(congruence)). congruence. }
    destruct (C g h qg p Hgh Hqg Hph ltac:(congruence)) as [[X|[X _]] _]; [congruence|].
    exact (X fr Hin Hf).
  - (* at the server: the frame comes from the client's end of g *)
    destruct (al_cs w AL fr g Hin Hf) as (qg & Hqg & Ecg).
    destruct (al_sv_cl w AL h p Hph) as (qh & Hqh & Eqh). unfold cl, sv in *.
    assert (Hgh : g < h).
    { destruct (N.lt_trichotomy g h) as [L|[L|L]]; [exact L|contradiction|exfalso].
      destruct (e_prox (w_sv w) g) as [pg|] eqn:Epg.
      - destruct (al_sv_cl w AL g pg Epg) as (q' & Hq' & Eq'). unfold cl in Hq'.
        assert (q' = qg) by congruence. subst q'.
        pose proof (e_hist _ (s_sv w S) h g p pg L Hph Epg ltac:(congruence)). congruence.
      - destruct (al_connect_first w AL g qg Hqg Epg) as (frc & rest2 & Ef2 & Ec2).
        rewrite Hp in Ef2. cbn [filter] in Ef2. unfold fid_is at 1 in Ef2. rewrite Hf, same_fid_some in Ef2.
        injection Ef2 as <- _. contradiction. }
    destruct (C g h qg qh Hgh Hqg Hqh ltac:(congruence)) as [_ [(ph & Hph2 & X)|[X _]]].
    + unfold sv in Hph2. assert (ph = p) by congruence. subst ph. congruence.
    + apply (X fr); [|exact Hf]. cbn [region]. rewrite live_tail_none; [exact Hin|].
      destruct (existsb (conn_of h) (path w Client)) eqn:Ex2; [exfalso|reflexivity].
      apply existsb_exists in Ex2. destruct Ex2 as (a & Ha & Ca). apply conn_of_spec in Ca. destruct Ca as [Ca1 Ca2].
      pose proof (al_connect_pending w AL a h Ha Ca1 Ca2) as N0. unfold sv in N0. congruence.
Qed.

(* the dispatch of the next frame is not a stale delivery *)
Lemma deliver_clean w sd o w' : Ginv w -> Sinv w -> Dinv w -> Clean w ->
  step w (EvDeliver sd o) = Ok w' -> w_stale w' = w_stale w.
Proof.
  intros G S D C Hs. pose proof G as [W FW AL V].
  destruct (inlink w (other sd)) as [|fr rest] eqn:Hl.
  { rewrite (deliver_empty _ _ _ _ Hs Hl). reflexivity. }
  destruct (deliver_shape _ _ _ _ _ _ Hs Hl) as (e' & st & Hg & _ & _ & _ & _ & Est).
  rewrite Est. assert (st = false); [|subst st; apply orb_false_r].
  pose proof (path_head w (other sd) fr rest Hl) as Hp. set (tl := rest ++ _) in Hp.
  assert (Hin : In fr (path w (other sd))) by (rewrite Hp; left; reflexivity).
  pose proof (d_fid w D (other sd) fr Hin) as Hfid.
  unfold mux_got_packet in Hg. destruct (sf_cmd fr) eqn:Ecmd.
  - apply ok_pair_inj in Hg. destruct Hg as [_ <-]. reflexivity.
  - apply ok_pair_inj in Hg. destruct Hg as [_ <-]. reflexivity.
  - (* CONNECT *)
    destruct (occ (e_mux (get_end w sd)) (sf_ch fr)); [discriminate|]. destruct sd; cbn [other get_end] in *.
    + apply ok_pair_inj in Hg. destruct Hg as [_ <-]. reflexivity.
    + destruct (server_new_channel (w_sv w) (sf_ch fr) o) as [e1|cr]; [|discriminate].
      apply ok_pair_inj in Hg. destruct Hg as [_ <-]. apply negb_false_iff.
      destruct (sf_fid fr) as [f|] eqn:Ef; [|exfalso; exact (s_cfid w S fr Hin Ecmd Ef)].
      assert (f = e_next (w_sv w)); [|subst f; apply same_fid_some].
      pose proof (al_connect_pending w AL fr f Hin Ecmd Ef) as Hnone. unfold sv in Hnone.
      destruct (N.lt_trichotomy f (e_next (w_sv w))) as [Hlt|[Heq|Hgt]]; [|exact Heq|]; exfalso.
      * exact (e_dense _ (s_sv w S) f Hlt Hnone).
      * set (n := e_next (w_sv w)) in *.
        destruct (al_cs w AL fr f Hin Ef) as (q & Hq & _).
        pose proof (r_fresh _ (proj1 W) f q Hq) as Hfc.
        destruct (e_prox (w_cl w) n) as [qn|] eqn:Eqn.
        2:{ apply (e_dense _ (s_cl w S) n); [lia|exact Eqn]. }
        assert (Hsn : sv w n = None).
        { unfold sv. destruct (e_prox (w_sv w) n) as [pn|] eqn:E; [|reflexivity].
          pose proof (r_fresh _ (proj2 W) n pn E). unfold n in *. lia. }
        destruct (al_connect_first w AL n qn Eqn Hsn) as (frc & rest2 & Ef2 & Ec2).
        assert (Hinc : In frc (filter (fid_is n) (path w Client))) by (rewrite Ef2; left; reflexivity).
        apply in_filter_fid in Hinc. destruct Hinc as [Hinc Hfc2].
        rewrite Hp in Hinc. destruct Hinc as [<-|Hinc]; [rewrite Ef in Hfc2; injection Hfc2 as ->; lia|].
        pose proof (d_sorted w D) as Q. rewrite Hp in Q. destruct Q as [Q _].
        pose proof (Q f Ecmd Ef frc n Hinc Ec2 Hfc2). lia.
  - destruct (x_chan (e_mux (get_end w sd)) (sf_ch fr)) as [h|] eqn:Ex; [|apply ok_pair_inj in Hg; destruct Hg as [_ <-]; reflexivity].
    destruct (e_prox (get_end w sd) h) as [p|]; [|discriminate].
    destruct (m_got_packet (p_m p) (e_mux (get_end w sd)) CStop (sf_data fr)) as [[m' x']|]; [|discriminate].
    apply ok_pair_inj in Hg. destruct Hg as [_ <-]. apply negb_false_iff.
    destruct (sf_fid fr) as [g|] eqn:Ef; [|destruct (Hfid Ef); congruence].
    rewrite (wrapper_own_flow w sd fr tl g h G S C Hp ltac:(congruence) Ef Ex). apply same_fid_some.
  - destruct (x_chan (e_mux (get_end w sd)) (sf_ch fr)) as [h|] eqn:Ex; [|apply ok_pair_inj in Hg; destruct Hg as [_ <-]; reflexivity].
    destruct (e_prox (get_end w sd) h) as [p|]; [|discriminate].
    destruct (m_got_packet (p_m p) (e_mux (get_end w sd)) CEof (sf_data fr)) as [[m' x']|]; [|discriminate].
    apply ok_pair_inj in Hg. destruct Hg as [_ <-]. apply negb_false_iff.
    destruct (sf_fid fr) as [g|] eqn:Ef; [|destruct (Hfid Ef); congruence].
    rewrite (wrapper_own_flow w sd fr tl g h G S C Hp ltac:(congruence) Ef Ex). apply same_fid_some.
  - destruct (x_chan (e_mux (get_end w sd)) (sf_ch fr)) as [h|] eqn:Ex; [|apply ok_pair_inj in Hg; destruct Hg as [_ <-]; reflexivity].
    destruct (e_prox (get_end w sd) h) as [p|]; [|discriminate].
    destruct (m_got_packet (p_m p) (e_mux (get_end w sd)) CData (sf_data fr)) as [[m' x']|]; [|discriminate].
    apply ok_pair_inj in Hg. destruct Hg as [_ <-]. apply negb_false_iff.
    destruct (sf_fid fr) as [g|] eqn:Ef; [|destruct (Hfid Ef); congruence].
    rewrite (wrapper_own_flow w sd fr tl g h G S C Hp ltac:(congruence) Ef Ex). apply same_fid_some.
  - destruct (x_chan (e_mux (get_end w sd)) (sf_ch fr)) as [h|]; [|apply ok_pair_inj in Hg; destruct Hg as [_ <-]; reflexivity].
    destruct (e_prox (get_end w sd) h) as [p|]; [|discriminate]. cbn [m_got_packet] in Hg. discriminate.
Qed.

(* ================================================================== *)
(* 5. Eager steps keep a clean state clean                              *)
(* ================================================================== *)

(* how the handlers of an end evolve: only a dispatched CONNECT creates one *)
Lemma eager_step_ends w ev w' : eager_event ev -> step w ev = Ok w' ->
  prox_evolve (w_cl w) (w_cl w') /\
  (prox_evolve (w_sv w) (w_sv w') \/ exists c, prox_new (w_sv w) (w_sv w') c).
Proof.
  intros He Hs.
  assert (Hact : forall sd g p p' x', e_prox (get_end w sd) g = Some p -> muxw_mono (p_m p) (p_m p') ->
            w' = set_end w sd (set_prox (get_end w sd) g p' x') ->
            prox_evolve (w_cl w) (w_cl w') /\
            (prox_evolve (w_sv w) (w_sv w') \/ exists c, prox_new (w_sv w) (w_sv w') c)).
  { intros sd g p p' x' Ep Hm ->. destruct sd; cbn [set_end get_end w_cl w_sv] in *.
    - split; [apply (prox_evolve_upd _ _ p); assumption|left; apply prox_evolve_same; reflexivity].
    - split; [apply prox_evolve_same; reflexivity|left; apply (prox_evolve_upd _ _ p); assumption]. }
  assert (Hsame : (forall s2, e_next (get_end w' s2) = e_next (get_end w s2)) ->
                  (forall s2 f, e_prox (get_end w' s2) f = e_prox (get_end w s2) f) ->
            prox_evolve (w_cl w) (w_cl w') /\
            (prox_evolve (w_sv w) (w_sv w') \/ exists c, prox_new (w_sv w) (w_sv w') c)).
  { intros Hn Hf. split; [|left]; apply prox_evolve_same;
      first [apply (Hn Client)|apply (Hn Server)|apply (Hf Client)|apply (Hf Server)]. }
  destruct ev as [payload|sd g o|sd g|sd|sd o|sd|sd g]; cbn [eager_event] in He; try contradiction.
  - revert Hs. cbn [step]. destruct (e_prox (get_end w sd) g) as [p|] eqn:Ep; [|discriminate].
    destruct (live p); [|discriminate].
    destruct (proxy_callback sd g p (e_mux (get_end w sd)) o) as [[p' x']|cr] eqn:Ecb; [|discriminate].
    intros [= <-]. pose proof (callback_spec _ _ _ _ _ _ _ Ecb) as F. destr_cb F.
    exact (Hact sd g p p' x' Ep Fmmono eq_refl).
  - revert Hs. cbn [step]. destruct (e_prox (get_end w sd) g) as [p|] eqn:Ep; [|discriminate].
    destruct (live p); [|discriminate].
    pose proof (pre_select_spec sd g p (e_mux (get_end w sd))) as F.
    destruct (proxy_pre_select sd g p (e_mux (get_end w sd))) as [[p' x'] ws].
    destruct F as (sn & _ & _ & Fmm & _). intros [= <-].
    exact (Hact sd g p p' x' Ep Fmm eq_refl).
  - destruct (flush_views _ _ _ Hs) as [_ Hf]. apply Hsame; [|exact Hf].
    revert Hs. cbn [step]. destruct (x_out (e_mux (get_end w sd))); intros [= <-]; [reflexivity|].
    intros s2. destruct sd, s2; reflexivity.
  - destruct (inlink w (other sd)) as [|fr rest] eqn:Hl.
    { pose proof (deliver_empty _ _ _ _ Hs Hl) as E. subst w'. apply Hsame; reflexivity. }
    destruct (deliver_shape _ _ _ _ _ _ Hs Hl) as (e' & st & Hg & E1 & E2 & _).
    destruct (got_packet_shape _ _ _ _ _ _ Hg) as (Hend & _).
    destruct sd; cbn [other get_end] in *.
    + split; [|left; rewrite E2; apply prox_evolve_same; reflexivity].
      rewrite E1. destruct Hend as [H|(H & _)]; [exact H|discriminate].
    + split; [rewrite E2; apply prox_evolve_same; reflexivity|].
      rewrite E1. destruct Hend as [H|(_ & _ & H)]; [left; exact H|right; eexists; exact H].
  - revert Hs. cbn [step]. destruct (e_prox (get_end w sd) g) as [p|] eqn:Ep; [|discriminate].
    destruct (negb (p_ok p) && live p); [|discriminate]. intros [= <-].
    apply (Hact sd g p (mkProxy (p_ok p) true (p_s p) (p_m p)) (e_mux (get_end w sd)) Ep); [apply muxw_mono_refl|reflexivity].
Qed.

Lemma mute_handed p p' : p_s p' = p_s p -> muxw_mono (p_m p) (p_m p') -> mute p = true -> mute p' = true.
Proof.
  intros Es (_ & M1 & M2) H. unfold mute in *. apply mute_sm_spec in H. apply mute_sm_spec. rewrite Es.
  destruct H as (A & B & C & D). splits; auto.
Qed.

(* a dispatched frame: the wrapper it is handed to stays mute; a handler created by a
   CONNECT whose connect() completes at once is mute *)
Lemma got_packet_mute sd e fr o e' st g p' : eager_io o ->
  mux_got_packet sd e fr o = Ok (e', st) -> e_prox e' g = Some p' ->
  match e_prox e g with Some p => mute p = true -> mute p' = true | None => mute p' = true end.
Proof.
  intros (Ec & _ & _ & Eok).
  assert (Hsame : e_prox e g = Some p' ->
            match e_prox e g with Some p => mute p = true -> mute p' = true | None => mute p' = true end).
  { intros ->. auto. }
  assert (Hhand : forall g0 p0 m' x', e_prox e g0 = Some p0 -> muxw_mono (p_m p0) m' ->
     e_prox (set_prox e g0 (mkProxy (p_ok p0) (p_removed p0) (p_s p0) m') x') g = Some p' ->
     match e_prox e g with Some p => mute p = true -> mute p' = true | None => mute p' = true end).
  { intros g0 p0 m' x' E0 Hm. cbn [set_prox e_prox]. unfold upd.
    destruct (N.eqb_spec g g0) as [->|Hne]; [|apply Hsame].
    intros [= <-]. rewrite E0. apply mute_handed; [reflexivity|exact Hm]. }
  unfold mux_got_packet. destruct (sf_cmd fr) eqn:Ecmd.
  - intros H. apply ok_pair_inj in H. destruct H as [<- _]. apply Hsame.
  - intros H. apply ok_pair_inj in H. destruct H as [<- _]. apply Hsame.
  - destruct (occ (e_mux e) (sf_ch fr)); [discriminate|]. destruct sd.
    + intros H. apply ok_pair_inj in H. destruct H as [<- _]. apply Hsame.
    + unfold server_new_channel. rewrite Ec, Eok. cbn.
      intros H. apply ok_pair_inj in H. destruct H as [<- _]. cbn [e_prox]. unfold upd.
      destruct (N.eqb_spec g (e_next e)) as [->|Hne]; [|apply Hsame].
      intros [= <-]. destruct (e_prox e (e_next e)); reflexivity.
  - destruct (x_chan (e_mux e) (sf_ch fr)) as [g0|]; [|intros H; apply ok_pair_inj in H; destruct H as [<- _]; apply Hsame].
    destruct (e_prox e g0) as [p0|] eqn:E0; [|discriminate]. cbn [m_got_packet].
    destruct (setnowrite_ext (p_m p0) (e_mux e) g0) as (_ & Mm & _).
    destruct (m_setnowrite (p_m p0) (e_mux e)) as [m' x']. cbn [fst snd] in *.
    intros H. apply ok_pair_inj in H. destruct H as [<- _]. apply (Hhand g0 p0 m' x' E0 Mm).
  - destruct (x_chan (e_mux e) (sf_ch fr)) as [g0|]; [|intros H; apply ok_pair_inj in H; destruct H as [<- _]; apply Hsame].
    destruct (e_prox e g0) as [p0|] eqn:E0; [|discriminate]. cbn [m_got_packet].
    destruct (setnoread_ext (p_m p0) (e_mux e) g0) as (_ & Mm & _).
    destruct (m_setnoread (p_m p0) (e_mux e)) as [m' x']. cbn [fst snd] in *.
    intros H. apply ok_pair_inj in H. destruct H as [<- _]. apply (Hhand g0 p0 m' x' E0 Mm).
  - destruct (x_chan (e_mux e) (sf_ch fr)) as [g0|]; [|intros H; apply ok_pair_inj in H; destruct H as [<- _]; apply Hsame].
    destruct (e_prox e g0) as [p0|] eqn:E0; [|discriminate]. cbn [m_got_packet].
    intros H. apply ok_pair_inj in H. destruct H as [<- _]. apply (Hhand g0 p0 _ _ E0).
    unfold muxw_mono. cbn. auto.
  - destruct (x_chan (e_mux e) (sf_ch fr)) as [g0|]; [|intros H; apply ok_pair_inj in H; destruct H as [<- _]; apply Hsame].
    destruct (e_prox e g0) as [p0|] eqn:E0; [|discriminate]. cbn [m_got_packet]. discriminate.
Qed.

Lemma act_path_quiet w sd g p' x' : x_out x' = x_out (e_mux (get_end w sd)) ->
  forall rs, path (set_end w sd (set_prox (get_end w sd) g p' x')) rs = path w rs.
Proof. intros H rs. unfold path, inlink. destruct sd, rs; cbn in *; rewrite ?H; reflexivity. Qed.

(* what an eager step does to one handler: mute stays mute, a new one is mute; and a mute
   handler that acts queues nothing *)
Lemma eager_step_mute w ev w' : eager_event ev -> step w ev = Ok w' ->
  forall s2 g p', e_prox (get_end w' s2) g = Some p' ->
  match e_prox (get_end w s2) g with
  | Some p => mute p = true -> mute p' = true /\
      (match ev with EvCallback s0 g0 _ | EvPreSelect s0 g0 => s0 = s2 /\ g0 = g | _ => False end ->
       forall rs, path w' rs = path w rs)
  | None => mute p' = true
  end.
Proof.
  intros He Hs s2 g p' Hp'.
  assert (Hsame : e_prox (get_end w s2) g = Some p' -> (match ev with EvCallback s0 g0 _ | EvPreSelect s0 g0 => s0 = s2 /\ g0 = g | _ => False end -> False) ->
     match e_prox (get_end w s2) g with
     | Some p => mute p = true -> mute p' = true /\
        (match ev with EvCallback s0 g0 _ | EvPreSelect s0 g0 => s0 = s2 /\ g0 = g | _ => False end ->
         forall rs, path w' rs = path w rs)
     | None => mute p' = true
     end).
  { intros -> Hno Hm. split; [exact Hm|]. intros H. destruct (Hno H). }
  destruct ev as [payload|sd g0 o|sd g0|sd|sd o|sd|sd g0]; cbn [eager_event] in He; try contradiction.
  - revert Hs Hp'. cbn [step]. destruct (e_prox (get_end w sd) g0) as [p|] eqn:Ep; [|discriminate].
    destruct (live p); [|discriminate].
    destruct (proxy_callback sd g0 p (e_mux (get_end w sd)) o) as [[p1 x1]|cr] eqn:Ecb; [|discriminate].
    intros [= <-]. destruct (side_cases s2 sd) as [->| ->].
    + rewrite get_set_end. cbn [set_prox e_prox]. unfold upd.
      destruct (N.eqb_spec g g0) as [->|Hne].
      * intros [= <-]. rewrite Ep. intros Hm.
        destruct (mute_callback _ _ _ _ _ _ _ He Hm Ecb) as (-> & M & _). split; [exact M|].
        intros _. apply act_path_quiet. reflexivity.
      * intros H. apply Hsame; [exact H|]. intros [_ E]. congruence.
    + rewrite get_set_end_other. intros H. apply Hsame; [exact H|]. intros [E _]. destruct sd; discriminate.
  - revert Hs Hp'. cbn [step]. destruct (e_prox (get_end w sd) g0) as [p|] eqn:Ep; [|discriminate].
    destruct (live p); [|discriminate].
    pose proof (fun H => mute_preselect sd g0 p (e_mux (get_end w sd)) H) as F.
    destruct (proxy_pre_select sd g0 p (e_mux (get_end w sd))) as [[p1 x1] ws].
    intros [= <-]. destruct (side_cases s2 sd) as [->| ->].
    + rewrite get_set_end. cbn [set_prox e_prox]. unfold upd.
      destruct (N.eqb_spec g g0) as [->|Hne].
      * intros [= <-]. rewrite Ep. intros Hm. destruct (F Hm) as (Ho & M & _). split; [exact M|].
        intros _. apply act_path_quiet. exact Ho.
      * intros H. apply Hsame; [exact H|]. intros [_ E]. congruence.
    + rewrite get_set_end_other. intros H. apply Hsame; [exact H|]. intros [E _]. destruct sd; discriminate.
  - destruct (flush_views _ _ _ Hs) as [_ Hf]. rewrite Hf in Hp'. apply Hsame; [exact Hp'|auto].
  - destruct (inlink w (other sd)) as [|fr rest] eqn:Hl.
    { rewrite (deliver_empty _ _ _ _ Hs Hl) in Hp'. apply Hsame; [exact Hp'|auto]. }
    destruct (deliver_shape _ _ _ _ _ _ Hs Hl) as (e' & st & Hg & E1 & E2 & _).
    destruct (side_cases s2 sd) as [->| ->].
    + rewrite E1 in Hp'. pose proof (got_packet_mute _ _ _ _ _ _ _ _ He Hg Hp') as M.
      destruct (e_prox (get_end w sd) g); [|exact M]. intros Hm. split; [exact (M Hm)|intros []].
    + rewrite E2 in Hp'. apply Hsame; [exact Hp'|auto].
  - destruct (remove_views _ _ _ _ Hs) as [_ Hf]. destruct (Hf s2 g) as (A & B & Cn).
    rewrite Hp' in A, B. cbn [pS pM] in A, B.
    destruct (e_prox (get_end w s2) g) as [p|] eqn:Ep.
    + cbn [pS pM] in A, B. intros Hm. split; [|intros []]. unfold mute in *. rewrite A, B. exact Hm.
    + destruct Cn as [_ Cn]. specialize (Cn eq_refl). congruence.
Qed.

Lemma region_step w ev w' rs h fr : eager_event ev -> step w ev = Ok w' -> In fr (region w' rs h) ->
  In fr (region w rs h) \/ new_frame w ev rs fr.
Proof.
  intros He Hs Hin. destruct rs; cbn [region] in *; [|exact (step_frames w ev w' Server fr Hs Hin)].
  destruct (step_pshape w ev w' Hs) as (sd & k & new & P1 & P2 & Hn).
  destruct sd; cbn [other] in *.
  - rewrite P1, live_tail_app in Hin.
    + apply in_app_or in Hin. destruct Hin as [Hin|Hin]; [left; exact Hin|right].
      exact (new_in_frame w ev Client k new fr Hn Hin).
    + destruct (existsb (conn_of h) new) eqn:E; [exfalso|reflexivity].
      apply existsb_exists in E. destruct E as (a & Ha & Ca). apply conn_of_spec in Ca.
      exact (eager_new_no_connect w ev Client a He (new_in_frame w ev Client k new a Hn Ha) (proj1 Ca)).
  - left. rewrite P2 in Hin. exact (live_tail_skipn h k _ _ Hin).
Qed.

Lemma eager_step_silent w ev w' rs g h : eager_event ev -> step w ev = Ok w' ->
  silent w rs g h -> silent w' rs g h.
Proof.
  intros He Hs [S1 S2].
  assert (Hm : forall p', e_prox (get_end w' rs) g = Some p' -> mute p' = true).
  { intros p' Hp'. pose proof (eager_step_mute w ev w' He Hs rs g p' Hp') as M.
    destruct (e_prox (get_end w rs) g) as [p|]; [apply M; apply S2; reflexivity|exact M]. }
  split; [|exact Hm]. intros fr Hin Hf.
  destruct (region_step w ev w' rs h fr He Hs Hin) as [H|H]; [exact (S1 fr H Hf)|].
  assert (Hact : forall s0 g0, (exists p, e_prox (get_end w s0) g0 = Some p /\ flow_frame (m_chan (p_m p)) g0 fr) ->
            match ev with EvCallback s1 g1 _ | EvPreSelect s1 g1 => s1 = s0 /\ g1 = g0 | _ => False end ->
            rs = s0 -> False).
  { intros s0 g0 (p & Ep & (_ & Hfg & _)) Hev ->. assert (g0 = g) by congruence. subst g0.
    destruct (e_prox (get_end w' s0) g) as [p'|] eqn:Ep'.
    - pose proof (eager_step_mute w ev w' He Hs s0 g p' Ep') as M. rewrite Ep in M.
      destruct (M (S2 p Ep)) as [_ Hpath].
      assert (Er : region w' s0 h = region w s0 h).
      { unfold region. rewrite !(Hpath Hev). reflexivity. }
      rewrite Er in Hin. exact (S1 fr Hin Hf).
    - destruct (eager_step_ends w ev w' He Hs) as [(_ & Hc) Hsv].
      destruct s0; cbn [get_end] in *.
      + specialize (Hc g). rewrite Ep, Ep' in Hc. exact Hc.
      + destruct Hsv as [(_ & Hv)|(c & _ & _ & np & _ & Hv)].
        * specialize (Hv g). rewrite Ep, Ep' in Hv. exact Hv.
        * rewrite Hv, Ep in Ep'. destruct (g =? e_next (w_sv w)); discriminate. }
  destruct ev as [payload|s0 g0 o|s0 g0|s0|s0 o|s0|s0 g0]; cbn [new_frame eager_event] in *; try contradiction.
  - destruct H as (E & Hex). exact (Hact s0 g0 Hex (conj eq_refl eq_refl) E).
  - destruct H as (E & Hex). exact (Hact s0 g0 Hex (conj eq_refl eq_refl) E).
  - destruct H as (_ & Hn & _). congruence.
Qed.

Theorem eager_step_Clean w ev w' : Winv w -> eager_event ev -> step w ev = Ok w' -> Clean w -> Clean w'.
Proof.
  intros W He Hs C g h qg' qh' Hgh Hqg' Hqh' Ech.
  destruct (eager_step_ends w ev w' He Hs) as [(_ & Hc) Hsv]. unfold cl, sv in *.
  pose proof (Hc g) as Cg. pose proof (Hc h) as Ch. rewrite Hqg' in Cg. rewrite Hqh' in Ch.
  destruct (e_prox (w_cl w) g) as [qg|] eqn:Eqg; [|contradiction].
  destruct (e_prox (w_cl w) h) as [qh|] eqn:Eqh; [|contradiction].
  assert (Ech0 : m_chan (p_m qg) = m_chan (p_m qh)).
  { destruct Cg as (A & _). destruct Ch as (B & _). congruence. }
  destruct (C g h qg qh Hgh Eqg Eqh Ech0) as [C1 C2]. split.
  - destruct C1 as [X|X]; [left; exact (closed_mono _ _ Ch X)|right].
    exact (eager_step_silent w ev w' Server g h He Hs X).
  - destruct C2 as [(ph & Hph & X)|X]; [left|right; exact (eager_step_silent w ev w' Client g h He Hs X)].
    unfold sv in Hph.
    destruct Hsv as [(_ & Hv)|(c & _ & _ & np & _ & Hv)].
    + specialize (Hv h). rewrite Hph in Hv. destruct (e_prox (w_sv w') h) as [ph'|]; [|contradiction].
      exists ph'. split; [reflexivity|exact (closed_mono _ _ Hv X)].
    + exists ph. split; [|exact X]. rewrite Hv.
      pose proof (r_fresh _ (proj2 W) h ph Hph) as Hlt.
      destruct (N.eqb_spec h (e_next (w_sv w))) as [E|_]; [lia|exact Hph].
Qed.

(* ================================================================== *)
(* 6. The boolean predicate                                             *)
(* ================================================================== *)

Definition no_frames_of (g : N) (l : list sframe) : bool := forallb (fun fr => negb (fid_is g fr)) l.

Definition silentb (w : world) (sd : side) (g h : N) : bool :=
  no_frames_of g (region w sd h) &&
  match e_prox (get_end w sd) g with Some p => mute p | None => true end.

Definition closedo (o : option proxy) : bool := match o with Some p => closed (p_m p) | None => false end.

(* flows g < h of the client share their identifier *)
Definition reuses (w : world) (g h : N) : bool :=
  (g <? h) && (m_chan (pM (cl w g)) =? m_chan (pM (cl w h))).

Definition pair_cleanb (w : world) (g h : N) : bool :=
  (closedo (cl w h) || silentb w Server g h) && (closedo (sv w h) || silentb w Client g h).

Definition drain_cleanb (w : world) : bool :=
  forallb (fun h => forallb (fun g => negb (reuses w g h) || pair_cleanb w g h) (fids (w_cl w))) (fids (w_cl w)).

(* the special case: no identifier has been used twice so far *)
Definition no_reuseb (w : world) : bool :=
  forallb (fun h => forallb (fun g => negb (reuses w g h)) (fids (w_cl w))) (fids (w_cl w)).

Lemma fid_is_spec g fr : fid_is g fr = true <-> sf_fid fr = Some g.
Proof.
  unfold fid_is, same_fid. destruct (sf_fid fr) as [f|]; [|split; discriminate].
  rewrite N.eqb_eq. split; congruence.
Qed.

Lemma silentb_spec w sd g h : silentb w sd g h = true <-> silent w sd g h.
Proof.
  unfold silentb, silent, no_frames_of. rewrite andb_true_iff, forallb_forall. split.
  - intros [A B]. split.
    + intros fr Hin Hf. specialize (A fr Hin). apply negb_true_iff in A.
      apply fid_is_spec in Hf. congruence.
    + intros p Hp. rewrite Hp in B. exact B.
  - intros [A B]. split.
    + intros fr Hin. apply negb_true_iff. destruct (fid_is g fr) eqn:E; [|reflexivity].
      apply fid_is_spec in E. destruct (A fr Hin E).
    + destruct (e_prox (get_end w sd) g) as [p|]; [apply B; reflexivity|reflexivity].
Qed.

Lemma drain_cleanb_spec w : Rinv (w_cl w) -> Einv (w_cl w) -> (drain_cleanb w = true <-> Clean w).
Proof.
  intros R E. unfold drain_cleanb, Clean. split.
  - intros H g h qg qh Hgh Hqg Hqh Ech.
    rewrite forallb_forall in H.
    assert (Hh : In h (fids (w_cl w))) by (apply in_fids; exact (r_fresh _ R h qh Hqh)).
    assert (Hg : In g (fids (w_cl w))) by (apply in_fids; exact (r_fresh _ R g qg Hqg)).
    specialize (H h Hh). rewrite forallb_forall in H. specialize (H g Hg).
    assert (Er : reuses w g h = true).
    { unfold reuses. rewrite Hqg, Hqh. cbn [pM]. apply andb_true_iff. split; [apply N.ltb_lt; exact Hgh|apply N.eqb_eq; exact Ech]. }
    rewrite Er in H. cbn [negb orb] in H. unfold pair_cleanb in H. apply andb_true_iff in H. destruct H as [H1 H2].
    apply orb_true_iff in H1. apply orb_true_iff in H2. rewrite Hqh in H1. cbn [closedo] in H1. split.
    + destruct H1 as [X|X]; [left; exact X|right; apply silentb_spec; exact X].
    + destruct H2 as [X|X]; [left|right; apply silentb_spec; exact X].
      destruct (sv w h) as [ph|]; [|discriminate]. exists ph. split; [reflexivity|exact X].
  - intros C. apply forallb_forall. intros h Hh. apply forallb_forall. intros g Hg.
    apply in_fids in Hh, Hg. pose proof (e_dense _ E h Hh) as Dh. pose proof (e_dense _ E g Hg) as Dg. unfold cl in *.
    destruct (reuses w g h) eqn:Er; [|reflexivity]. cbn [negb orb].
    unfold reuses in Er. apply andb_true_iff in Er. destruct Er as [E1 E2].
    apply N.ltb_lt in E1. apply N.eqb_eq in E2.
    destruct (e_prox (w_cl w) g) as [qg|] eqn:Hqg; destruct (e_prox (w_cl w) h) as [qh|] eqn:Hqh.
    + unfold cl in E2. rewrite Hqg, Hqh in E2. cbn [pM] in E2. destruct (C g h qg qh E1 Hqg Hqh E2) as [C1 C2].
      unfold pair_cleanb, cl. rewrite Hqh. cbn [closedo]. apply andb_true_iff. split; apply orb_true_iff.
      * destruct C1 as [X|X]; [left; exact X|right; apply silentb_spec; exact X].
      * destruct C2 as [(ph & Hph & X)|X]; [left; rewrite Hph; exact X|right; apply silentb_spec; exact X].
    + destruct (Dh eq_refl).
    + destruct (Dg eq_refl).
    + destruct (Dg eq_refl).
Qed.

Lemma no_reuse_clean w : no_reuseb w = true -> drain_cleanb w = true.
Proof.
  unfold no_reuseb, drain_cleanb. rewrite !forallb_forall. intros H h Hh.
  specialize (H h Hh). rewrite forallb_forall in *. intros g Hg. rewrite (H g Hg). reflexivity.
Qed.

(* ================================================================== *)
(* 7. The drain of a clean state stays clean: no stale delivery         *)
(* ================================================================== *)

Lemma step_stale_same w ev w' : (forall sd o, ev <> EvDeliver sd o) -> step w ev = Ok w' ->
  w_stale w' = w_stale w.
Proof.
  destruct ev as [payload|sd fid o|sd fid|sd|sd o|sd|sd fid]; cbn [step]; intros Hnd.
  - intros [= <-]. reflexivity.
  - destruct (e_prox (get_end w sd) fid) as [p|]; [|discriminate]. destruct (live p); [|discriminate].
    destruct (proxy_callback sd fid p (e_mux (get_end w sd)) o) as [[p' x']|]; [|discriminate].
    intros [= <-]. destruct sd; reflexivity.
  - destruct (e_prox (get_end w sd) fid) as [p|]; [|discriminate]. destruct (live p); [|discriminate].
    destruct (proxy_pre_select sd fid p (e_mux (get_end w sd))) as [[p' x'] ws].
    intros [= <-]. destruct sd; reflexivity.
  - destruct (x_out (e_mux (get_end w sd))); intros [= <-]; [reflexivity|]. destruct sd; reflexivity.
  - exfalso. exact (Hnd sd o eq_refl).
  - intros [= <-]. destruct sd; reflexivity.
  - destruct (e_prox (get_end w sd) fid) as [p|]; [|discriminate].
    destruct (negb (p_ok p) && live p); [|discriminate]. intros [= <-]. destruct sd; reflexivity.
Qed.

(* one eager step from a clean state: no stale delivery, and all invariants survive *)
Theorem eager_step_clean w ev w' : Ginv w -> Sinv w -> Dinv w -> Clean w -> w_stale w = false ->
  eager_event ev -> step w ev = Ok w' ->
  w_stale w' = false /\ Ginv w' /\ Sinv w' /\ Dinv w' /\ Clean w'.
Proof.
  intros G S D C Hst He Hs.
  assert (St : w_stale w' = false).
  { rewrite <- Hst. destruct ev as [payload|sd fid o|sd fid|sd|sd o|sd|sd fid].
    5: exact (deliver_clean w sd o w' G S D C Hs).
    all: eapply step_stale_same; [|exact Hs]; intros; discriminate. }
  splits.
  - exact St.
  - exact (step_Ginv w ev w' G Hs St).
  - exact (step_Sinv w ev w' G S Hs).
  - exact (step_Dinv w ev w' G D Hs).
  - exact (eager_step_Clean w ev w' (g_reg w G) He Hs C).
Qed.

(* ... hence every eager schedule whatsoever, not only the drain *)
Theorem eager_run_clean evs : forall w w', Ginv w -> Sinv w -> Dinv w -> Clean w -> w_stale w = false ->
  Forall eager_event evs -> run w evs = Ok w' ->
  w_stale w' = false /\ Ginv w' /\ Sinv w' /\ Dinv w' /\ Clean w'.
Proof.
  induction evs as [|ev evs IH]; intros w w' G S D C Hst Hall; cbn [run].
  - intros [= <-]. auto.
  - inversion Hall as [|? ? Hev Hrest]; subst.
    destruct (step w ev) as [w1|] eqn:Es; [|discriminate]. intros Hr.
    destruct (eager_step_clean w ev w1 G S D C Hst Hev Es) as (St & G1 & S1 & D1 & C1).
    exact (IH w1 w' G1 S1 D1 C1 St Hrest Hr).
Qed.

Definition drained_clean (w : world) (d : list event) : Prop :=
  Forall eager_event d /\
  match run w d with
  | Ok w' => w_stale w' = false /\ quiescent_eagerb w' = true
  | Crash _ => False
  end.

Lemma drain_fuel_clean n : forall w, mu w < N.of_nat n -> Ginv w -> Sinv w -> Dinv w -> Clean w ->
  w_stale w = false -> drained_clean w (drain n w).
Proof.
  induction n as [|n IH]; intros w Hn G S D C Hst; [lia|]. cbn [drain]. rewrite Hst.
  destruct (sched w) as [ev|] eqn:Es.
  - destruct (sched_some w ev G S Es) as (Hev & w' & Hs & Hlt). rewrite Hs.
    destruct (eager_step_clean w ev w' G S D C Hst Hev Hs) as (St & G1 & S1 & D1 & C1).
    destruct (IH w' ltac:(lia) G1 S1 D1 C1 St) as [Hd Hr].
    split; [constructor; assumption|]. cbn [run]. rewrite Hs. exact Hr.
  - split; [constructor|]. cbn [run]. split; [exact Hst|exact (sched_none w Es)].
Qed.

Theorem drain_clean_from_invariants w : Ginv w -> Sinv w -> Dinv w -> Clean w -> w_stale w = false ->
  drained_clean w (drain_of w).
Proof.
  intros G Si D C Hst. apply (drain_fuel_clean (S (N.to_nat (mu w))) w); try assumption. lia.
Qed.

(* ================================================================== *)
(* 8. Over reachable states                                             *)
(* ================================================================== *)

Lemma run_invariants maxc lbs evs w : run (world0 maxc lbs) evs = Ok w -> w_stale w = false ->
  Ginv w /\ Sinv w /\ Dinv w.
Proof.
  intros Hr Hst.
  exact (run_GSDinv evs _ _ (Ginv_world0 maxc lbs) (Sinv_world0 maxc lbs) (Dinv_world0 maxc lbs) Hr Hst).
Qed.

Lemma run_Clean maxc lbs evs w : run (world0 maxc lbs) evs = Ok w -> w_stale w = false ->
  (drain_cleanb w = true <-> Clean w).
Proof.
  intros Hr Hst. destruct (run_invariants maxc lbs evs w Hr Hst) as (G & S & _).
  exact (drain_cleanb_spec w (proj1 (g_reg w G)) (s_cl w S)).
Qed.

(* THE STATEMENT ASKED FOR, under the hypothesis drain_cleanb: from every reachable clean state
   without stale delivery the eager schedule drain_of w consists of eager events, never raises,
   delivers no frame to a wrapper of another incarnation, and ends strictly quiescent *)
Theorem eager_drain_clean : forall maxc lbs evs w,
  run (world0 maxc lbs) evs = Ok w -> w_stale w = false -> drain_cleanb w = true ->
  Forall eager_event (drain_of w) /\
  match run w (drain_of w) with
  | Ok w' => w_stale w' = false /\ quiescent_eagerb w' = true
  | Crash _ => False
  end.
Proof.
  intros maxc lbs evs w Hr Hst Hc. destruct (run_invariants maxc lbs evs w Hr Hst) as (G & S & D).
  exact (drain_clean_from_invariants w G S D (proj1 (run_Clean maxc lbs evs w Hr Hst) Hc) Hst).
Qed.
Print Assumptions eager_drain_clean.

(* the form of the task statement (quiescentb) *)
Corollary eager_drain_clean_quiescent : forall maxc lbs evs w,
  run (world0 maxc lbs) evs = Ok w -> w_stale w = false -> drain_cleanb w = true ->
  match run w (drain_of w) with
  | Ok w' => w_stale w' = false /\ quiescentb w' = true
  | Crash _ => False
  end.
Proof.
  intros maxc lbs evs w Hr Hst Hc. destruct (eager_drain_clean maxc lbs evs w Hr Hst Hc) as [_ H].
  destruct (run w (drain_of w)) as [w'|]; [|exact H]. destruct H as [H1 H2]. split; [exact H1|].
  unfold quiescent_eagerb in H2. apply andb_true_iff in H2. destruct H2 as [H2 _].
  apply andb_true_iff in H2. apply H2.
Qed.

(* no eager schedule at all leads from a clean state to a stale delivery *)
Theorem eager_never_stale : forall maxc lbs evs w sched w',
  run (world0 maxc lbs) evs = Ok w -> w_stale w = false -> drain_cleanb w = true ->
  Forall eager_event sched -> run w sched = Ok w' -> w_stale w' = false /\ drain_cleanb w' = true.
Proof.
  intros maxc lbs evs w sched w' Hr Hst Hc Hall Hrun.
  destruct (run_invariants maxc lbs evs w Hr Hst) as (G & S & D).
  destruct (eager_run_clean sched w w' G S D (proj1 (run_Clean maxc lbs evs w Hr Hst) Hc) Hst Hall Hrun)
    as (St & G1 & S1 & _ & C1).
  split; [exact St|]. exact (proj2 (drain_cleanb_spec w' (proj1 (g_reg w' G1)) (s_cl w' S1)) C1).
Qed.
Print Assumptions eager_never_stale.

(* as long as no identifier has been used twice, the hypothesis holds *)
Corollary eager_drain_no_reuse : forall maxc lbs evs w,
  run (world0 maxc lbs) evs = Ok w -> w_stale w = false -> no_reuseb w = true ->
  Forall eager_event (drain_of w) /\
  match run w (drain_of w) with
  | Ok w' => w_stale w' = false /\ quiescent_eagerb w' = true
  | Crash _ => False
  end.
Proof. intros maxc lbs evs w Hr Hst Hn. exact (eager_drain_clean maxc lbs evs w Hr Hst (no_reuse_clean w Hn)). Qed.

(* ================================================================== *)
(* 9. The eager environment adds no socket fault                        *)
(* ================================================================== *)

(* One more clause for the per-flow views: once shutdown(SHUT_WR) has been issued on the
   receiving socket and no call on that socket ever failed, the direction is empty — nothing
   buffered at the far end, no payload on the way, nothing buffered at the near end. *)
Definition Kv (v : view) : Prop :=
  vfz v = true -> vwfault v = false ->
  flat (vY v) = [] /\ data_cat (vP v) = [] /\ flat (vX v) = [].

Lemma data_cat_cons_nil f t : data_cat (f :: t) = [] -> data_cat t = [] /\ (sf_cmd f = CData -> sf_data f = []).
Proof.
  destruct (sf_cmd f) eqn:Ec.
  6:{ rewrite (data_cat_cons_data _ _ Ec). intros H. apply app_eq_nil in H. destruct H as [A B]. auto. }
  all: rewrite data_cat_cons_other by congruence; intros H; split; [exact H|discriminate].
Qed.

Lemma Kv_step v v' : Vinv v -> Kv v -> vstep v v' -> Kv v'.
Proof.
  intros V K Hs.
  destruct Hs as [ | r new X' rsr' rmsw' Hr Hrsr Hrmsw Hcons Hneweof Hnoeof
                   | stop' Hst Hst'
                   | stop' Hst' Hgone
                   | d Y' fz' wmsr' stop' wfault' Hd Hfz Hwm Hwf Hcons Hnewmsr Hst Hshut Hst2 Hst3 Hst4
                   | f P' HP Hc | f P' HP Hw | f P' HP Hc | f P' HP Hc1 Hc2 ];
    unfold Kv; cbn [vA vX vP vY vD vrsr vrmsw vwmsr vfz vstop vwfault].
  - exact K.
  - intros Hf Hft. destruct (K Hf Hft) as (K1 & K2 & K3).
    destruct (vi_clean _ V Hf) as [C|[_ Hrs]]; [congruence|].
    rewrite K3, (Hr Hrs) in Hcons. cbn [app] in Hcons. rewrite data_cat_app, K2. cbn [app].
    destruct Hcons as [E|(_ & E1 & _ & dr & E)]; symmetry in E; apply app_eq_nil in E; destruct E as [E2 E3]; auto.
  - exact K.
  - exact K.
  - intros Hf Hft.
    assert (Hft0 : vwfault v = false) by (destruct (vwfault v) eqn:E; [rewrite (Hwf eq_refl) in Hft; discriminate|reflexivity]).
    destruct (vfz v) eqn:Ef.
    + destruct (K Ef Hft0) as (K1 & K2 & K3). splits; auto.
      rewrite K1 in Hcons. destruct Hcons as [E|(_ & E & _)]; [|exact E].
      symmetry in E. apply app_eq_nil in E. apply E.
    + destruct (Hshut eq_refl Hf) as [C|(Q1 & Q2 & Q3)]; [congruence|].
      destruct (vi_msr _ V Q1) as [C|(R1 & R2 & _)]; [congruence|]. auto.
  - intros Hf Hft. destruct (K Hf Hft) as (K1 & K2 & K3). rewrite HP in K2.
    destruct (data_cat_cons_nil _ _ K2) as [A B]. unfold flat in *. rewrite concat_app, K1, (B Hc). auto.
  - intros Hf Hft. destruct (K Hf Hft) as (K1 & K2 & K3). rewrite HP in K2.
    destruct (data_cat_cons_nil _ _ K2) as [A _]. auto.
  - intros Hf Hft. destruct (K Hf Hft) as (K1 & K2 & K3). rewrite HP in K2.
    destruct (data_cat_cons_nil _ _ K2) as [A _]. auto.
  - intros Hf Hft. destruct (K Hf Hft) as (K1 & K2 & K3). rewrite HP in K2.
    destruct (data_cat_cons_nil _ _ K2) as [A _]. auto.
Qed.

Lemma Kv_step2 v v' : Vinv v -> Kv v -> vstep2 v v' -> Kv v'.
Proof.
  intros V K (v1 & A & B). apply (Kv_step v1 v'); [exact (Vinv_step v v1 V A)|exact (Kv_step v v1 V K A)|exact B].
Qed.

Definition Kall (w : world) : Prop := forall rs f, Kv (view_of w rs f).

Lemma Kall_world0 maxc lbs : Kall (world0 maxc lbs).
Proof. intros rs f. unfold Kv, view_of, wprox. destruct rs; cbn; discriminate. Qed.

(* every micro-step is at most two view transitions on every flow and direction *)
Lemma step_vstep2 w ev w' : Ginv w -> step w ev = Ok w' -> w_stale w' = false ->
  forall rs f, vstep2 (view_of w rs f) (view_of w' rs f).
Proof.
  intros [W FW AL V] Hs Hst rs f.
  destruct ev as [payload|sd fid o|sd fid|sd|sd o|sd|sd fid].
  - destruct (accept_views _ _ _ Hs (proj1 W) AL) as (A & _). apply vstep2_one, A.
  - destruct (callback_views _ _ _ _ _ Hs) as (A & _). apply vstep2_one, A.
  - destruct (preselect_views _ _ _ _ Hs) as (A & _). apply vstep2_one, A.
  - destruct (flush_views _ _ _ Hs) as [Hp Hf].
    rewrite (views_eq w w' Hp); [apply vstep2_one, VS_same|]. intros s2 f0. rewrite Hf. auto.
  - destruct (deliver_all _ _ _ _ W AL Hs Hst) as [A _]. apply A.
  - destruct (checkfull_views _ _ _ Hs) as (Hfl & Hf & _).
    rewrite (view_ext_fields w w' rs f); [apply vstep2_one, VS_same| | | |].
    + unfold rprox. rewrite Hf. reflexivity.
    + unfold wprox. rewrite Hf. reflexivity.
    + apply Hfl.
    + apply Hfl.
  - destruct (remove_views _ _ _ _ Hs) as [Hp Hf].
    rewrite (views_eq w w' Hp); [apply vstep2_one, VS_same|]. intros s2 f0. destruct (Hf s2 f0) as (E1 & E2 & _).
    unfold rfields, wfields. rewrite E1, E2. auto.
Qed.

Theorem step_Kall w ev w' : Ginv w -> Kall w -> step w ev = Ok w' -> w_stale w' = false -> Kall w'.
Proof.
  intros G K Hs Hst rs f.
  exact (Kv_step2 _ _ (g_views w G rs f) (K rs f) (step_vstep2 w ev w' G Hs Hst rs f)).
Qed.

Theorem run_GKall evs : forall w w', Ginv w -> Kall w -> run w evs = Ok w' -> w_stale w' = false ->
  Ginv w' /\ Kall w'.
Proof.
  induction evs as [|ev evs IH]; intros w w' G K; cbn [run].
  - intros [= <-] _. auto.
  - destruct (step w ev) as [w1|] eqn:Es; [|discriminate]. intros Hr Hst.
    assert (St : w_stale w1 = false).
    { destruct (w_stale w1) eqn:E; [|reflexivity]. rewrite (run_stale_mono _ _ _ Hr E) in Hst. discriminate. }
    exact (IH w1 w' (step_Ginv w ev w1 G Es St) (step_Kall w ev w1 G K Es St) Hr Hst).
Qed.

(* a socket that was shut down cleanly has nothing more to write *)
Lemma clean_shut_empty w sd g p : Kall w -> e_prox (get_end w sd) g = Some p ->
  s_sw (p_s p) = true -> s_fault (p_s p) = false -> flat (m_buf (p_m p)) = [].
Proof.
  intros K Hp Hsw Hft. specialize (K (other sd) g). unfold Kv, view_of, wprox in K.
  rewrite oth_oth, Hp in K. cbn [vfz vwfault vY pS pM] in K. apply (K Hsw Hft).
Qed.

(* MuxWrapper.copy_to(SockWrapper) in the eager environment: the only failing call is a
   write on a socket that is already shut for writing (EPIPE) *)
Lemma copy_m_to_s_fault m s k : s_conn s = false ->
  (s_sw s = true -> s_fault s = false -> flat (m_buf m) = []) ->
  s_fault (snd (copy_m_to_s m s (SendAccept k) true)) = s_fault s.
Proof.
  intros Hc Hk. unfold copy_m_to_s.
  assert (P1 : exists buf' s1,
    (match m_buf m with
     | (a :: b0) :: rest => let '(s1, w) := s_uwrite s (a :: b0) (SendAccept k) true in (advance (m_buf m) w, s1)
     | _ => (drop_empty (m_buf m), s)
     end) = (buf', s1) /\ s_fault s1 = s_fault s).
  { destruct (m_buf m) as [|[|a b0] rest] eqn:Eb.
    - exists [], s. auto.
    - eexists _, s. auto.
    - unfold s_uwrite. rewrite Hc. destruct (s_sw s) eqn:Esw.
      + eexists _, _. split; [reflexivity|]. unfold s_nowrite. cbn.
        destruct (s_fault s) eqn:Ef; [reflexivity|]. specialize (Hk eq_refl eq_refl). discriminate.
      + eexists _, _. split; [reflexivity|]. reflexivity. }
  destruct P1 as (buf' & s1 & -> & A).
  destruct buf' as [|b1 bs]; cbn [snd]; [|exact A].
  destruct (m_sr m); cbn [snd]; [|exact A].
  unfold s_nowrite. destruct (s_sw s1); cbn; exact A.
Qed.

Lemma copies_fault sd s1 m0 x fid o k : io_send o = SendAccept k -> io_shut_ok o = true ->
  s_conn s1 = false -> (s_sw s1 = true -> s_fault s1 = false -> flat (m_buf m0) = []) ->
  let '(s2, m2, x2) := copies sd s1 m0 x fid o in s_fault s2 = s_fault s1.
Proof.
  intros Es Eok Hc Hk. unfold copies. rewrite Es, Eok. destruct sd.
  - pose proof (copy_s_to_m_spec s1 m0 x fid) as A.
    destruct (copy_s_to_m s1 m0 x fid) as [[sa ma] xa].
    destruct A as (new & _ & _ & _ & _ & _ & Asw & Acn & _ & Aft & _ & Amb & _).
    pose proof (copy_m_to_s_fault ma sa k ltac:(congruence)) as B.
    destruct (copy_m_to_s ma sa (SendAccept k) true) as [mb sb]. cbn [snd] in B.
    rewrite B; [exact Aft|]. rewrite Asw, Aft, Amb. exact Hk.
  - pose proof (copy_m_to_s_fault m0 s1 k Hc Hk) as B.
    destruct (copy_m_to_s m0 s1 (SendAccept k) true) as [ma sa]. cbn [snd] in B.
    pose proof (copy_s_to_m_spec sa ma x fid) as A.
    destruct (copy_s_to_m sa ma x fid) as [[sb mb] xb].
    destruct A as (new & _ & _ & _ & _ & _ & _ & _ & _ & Aft & _). congruence.
Qed.

Lemma callback_fault sd fid p x o p' x' : eager_io o ->
  (s_sw (p_s p) = true -> s_fault (p_s p) = false -> flat (m_buf (p_m p)) = []) ->
  proxy_callback sd fid p x o = Ok (p', x') -> s_fault (p_s p') = s_fault (p_s p).
Proof.
  intros (Ec & Er & (k & Es & Hk) & Eok) HK.
  rewrite proxy_callback_unfold, Ec, Er, Eok.
  destruct (s_try_connect (p_s p) ConnDone true) as [s0|c] eqn:Etc; [|discriminate].
  assert (T : s_fault s0 = s_fault (p_s p) /\ s_sw s0 = s_sw (p_s p) /\ s_conn s0 = false).
  { revert Etc. unfold s_try_connect. destruct (p_s p) as [cn sr sw sb ex rd wr ft]. cbn.
    destruct cn, sw; cbn; intros [= <-]; auto. }
  destruct T as (T1 & T2 & T3). cbv zeta. rewrite fill_again.
  pose proof (copies_fault sd s0 (p_m p) x fid o k Es Eok T3 ltac:(rewrite T1, T2; exact HK)) as Hc.
  destruct (copies sd s0 (p_m p) x fid o) as [[s2 m2] x2].
  set (s3 := if nonempty_buf (s_buf s2) && m_sw m2
             then s_noread (mkSock (s_conn s2) (s_sr s2) (s_sw s2) [] (s_exc s2) (s_rd s2) (s_wr s2) (s_fault s2))
             else s2).
  assert (S3 : s_fault s3 = s_fault s2) by (unfold s3; destruct (nonempty_buf (s_buf s2) && m_sw m2); reflexivity).
  destruct (if nonempty_buf (m_buf m2) && s_sw s2 then _ else _) as [m3 x3].
  destruct (s_sr s3 && m_sr m3 && negb (nonempty_buf (s_buf s3)) && negb (nonempty_buf (m_buf m3))).
  - destruct (m_nowrite m3 x3 fid) as [m4 x4]. intros H. apply ok_pair_inj in H. destruct H as [<- _].
    cbn [p_s]. unfold s_nowrite. destruct (s_sw s3); cbn; congruence.
  - intros H. apply ok_pair_inj in H. destruct H as [<- _]. cbn [p_s]. congruence.
Qed.

Lemma got_packet_fault sd e fr o e' st g : io_conn o = ConnDone -> Rinv e ->
  mux_got_packet sd e fr o = Ok (e', st) -> s_fault (pS (e_prox e' g)) = s_fault (pS (e_prox e g)).
Proof.
  intros Ec R.
  assert (Hhand : forall g0 p0 m' x', e_prox e g0 = Some p0 ->
     s_fault (pS (e_prox (set_prox e g0 (mkProxy (p_ok p0) (p_removed p0) (p_s p0) m') x') g)) = s_fault (pS (e_prox e g))).
  { intros g0 p0 m' x' E0. cbn [set_prox e_prox]. unfold upd.
    destruct (N.eqb_spec g g0) as [->|Hne]; [rewrite E0|]; reflexivity. }
  unfold mux_got_packet. destruct (sf_cmd fr) eqn:Ecmd.
  - intros H. apply ok_pair_inj in H. destruct H as [<- _]. reflexivity.
  - intros H. apply ok_pair_inj in H. destruct H as [<- _]. reflexivity.
  - destruct (occ (e_mux e) (sf_ch fr)); [discriminate|]. destruct sd.
    + intros H. apply ok_pair_inj in H. destruct H as [<- _]. reflexivity.
    + unfold server_new_channel. rewrite Ec. cbn.
      intros H. apply ok_pair_inj in H. destruct H as [<- _]. cbn [e_prox]. unfold upd.
      destruct (N.eqb_spec g (e_next e)) as [->|Hne]; [|reflexivity].
      destruct (e_prox e (e_next e)) as [q|] eqn:Eq; [|reflexivity].
      pose proof (r_fresh e R _ q Eq). lia.
  - destruct (x_chan (e_mux e) (sf_ch fr)) as [g0|]; [|intros H; apply ok_pair_inj in H; destruct H as [<- _]; reflexivity].
    destruct (e_prox e g0) as [p0|] eqn:E0; [|discriminate]. cbn [m_got_packet].
    destruct (m_setnowrite (p_m p0) (e_mux e)) as [m' x'].
    intros H. apply ok_pair_inj in H. destruct H as [<- _]. apply (Hhand g0 p0 m' x' E0).
  - destruct (x_chan (e_mux e) (sf_ch fr)) as [g0|]; [|intros H; apply ok_pair_inj in H; destruct H as [<- _]; reflexivity].
    destruct (e_prox e g0) as [p0|] eqn:E0; [|discriminate]. cbn [m_got_packet].
    destruct (m_setnoread (p_m p0) (e_mux e)) as [m' x'].
    intros H. apply ok_pair_inj in H. destruct H as [<- _]. apply (Hhand g0 p0 m' x' E0).
  - destruct (x_chan (e_mux e) (sf_ch fr)) as [g0|]; [|intros H; apply ok_pair_inj in H; destruct H as [<- _]; reflexivity].
    destruct (e_prox e g0) as [p0|] eqn:E0; [|discriminate]. cbn [m_got_packet].
    intros H. apply ok_pair_inj in H. destruct H as [<- _]. apply (Hhand g0 p0 _ _ E0).
  - destruct (x_chan (e_mux e) (sf_ch fr)) as [g0|]; [|intros H; apply ok_pair_inj in H; destruct H as [<- _]; reflexivity].
    destruct (e_prox e g0) as [p0|] eqn:E0; [|discriminate]. cbn [m_got_packet]. discriminate.
Qed.

(* the failure flag of a flow end (s_fault: "some socket call of this end returned an error") *)
Definition fault_of (w : world) (sd : side) (g : N) : bool := s_fault (pS (e_prox (get_end w sd) g)).

Theorem eager_step_fault w ev w' : Winv w -> Kall w -> eager_event ev -> step w ev = Ok w' ->
  forall sd g, fault_of w' sd g = fault_of w sd g.
Proof.
  intros W K He Hs. unfold fault_of.
  destruct ev as [payload|sd0 g0 o|sd0 g0|sd0|sd0 o|sd0|sd0 g0]; cbn [eager_event] in He; try contradiction.
  - revert Hs. cbn [step]. destruct (e_prox (get_end w sd0) g0) as [p|] eqn:Ep; [|discriminate].
    destruct (live p); [|discriminate].
    destruct (proxy_callback sd0 g0 p (e_mux (get_end w sd0)) o) as [[p' x']|] eqn:Ecb; [|discriminate].
    intros [= <-] sd g.
    pose proof (callback_fault _ _ _ _ _ _ _ He (clean_shut_empty w sd0 g0 p K Ep) Ecb) as Hf.
    destruct (side_cases sd sd0) as [->| ->].
    + rewrite get_set_end. cbn [set_prox e_prox]. unfold upd.
      destruct (N.eqb_spec g g0) as [->|Hne]; [rewrite Ep; exact Hf|reflexivity].
    + rewrite get_set_end_other. reflexivity.
  - revert Hs. cbn [step]. destruct (e_prox (get_end w sd0) g0) as [p|] eqn:Ep; [|discriminate].
    destruct (live p); [|discriminate].
    pose proof (pre_select_spec sd0 g0 p (e_mux (get_end w sd0))) as F.
    destruct (proxy_pre_select sd0 g0 p (e_mux (get_end w sd0))) as [[p' x'] ws].
    destruct F as (sn & _ & _ & _ & _ & _ & _ & _ & _ & _ & _ & Hf & _).
    intros [= <-] sd g. destruct (side_cases sd sd0) as [->| ->].
    + rewrite get_set_end. cbn [set_prox e_prox]. unfold upd.
      destruct (N.eqb_spec g g0) as [->|Hne]; [rewrite Ep; exact Hf|reflexivity].
    + rewrite get_set_end_other. reflexivity.
  - intros sd g. destruct (flush_views w sd0 w' Hs) as [_ Hf]. rewrite Hf. reflexivity.
  - intros sd g. destruct (inlink w (other sd0)) as [|fr rest] eqn:Hl.
    { rewrite (deliver_empty w sd0 o w' Hs Hl). reflexivity. }
    destruct (deliver_shape w sd0 o w' fr rest Hs Hl) as (e' & st & Hg & E1 & E2 & _).
    destruct (side_cases sd sd0) as [->| ->].
    + rewrite E1. exact (got_packet_fault _ _ _ _ _ _ g (proj1 He) (Winv_get w sd0 W) Hg).
    + rewrite E2. reflexivity.
  - intros sd g. destruct (remove_views w sd0 g0 w' Hs) as [_ Hf]. destruct (Hf sd g) as (E & _). rewrite E. reflexivity.
Qed.

(* ... over whole eager schedules from a clean state: nothing stale, no new fault *)
Theorem eager_run_clean_fault evs : forall w w', Ginv w -> Sinv w -> Dinv w -> Kall w -> Clean w ->
  w_stale w = false -> Forall eager_event evs -> run w evs = Ok w' ->
  (w_stale w' = false /\ Ginv w' /\ Sinv w' /\ Dinv w' /\ Kall w' /\ Clean w') /\
  forall sd g, fault_of w' sd g = fault_of w sd g.
Proof.
  induction evs as [|ev evs IH]; intros w w' G S D K C Hst Hall; cbn [run].
  - intros [= <-]. splits; auto.
  - inversion Hall as [|? ? Hev Hrest]; subst.
    destruct (step w ev) as [w1|] eqn:Es; [|discriminate]. intros Hr.
    destruct (eager_step_clean w ev w1 G S D C Hst Hev Es) as (St & G1 & S1 & D1 & C1).
    pose proof (step_Kall w ev w1 G K Es St) as K1.
    destruct (IH w1 w' G1 S1 D1 K1 C1 St Hrest Hr) as [Hinv Hf]. split; [exact Hinv|].
    intros sd g. rewrite Hf. exact (eager_step_fault w ev w1 (g_reg w G) K Hev Es sd g).
Qed.

Lemma run_invariants_K maxc lbs evs w : run (world0 maxc lbs) evs = Ok w -> w_stale w = false -> Kall w.
Proof.
  intros Hr Hst. exact (proj2 (run_GKall evs _ _ (Ginv_world0 maxc lbs) (Kall_world0 maxc lbs) Hr Hst)).
Qed.

(* no eager schedule from a reachable clean state sets a failure flag *)
Theorem eager_no_new_fault : forall maxc lbs evs w sched w',
  run (world0 maxc lbs) evs = Ok w -> w_stale w = false -> drain_cleanb w = true ->
  Forall eager_event sched -> run w sched = Ok w' -> forall sd g, fault_of w' sd g = fault_of w sd g.
Proof.
  intros maxc lbs evs w sched w' Hr Hst Hc Hall Hrun.
  destruct (run_invariants maxc lbs evs w Hr Hst) as (G & S & D).
  exact (proj2 (eager_run_clean_fault sched w w' G S D (run_invariants_K maxc lbs evs w Hr Hst)
                  (proj1 (run_Clean maxc lbs evs w Hr Hst) Hc) Hst Hall Hrun)).
Qed.
Print Assumptions eager_no_new_fault.

(* the drain, with its final state named: reachable, not stale, strictly quiescent, still clean;
   nothing was read on the way and no failure flag was set on the way *)
Theorem eager_drain_clean_reachable : forall maxc lbs evs w,
  run (world0 maxc lbs) evs = Ok w -> w_stale w = false -> drain_cleanb w = true ->
  exists w', Forall eager_event (drain_of w) /\ run w (drain_of w) = Ok w' /\
    run (world0 maxc lbs) (evs ++ drain_of w) = Ok w' /\
    w_stale w' = false /\ quiescent_eagerb w' = true /\ drain_cleanb w' = true /\
    (forall sd f, rd_of w' sd f = rd_of w sd f) /\
    (forall sd f, fault_of w' sd f = fault_of w sd f).
Proof.
  intros maxc lbs evs w Hr Hst Hc.
  destruct (eager_drain_clean maxc lbs evs w Hr Hst Hc) as [Hd Hq].
  destruct (run w (drain_of w)) as [w'|] eqn:Hrun; [|contradiction]. destruct Hq as [St Hq].
  exists w'. splits; auto.
  - rewrite run_app, Hr. exact Hrun.
  - exact (proj2 (eager_never_stale maxc lbs evs w (drain_of w) w' Hr Hst Hc Hd Hrun)).
  - apply (eager_run_rd (drain_of w) w w'); [|exact Hd|exact Hrun].
    exact (run_Winv evs _ _ (Winv_world0 maxc lbs) Hr).
  - exact (eager_no_new_fault maxc lbs evs w (drain_of w) w' Hr Hst Hc Hd Hrun).
Qed.
Print Assumptions eager_drain_clean_reachable.

(* ---- C01: eventual delivery, without the escape clauses ---- *)
(* From every reachable clean state the drain leads, without crash and without stale delivery,
   to a strictly quiescent state in which every byte that had been read from the application
   has been handed to the destination socket, and vice versa, unless a call on the receiving
   socket had ALREADY failed before the drain started. *)
Theorem dc_c01_eventual_delivery : forall maxc lbs evs w,
  run (world0 maxc lbs) evs = Ok w -> w_stale w = false -> drain_cleanb w = true ->
  exists w', Forall eager_event (drain_of w) /\ run w (drain_of w) = Ok w' /\
    w_stale w' = false /\ quiescent_eagerb w' = true /\
    forall f, (s_fault (pS (sv w f)) = false -> dst_written w' f = app_read w f) /\
              (s_fault (pS (cl w f)) = false -> app_written w' f = dst_read w f).
Proof.
  intros maxc lbs evs w Hr Hst Hc.
  destruct (eager_drain_clean_reachable maxc lbs evs w Hr Hst Hc) as (w' & Hd & Hrun & Hr' & St & Hq & _ & Hrd & Hft).
  exists w'. splits; auto. intros f.
  pose proof (run_reachable _ _ _ _ Hr') as Rw. pose proof (run_quiescent_eager _ _ _ _ Hr' Hq) as Q.
  split; intros Hf.
  - assert (Hf' : vwfault (view_of w' Client f) = false).
    { specialize (Hft Server f). unfold fault_of in Hft. cbn [get_end] in Hft.
      unfold view_of, wprox. cbn [vwfault other get_end]. unfold sv in Hf. congruence. }
    pose proof (quiet_eager_all_delivered maxc lbs w' Client f Rw St Q Hf') as E.
    unfold dst_written, app_read. specialize (Hrd Client f). unfold rd_of in Hrd. cbn [get_end] in Hrd.
    unfold cl in *. rewrite <- Hrd. exact E.
  - assert (Hf' : vwfault (view_of w' Server f) = false).
    { specialize (Hft Client f). unfold fault_of in Hft. cbn [get_end] in Hft.
      unfold view_of, wprox. cbn [vwfault other get_end]. unfold cl in Hf. congruence. }
    pose proof (quiet_eager_all_delivered maxc lbs w' Server f Rw St Q Hf') as E.
    unfold app_written, dst_read. specialize (Hrd Server f). unfold rd_of in Hrd. cbn [get_end] in Hrd.
    unfold sv in *. rewrite <- Hrd. exact E.
Qed.
Print Assumptions dc_c01_eventual_delivery.

(* ---- C02: no stuck state ---- *)
Theorem dc_c02_eventually_not_stuck : forall maxc lbs evs w,
  run (world0 maxc lbs) evs = Ok w -> w_stale w = false -> drain_cleanb w = true ->
  exists w', Forall eager_event (drain_of w) /\ run w (drain_of w) = Ok w' /\
    w_stale w' = false /\ quiescent_eagerb w' = true /\
    (forall rs f, let v := view_of w' rs f in
       vfz v = false -> vY v = [] /\ vP v = [] /\ flat (vX v) = [] /\ vD v = vA v) /\
    (forall sd f p, e_prox (get_end w' sd) f = Some p -> active p = true ->
       waits_outside sd f p (e_mux (get_end w' sd)) \/
       (m_sw (p_m p) = true /\ m_sr (p_m p) = false /\
        exists q, e_prox (get_end w' (other sd)) f = Some q /\ active q = true /\
                  m_sr (p_m q) = true /\ m_sw (p_m q) = false /\
                  waits_outside (other sd) f q (e_mux (get_end w' (other sd))))).
Proof.
  intros maxc lbs evs w Hr Hst Hc.
  destruct (eager_drain_clean_reachable maxc lbs evs w Hr Hst Hc) as (w' & Hd & Hrun & Hr' & St & Hq & _).
  exists w'. pose proof (run_reachable _ _ _ _ Hr') as Rw. pose proof (run_quiescent_eager _ _ _ _ Hr' Hq) as Q.
  splits; auto.
  - intros rs f. exact (quiet_eager_no_data maxc lbs w' rs f Rw St Q).
  - intros sd f p. exact (quiet_wait_chain maxc lbs w' sd f p Rw St (proj1 Q)).
Qed.
Print Assumptions dc_c02_eventually_not_stuck.

(* ---- C09: every pause ends ---- *)
Theorem dc_c09_pause_ends : forall maxc lbs evs w,
  run (world0 maxc lbs) evs = Ok w -> w_stale w = false -> drain_cleanb w = true ->
  exists w', Forall eager_event (drain_of w) /\ run w (drain_of w) = Ok w' /\
    w_stale w' = false /\ quiescent_eagerb w' = true /\ tf w' Client = false /\ tf w' Server = false.
Proof.
  intros maxc lbs evs w Hr Hst Hc.
  destruct (eager_drain_clean_reachable maxc lbs evs w Hr Hst Hc) as (w' & Hd & Hrun & Hr' & St & Hq & _).
  exists w'. pose proof (run_reachable _ _ _ _ Hr') as Rw. pose proof (run_quiescent_eager _ _ _ _ Hr' Hq) as Q.
  splits; auto; apply (quiescent_not_paused maxc lbs w' Rw (proj1 Q)).
Qed.
Print Assumptions dc_c09_pause_ends.

(* ================================================================== *)
(* 10. The unconditional statement is false; non-vacuity                *)
(* ================================================================== *)

Definition dc_io0 : io := mkIO ConnDone RecvAgain SendAgain true.
Definition dc_x : bytes := [ascii_of_N 120].
Definition dc_big : bytes := repeat (ascii_of_N 66) 3000.

(* MAX_CHANNEL = 1 (sshuttle --wrap 1).  Flow 0 on identifier 1: the destination sends "x" (a DATA
   frame of flow 0 is queued at the server), the application resets (the client sends EOF and
   STOP_SENDING and frees identifier 1), the next captured connection — flow 1 — re-uses identifier 1.
   No stale delivery has happened; the drain delivers the DATA frame of flow 0 to the wrapper of flow 1. *)
Definition dc_stale : list event :=
  [EvAccept []; EvFlush Client; EvFlush Client; EvDeliver Server dc_io0; EvDeliver Server dc_io0;
   EvCallback Server 0 (mkIO ConnDone (RecvData dc_x) SendAgain true);
   EvCallback Client 0 (mkIO ConnDone RecvErr SendAgain true);
   EvPreSelect Client 0;
   EvAccept []].

Example dc_stale_witness :
  match run (world0 1 32768) dc_stale with
  | Ok w =>
    w_stale w = false /\ drain_cleanb w = false /\
    (* the one clause that fails: a frame of flow 0 is on the way to the client, where flow 1 is open *)
    reuses w 0 1 = true /\ closedo (cl w 1) = false /\ no_frames_of 0 (region w Server 1) = false /\
    match run w (drain_of w) with
    | Ok w' => w_stale w' = true
    | Crash _ => False
    end
  | Crash _ => False
  end.
Proof. vm_compute. splits; reflexivity. Qed.

Theorem eager_drain_unconditional_refuted :
  ~ (forall maxc lbs evs w, run (world0 maxc lbs) evs = Ok w -> w_stale w = false ->
       match run w (drain_of w) with
       | Ok w' => w_stale w' = false /\ quiescentb w' = true
       | Crash _ => False
       end).
Proof.
  intros H. pose proof dc_stale_witness as Wt.
  destruct (run (world0 1 32768) dc_stale) as [w|] eqn:E; [|exact Wt].
  destruct Wt as (A & _ & _ & _ & _ & B). specialize (H 1 32768 dc_stale w E A).
  destruct (run w (drain_of w)) as [w'|]; [|exact H]. destruct H as [H _]. congruence.
Qed.
Print Assumptions eager_drain_unconditional_refuted.

(* the other clauses are needed as well.  (b) unsent bytes in the socket buffer of the CLOSED client
   end of flow 0 (3000 bytes read, 2048 framed; EOF and STOP_SENDING of the server closed the
   wrapper): the drain frames them behind the CONNECT of flow 1 *)
Definition dc_stale_b : list event :=
  [EvAccept []; EvFlush Client; EvFlush Client; EvDeliver Server dc_io0; EvDeliver Server dc_io0;
   EvCallback Client 0 (mkIO ConnDone (RecvData dc_big) SendAgain true);
   EvCallback Server 0 (mkIO ConnDone RecvErr SendAgain true);
   EvPreSelect Server 0;
   EvFlush Server; EvFlush Server; EvFlush Server; EvFlush Server;
   EvDeliver Client dc_io0; EvDeliver Client dc_io0; EvDeliver Client dc_io0; EvDeliver Client dc_io0;
   EvAccept []].

Example dc_stale_witness_b :
  match run (world0 1 32768) dc_stale_b with
  | Ok w =>
    w_stale w = false /\ drain_cleanb w = false /\ reuses w 0 1 = true /\
    (* nothing of flow 0 is on the way in either direction, the server end of flow 0 is mute ... *)
    silentb w Server 0 1 = true /\ no_frames_of 0 (region w Client 1) = true /\
    (* ... but the client end of flow 0 is not *)
    closedo (cl w 0) = true /\ match cl w 0 with Some p => mute p | None => true end = false /\
    match run w (drain_of w) with
    | Ok w' => w_stale w' = true
    | Crash _ => False
    end
  | Crash _ => False
  end.
Proof. vm_compute. splits; reflexivity. Qed.

(* (c) ... the same one callback later: the DATA frame of flow 0 is queued BEHIND the CONNECT of flow 1 *)
Example dc_stale_witness_c :
  match run (world0 1 32768) (dc_stale_b ++ [EvCallback Client 0 dc_io0]) with
  | Ok w =>
    w_stale w = false /\ drain_cleanb w = false /\ reuses w 0 1 = true /\
    silentb w Server 0 1 = true /\ match cl w 0 with Some p => mute p | None => true end = true /\
    no_frames_of 0 (region w Client 1) = false /\
    match run w (drain_of w) with
    | Ok w' => w_stale w' = true
    | Crash _ => False
    end
  | Crash _ => False
  end.
Proof. vm_compute. splits; reflexivity. Qed.

(* (d) unsent bytes in the socket buffer of the server end of flow 0, which the client's EOF and
   STOP_SENDING (in front of the CONNECT of flow 1) are about to close *)
Definition dc_stale_d : list event :=
  [EvAccept []; EvFlush Client; EvFlush Client; EvDeliver Server dc_io0; EvDeliver Server dc_io0;
   EvCallback Server 0 (mkIO ConnDone (RecvData dc_big) SendAgain true);
   EvFlush Server; EvFlush Server; EvFlush Server;
   EvDeliver Client dc_io0; EvDeliver Client dc_io0; EvDeliver Client dc_io0;
   EvCallback Client 0 (mkIO ConnDone RecvErr SendAgain true);
   EvAccept []].

Example dc_stale_witness_d :
  match run (world0 1 32768) dc_stale_d with
  | Ok w =>
    w_stale w = false /\ drain_cleanb w = false /\ reuses w 0 1 = true /\
    silentb w Client 0 1 = true /\ no_frames_of 0 (region w Server 1) = true /\
    match sv w 0 with Some p => mute p | None => true end = false /\
    match run w (drain_of w) with
    | Ok w' => w_stale w' = true
    | Crash _ => False
    end
  | Crash _ => False
  end.
Proof. vm_compute. splits; reflexivity. Qed.

(* non-vacuity of the hypothesis, with identifier re-use: the application resets flow 0 (EOF and
   STOP_SENDING queued, the server's end still open and idle), identifier 1 is re-used at once by
   flow 1, which has already read "x".  The state is clean; the drain closes flow 0 at the server,
   opens flow 1 there and delivers "x" — no stale delivery, no new failure flag. *)
Definition dc_reuse : list event :=
  [EvAccept []; EvFlush Client; EvFlush Client; EvDeliver Server dc_io0; EvDeliver Server dc_io0;
   EvCallback Client 0 (mkIO ConnDone RecvErr SendAgain true);
   EvPreSelect Client 0;
   EvAccept [];
   EvCallback Client 1 (mkIO ConnDone (RecvData dc_x) SendAgain true)].

Example dc_reuse_clean :
  match run (world0 1 32768) dc_reuse with
  | Ok w =>
    w_stale w = false /\ quiescentb w = false /\ no_reuseb w = false /\ reuses w 0 1 = true /\
    drain_cleanb w = true /\ closedo (sv w 0) = false /\ sv w 1 = None /\ length (drain_of w) = 15%nat /\
    match run w (drain_of w) with
    | Ok w' => w_stale w' = false /\ quiescent_eagerb w' = true /\ drain_cleanb w' = true /\
               closedo (sv w' 0) = true /\ dst_written w 1 = [] /\ dst_written w' 1 = dc_x /\
               fault_of w' Server 1 = false
    | Crash _ => False
    end
  | Crash _ => False
  end.
Proof. vm_compute. splits; reflexivity. Qed.

(* ... and without re-use: the examples of Stream_drain are clean states *)
Example dc_pending_clean :
  match run (world0 65535 32768) d_pending with
  | Ok w => w_stale w = false /\ no_reuseb w = true /\ drain_cleanb w = true
  | Crash _ => False
  end.
Proof. vm_compute. splits; reflexivity. Qed.
