(* Proofs/FwLog_lemmas.v — logging is total, and a session does not depend on
   the outcomes of its log calls as long as every raised class is one that
   helpers.log swallows. *)
From Coq Require Import List NArith ZArith Bool Arith Lia.
From SV Require Import Lib.Bytes Model.FwLife Model.FwLifeSpec Model.FwLog Proofs.FwLife_lemmas.
Import ListNotations.

(* every stream operation of every log call succeeds or raises a swallowed class *)
Definition all_sw (L : logcfg) : Prop := forall j i, lout_sw (lg_sw L) (lg_env L j i) = true.

(* ---- helpers.log ---- *)
Lemma first_raise_sw sw env n : forall i,
  (forall k, lout_sw sw (env k) = true) ->
  match first_raise env i n with Some e => sw e = true | None => True end.
Proof.
  induction n as [|n IH]; intros i H; cbn [first_raise]; [exact I|].
  specialize (H i) as Hi. destruct (env i) as [|e]; [apply IH; exact H | exact Hi].
Qed.

Lemma log_call_total sw env nl :
  (forall i, lout_sw sw (env i) = true) -> log_call sw env nl = None.
Proof.
  intro H. unfold log_call.
  pose proof (first_raise_sw sw env (S nl) 1 H) as F.
  destruct (first_raise env 1 (S nl)) as [e|].
  - rewrite F. specialize (H 0). destruct (env 0) as [|e0]; [reflexivity|]. cbn in H. rewrite H. reflexivity.
  - specialize (H 0). destruct (env 0) as [|e0]; [reflexivity|]. cbn in H. rewrite H. reflexivity.
Qed.

Lemma first_raise_some env n : forall i e,
  first_raise env i n = Some e -> exists k, i <= k < i + n /\ env k = LRaise e.
Proof.
  induction n as [|n IH]; intros i e H; cbn [first_raise] in H; [discriminate|].
  destruct (env i) as [|e0] eqn:E.
  - destruct (IH _ _ H) as (k & Hk & Ek). exists k. split; [lia | exact Ek].
  - injection H as ->. exists i. split; [lia | exact E].
Qed.

(* an exception escapes from log only if a stream operation of that call raised it and
   the except clauses do not name its class *)
Lemma log_call_escape sw env nl e :
  log_call sw env nl = Some e -> exists i, i <= S nl /\ env i = LRaise e /\ sw e = false.
Proof.
  unfold log_call. intro H.
  assert (S2 : match first_raise env 1 (S nl) with
               | Some e0 => if sw e0 then None else Some e0 | None => None end = Some e ->
               exists i, i <= S nl /\ env i = LRaise e /\ sw e = false).
  { destruct (first_raise env 1 (S nl)) as [e0|] eqn:F; [|discriminate].
    destruct (sw e0) eqn:W; [discriminate|]. intros [= ->].
    destruct (first_raise_some _ _ _ _ F) as (k & Hk & Ek). exists k. repeat split; [lia | exact Ek | exact W]. }
  destruct (env 0) as [|e0] eqn:E0; [exact (S2 H)|].
  destruct (sw e0) eqn:W; [exact (S2 H)|].
  injection H as ->. exists 0. repeat split; [lia | exact E0 | exact W].
Qed.

(* the first failing operation decides: an un-named class escapes *)
Lemma log_call_first_escapes sw env nl e :
  env 0 = LRaise e -> sw e = false -> log_call sw env nl = Some e.
Proof. intros E W. unfold log_call. rewrite E, W. reflexivity. Qed.

Lemma log_call_write_escapes sw env nl e :
  env 0 = LOk -> env 1 = LRaise e -> sw e = false -> log_call sw env nl = Some e.
Proof. intros E0 E1 W. unfold log_call. rewrite E0. cbn [first_raise]. rewrite E1, W. reflexivity. Qed.

(* the class hierarchy: what `except (IOError, ValueError)` names *)
Lemma log_swallows_spec e :
  log_swallows e = true <-> subclass e COSError = true \/ subclass e CValueError = true.
Proof. unfold log_swallows. apply orb_true_iff. Qed.

(* ---- debug calls ---- *)
Lemma dbg_total L lvl j : all_sw L -> fst (dbg L lvl j) = None.
Proof.
  intro H. unfold dbg. destruct (Nat.leb lvl (lg_verbose L)); [|reflexivity].
  cbn [fst]. apply log_call_total. intro i. apply H.
Qed.

Lemma dbg_total' L lvl j : all_sw L -> exists j', dbg L lvl j = (None, j').
Proof.
  intro H. pose proof (dbg_total L lvl j H) as D. destruct (dbg L lvl j) as [r j']. cbn in D. subst r.
  exists j'. reflexivity.
Qed.

Lemma dbgs_total' L lvls : forall j, all_sw L -> exists j', dbgs L lvls j = (None, j').
Proof.
  induction lvls as [|l ls IH]; intros j H; cbn [dbgs]; [exists j; reflexivity|].
  destruct (dbg_total' L l j H) as [j1 ->]. apply IH. exact H.
Qed.

Lemma handlerL_total' L j : all_sw L -> exists j', handlerL L j = (None, j').
Proof.
  intro H. unfold handlerL. destruct (dbgs_total' L [1; 1] j H) as [j1 ->]. exists j1. reflexivity.
Qed.

(* ---- the step interpreter ---- *)
Definition st_of (ok : bool) : st := if ok then SOk else SFatal.
Definition inj (r : runres) (j : nat) : runresL :=
  let '(ok, n, s, ev) := r in (st_of ok, n, j, s, ev).

Lemma run_sstepL_erase L F x n j s : all_sw L ->
  exists j', run_sstepL L F x n j s = inj (run_sstep F x n s) j'.
Proof.
  intro H. unfold run_sstepL, run_sstep.
  destruct (dbg_total' L 1 j H) as [j1 ->].
  destruct x as [c|c]; destruct (issue F c n s) as [[[ok out] err] s'].
  - exists j1. destruct ok; reflexivity.
  - destruct ok; [exists j1; reflexivity|].
    destruct (dbg_total' L 0 j1 H) as [j2 ->]. exists j2. reflexivity.
Qed.

Lemma run_ssL_erase L F xs : forall n j s, all_sw L ->
  exists j', run_ssL L F xs n j s = inj (run_ss F xs n s) j'.
Proof.
  induction xs as [|x xs IH]; intros n j s H; cbn [run_ssL run_ss]; [exists j; reflexivity|].
  destruct (run_sstepL_erase L F x n j s H) as [j1 ->].
  destruct (run_sstep F x n s) as [[[ok n1] s1] ev1]. cbn [inj st_of].
  destruct ok; cbn iota; [|exists j1; reflexivity].
  destruct (IH n1 j1 s1 H) as [j2 ->].
  destruct (run_ss F xs n1 s1) as [[[ok2 n2] s2] ev2]. exists j2. reflexivity.
Qed.

Lemma run_stepL_erase L F x n j s : all_sw L ->
  exists j', run_stepL L F x n j s = inj (run_step F x n s) j'.
Proof.
  intro H. destruct x as [y|f t name body]; cbn [run_stepL run_step].
  - apply run_sstepL_erase. exact H.
  - destruct (issue F (Ipt f t IList) n s) as [[[ok out] err] s'].
    destruct ok; [|exists j; reflexivity].
    destruct (chain_in_listing name out); [|exists j; reflexivity].
    destruct (run_ssL_erase L F body (S n) j s' H) as [j2 ->].
    destruct (run_ss F body (S n) s') as [[[ok2 n2] s2] ev2]. exists j2. reflexivity.
Qed.

Lemma runL_erase L F xs : forall n j s, all_sw L ->
  exists j', runL L F xs n j s = inj (run F xs n s) j'.
Proof.
  induction xs as [|x xs IH]; intros n j s H; cbn [runL run]; [exists j; reflexivity|].
  destruct (run_stepL_erase L F x n j s H) as [j1 ->].
  destruct (run_step F x n s) as [[[ok n1] s1] ev1]. cbn [inj st_of].
  destruct ok; cbn iota; [|exists j1; reflexivity].
  destruct (IH n1 j1 s1 H) as [j2 ->].
  destruct (run F xs n1 s1) as [[[ok2 n2] s2] ev2]. exists j2. reflexivity.
Qed.

(* ---- the phases of firewall.main ---- *)
Lemma setupL_erase L F c f n j s : all_sw L ->
  exists j', setupL L F c f n j s =
    if udp_refused c then (SCrash CException, n, j', s, [EMark (MSetup f)])
    else let '(ok, n', s', ev) := run F (setup_prog c f) n s in
         (st_of ok, n', j', s', EMark (MSetup f) :: ev).
Proof.
  intro H. unfold setupL. destruct (dbg_total' L 2 j H) as [j1 ->].
  destruct (udp_refused c); [exists j1; reflexivity|].
  destruct (runL_erase L F (setup_prog c f) n j1 s H) as [j2 ->].
  destruct (run F (setup_prog c f) n s) as [[[ok n'] s'] ev]. exists j2. reflexivity.
Qed.

Lemma restoreL_erase L F c f n j s : all_sw L ->
  exists j', restoreL L F c f n j s =
    if udp_refused c then (None, n, j', s, [EMark (MRestore f)])
    else let '(ok, n', s', ev) := run F (restore_prog c f) n s in
         (None, n', j', s', EMark (MRestore f) :: ev).
Proof.
  intro H. unfold restoreL. destruct (dbg_total' L 2 j H) as [j1 ->].
  destruct (udp_refused c).
  - destruct (handlerL_total' L j1 H) as [j2 ->]. exists j2. reflexivity.
  - destruct (runL_erase L F (restore_prog c f) n j1 s H) as [j2 ->].
    destruct (run F (restore_prog c f) n s) as [[[ok n'] s'] ev]. cbn [inj].
    destruct ok; cbn [st_of]; [exists j2; reflexivity|].
    destruct (handlerL_total' L j2 H) as [j3 ->]. exists j3. reflexivity.
Qed.

Lemma wait_loopL_erase L lines : forall j, all_sw L ->
  exists j', wait_loopL L lines j = (fst (wait_loop lines), st_of (negb (snd (wait_loop lines))), j').
Proof.
  induction lines as [|[|] ls IH]; intros j H; cbn [wait_loopL wait_loop].
  - exists j. reflexivity.
  - destruct (dbg_total' L 2 j H) as [j1 ->]. destruct (IH j1 H) as [j2 ->].
    destruct (wait_loop ls) as [h ft]. exists j2. reflexivity.
  - exists j. reflexivity.
Qed.

Lemma do_setup_not_pf F c f py n s : not_pf c = true ->
  do_setup F c f py n s = let '(ok, n', s', ev) := run F (setup_prog c f) n s in (ok, py, n', s', ev).
Proof. unfold not_pf, do_setup. destruct (c_method c); [reflexivity..|discriminate]. Qed.

Lemma do_restore_not_pf F c f py n s : not_pf c = true ->
  do_restore F c f py n s = let '(ok, n', s', ev) := run F (restore_prog c f) n s in (ok, py, n', s', ev).
Proof. unfold not_pf, do_restore. destruct (c_method c); [reflexivity..|discriminate]. Qed.

(* ---- the session ---- *)
Ltac red_ := cbv beta iota zeta; cbn [st_ok st_of andb orb negb fst snd inj].
Ltac step_ H Hp U :=
  match goal with
  | |- context [setupL ?L ?F ?c ?f ?n ?j ?s] =>
      let j' := fresh "j" in destruct (setupL_erase L F c f n j s H) as [j' ->]
  | |- context [restoreL ?L ?F ?c ?f ?n ?j ?s] =>
      let j' := fresh "j" in destruct (restoreL_erase L F c f n j s H) as [j' ->]
  | |- context [wait_loopL ?L ?ls ?j] =>
      let j' := fresh "j" in destruct (wait_loopL_erase L ls j H) as [j' ->]
  | |- context [handlerL ?L ?j] =>
      let j' := fresh "j" in destruct (handlerL_total' L j H) as [j' ->]
  | |- context [dbg ?L ?l ?j] =>
      let j' := fresh "j" in destruct (dbg_total' L l j H) as [j' ->]
  | |- context [do_setup ?F ?c ?f ?py ?n ?s] => rewrite (do_setup_not_pf F c f py n s Hp)
  | |- context [do_restore ?F ?c ?f ?py ?n ?s] => rewrite (do_restore_not_pf F c f py n s Hp)
  | |- context [if fc_on ?x then _ else _] => destruct (fc_on x)
  | |- context [run ?F ?xs ?n ?s] =>
      let ok := fresh "ok" in let n' := fresh "n" in let s' := fresh "s" in let ev := fresh "ev" in
      destruct (run F xs n s) as [[[ok n'] s'] ev]; try destruct ok
  | |- context [wait_loop ?ls] =>
      let h := fresh "h" in let ft := fresh "ft" in destruct (wait_loop ls) as [h ft]; destruct h, ft
  end; red_; rewrite ?U; red_.

Theorem sessionL_erase L pre c cut F s0 :
  all_sw L -> not_pf c = true ->
  rl_res (sessionL L pre c cut F s0) = session c cut F s0.
Proof.
  intros H Hp. unfold sessionL, session.
  destruct (dbgs_total' L pre 0 H) as [j0 ->].
  destruct (Nat.ltb cut (c_nlines c)); [reflexivity|].
  destruct (udp_refused c) eqn:U; red_; repeat (step_ H Hp U); try reflexivity.
Qed.

(* sessions with and without log faults issue the same commands and end in the same state:
   any two logging environments (verbosity, message sizes, stream outcomes) whose raised
   classes are all swallowed are indistinguishable *)
Corollary log_faults_invisible L L' pre pre' c cut F s0 :
  all_sw L -> all_sw L' -> not_pf c = true ->
  rl_res (sessionL L pre c cut F s0) = rl_res (sessionL L' pre' c cut F s0).
Proof.
  intros H H' Hp. rewrite (sessionL_erase L pre c cut F s0 H Hp), (sessionL_erase L' pre' c cut F s0 H' Hp).
  reflexivity.
Qed.

(* the real except clauses: every raised class is an OSError or a ValueError *)
Lemma all_sw_oserror_valueerror L :
  lg_sw L = log_swallows ->
  (forall j i e, lg_env L j i = LRaise e -> subclass e COSError = true \/ subclass e CValueError = true) ->
  all_sw L.
Proof.
  intros Hs He j i. destruct (lg_env L j i) as [|e] eqn:E; [reflexivity|].
  cbn [lout_sw]. rewrite Hs. apply log_swallows_spec. exact (He j i e E).
Qed.

Lemma all_sw_ok v sw nl : all_sw (mkLog v sw env_ok nl).
Proof. intros j i. reflexivity. Qed.

Lemma all_sw_once v sw nl j0 i0 e : sw e = true -> all_sw (mkLog v sw (env_once j0 i0 e) nl).
Proof.
  intros W j i. cbn [lg_env lg_sw]. unfold env_once.
  destruct (Nat.eqb j j0 && Nat.eqb i i0); [exact W | reflexivity].
Qed.

Lemma all_sw_from v sw nl j0 i0 e both : sw e = true -> all_sw (mkLog v sw (env_from j0 i0 e both) nl).
Proof.
  intros W j i. cbn [lg_env lg_sw]. unfold env_from.
  destruct ((Nat.ltb j0 j || (Nat.eqb j j0 && Nat.leb i0 i)) && (both || negb (Nat.eqb i 0)));
    [exact W | reflexivity].
Qed.

(* ---- the hypothesis is needed: the narrower clause `except (BrokenPipeError, ValueError)` ---- *)
(* debug calls before `try:` for the sample plans (8 header lines, two name servers) *)
Definition pre_sample : list nat := [1; 1; 2; 2; 2; 2; 2; 2].
Definition L_hup (sw : ecls -> bool) (v j0 : nat) : logcfg :=
  mkLog v sw (env_from j0 1 COSError false) (fun _ => 1).

(* verbose (-v) nat session, both families, kernel with foreign rules and a second instance;
   the terminal hangs up while the session runs: from log call j0 on every write to stderr
   raises OSError(EIO).  With the narrow clause the helper reaches STARTED, "returns" normally,
   issues only the two chain listings of the tear-down and leaves the diverting rules behind;
   with the real clause the same session ends in the initial state. *)
Lemma narrow_refuted :
  exists j0,
    let rn := sessionL (L_hup log_swallows_narrow 1 j0) pre_sample cfg_nat (full_cut cfg_nat) no_faults ex_state in
    let rs := sessionL (L_hup log_swallows 1 j0) pre_sample cfg_nat (full_cut cfg_nat) no_faults ex_state in
    log_swallows COSError = true /\ log_swallows_narrow COSError = false /\
    has_mark MStarted (r_events (rl_res rn)) = true /\ r_outcome (rl_res rn) = ExitReturn /\
    r_ncmds (rl_res rn) = r_fin_at (rl_res rn) + 2 /\
    no_divert cfg_nat (r_final (rl_res rn)) = false /\
    kstate_eqb (r_final (rl_res rs)) ex_state = true /\ r_ncmds (rl_res rs) = 28.
Proof. exists 19. vm_compute. repeat split. Qed.
