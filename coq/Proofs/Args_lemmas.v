(* Proofs/Args_lemmas.v — proofs for property C16 (Model/Args.v). *)
From Coq Require Import List NArith ZArith Ascii Bool Lia ZifyBool Arith.
From Coq Require String.
Import String.StringSyntax.
Delimit Scope string_scope with string.
From SV Require Import Lib.Bytes Model.Args.
Import ListNotations.
Local Open Scope char_scope.
Local Open Scope N_scope.

(* ------------------------------------------------------------------ *)
(* totality                                                            *)

Lemma argparse_type_total {A} (r : res A) :
  (exists a, argparse_type r = OOk a) \/ argparse_type r = OUsage.
Proof. destruct r as [a|e]; [left; eexists; reflexivity|right]. destruct e; reflexivity. Qed.

(* ------------------------------------------------------------------ *)
(* span and the literal-character helpers                              *)

Definition stops (p : ascii -> bool) (r : bytes) : Prop :=
  match r with [] => True | c :: _ => p c = false end.

Lemma span_app p a r :
  forallb p a = true -> stops p r -> span p (a ++ r) = (a, r).
Proof.
  induction a as [|c a IH]; intros Ha Hr.
  - cbn [app]. destruct r as [|x r]; [reflexivity|]. cbn in Hr. cbn [span]. rewrite Hr. reflexivity.
  - cbn [forallb] in Ha. apply andb_true_iff in Ha. destruct Ha as [Hc Ha].
    cbn [app span]. rewrite Hc. rewrite (IH Ha Hr). reflexivity.
Qed.

Lemma span_all p a : forallb p a = true -> span p a = (a, []).
Proof. intros H. rewrite <- (app_nil_r a) at 1. apply span_app; [exact H|exact I]. Qed.

Lemma strip_char_hit c t : strip_char c (c :: t) = Some t.
Proof. cbn [strip_char]. rewrite Ascii.eqb_refl. reflexivity. Qed.

Lemma strip_char_miss c x t : Ascii.eqb x c = false -> strip_char c (x :: t) = None.
Proof. intros H. cbn [strip_char]. rewrite H. reflexivity. Qed.

Lemma strip_char_some c s t : strip_char c s = Some t -> s = c :: t.
Proof.
  destruct s as [|x s]; [discriminate|]. cbn [strip_char].
  destruct (Ascii.eqb x c) eqn:E; [|discriminate].
  apply Ascii.eqb_eq in E. intros [= <-]. subst. reflexivity.
Qed.

Lemma strip_star_some s t : strip_star s = Some t -> s = "*" :: "." :: t.
Proof.
  unfold strip_star. destruct (strip_char "*" s) as [u|] eqn:E; [|discriminate].
  intros H. apply strip_char_some in E. apply strip_char_some in H. subst. reflexivity.
Qed.

Lemma strip_star_hit t : strip_star ("*" :: "." :: t) = Some t.
Proof. reflexivity. Qed.

(* a class that does not contain c: texts over the class do not start with c *)
Lemma class_not_char (p : ascii -> bool) c x : p c = false -> p x = true -> Ascii.eqb x c = false.
Proof.
  intros Hc Hx. destruct (Ascii.eqb x c) eqn:E; [|reflexivity].
  apply Ascii.eqb_eq in E. subst. congruence.
Qed.

Lemma strip_char_class p c h r :
  p c = false -> nonempty h = true -> forallb p h = true -> strip_char c (h ++ r) = None.
Proof.
  intros Hc Hn Hh. destruct h as [|x h]; [discriminate|].
  cbn [forallb] in Hh. apply andb_true_iff in Hh. destruct Hh as [Hx _].
  cbn [app]. apply strip_char_miss. exact (class_not_char p c x Hc Hx).
Qed.

Lemma strip_star_class p h r :
  p "*" = false -> nonempty h = true -> forallb p h = true -> strip_star (h ++ r) = None.
Proof.
  intros Hc Hn Hh. unfold strip_star. rewrite (strip_char_class p "*" h r Hc Hn Hh). reflexivity.
Qed.

Lemma digits_ok_inv d : digits_ok d = true -> nonempty d = true /\ forallb is_digit d = true.
Proof. unfold digits_ok. intros H. apply andb_true_iff in H. exact H. Qed.

Lemma opt_char_digits_hit c d r :
  digits_ok d = true -> stops is_digit r -> opt_char_digits c (c :: d ++ r) = (Some d, r).
Proof.
  intros Hd Hr. destruct (digits_ok_inv d Hd) as [Hn Ha].
  unfold opt_char_digits. rewrite strip_char_hit. rewrite (span_app is_digit d r Ha Hr).
  cbn [fst snd]. rewrite Hn. reflexivity.
Qed.

Lemma opt_char_digits_miss c r :
  match r with [] => True | x :: _ => Ascii.eqb x c = false end -> opt_char_digits c r = (None, r).
Proof.
  intros H. unfold opt_char_digits. destruct r as [|x r]; [reflexivity|].
  rewrite (strip_char_miss c x r H). reflexivity.
Qed.

(* ------------------------------------------------------------------ *)
(* counting ':'                                                        *)

Lemma count_char_app c a b : count_char c (a ++ b) = (count_char c a + count_char c b)%nat.
Proof.
  induction a as [|x a IH]; [reflexivity|]. cbn [app count_char].
  destruct (Ascii.eqb x c); rewrite IH; reflexivity.
Qed.

Lemma count_char_class p c l : p c = false -> forallb p l = true -> count_char c l = 0%nat.
Proof.
  intros Hc. induction l as [|x l IH]; intros H; [reflexivity|].
  cbn [forallb] in H. apply andb_true_iff in H. destruct H as [Hx Hl].
  cbn [count_char]. rewrite (class_not_char p c x Hc Hx). exact (IH Hl).
Qed.

Lemma count_colon_digits d : forallb is_digit d = true -> count_char ":" d = 0%nat.
Proof. apply count_char_class. reflexivity. Qed.

Lemma count_colon_width w : width_ok w = true -> count_char ":" (render_width w) = 0%nat.
Proof.
  destruct w as [d|]; [|reflexivity]. cbn [width_ok render_width]. intros H.
  destruct (digits_ok_inv d H) as [_ Ha]. cbn [count_char].
  change (Ascii.eqb "/" ":") with false. cbv iota. exact (count_colon_digits d Ha).
Qed.

Lemma count_colon_ports p : ports_ok p = true -> (count_char ":" (render_ports p) <= 1)%nat.
Proof.
  destruct p as [[f [l|]]|]; cbn [ports_ok render_ports]; intros H.
  - apply andb_true_iff in H. destruct H as [Hf Hl].
    destruct (digits_ok_inv f Hf) as [_ Haf]. destruct (digits_ok_inv l Hl) as [_ Hal].
    cbn [count_char]. change (Ascii.eqb ":" ":") with true. cbv iota.
    rewrite count_char_app. cbn [count_char]. change (Ascii.eqb "-" ":") with false. cbv iota.
    rewrite (count_colon_digits f Haf), (count_colon_digits l Hal). lia.
  - destruct (digits_ok_inv f H) as [_ Haf].
    cbn [count_char]. change (Ascii.eqb ":" ":") with true. cbv iota.
    rewrite (count_colon_digits f Haf). lia.
  - cbn. lia.
Qed.

(* ------------------------------------------------------------------ *)
(* the tail  [/w][:p[-q]]                                              *)

Lemma stops_digit_ports p : stops is_digit (render_ports p).
Proof. destruct p as [[f [l|]]|]; cbn; auto. Qed.

Lemma opt_slash_render w r :
  width_ok w = true -> stops is_digit r ->
  match r with [] => True | x :: _ => Ascii.eqb x "/" = false end ->
  opt_slash_digits (render_width w ++ r) = (w, r).
Proof.
  intros Hw Hr Hs. destruct w as [d|]; cbn [render_width].
  - cbn [app]. exact (opt_char_digits_hit "/" d r Hw Hr).
  - cbn [app]. exact (opt_char_digits_miss "/" r Hs).
Qed.

Lemma opt_ports_render p :
  ports_ok p = true ->
  opt_ports (render_ports p) =
  (match p with Some (f, _) => Some f | None => None end,
   match p with Some (_, l) => l | None => None end, []).
Proof.
  destruct p as [[f [l|]]|]; cbn [ports_ok render_ports]; intros H; unfold opt_ports.
  - apply andb_true_iff in H. destruct H as [Hf Hl].
    unfold opt_colon_digits.
    rewrite (opt_char_digits_hit ":" f ("-" :: l) Hf); [|reflexivity].
    unfold opt_dash_digits. rewrite <- (app_nil_r l) at 1.
    rewrite (opt_char_digits_hit "-" l [] Hl I). reflexivity.
  - unfold opt_colon_digits. rewrite <- (app_nil_r f) at 1.
    rewrite (opt_char_digits_hit ":" f [] H I).
    unfold opt_dash_digits. rewrite (opt_char_digits_miss "-" [] I). reflexivity.
  - reflexivity.
Qed.

Lemma head_ports_not c p : Ascii.eqb ":" c = false ->
  match render_ports p with [] => True | x :: _ => Ascii.eqb x c = false end.
Proof. intros H. destruct p as [[f [l|]]|]; cbn; auto. Qed.

(* ------------------------------------------------------------------ *)
(* round trip, IPv4 / name form                                        *)

Lemma host4_no_colon h : host4_ok h = true -> count_char ":" h = 0%nat.
Proof.
  unfold host4_ok. destruct (strip_star h) as [t|] eqn:E; unfold name4_ok; intros H;
    apply andb_true_iff in H; destruct H as [_ H].
  - apply strip_star_some in E. subst h. cbn [count_char].
    change (Ascii.eqb "*" ":") with false. change (Ascii.eqb "." ":") with false. cbv iota.
    exact (count_char_class is_host4 ":" t eq_refl H).
  - exact (count_char_class is_host4 ":" h eq_refl H).
Qed.

Lemma stops_host4_tail w p : stops is_host4 (render_width w ++ render_ports p).
Proof. destruct w as [d|]; [reflexivity|]. destruct p as [[f [l|]]|]; cbn; auto. Qed.

Lemma rx4_tail w p :
  width_ok w = true -> ports_ok p = true ->
  forall host,
  (let '(cidr, r1) := opt_slash_digits (render_width w ++ render_ports p) in
   let '(fp, lp, r2) := opt_ports r1 in
   if is_eol r2 then Some (host, cidr, fp, lp) else None) =
  Some (host, w, match p with Some (f, _) => Some f | None => None end,
        match p with Some (_, l) => l | None => None end) :> option groups.
Proof.
  intros Hw Hp host.
  rewrite (opt_slash_render w (render_ports p) Hw (stops_digit_ports p) (head_ports_not "/" p eq_refl)).
  rewrite (opt_ports_render p Hp). reflexivity.
Qed.

Lemma rx4_render sp :
  host4_ok (sp_host sp) = true -> spec_ok sp = true ->
  rx4 (render4 sp) = Some (sp_host sp, sp_width sp, spec_fport sp, spec_lport sp).
Proof.
  intros Hh Hs. unfold spec_ok in Hs. apply andb_true_iff in Hs. destruct Hs as [Hw Hp].
  unfold render4, rx4, spec_fport, spec_lport. unfold host4_ok in Hh.
  destruct (strip_star (sp_host sp)) as [t|] eqn:E.
  - pose proof (strip_star_some _ _ E) as Eh. rewrite Eh. cbn [app]. rewrite strip_star_hit.
    unfold name4_ok in Hh. apply andb_true_iff in Hh. destruct Hh as [Hn Ha].
    rewrite (span_app is_host4 t _ Ha (stops_host4_tail (sp_width sp) (sp_ports sp))).
    cbn [fst snd]. rewrite Hn.
    exact (rx4_tail (sp_width sp) (sp_ports sp) Hw Hp ("*" :: "." :: t)).
  - unfold name4_ok in Hh. apply andb_true_iff in Hh. destruct Hh as [Hn Ha].
    rewrite (strip_star_class is_host4 (sp_host sp) _ eq_refl Hn Ha).
    rewrite (span_app is_host4 (sp_host sp) _ Ha (stops_host4_tail (sp_width sp) (sp_ports sp))).
    cbn [fst snd]. rewrite Hn.
    exact (rx4_tail (sp_width sp) (sp_ports sp) Hw Hp (sp_host sp)).
Qed.

Lemma groups4_render r6 sp :
  host4_ok (sp_host sp) = true -> spec_ok sp = true ->
  subnet_groups_gen r6 (render4 sp) = Some (sp_host sp, sp_width sp, spec_fport sp, spec_lport sp).
Proof.
  intros Hh Hs. unfold subnet_groups_gen.
  replace (Nat.ltb 1 (count_char ":" (render4 sp))) with false; [exact (rx4_render sp Hh Hs)|].
  symmetry. apply Nat.ltb_ge. unfold render4. rewrite !count_char_app.
  unfold spec_ok in Hs. apply andb_true_iff in Hs. destruct Hs as [Hw Hp].
  rewrite (host4_no_colon _ Hh), (count_colon_width _ Hw).
  pose proof (count_colon_ports _ Hp). lia.
Qed.

(* ------------------------------------------------------------------ *)
(* round trip, IPv6 form                                               *)

Lemma host6_inv h : host6_ok h = true ->
  nonempty h = true /\ forallb is_host6 h = true /\ (2 <= count_char ":" h)%nat.
Proof.
  unfold host6_ok. intros H. apply andb_true_iff in H. destruct H as [H H2].
  apply andb_true_iff in H. destruct H as [H0 H1]. apply Nat.ltb_lt in H2. auto.
Qed.

Lemma tail6_render_plain w :
  width_ok w = true -> tail6 (render_width w) = Some (w, None, None).
Proof.
  intros Hw. unfold tail6. rewrite <- (app_nil_r (render_width w)).
  rewrite (opt_slash_render w [] Hw I I). reflexivity.
Qed.

Lemma tail6_render_bracket w p :
  width_ok w = true -> ports_ok p = true ->
  tail6 (render_width w ++ "]" :: render_ports p) =
  Some (w, match p with Some (f, _) => Some f | None => None end,
        match p with Some (_, l) => l | None => None end).
Proof.
  intros Hw Hp. unfold tail6.
  rewrite (opt_slash_render w ("]" :: render_ports p) Hw); [|reflexivity|reflexivity].
  rewrite strip_char_hit. rewrite (opt_ports_render p Hp). reflexivity.
Qed.

Lemma stops_host6_width w r :
  stops is_host6 r -> stops is_host6 (render_width w ++ r).
Proof. destruct w; [reflexivity|auto]. Qed.

Lemma rx6_render sp :
  host6_ok (sp_host sp) = true -> spec_ok sp = true ->
  rx6 (render6 sp) = Some (sp_host sp, sp_width sp, spec_fport sp, spec_lport sp).
Proof.
  intros Hh Hs. unfold spec_ok in Hs. apply andb_true_iff in Hs. destruct Hs as [Hw Hp].
  destruct (host6_inv _ Hh) as (Hn & Ha & _).
  unfold render6, rx6, rx6_gen, spec_fport, spec_lport.
  destruct (sp_ports sp) as [pp|] eqn:Ep.
  - rewrite strip_char_hit.
    rewrite (strip_star_class is_host6 (sp_host sp) _ eq_refl Hn Ha).
    rewrite (span_app is_host6 (sp_host sp) _ Ha
               (stops_host6_width (sp_width sp) ("]" :: render_ports (Some pp)) eq_refl)).
    cbn [fst snd]. rewrite Hn.
    rewrite (tail6_render_bracket (sp_width sp) (Some pp) Hw Hp). reflexivity.
  - rewrite (strip_char_class is_host6 "[" (sp_host sp) _ eq_refl Hn Ha).
    rewrite (strip_star_class is_host6 (sp_host sp) _ eq_refl Hn Ha).
    assert (Hst : stops is_host6 (render_width (sp_width sp)))
      by (destruct (sp_width sp); [reflexivity|exact I]).
    rewrite (span_app is_host6 (sp_host sp) _ Ha Hst).
    cbn [fst snd]. rewrite Hn.
    rewrite (tail6_render_plain (sp_width sp) Hw). reflexivity.
Qed.

Lemma groups6_render sp :
  host6_ok (sp_host sp) = true -> spec_ok sp = true ->
  subnet_groups (render6 sp) = Some (sp_host sp, sp_width sp, spec_fport sp, spec_lport sp).
Proof.
  intros Hh Hs. unfold subnet_groups, subnet_groups_gen.
  replace (Nat.ltb 1 (count_char ":" (render6 sp))) with true; [exact (rx6_render sp Hh Hs)|].
  symmetry. apply Nat.ltb_lt. destruct (host6_inv _ Hh) as (_ & _ & Hc).
  unfold render6. destruct (sp_ports sp).
  - cbn [count_char]. change (Ascii.eqb "[" ":") with false. cbv iota.
    rewrite !count_char_app. lia.
  - rewrite !count_char_app. lia.
Qed.

(* ------------------------------------------------------------------ *)
(* from the groups to the returned tuples                              *)

Lemma py_int_short d : short d = true -> py_int d = Ok (dec_val d).
Proof.
  unfold short, py_int. intros H.
  destruct (MAX_STR_DIGITS <? lenN d) eqn:E; [lia|reflexivity].
Qed.

Lemma single_not_mixed (fam : N) (addr : bytes) :
  existsb (fun a : N * bytes => fst a =? AF_INET) [(fam, addr)] &&
  existsb (fun a : N * bytes => fst a =? AF_INET6) [(fam, addr)] = false.
Proof.
  cbn [existsb fst]. unfold AF_INET, AF_INET6.
  destruct (fam =? 2) eqn:E2; destruct (fam =? 10) eqn:E10; try reflexivity. lia.
Qed.

Lemma parse_subnetport_single r6 rs s host cidr fp lp fam addr :
  subnet_groups_gen r6 s = Some (host, cidr, fp, lp) ->
  getaddrinfo rs host = Ok [(fam, addr)] ->
  parse_subnetport_gen r6 rs s = subnet_entries cidr fp lp [(fam, addr)].
Proof.
  intros Hg Ha. unfold parse_subnetport_gen. rewrite Hg, Ha.
  rewrite single_not_mixed. destruct cidr; reflexivity.
Qed.

Lemma subnet_entry_spec sp fam addr :
  spec_short sp = true ->
  (match sp_width sp with None => True | Some d => dec_val d <= max_width fam end) ->
  subnet_entry (sp_width sp) (spec_fport sp) (spec_lport sp) (fam, addr) =
  Ok (fam, addr, spec_width_val fam sp, spec_fport_val sp, spec_lport_val sp).
Proof.
  unfold spec_short, subnet_entry, spec_fport, spec_lport, spec_width_val, spec_fport_val, spec_lport_val.
  intros Hs Hw. apply andb_true_iff in Hs. destruct Hs as [Hsw Hsp].
  destruct (sp_width sp) as [d|].
  - rewrite (py_int_short d Hsw).
    destruct (dec_val d <=? max_width fam) eqn:E; [|lia].
    destruct (sp_ports sp) as [[f [l|]]|]; cbn [opt_int or_else].
    + apply andb_true_iff in Hsp. destruct Hsp as [Hf Hl].
      rewrite (py_int_short f Hf), (py_int_short l Hl). reflexivity.
    + rewrite (py_int_short f Hsp). reflexivity.
    + reflexivity.
  - destruct (sp_ports sp) as [[f [l|]]|]; cbn [opt_int or_else].
    + apply andb_true_iff in Hsp. destruct Hsp as [Hf Hl].
      rewrite (py_int_short f Hf), (py_int_short l Hl). reflexivity.
    + rewrite (py_int_short f Hsp). reflexivity.
    + reflexivity.
Qed.

Lemma subnet_roundtrip_gen r6 rs sp text fam addr :
  subnet_groups_gen r6 text = Some (sp_host sp, sp_width sp, spec_fport sp, spec_lport sp) ->
  spec_short sp = true ->
  getaddrinfo rs (sp_host sp) = Ok [(fam, addr)] ->
  (match sp_width sp with None => True | Some d => dec_val d <= max_width fam end) ->
  parse_subnetport_gen r6 rs text =
  Ok [(fam, addr, spec_width_val fam sp, spec_fport_val sp, spec_lport_val sp)].
Proof.
  intros Hg Hs Ha Hw.
  rewrite (parse_subnetport_single r6 rs text _ _ _ _ fam addr Hg Ha).
  cbn [subnet_entries]. rewrite (subnet_entry_spec sp fam addr Hs Hw). reflexivity.
Qed.

Lemma subnet_roundtrip4 rs sp fam addr :
  host4_ok (sp_host sp) = true -> spec_ok sp = true -> spec_short sp = true ->
  getaddrinfo rs (sp_host sp) = Ok [(fam, addr)] ->
  (match sp_width sp with None => True | Some d => dec_val d <= max_width fam end) ->
  parse_subnetport rs (render4 sp) =
  Ok [(fam, addr, spec_width_val fam sp, spec_fport_val sp, spec_lport_val sp)].
Proof.
  intros Hh Hok Hs Ha Hw.
  exact (subnet_roundtrip_gen rx6 rs sp _ fam addr (groups4_render rx6 sp Hh Hok) Hs Ha Hw).
Qed.

Lemma subnet_roundtrip6 rs sp fam addr :
  host6_ok (sp_host sp) = true -> spec_ok sp = true -> spec_short sp = true ->
  getaddrinfo rs (sp_host sp) = Ok [(fam, addr)] ->
  (match sp_width sp with None => True | Some d => dec_val d <= max_width fam end) ->
  parse_subnetport rs (render6 sp) =
  Ok [(fam, addr, spec_width_val fam sp, spec_fport_val sp, spec_lport_val sp)].
Proof.
  intros Hh Hok Hs Ha Hw.
  exact (subnet_roundtrip_gen rx6 rs sp _ fam addr (groups6_render sp Hh Hok) Hs Ha Hw).
Qed.

(* a name that resolves to several addresses: every address, same width/ports *)
Lemma subnet_entries_map sp ai :
  spec_short sp = true ->
  (forall a, In a ai -> match sp_width sp with None => True | Some d => dec_val d <= max_width (fst a) end) ->
  subnet_entries (sp_width sp) (spec_fport sp) (spec_lport sp) ai =
  Ok (map (fun a => (fst a, snd a, spec_width_val (fst a) sp, spec_fport_val sp, spec_lport_val sp)) ai).
Proof.
  intros Hs. induction ai as [|[fam addr] ai IH]; intros Hw; [reflexivity|].
  cbn [subnet_entries map fst snd].
  rewrite (subnet_entry_spec sp fam addr Hs (Hw (fam, addr) (or_introl eq_refl))).
  rewrite IH; [reflexivity|]. intros a Ha. apply Hw. right. exact Ha.
Qed.

(* ------------------------------------------------------------------ *)
(* width outside the family's range                                    *)

Lemma subnet_entries_bad_width d fp lp a t :
  max_width (fst a) < dec_val d ->
  exists e, subnet_entries (Some d) fp lp (a :: t) = Raise e /\ argparse_catches e = true.
Proof.
  intros Hw. destruct a as [fam addr]. cbn [fst] in Hw. cbn [subnet_entries subnet_entry].
  unfold py_int. destruct (MAX_STR_DIGITS <? lenN d).
  - exists EValue. split; reflexivity.
  - destruct (dec_val d <=? max_width fam) eqn:E; [lia|].
    exists (EArgType MsgWidth). split; reflexivity.
Qed.

Lemma width_range_gen r6 rs s host d fp lp a t :
  subnet_groups_gen r6 s = Some (host, Some d, fp, lp) ->
  getaddrinfo rs host = Ok (a :: t) ->
  max_width (fst a) < dec_val d ->
  argparse_type (parse_subnetport_gen r6 rs s) = OUsage.
Proof.
  intros Hg Ha Hw. unfold parse_subnetport_gen. rewrite Hg, Ha.
  destruct (existsb _ (a :: t) && existsb _ (a :: t)); [reflexivity|].
  destruct (subnet_entries_bad_width d fp lp a t Hw) as (e & -> & He).
  cbn [argparse_type]. rewrite He. reflexivity.
Qed.

(* ------------------------------------------------------------------ *)
(* parse_hostport raises nothing but ValueError                        *)

Lemma url_port_exn p e : url_port p = Raise e -> e = EValue.
Proof.
  destruct p as [t|]; cbn [url_port]; [|discriminate].
  destruct (forallb is_digit t); [|intros [= <-]; reflexivity].
  unfold py_int. destruct (MAX_STR_DIGITS <? lenN t); [intros [= <-]; reflexivity|].
  destruct (dec_val t <=? 65535); [discriminate|intros [= <-]; reflexivity].
Qed.

Lemma url_hostinfo_exn h e : url_hostinfo h = Raise e -> e = EValue.
Proof.
  unfold url_hostinfo.
  destruct (xorb _ _); [intros [= <-]; reflexivity|].
  destruct (partition_on "[" _) as [[x have_br] bracketed].
  destruct (if have_br then _ else _) as [hostname porttxt].
  destruct (_ && negb _); [intros [= <-]; reflexivity|discriminate].
Qed.

Lemma host_part_exn h e : host_part h = Raise e -> e = EValue.
Proof.
  unfold host_part. destruct (mem_char ":" h); [|discriminate].
  destruct (py_ip_str h); [discriminate|].
  destruct (url_hostinfo h) as [[hn ptxt]|e'] eqn:E.
  - destruct (url_port ptxt) eqn:Ep; [discriminate|]. intros [= <-]. exact (url_port_exn _ _ Ep).
  - intros [= <-]. exact (url_hostinfo_exn _ _ E).
Qed.

Lemma parse_hostport_exn s e : parse_hostport s = Raise e -> e = EValue.
Proof.
  unfold parse_hostport. destruct s as [|c s]; [discriminate|].
  destruct (match rsplit_last "@" (c :: s) with Some _ => _ | None => _ end) as [user0 host0].
  destruct (match user0 with Some _ => _ | None => _ end) as [user pass].
  destruct (host_part host0) as [[port host]|e'] eqn:E; [discriminate|].
  intros [= <-]. exact (host_part_exn _ _ E).
Qed.

(* ------------------------------------------------------------------ *)
(* command line over environment                                       *)

Lemma last_value_app d cur a b :
  last_value d cur (a ++ b) = last_value d (last_value d cur a) b.
Proof.
  revert cur. induction a as [|[k v] a IH]; intros cur; [reflexivity|].
  cbn [app last_value]. apply IH.
Qed.

Lemma last_value_absent d cur a : ~ In d (map fst a) -> last_value d cur a = cur.
Proof.
  revert cur. induction a as [|[k v] a IH]; intros cur H; [reflexivity|].
  cbn [last_value]. cbn [map fst In] in H.
  destruct (bytes_eqb k d) eqn:E.
  - apply bytes_eqb_eq in E. tauto.
  - apply IH. tauto.
Qed.

Lemma last_value_present d c1 c2 a : In d (map fst a) -> last_value d c1 a = last_value d c2 a.
Proof.
  revert c1 c2. induction a as [|[k v] a IH]; intros c1 c2 H; [destruct H|].
  cbn [last_value]. destruct (bytes_eqb k d) eqn:E; [reflexivity|].
  apply IH. cbn [map fst In] in H. destruct H as [H|H]; [|exact H].
  subst. rewrite bytes_eqb_refl in E. discriminate.
Qed.

Lemma cli_overrides_env d env cli :
  In d (map fst cli) -> effective d (merge_args env cli) = effective d cli.
Proof.
  intros H. unfold effective, merge_args. rewrite last_value_app. apply last_value_present. exact H.
Qed.

Lemma env_used_when_cli_silent d env cli :
  ~ In d (map fst cli) -> effective d (merge_args env cli) = effective d env.
Proof.
  intros H. unfold effective, merge_args. rewrite last_value_app. apply last_value_absent. exact H.
Qed.

Lemma effective_is_last d a v b :
  ~ In d (map fst b) -> effective d (a ++ (d, v) :: b) = Some v.
Proof.
  intros H. unfold effective. rewrite last_value_app. cbn [last_value].
  rewrite bytes_eqb_refl. apply last_value_absent. exact H.
Qed.

(* ------------------------------------------------------------------ *)
(* split / partition                                                   *)

Lemma split_on_lacks c a : lacks c a = true -> split_on c a = [a].
Proof.
  induction a as [|x a IH]; intros H; [reflexivity|].
  cbn [lacks forallb] in H. apply andb_true_iff in H. destruct H as [Hx Ha].
  apply negb_true_iff in Hx. cbn [split_on]. rewrite Hx. rewrite (IH Ha). reflexivity.
Qed.

Lemma split_on_app_sep c a r : lacks c a = true -> split_on c (a ++ c :: r) = a :: split_on c r.
Proof.
  induction a as [|x a IH]; intros H.
  - cbn [app split_on]. rewrite Ascii.eqb_refl. reflexivity.
  - cbn [lacks forallb] in H. apply andb_true_iff in H. destruct H as [Hx Ha].
    apply negb_true_iff in Hx. cbn [app split_on]. rewrite Hx. rewrite (IH Ha). reflexivity.
Qed.

Lemma partition_on_app c x y : lacks c x = true -> partition_on c (x ++ c :: y) = (x, true, y).
Proof.
  induction x as [|k x IH]; intros H.
  - cbn [app partition_on]. rewrite Ascii.eqb_refl. reflexivity.
  - cbn [lacks forallb] in H. apply andb_true_iff in H. destruct H as [Hk Hx].
    apply negb_true_iff in Hk. cbn [app partition_on]. rewrite Hk. rewrite (IH Hx). reflexivity.
Qed.

Lemma partition_on_lacks c x : lacks c x = true -> partition_on c x = (x, false, []).
Proof.
  induction x as [|k x IH]; intros H; [reflexivity|].
  cbn [lacks forallb] in H. apply andb_true_iff in H. destruct H as [Hk Hx].
  apply negb_true_iff in Hk. cbn [partition_on]. rewrite Hk. rewrite (IH Hx). reflexivity.
Qed.

Lemma lacks_rev c l : lacks c l = true -> lacks c (rev l) = true.
Proof.
  unfold lacks. rewrite !forallb_forall. intros H x Hx. apply H. apply in_rev. exact Hx.
Qed.

Lemma rsplit_last_app c a b : lacks c b = true -> rsplit_last c (a ++ c :: b) = Some (a, b).
Proof.
  intros H. unfold rsplit_last.
  rewrite rev_app_distr. cbn [rev]. rewrite <- app_assoc. cbn [app].
  rewrite (partition_on_app c (rev b) (rev a) (lacks_rev c b H)).
  rewrite !rev_involutive. reflexivity.
Qed.

Lemma rsplit_last_lacks c s : lacks c s = true -> rsplit_last c s = None.
Proof.
  intros H. unfold rsplit_last. rewrite (partition_on_lacks c (rev s) (lacks_rev c s H)). reflexivity.
Qed.

Lemma lacks_mem c l : lacks c l = true -> mem_char c l = false.
Proof.
  induction l as [|x l IH]; intros H; [reflexivity|].
  cbn [lacks forallb] in H. apply andb_true_iff in H. destruct H as [Hx Hl].
  apply negb_true_iff in Hx. cbn [mem_char existsb].
  replace (Ascii.eqb c x) with false; [exact (IH Hl)|].
  symmetry. rewrite Ascii.eqb_sym. exact Hx.
Qed.

Lemma class_lacks p c l : p c = false -> forallb p l = true -> lacks c l = true.
Proof.
  intros Hc H. unfold lacks. rewrite forallb_forall in *. intros x Hx.
  apply negb_true_iff. exact (class_not_char p c x Hc (H x Hx)).
Qed.

(* ------------------------------------------------------------------ *)
(* parse_hostport: user, password, host                                *)

Lemma host_part_plain h : lacks ":" h = true -> host_part h = Ok (None, Some h).
Proof. intros H. unfold host_part. rewrite (lacks_mem ":" h H). reflexivity. Qed.

Definition with_user (u : option bytes) (pw : option bytes) (r : res (option N * option bytes))
  : res hostport :=
  match r with
  | Raise e => Raise e
  | Ok (port, host) => Ok (u, pw, port, host)
  end.

Lemma hostport_user_pass u pw hp :
  lacks ":" u = true -> lacks "@" hp = true ->
  parse_hostport (u ++ ":" :: pw ++ "@" :: hp) =
  with_user (Some u) (if nonempty pw then Some pw else None) (host_part hp).
Proof.
  intros Hu Hh. unfold parse_hostport.
  destruct (u ++ ":" :: pw ++ "@" :: hp) as [|c l] eqn:E.
  - apply app_eq_nil in E. destruct E as [_ E]. discriminate.
  - rewrite <- E.
    replace (u ++ ":" :: pw ++ "@" :: hp) with ((u ++ ":" :: pw) ++ "@" :: hp)
      by (rewrite <- app_assoc; reflexivity).
    rewrite (rsplit_last_app "@" (u ++ ":" :: pw) hp Hh).
    rewrite (partition_on_app ":" u pw Hu).
    unfold with_user. destruct pw; reflexivity.
Qed.

Lemma hostport_user u hp :
  lacks ":" u = true -> lacks "@" hp = true ->
  parse_hostport (u ++ "@" :: hp) = with_user (Some u) None (host_part hp).
Proof.
  intros Hu Hh. unfold parse_hostport.
  destruct (u ++ "@" :: hp) as [|c l] eqn:E.
  - apply app_eq_nil in E. destruct E as [_ E]. discriminate.
  - rewrite <- E. rewrite (rsplit_last_app "@" u hp Hh).
    rewrite (partition_on_lacks ":" u Hu). reflexivity.
Qed.

Lemma hostport_nouser hp :
  nonempty hp = true -> lacks "@" hp = true ->
  parse_hostport hp = with_user None None (host_part hp).
Proof.
  intros Hn Hh. unfold parse_hostport. destruct hp as [|c l]; [discriminate|].
  rewrite (rsplit_last_lacks "@" (c :: l) Hh). reflexivity.
Qed.

(* ------------------------------------------------------------------ *)
(* parse_ipport                                                        *)

Lemma forallb_app_false {A} (p : A -> bool) a x b : p x = false -> forallb p (a ++ x :: b) = false.
Proof.
  intros H. rewrite forallb_app. cbn [forallb]. rewrite H. cbn. apply andb_false_r.
Qed.

Lemma mem_char_app c a b : mem_char c (a ++ b) = mem_char c a || mem_char c b.
Proof. unfold mem_char. apply existsb_app. Qed.

Lemma name4_inv h : name4_ok h = true -> nonempty h = true /\ forallb is_host4 h = true.
Proof. unfold name4_ok. intros H. apply andb_true_iff in H. exact H. Qed.

Lemma ipport_groups_plain h p :
  name4_ok h = true -> digits_ok p = true -> ipport_groups (h ++ ":" :: p) = Some (h, Some p).
Proof.
  intros Hh Hp. destruct (name4_inv h Hh) as [Hn Ha]. destruct (digits_ok_inv p Hp) as [Hnp Hap].
  unfold ipport_groups. rewrite (forallb_app_false is_digit h ":" p eq_refl). rewrite andb_false_r.
  rewrite mem_char_app. rewrite (lacks_mem "]" h (class_lacks is_host4 "]" h eq_refl Ha)).
  cbn [mem_char existsb orb]. change (Ascii.eqb "]" ":") with false. cbn [orb].
  fold (mem_char "]" p). rewrite (lacks_mem "]" p (class_lacks is_digit "]" p eq_refl Hap)).
  unfold rx_ip_plain. rewrite (span_app is_host4 h (":" :: p) Ha eq_refl). cbn [fst snd]. rewrite Hn.
  unfold opt_colon_digits. rewrite <- (app_nil_r p) at 1.
  rewrite (opt_char_digits_hit ":" p [] Hp I). reflexivity.
Qed.

Lemma ipport_groups_host h :
  name4_ok h = true -> forallb is_digit h = false -> ipport_groups h = Some (h, None).
Proof.
  intros Hh Hd. destruct (name4_inv h Hh) as [Hn Ha].
  unfold ipport_groups. rewrite Hd, andb_false_r.
  rewrite (lacks_mem "]" h (class_lacks is_host4 "]" h eq_refl Ha)).
  unfold rx_ip_plain. rewrite (span_all is_host4 h Ha). cbn [fst snd]. rewrite Hn.
  unfold opt_colon_digits. rewrite (opt_char_digits_miss ":" [] I). reflexivity.
Qed.

Lemma ipport_groups_port p : digits_ok p = true -> ipport_groups p = Some ([], Some p).
Proof. intros Hp. unfold ipport_groups. unfold digits_ok in Hp. rewrite Hp. reflexivity. Qed.

Lemma ipport_groups_bracket h p :
  nonempty h = true -> lacks "]" h = true -> ports_ok (option_map (fun d => (d, None)) p) = true ->
  ipport_groups ("[" :: h ++ "]" :: match p with Some d => ":" :: d | None => [] end) = Some (h, p).
Proof.
  intros Hn Hl Hp. unfold ipport_groups.
  cbn [forallb]. change (is_digit "[") with false. cbn [andb]. rewrite andb_false_r.
  cbn [mem_char existsb]. change (Ascii.eqb "]" "[") with false. cbn [orb].
  fold (mem_char "]" (h ++ "]" :: match p with Some d => ":" :: d | None => [] end)).
  rewrite mem_char_app. cbn [mem_char existsb]. rewrite Ascii.eqb_refl. cbn [orb]. rewrite orb_true_r.
  unfold rx_ip_bracket. rewrite strip_char_hit.
  rewrite (span_app (fun c => negb (Ascii.eqb c "]")) h _ Hl); [|reflexivity].
  cbn [fst snd]. rewrite Hn. rewrite strip_char_hit.
  destruct p as [d|]; cbn [option_map ports_ok] in Hp.
  - unfold opt_colon_digits. rewrite <- (app_nil_r d) at 1.
    rewrite (opt_char_digits_hit ":" d [] Hp I). reflexivity.
  - reflexivity.
Qed.

Lemma gai_port_small n : n <= 65535 -> gai_port n = Some n.
Proof.
  intros H. unfold gai_port.
  destruct (18446744073709551615 <? n) eqn:E1; [lia|].
  rewrite (N.mod_small n 4294967296) by lia.
  destruct (2147483647 <? n) eqn:E2; [lia|].
  rewrite (N.mod_small n 65536) by lia. reflexivity.
Qed.

Lemma parse_ipport_single rs s h p fam addr :
  ipport_groups s = Some (h, p) -> nonempty h = true ->
  match p with Some d => short d = true /\ dec_val d <= 65535 | None => True end ->
  getaddrinfo rs h = Ok [(fam, addr)] ->
  parse_ipport rs s = Ok (fam, addr, match p with Some d => dec_val d | None => 0 end).
Proof.
  intros Hg Hn Hp Ha. unfold parse_ipport. rewrite Hg, Hn.
  destruct p as [d|]; cbn [opt_int].
  - destruct Hp as [Hs Hv]. rewrite (py_int_short d Hs). rewrite Ha.
    rewrite (gai_port_small _ Hv). reflexivity.
  - rewrite Ha. reflexivity.
Qed.

Lemma parse_ipport_portonly rs p :
  digits_ok p = true -> short p = true -> dec_val p <= 65535 ->
  parse_ipport rs p = Ok (AF_INET, ANY4, dec_val p).
Proof.
  intros Hp Hs Hv. unfold parse_ipport. rewrite (ipport_groups_port p Hp).
  cbn [nonempty opt_int]. rewrite (py_int_short p Hs).
  replace (getaddrinfo rs ANY4) with (Ok [(AF_INET, ANY4)] : res (list (N * bytes)))
    by (vm_compute; reflexivity).
  rewrite (gai_port_small _ Hv). reflexivity.
Qed.

(* ------------------------------------------------------------------ *)
(* IPv4: every numbers-and-dots spelling prints as the dotted quad of  *)
(* its value, and the dotted quad is a fixed point                     *)

Definition octets : list N := map N.of_nat (seq 0 256).

Lemma in_octets n : n < 256 -> In n octets.
Proof.
  intros H. unfold octets. rewrite <- (N2Nat.id n). apply in_map. apply in_seq. lia.
Qed.

Definition octet_check (n : N) : bool :=
  match c_number (dec3 n), strict_octet (dec3 n) with
  | Some a, Some b => (a =? n) && (b =? n) && lacks "." (dec3 n) && (lenN (dec3 n) <? 64)
  | _, _ => false
  end.

Lemma octet_sweep : forallb octet_check octets = true.
Proof. vm_compute. reflexivity. Qed.

Lemma octet_facts n : n < 256 ->
  c_number (dec3 n) = Some n /\ strict_octet (dec3 n) = Some n /\
  lacks "." (dec3 n) = true /\ lenN (dec3 n) < 64.
Proof.
  intros H. pose proof (proj1 (forallb_forall _ _) octet_sweep n (in_octets n H)) as Hc.
  unfold octet_check in Hc.
  destruct (c_number (dec3 n)) as [a|]; [|discriminate].
  destruct (strict_octet (dec3 n)) as [b|]; [|discriminate].
  apply andb_true_iff in Hc. destruct Hc as [Hc H4].
  apply andb_true_iff in Hc. destruct Hc as [Hc H3].
  apply andb_true_iff in Hc. destruct Hc as [H1 H2].
  apply N.eqb_eq in H1. apply N.eqb_eq in H2. subst. repeat split; try assumption. lia.
Qed.

Ltac Zify.zify_post_hook ::= Z.to_euclidean_division_equations.

Lemma v4_octet_bounds v : v < 4294967296 ->
  v / 16777216 < 256 /\ (v / 65536) mod 256 < 256 /\ (v / 256) mod 256 < 256 /\ v mod 256 < 256 /\
  v / 16777216 * 16777216 + (v / 65536) mod 256 * 65536 + (v / 256) mod 256 * 256 + v mod 256 = v.
Proof. intros H. lia. Qed.

Lemma print_v4_split v : v < 4294967296 ->
  split_on "." (print_v4 v) =
  [dec3 (v / 16777216); dec3 ((v / 65536) mod 256); dec3 ((v / 256) mod 256); dec3 (v mod 256)].
Proof.
  intros H. destruct (v4_octet_bounds v H) as (Ha & Hb & Hc & Hd & _).
  destruct (octet_facts _ Ha) as (_ & _ & La & _). destruct (octet_facts _ Hb) as (_ & _ & Lb & _).
  destruct (octet_facts _ Hc) as (_ & _ & Lc & _). destruct (octet_facts _ Hd) as (_ & _ & Ld & _).
  unfold print_v4.
  rewrite (split_on_app_sep "." _ _ La), (split_on_app_sep "." _ _ Lb),
          (split_on_app_sep "." _ _ Lc), (split_on_lacks "." _ Ld). reflexivity.
Qed.

Lemma inet_aton_print_v4 v : v < 4294967296 -> inet_aton (print_v4 v) = Some v.
Proof.
  intros H. destruct (v4_octet_bounds v H) as (Ha & Hb & Hc & Hd & Hv).
  destruct (octet_facts _ Ha) as (Ca & _). destruct (octet_facts _ Hb) as (Cb & _).
  destruct (octet_facts _ Hc) as (Cc & _). destruct (octet_facts _ Hd) as (Cd & _).
  unfold inet_aton. rewrite (print_v4_split v H). cbn [map]. rewrite Ca, Cb, Cc, Cd.
  replace ((v / 16777216 <=? 255) && ((v / 65536) mod 256 <=? 255) &&
           ((v / 256) mod 256 <=? 255) && (v mod 256 <=? 255)) with true.
  - f_equal. exact Hv.
  - symmetry. repeat (apply andb_true_iff; split); apply N.leb_le; lia.
Qed.

Lemma parse_v4_strict_print_v4 v : v < 4294967296 -> parse_v4_strict (print_v4 v) = Some v.
Proof.
  intros H. destruct (v4_octet_bounds v H) as (Ha & Hb & Hc & Hd & Hv).
  destruct (octet_facts _ Ha) as (_ & Ca & _). destruct (octet_facts _ Hb) as (_ & Cb & _).
  destruct (octet_facts _ Hc) as (_ & Cc & _). destruct (octet_facts _ Hd) as (_ & Cd & _).
  unfold parse_v4_strict. rewrite (print_v4_split v H). cbn [map]. rewrite Ca, Cb, Cc, Cd.
  f_equal. exact Hv.
Qed.

Lemma idna_print_v4 v : v < 4294967296 -> idna_labels_ok (split_on "." (print_v4 v)) = true.
Proof.
  intros H. destruct (v4_octet_bounds v H) as (Ha & Hb & Hc & Hd & _).
  destruct (octet_facts _ Ha) as (Ca & _ & _ & La). destruct (octet_facts _ Hb) as (Cb & _ & _ & Lb).
  destruct (octet_facts _ Hc) as (Cc & _ & _ & Lc). destruct (octet_facts _ Hd) as (Cd & _ & _ & Ld).
  rewrite (print_v4_split v H). cbn [idna_labels_ok].
  assert (P : forall n, c_number (dec3 n) = Some n -> 0 <? lenN (dec3 n) = true).
  { intros n Hn. destruct (dec3 n); [discriminate|]. rewrite lenN_cons. apply N.ltb_lt. lia. }
  rewrite (P _ Ca), (P _ Cb), (P _ Cc).
  repeat (apply andb_true_iff; split); try reflexivity; apply N.ltb_lt; assumption.
Qed.

Lemma inet_aton_range s v : inet_aton s = Some v -> v < 4294967296.
Proof.
  unfold inet_aton.
  destruct (map c_number (split_on "." s)) as [|[a|] [|[b|] [|[c|] [|[d|] [|x l]]]]]; try discriminate.
  - destruct (a <=? 4294967295) eqn:E; [|discriminate]. intros [= <-]. lia.
  - destruct ((a <=? 255) && (b <=? 16777215)) eqn:E; [|discriminate]. intros [= <-]. lia.
  - destruct ((a <=? 255) && (b <=? 255) && (c <=? 65535)) eqn:E; [|discriminate]. intros [= <-]. lia.
  - destruct ((a <=? 255) && (b <=? 255) && (c <=? 255) && (d <=? 255)) eqn:E; [|discriminate].
    intros [= <-]. lia.
Qed.

Lemma getaddrinfo_v4 rs s v :
  inet_aton s = Some v -> idna_labels_ok (split_on "." s) = true ->
  getaddrinfo rs s = Ok [(AF_INET, print_v4 v)].
Proof. intros Ha Hi. unfold getaddrinfo. rewrite Hi, Ha. reflexivity. Qed.

(* the dotted quad is a fixed point of the resolver: canonical *)
Lemma getaddrinfo_print_v4 rs v : v < 4294967296 ->
  getaddrinfo rs (print_v4 v) = Ok [(AF_INET, print_v4 v)].
Proof.
  intros H. exact (getaddrinfo_v4 rs _ v (inet_aton_print_v4 v H) (idna_print_v4 v H)).
Qed.

(* spellings *)
Lemma c_number_part p : part_ok p = true -> c_number (part_text p) = Some (part_val p).
Proof.
  destruct p as [r ds]. unfold part_ok, part_text, part_val. cbn [fst snd]. destruct r as [|u|].
  - intros H. apply andb_true_iff in H. destruct H as [Hd Hz].
    destruct (digits_ok_inv ds Hd) as [Hn Ha]. destruct ds as [|c t]; [discriminate|].
    cbn [c_number]. destruct (Ascii.eqb c "0") eqn:E.
    + destruct t as [|x t].
      * apply Ascii.eqb_eq in E. subst c. reflexivity.
      * unfold ZERO in Hz. rewrite E in Hz. discriminate.
    + rewrite Ha. reflexivity.
  - intros H. unfold ZERO. cbn [c_number]. change (Ascii.eqb "0" "0") with true. cbv iota.
    replace (Ascii.eqb (if u then X_UP else X_LO) "x" || Ascii.eqb (if u then X_UP else X_LO) "X") with true
      by (destruct u; reflexivity).
    rewrite H. reflexivity.
  - intros H. unfold ZERO. cbn [c_number]. change (Ascii.eqb "0" "0") with true. cbv iota.
    destruct ds as [|x t]; [reflexivity|].
    pose proof H as H'. cbn [forallb] in H'. apply andb_true_iff in H'. destruct H' as [Hx _].
    rewrite (class_not_char is_oct "x" x eq_refl Hx), (class_not_char is_oct "X" x eq_refl Hx).
    cbn [orb]. rewrite H. reflexivity.
Qed.

Lemma part_text_lacks_dot p : part_ok p = true -> lacks "." (part_text p) = true.
Proof.
  destruct p as [r ds]. unfold part_ok, part_text. cbn [fst snd]. destruct r as [|u|]; intros H.
  - apply andb_true_iff in H. destruct H as [Hd _]. destruct (digits_ok_inv ds Hd) as [_ Ha].
    exact (class_lacks is_digit "." ds eq_refl Ha).
  - apply andb_true_iff in H. destruct H as [_ Ha].
    cbn [lacks forallb]. fold (lacks "." ds). rewrite (class_lacks is_hex "." ds eq_refl Ha).
    destruct u; reflexivity.
  - cbn [lacks forallb]. fold (lacks "." ds). rewrite (class_lacks is_oct "." ds eq_refl H). reflexivity.
Qed.

Lemma split_join_dot (ts : list bytes) :
  ts <> [] -> Forall (fun t => lacks "." t = true) ts -> split_on "." (join DOT ts) = ts.
Proof.
  induction ts as [|a ts IH]; intros Hne Hf; [congruence|].
  inversion Hf as [|? ? Ha Hts]; subst.
  destruct ts as [|b ts].
  - cbn [join]. exact (split_on_lacks "." a Ha).
  - change (join DOT (a :: b :: ts)) with (a ++ DOT ++ join DOT (b :: ts)).
    unfold DOT at 1. cbn [app]. rewrite (split_on_app_sep "." a _ Ha).
    rewrite IH; [reflexivity|discriminate|exact Hts].
Qed.

Lemma inet_aton_spelling ps :
  Forall (fun p => part_ok p = true) ps -> inet_aton (spelling_text ps) = spelling_val ps.
Proof.
  intros Hf. destruct ps as [|p0 ps0] eqn:Eps.
  - reflexivity.
  - rewrite <- Eps in *. unfold inet_aton, spelling_text, spelling_val.
    rewrite split_join_dot.
    + rewrite map_map.
      replace (map (fun x => c_number (part_text x)) ps) with (map Some (map part_val ps)).
      * destruct (map part_val ps) as [|a [|b [|c [|d [|x l]]]]]; reflexivity.
      * rewrite map_map. apply map_ext_in. intros p Hp. symmetry. apply c_number_part.
        exact (proj1 (Forall_forall _ _) Hf p Hp).
    + rewrite Eps. discriminate.
    + apply Forall_forall. intros t Ht. apply in_map_iff in Ht. destruct Ht as (p & <- & Hp).
      apply part_text_lacks_dot. exact (proj1 (Forall_forall _ _) Hf p Hp).
Qed.

(* ================================================================== *)
(* IPv6 printers against the reader, for ARBITRARY word values:        *)
(* both printers are ':'.join(parts); the reader is followed part by   *)
(* part; the eight words are then swept symbolically over the 256      *)
(* zero / non-zero masks (x ffff in word 5 for glibc's dotted tail).   *)

(* ------------------------------------------------------------------ *)
(* "%x" of a 16-bit word and its reader                                *)

Lemma cN_ascii n : n < 256 -> cN (ascii_of_N n) = n.
Proof. intros H. unfold cN. apply N_ascii_embedding. exact H. Qed.

Lemma hchar_facts d : d < 16 -> is_hex (hchar d) = true /\ hex_digit_val (hchar d) = d.
Proof.
  intros H. unfold hchar. destruct (d <? 10) eqn:E.
  - assert (Hd : is_digit (ascii_of_N (48 + d)) = true).
    { unfold is_digit, in_range. rewrite cN_ascii by lia. lia. }
    unfold is_hex, hex_digit_val. rewrite Hd. split; [reflexivity|]. rewrite cN_ascii by lia. lia.
  - assert (Hd : is_digit (ascii_of_N (87 + d)) = false).
    { unfold is_digit, in_range. rewrite cN_ascii by lia. lia. }
    assert (Hu : in_range 65 70 (ascii_of_N (87 + d)) = false).
    { unfold in_range. rewrite cN_ascii by lia. lia. }
    assert (Hl : in_range 97 102 (ascii_of_N (87 + d)) = true).
    { unfold in_range. rewrite cN_ascii by lia. lia. }
    unfold is_hex, hex_digit_val. rewrite Hd, Hu, Hl. split; [reflexivity|]. rewrite cN_ascii by lia. lia.
Qed.

Lemma hex4_facts n : n < 65536 ->
  forallb is_hex (hex4 n) = true /\ nonempty (hex4 n) = true /\
  (lenN (hex4 n) <=? 4) = true /\ hex_val (hex4 n) = n.
Proof.
  intros H. unfold hex4.
  destruct (n <? 16) eqn:E1; [|destruct (n <? 256) eqn:E2; [|destruct (n <? 4096) eqn:E3]].
  - destruct (hchar_facts n ltac:(lia)) as [A B].
    cbn [forallb nonempty]. rewrite A. unfold hex_val. cbn [horner]. rewrite B.
    repeat split; lia.
  - destruct (hchar_facts (n / 16) ltac:(lia)) as [A1 B1].
    destruct (hchar_facts (n mod 16) ltac:(lia)) as [A2 B2].
    cbn [forallb nonempty]. rewrite A1, A2. unfold hex_val. cbn [horner]. rewrite B1, B2.
    repeat split; lia.
  - destruct (hchar_facts (n / 256) ltac:(lia)) as [A1 B1].
    destruct (hchar_facts ((n / 16) mod 16) ltac:(lia)) as [A2 B2].
    destruct (hchar_facts (n mod 16) ltac:(lia)) as [A3 B3].
    cbn [forallb nonempty]. rewrite A1, A2, A3. unfold hex_val. cbn [horner]. rewrite B1, B2, B3.
    repeat split; lia.
  - destruct (hchar_facts (n / 4096) ltac:(lia)) as [A1 B1].
    destruct (hchar_facts ((n / 256) mod 16) ltac:(lia)) as [A2 B2].
    destruct (hchar_facts ((n / 16) mod 16) ltac:(lia)) as [A3 B3].
    destruct (hchar_facts (n mod 16) ltac:(lia)) as [A4 B4].
    cbn [forallb nonempty]. rewrite A1, A2, A3, A4. unfold hex_val. cbn [horner]. rewrite B1, B2, B3, B4.
    repeat split; lia.
Qed.

Lemma hextet_hex4 n : n < 65536 -> hextet (hex4 n) = HVal n.
Proof.
  intros H. destruct (hex4_facts n H) as (A & B & C & D).
  unfold hextet. destruct (hex4 n) as [|c t] eqn:E; [discriminate|].
  rewrite A, C, D. reflexivity.
Qed.

Lemma hex4_lacks c n : is_hex c = false -> n < 65536 -> lacks c (hex4 n) = true.
Proof.
  intros Hc H. destruct (hex4_facts n H) as (A & _). exact (class_lacks is_hex c _ Hc A).
Qed.

(* ------------------------------------------------------------------ *)
(* the dotted quad as the tail of an IPv6 text                         *)

Lemma strict_octet_digits p v : strict_octet p = Some v -> forallb is_digit p = true.
Proof.
  unfold strict_octet. destruct (nonempty p); [|discriminate].
  destruct (forallb is_digit p); [reflexivity|discriminate].
Qed.

Lemma dec3_digits n : n < 256 -> forallb is_digit (dec3 n) = true.
Proof. intros H. destruct (octet_facts n H) as (_ & S & _). exact (strict_octet_digits _ _ S). Qed.

Lemma lacks_app c a b : lacks c (a ++ b) = lacks c a && lacks c b.
Proof. unfold lacks. apply forallb_app. Qed.

Lemma lacks_cons c x a : lacks c (x :: a) = negb (Ascii.eqb x c) && lacks c a.
Proof. reflexivity. Qed.

Lemma print_v4_lacks_colon v : v < 4294967296 -> lacks ":" (print_v4 v) = true.
Proof.
  intros H. destruct (v4_octet_bounds v H) as (Ha & Hb & Hc & Hd & _).
  unfold print_v4. rewrite !lacks_app, !lacks_cons, !lacks_app, !lacks_cons, !lacks_app, !lacks_cons.
  rewrite (class_lacks is_digit ":" _ eq_refl (dec3_digits _ Ha)),
          (class_lacks is_digit ":" _ eq_refl (dec3_digits _ Hb)),
          (class_lacks is_digit ":" _ eq_refl (dec3_digits _ Hc)),
          (class_lacks is_digit ":" _ eq_refl (dec3_digits _ Hd)). reflexivity.
Qed.

Lemma print_v4_has_dot v : mem_char "." (print_v4 v) = true.
Proof.
  unfold print_v4. rewrite mem_char_app. cbn [mem_char existsb].
  rewrite Ascii.eqb_refl. cbn [orb]. apply orb_true_r.
Qed.

(* ------------------------------------------------------------------ *)
(* the printers as ':'.join(parts)                                     *)

Inductive vpart :=
| VG (g : N)              (* a word, printed %x *)
| VE                      (* '' : the artefact of '::' *)
| V4 (hi lo : N).         (* dotted quad standing for the last two words *)

Definition vrender (p : vpart) : bytes :=
  match p with
  | VG g => hex4 g
  | VE => []
  | V4 hi lo => print_v4 (hi * 65536 + lo)
  end.

Definition vside (l : list N) : list vpart := match l with [] => [VE] | _ => map VG l end.

Definition shape (embed : bool) (ws : list N) : list vpart :=
  match best_run ws with
  | None => map VG ws
  | Some (b, l) =>
    if embed && Nat.eqb b 0 && (Nat.eqb l 6 || (Nat.eqb l 5 && (nth 5 ws 0 =? 65535)))
    then VE :: VE :: (if Nat.eqb l 5 then [VG 65535] else []) ++ [V4 (nth 6 ws 0) (nth 7 ws 0)]
    else vside (firstn b ws) ++ VE :: vside (skipn (b + l) ws)
  end.

Lemma join_app sep (a b : list bytes) : a <> [] -> b <> [] ->
  join sep (a ++ b) = join sep a ++ sep ++ join sep b.
Proof.
  intros Ha Hb. induction a as [|x a IH]; [congruence|].
  destruct a as [|y a].
  - cbn [app]. destruct b as [|z b]; [congruence|]. reflexivity.
  - change ((x :: y :: a) ++ b) with (x :: (y :: a) ++ b).
    change (join sep (x :: y :: a)) with (x ++ sep ++ join sep (y :: a)).
    assert (E : join sep (x :: (y :: a) ++ b) = x ++ sep ++ join sep ((y :: a) ++ b)) by reflexivity.
    rewrite E. rewrite IH by discriminate. rewrite <- !app_assoc. reflexivity.
Qed.

Lemma vside_nonnil l : map vrender (vside l) <> [].
Proof. destruct l; discriminate. Qed.

Lemma join_vside l : join COLON (map vrender (vside l)) = join COLON (map hex4 l).
Proof.
  destruct l as [|x l]; [reflexivity|]. unfold vside. rewrite map_map. reflexivity.
Qed.

Lemma print_v6_shape e ws : print_v6 e ws = join COLON (map vrender (shape e ws)).
Proof.
  unfold print_v6, shape. destruct (best_run ws) as [[b l]|].
  - destruct (e && Nat.eqb b 0 && (Nat.eqb l 6 || Nat.eqb l 5 && (nth 5 ws 0 =? 65535))).
    + destruct (Nat.eqb l 5); reflexivity.
    + rewrite map_app. cbn [map vrender].
      rewrite join_app; [|apply vside_nonnil|discriminate].
      rewrite join_vside. f_equal. rewrite <- (join_vside (skipn (b + l) ws)).
      pose proof (vside_nonnil (skipn (b + l) ws)) as Hn.
      destruct (map vrender (vside (skipn (b + l) ws))); [congruence|reflexivity].
  - rewrite map_map. reflexivity.
Qed.

(* ------------------------------------------------------------------ *)
(* reading ':'.join(parts) back                                        *)

Definition vgood (p : vpart) : Prop :=
  match p with
  | VG g => g < 65536
  | VE => True
  | V4 hi lo => hi < 65536 /\ lo < 65536
  end.

Definition is_v4 (p : vpart) : bool := match p with V4 _ _ => true | _ => false end.

Definition hx_of (p : vpart) : hx :=
  match p with VG g => HVal g | VE => HEmpty | V4 _ _ => HBad end.

Definition parse_abs (ps : list vpart) : option (list N) :=
  if Nat.ltb (length ps) 3 then None
  else match last ps VE with
       | V4 hi lo => assemble_v6 (map hx_of (removelast ps) ++ [HVal hi; HVal lo])
       | _ => assemble_v6 (map hx_of ps)
       end.

Lemma split_join c (ts : list bytes) :
  ts <> [] -> Forall (fun t => lacks c t = true) ts -> split_on c (join [c] ts) = ts.
Proof.
  induction ts as [|a ts IH]; intros Hne Hf; [congruence|].
  inversion Hf as [|? ? Ha Hts]; subst.
  destruct ts as [|b ts].
  - cbn [join]. exact (split_on_lacks c a Ha).
  - change (join [c] (a :: b :: ts)) with (a ++ [c] ++ join [c] (b :: ts)).
    cbn [app]. rewrite (split_on_app_sep c a _ Ha).
    rewrite IH; [reflexivity|discriminate|exact Hts].
Qed.

Lemma vrender_lacks_colon p : vgood p -> lacks ":" (vrender p) = true.
Proof.
  destruct p as [g| |hi lo]; cbn [vgood vrender]; intros H.
  - exact (hex4_lacks ":" g eq_refl H).
  - reflexivity.
  - apply print_v4_lacks_colon. lia.
Qed.

Lemma vrender_dot p : vgood p -> mem_char "." (vrender p) = is_v4 p.
Proof.
  destruct p as [g| |hi lo]; cbn [vgood vrender is_v4]; intros H.
  - exact (lacks_mem "." _ (hex4_lacks "." g eq_refl H)).
  - reflexivity.
  - apply print_v4_has_dot.
Qed.

Lemma hextet_vrender p : vgood p -> is_v4 p = false -> hextet (vrender p) = hx_of p.
Proof.
  destruct p as [g| |hi lo]; cbn [vgood vrender is_v4 hx_of]; intros H Hv.
  - exact (hextet_hex4 g H).
  - reflexivity.
  - discriminate.
Qed.

Lemma hextet_vrender_all ps :
  Forall vgood ps -> Forall (fun p => is_v4 p = false) ps ->
  map hextet (map vrender ps) = map hx_of ps.
Proof.
  induction ps as [|p ps IH]; intros Hg Hv; [reflexivity|].
  inversion Hg as [|? ? Hp Hps]; subst. inversion Hv as [|? ? Vp Vps]; subst.
  cbn [map]. rewrite (hextet_vrender p Hp Vp), (IH Hps Vps). reflexivity.
Qed.

Lemma last_map_vrender ps : last (map vrender ps) [] = vrender (last ps VE).
Proof.
  induction ps as [|p ps IH]; [reflexivity|].
  destruct ps as [|q ps]; [reflexivity|].
  change (last (map vrender (p :: q :: ps)) []) with (last (map vrender (q :: ps)) []).
  change (last (p :: q :: ps) VE) with (last (q :: ps) VE). exact IH.
Qed.

Lemma removelast_map {A B} (f : A -> B) l : removelast (map f l) = map f (removelast l).
Proof.
  induction l as [|a l IH]; [reflexivity|].
  destruct l as [|b l]; [reflexivity|].
  change (removelast (map f (a :: b :: l))) with (f a :: removelast (map f (b :: l))).
  change (removelast (a :: b :: l)) with (a :: removelast (b :: l)).
  cbn [map]. rewrite <- IH. reflexivity.
Qed.

Lemma Forall_last_vgood ps : Forall vgood ps -> vgood (last ps VE).
Proof.
  induction 1 as [|p ps Hp _ IH]; [exact I|].
  destruct ps as [|q ps]; [exact Hp|exact IH].
Qed.

Lemma Forall_removelast {A} (P : A -> Prop) l : Forall P l -> Forall P (removelast l).
Proof.
  induction 1 as [|a l Ha _ IH]; [constructor|].
  destruct l as [|b l]; [constructor|].
  change (removelast (a :: b :: l)) with (a :: removelast (b :: l)). constructor; assumption.
Qed.

Lemma Forall_unlast {A} (P : A -> Prop) (d : A) l :
  Forall P (removelast l) -> P (last l d) -> Forall P l.
Proof.
  induction l as [|a l IH]; intros H1 H2; [constructor|].
  destruct l as [|b l]; [constructor; [exact H2|constructor]|].
  change (removelast (a :: b :: l)) with (a :: removelast (b :: l)) in H1.
  inversion H1; subst. constructor; [assumption|]. apply IH; assumption.
Qed.

Lemma parse_v6_parts ps :
  ps <> [] -> Forall vgood ps -> Forall (fun p => is_v4 p = false) (removelast ps) ->
  parse_v6 (join COLON (map vrender ps)) = parse_abs ps.
Proof.
  intros Hne Hg Hv. unfold parse_v6, parse_abs, COLON.
  rewrite split_join.
  2:{ destruct ps; [congruence|discriminate]. }
  2:{ apply Forall_map. eapply Forall_impl; [|exact Hg]. exact vrender_lacks_colon. }
  rewrite map_length. destruct (Nat.ltb (length ps) 3); [reflexivity|].
  rewrite last_map_vrender.
  pose proof (Forall_last_vgood ps Hg) as Hl.
  rewrite (vrender_dot _ Hl).
  destruct (last ps VE) as [g| |hi lo] eqn:El; cbn [is_v4].
  - rewrite hextet_vrender_all; [reflexivity|exact Hg|].
    apply (Forall_unlast _ VE); [exact Hv|rewrite El; reflexivity].
  - rewrite hextet_vrender_all; [reflexivity|exact Hg|].
    apply (Forall_unlast _ VE); [exact Hv|rewrite El; reflexivity].
  - cbn [vgood] in Hl. destruct Hl as [Hhi Hlo]. cbn [vrender].
    rewrite parse_v4_strict_print_v4 by lia.
    rewrite removelast_map.
    rewrite hextet_vrender_all; [|apply Forall_removelast; exact Hg|exact Hv].
    replace ((hi * 65536 + lo) / 65536) with hi by lia.
    replace ((hi * 65536 + lo) mod 65536) with lo by lia. reflexivity.
Qed.

(* ------------------------------------------------------------------ *)
(* the shape of eight words, symbolically: every zero / non-zero mask  *)

Definition shape_ok (e : bool) (ws : list N) : Prop :=
  parse_abs (shape e ws) = Some ws /\
  forallb (fun p => negb (is_v4 p)) (removelast (shape e ws)) = true.

Ltac split0 g := destruct g as [|?].

Lemma shape_ok8 e g0 g1 g2 g3 g4 g5 g6 g7 : shape_ok e [g0; g1; g2; g3; g4; g5; g6; g7].
Proof.
  unfold shape_ok, shape. cbn [nth].
  destruct e; cbn [andb].
  - destruct (g5 =? 65535) eqn:E5; [apply N.eqb_eq in E5; subst g5|].
    + split0 g0; split0 g1; split0 g2; split0 g3; split0 g4; split0 g6; split0 g7;
        vm_compute; split; reflexivity.
    + split0 g0; split0 g1; split0 g2; split0 g3; split0 g4; split0 g5; split0 g6; split0 g7;
        vm_compute; split; reflexivity.
  - split0 g0; split0 g1; split0 g2; split0 g3; split0 g4; split0 g5; split0 g6; split0 g7;
      vm_compute; split; reflexivity.
Qed.

Lemma list8 {A} (l : list A) : length l = 8%nat ->
  exists a b c d e f g h, l = [a; b; c; d; e; f; g; h].
Proof.
  intros H. destruct l as [|a [|b [|c [|d [|e [|f [|g [|h [|]]]]]]]]]; try discriminate.
  do 8 eexists. reflexivity.
Qed.

Lemma Forall_firstn_ {A} (P : A -> Prop) n l : Forall P l -> Forall P (firstn n l).
Proof.
  revert l. induction n as [|n IH]; intros l H; [constructor|].
  destruct l; [constructor|]. inversion H; subst. cbn [firstn]. constructor; [assumption|apply IH; assumption].
Qed.

Lemma Forall_skipn_ {A} (P : A -> Prop) n l : Forall P l -> Forall P (skipn n l).
Proof.
  revert l. induction n as [|n IH]; intros l H; [exact H|].
  destruct l; [constructor|]. inversion H; subst. cbn [skipn]. apply IH. assumption.
Qed.

Lemma nth_word_lt ws k : Forall (fun w => w < 65536) ws -> nth k ws 0 < 65536.
Proof.
  intros H. revert k. induction H as [|g gs Hg _ IH]; intros k; destruct k; cbn [nth]; try lia; apply IH.
Qed.

Lemma vside_good l : Forall (fun w => w < 65536) l -> Forall vgood (vside l).
Proof.
  intros H. destruct l as [|x l]; [constructor; [exact I|constructor]|].
  unfold vside. apply Forall_map. exact H.
Qed.

Lemma shape_good e ws : Forall (fun w => w < 65536) ws -> Forall vgood (shape e ws).
Proof.
  intros H. unfold shape. destruct (best_run ws) as [[b l]|].
  - destruct (e && Nat.eqb b 0 && (Nat.eqb l 6 || Nat.eqb l 5 && (nth 5 ws 0 =? 65535))).
    + constructor; [exact I|]. constructor; [exact I|]. apply Forall_app. split.
      * destruct (Nat.eqb l 5); [|constructor]. constructor; [|constructor]. cbn [vgood]. lia.
      * constructor; [|constructor]. cbn [vgood]. split; apply nth_word_lt; exact H.
    + apply Forall_app. split; [apply vside_good, Forall_firstn_, H|].
      constructor; [exact I|]. apply vside_good, Forall_skipn_, H.
  - apply Forall_map. exact H.
Qed.

Lemma shape_nonnil e ws : ws <> [] -> shape e ws <> [].
Proof.
  intros Hn. unfold shape. destruct (best_run ws) as [[b l]|].
  - destruct (e && Nat.eqb b 0 && (Nat.eqb l 6 || Nat.eqb l 5 && (nth 5 ws 0 =? 65535))); [discriminate|].
    intros E. apply app_eq_nil in E. destruct E as [_ E]. discriminate.
  - destruct ws; [congruence|discriminate].
Qed.

Lemma v6_print_parse_full ws :
  length ws = 8%nat -> Forall (fun w => w < 65536) ws ->
  parse_v6 (print_v6 true ws) = Some ws /\ parse_v6 (print_v6 false ws) = Some ws.
Proof.
  intros Hl Hw.
  assert (P : forall e, parse_v6 (print_v6 e ws) = Some ws).
  { intros e. rewrite print_v6_shape.
    destruct (list8 ws Hl) as (a & b & c & d & e' & f & g & h & Ews).
    pose proof (shape_ok8 e a b c d e' f g h) as [Hp Hv]. rewrite <- Ews in Hp, Hv.
    rewrite parse_v6_parts.
    - exact Hp.
    - apply shape_nonnil. rewrite Ews. discriminate.
    - apply shape_good. exact Hw.
    - apply Forall_forall. intros p Hin.
      rewrite forallb_forall in Hv. apply negb_true_iff. exact (Hv p Hin). }
  split; apply P.
Qed.

(* ------------------------------------------------------------------ *)
(* host:port through ipaddress / urlparse                              *)

(* the characters of a text are separators or belong to one of its fields *)
Lemma split_on_chars (P : ascii -> bool) c s :
  Forall (fun t => forallb P t = true) (split_on c s) ->
  forall x, In x s -> x = c \/ P x = true.
Proof.
  induction s as [|k s IH]; intros HF x Hx; [destruct Hx|].
  cbn [split_on] in HF. destruct (Ascii.eqb k c) eqn:E.
  - apply Ascii.eqb_eq in E. subst k. inversion HF as [|? ? _ HF']; subst.
    destruct Hx as [<-|Hx]; [left; reflexivity|exact (IH HF' x Hx)].
  - destruct (split_on c s) as [|h r] eqn:Es.
    + inversion HF as [|? ? Hk _]; subst. cbn [forallb] in Hk. apply andb_true_iff in Hk.
      destruct Hx as [<-|Hx]; [right; exact (proj1 Hk)|].
      apply IH; [constructor|exact Hx].
    + inversion HF as [|? ? Hk HF']; subst. cbn [forallb] in Hk. apply andb_true_iff in Hk.
      destruct Hx as [<-|Hx]; [right; exact (proj1 Hk)|].
      apply IH; [constructor; [exact (proj2 Hk)|exact HF']|exact Hx].
Qed.

Lemma mem_char_In c s : mem_char c s = true -> In c s.
Proof.
  unfold mem_char. intros H. apply existsb_exists in H. destruct H as (x & Hx & E).
  apply Ascii.eqb_eq in E. subst. exact Hx.
Qed.

(* a dotted quad: four fields of digits; no ':' *)
Lemma parse_v4_strict_fields s v : parse_v4_strict s = Some v ->
  Forall (fun t => forallb is_digit t = true) (split_on "." s).
Proof.
  unfold parse_v4_strict. intros E.
  destruct (split_on "." s) as [|a [|b [|c [|d [|x l]]]]]; cbn [map] in E; try discriminate;
    try (destruct (strict_octet a); discriminate).
  - destruct (strict_octet a) eqn:Ea; [destruct (strict_octet b); discriminate|discriminate].
  - destruct (strict_octet a) eqn:Ea; [|discriminate].
    destruct (strict_octet b) eqn:Eb; [destruct (strict_octet c); discriminate|discriminate].
  - destruct (strict_octet a) eqn:Ea; [|discriminate]. destruct (strict_octet b) eqn:Eb; [|discriminate].
    destruct (strict_octet c) eqn:Ec; [|discriminate]. destruct (strict_octet d) eqn:Ed; [|discriminate].
    repeat constructor; eapply strict_octet_digits; eassumption.
  - destruct (strict_octet a); [|discriminate]. destruct (strict_octet b); [|discriminate].
    destruct (strict_octet c); [|discriminate]. destruct (strict_octet d); [|discriminate].
    destruct (strict_octet x); discriminate.
Qed.

Lemma parse_v4_strict_colon s : mem_char ":" s = true -> parse_v4_strict s = None.
Proof.
  intros Hm. destruct (parse_v4_strict s) as [v|] eqn:E; [exfalso|reflexivity].
  pose proof (parse_v4_strict_fields s v E) as HF.
  destruct (split_on_chars is_digit "." s HF ":" (mem_char_In _ _ Hm)) as [H|H]; discriminate.
Qed.

Lemma forallb_impl {A} (P Q : A -> bool) l :
  (forall x, P x = true -> Q x = true) -> forallb P l = true -> forallb Q l = true.
Proof.
  intros H HP. apply forallb_forall. intros x Hx. apply H.
  exact (proj1 (forallb_forall P l) HP x Hx).
Qed.

Lemma filter_all {A} (P : A -> bool) l : forallb P l = true -> filter P l = l.
Proof.
  induction l as [|x l IH]; intros H; [reflexivity|].
  cbn [forallb] in H. apply andb_true_iff in H. destruct H as [Hx Hl].
  cbn [filter]. rewrite Hx, (IH Hl). reflexivity.
Qed.

(* the alphabet of  name:port  *)
Definition is_hp (c : ascii) : bool := is_host4 c || Ascii.eqb c ":".

Lemma is_hp_text h p : forallb is_host4 h = true -> forallb is_digit p = true ->
  forallb is_hp (h ++ ":" :: p) = true.
Proof.
  intros Hh Hp. rewrite forallb_app. cbn [forallb].
  rewrite (forallb_impl is_host4 is_hp h); [| |exact Hh].
  2:{ intros x Hx. unfold is_hp. rewrite Hx. reflexivity. }
  rewrite (forallb_impl is_digit is_hp p); [reflexivity| |exact Hp].
  intros x Hx. unfold is_hp, is_host4, is_word. rewrite Hx. rewrite orb_true_r. reflexivity.
Qed.

Lemma host_part_name_port h p :
  name4_ok h = true -> digits_ok p = true -> short p = true -> dec_val p <= 65535 ->
  host_part (h ++ ":" :: p) =
  Ok (Some (dec_val p),
      Some (match py_ip_str (map to_lower h) with Some c => c | None => map to_lower h end)).
Proof.
  intros Hh Hp Hs Hv.
  destruct (name4_inv h Hh) as [Hn Ha]. destruct (digits_ok_inv p Hp) as [Hnp Hap].
  pose proof (is_hp_text h p Ha Hap) as Hall.
  set (s := h ++ ":" :: p) in *.
  assert (Hcolon : mem_char ":" s = true).
  { unfold s. rewrite mem_char_app. cbn [mem_char existsb]. rewrite Ascii.eqb_refl.
    cbn [orb]. apply orb_true_r. }
  assert (L : forall c, is_hp c = false -> lacks c s = true)
    by (intros c Hc; exact (class_lacks is_hp c s Hc Hall)).
  assert (Lh : forall c, is_host4 c = false -> lacks c h = true)
    by (intros c Hc; exact (class_lacks is_host4 c h Hc Ha)).
  (* ipaddress.ip_address(host) fails: not a dotted quad, not IPv6 *)
  assert (Hip : py_ip_str s = None).
  { unfold py_ip_str. rewrite (parse_v4_strict_colon s Hcolon).
    unfold py_ip6_str. rewrite (partition_on_lacks "%" s (L "%" eq_refl)).
    rewrite (lacks_mem "/" s (L "/" eq_refl)). cbn [andb].
    unfold parse_v6, s. rewrite (split_on_app_sep ":" h p (Lh ":" eq_refl)).
    rewrite (split_on_lacks ":" p (class_lacks is_digit ":" p eq_refl Hap)). reflexivity. }
  (* urlparse('//' + host) *)
  assert (Hurl : url_hostinfo s = Ok (Some (map to_lower h), Some p)).
  { unfold url_hostinfo.
    rewrite (filter_all (fun c => negb (is_url_strip c)) s).
    2:{ apply (forallb_impl is_hp); [|exact Hall]. intros x Hx. unfold is_url_strip.
        rewrite (class_not_char is_hp "009" x eq_refl Hx), (class_not_char is_hp "010" x eq_refl Hx),
                (class_not_char is_hp "013" x eq_refl Hx). reflexivity. }
    rewrite (span_all (fun c => negb (is_netloc_end c)) s).
    2:{ apply (forallb_impl is_hp); [|exact Hall]. intros x Hx. unfold is_netloc_end.
        rewrite (class_not_char is_hp "/" x eq_refl Hx), (class_not_char is_hp "?" x eq_refl Hx),
                (class_not_char is_hp "#" x eq_refl Hx). reflexivity. }
    cbn [fst].
    rewrite (lacks_mem "[" s (L "[" eq_refl)), (lacks_mem "]" s (L "]" eq_refl)). cbn [xorb andb].
    rewrite (partition_on_lacks "[" s (L "[" eq_refl)).
    unfold s. rewrite (partition_on_app ":" h p (Lh ":" eq_refl)).
    rewrite Hn, Hnp. rewrite (partition_on_lacks "%" h (Lh "%" eq_refl)).
    rewrite app_nil_r. reflexivity. }
  unfold host_part. rewrite Hcolon, Hip, Hurl.
  unfold url_port. rewrite Hap. rewrite (py_int_short p Hs).
  destruct (dec_val p <=? 65535) eqn:E; [|lia].
  destruct (py_ip_str (map to_lower h)); reflexivity.
Qed.

(* ------------------------------------------------------------------ *)
(* the reader's range: eight words below 65536, for EVERY text         *)

Lemma hex_digit_val_lt c : is_hex c = true -> hex_digit_val c < 16.
Proof.
  unfold is_hex, hex_digit_val, is_digit, in_range. intros H.
  destruct ((48 <=? cN c) && (cN c <=? 57)) eqn:E1; [lia|].
  destruct ((65 <=? cN c) && (cN c <=? 70)) eqn:E2; [lia|].
  cbn [orb] in H. lia.
Qed.

Lemma hextet_range p n : hextet p = HVal n -> n < 65536.
Proof.
  unfold hextet. destruct p as [|a p]; [discriminate|].
  destruct (forallb is_hex (a :: p) && (lenN (a :: p) <=? 4)) eqn:E; [|discriminate].
  apply andb_true_iff in E. destruct E as [Hh Hl]. intros [= <-].
  assert (D : forall c, In c (a :: p) -> hex_digit_val c < 16).
  { intros c Hc. apply hex_digit_val_lt. exact (proj1 (forallb_forall _ _) Hh c Hc). }
  unfold hex_val.
  destruct p as [|b [|c [|d [|e p]]]].
  - pose proof (D a (or_introl eq_refl)). cbn [horner]. lia.
  - pose proof (D a (or_introl eq_refl)). pose proof (D b (or_intror (or_introl eq_refl))).
    cbn [horner]. lia.
  - pose proof (D a (or_introl eq_refl)). pose proof (D b (or_intror (or_introl eq_refl))).
    pose proof (D c (or_intror (or_intror (or_introl eq_refl)))). cbn [horner]. lia.
  - pose proof (D a (or_introl eq_refl)). pose proof (D b (or_intror (or_introl eq_refl))).
    pose proof (D c (or_intror (or_intror (or_introl eq_refl)))).
    pose proof (D d (or_intror (or_intror (or_intror (or_introl eq_refl))))). cbn [horner]. lia.
  - rewrite !lenN_cons in Hl. lia.
Qed.

Definition hx_small (x : hx) : Prop := match x with HVal n => n < 65536 | _ => True end.

Lemma hextets_small ps : Forall hx_small (map hextet ps).
Proof.
  apply Forall_map. apply Forall_forall. intros p _. unfold hx_small.
  destruct (hextet p) as [|n|] eqn:E; [exact I| |exact I]. exact (hextet_range p n E).
Qed.

Lemma vals_of_range l r : vals_of l = Some r -> Forall hx_small l ->
  length r = length l /\ Forall (fun w => w < 65536) r.
Proof.
  revert r. induction l as [|x l IH]; intros r H HF.
  - cbn [vals_of] in H. injection H as <-. split; [reflexivity|constructor].
  - cbn [vals_of] in H. destruct x as [|n|]; try discriminate.
    destruct (vals_of l) as [r'|] eqn:E; [|discriminate]. injection H as <-.
    inversion HF as [|? ? Hx HF']; subst. destruct (IH r' eq_refl HF') as [A B].
    split; [cbn [length]; rewrite A; reflexivity|constructor; assumption].
Qed.

Lemma split_empty_spec l a b : split_empty l = Some (a, b) -> l = a ++ HEmpty :: b.
Proof.
  revert a b. induction l as [|x l IH]; intros a b H; [discriminate|].
  cbn [split_empty] in H.
  destruct x as [|n|].
  - injection H as <- <-. reflexivity.
  - destruct (split_empty l) as [[a' b']|]; [|discriminate]. injection H as <- <-.
    rewrite (IH a' b' eq_refl). reflexivity.
  - destruct (split_empty l) as [[a' b']|]; [|discriminate]. injection H as <- <-.
    rewrite (IH a' b' eq_refl). reflexivity.
Qed.

Lemma Forall_repeat0 k : Forall (fun w => w < 65536) (repeat 0 k).
Proof. induction k; cbn [repeat]; constructor; [lia|assumption]. Qed.

Lemma assemble_v6_range items r : assemble_v6 items = Some r -> Forall hx_small items ->
  length r = 8%nat /\ Forall (fun w => w < 65536) r.
Proof.
  unfold assemble_v6. destruct items as [|a rest]; [discriminate|].
  destruct (rev rest) as [|z rmid] eqn:Er; [discriminate|].
  assert (Erest : rest = rev rmid ++ [z]).
  { rewrite <- (rev_involutive rest), Er. reflexivity. }
  intros H HF. pose proof (Forall_inv HF) as Ha. pose proof (Forall_inv_tail HF) as HFr.
  rewrite Erest in HFr. apply Forall_app in HFr. destruct HFr as [HFm HFz].
  destruct (split_empty (rev rmid)) as [[pre post]|] eqn:Es.
  - apply split_empty_spec in Es. rewrite Es in HFm.
    apply Forall_app in HFm. destruct HFm as [HFpre HFpost]. apply Forall_inv_tail in HFpost.
    destruct (existsb is_hempty post); [discriminate|].
    set (hi := if is_hempty a then (if nonempty_hx pre then None else Some []) else vals_of (a :: pre)) in H.
    set (lo := if is_hempty z then (if nonempty_hx post then None else Some []) else vals_of (post ++ [z])) in H.
    assert (Hhi : forall h, hi = Some h -> Forall (fun w => w < 65536) h).
    { intros h Eh. unfold hi in Eh. destruct (is_hempty a).
      - destruct (nonempty_hx pre); [discriminate|]. injection Eh as <-. constructor.
      - apply (vals_of_range _ _ Eh). constructor; assumption. }
    assert (Hlo : forall l, lo = Some l -> Forall (fun w => w < 65536) l).
    { intros l El. unfold lo in El. destruct (is_hempty z).
      - destruct (nonempty_hx post); [discriminate|]. injection El as <-. constructor.
      - apply (vals_of_range _ _ El). apply Forall_app. split; assumption. }
    destruct hi as [h|]; [|discriminate]. destruct lo as [l|]; [|discriminate].
    destruct (Nat.ltb (length h + length l) 8) eqn:El; [|discriminate].
    apply Nat.ltb_lt in El.
    pose proof (f_equal (fun o => match o with Some x => x | None => r end) H) as Hr.
    cbv beta iota in Hr. subst r. clear H. split.
    + rewrite !app_length, repeat_length. lia.
    + apply Forall_app. split; [exact (Hhi h eq_refl)|].
      apply Forall_app. split; [apply Forall_repeat0|exact (Hlo l eq_refl)].
  - destruct (Nat.eqb (length (a :: rest)) 8) eqn:E8; [|discriminate].
    apply Nat.eqb_eq in E8.
    assert (HFi : Forall hx_small (a :: rest)).
    { constructor; [exact Ha|]. rewrite Erest. apply Forall_app. split; assumption. }
    destruct (vals_of_range _ _ H HFi) as [A B]. split; [rewrite A; exact E8|exact B].
Qed.

Lemma strict_octet_range p v : strict_octet p = Some v -> v <= 255.
Proof.
  unfold strict_octet. destruct (nonempty p && forallb is_digit p && (lenN p <=? 3)); [|discriminate].
  destruct (match p with c :: _ :: _ => Ascii.eqb c "0" | _ => false end); [discriminate|].
  destruct (dec_val p <=? 255) eqn:E; [|discriminate]. intros [= <-]. lia.
Qed.

Lemma parse_v4_strict_range s v : parse_v4_strict s = Some v -> v < 4294967296.
Proof.
  unfold parse_v4_strict.
  destruct (split_on "." s) as [|a [|b [|c [|d [|x l]]]]]; cbn [map]; try discriminate;
    try (destruct (strict_octet a); discriminate).
  - destruct (strict_octet a); [destruct (strict_octet b); discriminate|discriminate].
  - destruct (strict_octet a); [|discriminate].
    destruct (strict_octet b); [destruct (strict_octet c); discriminate|discriminate].
  - destruct (strict_octet a) as [a'|] eqn:Ea; [|discriminate].
    destruct (strict_octet b) as [b'|] eqn:Eb; [|discriminate].
    destruct (strict_octet c) as [c'|] eqn:Ec; [|discriminate].
    destruct (strict_octet d) as [d'|] eqn:Ed; [|discriminate].
    apply strict_octet_range in Ea, Eb, Ec, Ed. intros [= <-]. lia.
  - destruct (strict_octet a); [|discriminate]. destruct (strict_octet b); [|discriminate].
    destruct (strict_octet c); [|discriminate]. destruct (strict_octet d); [|discriminate].
    destruct (strict_octet x); discriminate.
Qed.

Lemma parse_v6_range s ws : parse_v6 s = Some ws ->
  length ws = 8%nat /\ Forall (fun w => w < 65536) ws.
Proof.
  unfold parse_v6. destruct (Nat.ltb (length (split_on ":" s)) 3); [discriminate|].
  destruct (mem_char "." (last (split_on ":" s) [])).
  - destruct (parse_v4_strict (last (split_on ":" s) [])) as [v|] eqn:E4; [|discriminate].
    apply parse_v4_strict_range in E4. intros H. apply (assemble_v6_range _ _ H).
    apply Forall_app. split; [apply hextets_small|].
    constructor; [cbn [hx_small]; lia|]. constructor; [cbn [hx_small]; lia|constructor].
  - intros H. apply (assemble_v6_range _ _ H). apply hextets_small.
Qed.

(* ------------------------------------------------------------------ *)
(* the alphabet of canonical IPv6 text: 0-9 a-f ':' '.'                 *)

Definition is_v6ch (c : ascii) : bool :=
  is_digit c || in_range 97 102 c || Ascii.eqb c ":" || Ascii.eqb c ".".

Lemma hchar_v6ch d : d < 16 -> is_v6ch (hchar d) = true.
Proof.
  intros H. unfold is_v6ch, hchar, is_digit, in_range. destruct (d <? 10) eqn:E.
  - rewrite cN_ascii by lia. replace ((48 <=? 48 + d) && (48 + d <=? 57)) with true by lia. reflexivity.
  - rewrite cN_ascii by lia. replace ((97 <=? 87 + d) && (87 + d <=? 102)) with true by lia.
    rewrite orb_true_r. reflexivity.
Qed.

Lemma hex4_v6ch n : n < 65536 -> forallb is_v6ch (hex4 n) = true.
Proof.
  intros H. unfold hex4.
  destruct (n <? 16) eqn:E1; [|destruct (n <? 256) eqn:E2; [|destruct (n <? 4096) eqn:E3]];
    cbn [forallb]; rewrite ?hchar_v6ch by lia; reflexivity.
Qed.

Lemma digit_v6ch c : is_digit c = true -> is_v6ch c = true.
Proof. intros H. unfold is_v6ch. rewrite H. reflexivity. Qed.

Lemma print_v4_v6ch v : v < 4294967296 -> forallb is_v6ch (print_v4 v) = true.
Proof.
  intros H. destruct (v4_octet_bounds v H) as (Ha & Hb & Hc & Hd & _).
  unfold print_v4. rewrite !forallb_app. cbn [forallb]. rewrite !forallb_app. cbn [forallb].
  rewrite !forallb_app. cbn [forallb].
  rewrite (forallb_impl is_digit is_v6ch _ digit_v6ch (dec3_digits _ Ha)),
          (forallb_impl is_digit is_v6ch _ digit_v6ch (dec3_digits _ Hb)),
          (forallb_impl is_digit is_v6ch _ digit_v6ch (dec3_digits _ Hc)),
          (forallb_impl is_digit is_v6ch _ digit_v6ch (dec3_digits _ Hd)). reflexivity.
Qed.

Lemma vrender_v6ch p : vgood p -> forallb is_v6ch (vrender p) = true.
Proof.
  destruct p as [g| |hi lo]; cbn [vgood vrender]; intros H.
  - exact (hex4_v6ch g H).
  - reflexivity.
  - apply print_v4_v6ch. lia.
Qed.

Lemma forallb_join (P : ascii -> bool) c ts :
  P c = true -> Forall (fun t => forallb P t = true) ts -> forallb P (join [c] ts) = true.
Proof.
  intros Hc. induction ts as [|a ts IH]; intros HF; [reflexivity|].
  inversion HF as [|? ? Ha Hts]; subst.
  destruct ts as [|b ts]; [exact Ha|].
  change (join [c] (a :: b :: ts)) with (a ++ [c] ++ join [c] (b :: ts)).
  rewrite !forallb_app. cbn [forallb]. rewrite Ha, Hc, (IH Hts). reflexivity.
Qed.

Lemma print_v6_v6ch e ws : Forall (fun w => w < 65536) ws -> forallb is_v6ch (print_v6 e ws) = true.
Proof.
  intros H. rewrite print_v6_shape. unfold COLON. apply forallb_join; [reflexivity|].
  apply Forall_map. eapply Forall_impl; [|exact (shape_good e ws H)]. exact vrender_v6ch.
Qed.

Lemma v6ch_lower c : is_v6ch c = true -> to_lower c = c.
Proof.
  intros H. unfold to_lower. replace (is_upper c) with false; [reflexivity|].
  symmetry. unfold is_v6ch in H.
  destruct (Ascii.eqb c ":") eqn:E1; [apply Ascii.eqb_eq in E1; subst; reflexivity|].
  destruct (Ascii.eqb c ".") eqn:E2; [apply Ascii.eqb_eq in E2; subst; reflexivity|].
  unfold is_digit, in_range in H. unfold is_upper, in_range. lia.
Qed.

Lemma map_lower_v6ch t : forallb is_v6ch t = true -> map to_lower t = t.
Proof.
  induction t as [|c t IH]; intros H; [reflexivity|].
  cbn [forallb] in H. apply andb_true_iff in H. destruct H as [Hc Ht].
  cbn [map]. rewrite (v6ch_lower c Hc), (IH Ht). reflexivity.
Qed.

(* ------------------------------------------------------------------ *)
(* ipaddress.ip_address on IPv6 text; parse_hostport on IPv6 hosts     *)

Lemma mem_lacks c l : mem_char c l = false -> lacks c l = true.
Proof.
  induction l as [|x l IH]; intros H; [reflexivity|].
  cbn [mem_char existsb] in H. apply orb_false_iff in H. destruct H as [Hx Hl].
  rewrite lacks_cons. rewrite Ascii.eqb_sym, Hx. exact (IH Hl).
Qed.

Lemma parse_v6_has_colon t ws : parse_v6 t = Some ws -> mem_char ":" t = true.
Proof.
  intros H. destruct (mem_char ":" t) eqn:E; [reflexivity|].
  unfold parse_v6 in H. rewrite (split_on_lacks ":" t (mem_lacks _ _ E)) in H. discriminate.
Qed.

Lemma py_ip_str_v6 t ws : forallb is_v6ch t = true -> parse_v6 t = Some ws ->
  py_ip_str t = Some (print_v6 false ws).
Proof.
  intros Hc Hp. unfold py_ip_str.
  rewrite (parse_v4_strict_colon t (parse_v6_has_colon t ws Hp)).
  unfold py_ip6_str. rewrite (partition_on_lacks "%" t (class_lacks is_v6ch "%" t eq_refl Hc)).
  rewrite (lacks_mem "/" t (class_lacks is_v6ch "/" t eq_refl Hc)). cbn [andb].
  rewrite Hp. rewrite app_nil_r. reflexivity.
Qed.

Lemma split_on_head c x s : Ascii.eqb x c = false ->
  exists h r, split_on c (x :: s) = (x :: h) :: r.
Proof.
  intros H. cbn [split_on]. rewrite H. destruct (split_on c s) as [|h r].
  - exists [], []. reflexivity.
  - exists h, r. reflexivity.
Qed.

Lemma assemble_v6_bad l : assemble_v6 (HBad :: l) = None.
Proof.
  unfold assemble_v6. destruct (rev l) as [|z rmid]; [reflexivity|].
  destruct (split_empty (rev rmid)) as [[pre post]|].
  - destruct (existsb is_hempty post); [reflexivity|]. cbn [is_hempty vals_of]. reflexivity.
  - destruct (Nat.eqb _ _); reflexivity.
Qed.

(* ------------------------------------------------------------------ *)
(* the resolver on IPv6 literals: canonical text, fixed point          *)

(* numbers-and-dots text has no ':' *)
Definition is_cnum (c : ascii) : bool := is_hex c || Ascii.eqb c "x" || Ascii.eqb c "X".

Lemma hex_cnum c : is_hex c = true -> is_cnum c = true.
Proof. intros H. unfold is_cnum. rewrite H. reflexivity. Qed.

Lemma digit_hex c : is_digit c = true -> is_hex c = true.
Proof. intros H. unfold is_hex. rewrite H. reflexivity. Qed.

Lemma oct_hex c : is_oct c = true -> is_hex c = true.
Proof.
  intros H. apply digit_hex. unfold is_oct, is_digit, in_range in *. lia.
Qed.

Lemma c_number_chars p v : c_number p = Some v -> forallb is_cnum p = true.
Proof.
  unfold c_number. destruct p as [|c t]; [discriminate|].
  destruct (Ascii.eqb c "0") eqn:E0.
  - apply Ascii.eqb_eq in E0. subst c. destruct t as [|x t']; [reflexivity|].
    destruct (Ascii.eqb x "x" || Ascii.eqb x "X") eqn:Ex.
    + destruct (nonempty t' && forallb is_hex t') eqn:Eh; [|discriminate]. intros _.
      apply andb_true_iff in Eh. destruct Eh as [_ Eh].
      cbn [forallb]. rewrite (forallb_impl is_hex is_cnum t' hex_cnum Eh).
      unfold is_cnum at 2. rewrite <- orb_assoc, Ex, orb_true_r. reflexivity.
    + destruct (forallb is_oct (x :: t')) eqn:Eo; [|discriminate]. intros _.
      change (is_cnum "0" && forallb is_cnum (x :: t') = true).
      rewrite (forallb_impl is_oct is_cnum (x :: t') (fun k H => hex_cnum k (oct_hex k H)) Eo).
      reflexivity.
  - destruct (forallb is_digit (c :: t)) eqn:Ed; [|discriminate]. intros _.
    exact (forallb_impl is_digit is_cnum (c :: t) (fun k H => hex_cnum k (digit_hex k H)) Ed).
Qed.

Lemma inet_aton_colon s : mem_char ":" s = true -> inet_aton s = None.
Proof.
  intros Hm. destruct (inet_aton s) as [v|] eqn:E; [exfalso|reflexivity].
  unfold inet_aton in E.
  assert (HF : Forall (fun t => forallb is_cnum t = true) (split_on "." s)).
  { destruct (split_on "." s) as [|a [|b [|c [|d [|x l]]]]]; cbn [map] in E; try discriminate.
    - destruct (c_number a) eqn:Ea; [|discriminate].
      repeat constructor; eapply c_number_chars; eassumption.
    - destruct (c_number a) eqn:Ea; [|discriminate]. destruct (c_number b) eqn:Eb; [|discriminate].
      repeat constructor; eapply c_number_chars; eassumption.
    - destruct (c_number a) eqn:Ea; [|discriminate]. destruct (c_number b) eqn:Eb; [|discriminate].
      destruct (c_number c) eqn:Ec; [|discriminate].
      repeat constructor; eapply c_number_chars; eassumption.
    - destruct (c_number a) eqn:Ea; [|discriminate]. destruct (c_number b) eqn:Eb; [|discriminate].
      destruct (c_number c) eqn:Ec; [|discriminate]. destruct (c_number d) eqn:Ed; [|discriminate].
      repeat constructor; eapply c_number_chars; eassumption.
    - destruct (c_number a); [|discriminate]. destruct (c_number b); [|discriminate].
      destruct (c_number c); [|discriminate]. destruct (c_number d); [|discriminate].
      destruct (c_number x); discriminate. }
  destruct (split_on_chars is_cnum "." s HF ":" (mem_char_In _ _ Hm)) as [H|H]; discriminate.
Qed.

Lemma getaddrinfo_v6 rs s ws :
  parse_v6 s = Some ws -> idna_labels_ok (split_on "." s) = true ->
  getaddrinfo rs s = Ok [(AF_INET6, print_v6 true ws)].
Proof.
  intros Hp Hi. unfold getaddrinfo. rewrite Hi. cbn [negb].
  rewrite (inet_aton_colon s (parse_v6_has_colon s ws Hp)), Hp. reflexivity.
Qed.

(* lengths *)
Lemma hex4_len n : lenN (hex4 n) <= 4.
Proof.
  unfold hex4. destruct (n <? 16); [|destruct (n <? 256); [|destruct (n <? 4096)]];
    rewrite ?lenN_cons, lenN_nil; lia.
Qed.

Lemma join_hex4_len l : lenN (join COLON (map hex4 l)) <= 5 * N.of_nat (length l).
Proof.
  induction l as [|x l IH]; [cbn; lia|].
  destruct l as [|y l].
  - cbn [map join length]. pose proof (hex4_len x). lia.
  - change (join COLON (map hex4 (x :: y :: l))) with (hex4 x ++ COLON ++ join COLON (map hex4 (y :: l))).
    rewrite !lenN_app. unfold COLON at 1. rewrite lenN_cons, lenN_nil.
    pose proof (hex4_len x). change (length (x :: y :: l)) with (S (length (y :: l))). lia.
Qed.

Lemma join_hex4_lacks_dot l : Forall (fun w => w < 65536) l -> lacks "." (join COLON (map hex4 l)) = true.
Proof.
  intros H. unfold lacks, COLON. apply forallb_join; [reflexivity|].
  apply Forall_map. eapply Forall_impl; [|exact H]. intros w Hw. exact (hex4_lacks "." w eq_refl Hw).
Qed.

Lemma dec3_small n : n < 256 -> nonempty (dec3 n) = true /\ lenN (dec3 n) <= 3.
Proof.
  intros H. destruct (octet_facts n H) as (_ & S & _). unfold strict_octet in S.
  destruct (nonempty (dec3 n)); [|discriminate]. destruct (forallb is_digit (dec3 n)); [|discriminate].
  cbn [andb] in S. destruct (lenN (dec3 n) <=? 3) eqn:E; [|discriminate]. split; [reflexivity|lia].
Qed.

Lemma idna_print_v6 ws : length ws = 8%nat -> Forall (fun w => w < 65536) ws ->
  idna_labels_ok (split_on "." (print_v6 true ws)) = true.
Proof.
  intros Hl Hw. unfold print_v6.
  assert (Plain : forall a b : list N, Forall (fun w => w < 65536) a -> Forall (fun w => w < 65536) b ->
            (length a + length b <= 8)%nat ->
            idna_labels_ok (split_on "." (join COLON (map hex4 a) ++ ":" :: ":" :: join COLON (map hex4 b))) = true).
  { intros a b Ha Hb Hlen.
    rewrite split_on_lacks.
    - cbn [idna_labels_ok]. rewrite lenN_app, !lenN_cons.
      pose proof (join_hex4_len a). pose proof (join_hex4_len b). lia.
    - rewrite lacks_app, !lacks_cons, (join_hex4_lacks_dot a Ha), (join_hex4_lacks_dot b Hb). reflexivity. }
  destruct (best_run ws) as [[b l]|].
  - destruct (true && Nat.eqb b 0 && (Nat.eqb l 6 || Nat.eqb l 5 && (nth 5 ws 0 =? 65535))).
    + pose proof (nth_word_lt ws 6 Hw) as H6. pose proof (nth_word_lt ws 7 Hw) as H7.
      set (v := nth 6 ws 0 * 65536 + nth 7 ws 0). assert (Hv : v < 4294967296) by (unfold v; lia).
      destruct (v4_octet_bounds v Hv) as (Ha & Hb & Hc & Hd & _).
      destruct (dec3_small _ Ha) as [Na La]. destruct (dec3_small _ Hb) as [Nb Lb].
      destruct (dec3_small _ Hc) as [Nc Lc]. destruct (dec3_small _ Hd) as [Nd Ld].
      destruct (octet_facts _ Ha) as (_ & _ & Da & _). destruct (octet_facts _ Hb) as (_ & _ & Db & _).
      destruct (octet_facts _ Hc) as (_ & _ & Dc & _). destruct (octet_facts _ Hd) as (_ & _ & Dd & _).
      set (pre := ":" :: ":" :: (if Nat.eqb l 5 then ["f"; "f"; "f"; "f"; ":"] else [])).
      assert (Hpre : lacks "." pre = true /\ lenN pre <= 7).
      { unfold pre. destruct (Nat.eqb l 5); split; try reflexivity; rewrite ?lenN_cons, lenN_nil; lia. }
      destruct Hpre as [Dp Lp].
      assert (E : ":" :: ":" :: (if Nat.eqb l 5 then ["f"; "f"; "f"; "f"; ":"] else []) ++ print_v4 v =
                  (pre ++ dec3 (v / 16777216)) ++ "." :: dec3 ((v / 65536) mod 256) ++ "." ::
                  dec3 ((v / 256) mod 256) ++ "." :: dec3 (v mod 256)).
      { unfold pre, print_v4. cbn [app]. rewrite <- app_assoc. reflexivity. }
      rewrite E.
      rewrite (split_on_app_sep "." (pre ++ dec3 (v / 16777216))) by (rewrite lacks_app, Dp, Da; reflexivity).
      rewrite (split_on_app_sep "." _ _ Db), (split_on_app_sep "." _ _ Dc), (split_on_lacks "." _ Dd).
      cbn [idna_labels_ok]. rewrite lenN_app.
      assert (P : forall t, nonempty t = true -> 0 < lenN t).
      { intros t Ht. destruct t; [discriminate|]. rewrite lenN_cons. lia. }
      pose proof (P _ Na). pose proof (P _ Nb). pose proof (P _ Nc). lia.
    + apply Plain; [apply Forall_firstn_, Hw|apply Forall_skipn_, Hw|].
      rewrite firstn_length, skipn_length. lia.
  - rewrite split_on_lacks by (apply join_hex4_lacks_dot, Hw).
    cbn [idna_labels_ok]. pose proof (join_hex4_len ws). lia.
Qed.

Lemma v6_canonical s ws rs :
  parse_v6 s = Some ws -> idna_labels_ok (split_on "." s) = true ->
  getaddrinfo rs s = Ok [(AF_INET6, print_v6 true ws)] /\
  length ws = 8%nat /\ Forall (fun w => w < 65536) ws /\
  parse_v6 (print_v6 true ws) = Some ws /\
  py_ip_str (print_v6 true ws) = Some (print_v6 false ws) /\
  getaddrinfo rs (print_v6 true ws) = Ok [(AF_INET6, print_v6 true ws)].
Proof.
  intros Hp Hi. destruct (parse_v6_range s ws Hp) as [Hl Hw].
  pose proof (proj1 (v6_print_parse_full ws Hl Hw)) as Hrt.
  split; [exact (getaddrinfo_v6 rs s ws Hp Hi)|]. split; [exact Hl|]. split; [exact Hw|].
  split; [exact Hrt|]. split; [exact (py_ip_str_v6 _ ws (print_v6_v6ch true ws Hw) Hrt)|].
  exact (getaddrinfo_v6 rs _ ws Hrt (idna_print_v6 ws Hl Hw)).
Qed.

(* ------------------------------------------------------------------ *)
(* every text the IPv6 reader accepts passes the idna codec: at most   *)
(* ten fields of at most four hex digits, or a strict dotted quad last *)

Definition hx_ok (x : hx) : Prop := match x with HBad => False | _ => True end.

Lemma vals_of_ok l r : vals_of l = Some r -> Forall hx_ok l /\ length r = length l.
Proof.
  revert r. induction l as [|x l IH]; intros r H.
  - cbn [vals_of] in H. injection H as <-. split; [constructor|reflexivity].
  - cbn [vals_of] in H. destruct x as [|n|]; try discriminate.
    destruct (vals_of l) as [r'|] eqn:E; [|discriminate]. injection H as <-.
    destruct (IH r' eq_refl) as [A B]. split; [constructor; [exact I|exact A]|cbn [length]; rewrite B; reflexivity].
Qed.

Lemma is_hempty_ok x : is_hempty x = true -> hx_ok x.
Proof. destruct x; [intros _; exact I|discriminate|discriminate]. Qed.

Lemma nonempty_hx_false l : nonempty_hx l = false -> l = [].
Proof. destruct l; [reflexivity|discriminate]. Qed.

Lemma assemble_v6_items items r : assemble_v6 items = Some r ->
  Forall hx_ok items /\ (length items <= 10)%nat.
Proof.
  unfold assemble_v6. destruct items as [|a rest]; [discriminate|].
  destruct (rev rest) as [|z rmid] eqn:Er; [discriminate|].
  assert (Erest : rest = rev rmid ++ [z]).
  { rewrite <- (rev_involutive rest), Er. reflexivity. }
  intros H.
  destruct (split_empty (rev rmid)) as [[pre post]|] eqn:Es.
  - apply split_empty_spec in Es.
    destruct (existsb is_hempty post); [discriminate|].
    set (hi := if is_hempty a then (if nonempty_hx pre then None else Some []) else vals_of (a :: pre)) in H.
    set (lo := if is_hempty z then (if nonempty_hx post then None else Some []) else vals_of (post ++ [z])) in H.
    assert (Hhi : forall h, hi = Some h -> Forall hx_ok (a :: pre) /\ (length pre <= length h)%nat).
    { intros h Eh. unfold hi in Eh. destruct (is_hempty a) eqn:Ea.
      - destruct (nonempty_hx pre) eqn:Ep; [discriminate|]. apply nonempty_hx_false in Ep. subst pre.
        split; [constructor; [exact (is_hempty_ok a Ea)|constructor]|cbn; lia].
      - destruct (vals_of_ok _ _ Eh) as [A B]. split; [exact A|]. rewrite B. cbn [length]. lia. }
    assert (Hlo : forall l, lo = Some l -> Forall hx_ok (post ++ [z]) /\ (length post <= length l)%nat).
    { intros l El. unfold lo in El. destruct (is_hempty z) eqn:Ez.
      - destruct (nonempty_hx post) eqn:Ep; [discriminate|]. apply nonempty_hx_false in Ep. subst post.
        split; [constructor; [exact (is_hempty_ok z Ez)|constructor]|cbn; lia].
      - destruct (vals_of_ok _ _ El) as [A B]. split; [exact A|]. rewrite B, app_length. cbn [length]. lia. }
    destruct hi as [h|]; [|discriminate]. destruct lo as [l|]; [|discriminate].
    destruct (Nat.ltb (length h + length l) 8) eqn:El; [|discriminate]. apply Nat.ltb_lt in El.
    destruct (Hhi h eq_refl) as [A1 B1]. destruct (Hlo l eq_refl) as [A2 B2].
    rewrite Erest, Es. split.
    + apply Forall_app in A2. destruct A2 as [A2 A3].
      constructor; [exact (Forall_inv A1)|]. apply Forall_app. split; [|exact A3].
      apply Forall_app. split; [exact (Forall_inv_tail A1)|]. constructor; [exact I|exact A2].
    + cbn [length]. rewrite !app_length. cbn [length]. lia.
  - destruct (Nat.eqb (length (a :: rest)) 8) eqn:E8; [|discriminate].
    apply Nat.eqb_eq in E8. destruct (vals_of_ok _ _ H) as [A _]. split; [exact A|lia].
Qed.

Lemma hextet_ok_chars p : hx_ok (hextet p) -> forallb is_hex p = true /\ lenN p <= 4.
Proof.
  unfold hextet. destruct p as [|c t]; [intros _; split; [reflexivity|rewrite lenN_nil; lia]|].
  destruct (forallb is_hex (c :: t) && (lenN (c :: t) <=? 4)) eqn:E; [|intros []].
  apply andb_true_iff in E. destruct E as [A B]. intros _. split; [exact A|lia].
Qed.

Lemma split_on_nonnil c s : split_on c s <> [].
Proof.
  destruct s as [|x s]; [discriminate|]. cbn [split_on].
  destruct (Ascii.eqb x c); [discriminate|]. destruct (split_on c s); discriminate.
Qed.

Lemma join_split c s : join [c] (split_on c s) = s.
Proof.
  induction s as [|x s IH]; [reflexivity|]. cbn [split_on].
  pose proof (split_on_nonnil c s) as Hn.
  destruct (Ascii.eqb x c) eqn:E.
  - apply Ascii.eqb_eq in E. subst x.
    destruct (split_on c s) as [|h r]; [congruence|].
    change (join [c] ([] :: h :: r)) with ([] ++ [c] ++ join [c] (h :: r)). rewrite IH. reflexivity.
  - destruct (split_on c s) as [|h r]; [congruence|].
    rewrite <- IH. destruct r; reflexivity.
Qed.

Lemma join_len_bound (ts : list bytes) : Forall (fun t => lenN t <= 4) ts ->
  lenN (join COLON ts) <= 5 * N.of_nat (length ts).
Proof.
  induction 1 as [|x l Hx _ IH]; [cbn; lia|].
  destruct l as [|y l].
  - cbn [join length]. lia.
  - change (join COLON (x :: y :: l)) with (x ++ COLON ++ join COLON (y :: l)).
    rewrite !lenN_app. unfold COLON at 1. rewrite lenN_cons, lenN_nil.
    change (length (x :: y :: l)) with (S (length (y :: l))). lia.
Qed.

Lemma hextets_ok_text (ts : list bytes) : Forall hx_ok (map hextet ts) ->
  lacks "." (join COLON ts) = true /\ lenN (join COLON ts) <= 5 * N.of_nat (length ts).
Proof.
  intros H. rewrite Forall_map in H. split.
  - unfold lacks, COLON. apply forallb_join; [reflexivity|].
    eapply Forall_impl; [|exact H]. intros t Ht. cbv beta in Ht.
    exact (class_lacks is_hex "." t eq_refl (proj1 (hextet_ok_chars t Ht))).
  - apply join_len_bound. eapply Forall_impl; [|exact H]. intros t Ht. cbv beta in Ht.
    exact (proj2 (hextet_ok_chars t Ht)).
Qed.

Lemma strict_octet_inv p v : strict_octet p = Some v ->
  nonempty p = true /\ lacks "." p = true /\ lenN p <= 3.
Proof.
  unfold strict_octet. destruct (nonempty p); [|discriminate].
  destruct (forallb is_digit p) eqn:Ed; [|discriminate]. cbn [andb].
  destruct (lenN p <=? 3) eqn:El; [|discriminate]. intros _.
  split; [reflexivity|]. split; [exact (class_lacks is_digit "." p eq_refl Ed)|lia].
Qed.

Lemma parse_v6_idna s ws : parse_v6 s = Some ws -> idna_labels_ok (split_on "." s) = true.
Proof.
  unfold parse_v6. intros H.
  pose proof (join_split ":" s) as Es. fold COLON in Es.
  set (parts := split_on ":" s) in *.
  destruct (Nat.ltb (length parts) 3) eqn:E3; [discriminate|]. apply Nat.ltb_ge in E3.
  destruct (mem_char "." (last parts [])) eqn:Ed.
  - destruct (parse_v4_strict (last parts [])) as [v|] eqn:E4; [|discriminate].
    destruct (assemble_v6_items _ _ H) as [Hok Hlen].
    apply Forall_app in Hok. destruct Hok as [Hok _].
    rewrite app_length, map_length in Hlen. cbn [length] in Hlen.
    assert (Hparts : parts = removelast parts ++ [last parts []]).
    { apply app_removelast_last. intros E. rewrite E in E3. cbn in E3. lia. }
    set (R := removelast parts) in *. set (lp := last parts []) in *.
    assert (HR : R <> []).
    { intros E. rewrite Hparts, E in E3. cbn in E3. lia. }
    destruct (hextets_ok_text R Hok) as [RD RL].
    (* the dotted quad *)
    pose proof (join_split "." lp) as Elp.
    unfold parse_v4_strict in E4.
    destruct (split_on "." lp) as [|o1 [|o2 [|o3 [|o4 [|x l]]]]]; cbn [map] in E4; try discriminate;
      try (destruct (strict_octet o1); discriminate).
    + destruct (strict_octet o1); [destruct (strict_octet o2); discriminate|discriminate].
    + destruct (strict_octet o1); [|discriminate].
      destruct (strict_octet o2); [destruct (strict_octet o3); discriminate|discriminate].
    + destruct (strict_octet o1) eqn:S1; [|discriminate]. destruct (strict_octet o2) eqn:S2; [|discriminate].
      destruct (strict_octet o3) eqn:S3; [|discriminate]. destruct (strict_octet o4) eqn:S4; [|discriminate].
      destruct (strict_octet_inv _ _ S1) as (N1 & D1 & L1). destruct (strict_octet_inv _ _ S2) as (N2 & D2 & L2).
      destruct (strict_octet_inv _ _ S3) as (N3 & D3 & L3). destruct (strict_octet_inv _ _ S4) as (N4 & D4 & L4).
      assert (Es' : s = (join COLON R ++ ":" :: o1) ++ "." :: o2 ++ "." :: o3 ++ "." :: o4).
      { rewrite <- Es, Hparts. rewrite join_app by (exact HR || discriminate).
        cbn [join]. rewrite <- Elp. cbn [join app]. rewrite <- !app_assoc. reflexivity. }
      rewrite Es'.
      rewrite (split_on_app_sep "." (join COLON R ++ ":" :: o1))
        by (rewrite lacks_app, lacks_cons, RD, D1; reflexivity).
      rewrite (split_on_app_sep "." _ _ D2), (split_on_app_sep "." _ _ D3), (split_on_lacks "." _ D4).
      cbn [idna_labels_ok]. rewrite lenN_app, lenN_cons.
      assert (P : forall t, nonempty t = true -> 0 < lenN t).
      { intros t Ht. destruct t; [discriminate|]. rewrite lenN_cons. lia. }
      pose proof (P _ N2). pose proof (P _ N3). lia.
    + destruct (strict_octet o1); [|discriminate]. destruct (strict_octet o2); [|discriminate].
      destruct (strict_octet o3); [|discriminate]. destruct (strict_octet o4); [|discriminate].
      destruct (strict_octet x); discriminate.
  - destruct (assemble_v6_items _ _ H) as [Hok Hlen]. rewrite map_length in Hlen.
    destruct (hextets_ok_text parts Hok) as [RD RL].
    rewrite <- Es. rewrite (split_on_lacks "." _ RD). cbn [idna_labels_ok]. lia.
Qed.

(* the premise-free forms *)
Lemma getaddrinfo_v6_literal rs s ws :
  parse_v6 s = Some ws -> getaddrinfo rs s = Ok [(AF_INET6, print_v6 true ws)].
Proof. intros Hp. exact (getaddrinfo_v6 rs s ws Hp (parse_v6_idna s ws Hp)). Qed.

Lemma v6_canonical_literal s ws rs :
  parse_v6 s = Some ws ->
  getaddrinfo rs s = Ok [(AF_INET6, print_v6 true ws)] /\
  length ws = 8%nat /\ Forall (fun w => w < 65536) ws /\
  parse_v6 (print_v6 true ws) = Some ws /\
  py_ip_str (print_v6 true ws) = Some (print_v6 false ws) /\
  getaddrinfo rs (print_v6 true ws) = Ok [(AF_INET6, print_v6 true ws)].
Proof. intros Hp. exact (v6_canonical s ws rs Hp (parse_v6_idna s ws Hp)). Qed.

(* ------------------------------------------------------------------ *)
(* every text the IPv6 reader accepts is in the IPv6 form of the       *)
(* subnet expression: [\w:.]+ with at least two ':'                    *)

Lemma length_split_on c s : length (split_on c s) = S (count_char c s).
Proof.
  induction s as [|x s IH]; [reflexivity|]. cbn [split_on count_char].
  destruct (Ascii.eqb x c).
  - cbn [length]. rewrite IH. reflexivity.
  - destruct (split_on c s) as [|h r]; [discriminate IH|exact IH].
Qed.

Lemma hex_host6 c : is_hex c = true -> is_host6 c = true.
Proof.
  intros H. unfold is_host6, is_word, is_alpha. unfold is_hex in H.
  destruct (is_digit c); [rewrite orb_true_r; reflexivity|]. cbn [orb] in H.
  replace (is_upper c || is_lower c) with true; [reflexivity|].
  symmetry. unfold is_upper, is_lower, in_range in *. lia.
Qed.

Lemma digit_host6 c : is_digit c = true -> is_host6 c = true.
Proof. intros H. apply hex_host6. unfold is_hex. rewrite H. reflexivity. Qed.

Lemma forallb_of_chars (P : ascii -> bool) s : (forall x, In x s -> P x = true) -> forallb P s = true.
Proof. intros H. apply forallb_forall. exact H. Qed.

(* ------------------------------------------------------------------ *)
(* the alphabet of every text the IPv6 reader accepts                  *)

Definition is_v6any (c : ascii) : bool := is_hex c || Ascii.eqb c ":" || Ascii.eqb c ".".

Lemma hex_v6any c : is_hex c = true -> is_v6any c = true.
Proof. intros H. unfold is_v6any. rewrite H. reflexivity. Qed.

Lemma digit_v6any c : is_digit c = true -> is_v6any c = true.
Proof. intros H. apply hex_v6any. unfold is_hex. rewrite H. reflexivity. Qed.

Lemma v6any_host6 c : is_v6any c = true -> is_host6 c = true.
Proof.
  unfold is_v6any. intros H. destruct (is_hex c) eqn:E; [exact (hex_host6 c E)|].
  unfold is_host6. cbn [orb] in H. apply orb_true_iff in H. destruct H as [H|H]; rewrite H.
  - rewrite orb_true_r. reflexivity.
  - apply orb_true_r.
Qed.

Lemma parse_v6_alphabet s ws : parse_v6 s = Some ws -> forallb is_v6any s = true.
Proof.
  intros H. unfold parse_v6 in H.
  set (parts := split_on ":" s) in *.
  destruct (Nat.ltb (length parts) 3) eqn:E3; [discriminate|]. apply Nat.ltb_ge in E3.
  assert (Hparts : Forall (fun t => forallb is_v6any t = true) parts).
  { destruct (mem_char "." (last parts [])) eqn:Ed.
    - destruct (parse_v4_strict (last parts [])) as [v|] eqn:E4; [|discriminate].
      destruct (assemble_v6_items _ _ H) as [Hok _].
      apply Forall_app in Hok. destruct Hok as [Hok _]. rewrite Forall_map in Hok.
      assert (Hp : parts = removelast parts ++ [last parts []]).
      { apply app_removelast_last. intros E. rewrite E in E3. cbn in E3. lia. }
      rewrite Hp. apply Forall_app. split.
      + eapply Forall_impl; [|exact Hok]. intros t Ht. cbv beta in Ht.
        exact (forallb_impl is_hex is_v6any t hex_v6any (proj1 (hextet_ok_chars t Ht))).
      + constructor; [|constructor]. apply forallb_of_chars. intros x Hx.
        pose proof (parse_v4_strict_fields _ _ E4) as HF.
        assert (HF' : Forall (fun t => forallb is_v6any t = true) (split_on "." (last parts []))).
        { eapply Forall_impl; [|exact HF]. intros t Ht. exact (forallb_impl is_digit is_v6any t digit_v6any Ht). }
        destruct (split_on_chars is_v6any "." _ HF' x Hx) as [->|Hx']; [reflexivity|exact Hx'].
    - destruct (assemble_v6_items _ _ H) as [Hok _]. rewrite Forall_map in Hok.
      eapply Forall_impl; [|exact Hok]. intros t Ht. cbv beta in Ht.
      exact (forallb_impl is_hex is_v6any t hex_v6any (proj1 (hextet_ok_chars t Ht))). }
  apply forallb_of_chars. intros x Hx.
  destruct (split_on_chars is_v6any ":" s Hparts x Hx) as [->|Hx']; [reflexivity|exact Hx'].
Qed.

Lemma parse_v6_host6 s ws : parse_v6 s = Some ws -> host6_ok s = true.
Proof.
  intros H. pose proof (parse_v6_alphabet s ws H) as Ha.
  pose proof (length_split_on ":" s) as Hlen.
  unfold parse_v6 in H. destruct (Nat.ltb (length (split_on ":" s)) 3) eqn:E3; [discriminate|].
  apply Nat.ltb_ge in E3. unfold host6_ok.
  rewrite (forallb_impl is_v6any is_host6 s v6any_host6 Ha).
  replace (Nat.ltb 1 (count_char ":" s)) with true by (symmetry; apply Nat.ltb_lt; lia).
  destruct s as [|c s]; [cbn in E3; lia|reflexivity].
Qed.

Lemma subnet_roundtrip_numeric6 rs sp ws :
  spec_ok sp = true -> spec_short sp = true -> parse_v6 (sp_host sp) = Some ws ->
  (match sp_width sp with None => True | Some d => dec_val d <= 128 end) ->
  parse_subnetport rs (render6 sp) =
  Ok [(AF_INET6, print_v6 true ws, spec_width_val AF_INET6 sp, spec_fport_val sp, spec_lport_val sp)].
Proof.
  intros Hok Hs Hp Hw.
  exact (subnet_roundtrip6 rs sp AF_INET6 (print_v6 true ws) (parse_v6_host6 _ ws Hp) Hok Hs
           (getaddrinfo_v6_literal rs _ ws Hp) Hw).
Qed.

(* ------------------------------------------------------------------ *)
(* the reader ignores the case of hex digits                           *)

Lemma to_lower_upper c : is_upper c = true -> cN (to_lower c) = cN c + 32.
Proof.
  intros H. unfold to_lower. rewrite H. apply cN_ascii.
  unfold is_upper, in_range in H. lia.
Qed.

Lemma to_lower_other c : is_upper c = false -> to_lower c = c.
Proof. intros H. unfold to_lower. rewrite H. reflexivity. Qed.

Lemma cN_inj a b : cN a = cN b -> a = b.
Proof.
  unfold cN. intros H. rewrite <- (ascii_N_embedding a), <- (ascii_N_embedding b), H. reflexivity.
Qed.

(* comparing with a character that is not a letter *)
Lemma to_lower_eqb c k : is_upper k = false -> is_lower k = false ->
  Ascii.eqb (to_lower c) k = Ascii.eqb c k.
Proof.
  intros Hu Hl. destruct (is_upper c) eqn:E; [|rewrite (to_lower_other c E); reflexivity].
  pose proof (to_lower_upper c E) as Hc.
  destruct (Ascii.eqb (to_lower c) k) eqn:E1.
  - apply Ascii.eqb_eq in E1. subst k. unfold is_lower, is_upper, in_range in *. lia.
  - destruct (Ascii.eqb c k) eqn:E2; [|reflexivity].
    apply Ascii.eqb_eq in E2. subst k. congruence.
Qed.

Lemma to_lower_digit c : is_digit (to_lower c) = is_digit c.
Proof.
  destruct (is_upper c) eqn:E; [|rewrite (to_lower_other c E); reflexivity].
  pose proof (to_lower_upper c E) as Hc. unfold is_digit, is_upper, in_range in *. lia.
Qed.

Lemma to_lower_hex c : is_hex (to_lower c) = is_hex c.
Proof.
  destruct (is_upper c) eqn:E; [|rewrite (to_lower_other c E); reflexivity].
  pose proof (to_lower_upper c E) as Hc. unfold is_hex, is_digit, is_upper, in_range in *. lia.
Qed.

Lemma to_lower_hex_val c : is_hex c = true -> hex_digit_val (to_lower c) = hex_digit_val c.
Proof.
  intros Hh. destruct (is_upper c) eqn:E; [|rewrite (to_lower_other c E); reflexivity].
  pose proof (to_lower_upper c E) as Hc.
  unfold hex_digit_val, is_hex, is_digit, is_upper, in_range in *.
  destruct ((48 <=? cN c) && (cN c <=? 57)) eqn:D1; [lia|].
  destruct ((48 <=? cN (to_lower c)) && (cN (to_lower c) <=? 57)) eqn:D2; [lia|].
  destruct ((65 <=? cN c) && (cN c <=? 70)) eqn:D3; [|lia].
  destruct ((65 <=? cN (to_lower c)) && (cN (to_lower c) <=? 70)) eqn:D4; lia.
Qed.

Lemma forallb_map_ext {A} (P : A -> bool) (f : A -> A) l :
  (forall x, P (f x) = P x) -> forallb P (map f l) = forallb P l.
Proof.
  intros H. induction l as [|x l IH]; [reflexivity|]. cbn [map forallb]. rewrite H, IH. reflexivity.
Qed.

Lemma lenN_map (f : ascii -> ascii) l : lenN (map f l) = lenN l.
Proof. unfold lenN. rewrite map_length. reflexivity. Qed.

Lemma horner_lower acc p : forallb is_hex p = true ->
  horner 16 hex_digit_val acc (map to_lower p) = horner 16 hex_digit_val acc p.
Proof.
  revert acc. induction p as [|c p IH]; intros acc H; [reflexivity|].
  cbn [forallb] in H. apply andb_true_iff in H. destruct H as [Hc Hp].
  cbn [map horner]. rewrite (to_lower_hex_val c Hc). exact (IH _ Hp).
Qed.

Lemma hextet_lower p : hextet (map to_lower p) = hextet p.
Proof.
  unfold hextet. destruct p as [|c p]; [reflexivity|].
  change (map to_lower (c :: p)) with (to_lower c :: map to_lower p).
  change (to_lower c :: map to_lower p) with (map to_lower (c :: p)).
  rewrite (forallb_map_ext is_hex to_lower (c :: p) to_lower_hex), lenN_map.
  destruct (forallb is_hex (c :: p)) eqn:E; [|reflexivity].
  cbn [andb]. unfold hex_val. rewrite (horner_lower 0 (c :: p) E). reflexivity.
Qed.

Lemma split_on_lower k s : is_upper k = false -> is_lower k = false ->
  split_on k (map to_lower s) = map (map to_lower) (split_on k s).
Proof.
  intros Hu Hl. induction s as [|x s IH]; [reflexivity|].
  cbn [map split_on]. rewrite (to_lower_eqb x k Hu Hl).
  destruct (Ascii.eqb x k).
  - rewrite IH. reflexivity.
  - rewrite IH. destruct (split_on k s); reflexivity.
Qed.

Lemma mem_char_lower k s : is_upper k = false -> is_lower k = false ->
  mem_char k (map to_lower s) = mem_char k s.
Proof.
  intros Hu Hl. induction s as [|x s IH]; [reflexivity|].
  cbn [map mem_char existsb]. fold (mem_char k (map to_lower s)). fold (mem_char k s).
  rewrite IH. rewrite (Ascii.eqb_sym k (to_lower x)), (Ascii.eqb_sym k x), (to_lower_eqb x k Hu Hl). reflexivity.
Qed.

Lemma digits_lower q : forallb is_digit q = true -> map to_lower q = q.
Proof.
  induction q as [|c q IH]; intros H; [reflexivity|].
  cbn [forallb] in H. apply andb_true_iff in H. destruct H as [Hc Hq].
  cbn [map]. rewrite (IH Hq). rewrite to_lower_other; [reflexivity|].
  unfold is_digit, is_upper, in_range in *. lia.
Qed.

Lemma strict_octet_lower q : strict_octet (map to_lower q) = strict_octet q.
Proof.
  destruct (forallb is_digit q) eqn:E; [rewrite (digits_lower q E); reflexivity|].
  unfold strict_octet. rewrite (forallb_map_ext is_digit to_lower q to_lower_digit), E.
  rewrite !andb_false_r. reflexivity.
Qed.

Lemma parse_v4_strict_lower s : parse_v4_strict (map to_lower s) = parse_v4_strict s.
Proof.
  unfold parse_v4_strict. rewrite (split_on_lower "." s eq_refl eq_refl). rewrite map_map.
  rewrite (map_ext _ _ strict_octet_lower). reflexivity.
Qed.

Lemma last_map_lower (l : list bytes) : last (map (map to_lower) l) [] = map to_lower (last l []).
Proof.
  induction l as [|a l IH]; [reflexivity|]. destruct l as [|b l]; [reflexivity|].
  change (last (map (map to_lower) (a :: b :: l)) []) with (last (map (map to_lower) (b :: l)) []).
  change (last (a :: b :: l) []) with (last (b :: l) []). exact IH.
Qed.

Lemma parse_v6_lower s : parse_v6 (map to_lower s) = parse_v6 s.
Proof.
  unfold parse_v6. rewrite (split_on_lower ":" s eq_refl eq_refl). rewrite map_length.
  rewrite last_map_lower, (mem_char_lower "." _ eq_refl eq_refl), parse_v4_strict_lower.
  rewrite removelast_map, !map_map. rewrite !(map_ext _ _ hextet_lower). reflexivity.
Qed.

Lemma v6any_lower_v6ch c : is_v6any c = true -> is_v6ch (to_lower c) = true.
Proof.
  unfold is_v6any, is_v6ch. intros H.
  rewrite (to_lower_eqb c ":" eq_refl eq_refl), (to_lower_eqb c "." eq_refl eq_refl).
  destruct (Ascii.eqb c ":"); [rewrite orb_true_r; reflexivity|].
  destruct (Ascii.eqb c "."); [apply orb_true_r|]. rewrite !orb_false_r in *.
  destruct (is_upper c) eqn:E.
  - pose proof (to_lower_upper c E) as Hc. unfold is_hex, is_digit, is_upper, in_range in *. lia.
  - rewrite (to_lower_other c E). unfold is_hex, is_digit, is_upper, in_range in *. lia.
Qed.

Lemma lower_v6ch t : forallb is_v6any t = true -> forallb is_v6ch (map to_lower t) = true.
Proof.
  induction t as [|c t IH]; intros H; [reflexivity|].
  cbn [forallb] in H. apply andb_true_iff in H. destruct H as [Hc Ht].
  cbn [map forallb]. rewrite (v6any_lower_v6ch c Hc), (IH Ht). reflexivity.
Qed.

(* ------------------------------------------------------------------ *)
(* ipaddress / parse_hostport on ANY text the IPv6 reader accepts      *)

Lemma py_ip_str_v6_any t ws : parse_v6 t = Some ws -> py_ip_str t = Some (print_v6 false ws).
Proof.
  intros Hp. pose proof (parse_v6_alphabet t ws Hp) as Hc. unfold py_ip_str.
  rewrite (parse_v4_strict_colon t (parse_v6_has_colon t ws Hp)).
  unfold py_ip6_str. rewrite (partition_on_lacks "%" t (class_lacks is_v6any "%" t eq_refl Hc)).
  rewrite (lacks_mem "/" t (class_lacks is_v6any "/" t eq_refl Hc)). cbn [andb].
  rewrite Hp. rewrite app_nil_r. reflexivity.
Qed.

Lemma host_part_v6_any t ws : parse_v6 t = Some ws -> host_part t = Ok (None, Some (print_v6 false ws)).
Proof.
  intros Hp. unfold host_part. rewrite (parse_v6_has_colon t ws Hp).
  rewrite (py_ip_str_v6_any t ws Hp). reflexivity.
Qed.

Definition is_bka (c : ascii) : bool := is_v6any c || Ascii.eqb c "[" || Ascii.eqb c "]".

Lemma v6any_bka c : is_v6any c = true -> is_bka c = true.
Proof. intros H. unfold is_bka. rewrite H. reflexivity. Qed.

Lemma host_part_bracket_port_any t ws p :
  parse_v6 t = Some ws -> digits_ok p = true -> short p = true -> dec_val p <= 65535 ->
  host_part ("[" :: t ++ "]" :: ":" :: p) = Ok (Some (dec_val p), Some (print_v6 false ws)).
Proof.
  intros Hp6 Hp Hs Hv. destruct (digits_ok_inv p Hp) as [Hnp Hap].
  pose proof (parse_v6_alphabet t ws Hp6) as Hc.
  pose proof (parse_v6_has_colon t ws Hp6) as Hct.
  assert (Hnt : nonempty t = true) by (destruct t; [discriminate|reflexivity]).
  set (s := "[" :: t ++ "]" :: ":" :: p).
  assert (Hall : forallb is_bka s = true).
  { unfold s. cbn [forallb]. rewrite forallb_app. cbn [forallb].
    rewrite (forallb_impl is_v6any is_bka t v6any_bka Hc).
    rewrite (forallb_impl is_digit is_bka p (fun c H => v6any_bka c (digit_v6any c H)) Hap). reflexivity. }
  assert (L : forall c, is_bka c = false -> lacks c s = true)
    by (intros c Hc'; exact (class_lacks is_bka c s Hc' Hall)).
  assert (Lt : forall c, is_v6any c = false -> lacks c t = true)
    by (intros c Hc'; exact (class_lacks is_v6any c t Hc' Hc)).
  assert (Hcolon : mem_char ":" s = true).
  { unfold s. cbn [mem_char existsb]. change (Ascii.eqb ":" "[") with false. cbn [orb].
    fold (mem_char ":" (t ++ "]" :: ":" :: p)). rewrite mem_char_app, Hct. reflexivity. }
  assert (Hip : py_ip_str s = None).
  { unfold py_ip_str. rewrite (parse_v4_strict_colon s Hcolon).
    unfold py_ip6_str. rewrite (partition_on_lacks "%" s (L "%" eq_refl)).
    rewrite (lacks_mem "/" s (L "/" eq_refl)). cbn [andb].
    replace (parse_v6 s) with (@None (list N)); [reflexivity|]. symmetry.
    unfold parse_v6, s.
    destruct (split_on_head ":" "[" (t ++ "]" :: ":" :: p) eq_refl) as (h & r & ->).
    destruct (Nat.ltb (length _) 3); [reflexivity|].
    assert (Hhb : hextet ("[" :: h) = HBad) by reflexivity.
    destruct (mem_char "." _).
    - destruct (parse_v4_strict _); [|reflexivity].
      destruct r as [|r1 r]; [reflexivity|].
      change (removelast (("[" :: h) :: r1 :: r)) with (("[" :: h) :: removelast (r1 :: r)).
      cbn [map app]. rewrite Hhb. apply assemble_v6_bad.
    - cbn [map]. rewrite Hhb. apply assemble_v6_bad. }
  assert (Hurl : url_hostinfo s = Ok (Some (map to_lower t), Some p)).
  { unfold url_hostinfo.
    rewrite (filter_all (fun c => negb (is_url_strip c)) s).
    2:{ apply (forallb_impl is_bka); [|exact Hall]. intros x Hx. unfold is_url_strip.
        rewrite (class_not_char is_bka "009" x eq_refl Hx), (class_not_char is_bka "010" x eq_refl Hx),
                (class_not_char is_bka "013" x eq_refl Hx). reflexivity. }
    rewrite (span_all (fun c => negb (is_netloc_end c)) s).
    2:{ apply (forallb_impl is_bka); [|exact Hall]. intros x Hx. unfold is_netloc_end.
        rewrite (class_not_char is_bka "/" x eq_refl Hx), (class_not_char is_bka "?" x eq_refl Hx),
                (class_not_char is_bka "#" x eq_refl Hx). reflexivity. }
    cbn [fst].
    assert (Hl : mem_char "[" s = true) by reflexivity.
    assert (Hr : mem_char "]" s = true).
    { unfold s. cbn [mem_char existsb]. change (Ascii.eqb "]" "[") with false. cbn [orb].
      fold (mem_char "]" (t ++ "]" :: ":" :: p)). rewrite mem_char_app.
      cbn [mem_char existsb]. rewrite Ascii.eqb_refl. cbn [orb]. apply orb_true_r. }
    rewrite Hl, Hr. cbn [xorb andb].
    assert (P1 : partition_on "[" s = ([], true, t ++ "]" :: ":" :: p)) by reflexivity.
    assert (P3 : partition_on ":" (":" :: p) = ([], true, p)) by reflexivity.
    rewrite P1. rewrite (partition_on_app "]" t (":" :: p) (Lt "]" eq_refl)). rewrite P3.
    assert (Hbr : bracketed_host_ok t = true).
    { unfold bracketed_host_ok.
      rewrite <- (app_nil_r t) at 1. rewrite (strip_char_class is_v6any "v" t [] eq_refl Hnt Hc).
      rewrite (parse_v4_strict_colon t Hct).
      pose proof (py_ip_str_v6_any t ws Hp6) as Hpy. unfold py_ip_str in Hpy.
      rewrite (parse_v4_strict_colon t Hct) in Hpy. rewrite Hpy. reflexivity. }
    rewrite Hbr. cbn [negb]. rewrite Hnt, Hnp.
    rewrite (partition_on_lacks "%" t (Lt "%" eq_refl)). rewrite app_nil_r. reflexivity. }
  unfold host_part. rewrite Hcolon, Hip, Hurl.
  rewrite (py_ip_str_v6 (map to_lower t) ws (lower_v6ch t Hc)) by (rewrite parse_v6_lower; exact Hp6).
  unfold url_port. rewrite Hap. rewrite (py_int_short p Hs).
  destruct (dec_val p <=? 65535) eqn:E; [reflexivity|lia].
Qed.

(* ------------------------------------------------------------------ *)
(* finding F23: the IPv6 form as found has no '.' in its host class    *)

Definition no_names : resolver := fun _ => [].
Definition f23_witness : bytes := bytes_of_string "::ffff:1.2.3.4/96"%string.

Lemma f23_repaired :
  parse_subnetport no_names f23_witness =
  Ok [(AF_INET6, bytes_of_string "::ffff:1.2.3.4"%string, 96, 0, 0)].
Proof. vm_compute. reflexivity. Qed.

Lemma f23_asfound : parse_subnetport_asfound no_names f23_witness = Raise (EArgType MsgFormat).
Proof. vm_compute. reflexivity. Qed.

(* ------------------------------------------------------------------ *)
(* cmdline.py:82-97  the --listen dispatch                             *)

Lemma split_on_join_comma items :
  items <> [] -> Forall (fun a => lacks "," a = true) items ->
  split_on "," (join [","] items) = items.
Proof.
  induction items as [|a t IH]; intros Hne Hl; [congruence|].
  inversion Hl as [|? ? Ha Ht]; subst.
  destruct t as [|b t'].
  - cbn [join]. apply split_on_lacks. exact Ha.
  - change (join [","] (a :: b :: t')) with (a ++ [","] ++ join [","] (b :: t')).
    cbn [app]. rewrite (split_on_app_sep "," _ _ Ha). f_equal. apply IH; [discriminate|exact Ht].
Qed.

Lemma parse_ipport_empty rs : exists e, parse_ipport rs [] = Raise e.
Proof. eexists. reflexivity. Qed.

Lemma listen_loop_parsed rs items : forall xs v6 v4,
  Forall2 (fun s x => parse_ipport rs s = Ok x) items xs ->
  listen_loop rs items v6 v4 = Ok (listen_assign xs v6 v4).
Proof.
  induction items as [|s t IH]; intros xs v6 v4 H; inversion H as [|? x ? xs' Hs Ht]; subst.
  - reflexivity.
  - cbn [listen_loop listen_assign]. rewrite Hs. destruct (is_fam6 x); apply IH; exact Ht.
Qed.

Lemma listen_assign_last xs : forall v6 v4,
  listen_assign xs v6 v4 = (last_slot is_fam6 xs v6, last_slot (fun x => negb (is_fam6 x)) xs v4).
Proof.
  induction xs as [|x t IH]; intros v6 v4; [reflexivity|].
  cbn [listen_assign last_slot]. destruct (is_fam6 x); cbn [negb]; apply IH.
Qed.

Lemma join_comma_nonempty rs items xs :
  Forall2 (fun s x => parse_ipport rs s = Ok x) items xs -> items <> [] ->
  nonempty (join [","] items) = true.
Proof.
  intros H Hne. destruct items as [|a [|b t]]; [congruence| |].
  - cbn [join]. destruct a as [|c a]; [|reflexivity].
    inversion H as [|? x ? ? Hs _]; subst. destruct (parse_ipport_empty rs) as [e He]. congruence.
  - change (join [","] (a :: b :: t)) with (a ++ [","] ++ join [","] (b :: t)).
    destruct a; reflexivity.
Qed.

Lemma listen_dispatch_last rs items xs d :
  items <> [] -> Forall (fun a => lacks "," a = true) items ->
  Forall2 (fun s x => parse_ipport rs s = Ok x) items xs ->
  listen_dispatch rs (Some (join [","] items)) d =
  Ok (last_slot is_fam6 xs LNone, last_slot (fun x => negb (is_fam6 x)) xs LNone).
Proof.
  intros Hne Hl H. unfold listen_dispatch.
  rewrite (join_comma_nonempty rs items xs H Hne), (split_on_join_comma items Hne Hl).
  rewrite (listen_loop_parsed rs items xs _ _ H). rewrite listen_assign_last. reflexivity.
Qed.

Lemma listen_loop_family rs all items : forall v6 v4 r6 r4,
  incl items all -> slot_from rs all true v6 -> slot_from rs all false v4 ->
  listen_loop rs items v6 v4 = Ok (r6, r4) ->
  slot_from rs all true r6 /\ slot_from rs all false r4.
Proof.
  induction items as [|s t IH]; intros v6 v4 r6 r4 Hi H6 H4 H.
  - cbn [listen_loop] in H. injection H as <- <-. split; assumption.
  - cbn [listen_loop] in H. destruct (parse_ipport rs s) as [x|e] eqn:Hs; [|discriminate].
    assert (Hin : In s all) by (apply Hi; left; reflexivity).
    assert (Hi' : incl t all) by (intros y Hy; apply Hi; right; exact Hy).
    destruct x as [[fam ip] port]. unfold is_fam6, slot_of in H. cbn [fst snd] in H.
    destruct (fam =? AF_INET6) eqn:Hf.
    + assert (Hn : slot_from rs all true (LAddr ip port)) by (cbn [slot_from]; exists s, fam; auto).
      exact (IH _ _ _ _ Hi' Hn H4 H).
    + assert (Hn : slot_from rs all false (LAddr ip port)) by (cbn [slot_from]; exists s, fam; auto).
      exact (IH _ _ _ _ Hi' H6 Hn H).
Qed.

Lemma listen_dispatch_family rs s d r6 r4 :
  nonempty s = true ->
  listen_dispatch rs (Some s) d = Ok (r6, r4) ->
  slot_from rs (split_on "," s) true r6 /\ slot_from rs (split_on "," s) false r4.
Proof.
  intros Hn H. unfold listen_dispatch in H. rewrite Hn in H.
  exact (listen_loop_family rs (split_on "," s) (split_on "," s) LNone LNone r6 r4 (incl_refl _) I I H).
Qed.

Lemma listen_dispatch_absent rs d :
  listen_dispatch rs None d = Ok (if d then LNone else LAuto, LAuto).
Proof. reflexivity. Qed.
