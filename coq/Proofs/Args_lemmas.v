(* Proofs/Args_lemmas.v — proofs for property C16 (Model/Args.v). *)
From Coq Require Import List NArith ZArith Ascii Bool Lia ZifyBool Arith.
From Coq Require String.
Import String.StringSyntax.
Delimit Scope string_scope with string.
From SV Require Import Lib.Bytes Model.Args.
Import ListNotations.
Local Open Scope char_scope.
Local Open Scope N_scope.

(* ------------------------------------------------------------------ *)
(* totality                                                            *)

Lemma argparse_type_total {A} (r : res A) :
  (exists a, argparse_type r = OOk a) \/ argparse_type r = OUsage.
Proof. destruct r as [a|e]; [left; eexists; reflexivity|right]. destruct e; reflexivity. Qed.

(* ------------------------------------------------------------------ *)
(* span and the literal-character helpers                              *)

Definition stops (p : ascii -> bool) (r : bytes) : Prop :=
  match r with [] => True | c :: _ => p c = false end.

Lemma span_app p a r :
  forallb p a = true -> stops p r -> span p (a ++ r) = (a, r).
Proof.
  induction a as [|c a IH]; intros Ha Hr.
  - cbn [app]. destruct r as [|x r]; [reflexivity|]. cbn in Hr. cbn [span]. rewrite Hr. reflexivity.
  - cbn [forallb] in Ha. apply andb_true_iff in Ha. destruct Ha as [Hc Ha].
    cbn [app span]. rewrite Hc. rewrite (IH Ha Hr). reflexivity.
Qed.

Lemma span_all p a : forallb p a = true -> span p a = (a, []).
Proof. intros H. rewrite <- (app_nil_r a) at 1. apply span_app; [exact H|exact I]. Qed.

Lemma strip_char_hit c t : strip_char c (c :: t) = Some t.
Proof. cbn [strip_char]. rewrite Ascii.eqb_refl. reflexivity. Qed.

Lemma strip_char_miss c x t : Ascii.eqb x c = false -> strip_char c (x :: t) = None.
Proof. intros H. cbn [strip_char]. rewrite H. reflexivity. Qed.

Lemma strip_char_some c s t : strip_char c s = Some t -> s = c :: t.
Proof.
  destruct s as [|x s]; [discriminate|]. cbn [strip_char].
  destruct (Ascii.eqb x c) eqn:E; [|discriminate].
  apply Ascii.eqb_eq in E. intros [= <-]. subst. reflexivity.
Qed.

Lemma strip_star_some s t : strip_star s = Some t -> s = "*" :: "." :: t.
Proof.
  unfold strip_star. destruct (strip_char "*" s) as [u|] eqn:E; [|discriminate].
  intros H. apply strip_char_some in E. apply strip_char_some in H. subst. reflexivity.
Qed.

Lemma strip_star_hit t : strip_star ("*" :: "." :: t) = Some t.
Proof. reflexivity. Qed.

(* a class that does not contain c: texts over the class do not start with c *)
Lemma class_not_char (p : ascii -> bool) c x : p c = false -> p x = true -> Ascii.eqb x c = false.
Proof.
  intros Hc Hx. destruct (Ascii.eqb x c) eqn:E; [|reflexivity].
  apply Ascii.eqb_eq in E. subst. congruence.
Qed.

Lemma strip_char_class p c h r :
  p c = false -> nonempty h = true -> forallb p h = true -> strip_char c (h ++ r) = None.
Proof.
  intros Hc Hn Hh. destruct h as [|x h]; [discriminate|].
  cbn [forallb] in Hh. apply andb_true_iff in Hh. destruct Hh as [Hx _].
  cbn [app]. apply strip_char_miss. exact (class_not_char p c x Hc Hx).
Qed.

Lemma strip_star_class p h r :
  p "*" = false -> nonempty h = true -> forallb p h = true -> strip_star (h ++ r) = None.
Proof.
  intros Hc Hn Hh. unfold strip_star. rewrite (strip_char_class p "*" h r Hc Hn Hh). reflexivity.
Qed.

Lemma digits_ok_inv d : digits_ok d = true -> nonempty d = true /\ forallb is_digit d = true.
Proof. unfold digits_ok. intros H. apply andb_true_iff in H. exact H. Qed.

Lemma opt_char_digits_hit c d r :
  digits_ok d = true -> stops is_digit r -> opt_char_digits c (c :: d ++ r) = (Some d, r).
Proof.
  intros Hd Hr. destruct (digits_ok_inv d Hd) as [Hn Ha].
  unfold opt_char_digits. rewrite strip_char_hit. rewrite (span_app is_digit d r Ha Hr).
  cbn [fst snd]. rewrite Hn. reflexivity.
Qed.

Lemma opt_char_digits_miss c r :
  match r with [] => True | x :: _ => Ascii.eqb x c = false end -> opt_char_digits c r = (None, r).
Proof.
  intros H. unfold opt_char_digits. destruct r as [|x r]; [reflexivity|].
  rewrite (strip_char_miss c x r H). reflexivity.
Qed.

(* ------------------------------------------------------------------ *)
(* counting ':'                                                        *)

Lemma count_char_app c a b : count_char c (a ++ b) = (count_char c a + count_char c b)%nat.
Proof.
  induction a as [|x a IH]; [reflexivity|]. cbn [app count_char].
  destruct (Ascii.eqb x c); rewrite IH; reflexivity.
Qed.

Lemma count_char_class p c l : p c = false -> forallb p l = true -> count_char c l = 0%nat.
Proof.
  intros Hc. induction l as [|x l IH]; intros H; [reflexivity|].
  cbn [forallb] in H. apply andb_true_iff in H. destruct H as [Hx Hl].
  cbn [count_char]. rewrite (class_not_char p c x Hc Hx). exact (IH Hl).
Qed.

Lemma count_colon_digits d : forallb is_digit d = true -> count_char ":" d = 0%nat.
Proof. apply count_char_class. reflexivity. Qed.

Lemma count_colon_width w : width_ok w = true -> count_char ":" (render_width w) = 0%nat.
Proof.
  destruct w as [d|]; [|reflexivity]. cbn [width_ok render_width]. intros H.
  destruct (digits_ok_inv d H) as [_ Ha]. cbn [count_char].
  change (Ascii.eqb "/" ":") with false. cbv iota. exact (count_colon_digits d Ha).
Qed.

Lemma count_colon_ports p : ports_ok p = true -> (count_char ":" (render_ports p) <= 1)%nat.
Proof.
  destruct p as [[f [l|]]|]; cbn [ports_ok render_ports]; intros H.
  - apply andb_true_iff in H. destruct H as [Hf Hl].
    destruct (digits_ok_inv f Hf) as [_ Haf]. destruct (digits_ok_inv l Hl) as [_ Hal].
    cbn [count_char]. change (Ascii.eqb ":" ":") with true. cbv iota.
    rewrite count_char_app. cbn [count_char]. change (Ascii.eqb "-" ":") with false. cbv iota.
    rewrite (count_colon_digits f Haf), (count_colon_digits l Hal). lia.
  - destruct (digits_ok_inv f H) as [_ Haf].
    cbn [count_char]. change (Ascii.eqb ":" ":") with true. cbv iota.
    rewrite (count_colon_digits f Haf). lia.
  - cbn. lia.
Qed.

(* ------------------------------------------------------------------ *)
(* the tail  [/w][:p[-q]]                                              *)

Lemma stops_digit_ports p : stops is_digit (render_ports p).
Proof. destruct p as [[f [l|]]|]; cbn; auto. Qed.

Lemma opt_slash_render w r :
  width_ok w = true -> stops is_digit r ->
  match r with [] => True | x :: _ => Ascii.eqb x "/" = false end ->
  opt_slash_digits (render_width w ++ r) = (w, r).
Proof.
  intros Hw Hr Hs. destruct w as [d|]; cbn [render_width].
  - cbn [app]. exact (opt_char_digits_hit "/" d r Hw Hr).
  - cbn [app]. exact (opt_char_digits_miss "/" r Hs).
Qed.

Lemma opt_ports_render p :
  ports_ok p = true ->
  opt_ports (render_ports p) =
  (match p with Some (f, _) => Some f | None => None end,
   match p with Some (_, l) => l | None => None end, []).
Proof.
  destruct p as [[f [l|]]|]; cbn [ports_ok render_ports]; intros H; unfold opt_ports.
  - apply andb_true_iff in H. destruct H as [Hf Hl].
    unfold opt_colon_digits.
    rewrite (opt_char_digits_hit ":" f ("-" :: l) Hf); [|reflexivity].
    unfold opt_dash_digits. rewrite <- (app_nil_r l) at 1.
    rewrite (opt_char_digits_hit "-" l [] Hl I). reflexivity.
  - unfold opt_colon_digits. rewrite <- (app_nil_r f) at 1.
    rewrite (opt_char_digits_hit ":" f [] H I).
    unfold opt_dash_digits. rewrite (opt_char_digits_miss "-" [] I). reflexivity.
  - reflexivity.
Qed.

Lemma head_ports_not c p : Ascii.eqb ":" c = false ->
  match render_ports p with [] => True | x :: _ => Ascii.eqb x c = false end.
Proof. intros H. destruct p as [[f [l|]]|]; cbn; auto. Qed.

(* ------------------------------------------------------------------ *)
(* round trip, IPv4 / name form                                        *)

Lemma host4_no_colon h : host4_ok h = true -> count_char ":" h = 0%nat.
Proof.
  unfold host4_ok. destruct (strip_star h) as [t|] eqn:E; unfold name4_ok; intros H;
    apply andb_true_iff in H; destruct H as [_ H].
  - apply strip_star_some in E. subst h. cbn [count_char].
    change (Ascii.eqb "*" ":") with false. change (Ascii.eqb "." ":") with false. cbv iota.
    exact (count_char_class is_host4 ":" t eq_refl H).
  - exact (count_char_class is_host4 ":" h eq_refl H).
Qed.

Lemma stops_host4_tail w p : stops is_host4 (render_width w ++ render_ports p).
Proof. destruct w as [d|]; [reflexivity|]. destruct p as [[f [l|]]|]; cbn; auto. Qed.

Lemma rx4_tail w p :
  width_ok w = true -> ports_ok p = true ->
  forall host,
  (let '(cidr, r1) := opt_slash_digits (render_width w ++ render_ports p) in
   let '(fp, lp, r2) := opt_ports r1 in
   if is_eol r2 then Some (host, cidr, fp, lp) else None) =
  Some (host, w, match p with Some (f, _) => Some f | None => None end,
        match p with Some (_, l) => l | None => None end) :> option groups.
Proof.
  intros Hw Hp host.
  rewrite (opt_slash_render w (render_ports p) Hw (stops_digit_ports p) (head_ports_not "/" p eq_refl)).
  rewrite (opt_ports_render p Hp). reflexivity.
Qed.

Lemma rx4_render sp :
  host4_ok (sp_host sp) = true -> spec_ok sp = true ->
  rx4 (render4 sp) = Some (sp_host sp, sp_width sp, spec_fport sp, spec_lport sp).
Proof.
  intros Hh Hs. unfold spec_ok in Hs. apply andb_true_iff in Hs. destruct Hs as [Hw Hp].
  unfold render4, rx4, spec_fport, spec_lport. unfold host4_ok in Hh.
  destruct (strip_star (sp_host sp)) as [t|] eqn:E.
  - pose proof (strip_star_some _ _ E) as Eh. rewrite Eh. cbn [app]. rewrite strip_star_hit.
    unfold name4_ok in Hh. apply andb_true_iff in Hh. destruct Hh as [Hn Ha].
    rewrite (span_app is_host4 t _ Ha (stops_host4_tail (sp_width sp) (sp_ports sp))).
    cbn [fst snd]. rewrite Hn.
    exact (rx4_tail (sp_width sp) (sp_ports sp) Hw Hp ("*" :: "." :: t)).
  - unfold name4_ok in Hh. apply andb_true_iff in Hh. destruct Hh as [Hn Ha].
    rewrite (strip_star_class is_host4 (sp_host sp) _ eq_refl Hn Ha).
    rewrite (span_app is_host4 (sp_host sp) _ Ha (stops_host4_tail (sp_width sp) (sp_ports sp))).
    cbn [fst snd]. rewrite Hn.
    exact (rx4_tail (sp_width sp) (sp_ports sp) Hw Hp (sp_host sp)).
Qed.

Lemma groups4_render r6 sp :
  host4_ok (sp_host sp) = true -> spec_ok sp = true ->
  subnet_groups_gen r6 (render4 sp) = Some (sp_host sp, sp_width sp, spec_fport sp, spec_lport sp).
Proof.
  intros Hh Hs. unfold subnet_groups_gen.
  replace (Nat.ltb 1 (count_char ":" (render4 sp))) with false; [exact (rx4_render sp Hh Hs)|].
  symmetry. apply Nat.ltb_ge. unfold render4. rewrite !count_char_app.
  unfold spec_ok in Hs. apply andb_true_iff in Hs. destruct Hs as [Hw Hp].
  rewrite (host4_no_colon _ Hh), (count_colon_width _ Hw).
  pose proof (count_colon_ports _ Hp). lia.
Qed.

(* ------------------------------------------------------------------ *)
(* round trip, IPv6 form                                               *)

Lemma host6_inv h : host6_ok h = true ->
  nonempty h = true /\ forallb is_host6 h = true /\ (2 <= count_char ":" h)%nat.
Proof.
  unfold host6_ok. intros H. apply andb_true_iff in H. destruct H as [H H2].
  apply andb_true_iff in H. destruct H as [H0 H1]. apply Nat.ltb_lt in H2. auto.
Qed.

Lemma tail6_render_plain w :
  width_ok w = true -> tail6 (render_width w) = Some (w, None, None).
Proof.
  intros Hw. unfold tail6. rewrite <- (app_nil_r (render_width w)).
  rewrite (opt_slash_render w [] Hw I I). reflexivity.
Qed.

Lemma tail6_render_bracket w p :
  width_ok w = true -> ports_ok p = true ->
  tail6 (render_width w ++ "]" :: render_ports p) =
  Some (w, match p with Some (f, _) => Some f | None => None end,
        match p with Some (_, l) => l | None => None end).
Proof.
  intros Hw Hp. unfold tail6.
  rewrite (opt_slash_render w ("]" :: render_ports p) Hw); [|reflexivity|reflexivity].
  rewrite strip_char_hit. rewrite (opt_ports_render p Hp). reflexivity.
Qed.

Lemma stops_host6_width w r :
  stops is_host6 r -> stops is_host6 (render_width w ++ r).
Proof. destruct w; [reflexivity|auto]. Qed.

Lemma rx6_render sp :
  host6_ok (sp_host sp) = true -> spec_ok sp = true ->
  rx6 (render6 sp) = Some (sp_host sp, sp_width sp, spec_fport sp, spec_lport sp).
Proof.
  intros Hh Hs. unfold spec_ok in Hs. apply andb_true_iff in Hs. destruct Hs as [Hw Hp].
  destruct (host6_inv _ Hh) as (Hn & Ha & _).
  unfold render6, rx6, rx6_gen, spec_fport, spec_lport.
  destruct (sp_ports sp) as [pp|] eqn:Ep.
  - rewrite strip_char_hit.
    rewrite (strip_star_class is_host6 (sp_host sp) _ eq_refl Hn Ha).
    rewrite (span_app is_host6 (sp_host sp) _ Ha
               (stops_host6_width (sp_width sp) ("]" :: render_ports (Some pp)) eq_refl)).
    cbn [fst snd]. rewrite Hn.
    rewrite (tail6_render_bracket (sp_width sp) (Some pp) Hw Hp). reflexivity.
  - rewrite (strip_char_class is_host6 "[" (sp_host sp) _ eq_refl Hn Ha).
    rewrite (strip_star_class is_host6 (sp_host sp) _ eq_refl Hn Ha).
    assert (Hst : stops is_host6 (render_width (sp_width sp)))
      by (destruct (sp_width sp); [reflexivity|exact I]).
    rewrite (span_app is_host6 (sp_host sp) _ Ha Hst).
    cbn [fst snd]. rewrite Hn.
    rewrite (tail6_render_plain (sp_width sp) Hw). reflexivity.
Qed.

Lemma groups6_render sp :
  host6_ok (sp_host sp) = true -> spec_ok sp = true ->
  subnet_groups (render6 sp) = Some (sp_host sp, sp_width sp, spec_fport sp, spec_lport sp).
Proof.
  intros Hh Hs. unfold subnet_groups, subnet_groups_gen.
  replace (Nat.ltb 1 (count_char ":" (render6 sp))) with true; [exact (rx6_render sp Hh Hs)|].
  symmetry. apply Nat.ltb_lt. destruct (host6_inv _ Hh) as (_ & _ & Hc).
  unfold render6. destruct (sp_ports sp).
  - cbn [count_char]. change (Ascii.eqb "[" ":") with false. cbv iota.
    rewrite !count_char_app. lia.
  - rewrite !count_char_app. lia.
Qed.

(* ------------------------------------------------------------------ *)
(* from the groups to the returned tuples                              *)

Lemma py_int_short d : short d = true -> py_int d = Ok (dec_val d).
Proof.
  unfold short, py_int. intros H.
  destruct (MAX_STR_DIGITS <? lenN d) eqn:E; [lia|reflexivity].
Qed.

Lemma single_not_mixed (fam : N) (addr : bytes) :
  existsb (fun a : N * bytes => fst a =? AF_INET) [(fam, addr)] &&
  existsb (fun a : N * bytes => fst a =? AF_INET6) [(fam, addr)] = false.
Proof.
  cbn [existsb fst]. unfold AF_INET, AF_INET6.
  destruct (fam =? 2) eqn:E2; destruct (fam =? 10) eqn:E10; try reflexivity. lia.
Qed.

Lemma parse_subnetport_single r6 rs s host cidr fp lp fam addr :
  subnet_groups_gen r6 s = Some (host, cidr, fp, lp) ->
  getaddrinfo rs host = Ok [(fam, addr)] ->
  parse_subnetport_gen r6 rs s = subnet_entries cidr fp lp [(fam, addr)].
Proof.
  intros Hg Ha. unfold parse_subnetport_gen. rewrite Hg, Ha.
  rewrite single_not_mixed. destruct cidr; reflexivity.
Qed.

Lemma subnet_entry_spec sp fam addr :
  spec_short sp = true ->
  (match sp_width sp with None => True | Some d => dec_val d <= max_width fam end) ->
  subnet_entry (sp_width sp) (spec_fport sp) (spec_lport sp) (fam, addr) =
  Ok (fam, addr, spec_width_val fam sp, spec_fport_val sp, spec_lport_val sp).
Proof.
  unfold spec_short, subnet_entry, spec_fport, spec_lport, spec_width_val, spec_fport_val, spec_lport_val.
  intros Hs Hw. apply andb_true_iff in Hs. destruct Hs as [Hsw Hsp].
  destruct (sp_width sp) as [d|].
  - rewrite (py_int_short d Hsw).
    destruct (dec_val d <=? max_width fam) eqn:E; [|lia].
    destruct (sp_ports sp) as [[f [l|]]|]; cbn [opt_int or_else].
    + apply andb_true_iff in Hsp. destruct Hsp as [Hf Hl].
      rewrite (py_int_short f Hf), (py_int_short l Hl). reflexivity.
    + rewrite (py_int_short f Hsp). reflexivity.
    + reflexivity.
  - destruct (sp_ports sp) as [[f [l|]]|]; cbn [opt_int or_else].
    + apply andb_true_iff in Hsp. destruct Hsp as [Hf Hl].
      rewrite (py_int_short f Hf), (py_int_short l Hl). reflexivity.
    + rewrite (py_int_short f Hsp). reflexivity.
    + reflexivity.
Qed.

Lemma subnet_roundtrip_gen r6 rs sp text fam addr :
  subnet_groups_gen r6 text = Some (sp_host sp, sp_width sp, spec_fport sp, spec_lport sp) ->
  spec_short sp = true ->
  getaddrinfo rs (sp_host sp) = Ok [(fam, addr)] ->
  (match sp_width sp with None => True | Some d => dec_val d <= max_width fam end) ->
  parse_subnetport_gen r6 rs text =
  Ok [(fam, addr, spec_width_val fam sp, spec_fport_val sp, spec_lport_val sp)].
Proof.
  intros Hg Hs Ha Hw.
  rewrite (parse_subnetport_single r6 rs text _ _ _ _ fam addr Hg Ha).
  cbn [subnet_entries]. rewrite (subnet_entry_spec sp fam addr Hs Hw). reflexivity.
Qed.

Lemma subnet_roundtrip4 rs sp fam addr :
  host4_ok (sp_host sp) = true -> spec_ok sp = true -> spec_short sp = true ->
  getaddrinfo rs (sp_host sp) = Ok [(fam, addr)] ->
  (match sp_width sp with None => True | Some d => dec_val d <= max_width fam end) ->
  parse_subnetport rs (render4 sp) =
  Ok [(fam, addr, spec_width_val fam sp, spec_fport_val sp, spec_lport_val sp)].
Proof.
  intros Hh Hok Hs Ha Hw.
  exact (subnet_roundtrip_gen rx6 rs sp _ fam addr (groups4_render rx6 sp Hh Hok) Hs Ha Hw).
Qed.

Lemma subnet_roundtrip6 rs sp fam addr :
  host6_ok (sp_host sp) = true -> spec_ok sp = true -> spec_short sp = true ->
  getaddrinfo rs (sp_host sp) = Ok [(fam, addr)] ->
  (match sp_width sp with None => True | Some d => dec_val d <= max_width fam end) ->
  parse_subnetport rs (render6 sp) =
  Ok [(fam, addr, spec_width_val fam sp, spec_fport_val sp, spec_lport_val sp)].
Proof.
  intros Hh Hok Hs Ha Hw.
  exact (subnet_roundtrip_gen rx6 rs sp _ fam addr (groups6_render sp Hh Hok) Hs Ha Hw).
Qed.

(* a name that resolves to several addresses: every address, same width/ports *)
Lemma subnet_entries_map sp ai :
  spec_short sp = true ->
  (forall a, In a ai -> match sp_width sp with None => True | Some d => dec_val d <= max_width (fst a) end) ->
  subnet_entries (sp_width sp) (spec_fport sp) (spec_lport sp) ai =
  Ok (map (fun a => (fst a, snd a, spec_width_val (fst a) sp, spec_fport_val sp, spec_lport_val sp)) ai).
Proof.
  intros Hs. induction ai as [|[fam addr] ai IH]; intros Hw; [reflexivity|].
  cbn [subnet_entries map fst snd].
  rewrite (subnet_entry_spec sp fam addr Hs (Hw (fam, addr) (or_introl eq_refl))).
  rewrite IH; [reflexivity|]. intros a Ha. apply Hw. right. exact Ha.
Qed.

(* ------------------------------------------------------------------ *)
(* width outside the family's range                                    *)

Lemma subnet_entries_bad_width d fp lp a t :
  max_width (fst a) < dec_val d ->
  exists e, subnet_entries (Some d) fp lp (a :: t) = Raise e /\ argparse_catches e = true.
Proof.
  intros Hw. destruct a as [fam addr]. cbn [fst] in Hw. cbn [subnet_entries subnet_entry].
  unfold py_int. destruct (MAX_STR_DIGITS <? lenN d).
  - exists EValue. split; reflexivity.
  - destruct (dec_val d <=? max_width fam) eqn:E; [lia|].
    exists (EArgType MsgWidth). split; reflexivity.
Qed.

Lemma width_range_gen r6 rs s host d fp lp a t :
  subnet_groups_gen r6 s = Some (host, Some d, fp, lp) ->
  getaddrinfo rs host = Ok (a :: t) ->
  max_width (fst a) < dec_val d ->
  argparse_type (parse_subnetport_gen r6 rs s) = OUsage.
Proof.
  intros Hg Ha Hw. unfold parse_subnetport_gen. rewrite Hg, Ha.
  destruct (existsb _ (a :: t) && existsb _ (a :: t)); [reflexivity|].
  destruct (subnet_entries_bad_width d fp lp a t Hw) as (e & -> & He).
  cbn [argparse_type]. rewrite He. reflexivity.
Qed.

(* ------------------------------------------------------------------ *)
(* parse_hostport raises nothing but ValueError                        *)

Lemma url_port_exn p e : url_port p = Raise e -> e = EValue.
Proof.
  destruct p as [t|]; cbn [url_port]; [|discriminate].
  destruct (forallb is_digit t); [|intros [= <-]; reflexivity].
  unfold py_int. destruct (MAX_STR_DIGITS <? lenN t); [intros [= <-]; reflexivity|].
  destruct (dec_val t <=? 65535); [discriminate|intros [= <-]; reflexivity].
Qed.

Lemma url_hostinfo_exn h e : url_hostinfo h = Raise e -> e = EValue.
Proof.
  unfold url_hostinfo.
  destruct (xorb _ _); [intros [= <-]; reflexivity|].
  destruct (partition_on "[" _) as [[x have_br] bracketed].
  destruct (if have_br then _ else _) as [hostname porttxt].
  destruct (_ && negb _); [intros [= <-]; reflexivity|discriminate].
Qed.

Lemma host_part_exn h e : host_part h = Raise e -> e = EValue.
Proof.
  unfold host_part. destruct (mem_char ":" h); [|discriminate].
  destruct (py_ip_str h); [discriminate|].
  destruct (url_hostinfo h) as [[hn ptxt]|e'] eqn:E.
  - destruct (url_port ptxt) eqn:Ep; [discriminate|]. intros [= <-]. exact (url_port_exn _ _ Ep).
  - intros [= <-]. exact (url_hostinfo_exn _ _ E).
Qed.

Lemma parse_hostport_exn s e : parse_hostport s = Raise e -> e = EValue.
Proof.
  unfold parse_hostport. destruct s as [|c s]; [discriminate|].
  destruct (match rsplit_last "@" (c :: s) with Some _ => _ | None => _ end) as [user0 host0].
  destruct (match user0 with Some _ => _ | None => _ end) as [user pass].
  destruct (host_part host0) as [[port host]|e'] eqn:E; [discriminate|].
  intros [= <-]. exact (host_part_exn _ _ E).
Qed.

(* ------------------------------------------------------------------ *)
(* command line over environment                                       *)

Lemma last_value_app d cur a b :
  last_value d cur (a ++ b) = last_value d (last_value d cur a) b.
Proof.
  revert cur. induction a as [|[k v] a IH]; intros cur; [reflexivity|].
  cbn [app last_value]. apply IH.
Qed.

Lemma last_value_absent d cur a : ~ In d (map fst a) -> last_value d cur a = cur.
Proof.
  revert cur. induction a as [|[k v] a IH]; intros cur H; [reflexivity|].
  cbn [last_value]. cbn [map fst In] in H.
  destruct (bytes_eqb k d) eqn:E.
  - apply bytes_eqb_eq in E. tauto.
  - apply IH. tauto.
Qed.

Lemma last_value_present d c1 c2 a : In d (map fst a) -> last_value d c1 a = last_value d c2 a.
Proof.
  revert c1 c2. induction a as [|[k v] a IH]; intros c1 c2 H; [destruct H|].
  cbn [last_value]. destruct (bytes_eqb k d) eqn:E; [reflexivity|].
  apply IH. cbn [map fst In] in H. destruct H as [H|H]; [|exact H].
  subst. rewrite bytes_eqb_refl in E. discriminate.
Qed.

Lemma cli_overrides_env d env cli :
  In d (map fst cli) -> effective d (merge_args env cli) = effective d cli.
Proof.
  intros H. unfold effective, merge_args. rewrite last_value_app. apply last_value_present. exact H.
Qed.

Lemma env_used_when_cli_silent d env cli :
  ~ In d (map fst cli) -> effective d (merge_args env cli) = effective d env.
Proof.
  intros H. unfold effective, merge_args. rewrite last_value_app. apply last_value_absent. exact H.
Qed.

Lemma effective_is_last d a v b :
  ~ In d (map fst b) -> effective d (a ++ (d, v) :: b) = Some v.
Proof.
  intros H. unfold effective. rewrite last_value_app. cbn [last_value].
  rewrite bytes_eqb_refl. apply last_value_absent. exact H.
Qed.

(* ------------------------------------------------------------------ *)
(* split / partition                                                   *)

Lemma split_on_lacks c a : lacks c a = true -> split_on c a = [a].
Proof.
  induction a as [|x a IH]; intros H; [reflexivity|].
  cbn [lacks forallb] in H. apply andb_true_iff in H. destruct H as [Hx Ha].
  apply negb_true_iff in Hx. cbn [split_on]. rewrite Hx. rewrite (IH Ha). reflexivity.
Qed.

Lemma split_on_app_sep c a r : lacks c a = true -> split_on c (a ++ c :: r) = a :: split_on c r.
Proof.
  induction a as [|x a IH]; intros H.
  - cbn [app split_on]. rewrite Ascii.eqb_refl. reflexivity.
  - cbn [lacks forallb] in H. apply andb_true_iff in H. destruct H as [Hx Ha].
    apply negb_true_iff in Hx. cbn [app split_on]. rewrite Hx. rewrite (IH Ha). reflexivity.
Qed.

Lemma partition_on_app c x y : lacks c x = true -> partition_on c (x ++ c :: y) = (x, true, y).
Proof.
  induction x as [|k x IH]; intros H.
  - cbn [app partition_on]. rewrite Ascii.eqb_refl. reflexivity.
  - cbn [lacks forallb] in H. apply andb_true_iff in H. destruct H as [Hk Hx].
    apply negb_true_iff in Hk. cbn [app partition_on]. rewrite Hk. rewrite (IH Hx). reflexivity.
Qed.

Lemma partition_on_lacks c x : lacks c x = true -> partition_on c x = (x, false, []).
Proof.
  induction x as [|k x IH]; intros H; [reflexivity|].
  cbn [lacks forallb] in H. apply andb_true_iff in H. destruct H as [Hk Hx].
  apply negb_true_iff in Hk. cbn [partition_on]. rewrite Hk. rewrite (IH Hx). reflexivity.
Qed.

Lemma lacks_rev c l : lacks c l = true -> lacks c (rev l) = true.
Proof.
  unfold lacks. rewrite !forallb_forall. intros H x Hx. apply H. apply in_rev. exact Hx.
Qed.

Lemma rsplit_last_app c a b : lacks c b = true -> rsplit_last c (a ++ c :: b) = Some (a, b).
Proof.
  intros H. unfold rsplit_last.
  rewrite rev_app_distr. cbn [rev]. rewrite <- app_assoc. cbn [app].
  rewrite (partition_on_app c (rev b) (rev a) (lacks_rev c b H)).
  rewrite !rev_involutive. reflexivity.
Qed.

Lemma rsplit_last_lacks c s : lacks c s = true -> rsplit_last c s = None.
Proof.
  intros H. unfold rsplit_last. rewrite (partition_on_lacks c (rev s) (lacks_rev c s H)). reflexivity.
Qed.

Lemma lacks_mem c l : lacks c l = true -> mem_char c l = false.
Proof.
  induction l as [|x l IH]; intros H; [reflexivity|].
  cbn [lacks forallb] in H. apply andb_true_iff in H. destruct H as [Hx Hl].
  apply negb_true_iff in Hx. cbn [mem_char existsb].
  replace (Ascii.eqb c x) with false; [exact (IH Hl)|].
  symmetry. rewrite Ascii.eqb_sym. exact Hx.
Qed.

Lemma class_lacks p c l : p c = false -> forallb p l = true -> lacks c l = true.
Proof.
  intros Hc H. unfold lacks. rewrite forallb_forall in *. intros x Hx.
  apply negb_true_iff. exact (class_not_char p c x Hc (H x Hx)).
Qed.

(* ------------------------------------------------------------------ *)
(* parse_hostport: user, password, host                                *)

Lemma host_part_plain h : lacks ":" h = true -> host_part h = Ok (None, Some h).
Proof. intros H. unfold host_part. rewrite (lacks_mem ":" h H). reflexivity. Qed.

Definition with_user (u : option bytes) (pw : option bytes) (r : res (option N * option bytes))
  : res hostport :=
  match r with
  | Raise e => Raise e
  | Ok (port, host) => Ok (u, pw, port, host)
  end.

Lemma hostport_user_pass u pw hp :
  lacks ":" u = true -> lacks "@" hp = true ->
  parse_hostport (u ++ ":" :: pw ++ "@" :: hp) =
  with_user (Some u) (if nonempty pw then Some pw else None) (host_part hp).
Proof.
  intros Hu Hh. unfold parse_hostport.
  destruct (u ++ ":" :: pw ++ "@" :: hp) as [|c l] eqn:E.
  - apply app_eq_nil in E. destruct E as [_ E]. discriminate.
  - rewrite <- E.
    replace (u ++ ":" :: pw ++ "@" :: hp) with ((u ++ ":" :: pw) ++ "@" :: hp)
      by (rewrite <- app_assoc; reflexivity).
    rewrite (rsplit_last_app "@" (u ++ ":" :: pw) hp Hh).
    rewrite (partition_on_app ":" u pw Hu).
    unfold with_user. destruct pw; reflexivity.
Qed.

Lemma hostport_user u hp :
  lacks ":" u = true -> lacks "@" hp = true ->
  parse_hostport (u ++ "@" :: hp) = with_user (Some u) None (host_part hp).
Proof.
  intros Hu Hh. unfold parse_hostport.
  destruct (u ++ "@" :: hp) as [|c l] eqn:E.
  - apply app_eq_nil in E. destruct E as [_ E]. discriminate.
  - rewrite <- E. rewrite (rsplit_last_app "@" u hp Hh).
    rewrite (partition_on_lacks ":" u Hu). reflexivity.
Qed.

Lemma hostport_nouser hp :
  nonempty hp = true -> lacks "@" hp = true ->
  parse_hostport hp = with_user None None (host_part hp).
Proof.
  intros Hn Hh. unfold parse_hostport. destruct hp as [|c l]; [discriminate|].
  rewrite (rsplit_last_lacks "@" (c :: l) Hh). reflexivity.
Qed.

(* ------------------------------------------------------------------ *)
(* parse_ipport                                                        *)

Lemma forallb_app_false {A} (p : A -> bool) a x b : p x = false -> forallb p (a ++ x :: b) = false.
Proof.
  intros H. rewrite forallb_app. cbn [forallb]. rewrite H. cbn. apply andb_false_r.
Qed.

Lemma mem_char_app c a b : mem_char c (a ++ b) = mem_char c a || mem_char c b.
Proof. unfold mem_char. apply existsb_app. Qed.

Lemma name4_inv h : name4_ok h = true -> nonempty h = true /\ forallb is_host4 h = true.
Proof. unfold name4_ok. intros H. apply andb_true_iff in H. exact H. Qed.

Lemma ipport_groups_plain h p :
  name4_ok h = true -> digits_ok p = true -> ipport_groups (h ++ ":" :: p) = Some (h, Some p).
Proof.
  intros Hh Hp. destruct (name4_inv h Hh) as [Hn Ha]. destruct (digits_ok_inv p Hp) as [Hnp Hap].
  unfold ipport_groups. rewrite (forallb_app_false is_digit h ":" p eq_refl). rewrite andb_false_r.
  rewrite mem_char_app. rewrite (lacks_mem "]" h (class_lacks is_host4 "]" h eq_refl Ha)).
  cbn [mem_char existsb orb]. change (Ascii.eqb "]" ":") with false. cbn [orb].
  fold (mem_char "]" p). rewrite (lacks_mem "]" p (class_lacks is_digit "]" p eq_refl Hap)).
  unfold rx_ip_plain. rewrite (span_app is_host4 h (":" :: p) Ha eq_refl). cbn [fst snd]. rewrite Hn.
  unfold opt_colon_digits. rewrite <- (app_nil_r p) at 1.
  rewrite (opt_char_digits_hit ":" p [] Hp I). reflexivity.
Qed.

Lemma ipport_groups_host h :
  name4_ok h = true -> forallb is_digit h = false -> ipport_groups h = Some (h, None).
Proof.
  intros Hh Hd. destruct (name4_inv h Hh) as [Hn Ha].
  unfold ipport_groups. rewrite Hd, andb_false_r.
  rewrite (lacks_mem "]" h (class_lacks is_host4 "]" h eq_refl Ha)).
  unfold rx_ip_plain. rewrite (span_all is_host4 h Ha). cbn [fst snd]. rewrite Hn.
  unfold opt_colon_digits. rewrite (opt_char_digits_miss ":" [] I). reflexivity.
Qed.

Lemma ipport_groups_port p : digits_ok p = true -> ipport_groups p = Some ([], Some p).
Proof. intros Hp. unfold ipport_groups. unfold digits_ok in Hp. rewrite Hp. reflexivity. Qed.

Lemma ipport_groups_bracket h p :
  nonempty h = true -> lacks "]" h = true -> ports_ok (option_map (fun d => (d, None)) p) = true ->
  ipport_groups ("[" :: h ++ "]" :: match p with Some d => ":" :: d | None => [] end) = Some (h, p).
Proof.
  intros Hn Hl Hp. unfold ipport_groups.
  cbn [forallb]. change (is_digit "[") with false. cbn [andb]. rewrite andb_false_r.
  cbn [mem_char existsb]. change (Ascii.eqb "]" "[") with false. cbn [orb].
  fold (mem_char "]" (h ++ "]" :: match p with Some d => ":" :: d | None => [] end)).
  rewrite mem_char_app. cbn [mem_char existsb]. rewrite Ascii.eqb_refl. cbn [orb]. rewrite orb_true_r.
  unfold rx_ip_bracket. rewrite strip_char_hit.
  rewrite (span_app (fun c => negb (Ascii.eqb c "]")) h _ Hl); [|reflexivity].
  cbn [fst snd]. rewrite Hn. rewrite strip_char_hit.
  destruct p as [d|]; cbn [option_map ports_ok] in Hp.
  - unfold opt_colon_digits. rewrite <- (app_nil_r d) at 1.
    rewrite (opt_char_digits_hit ":" d [] Hp I). reflexivity.
  - reflexivity.
Qed.

Lemma gai_port_small n : n <= 65535 -> gai_port n = Some n.
Proof.
  intros H. unfold gai_port.
  destruct (18446744073709551615 <? n) eqn:E1; [lia|].
  rewrite (N.mod_small n 4294967296) by lia.
  destruct (2147483647 <? n) eqn:E2; [lia|].
  rewrite (N.mod_small n 65536) by lia. reflexivity.
Qed.

Lemma parse_ipport_single rs s h p fam addr :
  ipport_groups s = Some (h, p) -> nonempty h = true ->
  match p with Some d => short d = true /\ dec_val d <= 65535 | None => True end ->
  getaddrinfo rs h = Ok [(fam, addr)] ->
  parse_ipport rs s = Ok (fam, addr, match p with Some d => dec_val d | None => 0 end).
Proof.
  intros Hg Hn Hp Ha. unfold parse_ipport. rewrite Hg, Hn.
  destruct p as [d|]; cbn [opt_int].
  - destruct Hp as [Hs Hv]. rewrite (py_int_short d Hs). rewrite Ha.
    rewrite (gai_port_small _ Hv). reflexivity.
  - rewrite Ha. reflexivity.
Qed.

Lemma parse_ipport_portonly rs p :
  digits_ok p = true -> short p = true -> dec_val p <= 65535 ->
  parse_ipport rs p = Ok (AF_INET, ANY4, dec_val p).
Proof.
  intros Hp Hs Hv. unfold parse_ipport. rewrite (ipport_groups_port p Hp).
  cbn [nonempty opt_int]. rewrite (py_int_short p Hs).
  replace (getaddrinfo rs ANY4) with (Ok [(AF_INET, ANY4)] : res (list (N * bytes)))
    by (vm_compute; reflexivity).
  rewrite (gai_port_small _ Hv). reflexivity.
Qed.

(* ------------------------------------------------------------------ *)
(* IPv4: every numbers-and-dots spelling prints as the dotted quad of  *)
(* its value, and the dotted quad is a fixed point                     *)

Definition octets : list N := map N.of_nat (seq 0 256).

Lemma in_octets n : n < 256 -> In n octets.
Proof.
  intros H. unfold octets. rewrite <- (N2Nat.id n). apply in_map. apply in_seq. lia.
Qed.

Definition octet_check (n : N) : bool :=
  match c_number (dec3 n), strict_octet (dec3 n) with
  | Some a, Some b => (a =? n) && (b =? n) && lacks "." (dec3 n) && (lenN (dec3 n) <? 64)
  | _, _ => false
  end.

Lemma octet_sweep : forallb octet_check octets = true.
Proof. vm_compute. reflexivity. Qed.

Lemma octet_facts n : n < 256 ->
  c_number (dec3 n) = Some n /\ strict_octet (dec3 n) = Some n /\
  lacks "." (dec3 n) = true /\ lenN (dec3 n) < 64.
Proof.
  intros H. pose proof (proj1 (forallb_forall _ _) octet_sweep n (in_octets n H)) as Hc.
  unfold octet_check in Hc.
  destruct (c_number (dec3 n)) as [a|]; [|discriminate].
  destruct (strict_octet (dec3 n)) as [b|]; [|discriminate].
  apply andb_true_iff in Hc. destruct Hc as [Hc H4].
  apply andb_true_iff in Hc. destruct Hc as [Hc H3].
  apply andb_true_iff in Hc. destruct Hc as [H1 H2].
  apply N.eqb_eq in H1. apply N.eqb_eq in H2. subst. repeat split; try assumption. lia.
Qed.

Ltac Zify.zify_post_hook ::= Z.to_euclidean_division_equations.

Lemma v4_octet_bounds v : v < 4294967296 ->
  v / 16777216 < 256 /\ (v / 65536) mod 256 < 256 /\ (v / 256) mod 256 < 256 /\ v mod 256 < 256 /\
  v / 16777216 * 16777216 + (v / 65536) mod 256 * 65536 + (v / 256) mod 256 * 256 + v mod 256 = v.
Proof. intros H. lia. Qed.

Lemma print_v4_split v : v < 4294967296 ->
  split_on "." (print_v4 v) =
  [dec3 (v / 16777216); dec3 ((v / 65536) mod 256); dec3 ((v / 256) mod 256); dec3 (v mod 256)].
Proof.
  intros H. destruct (v4_octet_bounds v H) as (Ha & Hb & Hc & Hd & _).
  destruct (octet_facts _ Ha) as (_ & _ & La & _). destruct (octet_facts _ Hb) as (_ & _ & Lb & _).
  destruct (octet_facts _ Hc) as (_ & _ & Lc & _). destruct (octet_facts _ Hd) as (_ & _ & Ld & _).
  unfold print_v4.
  rewrite (split_on_app_sep "." _ _ La), (split_on_app_sep "." _ _ Lb),
          (split_on_app_sep "." _ _ Lc), (split_on_lacks "." _ Ld). reflexivity.
Qed.

Lemma inet_aton_print_v4 v : v < 4294967296 -> inet_aton (print_v4 v) = Some v.
Proof.
  intros H. destruct (v4_octet_bounds v H) as (Ha & Hb & Hc & Hd & Hv).
  destruct (octet_facts _ Ha) as (Ca & _). destruct (octet_facts _ Hb) as (Cb & _).
  destruct (octet_facts _ Hc) as (Cc & _). destruct (octet_facts _ Hd) as (Cd & _).
  unfold inet_aton. rewrite (print_v4_split v H). cbn [map]. rewrite Ca, Cb, Cc, Cd.
  replace ((v / 16777216 <=? 255) && ((v / 65536) mod 256 <=? 255) &&
           ((v / 256) mod 256 <=? 255) && (v mod 256 <=? 255)) with true.
  - f_equal. exact Hv.
  - symmetry. repeat (apply andb_true_iff; split); apply N.leb_le; lia.
Qed.

Lemma parse_v4_strict_print_v4 v : v < 4294967296 -> parse_v4_strict (print_v4 v) = Some v.
Proof.
  intros H. destruct (v4_octet_bounds v H) as (Ha & Hb & Hc & Hd & Hv).
  destruct (octet_facts _ Ha) as (_ & Ca & _). destruct (octet_facts _ Hb) as (_ & Cb & _).
  destruct (octet_facts _ Hc) as (_ & Cc & _). destruct (octet_facts _ Hd) as (_ & Cd & _).
  unfold parse_v4_strict. rewrite (print_v4_split v H). cbn [map]. rewrite Ca, Cb, Cc, Cd.
  f_equal. exact Hv.
Qed.

Lemma idna_print_v4 v : v < 4294967296 -> idna_labels_ok (split_on "." (print_v4 v)) = true.
Proof.
  intros H. destruct (v4_octet_bounds v H) as (Ha & Hb & Hc & Hd & _).
  destruct (octet_facts _ Ha) as (Ca & _ & _ & La). destruct (octet_facts _ Hb) as (Cb & _ & _ & Lb).
  destruct (octet_facts _ Hc) as (Cc & _ & _ & Lc). destruct (octet_facts _ Hd) as (Cd & _ & _ & Ld).
  rewrite (print_v4_split v H). cbn [idna_labels_ok].
  assert (P : forall n, c_number (dec3 n) = Some n -> 0 <? lenN (dec3 n) = true).
  { intros n Hn. destruct (dec3 n); [discriminate|]. rewrite lenN_cons. apply N.ltb_lt. lia. }
  rewrite (P _ Ca), (P _ Cb), (P _ Cc).
  repeat (apply andb_true_iff; split); try reflexivity; apply N.ltb_lt; assumption.
Qed.

Lemma inet_aton_range s v : inet_aton s = Some v -> v < 4294967296.
Proof.
  unfold inet_aton.
  destruct (map c_number (split_on "." s)) as [|[a|] [|[b|] [|[c|] [|[d|] [|x l]]]]]; try discriminate.
  - destruct (a <=? 4294967295) eqn:E; [|discriminate]. intros [= <-]. lia.
  - destruct ((a <=? 255) && (b <=? 16777215)) eqn:E; [|discriminate]. intros [= <-]. lia.
  - destruct ((a <=? 255) && (b <=? 255) && (c <=? 65535)) eqn:E; [|discriminate]. intros [= <-]. lia.
  - destruct ((a <=? 255) && (b <=? 255) && (c <=? 255) && (d <=? 255)) eqn:E; [|discriminate].
    intros [= <-]. lia.
Qed.

Lemma getaddrinfo_v4 rs s v :
  inet_aton s = Some v -> idna_labels_ok (split_on "." s) = true ->
  getaddrinfo rs s = Ok [(AF_INET, print_v4 v)].
Proof. intros Ha Hi. unfold getaddrinfo. rewrite Hi, Ha. reflexivity. Qed.

(* the dotted quad is a fixed point of the resolver: canonical *)
Lemma getaddrinfo_print_v4 rs v : v < 4294967296 ->
  getaddrinfo rs (print_v4 v) = Ok [(AF_INET, print_v4 v)].
Proof.
  intros H. exact (getaddrinfo_v4 rs _ v (inet_aton_print_v4 v H) (idna_print_v4 v H)).
Qed.

(* spellings *)
Lemma c_number_part p : part_ok p = true -> c_number (part_text p) = Some (part_val p).
Proof.
  destruct p as [r ds]. unfold part_ok, part_text, part_val. cbn [fst snd]. destruct r as [|u|].
  - intros H. apply andb_true_iff in H. destruct H as [Hd Hz].
    destruct (digits_ok_inv ds Hd) as [Hn Ha]. destruct ds as [|c t]; [discriminate|].
    cbn [c_number]. destruct (Ascii.eqb c "0") eqn:E.
    + destruct t as [|x t].
      * apply Ascii.eqb_eq in E. subst c. reflexivity.
      * unfold ZERO in Hz. rewrite E in Hz. discriminate.
    + rewrite Ha. reflexivity.
  - intros H. unfold ZERO. cbn [c_number]. change (Ascii.eqb "0" "0") with true. cbv iota.
    replace (Ascii.eqb (if u then X_UP else X_LO) "x" || Ascii.eqb (if u then X_UP else X_LO) "X") with true
      by (destruct u; reflexivity).
    rewrite H. reflexivity.
  - intros H. unfold ZERO. cbn [c_number]. change (Ascii.eqb "0" "0") with true. cbv iota.
    destruct ds as [|x t]; [reflexivity|].
    pose proof H as H'. cbn [forallb] in H'. apply andb_true_iff in H'. destruct H' as [Hx _].
    rewrite (class_not_char is_oct "x" x eq_refl Hx), (class_not_char is_oct "X" x eq_refl Hx).
    cbn [orb]. rewrite H. reflexivity.
Qed.

Lemma part_text_lacks_dot p : part_ok p = true -> lacks "." (part_text p) = true.
Proof.
  destruct p as [r ds]. unfold part_ok, part_text. cbn [fst snd]. destruct r as [|u|]; intros H.
  - apply andb_true_iff in H. destruct H as [Hd _]. destruct (digits_ok_inv ds Hd) as [_ Ha].
    exact (class_lacks is_digit "." ds eq_refl Ha).
  - apply andb_true_iff in H. destruct H as [_ Ha].
    cbn [lacks forallb]. fold (lacks "." ds). rewrite (class_lacks is_hex "." ds eq_refl Ha).
    destruct u; reflexivity.
  - cbn [lacks forallb]. fold (lacks "." ds). rewrite (class_lacks is_oct "." ds eq_refl H). reflexivity.
Qed.

Lemma split_join_dot (ts : list bytes) :
  ts <> [] -> Forall (fun t => lacks "." t = true) ts -> split_on "." (join DOT ts) = ts.
Proof.
  induction ts as [|a ts IH]; intros Hne Hf; [congruence|].
  inversion Hf as [|? ? Ha Hts]; subst.
  destruct ts as [|b ts].
  - cbn [join]. exact (split_on_lacks "." a Ha).
  - change (join DOT (a :: b :: ts)) with (a ++ DOT ++ join DOT (b :: ts)).
    unfold DOT at 1. cbn [app]. rewrite (split_on_app_sep "." a _ Ha).
    rewrite IH; [reflexivity|discriminate|exact Hts].
Qed.

Lemma inet_aton_spelling ps :
  Forall (fun p => part_ok p = true) ps -> inet_aton (spelling_text ps) = spelling_val ps.
Proof.
  intros Hf. destruct ps as [|p0 ps0] eqn:Eps.
  - reflexivity.
  - rewrite <- Eps in *. unfold inet_aton, spelling_text, spelling_val.
    rewrite split_join_dot.
    + rewrite map_map.
      replace (map (fun x => c_number (part_text x)) ps) with (map Some (map part_val ps)).
      * destruct (map part_val ps) as [|a [|b [|c [|d [|x l]]]]]; reflexivity.
      * rewrite map_map. apply map_ext_in. intros p Hp. symmetry. apply c_number_part.
        exact (proj1 (Forall_forall _ _) Hf p Hp).
    + rewrite Eps. discriminate.
    + apply Forall_forall. intros t Ht. apply in_map_iff in Ht. destruct Ht as (p & <- & Hp).
      apply part_text_lacks_dot. exact (proj1 (Forall_forall _ _) Hf p Hp).
Qed.

(* ------------------------------------------------------------------ *)
(* IPv6 printers against the reader: finite sweep                      *)

Definition nlist_eqb (a b : list N) : bool := if list_eq_dec N.eq_dec a b then true else false.

Definition v6_roundtrip_check (ws : list N) : bool :=
  match parse_v6 (print_v6 true ws), parse_v6 (print_v6 false ws) with
  | Some a, Some b => nlist_eqb a ws && nlist_eqb b ws
  | _, _ => false
  end.

Lemma v6_sweep : forallb v6_roundtrip_check (word_lists 8) = true.
Proof. vm_compute. reflexivity. Qed.

Lemma v6_print_parse ws : In ws (word_lists 8) ->
  parse_v6 (print_v6 true ws) = Some ws /\ parse_v6 (print_v6 false ws) = Some ws.
Proof.
  intros H. pose proof (proj1 (forallb_forall _ _) v6_sweep ws H) as Hc.
  unfold v6_roundtrip_check in Hc.
  destruct (parse_v6 (print_v6 true ws)) as [a|]; [|discriminate].
  destruct (parse_v6 (print_v6 false ws)) as [b|]; [|discriminate].
  apply andb_true_iff in Hc. destruct Hc as [H1 H2]. unfold nlist_eqb in *.
  destruct (list_eq_dec N.eq_dec a ws); [|discriminate].
  destruct (list_eq_dec N.eq_dec b ws); [|discriminate]. subst. split; reflexivity.
Qed.

(* ------------------------------------------------------------------ *)
(* finding F23: the IPv6 form as found has no '.' in its host class    *)

Definition no_names : resolver := fun _ => [].
Definition f23_witness : bytes := bytes_of_string "::ffff:1.2.3.4/96"%string.

Lemma f23_repaired :
  parse_subnetport no_names f23_witness =
  Ok [(AF_INET6, bytes_of_string "::ffff:1.2.3.4"%string, 96, 0, 0)].
Proof. vm_compute. reflexivity. Qed.

Lemma f23_asfound : parse_subnetport_asfound no_names f23_witness = Raise (EArgType MsgFormat).
Proof. vm_compute. reflexivity. Qed.
