(* Proofs/FwLife_gen_tbl.v — C04, general theorems, part 2: the iptables table
   operations (find / set / delete chain, -D removing the first equal rule,
   -X refusing referenced chains, the -nL listing) and reference counting. *)
From Coq Require Import String List NArith ZArith Ascii Bool Lia Arith.
From SV Require Import Lib.Bytes Model.FwLife Model.FwLifeSpec Proofs.FwLife_lemmas.
Import ListNotations.

Lemma no_blank_nospace b : no_blank b = nospace b.
Proof. reflexivity. Qed.

Lemma beq_false a b : a <> b -> bytes_eqb a b = false.
Proof. intro H. apply bytes_eqb_neq. exact H. Qed.

(* ---- find_chain against the table updates ---- *)
Lemma fc_set_same b rs rs' T : find_chain b T = Some rs -> find_chain b (set_chain b rs' T) = Some rs'.
Proof.
  induction T as [|[n r0] T IH]; cbn [find_chain set_chain]; [discriminate|].
  destruct (bytes_eqb n b) eqn:E; intro H; cbn [find_chain]; rewrite E; [reflexivity | exact (IH H)].
Qed.

Lemma fc_set_other b c rs' T : c <> b -> find_chain b (set_chain c rs' T) = find_chain b T.
Proof.
  intro Hn. induction T as [|[n r0] T IH]; cbn [find_chain set_chain]; [reflexivity|].
  destruct (bytes_eqb n c) eqn:E; cbn [find_chain].
  - apply bytes_eqb_eq in E. subst n. rewrite (beq_false _ _ Hn). reflexivity.
  - destruct (bytes_eqb n b); [reflexivity | exact IH].
Qed.

Lemma fc_app b c rs T :
  find_chain b (T ++ [(c, rs)]) =
  match find_chain b T with Some r => Some r | None => if bytes_eqb c b then Some rs else None end.
Proof.
  induction T as [|[n r0] T IH]; cbn [app find_chain]; [reflexivity|].
  destruct (bytes_eqb n b); [reflexivity | exact IH].
Qed.

Lemma fc_del_other b c T : c <> b -> find_chain b (del_chain c T) = find_chain b T.
Proof.
  intro Hn. induction T as [|[n r0] T IH]; cbn [find_chain del_chain]; [reflexivity|].
  destruct (bytes_eqb n c) eqn:E; cbn [find_chain].
  - apply bytes_eqb_eq in E. subst n. rewrite (beq_false _ _ Hn). reflexivity.
  - destruct (bytes_eqb n b); [reflexivity | exact IH].
Qed.

Definition ncnt (X : tok) (T : table) : nat :=
  length (filter (fun ch : chain => bytes_eqb (fst ch) X) T).

Lemma ncnt_cons n r0 X T : ncnt X ((n, r0) :: T) = (if bytes_eqb n X then 1 else 0) + ncnt X T.
Proof. unfold ncnt. cbn [filter fst]. destruct (bytes_eqb n X); reflexivity. Qed.

Lemma fc_none_ncnt X T : find_chain X T = None <-> ncnt X T = 0.
Proof.
  induction T as [|[n r0] T IH]; [split; reflexivity|].
  rewrite ncnt_cons. cbn [find_chain]. destruct (bytes_eqb n X); [split; [discriminate | lia] | exact IH].
Qed.

Lemma fc_del_same b T : ncnt b T <= 1 -> find_chain b (del_chain b T) = None.
Proof.
  induction T as [|[n r0] T IH]; [reflexivity|].
  rewrite ncnt_cons. cbn [del_chain]. destruct (bytes_eqb n b) eqn:E; intro H.
  - apply fc_none_ncnt. lia.
  - cbn [find_chain]. rewrite E. apply IH. lia.
Qed.

Lemma ncnt_set X c rs T : ncnt X (set_chain c rs T) = ncnt X T.
Proof.
  induction T as [|[n r0] T IH]; [reflexivity|]. cbn [set_chain].
  destruct (bytes_eqb n c); rewrite !ncnt_cons; [reflexivity | rewrite IH; reflexivity].
Qed.

Lemma ncnt_app X c rs T : ncnt X (T ++ [(c, rs)]) = ncnt X T + (if bytes_eqb c X then 1 else 0).
Proof.
  induction T as [|[n r0] T IH]; [cbn [app]; rewrite ncnt_cons; unfold ncnt; cbn; lia|].
  cbn [app]. rewrite !ncnt_cons, IH. lia.
Qed.

Lemma ncnt_del_le X c T : ncnt X (del_chain c T) <= ncnt X T.
Proof.
  induction T as [|[n r0] T IH]; [cbn; lia|]. cbn [del_chain].
  destruct (bytes_eqb n c); rewrite !ncnt_cons; lia.
Qed.

(* ---- counting the rules that jump to X ---- *)
Lemma cntl_app X a b : cntl X (a ++ b) = cntl X a + cntl X b.
Proof. unfold cntl. rewrite filter_app, app_length. reflexivity. Qed.

Lemma cntl_cons X r rs : cntl X (r :: rs) = (if jumps_to X r then 1 else 0) + cntl X rs.
Proof. unfold cntl. cbn [filter]. destruct (jumps_to X r); reflexivity. Qed.

Lemma cntl_nil X : cntl X [] = 0.
Proof. reflexivity. Qed.

Lemma cntl_repeat X J j : cntl X (repeat J j) = if jumps_to X J then j else 0.
Proof.
  induction j as [|j IH]; cbn [repeat]; [destruct (jumps_to X J); reflexivity|].
  rewrite cntl_cons, IH. destruct (jumps_to X J); reflexivity.
Qed.

Lemma cntl_zero_in X rs r : cntl X rs = 0 -> In r rs -> jumps_to X r = false.
Proof.
  induction rs as [|y rs IH]; [intros _ []|]. rewrite cntl_cons. intros H [->|Hi].
  - destruct (jumps_to X r); [discriminate | reflexivity].
  - apply IH; [|exact Hi]. lia.
Qed.

Lemma cntl_zero_all X rs : (forall r, In r rs -> jumps_to X r = false) -> cntl X rs = 0.
Proof.
  induction rs as [|y rs IH]; intro H; [reflexivity|]. rewrite cntl_cons.
  rewrite (H y (or_introl eq_refl)). rewrite IH; [reflexivity|]. intros r Hr. apply H. right. exact Hr.
Qed.

Fixpoint wref (P : tok -> bool) (X : tok) (T : table) : nat :=
  match T with
  | [] => 0
  | ch :: T' => (if P (fst ch) then cntl X (snd ch) else 0) + wref P X T'
  end.

Lemma wref_set P X b rs rs' T :
  find_chain b T = Some rs ->
  wref P X (set_chain b rs' T) + (if P b then cntl X rs else 0) =
  wref P X T + (if P b then cntl X rs' else 0).
Proof.
  induction T as [|[n r0] T IH]; cbn [find_chain set_chain]; [discriminate|].
  destruct (bytes_eqb n b) eqn:E; intro H.
  - apply bytes_eqb_eq in E. subst n. injection H as ->. cbn [wref fst snd]. lia.
  - cbn [wref fst snd]. specialize (IH H). lia.
Qed.

Lemma wref_app P X c T : wref P X (T ++ [(c, [])]) = wref P X T.
Proof.
  induction T as [|ch T IH]; cbn [app wref fst snd]; [rewrite cntl_nil; destruct (P c); reflexivity|].
  rewrite IH. reflexivity.
Qed.

Lemma wref_del P X c T : find_chain c T = Some [] -> wref P X (del_chain c T) = wref P X T.
Proof.
  induction T as [|[n r0] T IH]; cbn [find_chain del_chain]; [discriminate|].
  destruct (bytes_eqb n c) eqn:E; intro H.
  - injection H as ->. cbn [wref fst snd]. rewrite cntl_nil. destruct (P n); reflexivity.
  - cbn [wref fst snd]. rewrite (IH H). reflexivity.
Qed.

Lemma wref_zero_in P X T ch r :
  wref P X T = 0 -> In ch T -> P (fst ch) = true -> In r (snd ch) -> jumps_to X r = false.
Proof.
  induction T as [|c0 T IH]; [intros _ []|]. cbn [wref]. intros H [->|Hi] Hp Hr.
  - rewrite Hp in H. apply (cntl_zero_in X (snd ch)); [lia | exact Hr].
  - apply IH; [lia | exact Hi | exact Hp | exact Hr].
Qed.

Lemma wref_zero_all P X T :
  (forall ch r, In ch T -> In r (snd ch) -> jumps_to X r = false) -> wref P X T = 0.
Proof.
  induction T as [|c0 T IH]; intro H; [reflexivity|]. cbn [wref].
  rewrite IH by (intros ch r Hc Hr; apply (H ch r); [right; exact Hc | exact Hr]).
  rewrite (cntl_zero_all X (snd c0)) by (intros r Hr; apply (H c0 r); [left; reflexivity | exact Hr]).
  destruct (P (fst c0)); reflexivity.
Qed.

Lemma existsb_cntl X rs : existsb (jumps_to X) rs = negb (Nat.eqb (cntl X rs) 0).
Proof.
  induction rs as [|r rs IH]; [reflexivity|]. rewrite cntl_cons. cbn [existsb].
  destruct (jumps_to X r); [reflexivity | exact IH].
Qed.

Lemma referenced_wref X T : referenced X T = negb (Nat.eqb (wref (fun _ => true) X T) 0).
Proof.
  unfold referenced. induction T as [|ch T IH]; [reflexivity|]. cbn [existsb wref].
  rewrite IH, existsb_cntl.
  destruct (cntl X (snd ch)) as [|k]; cbn [Nat.eqb negb orb plus]; reflexivity.
Qed.

(* ---- -D ---- *)
Lemma remove_first_repeat J j ro : remove_first J (repeat J (S j) ++ ro) = Some (repeat J j ++ ro).
Proof. cbn [repeat app remove_first]. rewrite rule_eqb_refl. reflexivity. Qed.

Lemma remove_first_none X J ro : jumps_to X J = true -> cntl X ro = 0 -> remove_first J ro = None.
Proof.
  intro HJ. induction ro as [|x ro IH]; [reflexivity|]. rewrite cntl_cons. intro H. cbn [remove_first].
  destruct (rule_eqb x J) eqn:E.
  - apply rule_eqb_eq in E. subst x. rewrite HJ in H. discriminate.
  - rewrite IH by lia. reflexivity.
Qed.

(* ---- chain names ---- *)
Definition names_ok (T : table) : Prop := forallb (fun ch : chain => nospace (fst ch)) T = true.

Lemma names_set c rs T : names_ok T -> names_ok (set_chain c rs T).
Proof.
  unfold names_ok. induction T as [|[n r0] T IH]; [trivial|]. cbn [set_chain forallb fst]. intro H.
  apply andb_true_iff in H as [H1 H2].
  destruct (bytes_eqb n c); cbn [forallb fst]; rewrite H1; [exact H2 | exact (IH H2)].
Qed.

Lemma names_app c rs T : nospace c = true -> names_ok T -> names_ok (T ++ [(c, rs)]).
Proof. unfold names_ok. intros Hc H. rewrite forallb_app, H. cbn [forallb fst]. rewrite Hc. reflexivity. Qed.

Lemma names_del c T : names_ok T -> names_ok (del_chain c T).
Proof.
  unfold names_ok. induction T as [|[n r0] T IH]; [trivial|]. cbn [del_chain forallb fst]. intro H.
  apply andb_true_iff in H as [H1 H2].
  destruct (bytes_eqb n c); [exact H2|]. cbn [forallb fst]. rewrite H1. exact (IH H2).
Qed.

Lemma listing_test X T :
  nospace X = true -> aname X = true -> names_ok T -> chain_in_listing X (listing T) = is_some (find_chain X T).
Proof.
  intros HX HA HT. rewrite (chain_in_listing_spec T X HX HA HT). clear HT.
  induction T as [|[n r0] T IH]; [reflexivity|]. cbn [existsb find_chain fst].
  destruct (bytes_eqb n X); [reflexivity | exact IH].
Qed.

(* ---- fixed points of erase_tbl ---- *)
Lemma filter_len_le {A} (P : A -> bool) l : length (filter P l) <= length l.
Proof. induction l as [|x l IH]; [apply le_n|]. cbn [filter]. destruct (P x); cbn [length]; lia. Qed.

Lemma filter_len_all {A} (P : A -> bool) l : length (filter P l) = length l -> forallb P l = true.
Proof.
  induction l as [|x l IH]; [reflexivity|]. cbn [filter forallb]. destruct (P x); cbn [length].
  - intro H. apply IH. lia.
  - intro H. pose proof (filter_len_le P l). lia.
Qed.

Lemma filter_all {A} (P : A -> bool) l : forallb P l = true -> filter P l = l.
Proof.
  induction l as [|x l IH]; [reflexivity|]. cbn [filter forallb]. intro H.
  apply andb_true_iff in H as [H1 H2]. rewrite H1, (IH H2). reflexivity.
Qed.

Lemma owned_rule_existsb cs r : owned_rule cs r = existsb (fun X => jumps_to X r) cs.
Proof.
  unfold owned_rule, jumps_to, tmem. destruct (jump_target r) as [x|]; [reflexivity|].
  induction cs; [reflexivity | exact IHcs].
Qed.

Definition tbl_clean (cs : list tok) (T : table) : Prop :=
  forall ch, In ch T -> tmem (fst ch) cs = false /\ forall r, In r (snd ch) -> owned_rule cs r = false.

Lemma erase_fix_clean cs T : erase_tbl cs None T = T -> tbl_clean cs T.
Proof.
  unfold erase_tbl. intro H.
  assert (L : length (filter (fun ch : chain => negb (tmem (fst ch) cs)) T) = length T).
  { rewrite <- H at 2. rewrite map_length. reflexivity. }
  apply filter_len_all in L. rewrite (filter_all _ _ L) in H.
  rewrite forallb_forall in L.
  intros ch Hc. split; [specialize (L ch Hc); apply negb_true_iff in L; exact L|].
  clear L. induction T as [|c0 T IH]; [destruct Hc|].
  cbn [map] in H. injection H as H0 H1. destruct Hc as [->|Hc]; [|exact (IH H1 Hc)].
  assert (L : length (filter (keep_rule cs None (fst ch)) (snd ch)) = length (snd ch)).
  { apply (f_equal snd) in H0. cbn [snd] in H0. rewrite H0. reflexivity. }
  apply filter_len_all in L. rewrite forallb_forall in L.
  intros r Hr. specialize (L r Hr). unfold keep_rule in L. apply andb_true_iff in L as [L _].
  apply negb_true_iff in L. exact L.
Qed.

Lemma clean_erase_fix cs T : tbl_clean cs T -> erase_tbl cs None T = T.
Proof.
  unfold erase_tbl. intro H.
  rewrite filter_all.
  2:{ apply forallb_forall. intros ch Hc. apply negb_true_iff. exact (proj1 (H ch Hc)). }
  induction T as [|[n rs] T IH]; [reflexivity|]. cbn [map fst snd]. f_equal.
  - f_equal. apply filter_all. apply forallb_forall. intros r Hr. unfold keep_rule.
    rewrite (proj2 (H (n, rs) (or_introl eq_refl)) r Hr). reflexivity.
  - apply IH. intros ch Hc. apply H. right. exact Hc.
Qed.

Lemma erase_tbl_nil T : erase_tbl [] None T = T.
Proof.
  apply clean_erase_fix. intros ch Hc. split; [reflexivity|]. intros r Hr.
  rewrite owned_rule_existsb. reflexivity.
Qed.

Lemma no_divert_nil T : no_divert_tbl [] T = true.
Proof.
  unfold no_divert_tbl. apply forallb_forall. intros ch _. cbn [tmem existsb orb].
  apply forallb_forall. intros r _. destruct (jump_target r); reflexivity.
Qed.

Lemma wref_pos P X T ch r :
  In ch T -> P (fst ch) = true -> In r (snd ch) -> jumps_to X r = true -> 1 <= wref P X T.
Proof.
  intros Hc Hp Hr Hj. destruct (wref P X T) eqn:W; [|lia].
  rewrite (wref_zero_in P X T ch r W Hc Hp Hr) in Hj. discriminate.
Qed.

(* ---- more on set_chain, and fixed points of erase_tbl with an own MARK rule ---- *)
Lemma set_chain_same b rs T : find_chain b T = Some rs -> set_chain b rs T = T.
Proof.
  induction T as [|[n r0] T IH]; cbn [find_chain set_chain]; [reflexivity|].
  destruct (bytes_eqb n b); intro H; [injection H as ->; reflexivity | rewrite (IH H); reflexivity].
Qed.

Lemma set_chain_set b x y T : set_chain b x (set_chain b y T) = set_chain b x T.
Proof.
  induction T as [|[n r0] T IH]; cbn [set_chain]; [reflexivity|].
  destruct (bytes_eqb n b) eqn:E; cbn [set_chain]; rewrite E; [reflexivity | rewrite IH; reflexivity].
Qed.

Lemma find_chain_in b rs T : find_chain b T = Some rs -> In (b, rs) T.
Proof.
  induction T as [|[n r0] T IH]; cbn [find_chain]; [discriminate|].
  destruct (bytes_eqb n b) eqn:E; intro H.
  - apply bytes_eqb_eq in E. subst. injection H as ->. left. reflexivity.
  - right. apply IH. exact H.
Qed.

Lemma erase_fix_keep cs mk T ch r :
  erase_tbl cs mk T = T -> In ch T -> In r (snd ch) -> keep_rule cs mk (fst ch) r = true.
Proof.
  unfold erase_tbl. intros H Hc Hr.
  assert (L : length (filter (fun ch : chain => negb (tmem (fst ch) cs)) T) = length T).
  { rewrite <- H at 2. rewrite map_length. reflexivity. }
  apply filter_len_all in L. rewrite (filter_all _ _ L) in H. clear L.
  induction T as [|c0 T IH]; [destruct Hc|].
  cbn [map] in H. injection H as H0 H1. destruct Hc as [->|Hc]; [|exact (IH H1 Hc)].
  assert (L : length (filter (keep_rule cs mk (fst ch)) (snd ch)) = length (snd ch)).
  { apply (f_equal snd) in H0. cbn [snd] in H0. rewrite H0. reflexivity. }
  apply filter_len_all in L. rewrite forallb_forall in L. exact (L r Hr).
Qed.

Lemma remove_first_absent M ro : (forall r, In r ro -> rule_eqb r M = false) -> remove_first M ro = None.
Proof.
  induction ro as [|x ro IH]; intro H; [reflexivity|]. cbn [remove_first].
  rewrite (H x (or_introl eq_refl)). rewrite IH; [reflexivity|]. intros r Hr. apply H. right. exact Hr.
Qed.
