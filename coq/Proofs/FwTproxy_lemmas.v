(* Proofs/FwTproxy_lemmas.v — C03, tproxy method. *)
From Coq Require Import List NArith ZArith Ascii Bool Lia ZifyBool.
From SV Require Import Lib.Bytes Model.FwRules Model.FwWalk Proofs.FwRules_lemmas.
Import ListNotations.
Local Open Scope N_scope.
Local Opaque dec.
Arguments N.eqb : simpl never.
Arguments N.leb : simpl never.
Arguments N.shiftr : simpl never.

(* ==================================================================== tproxy *)
Definition tp_mark_dns (pl : plan) (n : nsent) : list ipt_item :=
  [IJ JMark; tmark_set pl; IDest (ns_txt n) (ns_addr n) 32; IMProto Udp; IProto Udp; IDport1 53].
Definition tp_tp_dns (pl : plan) (f : family) (n : nsent) : list ipt_item :=
  [IJ JTproxy; tmark_tp pl; IDest (ns_txt n) (ns_addr n) 32; IMProto Udp; IProto Udp; IDport1 53; IOnPort (dns_of pl f)].
Definition tp_M_sub (pl : plan) (e : entry) : list (list ipt_item) :=
  tp_mark_rule pl Tcp e :: (if pl_udp pl then [tp_mark_rule pl Udp e] else []).
Definition tp_T_sub (pl : plan) (f : family) (e : entry) : list (list ipt_item) :=
  tp_tproxy_rule pl (port_of pl f) Tcp e :: (if pl_udp pl then [tp_tproxy_rule pl (port_of pl f) Udp e] else []).
Definition tp_sock_rule (pr : proto) : list ipt_item := [IMSocket; IJ (JChain CDivert); IMProto pr; IProto pr].

Definition tp_M_chain (pl : plan) (f : family) : list (list ipt_item) :=
  map (tp_mark_dns pl) (ns_of pl f) ++ local_return :: flat_map (tp_M_sub pl) (sort_desc (entries_of pl f)).
Definition tp_T_chain (pl : plan) (f : family) : list (list ipt_item) :=
  map (tp_tp_dns pl f) (ns_of pl f)
  ++ local_return :: tp_sock_rule Tcp :: (if pl_udp pl then [tp_sock_rule Udp] else [])
  ++ flat_map (tp_T_sub pl f) (sort_desc (entries_of pl f)).

Ltac tc_simpl := cbn [app rules_of tc_eqb table_eqb chain_eqb andb].

Lemma tproxy_setup_M pl f : rules_of (tproxy_setup pl f) TMangle CMark [] = tp_M_chain pl f.
Proof.
  unfold tproxy_setup, tp_M_chain. tc_simpl.
  rewrite rules_of_app, (rules_of_flat_map _ (fun n => [tp_mark_dns pl n])).
  2:{ intros n acc. unfold tp_dns_cmds. tc_simpl. reflexivity. }
  tc_simpl. rewrite rules_of_app.
  assert (E : forall acc, rules_of (if pl_udp pl then [CApp TMangle CTproxy [IMSocket; IJ (JChain CDivert); IMProto Udp; IProto Udp]] else [])
                TMangle CMark acc = acc) by (intros acc; destruct (pl_udp pl); reflexivity).
  rewrite E. rewrite (rules_of_flat_map _ (tp_M_sub pl)).
  2:{ intros e acc. unfold tp_sub_cmds, tp_M_sub. destruct (pl_udp pl); tc_simpl; rewrite <- ?app_assoc; reflexivity. }
  rewrite <- map_flat_map, <- app_assoc. reflexivity.
Qed.

Lemma tproxy_setup_T pl f : rules_of (tproxy_setup pl f) TMangle CTproxy [] = tp_T_chain pl f.
Proof.
  unfold tproxy_setup, tp_T_chain. tc_simpl.
  rewrite rules_of_app, (rules_of_flat_map _ (fun n => [tp_tp_dns pl f n])).
  2:{ intros n acc. unfold tp_dns_cmds. tc_simpl. reflexivity. }
  tc_simpl. rewrite rules_of_app.
  assert (E : forall acc, rules_of (if pl_udp pl then [CApp TMangle CTproxy [IMSocket; IJ (JChain CDivert); IMProto Udp; IProto Udp]] else [])
                TMangle CTproxy acc = acc ++ (if pl_udp pl then [tp_sock_rule Udp] else []))
    by (intros acc; destruct (pl_udp pl); [reflexivity|symmetry; apply app_nil_r]).
  rewrite E. rewrite (rules_of_flat_map _ (tp_T_sub pl f)).
  2:{ intros e acc. unfold tp_sub_cmds, tp_T_sub. destruct (pl_udp pl); tc_simpl; rewrite <- ?app_assoc; reflexivity. }
  rewrite <- map_flat_map, <- !app_assoc. reflexivity.
Qed.

Lemma flat_map_nil {A B} (l : list A) : flat_map (fun _ => @nil B) l = [].
Proof. induction l; simpl; auto. Qed.

Lemma tproxy_setup_hooks pl f :
  rules_of (tproxy_setup pl f) TMangle OUTPUT [] = [[IJ (JChain CMark)]] /\
  rules_of (tproxy_setup pl f) TMangle PREROUTING [] = [[IJ (JChain CTproxy)]].
Proof.
  unfold tproxy_setup. split; tc_simpl.
  - rewrite rules_of_app, (rules_of_flat_map _ (fun _ => []))
      by (intros n acc; unfold tp_dns_cmds; tc_simpl; rewrite app_nil_r; reflexivity).
    tc_simpl. rewrite rules_of_app.
    assert (E : forall acc, rules_of (if pl_udp pl then [CApp TMangle CTproxy [IMSocket; IJ (JChain CDivert); IMProto Udp; IProto Udp]] else [])
                TMangle OUTPUT acc = acc) by (intros acc; destruct (pl_udp pl); reflexivity).
    rewrite E, (rules_of_flat_map _ (fun _ => []))
      by (intros e acc; unfold tp_sub_cmds; destruct (pl_udp pl); tc_simpl; rewrite app_nil_r; reflexivity).
    rewrite !flat_map_nil. reflexivity.
  - rewrite rules_of_app, (rules_of_flat_map _ (fun _ => []))
      by (intros n acc; unfold tp_dns_cmds; tc_simpl; rewrite app_nil_r; reflexivity).
    tc_simpl. rewrite rules_of_app.
    assert (E : forall acc, rules_of (if pl_udp pl then [CApp TMangle CTproxy [IMSocket; IJ (JChain CDivert); IMProto Udp; IProto Udp]] else [])
                TMangle PREROUTING acc = acc) by (intros acc; destruct (pl_udp pl); reflexivity).
    rewrite E, (rules_of_flat_map _ (fun _ => []))
      by (intros e acc; unfold tp_sub_cmds; destruct (pl_udp pl); tc_simpl; rewrite app_nil_r; reflexivity).
    rewrite !flat_map_nil. reflexivity.
Qed.

(* ---- semantics of the generated rules *)
Definition tp_fwd (pl : plan) (p : pkt) : bool :=
  match p_proto p with Tcp => true | Udp => pl_udp pl end.
Definition pick (g : bool) (p : pkt) (es : list entry) : option entry :=
  if g then find (e_matches p) es else None.
Definition tp_dnshit (pl : plan) (p : pkt) : bool :=
  proto_eqb (p_proto p) Udp && (p_dport p =? 53)
  && existsb (fun n => under (p_fam p) (ns_addr n) 32 (p_dst p)) (ns_of pl (p_fam p)).

Lemma tp_tproxy_rule_sem pl port pr e p m :
  e_fam e = p_fam p ->
  rule_matches p m (sem_ipt (tp_tproxy_rule pl port pr e)) = proto_eqb (p_proto p) pr && e_matches p e /\
  sr_tgt (sem_ipt (tp_tproxy_rule pl port pr e)) = if e_excl e then TReturn else TTproxy (pl_tmark pl) port.
Proof.
  intros Hf. unfold tp_tproxy_rule, ports_items, e_matches, rule_matches.
  rewrite Hf, (proj2 (fam_eqb_eq _ _) eq_refl).
  destruct (e_excl e); destruct (N.eqb_spec (e_fport e) 0) as [E|E]; cbn;
    destruct (proto_eqb (p_proto p) pr), (under (p_fam p) (e_net e) (e_width e) (p_dst p)); cbn;
    rewrite ?andb_true_r; split; reflexivity.
Qed.
Lemma tp_mark_rule_sem pl pr e p m :
  e_fam e = p_fam p ->
  rule_matches p m (sem_ipt (tp_mark_rule pl pr e)) = proto_eqb (p_proto p) pr && e_matches p e /\
  sr_tgt (sem_ipt (tp_mark_rule pl pr e)) = if e_excl e then TReturn else TSetMark (pl_tmark pl).
Proof.
  intros Hf. unfold tp_mark_rule, ports_items, e_matches, rule_matches.
  rewrite Hf, (proj2 (fam_eqb_eq _ _) eq_refl).
  destruct (e_excl e); destruct (N.eqb_spec (e_fport e) 0) as [E|E]; cbn;
    destruct (proto_eqb (p_proto p) pr), (under (p_fam p) (e_net e) (e_width e) (p_dst p)); cbn;
    rewrite ?andb_true_r; split; reflexivity.
Qed.

Lemma tp_T_block pl f e p d env k m :
  e_fam e = p_fam p ->
  walk d env p (map sem_ipt (tp_T_sub pl f e) ++ k) m =
  if tp_fwd pl p && e_matches p e
  then (if e_excl e then OFall m else OTproxy (pl_tmark pl) (port_of pl f))
  else walk d env p k m.
Proof.
  intros Hf. unfold tp_T_sub, tp_fwd.
  destruct (pl_udp pl); cbn [map app]; rewrite !walk_cons;
    destruct (tp_tproxy_rule_sem pl (port_of pl f) Tcp e p m Hf) as [-> ->];
    try (destruct (tp_tproxy_rule_sem pl (port_of pl f) Udp e p m Hf) as [-> ->]);
    destruct (p_proto p); cbn; destruct (e_matches p e), (e_excl e); reflexivity.
Qed.
Lemma tp_M_block pl e p d env k m :
  e_fam e = p_fam p ->
  walk d env p (map sem_ipt (tp_M_sub pl e) ++ k) m =
  if tp_fwd pl p && e_matches p e
  then (if e_excl e then OFall m else walk d env p k (pl_tmark pl))
  else walk d env p k m.
Proof.
  intros Hf. unfold tp_M_sub, tp_fwd.
  destruct (pl_udp pl); cbn [map app]; rewrite !walk_cons;
    destruct (tp_mark_rule_sem pl Tcp e p m Hf) as [-> ->];
    try (destruct (tp_mark_rule_sem pl Udp e p m Hf) as [-> ->]);
    destruct (p_proto p) eqn:Hp; cbn; destruct (e_matches p e) eqn:Hm, (e_excl e) eqn:Hx; try reflexivity.
  (* tcp include followed by the udp rule of the same entry *)
  rewrite walk_cons. destruct (tp_mark_rule_sem pl Udp e p (pl_tmark pl) Hf) as [-> _]. rewrite Hp. reflexivity.
Qed.

Lemma walk_entries_first_g d env p (R : entry -> list srule) (D : outcome) g es k m :
  (forall e k', In e es ->
     walk d env p (R e ++ k') m =
     if g && e_matches p e then (if e_excl e then OFall m else D) else walk d env p k' m) ->
  walk d env p (flat_map R es ++ k) m =
  match pick g p es with
  | Some e => if e_excl e then OFall m else D
  | None => walk d env p k m
  end.
Proof.
  destruct g; cbn [andb pick]; [apply walk_entries_first|].
  induction es as [|e es IH]; intros H; simpl; [reflexivity|].
  rewrite <- app_assoc, (H e _ (or_introl eq_refl)). apply IH. intros e' k' He'. apply H. right. exact He'.
Qed.

Lemma walk_entries_mark_g d env p (R : entry -> list srule) (t : N) g es :
  (forall e k' m, In e es ->
     walk d env p (R e ++ k') m =
     if g && e_matches p e then (if e_excl e then OFall m else walk d env p k' t) else walk d env p k' m) ->
  forall m, walk d env p (flat_map R es) m =
            OFall (match pick g p es with Some e => if e_excl e then m else t | None => m end).
Proof.
  induction es as [|e es IH]; intros H m.
  - simpl. rewrite walk_nil. destruct g; reflexivity.
  - assert (IH' := IH (fun e' k' m' He' => H e' k' m' (or_intror He'))). clear IH.
    cbn [flat_map]. rewrite (H e _ m (or_introl eq_refl)). unfold pick in *.
    destruct g; cbn [andb find].
    + destruct (e_matches p e); [|apply IH']. destruct (e_excl e); [reflexivity|].
      rewrite IH'. destruct (find _ _) as [e'|]; [destruct (e_excl e')|]; reflexivity.
    + apply IH'.
Qed.

Lemma map_flat_map_comm {A B C} (f : B -> C) (g : A -> list B) l :
  map f (flat_map g l) = flat_map (fun x => map f (g x)) l.
Proof. induction l; simpl; [reflexivity|]. rewrite map_app. congruence. Qed.

Lemma local_rule_cons d env p k m :
  walk d env p (sem_ipt local_return :: k) m = if p_dst_local p then OFall m else walk d env p k m.
Proof. rewrite walk_cons. cbn. destruct (p_dst_local p); reflexivity. Qed.

Lemma sock_rule_skip d env p pr k m :
  p_sock p = false -> walk d env p (sem_ipt (tp_sock_rule pr) :: k) m = walk d env p k m.
Proof. intros Hs. rewrite walk_cons. unfold rule_matches. cbn. rewrite Hs. reflexivity. Qed.

Lemma tp_dns_T_walk pl f p d env nss k m :
  walk d env p (map sem_ipt (map (tp_tp_dns pl f) nss) ++ k) m =
  if proto_eqb (p_proto p) Udp && (p_dport p =? 53) && existsb (fun n => under (p_fam p) (ns_addr n) 32 (p_dst p)) nss
  then OTproxy (pl_tmark pl) (dns_of pl f) else walk d env p k m.
Proof.
  induction nss as [|n nss IH]; cbn [map app existsb].
  - rewrite andb_false_r. reflexivity.
  - rewrite walk_cons. unfold rule_matches at 1. cbn. rewrite andb_true_r, IH.
    replace ((53 <=? p_dport p) && (p_dport p <=? 53)) with (p_dport p =? 53) by lia.
    destruct (under (p_fam p) (ns_addr n) 32 (p_dst p)), (proto_eqb (p_proto p) Udp), (p_dport p =? 53); reflexivity.
Qed.

Lemma tp_dns_M_walk pl p d env nss k :
  forall m, walk d env p (map sem_ipt (map (tp_mark_dns pl) nss) ++ k) m =
  walk d env p k
    (if proto_eqb (p_proto p) Udp && (p_dport p =? 53) && existsb (fun n => under (p_fam p) (ns_addr n) 32 (p_dst p)) nss
     then pl_tmark pl else m).
Proof.
  induction nss as [|n nss IH]; intros m; cbn [map app existsb].
  - rewrite andb_false_r. reflexivity.
  - rewrite walk_cons. unfold rule_matches at 1. cbn. rewrite andb_true_r, !IH.
    replace ((53 <=? p_dport p) && (p_dport p <=? 53)) with (p_dport p =? 53) by lia.
    destruct (under (p_fam p) (ns_addr n) 32 (p_dst p)), (proto_eqb (p_proto p) Udp), (p_dport p =? 53); cbn;
      try reflexivity.
    destruct (existsb _ nss); reflexivity.
Qed.

(* ---- the two chains *)
Definition tp_first (pl : plan) (p : pkt) : option entry :=
  pick (tp_fwd pl p) p (sort_desc (entries_of pl (p_fam p))).

Definition T_outcome (pl : plan) (p : pkt) (m : N) : outcome :=
  if tp_dnshit pl p then OTproxy (pl_tmark pl) (dns_of pl (p_fam p))
  else if p_dst_local p then OFall m
  else match tp_first pl p with
       | Some e => if e_excl e then OFall m else OTproxy (pl_tmark pl) (port_of pl (p_fam p))
       | None => OFall m
       end.
Definition M_mark (pl : plan) (p : pkt) : N :=
  let m1 := if tp_dnshit pl p then pl_tmark pl else 0 in
  if p_dst_local p then m1
  else match tp_first pl p with
       | Some e => if e_excl e then m1 else pl_tmark pl
       | None => m1
       end.

Lemma tp_T_walk pl p d env m :
  p_sock p = false ->
  walk d env p (map sem_ipt (tp_T_chain pl (p_fam p))) m = T_outcome pl p m.
Proof.
  intros Hs. unfold tp_T_chain, T_outcome, tp_dnshit. rewrite map_app, tp_dns_T_walk.
  destruct (_ && _ && existsb _ _); [reflexivity|].
  cbn [map]. rewrite local_rule_cons. destruct (p_dst_local p); [reflexivity|].
  rewrite sock_rule_skip by exact Hs.
  assert (E : forall k, walk d env p (map sem_ipt ((if pl_udp pl then [tp_sock_rule Udp] else []) ++ k)) m
                        = walk d env p (map sem_ipt k) m).
  { intros k. destruct (pl_udp pl); cbn [app map]; [apply sock_rule_skip; exact Hs|reflexivity]. }
  rewrite E, map_flat_map_comm, <- (app_nil_r (flat_map _ _)).
  rewrite (walk_entries_first_g d env p _ (OTproxy (pl_tmark pl) (port_of pl (p_fam p))) (tp_fwd pl p)).
  - unfold tp_first. destruct (pick _ _ _); [reflexivity|apply walk_nil].
  - intros e k' He. apply tp_T_block. exact (entries_of_fam _ _ _ He).
Qed.

Lemma tp_M_walk pl p d env :
  walk d env p (map sem_ipt (tp_M_chain pl (p_fam p))) 0 = OFall (M_mark pl p).
Proof.
  unfold tp_M_chain, M_mark, tp_dnshit. rewrite map_app, tp_dns_M_walk.
  set (m1 := if _ && _ && existsb _ _ then pl_tmark pl else 0).
  cbn [map]. rewrite local_rule_cons. destruct (p_dst_local p); [reflexivity|].
  rewrite map_flat_map_comm.
  rewrite (walk_entries_mark_g d env p _ (pl_tmark pl) (tp_fwd pl p)); [reflexivity|].
  intros e k' m He. apply tp_M_block. exact (entries_of_fam _ _ _ He).
Qed.

(* ---- hook level *)
Ltac sem_cbn := cbn [rule_matches sr_conds sr_tgt sem_ipt flat_map item_conds find_map get_j forallb app].

Lemma tp_env_facts pl f :
  let env := ipt_env (tproxy_setup pl f) TMangle in
  env OUTPUT = [sem_ipt [IJ (JChain CMark)]] /\ env PREROUTING = [sem_ipt [IJ (JChain CTproxy)]] /\
  env CMark = map sem_ipt (tp_M_chain pl f) /\ env CTproxy = map sem_ipt (tp_T_chain pl f).
Proof.
  cbv zeta. unfold ipt_env. destruct (tproxy_setup_hooks pl f) as [-> ->].
  rewrite tproxy_setup_M, tproxy_setup_T. repeat split; reflexivity.
Qed.

Lemma agree_core pl p m :
  pl_tmark pl <> 0 ->
  (M_mark pl p =? pl_tmark pl) = match T_outcome pl p m with OTproxy _ _ => true | _ => false end.
Proof.
  intros Ht. unfold M_mark, T_outcome.
  assert (E0 : (0 =? pl_tmark pl) = false) by (apply N.eqb_neq; congruence).
  destruct (tp_dnshit pl p); [|destruct (p_dst_local p); [|destruct (tp_first pl p) as [e|]; [destruct (e_excl e)|]]];
    rewrite ?N.eqb_refl, ?E0; try reflexivity.
  destruct (p_dst_local p); [|destruct (tp_first pl p) as [e|]; [destruct (e_excl e)|]]; apply N.eqb_refl.
Qed.

Lemma tproxy_verdict_formula pl p :
  p_sock p = false -> pl_tmark pl <> 0 ->
  tproxy_verdict_of (pl_tmark pl) (tproxy_setup pl (p_fam p)) p = tproxy_result (T_outcome pl p 0).
Proof.
  intros Hs Ht. unfold tproxy_verdict_of, DEPTH. cbv zeta.
  destruct (tp_env_facts pl (p_fam p)) as (EO & EP & EM & ET). cbv zeta in EO, EP, EM, ET.
  set (env := ipt_env (tproxy_setup pl (p_fam p)) TMangle) in *. clearbody env.
  rewrite EO, EP. clear EO EP.
  assert (HM : forall m, m = 0 ->
            walk 3 env p [sem_ipt [IJ (JChain CMark)]] m = OFall (M_mark pl p)).
  { intros m ->. rewrite walk_cons. sem_cbn. rewrite EM, tp_M_walk, walk_nil. reflexivity. }
  assert (HT : forall m,
            walk 3 env p [sem_ipt [IJ (JChain CTproxy)]] m = T_outcome pl p m).
  { intros m. rewrite walk_cons. sem_cbn. rewrite ET, tp_T_walk by exact Hs. rewrite ?walk_nil.
    unfold T_outcome. destruct (tp_dnshit pl p); [reflexivity|]. destruct (p_dst_local p); [reflexivity|].
    destruct (tp_first pl p) as [e|]; [destruct (e_excl e)|]; reflexivity. }
  assert (Hind : forall m, tproxy_result (T_outcome pl p m) = tproxy_result (T_outcome pl p 0)).
  { intros m. unfold T_outcome. destruct (tp_dnshit pl p); [reflexivity|]. destruct (p_dst_local p); [reflexivity|].
    destruct (tp_first pl p) as [e|]; [destruct (e_excl e)|]; reflexivity. }
  destruct (p_origin p).
  - rewrite (HM 0 eq_refl), HT, (agree_core pl p (M_mark pl p) Ht).
    assert (E0 : negb (pl_tmark pl =? 0) = true) by (apply negb_true_iff, N.eqb_neq; exact Ht).
    rewrite E0, andb_true_r, Hind.
    unfold T_outcome. destruct (tp_dnshit pl p); [reflexivity|]. destruct (p_dst_local p); [reflexivity|].
    destruct (tp_first pl p) as [e|]; [destruct (e_excl e)|]; reflexivity.
  - rewrite HT. reflexivity.
Qed.

Lemma tproxy_verdict_of_nil t p : tproxy_verdict_of t [] p = Untouched.
Proof.
  unfold tproxy_verdict_of, ipt_env. cbn. destruct (p_origin p); cbn; [|reflexivity].
  destruct (_ && _); reflexivity.
Qed.

Lemma tp_first_spec pl p :
  Forall wf_entry (pl_entries pl) ->
  match tp_first pl p with Some e => negb (e_excl e) | None => false end =
  tp_fwd pl p && spec_interceptb (pl_entries pl) p.
Proof.
  intros Hwf. unfold tp_first, pick. destruct (tp_fwd pl p); [|reflexivity]. cbn [andb].
  rewrite (first_match_desc_spec _ _ Hwf). reflexivity.
Qed.

Lemma under_full_v4 a dst : under V4 a 32 dst = (dst =? a).
Proof. unfold under. cbn. rewrite !N.shiftr_0_r. reflexivity. Qed.

Lemma under_refl f a w : under f a w a = true.
Proof. unfold under. apply N.eqb_refl. Qed.

Lemma ns_hit32_of pl p :
  ns_hit32 pl p = existsb (fun n => under (p_fam p) (ns_addr n) 32 (p_dst p)) (ns_of pl (p_fam p)).
Proof. unfold ns_hit32, ns_of. rewrite existsb_filter. reflexivity. Qed.

Lemma ns_hit_hit32 pl p : ns_hit pl p = true -> ns_hit32 pl p = true.
Proof.
  unfold ns_hit, ns_hit32. rewrite !existsb_exists. intros (n & Hin & H). exists n. split; [exact Hin|].
  apply andb_true_iff in H. destruct H as [H1 H2]. apply N.eqb_eq in H2. rewrite H1, H2. apply under_refl.
Qed.

(* outside the F18 class the /32 name-server rules behave like exact matches *)
Lemma tp_dnshit_exact pl p :
  f18_class pl p = false ->
  tp_dnshit pl p = proto_eqb (p_proto p) Udp && (p_dport p =? 53) && ns_hit pl p.
Proof.
  unfold f18_class, tp_dnshit. rewrite <- ns_hit32_of. intros H.
  destruct (p_proto p) eqn:Hp; cbn [proto_eqb andb]; [reflexivity|].
  destruct (p_dport p =? 53) eqn:Hd; cbn [andb]; [|reflexivity].
  destruct (p_fam p) eqn:Hf.
  - unfold ns_hit32, ns_hit. rewrite Hf.
    (* V4: /32 is the whole address *)
    assert (E : forall n, fam_eqb (ns_fam n) V4 && under V4 (ns_addr n) 32 (p_dst p)
                        = fam_eqb (ns_fam n) V4 && (p_dst p =? ns_addr n))
      by (intros n; rewrite under_full_v4; reflexivity).
    induction (pl_ns pl) as [|n l IH]; [reflexivity|]. cbn [existsb]. rewrite E, IH. reflexivity.
  - cbn [andb] in H.
    destruct (ns_hit pl p) eqn:Hh.
    + apply ns_hit_hit32. exact Hh.
    + destruct (ns_hit32 pl p); [discriminate|reflexivity].
Qed.

Theorem tproxy_tcp_eq pl p :
  wf_plan pl -> p_proto p = Tcp -> p_sock p = false ->
  tproxy_verdict pl p =
  if negb (p_dst_local p) && spec_interceptb (pl_entries pl) p
  then Divert (port_of pl (p_fam p)) else Untouched.
Proof.
  intros Hwf Hp Hs. unfold tproxy_verdict, tproxy_cmds.
  destruct (fam_active pl (p_fam p)) eqn:A.
  - rewrite tproxy_verdict_formula by (auto; apply Hwf).
    pose proof (tp_first_spec pl p (proj1 Hwf)) as Hf. unfold tp_fwd in Hf. rewrite Hp in Hf. cbn [andb] in Hf.
    unfold T_outcome, tp_dnshit. rewrite Hp. cbn [proto_eqb andb].
    destruct (p_dst_local p); [reflexivity|]. cbn [negb andb]. rewrite <- Hf.
    destruct (tp_first pl p) as [e|]; [destruct (e_excl e)|]; reflexivity.
  - rewrite tproxy_verdict_of_nil. destruct (inactive_spec pl p A (proj1 Hwf)) as [-> _].
    rewrite andb_false_r. reflexivity.
Qed.

Theorem tproxy_udp_partial_eq pl p :
  wf_plan pl -> p_proto p = Udp -> p_sock p = false -> f18_class pl p = false ->
  tproxy_verdict pl p =
  if (p_dport p =? 53) && ns_hit pl p then Divert (dns_of pl (p_fam p))
  else if pl_udp pl && negb (p_dst_local p) && spec_interceptb (pl_entries pl) p
       then Divert (port_of pl (p_fam p)) else Untouched.
Proof.
  intros Hwf Hp Hs H18. unfold tproxy_verdict, tproxy_cmds.
  destruct (fam_active pl (p_fam p)) eqn:A.
  - rewrite tproxy_verdict_formula by (auto; apply Hwf).
    pose proof (tp_first_spec pl p (proj1 Hwf)) as Hf. unfold tp_fwd in Hf. rewrite Hp in Hf.
    unfold T_outcome. rewrite (tp_dnshit_exact pl p H18), Hp. cbn [proto_eqb andb].
    destruct ((p_dport p =? 53) && ns_hit pl p); [reflexivity|].
    destruct (p_dst_local p); [rewrite andb_false_r; reflexivity|]. rewrite andb_true_r, <- Hf.
    destruct (tp_first pl p) as [e|]; [destruct (e_excl e)|]; reflexivity.
  - rewrite tproxy_verdict_of_nil. destruct (inactive_spec pl p A (proj1 Hwf)) as [-> ->].
    rewrite !andb_false_r. reflexivity.
Qed.

(* what really happens for every UDP packet, F18 class included *)
Theorem tproxy_udp_asfound_eq pl p :
  wf_plan pl -> p_proto p = Udp -> p_sock p = false ->
  tproxy_verdict pl p =
  if (p_dport p =? 53) && ns_hit32 pl p then Divert (dns_of pl (p_fam p))
  else if pl_udp pl && negb (p_dst_local p) && spec_interceptb (pl_entries pl) p
       then Divert (port_of pl (p_fam p)) else Untouched.
Proof.
  intros Hwf Hp Hs. unfold tproxy_verdict, tproxy_cmds.
  destruct (fam_active pl (p_fam p)) eqn:A.
  - rewrite tproxy_verdict_formula by (auto; apply Hwf).
    pose proof (tp_first_spec pl p (proj1 Hwf)) as Hf. unfold tp_fwd in Hf. rewrite Hp in Hf.
    unfold T_outcome, tp_dnshit. rewrite <- ns_hit32_of, Hp. cbn [proto_eqb andb].
    destruct ((p_dport p =? 53) && ns_hit32 pl p); [reflexivity|].
    destruct (p_dst_local p); [rewrite andb_false_r; reflexivity|]. rewrite andb_true_r, <- Hf.
    destruct (tp_first pl p) as [e|]; [destruct (e_excl e)|]; reflexivity.
  - rewrite tproxy_verdict_of_nil. destruct (inactive_nil _ _ A) as [_ Hn].
    rewrite ns_hit32_of, Hn. destruct (inactive_spec pl p A (proj1 Hwf)) as [-> _].
    cbn [existsb]. rewrite !andb_false_r. reflexivity.
Qed.

Theorem tproxy_chains_agree pl p :
  wf_plan pl -> p_sock p = false -> tproxy_marked pl p = tproxy_diverted pl p.
Proof.
  intros Hwf Hs. unfold tproxy_marked, tproxy_diverted, tproxy_cmds, DEPTH.
  destruct (fam_active pl (p_fam p)).
  - destruct (tp_env_facts pl (p_fam p)) as (_ & _ & EM & ET). cbv zeta in EM, ET.
    rewrite EM, ET, tp_M_walk, tp_T_walk by exact Hs. apply agree_core. apply Hwf.
  - unfold ipt_env. cbn. apply N.eqb_neq. intros E. destruct Hwf as (_ & _ & _ & Ht). congruence.
Qed.

(* later packets of a diverted flow: the -m socket rule hands them to the flow's socket *)
Theorem tproxy_established pl p :
  fam_active pl (p_fam p) = true -> p_sock p = true -> p_dst_local p = false -> p_origin p = Forwarded ->
  (p_proto p = Tcp \/ pl_udp pl = true) -> tp_dnshit pl p = false ->
  tproxy_verdict pl p = ToSocket.
Proof.
  intros A Hs Hl Ho Hfw Hd. unfold tproxy_verdict, tproxy_cmds, tproxy_verdict_of, DEPTH. rewrite A, Ho. cbv zeta.
  assert (ED : ipt_env (tproxy_setup pl (p_fam p)) TMangle CDivert =
               [sem_ipt [IJ JMark; tmark_set pl]; sem_ipt [IJ JAccept]]).
  { unfold ipt_env, tproxy_setup. tc_simpl.
    rewrite rules_of_app, (rules_of_flat_map _ (fun _ => []))
      by (intros n acc; unfold tp_dns_cmds; tc_simpl; rewrite app_nil_r; reflexivity).
    tc_simpl. rewrite rules_of_app.
    assert (E : forall acc, rules_of (if pl_udp pl then [CApp TMangle CTproxy [IMSocket; IJ (JChain CDivert); IMProto Udp; IProto Udp]] else [])
                  TMangle CDivert acc = acc) by (intros acc; destruct (pl_udp pl); reflexivity).
    rewrite E, (rules_of_flat_map _ (fun _ => []))
      by (intros e acc; unfold tp_sub_cmds; destruct (pl_udp pl); tc_simpl; rewrite app_nil_r; reflexivity).
    rewrite !flat_map_nil. reflexivity. }
  destruct (tp_env_facts pl (p_fam p)) as (_ & EP & _ & ET). cbv zeta in EP, ET.
  set (env := ipt_env (tproxy_setup pl (p_fam p)) TMangle) in *. clearbody env. rewrite EP.
  rewrite walk_cons. sem_cbn. rewrite ET. unfold tp_T_chain. rewrite map_app, tp_dns_T_walk.
  unfold tp_dnshit in Hd. rewrite Hd. cbn [map]. rewrite local_rule_cons, Hl.
  assert (HD : forall m, walk 1 env p (env CDivert) m = OAccept (pl_tmark pl)).
  { intros m. rewrite ED, !walk_cons. reflexivity. }
  assert (HS : forall pr k m, walk 2 env p (sem_ipt (tp_sock_rule pr) :: k) m =
                 if proto_eqb (p_proto p) pr then OAccept (pl_tmark pl) else walk 2 env p k m).
  { intros pr k m. rewrite walk_cons. unfold rule_matches.
    cbn [sr_conds sr_tgt sem_ipt tp_sock_rule flat_map item_conds find_map get_j forallb app cond_ok].
    rewrite Hs, HD. cbn [andb]. rewrite andb_true_r. destruct (proto_eqb (p_proto p) pr); reflexivity. }
  rewrite HS. destruct (p_proto p) eqn:Hp; cbn [proto_eqb]; [reflexivity|].
  destruct Hfw as [Hp'|Hu]; [discriminate|]. rewrite Hu. cbn [app map]. rewrite HS. reflexivity.
Qed.
