(* Proofs/ShQuote_lemmas.v — shlex.quote and the wrappers of ssh.py:137-189 read
   back by a POSIX shell / PowerShell give exactly the interpreter and the
   bootstrap program as separate words. *)
From Coq Require Import List NArith Ascii Bool Lia.
From Coq Require String.
From SV Require Import Lib.Bytes Model.Assemble Proofs.Assemble_lemmas Model.ShQuote.
Import ListNotations.
Local Open Scope N_scope.
Import String.StringSyntax.
Delimit Scope string_scope with string.

(* ---- character facts, by enumeration of the 256 characters ---- *)
Ltac all_chars c := destruct c as [[] [] [] [] [] [] [] []]; vm_compute; try reflexivity; try discriminate; auto.

Lemma safe_char_plain c : is_safe_char c = true ->
  is_blank c = false /\ Ascii.eqb c SQ = false /\ Ascii.eqb c DQ = false /\ Ascii.eqb c BS = false /\ is_meta c = false.
Proof. all_chars c; intros; repeat split; reflexivity. Qed.

Lemma dq_plain_char_spec c : dq_plain_char c = true ->
  Ascii.eqb c DQ = false /\ Ascii.eqb c BS = false /\ (Ascii.eqb c DOLLAR || Ascii.eqb c BT) = false.
Proof. all_chars c; intros; repeat split; reflexivity. Qed.

Lemma digit_dq_plain c : is_digit c = true -> dq_plain_char c = true.
Proof. all_chars c. Qed.

Lemma digit_ps_plain c : is_digit c = true -> (is_ps_special c || Ascii.eqb c BT) = false.
Proof. all_chars c. Qed.

(* ---- the reader on runs of ordinary characters ---- *)
Lemma scan_sq5 w acc t :
  sh_scan QS (Some w) acc (SQ :: DQ :: SQ :: DQ :: SQ :: t) = sh_scan QS (Some (w ++ [SQ])) acc t.
Proof. reflexivity. Qed.

Lemma scan_QS_quoted : forall s w acc rest,
  sh_scan QS (Some w) acc (flat_map quote_char s ++ rest) = sh_scan QS (Some (w ++ s)) acc rest.
Proof.
  induction s as [|c s IH]; intros w acc rest.
  - cbn [flat_map app]. rewrite app_nil_r. reflexivity.
  - cbn [flat_map]. rewrite <- app_assoc. unfold quote_char at 1.
    destruct (Ascii.eqb c SQ) eqn:E.
    + apply Ascii.eqb_eq in E. subst c.
      cbn [app]. rewrite scan_sq5. rewrite IH. rewrite <- app_assoc. reflexivity.
    + cbn [app sh_scan]. rewrite E. cbn [cur_word]. rewrite IH. rewrite <- app_assoc. reflexivity.
Qed.

Lemma scan_QN_safe : forall s cur acc rest, forallb is_safe_char s = true -> s <> [] ->
  sh_scan QN cur acc (s ++ rest) = sh_scan QN (Some (cur_word cur ++ s)) acc rest.
Proof.
  induction s as [|c s IH]; intros cur acc rest Hs Hne; [congruence|].
  cbn [forallb] in Hs. apply andb_true_iff in Hs as [Hc Hs].
  destruct (safe_char_plain c Hc) as (H1 & H2 & H3 & H4 & H5).
  cbn [app sh_scan]. rewrite H1, H2, H3, H4, H5.
  destruct s as [|d s'].
  - cbn [app]. reflexivity.
  - rewrite IH by (assumption || discriminate). cbn [cur_word]. rewrite <- app_assoc. reflexivity.
Qed.

Lemma scan_QD_plain : forall s w acc rest, dq_plain s = true ->
  sh_scan QD (Some w) acc (s ++ rest) = sh_scan QD (Some (w ++ s)) acc rest.
Proof.
  induction s as [|c s IH]; intros w acc rest Hs.
  - rewrite app_nil_r. reflexivity.
  - unfold dq_plain in Hs. cbn [forallb] in Hs. apply andb_true_iff in Hs as [Hc Hs].
    destruct (dq_plain_char_spec c Hc) as (H1 & H2 & H3).
    cbn [app sh_scan]. rewrite H1, H2, H3. cbn [cur_word]. rewrite IH by exact Hs.
    rewrite <- app_assoc. reflexivity.
Qed.

(* ---- shlex.quote read back: one cur_word, the original string ---- *)
Lemma scan_quote : forall s acc,
  sh_scan QN None acc (sh_quote s) = Some (rev (s :: acc)).
Proof.
  intros s acc. unfold sh_quote. destruct s as [|c s].
  - reflexivity.
  - destruct (forallb is_safe_char (c :: s)) eqn:Hs.
    + rewrite <- (app_nil_r (c :: s)) at 1. rewrite scan_QN_safe by (assumption || discriminate).
      reflexivity.
    + change (sh_scan QN None acc (SQ :: flat_map quote_char (c :: s) ++ [SQ]))
        with (sh_scan QS (Some []) acc (flat_map quote_char (c :: s) ++ [SQ])).
      rewrite scan_QS_quoted. reflexivity.
Qed.

Lemma quote_one_word s : sh_words (sh_quote s) = Some [s].
Proof. unfold sh_words. rewrite scan_quote. reflexivity. Qed.

(* after a command cur_word and -c: the quoted argument is the third cur_word *)
Lemma pycmd_sh_words script :
  sh_words (pycmd_sh script) = Some [B "/bin/sh"; B "-c"; sh_inner script].
Proof.
  unfold sh_words, pycmd_sh.
  change (sh_scan QN None [] (B "/bin/sh -c " ++ sh_quote (sh_inner script)))
    with (sh_scan QN None [B "-c"; B "/bin/sh"] (sh_quote (sh_inner script))).
  rewrite scan_quote. reflexivity.
Qed.

(* the exec line of the inner command carries the program as one quoted cur_word *)
Lemma sh_inner_shape script :
  sh_inner script = B "P=python3; $P -V 2>/dev/null || P=python; exec ""$P"" -c " ++ sh_quote script ++ B "; exit 97".
Proof. reflexivity. Qed.

Lemma pycmd_py_words python script : dq_plain python = true -> dq_plain script = true ->
  sh_words (pycmd_py python script) = Some [python; B "-c"; script].
Proof.
  intros Hp Hs. unfold sh_words, pycmd_py.
  change (sh_scan QN None [] (DQ :: python ++ DQ :: B " -c " ++ DQ :: script ++ [DQ]))
    with (sh_scan QD (Some []) [] (python ++ DQ :: B " -c " ++ DQ :: script ++ [DQ])).
  rewrite scan_QD_plain by exact Hp.
  change (sh_scan QD (Some ([] ++ python)) [] (DQ :: B " -c " ++ DQ :: script ++ [DQ]))
    with (sh_scan QD (Some []) [B "-c"; python] (script ++ [DQ])).
  rewrite scan_QD_plain by exact Hs. reflexivity.
Qed.

(* ---- the bootstrap program is plain text between double quotes ---- *)
Lemma dq_plain_app a b : dq_plain (a ++ b) = dq_plain a && dq_plain b.
Proof. unfold dq_plain. apply forallb_app. Qed.

Lemma dq_plain_dec n : dq_plain (dec n) = true.
Proof.
  unfold dq_plain. apply forallb_forall. intros c Hc.
  apply digit_dq_plain. pose proof (dec_digits n) as H. rewrite Forall_forall in H. exact (H c Hc).
Qed.

Lemma pyscript_dq_plain v n : dq_plain (pyscript v n) = true.
Proof.
  unfold pyscript. rewrite !dq_plain_app, !dq_plain_dec. reflexivity.
Qed.

(* ---- PowerShell ---- *)
Lemma ps_scan_escape : forall s w acc rest, forallb ps_plain_char s = true ->
  ps_scan false (Some w) acc (ps_escape s ++ rest) = ps_scan false (Some (w ++ s)) acc rest.
Proof.
  induction s as [|c s IH]; intros w acc rest Hs.
  - rewrite app_nil_r. reflexivity.
  - cbn [forallb] in Hs. apply andb_true_iff in Hs as [Hc Hs].
    unfold ps_escape. cbn [flat_map]. fold (ps_escape s). rewrite <- app_assoc.
    destruct (is_ps_special c) eqn:E.
    + cbn [app ps_scan]. replace (Ascii.eqb BT BT) with true by reflexivity.
      cbn [cur_word]. rewrite IH by exact Hs. rewrite <- app_assoc. reflexivity.
    + cbn [app ps_scan]. unfold ps_plain_char in Hc. apply negb_true_iff in Hc.
      apply orb_false_iff in Hc as [Hc1 Hc2]. rewrite Hc1.
      assert (Hsp : Ascii.eqb c SP = false).
      { destruct (Ascii.eqb c SP) eqn:Es; [|reflexivity]. apply Ascii.eqb_eq in Es. subst c. discriminate E. }
      rewrite Hsp, E, Hc2. cbn [orb cur_word]. rewrite IH by exact Hs. rewrite <- app_assoc. reflexivity.
Qed.

Lemma digit_ps_plain_char c : is_digit c = true -> ps_plain_char c = true.
Proof. all_chars c. Qed.

Lemma pyscript_ps_plain v n : forallb ps_plain_char (pyscript v n) = true.
Proof.
  unfold pyscript. rewrite !forallb_app.
  assert (D : forall k, forallb ps_plain_char (dec k) = true).
  { intros k. apply forallb_forall. intros c Hc. apply digit_ps_plain_char.
    pose proof (dec_digits k) as H. rewrite Forall_forall in H. exact (H c Hc). }
  rewrite !D. reflexivity.
Qed.

Lemma ps_bare_spec c : ps_bare_char c = true ->
  Ascii.eqb c BT = false /\ Ascii.eqb c SP = false /\ (is_ps_special c || one_of (B """{}|&<>@#$") c) = false.
Proof. all_chars c; intros; repeat split; reflexivity. Qed.

Lemma ps_scan_bare : forall s cur acc rest, forallb ps_bare_char s = true -> s <> [] ->
  ps_scan false cur acc (s ++ rest) = ps_scan false (Some (cur_word cur ++ s)) acc rest.
Proof.
  induction s as [|c s IH]; intros cur acc rest Hs Hne; [congruence|].
  cbn [forallb] in Hs. apply andb_true_iff in Hs as [Hc Hs].
  destruct (ps_bare_spec c Hc) as (H1 & H2 & H3).
  cbn [app ps_scan]. rewrite H1, H2, H3.
  destruct s as [|d s'].
  - reflexivity.
  - rewrite IH by (assumption || discriminate). cbn [cur_word]. rewrite <- app_assoc. reflexivity.
Qed.

Lemma ps_scan_dash_c w acc t :
  ps_scan false (Some w) acc (" " :: "-" :: "c" :: " " :: t)%char = ps_scan false None (B "-c" :: w :: acc) t.
Proof. reflexivity. Qed.

Lemma ps_scan_escape_any : forall s cur acc rest, forallb ps_plain_char s = true -> s <> [] ->
  ps_scan false cur acc (ps_escape s ++ rest) = ps_scan false (Some (cur_word cur ++ s)) acc rest.
Proof.
  intros s cur acc rest Hs Hne. destruct s as [|c s]; [congruence|].
  cbn [forallb] in Hs. apply andb_true_iff in Hs as [Hc Hs].
  unfold ps_escape. cbn [flat_map]. fold (ps_escape s). rewrite <- app_assoc.
  destruct (is_ps_special c) eqn:E.
  - cbn [app ps_scan]. replace (Ascii.eqb BT BT) with true by reflexivity.
    rewrite ps_scan_escape by exact Hs. rewrite <- app_assoc. reflexivity.
  - cbn [app ps_scan]. unfold ps_plain_char in Hc. apply negb_true_iff in Hc.
    apply orb_false_iff in Hc as [Hc1 Hc2]. rewrite Hc1.
    assert (Hsp : Ascii.eqb c SP = false).
    { destruct (Ascii.eqb c SP) eqn:Es; [|reflexivity]. apply Ascii.eqb_eq in Es. subst c. discriminate E. }
    rewrite Hsp, E, Hc2. cbn [orb]. rewrite ps_scan_escape by exact Hs. rewrite <- app_assoc. reflexivity.
Qed.

Lemma pyscript_nonnil v n : pyscript v n <> [].
Proof. unfold pyscript. discriminate. Qed.

Lemma pycmd_ps_words python v n : forallb ps_bare_char (or_python python) = true ->
  ps_words (pycmd_ps python (pyscript v n)) = Some [or_python python; B "-c"; pyscript v n].
Proof.
  intros Hp. unfold ps_words, pycmd_ps.
  assert (Hne : or_python python <> []) by (destruct python; discriminate).
  rewrite ps_scan_bare by assumption. cbn [cur_word app].
  rewrite <- (app_nil_r (ps_escape (pyscript v n))).
  rewrite ps_scan_dash_c.
  rewrite ps_scan_escape_any by (apply pyscript_ps_plain || apply pyscript_nonnil).
  reflexivity.
Qed.
