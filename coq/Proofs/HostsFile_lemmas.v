(* Proofs/HostsFile_lemmas.v — proofs about Model/HostsFile.v (property C14). *)
From Coq Require Import List NArith Ascii Bool Lia Arith Permutation Sorted.
From SV Require Import Lib.Bytes Gen.Consts Model.HostsFile.
Import ListNotations.
Local Open Scope N_scope.

(* ================================================================== *)
(* 1. Text primitives                                                  *)

Definition unlines (ls : list bytes) : bytes := concat (map (fun l => l ++ [ch_nl]) ls).

Definition no_nl (l : bytes) : Prop := forallb (fun a => negb (is_nl a)) l = true.

Lemma is_prefix_b_spec p l : is_prefix_b p l = true <-> exists r, l = p ++ r.
Proof.
  revert l. induction p as [|a p IH]; intros l; cbn [is_prefix_b].
  - split; [intros _; exists l; reflexivity|reflexivity].
  - destruct l as [|b l].
    + split; [discriminate|intros [r H]; discriminate].
    + rewrite andb_true_iff, IH. split.
      * intros [E [r ->]]. apply Ascii.eqb_eq in E. subst. exists r. reflexivity.
      * intros [r H]. cbn in H. injection H as -> ->. split; [apply Ascii.eqb_refl|exists r; reflexivity].
Qed.

Lemma is_infix_b_spec m l : is_infix_b m l = true <-> exists a b, l = a ++ m ++ b.
Proof.
  induction l as [|x l IH]; cbn [is_infix_b].
  - rewrite orb_false_r, is_prefix_b_spec. split.
    + intros [r H]. exists [], r. exact H.
    + intros [a [b H]]. destruct a; [exists b; exact H|discriminate].
  - rewrite orb_true_iff, is_prefix_b_spec, IH. split.
    + intros [[r H]|[a [b H]]].
      * exists [], r. exact H.
      * exists (x :: a), b. cbn. rewrite H. reflexivity.
    + intros [a [b H]]. destruct a as [|y a].
      * left. exists b. exact H.
      * right. cbn in H. injection H as -> ->. exists a, b. reflexivity.
Qed.

Lemma has_marker_spec p l : has_marker p l = true <-> exists a b, l = a ++ marker p ++ b.
Proof. apply is_infix_b_spec. Qed.

(* ---- split_nl ---- *)
Lemma split_nl_nonempty c : split_nl c <> [].
Proof.
  destruct c as [|a r]; cbn [split_nl]; [discriminate|].
  destruct (is_nl a); [discriminate|]. destruct (split_nl r); discriminate.
Qed.

Lemma split_nl_cons_nl a r : is_nl a = true -> split_nl (a :: r) = [] :: split_nl r.
Proof. intros H. cbn [split_nl]. rewrite H. reflexivity. Qed.

Lemma split_nl_cons_other a r : is_nl a = false ->
  split_nl (a :: r) = (a :: hd [] (split_nl r)) :: tl (split_nl r).
Proof.
  intros H. cbn [split_nl]. rewrite H.
  pose proof (split_nl_nonempty r) as N. destruct (split_nl r); [congruence|reflexivity].
Qed.

Lemma is_nl_ch_nl : is_nl ch_nl = true. Proof. reflexivity. Qed.

Lemma is_nl_eq a : is_nl a = true -> a = ch_nl.
Proof.
  unfold is_nl. intros H. apply N.eqb_eq in H.
  rewrite <- (ascii_N_embedding a), H. reflexivity.
Qed.

Lemma split_nl_line l rest : no_nl l ->
  split_nl (l ++ ch_nl :: rest) = l :: split_nl rest.
Proof.
  unfold no_nl. induction l as [|a l IH]; intros H.
  - cbn [app]. apply split_nl_cons_nl. reflexivity.
  - cbn [forallb] in H. apply andb_true_iff in H as [Ha Hl].
    cbn [app]. rewrite split_nl_cons_other by (destruct (is_nl a); [discriminate|reflexivity]).
    rewrite (IH Hl). reflexivity.
Qed.

Lemma split_nl_unlines ls : Forall no_nl ls -> split_nl (unlines ls) = ls ++ [[]].
Proof.
  induction 1 as [|l ls Hl _ IH]; [reflexivity|].
  unfold unlines in *. cbn [map concat]. rewrite <- app_assoc. cbn [app].
  rewrite split_nl_line by exact Hl. rewrite IH. reflexivity.
Qed.

Lemma split_nl_no_nl c : Forall no_nl (split_nl c).
Proof.
  induction c as [|a r IH]; [repeat constructor|].
  destruct (is_nl a) eqn:E.
  - rewrite split_nl_cons_nl by exact E. constructor; [reflexivity|exact IH].
  - rewrite split_nl_cons_other by exact E.
    pose proof (split_nl_nonempty r) as N. destruct (split_nl r) as [|h t]; [congruence|].
    inversion IH as [|? ? Hh Ht]; subst. cbn [hd tl]. constructor; [|exact Ht].
    unfold no_nl in *. cbn [forallb]. rewrite E. exact Hh.
Qed.

Lemma split_nl_length c : (length (split_nl c) <= length c + 1)%nat.
Proof.
  induction c as [|a r IH]; [cbn; lia|].
  destruct (is_nl a) eqn:E.
  - rewrite split_nl_cons_nl by exact E. cbn [length]. lia.
  - rewrite split_nl_cons_other by exact E.
    pose proof (split_nl_nonempty r) as N. destruct (split_nl r); [congruence|]. cbn [length tl] in *. lia.
Qed.

(* ---- rstrip ---- *)
Lemma rstrip_length c : (length (rstrip c) <= length c)%nat.
Proof.
  induction c as [|a r IH]; [cbn; lia|]. cbn [rstrip].
  destruct (rstrip r) eqn:E; [destruct (is_ws a); cbn; lia|]. cbn [length] in *. lia.
Qed.

Lemma rstrip_cons a r : rstrip (a :: r) =
  match rstrip r with [] => if is_ws a then [] else [a] | r' => a :: r' end.
Proof. reflexivity. Qed.

Lemma rstrip_forallb (P : ascii -> bool) c : forallb P c = true -> forallb P (rstrip c) = true.
Proof.
  induction c as [|a r IH]; [reflexivity|]. cbn [forallb]. intros H.
  apply andb_true_iff in H as [Ha Hr]. rewrite rstrip_cons. specialize (IH Hr).
  destruct (rstrip r) eqn:E.
  - destruct (is_ws a); [reflexivity|]. cbn. rewrite Ha. reflexivity.
  - cbn [forallb] in *. rewrite Ha. exact IH.
Qed.

(* all-white-space test, and rstrip of a string that ends in a non-space *)
Definition all_ws (c : bytes) : bool := forallb is_ws c.

Lemma rstrip_nil_iff c : rstrip c = [] <-> all_ws c = true.
Proof.
  induction c as [|a r IH]; [split; reflexivity|].
  rewrite rstrip_cons. unfold all_ws in *. cbn [forallb]. rewrite andb_true_iff, <- IH.
  destruct (rstrip r) eqn:E.
  - destruct (is_ws a); split; try tauto; try discriminate. intros [H _]; discriminate.
  - split; [discriminate|intros [_ H]; discriminate].
Qed.

Lemma nonblank_all_ws c : nonblank c = negb (all_ws c).
Proof.
  unfold nonblank, all_ws. induction c as [|a r IH]; [reflexivity|].
  cbn [existsb forallb]. rewrite IH. destruct (is_ws a), (forallb is_ws r); reflexivity.
Qed.

Lemma rstrip_app_nonws c x : is_ws x = false -> rstrip (c ++ [x]) = c ++ [x].
Proof.
  intros H. induction c as [|a r IH].
  - cbn. rewrite H. reflexivity.
  - cbn [app]. rewrite rstrip_cons, IH. destruct (r ++ [x]) eqn:E; [destruct r; discriminate|reflexivity].
Qed.

Lemma rstrip_idem c : rstrip (rstrip c) = rstrip c.
Proof.
  induction c as [|a r IH]; [reflexivity|]. rewrite rstrip_cons.
  destruct (rstrip r) as [|b r'] eqn:E.
  - destruct (is_ws a) eqn:W; [reflexivity|]. cbn. rewrite W. reflexivity.
  - rewrite rstrip_cons, IH. reflexivity.
Qed.

(* rstrip only removes a suffix of white space *)
Lemma rstrip_decomp c : exists w, c = rstrip c ++ w /\ all_ws w = true.
Proof.
  induction c as [|a r [w [E W]]]; [exists []; split; reflexivity|].
  rewrite rstrip_cons. destruct (rstrip r) as [|b r'] eqn:R.
  - destruct (is_ws a) eqn:A.
    + exists (a :: r). split; [reflexivity|]. cbn in E. subst w. unfold all_ws in *. cbn [forallb]. rewrite A. exact W.
    + exists w. cbn in E. subst w. split; [reflexivity|exact W].
  - exists w. split; [|exact W]. cbn [app]. f_equal. exact E.
Qed.

(* ---- line-level view of rstrip: drop trailing blank lines, rstrip the last one ---- *)
Fixpoint rstrip_lines' (ls : list bytes) : list bytes :=
  match ls with
  | [] => []
  | l :: r => match rstrip_lines' r with
              | [] => match rstrip l with [] => [] | l' => [l'] end
              | r' => l :: r'
              end
  end.
Definition rstrip_lines (ls : list bytes) : list bytes :=
  match rstrip_lines' ls with [] => [[]] | x => x end.

Lemma rstrip_lines'_cons l r : rstrip_lines' (l :: r) =
  match rstrip_lines' r with
  | [] => match rstrip l with [] => [] | l' => [l'] end
  | r' => l :: r'
  end.
Proof. reflexivity. Qed.

Lemma split_rstrip_aux c :
  (rstrip c = [] -> rstrip_lines' (split_nl c) = []) /\
  (rstrip c <> [] -> split_nl (rstrip c) = rstrip_lines' (split_nl c)).
Proof.
  induction c as [|a r [IH1 IH2]].
  - split; [reflexivity|intros H; exfalso; apply H; reflexivity].
  - rewrite rstrip_cons. destruct (rstrip r) as [|b r'] eqn:R.
    + specialize (IH1 eq_refl). clear IH2.
      destruct (is_nl a) eqn:NL.
      * assert (W : is_ws a = true) by (rewrite (is_nl_eq a NL); reflexivity). rewrite W.
        rewrite split_nl_cons_nl by exact NL. rewrite rstrip_lines'_cons, IH1. cbn.
        split; [reflexivity|intros H; exfalso; apply H; reflexivity].
      * rewrite split_nl_cons_other by exact NL.
        pose proof (split_nl_nonempty r) as N. destruct (split_nl r) as [|h t]; [congruence|].
        cbn [hd tl]. rewrite rstrip_lines'_cons in IH1 |- *.
        destruct (rstrip_lines' t) eqn:T; [|discriminate].
        rewrite rstrip_cons. destruct (rstrip h) eqn:H; [|discriminate].
        destruct (is_ws a) eqn:W.
        -- split; [reflexivity|intros X; exfalso; apply X; reflexivity].
        -- split; [discriminate|]. intros _. cbn [split_nl]. rewrite NL. reflexivity.
    + assert (NE : b :: r' <> []) by discriminate. specialize (IH2 NE). clear IH1.
      split; [discriminate|]. intros _.
      destruct (is_nl a) eqn:NL.
      * rewrite (split_nl_cons_nl a r NL), (split_nl_cons_nl a (b :: r') NL). rewrite rstrip_lines'_cons, <- IH2.
        pose proof (split_nl_nonempty (b :: r')) as N. destruct (split_nl (b :: r')); [congruence|reflexivity].
      * rewrite (split_nl_cons_other a r NL), (split_nl_cons_other a (b :: r') NL). rewrite IH2.
        pose proof (split_nl_nonempty r) as N. destruct (split_nl r) as [|h t]; [congruence|].
        cbn [hd tl]. rewrite !rstrip_lines'_cons.
        destruct (rstrip_lines' t) eqn:T.
        -- rewrite rstrip_cons. destruct (rstrip h) eqn:H.
           ++ exfalso. rewrite rstrip_lines'_cons, T, H in IH2.
              pose proof (split_nl_nonempty (b :: r')). congruence.
           ++ reflexivity.
        -- reflexivity.
Qed.

Lemma norm_lines_rstrip_lines c : norm_lines c = rstrip_lines (split_nl c).
Proof.
  unfold norm_lines, rstrip_lines. destruct (split_rstrip_aux c) as [H1 H2].
  destruct (rstrip c) as [|a0 l0] eqn:R.
  - rewrite (H1 eq_refl). reflexivity.
  - rewrite <- H2 by discriminate.
    pose proof (split_nl_nonempty (a0 :: l0)). destruct (split_nl (a0 :: l0)); [congruence|reflexivity].
Qed.
(* ================================================================== *)
(* 2. Decimal rendering and marker injectivity                         *)

Definition val_le (ds : list N) : N := fold_right (fun d acc => d + 10 * acc) 0 ds.

Lemma digits_le_val fuel n : n < 2 ^ N.of_nat fuel -> val_le (digits_le fuel n) = n.
Proof.
  revert n. induction fuel as [|f IH]; intros n H.
  - cbn in H. assert (n = 0) by lia. subst. reflexivity.
  - cbn [digits_le]. destruct (n <? 10) eqn:E.
    + cbn. lia.
    + cbn [val_le fold_right]. fold (val_le (digits_le f (n / 10))).
      rewrite IH.
      * pose proof (N.div_mod n 10). lia.
      * rewrite Nat2N.inj_succ, N.pow_succ_r' in H.
        apply N.div_lt_upper_bound; lia.
Qed.

Lemma digits_le_lt10 fuel n : Forall (fun d => d < 10) (digits_le fuel n).
Proof.
  revert n. induction fuel as [|f IH]; intros n; [constructor|].
  cbn [digits_le]. destruct (n <? 10) eqn:E.
  - constructor; [apply N.ltb_lt; exact E|constructor].
  - constructor; [apply N.mod_lt; discriminate|apply IH].
Qed.

Lemma dec_fuel_ok n : n < 2 ^ N.of_nat (S (N.to_nat (N.log2 n))).
Proof.
  rewrite Nat2N.inj_succ, N2Nat.id.
  destruct n as [|p]; [reflexivity|].
  apply N.log2_spec. reflexivity.
Qed.

Lemma digit_char_inj a b : a < 10 -> b < 10 -> digit_char a = digit_char b -> a = b.
Proof.
  unfold digit_char. intros Ha Hb H.
  assert (E : N_of_ascii (ascii_of_N (48 + a)) = N_of_ascii (ascii_of_N (48 + b))) by (rewrite H; reflexivity).
  rewrite !N_ascii_embedding in E by lia. lia.
Qed.

Lemma map_digit_char_inj l1 l2 :
  Forall (fun d => d < 10) l1 -> Forall (fun d => d < 10) l2 ->
  map digit_char l1 = map digit_char l2 -> l1 = l2.
Proof.
  intros H1. revert l2. induction H1 as [|a l1 Ha _ IH]; intros l2 H2 E.
  - destruct l2; [reflexivity|discriminate].
  - destruct l2 as [|b l2]; [discriminate|]. inversion H2; subst. cbn in E. injection E as E1 E2.
    f_equal; [apply digit_char_inj; assumption|apply IH; assumption].
Qed.

Lemma dec_inj p q : dec p = dec q -> p = q.
Proof.
  unfold dec. intros H.
  apply map_digit_char_inj in H;
    [|apply Forall_rev, digits_le_lt10|apply Forall_rev, digits_le_lt10].
  apply (f_equal (@rev N)) in H. rewrite !rev_involutive in H.
  rewrite <- (digits_le_val _ p (dec_fuel_ok p)), <- (digits_le_val _ q (dec_fuel_ok q)), H.
  reflexivity.
Qed.

Lemma dec_digits n a : In a (dec n) -> 48 <= N_of_ascii a <= 57.
Proof.
  unfold dec. intros H. apply in_map_iff in H as [d [<- Hd]].
  apply in_rev in Hd.
  pose proof (digits_le_lt10 (S (N.to_nat (N.log2 n))) n) as F.
  rewrite Forall_forall in F. specialize (F d Hd).
  unfold digit_char. rewrite N_ascii_embedding by lia. lia.
Qed.

(* a character that occurs in one known position only pins down a decomposition *)
Lemma split_unique {A} (c : A) a u x y :
  a ++ c :: u = x ++ c :: y -> ~ In c x -> ~ In c y -> a = x /\ u = y.
Proof.
  revert x. induction a as [|a0 a IH]; intros x E Hx Hy.
  - destruct x as [|x0 x].
    + cbn in E. injection E as ->. split; reflexivity.
    + cbn in E. injection E as -> _. exfalso. apply Hx. left. reflexivity.
  - destruct x as [|x0 x].
    + cbn in E. injection E as -> E. exfalso. apply Hy. rewrite <- E. apply in_or_app. right. left. reflexivity.
    + cbn in E. injection E as -> E. destruct (IH x E) as [-> ->]; [|exact Hy|split; reflexivity].
      intros H. apply Hx. right. exact H.
Qed.

Definition notin_b (c : ascii) (l : bytes) : bool := forallb (fun a => negb (Ascii.eqb a c)) l.
Lemma notin_b_spec c l : notin_b c l = true -> ~ In c l.
Proof.
  unfold notin_b. intros H I. rewrite forallb_forall in H. specialize (H c I).
  rewrite Ascii.eqb_refl in H. discriminate.
Qed.

(* shape of the generated marker constants (re-checked against /repo on every run) *)
Definition pre_tl : bytes := tl hosts_marker_pre.
Definition post_tl : bytes := tl hosts_marker_post.
Lemma pre_shape : hosts_marker_pre = ch_hash :: pre_tl. Proof. reflexivity. Qed.
Lemma post_shape : hosts_marker_post = ch_sp :: post_tl. Proof. reflexivity. Qed.
Lemma pre_tl_nohash : ~ In ch_hash pre_tl. Proof. apply notin_b_spec. vm_compute. reflexivity. Qed.
Lemma post_nohash : ~ In ch_hash hosts_marker_post. Proof. apply notin_b_spec. vm_compute. reflexivity. Qed.
Lemma post_tl_nosp : ~ In ch_sp post_tl. Proof. apply notin_b_spec. vm_compute. reflexivity. Qed.

Lemma dec_nochar n c : (N_of_ascii c < 48 \/ 57 < N_of_ascii c) -> ~ In c (dec n).
Proof. intros H I. apply dec_digits in I. lia. Qed.

Lemma marker_shape p : marker p = ch_hash :: (pre_tl ++ dec p ++ hosts_marker_post).
Proof. unfold marker. rewrite pre_shape. reflexivity. Qed.

Lemma marker_tl_nohash p : ~ In ch_hash (pre_tl ++ dec p ++ hosts_marker_post).
Proof.
  intros H. apply in_app_or in H as [H|H]; [exact (pre_tl_nohash H)|].
  apply in_app_or in H as [H|H]; [|exact (post_nohash H)].
  revert H. apply dec_nochar. left. vm_compute. reflexivity.
Qed.

(* a line  X ++ marker p  whose part X has no '#' contains the marker of q only if q = p *)
Lemma marker_in_hashfree_line q p X :
  ~ In ch_hash X -> has_marker q (X ++ marker p) = true -> q = p.
Proof.
  intros HX H. apply has_marker_spec in H as [a [b E]].
  rewrite (marker_shape q), (marker_shape p) in E. cbn [app] in E.
  symmetry in E. apply split_unique in E as [_ E]; [|exact HX|apply marker_tl_nohash].
  (* pre_tl ++ dec q ++ post ++ b = pre_tl ++ dec p ++ post *)
  rewrite <- !app_assoc in E. apply app_inv_head in E.
  rewrite post_shape in E. cbn [app] in E.
  replace (dec p ++ ch_sp :: post_tl) with (dec p ++ ch_sp :: post_tl ++ []) in E by (rewrite app_nil_r; reflexivity).
  change (dec q ++ ch_sp :: (post_tl ++ b) = dec p ++ ch_sp :: post_tl ++ []) in E.
  apply split_unique in E as [E _].
  - apply dec_inj. exact E.
  - apply dec_nochar. left. vm_compute. reflexivity.
  - rewrite app_nil_r. exact post_tl_nosp.
Qed.

Lemma marker_injective p q : has_marker q (marker p) = true -> q = p.
Proof. intros H. apply (marker_in_hashfree_line q p []); [intros []|exact H]. Qed.

Lemma has_marker_self p X Y : has_marker p (X ++ marker p ++ Y) = true.
Proof. apply has_marker_spec. exists X, Y. reflexivity. Qed.

Lemma ljust_nochar c w s : c <> ch_sp -> ~ In c s -> ~ In c (ljust w s).
Proof.
  unfold ljust. intros Hc Hs H. apply in_app_or in H as [H|H]; [exact (Hs H)|].
  apply repeat_spec in H. exact (Hc H).
Qed.

Definition entry_ok (e : entry) : Prop :=
  let '(name, ip) := e in
  forall c, In c [ch_hash; ch_nl; ch_cr] -> ~ In c name /\ ~ In c ip.

Lemma marked_line_split p e :
  exists X, marked_line p e = X ++ marker p /\
            (forall c, c <> ch_sp -> (let '(name, ip) := e in ~ In c name /\ ~ In c ip) -> ~ In c X).
Proof.
  destruct e as [name ip]. unfold marked_line.
  exists (ljust 30 (ip ++ ch_sp :: name) ++ [ch_sp]). split.
  - rewrite <- app_assoc. reflexivity.
  - intros c Hc [Hn Hi] H. apply in_app_or in H as [H|H].
    + revert H. apply ljust_nochar; [exact Hc|]. intros H. apply in_app_or in H as [H|[H|H]]; auto.
    + destruct H as [H|[]]. auto.
Qed.

Lemma marked_line_marker q p e : entry_ok e ->
  (has_marker q (marked_line p e) = true <-> q = p).
Proof.
  intros Hok. destruct (marked_line_split p e) as [X [E HX]]. rewrite E. split.
  - apply marker_in_hashfree_line. apply HX; [discriminate|].
    destruct e as [name ip]. apply (Hok ch_hash). left. reflexivity.
  - intros ->. rewrite <- (app_nil_r (marker p)). apply has_marker_self.
Qed.
(* ================================================================== *)
(* 3. sorted(hostmap.items())                                          *)

Lemma bytes_ltb_asym a b : bytes_ltb a b = true -> bytes_ltb b a = false.
Proof.
  revert b. induction a as [|x a IH]; intros b H.
  - destruct b; [discriminate|reflexivity].
  - destruct b as [|y b]; [discriminate|]. cbn [bytes_ltb] in *.
    destruct (N_of_ascii x <? N_of_ascii y) eqn:E1.
    + apply N.ltb_lt in E1. destruct (N_of_ascii y <? N_of_ascii x) eqn:E2; [apply N.ltb_lt in E2; lia|reflexivity].
    + destruct (N_of_ascii y <? N_of_ascii x) eqn:E2; [discriminate|]. apply IH. exact H.
Qed.

Lemma entry_leb_total x y : entry_leb x y = true \/ entry_leb y x = true.
Proof.
  unfold entry_leb.
  destruct (bytes_ltb (fst x) (fst y)) eqn:A; [left; reflexivity|].
  destruct (bytes_ltb (fst y) (fst x)) eqn:B; [right; reflexivity|].
  destruct (bytes_ltb (snd y) (snd x)) eqn:C; [|left; reflexivity].
  right. rewrite (bytes_ltb_asym _ _ C). reflexivity.
Qed.

Definition entry_le (x y : entry) : Prop := entry_leb x y = true.

Lemma insert_perm x l : Permutation (insert_entry x l) (x :: l).
Proof.
  induction l as [|y l IH]; [apply Permutation_refl|]. cbn [insert_entry].
  destruct (entry_leb x y); [apply Permutation_refl|].
  eapply perm_trans; [apply perm_skip, IH|apply perm_swap].
Qed.

Lemma sort_entries_perm l : Permutation (sort_entries l) l.
Proof.
  induction l as [|x l IH]; [constructor|]. cbn [sort_entries fold_right].
  eapply perm_trans; [apply insert_perm|apply perm_skip, IH].
Qed.

Lemma insert_sorted x l : Sorted entry_le l -> Sorted entry_le (insert_entry x l).
Proof.
  induction 1 as [|y l Hs IH Hd]; [repeat constructor|]. cbn [insert_entry].
  destruct (entry_leb x y) eqn:E.
  - constructor; [constructor; assumption|constructor; exact E].
  - constructor; [exact IH|].
    assert (Hyx : entry_le y x) by (destruct (entry_leb_total x y) as [H|H]; [congruence|exact H]).
    destruct l as [|z l]; cbn [insert_entry]; [constructor; exact Hyx|].
    destruct (entry_leb x z); constructor; [exact Hyx|]. inversion Hd; assumption.
Qed.

Lemma sort_entries_sorted l : Sorted entry_le (sort_entries l).
Proof. induction l as [|x l IH]; [constructor|]. apply insert_sorted. exact IH. Qed.

Lemma sort_entries_length l : length (sort_entries l) = length l.
Proof. apply Permutation_length, sort_entries_perm. Qed.

(* ================================================================== *)
(* 4. The file system and one call of rewrite_etc_hosts                 *)

Lemma path_eqb_eq a b : path_eqb a b = true <-> a = b.
Proof.
  destruct a, b; cbn; try (split; [discriminate|discriminate]); try (split; reflexivity).
  rewrite N.eqb_eq. split; [intros ->; reflexivity|intros [= ->]; reflexivity].
Qed.

Lemma path_eqb_refl a : path_eqb a a = true.
Proof. apply path_eqb_eq. reflexivity. Qed.

Lemma path_eqb_neq a b : a <> b -> path_eqb a b = false.
Proof. intros H. destruct (path_eqb a b) eqn:E; [apply path_eqb_eq in E; contradiction|reflexivity]. Qed.

Lemma lookup_remove_same p l : lookup p (remove_path p l) = None.
Proof.
  induction l as [|[q f] l IH]; [reflexivity|]. cbn [remove_path].
  destruct (path_eqb p q) eqn:E; [exact IH|]. cbn [lookup]. rewrite E. exact IH.
Qed.

Lemma lookup_remove_other p q l : p <> q -> lookup p (remove_path q l) = lookup p l.
Proof.
  intros H. induction l as [|[r f] l IH]; [reflexivity|]. cbn [remove_path lookup].
  destruct (path_eqb q r) eqn:E.
  - apply path_eqb_eq in E. subst r. rewrite (path_eqb_neq p q H). exact IH.
  - cbn [lookup]. rewrite IH. reflexivity.
Qed.

Lemma fs_get_set_same p f s : fs_get p (fs_set p f s) = Some f.
Proof. unfold fs_get, fs_set, set_path. cbn. rewrite path_eqb_refl. reflexivity. Qed.

Lemma fs_get_set_other p q f s : p <> q -> fs_get p (fs_set q f s) = fs_get p s.
Proof.
  intros H. unfold fs_get, fs_set, set_path. cbn. rewrite (path_eqb_neq p q H).
  apply lookup_remove_other. exact H.
Qed.

Lemma fs_get_del_same p s : fs_get p (fs_del p s) = None.
Proof. unfold fs_get, fs_del. cbn. apply lookup_remove_same. Qed.

Lemma fs_get_del_other p q s : p <> q -> fs_get p (fs_del q s) = fs_get p s.
Proof. intros H. unfold fs_get, fs_del. cbn. apply lookup_remove_other. exact H. Qed.

Lemma hosts_ne_bak : PHosts <> PBak. Proof. discriminate. Qed.
Lemma hosts_ne_tmp p : PHosts <> PTmp p. Proof. discriminate. Qed.
Lemma bak_ne_tmp p : PBak <> PTmp p. Proof. discriminate. Qed.
Lemma bak_ne_hosts : PBak <> PHosts. Proof. discriminate. Qed.
Lemma tmp_ne_hosts p : PTmp p <> PHosts. Proof. discriminate. Qed.
Lemma tmp_ne_bak p : PTmp p <> PBak. Proof. discriminate. Qed.
#[global] Hint Resolve hosts_ne_bak hosts_ne_tmp bak_ne_tmp bak_ne_hosts tmp_ne_hosts tmp_ne_bak : fsne.

Ltac fs_simpl :=
  repeat first
    [ rewrite fs_get_set_same
    | rewrite fs_get_set_other by auto with fsne
    | rewrite fs_get_del_same
    | rewrite fs_get_del_other by auto with fsne ].

(* owner and permission bits the new file must get *)
Definition meta_of (o : option file) : N * N * N :=
  match o with Some f => (f_uid f, f_gid f, f_mode f) | None => (0, 0, default_mode) end.
Definition st_of (o : option file) : option (N * N * N) :=
  match o with Some f => Some (f_uid f, f_gid f, f_mode f) | None => None end.

(* an upper bound on the number of primitives still to come *)
Definition wsteps (c : pc) (W : nat) : nat :=
  match c with
  | AtRead => 10 + W | AtStat => 9 + W | AtExists => 8 + W | AtLink => 7 + W | AtCopy => 6 + W
  | AtOpen => 5 + W | AtWrite pend => 4 + length pend | AtChown => 3 | AtChmod => 2 | AtRename => 1
  | AtDone => 0 | AtCrash => 0
  end%nat.

Section Solo.
  Variable s0 : fsys.
  Variable p : N.
  Variable hm : list entry.
  Definition solo_h0 := fs_get PHosts s0.
  Definition solo_old := univ_nl (hosts_data s0).
  Definition solo_full := new_content p solo_old hm.
  Definition solo_W := length (writes_of p solo_old hm).

  Definition solo_inv (i : inst) (s : fsys) : Prop :=
    i_port i = p /\ i_map i = hm /\
    match i_pc i with
    | AtRead => fs_get PHosts s = solo_h0
    | AtStat => fs_get PHosts s = solo_h0 /\ i_old i = solo_old /\ solo_h0 <> None
    | AtExists => fs_get PHosts s = solo_h0 /\ i_old i = solo_old /\ i_st i = st_of solo_h0 /\ solo_h0 <> None
    | AtLink => fs_get PHosts s = solo_h0 /\ i_old i = solo_old /\ i_st i = st_of solo_h0 /\ solo_h0 <> None /\ fs_get PBak s = None
    | AtCopy => fs_get PHosts s = solo_h0 /\ i_old i = solo_old /\ i_st i = st_of solo_h0 /\ solo_h0 <> None /\ fs_get PBak s = None
    | AtOpen => fs_get PHosts s = solo_h0 /\ i_old i = solo_old /\ i_st i = st_of solo_h0
    | AtWrite pend => fs_get PHosts s = solo_h0 /\ i_st i = st_of solo_h0 /\
        exists t, fs_get (PTmp p) s = Some t /\ f_data t ++ concat pend = solo_full
    | AtChown => fs_get PHosts s = solo_h0 /\ i_st i = st_of solo_h0 /\
        exists t, fs_get (PTmp p) s = Some t /\ f_data t = solo_full
    | AtChmod => fs_get PHosts s = solo_h0 /\ i_st i = st_of solo_h0 /\
        exists t, fs_get (PTmp p) s = Some t /\ f_data t = solo_full /\
                  (f_uid t, f_gid t) = (fst (fst (meta_of solo_h0)), snd (fst (meta_of solo_h0)))
    | AtRename => fs_get PHosts s = solo_h0 /\
        exists t, fs_get (PTmp p) s = Some t /\ f_data t = solo_full /\
                  (f_uid t, f_gid t, f_mode t) = meta_of solo_h0
    | AtDone => fs_get (PTmp p) s = None /\
        exists t, fs_get PHosts s = Some t /\ f_data t = solo_full /\
                  (f_uid t, f_gid t, f_mode t) = meta_of solo_h0
    | AtCrash => False
    end.

  Lemma solo_inv_start : solo_inv (start p hm) s0.
  Proof. unfold solo_inv, start. cbn. repeat split. Qed.

  Lemma h0_none_old : solo_h0 = None -> solo_old = [].
  Proof. unfold solo_h0, solo_old, hosts_data. intros ->. reflexivity. Qed.

  Lemma after_read_inv i s :
    i_port i = p -> i_map i = hm -> i_pc i = after_read solo_old -> i_old i = solo_old -> i_st i = st_of solo_h0 ->
    fs_get PHosts s = solo_h0 -> solo_inv i s.
  Proof.
    intros Hp Hm Hpc Ho Hst Hh. unfold solo_inv. rewrite Hpc. unfold after_read.
    destruct (nonblank solo_old) eqn:NB; repeat split; try assumption.
    intros E. rewrite (h0_none_old E) in NB. discriminate.
  Qed.

  Ltac open_inv := unfold solo_inv, solo_h0, solo_old, solo_full; cbn [i_port i_map i_pc i_old i_st].

  Lemma step_solo i s : solo_inv i s -> is_final (i_pc i) = false ->
    solo_inv (fst (fst (step i s))) (snd (fst (step i s))) /\
    (wsteps (i_pc (fst (fst (step i s)))) solo_W < wsteps (i_pc i) solo_W)%nat.
  Proof.
    destruct i as [port map c iold ist]. intros Hinv NF.
    unfold solo_inv in Hinv. cbn [i_port i_map i_pc i_old i_st] in Hinv.
    destruct Hinv as [-> [-> H]]. unfold solo_h0, solo_old in H. unfold solo_W, solo_old. unfold step.
    cbn [i_port i_map i_pc i_old i_st].
    destruct c.
    - (* AtRead *) rewrite H. destruct (fs_get PHosts s0) as [f|] eqn:E0.
      + cbn [fst snd i_pc wsteps]. split; [|lia].
        open_inv. unfold hosts_data. rewrite E0.
        repeat split; try assumption; try discriminate.
      + cbn [fst snd]. split.
        * apply after_read_inv; cbn [i_port i_map i_pc i_old i_st]; try reflexivity; try assumption.
          -- rewrite (h0_none_old E0). reflexivity.
          -- rewrite (h0_none_old E0). reflexivity.
          -- unfold solo_h0. rewrite E0. reflexivity.
          -- unfold solo_h0. rewrite E0. exact H.
        * cbn [i_pc]. unfold after_read. cbn. lia.
    - (* AtStat *) destruct H as [Hh [Ho Hn]]. rewrite Hh. destruct (fs_get PHosts s0) as [f|] eqn:E0; [|congruence].
      cbn [fst snd]. subst iold. split.
      + apply after_read_inv; cbn [i_port i_map i_pc i_old i_st]; try reflexivity;
          unfold solo_h0; rewrite E0; [reflexivity|exact Hh].
      + cbn [i_pc]. unfold after_read. fold solo_old. destruct (nonblank solo_old); cbn; lia.
    - (* AtExists *) destruct H as [Hh [Ho [Hst Hn]]].
      destruct (fs_get PBak s) eqn:EB; cbn [fst snd with_pc i_pc i_port i_map i_old i_st wsteps]; (split; [|lia]);
        open_inv; repeat split; assumption.
    - (* AtLink *) destruct H as [Hh [Ho [Hst [Hn Hb]]]]. rewrite Hh, Hb.
      destruct (fs_get PHosts s0) as [f|] eqn:E0; [|congruence].
      destruct (link_ok s); cbn [fst snd with_pc i_pc i_port i_map i_old i_st wsteps]; (split; [|lia]);
        open_inv; rewrite ?E0; repeat split; fs_simpl; try assumption.
    - (* AtCopy *) destruct H as [Hh [Ho [Hst [Hn Hb]]]]. rewrite Hh, Hb.
      destruct (fs_get PHosts s0) as [f|] eqn:E0; [|congruence].
      cbn [fs_fresh fst snd with_pc i_pc i_port i_map i_old i_st wsteps]. split; [|lia].
      open_inv. rewrite ?E0. repeat split; try assumption.
      rewrite fs_get_set_other by auto with fsne. exact Hh.
    - (* AtOpen *) destruct H as [Hh [Ho Hst]]. subst iold.
      destruct (fs_get (PTmp p) s) as [t|] eqn:ET;
        cbn [fs_fresh fst snd with_pc i_pc i_port i_map i_old i_st wsteps].
      + split; [|lia]. open_inv. repeat split; try assumption.
        * rewrite fs_get_set_other by auto with fsne. exact Hh.
        * eexists. rewrite fs_get_set_same. split; [reflexivity|]. reflexivity.
      + split; [|lia]. open_inv. repeat split; try assumption.
        * rewrite fs_get_set_other by auto with fsne. exact Hh.
        * eexists. rewrite fs_get_set_same. split; [reflexivity|]. reflexivity.
    - (* AtWrite *) destruct H as [Hh [Hst [t [Ht Hd]]]].
      destruct pending as [|d rest].
      + cbn [fst snd with_pc i_pc i_port i_map i_old i_st wsteps length]. split; [|lia].
        open_inv.
        repeat split; try assumption. exists t. split; [exact Ht|].
        cbn [concat] in Hd. rewrite app_nil_r in Hd. exact Hd.
      + rewrite Ht. cbn [fst snd with_pc i_pc i_port i_map i_old i_st wsteps length]. split; [|lia].
        open_inv.
        repeat split; try assumption.
        * rewrite fs_get_set_other by auto with fsne. exact Hh.
        * eexists. rewrite fs_get_set_same. split; [reflexivity|]. cbn [f_data concat] in *.
          rewrite <- app_assoc. exact Hd.
    - (* AtChown *) destruct H as [Hh [Hst [t [Ht Hd]]]]. rewrite Ht.
      destruct (match ist with Some (u, g, _) => (u, g) | None => (0, 0) end) as [u g] eqn:EU.
      cbn [fst snd with_pc i_pc i_port i_map i_old i_st wsteps]. split; [|lia].
      open_inv.
      repeat split; try assumption.
      + rewrite fs_get_set_other by auto with fsne. exact Hh.
      + eexists. rewrite fs_get_set_same. split; [reflexivity|]. cbn [f_data f_uid f_gid]. split; [exact Hd|].
        rewrite Hst in EU. destruct (fs_get PHosts s0) as [f|]; cbn in EU |- *; congruence.
    - (* AtChmod *) destruct H as [Hh [Hst [t [Ht [Hd Hu]]]]]. rewrite Ht.
      cbn [fst snd with_pc i_pc i_port i_map i_old i_st wsteps]. split; [|lia].
      open_inv.
      repeat split; try assumption.
      + rewrite fs_get_set_other by auto with fsne. exact Hh.
      + eexists. rewrite fs_get_set_same. split; [reflexivity|]. cbn [f_data f_uid f_gid f_mode]. split; [exact Hd|].
        rewrite Hst. injection Hu as -> ->. destruct (fs_get PHosts s0) as [f|]; reflexivity.
    - (* AtRename *) destruct H as [Hh [t [Ht [Hd Hu]]]]. rewrite Ht.
      cbn [fst snd with_pc i_pc i_port i_map i_old i_st wsteps]. split; [|lia].
      open_inv.
      repeat split.
      + rewrite fs_get_set_other by auto with fsne. apply fs_get_del_same.
      + exists t. rewrite fs_get_set_same. repeat split; assumption.
    - discriminate.
    - discriminate.
  Qed.

  Lemma run_k_solo k : forall i s, solo_inv i s ->
    let '(i', s', _) := run_k k i s in
    solo_inv i' s' /\ (wsteps (i_pc i') solo_W <= wsteps (i_pc i) solo_W - k)%nat.
  Proof.
    induction k as [|k IH]; intros i s Hinv.
    - cbn [run_k]. split; [exact Hinv|lia].
    - cbn [run_k]. destruct (is_final (i_pc i)) eqn:F.
      + split; [exact Hinv|]. destruct (i_pc i); try discriminate; cbn; lia.
      + pose proof (step_solo i s Hinv F) as [Hi Hm].
        destruct (step i s) as [[i1 s1] e]. cbn [fst snd] in Hi, Hm.
        specialize (IH i1 s1 Hi). destruct (run_k k i1 s1) as [[i2 s2] tr].
        destruct IH as [Hi2 Hm2]. split; [exact Hi2|lia].
  Qed.
End Solo.
(* ---- the fuel of rewrite_fs is enough ---- *)
Lemma univ_nl_length c : (length (univ_nl c) <= length c)%nat.
Proof.
  assert (H : forall n c, (length c <= n)%nat -> (length (univ_nl c) <= length c)%nat).
  { induction n as [|n IH]; intros c0 Hn.
    - destruct c0; [cbn; lia|cbn in Hn; lia].
    - destruct c0 as [|a r]; [cbn; lia|]. cbn [univ_nl].
      destruct (N_of_ascii a =? 13).
      + destruct r as [|b r']; [cbn; lia|].
        destruct (N_of_ascii b =? 10); cbn [length] in *.
        * specialize (IH r'). lia.
        * specialize (IH (b :: r')). cbn [length] in IH. lia.
      + cbn [length] in *. specialize (IH r). lia. }
  apply (H (length c)). lia.
Qed.

Lemma filter_length_le {A} (f : A -> bool) l : (length (filter f l) <= length l)%nat.
Proof. induction l as [|a l IH]; [cbn; lia|]. cbn. destruct (f a); cbn; lia. Qed.

Lemma writes_length p old hm : (length (writes_of p old hm) <= length old + 1 + length hm)%nat.
Proof.
  unfold writes_of, kept_lines, norm_lines. rewrite map_length, app_length, map_length, sort_entries_length.
  pose proof (filter_length_le (fun l => negb (has_marker p l)) (split_nl (rstrip old))).
  pose proof (split_nl_length (rstrip old)). pose proof (rstrip_length old). lia.
Qed.

Lemma fuel_enough s0 p hm : (10 + solo_W s0 p hm <= fuel_for p (hosts_data s0) hm)%nat.
Proof.
  unfold solo_W, solo_old, fuel_for.
  pose proof (writes_length p (univ_nl (hosts_data s0)) hm). pose proof (univ_nl_length (hosts_data s0)). lia.
Qed.

Lemma wsteps_zero c W : wsteps c W = 0%nat -> c = AtDone \/ c = AtCrash.
Proof. destruct c; cbn; intros H; try lia; auto. Qed.

(* the complete next version of the hosts file *)
Definition next_version (p : N) (hm : list entry) (s0 : fsys) : bytes :=
  new_content p (univ_nl (hosts_data s0)) hm.

(* rewrite_etc_hosts run to completion *)
Lemma rewrite_fs_spec p hm s0 :
  let '(i, s, _) := rewrite_fs p hm s0 in
  i_pc i = AtDone /\
  fs_get (PTmp p) s = None /\
  exists t, fs_get PHosts s = Some t /\ f_data t = next_version p hm s0 /\
            (f_uid t, f_gid t, f_mode t) = meta_of (fs_get PHosts s0).
Proof.
  unfold rewrite_fs.
  pose proof (run_k_solo s0 p hm (fuel_for p (hosts_data s0) hm) (start p hm) s0 (solo_inv_start s0 p hm)) as H.
  destruct (run_k _ _ _) as [[i s] tr]. destruct H as [Hinv Hm].
  pose proof (fuel_enough s0 p hm). cbn [start i_pc wsteps] in Hm.
  assert (Z : wsteps (i_pc i) (solo_W s0 p hm) = 0%nat) by lia.
  unfold solo_inv in Hinv. destruct Hinv as [_ [_ Hinv]].
  apply wsteps_zero in Z as [Z|Z]; rewrite Z in Hinv; [|contradiction].
  split; [exact Z|exact Hinv].
Qed.

(* crash points: after any number k of primitives the hosts path holds the
   previous file (same directory entry) or the complete next version *)
Lemma crash_atomic p hm s0 k :
  let '(i, s, _) := run_k k (start p hm) s0 in
  fs_get PHosts s = fs_get PHosts s0 \/
  (i_pc i = AtDone /\ hosts_data s = next_version p hm s0).
Proof.
  pose proof (run_k_solo s0 p hm k (start p hm) s0 (solo_inv_start s0 p hm)) as H.
  destruct (run_k _ _ _) as [[i s] tr]. destruct H as [[_ [_ Hinv]] _].
  unfold solo_h0 in Hinv.
  destruct (i_pc i); try (left; tauto); try contradiction.
  right. split; [reflexivity|]. destruct Hinv as [_ [t [Ht [Hd _]]]]. unfold hosts_data. rewrite Ht. exact Hd.
Qed.

(* ---- facts about every single step, whoever else is running ---- *)
Ltac step_cases i s :=
  unfold step;
  destruct (i_pc i) as [| | | | | |[|? ?]| | | | |];
  repeat match goal with
         | |- context [match fs_get ?q s with _ => _ end] => destruct (fs_get q s) eqn:?
         | |- context [if link_ok s then _ else _] => destruct (link_ok s)
         | |- context [if ?a =? ?b then _ else _] => destruct (a =? b)
         | |- context [match i_st i with _ => _ end] => destruct (i_st i) as [[[? ?] ?]|]
         end;
  cbn [fs_fresh fst snd].

Lemma fs_get_mk q s n l : fs_get q (mkFs (files s) n l) = fs_get q s.
Proof. reflexivity. Qed.

(* only rename changes the hosts path *)
Lemma step_hosts_only_rename i s :
  (forall q, snd (step i s) <> Some (OpRename q)) ->
  fs_get PHosts (snd (fst (step i s))) = fs_get PHosts s.
Proof.
  step_cases i s; intros H; try reflexivity; try congruence; fs_simpl; rewrite ?fs_get_mk; try reflexivity; try congruence.
  all: exfalso; apply (H (i_port i)); reflexivity.
Qed.

(* a step touches nothing but the hosts path, the backup and its own temporary *)
Lemma step_frame i s q :
  q <> PHosts -> q <> PBak -> q <> PTmp (i_port i) ->
  fs_get q (snd (fst (step i s))) = fs_get q s.
Proof.
  intros H1 H2 H3. step_cases i s; try reflexivity;
    repeat first [rewrite fs_get_set_other by assumption | rewrite fs_get_del_other by assumption]; rewrite ?fs_get_mk; try reflexivity; congruence.
Qed.

Lemma step_port i s : i_port (fst (fst (step i s))) = i_port i /\ i_map (fst (fst (step i s))) = i_map i.
Proof. step_cases i s; split; reflexivity. Qed.

Lemma step_other_tmp i s q : q <> i_port i ->
  fs_get (PTmp q) (snd (fst (step i s))) = fs_get (PTmp q) s.
Proof.
  intros H. apply step_frame; try discriminate. intros [= E]. exact (H E).
Qed.
(* ================================================================== *)
(* 5. Line-level algebra of the normalisation                          *)

Definition blank (l : bytes) : Prop := all_ws l = true.

Lemma rl'_blank Y : Forall blank Y -> rstrip_lines' Y = [].
Proof.
  induction 1 as [|y Y Hy _ IH]; [reflexivity|].
  rewrite rstrip_lines'_cons, IH. apply rstrip_nil_iff in Hy. rewrite Hy. reflexivity.
Qed.

Lemma rl'_app_blank X bl : Forall blank bl -> rstrip_lines' (X ++ bl) = rstrip_lines' X.
Proof.
  intros H. induction X as [|x X IH]; [cbn [app]; apply rl'_blank; exact H|].
  cbn [app]. rewrite !rstrip_lines'_cons, IH. reflexivity.
Qed.

Lemma rl'_snoc X l : rstrip l <> [] -> rstrip_lines' (X ++ [l]) = X ++ [rstrip l].
Proof.
  intros H. induction X as [|x X IH].
  - cbn [app]. rewrite rstrip_lines'_cons. cbn [rstrip_lines']. destruct (rstrip l); [congruence|reflexivity].
  - cbn [app]. rewrite rstrip_lines'_cons, IH. destruct (X ++ [rstrip l]) eqn:E; [destruct X; discriminate|reflexivity].
Qed.

Lemma rl'_decomp Y :
  (rstrip_lines' Y = [] /\ Forall blank Y) \/
  (exists Y1 l bl, Y = Y1 ++ l :: bl /\ Forall blank bl /\ rstrip l <> [] /\ rstrip_lines' Y = Y1 ++ [rstrip l]).
Proof.
  induction Y as [|y Y IH]; [left; split; [reflexivity|constructor]|].
  rewrite rstrip_lines'_cons. destruct IH as [[E B]|[Y1 [l [bl [E [B [NE R]]]]]]].
  - rewrite E. destruct (rstrip y) eqn:Ry.
    + left. split; [reflexivity|]. constructor; [apply rstrip_nil_iff; exact Ry|exact B].
    + right. exists [], y, Y. repeat split; [exact B|rewrite Ry; discriminate|rewrite Ry; reflexivity].
  - right. rewrite R. exists (y :: Y1), l, bl. repeat split.
    + rewrite E. reflexivity.
    + exact B.
    + exact NE.
    + destruct (Y1 ++ [rstrip l]) eqn:Z; [destruct Y1; discriminate|]. cbn [app]. rewrite Z. reflexivity.
Qed.

Lemma filter_none {A} (f : A -> bool) l : (forall x, In x l -> f x = false) -> filter f l = [].
Proof.
  induction l as [|a l IH]; intros H; [reflexivity|]. cbn [filter].
  rewrite (H a (or_introl eq_refl)). apply IH. intros x Hx. apply H. right. exact Hx.
Qed.

Lemma filter_all {A} (f : A -> bool) l : (forall x, In x l -> f x = true) -> filter f l = l.
Proof.
  induction l as [|a l IH]; intros H; [reflexivity|]. cbn [filter].
  rewrite (H a (or_introl eq_refl)). f_equal. apply IH. intros x Hx. apply H. right. exact Hx.
Qed.

Lemma filter_filter_sub {A} (f g : A -> bool) l :
  (forall x, In x l -> f x = true -> g x = true) -> filter f (filter g l) = filter f l.
Proof.
  induction l as [|a l IH]; intros H; [reflexivity|]. cbn [filter].
  assert (IH' : filter f (filter g l) = filter f l) by (apply IH; intros x Hx; apply H; right; exact Hx).
  destruct (g a) eqn:G.
  - cbn [filter]. rewrite IH'. reflexivity.
  - rewrite IH'. destruct (f a) eqn:F; [|reflexivity].
    rewrite (H a (or_introl eq_refl) F) in G. discriminate.
Qed.

Section LineFilter.
  Variable f : bytes -> bool.
  Hypothesis f_blank : forall l, blank l -> f l = false.
  Hypothesis f_rstrip : forall l, f (rstrip l) = f l.

  Lemma blank_nil : blank []. Proof. reflexivity. Qed.

  (* a positive filter sees through the normalisation when its lines carry no trailing white space *)
  Lemma filter_rstrip_lines Y :
    (forall l, In l Y -> f l = true -> rstrip l = l) ->
    filter f (rstrip_lines Y) = filter f Y.
  Proof.
    intros St. unfold rstrip_lines. destruct (rl'_decomp Y) as [[E B]|[Y1 [l [bl [E [B [NE R]]]]]]].
    - rewrite E. cbn [filter]. rewrite (f_blank [] blank_nil).
      symmetry. apply filter_none. intros x Hx. apply f_blank. rewrite Forall_forall in B. apply B. exact Hx.
    - rewrite R. destruct (Y1 ++ [rstrip l]) eqn:Z; [destruct Y1; discriminate|]. rewrite <- Z. clear Z.
      rewrite E, !filter_app. f_equal. cbn [filter].
      rewrite (filter_none f bl) by (intros x Hx; apply f_blank; rewrite Forall_forall in B; apply B; exact Hx).
      rewrite f_rstrip. destruct (f l) eqn:F; [|reflexivity].
      rewrite (St l); [reflexivity| |exact F]. rewrite E. apply in_or_app. right. left. reflexivity.
  Qed.

  (* the complementary (base) filter commutes with the normalisation up to the normalisation *)
  Lemma base_filter_norm Y :
    rstrip_lines (filter (fun l => negb (f l)) (rstrip_lines Y)) = rstrip_lines (filter (fun l => negb (f l)) Y).
  Proof.
    set (g := fun l => negb (f l)).
    assert (g_blank : forall l, blank l -> g l = true) by (intros l H; unfold g; rewrite (f_blank l H); reflexivity).
    unfold rstrip_lines at 2. destruct (rl'_decomp Y) as [[E B]|[Y1 [l [bl [E [B [NE R]]]]]]].
    - rewrite E. cbn [filter]. rewrite (g_blank [] blank_nil).
      unfold rstrip_lines. cbn [rstrip_lines' rstrip].
      rewrite rl'_blank; [reflexivity|].
      rewrite Forall_forall in *. intros x Hx. apply filter_In in Hx as [Hx _]. apply B. exact Hx.
    - rewrite R. destruct (Y1 ++ [rstrip l]) eqn:Z; [destruct Y1; discriminate|]. rewrite <- Z. clear Z.
      assert (Bg : Forall blank (filter g bl)).
      { rewrite Forall_forall in *. intros x Hx. apply filter_In in Hx as [Hx _]. apply B. exact Hx. }
      rewrite E, !filter_app. cbn [filter]. unfold g at 2 4. rewrite f_rstrip.
      unfold rstrip_lines. destruct (f l) eqn:F; cbn [negb].
      + rewrite app_nil_r. cbn [app]. rewrite (rl'_app_blank _ _ Bg). reflexivity.
      + change (l :: filter g bl) with ([l] ++ filter g bl). rewrite app_assoc, (rl'_app_blank _ _ Bg).
        rewrite !rl'_snoc by (rewrite ?rstrip_idem; exact NE). rewrite rstrip_idem. reflexivity.
  Qed.
End LineFilter.

(* ---- the marker ends with a character that is not white space ---- *)
Definition ch_D : ascii := last hosts_marker_post ch_sp.
Lemma post_last : hosts_marker_post = removelast hosts_marker_post ++ [ch_D] /\ is_ws ch_D = false.
Proof. split; vm_compute; reflexivity. Qed.

Lemma marker_last p : exists m', marker p = m' ++ [ch_D].
Proof.
  unfold marker. destruct post_last as [E _]. rewrite E.
  exists (hosts_marker_pre ++ dec p ++ removelast hosts_marker_post). rewrite <- !app_assoc. reflexivity.
Qed.

Lemma bool_eq_iff (a b : bool) : (a = true <-> b = true) -> a = b.
Proof. destruct a, b; intros [H1 H2]; try reflexivity; [symmetry; apply H1|apply H2]; reflexivity. Qed.

Lemma snoc_in_tail {A} (x r l : list A) (d : A) : x ++ [d] = r ++ l -> l <> [] -> In d l.
Proof.
  intros E NE. destruct (exists_last NE) as [l' [z ->]].
  rewrite app_assoc in E. apply app_inj_tail in E as [_ ->]. apply in_or_app. right. left. reflexivity.
Qed.

Lemma has_marker_rstrip q l : has_marker q (rstrip l) = has_marker q l.
Proof.
  apply bool_eq_iff. rewrite !has_marker_spec.
  destruct (rstrip_decomp l) as [w [E W]]. split.
  - intros [a [b H]]. rewrite E, H. exists a, (b ++ w). rewrite <- !app_assoc. reflexivity.
  - intros [a [b H]]. destruct (marker_last q) as [m' Hm]. rewrite Hm in *.
    rewrite E in H.
    assert (H' : rstrip l ++ w = (a ++ m' ++ [ch_D]) ++ b) by (rewrite H, <- !app_assoc; reflexivity).
    apply app_eq_app in H' as [x [[E1 E2]|[E1 E2]]].
    + (* the marker ends inside rstrip l *)
      exists a, x. rewrite E1, <- !app_assoc. reflexivity.
    + destruct x as [|x0 x].
      * exists a, []. rewrite app_nil_r in *. rewrite <- E1, <- ?app_assoc. reflexivity.
      * exfalso. assert (I : In ch_D (x0 :: x)).
        { apply (snoc_in_tail (a ++ m') (rstrip l)); [rewrite <- app_assoc; exact E1|discriminate]. }
        rewrite E2 in W. unfold all_ws in W. rewrite forallb_app in W. apply andb_true_iff in W as [W _].
        rewrite forallb_forall in W. specialize (W _ I). destruct post_last as [_ Z]. congruence.
Qed.

Lemma has_marker_blank q l : blank l -> has_marker q l = false.
Proof.
  intros B. destruct (has_marker q l) eqn:H; [|reflexivity]. exfalso.
  apply has_marker_spec in H as [a [b ->]]. destruct (marker_last q) as [m' Hm]. rewrite Hm in B.
  unfold blank, all_ws in B. rewrite !forallb_app in B.
  apply andb_true_iff in B as [_ B]. apply andb_true_iff in B as [B _]. apply andb_true_iff in B as [_ B].
  cbn [forallb] in B. destruct post_last as [_ Z]. rewrite Z in B. discriminate.
Qed.

Lemma marked_line_last p e : exists x, marked_line p e = x ++ [ch_D].
Proof.
  destruct (marked_line_split p e) as [X [E _]]. destruct (marker_last p) as [m' Hm].
  exists (X ++ m'). rewrite E, Hm, app_assoc. reflexivity.
Qed.

Lemma marked_line_rstrip p e : rstrip (marked_line p e) = marked_line p e.
Proof.
  destruct (marked_line_last p e) as [x ->]. apply rstrip_app_nonws. apply post_last.
Qed.

Lemma marked_line_nonempty p e : marked_line p e <> [].
Proof. destruct (marked_line_last p e) as [x ->]. destruct x; discriminate. Qed.

(* several ports at once: "carries the marker of some port in Ps" *)
Definition any_marker (Ps : list N) (l : bytes) : bool := existsb (fun q => has_marker q l) Ps.
Definition base_of (Ps : list N) (ls : list bytes) : list bytes := filter (fun l => negb (any_marker Ps l)) ls.

Lemma any_marker_blank Ps l : blank l -> any_marker Ps l = false.
Proof.
  intros B. unfold any_marker. induction Ps as [|q Ps IH]; [reflexivity|].
  cbn [existsb]. rewrite (has_marker_blank q l B), IH. reflexivity.
Qed.

Lemma any_marker_rstrip Ps l : any_marker Ps (rstrip l) = any_marker Ps l.
Proof.
  unfold any_marker. induction Ps as [|q Ps IH]; [reflexivity|].
  cbn [existsb]. rewrite has_marker_rstrip, IH. reflexivity.
Qed.

Lemma any_marker_in Ps q l : In q Ps -> has_marker q l = true -> any_marker Ps l = true.
Proof. intros I H. unfold any_marker. apply existsb_exists. exists q. split; assumption. Qed.
(* ================================================================== *)
(* 6. The lines of a rewritten file                                    *)

Lemma univ_nl_id c : ~ In ch_cr c -> univ_nl c = c.
Proof.
  induction c as [|a r IH]; intros H; [reflexivity|]. cbn [univ_nl].
  destruct (N_of_ascii a =? 13) eqn:E.
  - exfalso. apply H. left. apply N.eqb_eq in E. rewrite <- (ascii_N_embedding a), E. reflexivity.
  - f_equal. apply IH. intros I. apply H. right. exact I.
Qed.

Lemma univ_nl_no_cr c : ~ In ch_cr (univ_nl c).
Proof.
  assert (H : forall n c, (length c <= n)%nat -> ~ In ch_cr (univ_nl c)).
  { induction n as [|n IH]; intros c0 Hn.
    - destruct c0; [intros []|cbn in Hn; lia].
    - destruct c0 as [|a r]; [intros []|]. cbn [univ_nl].
      destruct (N_of_ascii a =? 13) eqn:E.
      + destruct r as [|b r']; [intros [X|[]]; discriminate|].
        destruct (N_of_ascii b =? 10); cbn [length] in *.
        * intros [X|X]; [discriminate|]. apply (IH r'); [lia|exact X].
        * intros [X|X]; [discriminate|]. apply (IH (b :: r')); [cbn [length]; lia|exact X].
      + intros [X|X].
        * subst a. vm_compute in E. discriminate.
        * apply (IH r); [cbn [length] in Hn; lia|exact X]. }
  apply (H (length c)). lia.
Qed.

Lemma split_nl_in c l a : In l (split_nl c) -> In a l -> In a c.
Proof.
  revert l. induction c as [|x r IH]; intros l Hl Ha.
  - cbn in Hl. destruct Hl as [<-|[]]. destruct Ha.
  - destruct (is_nl x) eqn:E.
    + rewrite split_nl_cons_nl in Hl by exact E. destruct Hl as [<-|Hl]; [destruct Ha|].
      right. apply (IH l); assumption.
    + rewrite split_nl_cons_other in Hl by exact E.
      pose proof (split_nl_nonempty r) as N. destruct (split_nl r) as [|h t] eqn:S; [congruence|].
      cbn [hd tl] in Hl. destruct Hl as [<-|Hl].
      * destruct Ha as [->|Ha]; [left; reflexivity|]. right. apply (IH h); [left; reflexivity|exact Ha].
      * right. apply (IH l); [right; exact Hl|exact Ha].
Qed.

Lemma rstrip_in c a : In a (rstrip c) -> In a c.
Proof. destruct (rstrip_decomp c) as [w [E _]]. intros H. rewrite E. apply in_or_app. left. exact H. Qed.

Lemma norm_lines_in c l a : In l (norm_lines c) -> In a l -> In a c.
Proof. unfold norm_lines. intros Hl Ha. apply rstrip_in. apply (split_nl_in _ l); assumption. Qed.

Lemma no_nl_notin l : no_nl l <-> ~ In ch_nl l.
Proof.
  unfold no_nl. split.
  - intros H I. rewrite forallb_forall in H. specialize (H _ I). discriminate.
  - intros H. apply forallb_forall. intros a Ha. destruct (is_nl a) eqn:E; [|reflexivity].
    apply is_nl_eq in E. subst a. contradiction.
Qed.

Lemma marker_nochar p c : In c [ch_nl; ch_cr] -> ~ In c (marker p).
Proof.
  intros Hc H. unfold marker in H. apply in_app_or in H as [H|H].
  - destruct Hc as [<-|[<-|[]]]; revert H; apply notin_b_spec; vm_compute; reflexivity.
  - apply in_app_or in H as [H|H].
    + revert H. apply dec_nochar. left. destruct Hc as [<-|[<-|[]]]; vm_compute; reflexivity.
    + destruct Hc as [<-|[<-|[]]]; revert H; apply notin_b_spec; vm_compute; reflexivity.
Qed.

Lemma marked_line_nochar p e c : entry_ok e -> In c [ch_nl; ch_cr] -> ~ In c (marked_line p e).
Proof.
  intros Hok Hc. destruct (marked_line_split p e) as [X [E HX]]. rewrite E. intros H.
  apply in_app_or in H as [H|H]; [|exact (marker_nochar p c Hc H)].
  revert H. apply HX.
  - destruct Hc as [<-|[<-|[]]]; discriminate.
  - destruct e as [name ip]. apply Hok. destruct Hc as [<-|[<-|[]]]; cbn; auto.
Qed.

Lemma unlines_in X c : In c (unlines X) -> c = ch_nl \/ exists l, In l X /\ In c l.
Proof.
  unfold unlines. induction X as [|x X IH]; [intros []|]. cbn [map concat]. intros H.
  apply in_app_or in H as [H|H].
  - apply in_app_or in H as [H|[H|[]]]; [right; exists x; split; [left; reflexivity|exact H]|left; symmetry; exact H].
  - destruct (IH H) as [E|[l [Hl Hc]]]; [left; exact E|right; exists l; split; [right; exact Hl|exact Hc]].
Qed.

Definition marks (p : N) (hm : list entry) : list bytes := map (marked_line p) (sort_entries hm).
Definition not_own (p : N) (l : bytes) : bool := negb (has_marker p l).

(* content-level transition of one rewrite *)
Definition rw (p : N) (hm : list entry) (c : bytes) : bytes := new_content p (univ_nl c) hm.

Lemma rw_unlines p hm c : rw p hm c = unlines (filter (not_own p) (file_lines c) ++ marks p hm).
Proof. reflexivity. Qed.

Lemma sort_entries_ok hm : Forall entry_ok hm -> Forall entry_ok (sort_entries hm).
Proof.
  intros H. rewrite Forall_forall in *. intros e He. apply H.
  apply (Permutation_in _ (sort_entries_perm hm)). exact He.
Qed.

Lemma file_lines_nochar c l a : In l (file_lines c) -> In a [ch_nl; ch_cr] -> ~ In a l.
Proof.
  unfold file_lines. intros Hl Ha H. destruct Ha as [<-|[<-|[]]].
  - pose proof (split_nl_no_nl (rstrip (univ_nl c))) as F. rewrite Forall_forall in F.
    apply (proj1 (no_nl_notin l) (F l Hl)). exact H.
  - apply (univ_nl_no_cr c). apply (norm_lines_in _ l); assumption.
Qed.

Lemma rstrip_lines_blank_tail X : rstrip_lines (X ++ [[]]) = rstrip_lines X.
Proof. unfold rstrip_lines. rewrite rl'_app_blank; [reflexivity|]. constructor; [reflexivity|constructor]. Qed.

(* the lines of the file after one rewrite *)
Lemma file_lines_rw p hm c : Forall entry_ok hm ->
  file_lines (rw p hm c) = rstrip_lines (filter (not_own p) (file_lines c) ++ marks p hm).
Proof.
  intros Hok. rewrite rw_unlines. set (X := filter (not_own p) (file_lines c) ++ marks p hm).
  assert (HX : forall l a, In l X -> In a [ch_nl; ch_cr] -> ~ In a l).
  { intros l a Hl Ha. apply in_app_or in Hl as [Hl|Hl].
    - apply filter_In in Hl as [Hl _]. apply (file_lines_nochar c); assumption.
    - unfold marks in Hl. apply in_map_iff in Hl as [e [<- He]]. apply marked_line_nochar; [|exact Ha].
      pose proof (sort_entries_ok hm Hok) as F. rewrite Forall_forall in F. apply F. exact He. }
  unfold file_lines at 1. rewrite univ_nl_id.
  - rewrite norm_lines_rstrip_lines, split_nl_unlines.
    + apply rstrip_lines_blank_tail.
    + apply Forall_forall. intros l Hl. apply no_nl_notin. apply HX; [exact Hl|left; reflexivity].
  - intros H. apply unlines_in in H as [H|[l [Hl Hc]]]; [discriminate|].
    revert Hc. apply HX; [exact Hl|right; left; reflexivity].
Qed.

Lemma rstrip_lines_stable_end X l : rstrip l = l -> l <> [] -> rstrip_lines (X ++ [l]) = X ++ [l].
Proof.
  intros R NE. unfold rstrip_lines. rewrite rl'_snoc by (rewrite R; exact NE). rewrite R.
  destruct (X ++ [l]) eqn:E; [destruct X; discriminate|reflexivity].
Qed.

Lemma marks_cases p hm : marks p hm = [] \/ exists M e, marks p hm = M ++ [marked_line p e].
Proof.
  unfold marks. destruct (sort_entries hm) as [|e0 r] eqn:E; [left; reflexivity|right].
  assert (NE : e0 :: r <> []) by discriminate.
  destruct (exists_last NE) as [r' [e ->]]. exists (map (marked_line p) r'), e.
  rewrite map_app. reflexivity.
Qed.

Lemma file_lines_rw_cases p hm c : Forall entry_ok hm ->
  (marks p hm <> [] /\ file_lines (rw p hm c) = filter (not_own p) (file_lines c) ++ marks p hm) \/
  (marks p hm = [] /\ file_lines (rw p hm c) = rstrip_lines (filter (not_own p) (file_lines c))).
Proof.
  intros Hok. rewrite (file_lines_rw p hm c Hok).
  destruct (marks_cases p hm) as [E|[M [e E]]].
  - right. rewrite E, app_nil_r. split; reflexivity.
  - left. rewrite E. split; [destruct M; discriminate|].
    rewrite app_assoc. apply rstrip_lines_stable_end; [apply marked_line_rstrip|apply marked_line_nonempty].
Qed.

(* --- own lines and base lines across one rewrite --- *)
Lemma marks_own p hm l : In l (marks p hm) -> has_marker p l = true.
Proof.
  unfold marks. intros H. apply in_map_iff in H as [e [<- _]].
  destruct (marked_line_split p e) as [X [E _]]. rewrite E, <- (app_nil_r (marker p)). apply has_marker_self.
Qed.

Lemma marks_other p q hm l : Forall entry_ok hm -> q <> p -> In l (marks p hm) -> has_marker q l = false.
Proof.
  unfold marks. intros Hok Hq H. apply in_map_iff in H as [e [<- He]].
  destruct (has_marker q (marked_line p e)) eqn:Z; [|reflexivity].
  pose proof (sort_entries_ok hm Hok) as F. rewrite Forall_forall in F.
  apply (marked_line_marker q p e (F e He)) in Z. contradiction.
Qed.

Lemma own_lines_filter q c : own_lines q c = filter (has_marker q) (file_lines c).
Proof. reflexivity. Qed.

(* the rewriting instance's own lines are exactly its map *)
Lemma own_lines_rw_self p hm c : Forall entry_ok hm -> own_lines p (rw p hm c) = marks p hm.
Proof.
  intros Hok. rewrite own_lines_filter.
  assert (Z : filter (has_marker p) (filter (not_own p) (file_lines c)) = []).
  { apply filter_none. intros x Hx. apply filter_In in Hx as [_ Hx]. unfold not_own in Hx.
    destruct (has_marker p x); [discriminate|reflexivity]. }
  destruct (file_lines_rw_cases p hm c Hok) as [[_ E]|[E0 E]]; rewrite E.
  - rewrite filter_app, Z. cbn [app]. apply filter_all. apply marks_own.
  - rewrite E0. rewrite filter_rstrip_lines.
    + exact Z.
    + intros l. apply has_marker_blank.
    + intros l. apply has_marker_rstrip.
    + intros l Hl Hm. apply filter_In in Hl as [_ Hl]. unfold not_own in Hl. rewrite Hm in Hl. discriminate.
Qed.

(* another instance's lines survive, provided they are marked lines of well-formed entries *)
Lemma own_lines_rw_other p q hm hmq c : Forall entry_ok hm -> Forall entry_ok hmq -> q <> p ->
  own_lines q c = marks q hmq -> own_lines q (rw p hm c) = marks q hmq.
Proof.
  intros Hok Hokq Hq Hown. rewrite own_lines_filter in *.
  assert (Z : filter (has_marker q) (filter (not_own p) (file_lines c)) = marks q hmq).
  { rewrite filter_filter_sub; [exact Hown|].
    intros x Hx Hm. unfold not_own.
    assert (I : In x (marks q hmq)) by (rewrite <- Hown; apply filter_In; split; assumption).
    rewrite (marks_other q p hmq x Hokq); [reflexivity|congruence|exact I]. }
  destruct (file_lines_rw_cases p hm c Hok) as [[_ E]|[E0 E]]; rewrite E.
  - rewrite filter_app, Z. rewrite (filter_none (has_marker q) (marks p hm)); [apply app_nil_r|].
    intros x Hx. apply (marks_other p q hm x Hok Hq Hx).
  - rewrite filter_rstrip_lines.
    + exact Z.
    + intros l. apply has_marker_blank.
    + intros l. apply has_marker_rstrip.
    + intros l Hl Hm.
      assert (I : In l (marks q hmq)) by (rewrite <- Z; apply filter_In; split; assumption).
      unfold marks in I. apply in_map_iff in I as [e [<- _]]. apply marked_line_rstrip.
Qed.

(* base lines (those carrying no marker of any port in Ps) are preserved modulo the normalisation *)
Lemma base_rw Ps p hm c : Forall entry_ok hm -> In p Ps ->
  rstrip_lines (base_of Ps (file_lines (rw p hm c))) = rstrip_lines (base_of Ps (file_lines c)).
Proof.
  intros Hok Hp.
  assert (Z : base_of Ps (filter (not_own p) (file_lines c)) = base_of Ps (file_lines c)).
  { unfold base_of. apply filter_filter_sub. intros x _ Hx. unfold not_own.
    destruct (has_marker p x) eqn:M; [|reflexivity].
    rewrite (any_marker_in Ps p x Hp M) in Hx. discriminate. }
  destruct (file_lines_rw_cases p hm c Hok) as [[_ E]|[E0 E]]; rewrite E.
  - unfold base_of at 1. rewrite filter_app. fold (base_of Ps (filter (not_own p) (file_lines c))). rewrite Z.
    rewrite (filter_none _ (marks p hm)); [rewrite app_nil_r; reflexivity|].
    intros x Hx. rewrite (any_marker_in Ps p x Hp (marks_own p hm x Hx)). reflexivity.
  - unfold base_of at 1. rewrite (base_filter_norm (any_marker Ps)).
    + fold (base_of Ps (filter (not_own p) (file_lines c))). rewrite Z. reflexivity.
    + intros l. apply any_marker_blank.
    + intros l. apply any_marker_rstrip.
Qed.
(* ================================================================== *)
(* 7. Serial histories                                                 *)

Lemma rewrite_fs_hosts p hm s :
  hosts_data (snd (fst (rewrite_fs p hm s))) = rw p hm (hosts_data s).
Proof.
  pose proof (rewrite_fs_spec p hm s) as H. destruct (rewrite_fs p hm s) as [[i s'] tr].
  destruct H as [_ [_ [t [Ht [Hd _]]]]]. cbn [fst snd]. unfold hosts_data at 1. rewrite Ht. exact Hd.
Qed.

(* the map bookkeeping of hop_step does not depend on the file system *)
Definition maps_step (m : maps) (h : hop) : maps :=
  match h with
  | HHost p name ip => set_map p (hm_set name ip (map_of p m)) m
  | HEnd p => match map_of p m with [] => m | _ :: _ => set_map p [] m end
  end.

Lemma hop_step_maps s m h : snd (hop_step (s, m) h) = maps_step m h.
Proof.
  destruct h as [p name ip|p]; cbn [hop_step maps_step].
  - destruct (rewrite_fs p _ s) as [[i s'] tr]. reflexivity.
  - destruct (map_of p m) eqn:E; [reflexivity|]. unfold restore_fs.
    destruct (rewrite_fs p [] s) as [[i s'] tr]. reflexivity.
Qed.

Lemma hop_step_hosts s m h :
  hosts_data (fst (hop_step (s, m) h)) =
  match h with
  | HHost p name ip => rw p (hm_set name ip (map_of p m)) (hosts_data s)
  | HEnd p => match map_of p m with [] => hosts_data s | _ :: _ => rw p [] (hosts_data s) end
  end.
Proof.
  destruct h as [p name ip|p]; cbn [hop_step].
  - rewrite <- rewrite_fs_hosts. destruct (rewrite_fs p _ s) as [[i s'] tr]. reflexivity.
  - destruct (map_of p m) eqn:E; [reflexivity|]. unfold restore_fs.
    rewrite <- rewrite_fs_hosts. destruct (rewrite_fs p [] s) as [[i s'] tr]. reflexivity.
Qed.

Definition hop_ok (Ps : list N) (h : hop) : Prop :=
  match h with
  | HHost p name ip => In p Ps /\ entry_ok (name, ip)
  | HEnd p => In p Ps
  end.

Lemma hm_set_ok name ip hm : entry_ok (name, ip) -> Forall entry_ok hm -> Forall entry_ok (hm_set name ip hm).
Proof.
  intros He. induction 1 as [|[n i] r Hx Hr IH]; cbn [hm_set]; [constructor; [exact He|constructor]|].
  destruct (bytes_eqb n name); constructor; assumption.
Qed.

Lemma map_of_set q p hm m : map_of q (set_map p hm m) = if p =? q then hm else map_of q m.
Proof. reflexivity. Qed.

Definition hist_inv (c0 : bytes) (Ps : list N) (c : bytes) (m : maps) : Prop :=
  rstrip_lines (base_of Ps (file_lines c)) = rstrip_lines (base_of Ps (file_lines c0)) /\
  (forall q, In q (List.map fst m) -> own_lines q c = marks q (map_of q m)) /\
  (forall q, Forall entry_ok (map_of q m)).

Lemma hist_inv_rw c0 Ps c m p hm :
  hist_inv c0 Ps c m -> In p Ps -> Forall entry_ok hm ->
  hist_inv c0 Ps (rw p hm c) (set_map p hm m).
Proof.
  intros [Ha [Hb Hc]] Hp Hok. repeat split.
  - rewrite (base_rw Ps p hm c Hok Hp). exact Ha.
  - intros q Hq. rewrite map_of_set. destruct (p =? q) eqn:E.
    + apply N.eqb_eq in E. subst q. apply own_lines_rw_self. exact Hok.
    + apply N.eqb_neq in E. cbn [set_map List.map fst] in Hq. destruct Hq as [Hq|Hq]; [congruence|].
      apply own_lines_rw_other; [exact Hok|apply Hc|congruence|apply Hb; exact Hq].
  - intros q. rewrite map_of_set. destruct (p =? q); [exact Hok|apply Hc].
Qed.

Lemma hist_inv_step c0 Ps s m h :
  hist_inv c0 Ps (hosts_data s) m -> hop_ok Ps h ->
  hist_inv c0 Ps (hosts_data (fst (hop_step (s, m) h))) (snd (hop_step (s, m) h)).
Proof.
  intros Hinv Hok. rewrite hop_step_maps, hop_step_hosts.
  destruct h as [p name ip|p]; cbn [maps_step hop_ok] in *.
  - destruct Hok as [Hp He]. apply hist_inv_rw; [exact Hinv|exact Hp|].
    apply hm_set_ok; [exact He|]. destruct Hinv as [_ [_ Hc]]. apply Hc.
  - destruct (map_of p m) eqn:E; [exact Hinv|].
    apply hist_inv_rw; [exact Hinv|exact Hok|constructor].
Qed.

Lemma hist_inv_run c0 Ps hs : forall s m,
  hist_inv c0 Ps (hosts_data s) m -> Forall (hop_ok Ps) hs ->
  hist_inv c0 Ps (hosts_data (fst (fold_left hop_step hs (s, m)))) (snd (fold_left hop_step hs (s, m))).
Proof.
  induction hs as [|h hs IH]; intros s m Hinv Hok; [exact Hinv|].
  inversion Hok as [|? ? Hh Hhs]; subst. cbn [fold_left].
  pose proof (hist_inv_step c0 Ps s m h Hinv Hh) as H1.
  destruct (hop_step (s, m) h) as [s1 m1]. apply IH; assumption.
Qed.

Lemma fold_left_maps hs : forall s m, snd (fold_left hop_step hs (s, m)) = fold_left maps_step hs m.
Proof.
  induction hs as [|h hs IH]; intros s m; [reflexivity|]. cbn [fold_left].
  pose proof (hop_step_maps s m h) as E. destruct (hop_step (s, m) h) as [s1 m1]. cbn [snd] in E. subst m1. apply IH.
Qed.

(* the theorem: for every history of whole rewrites/restores by any number of instances *)
Lemma serial_histories s0 Ps hs : Forall (hop_ok Ps) hs ->
  let c := hosts_data (fst (run_history s0 hs)) in
  let m := fold_left maps_step hs [] in
  rstrip_lines (base_of Ps (file_lines c)) = rstrip_lines (base_of Ps (file_lines (hosts_data s0))) /\
  (forall q, In q (List.map fst m) -> own_lines q c = marks q (map_of q m)).
Proof.
  intros Hok. cbn zeta. rewrite <- (fold_left_maps hs s0 []).
  assert (H0 : hist_inv (hosts_data s0) Ps (hosts_data s0) []).
  { repeat split; [intros q []|intros q; constructor]. }
  destruct (hist_inv_run (hosts_data s0) Ps hs s0 [] H0 Hok) as [Ha [Hb _]].
  split; [exact Ha|exact Hb].
Qed.

(* what the bookkeeping means: the last map of an instance, [] after its restore *)
Lemma maps_step_host m p name ip : map_of p (maps_step m (HHost p name ip)) = hm_set name ip (map_of p m).
Proof. cbn [maps_step]. rewrite map_of_set, N.eqb_refl. reflexivity. Qed.

Lemma maps_step_end m p : map_of p (maps_step m (HEnd p)) = [].
Proof.
  cbn [maps_step]. destruct (map_of p m) eqn:E; [exact E|]. rewrite map_of_set, N.eqb_refl. reflexivity.
Qed.

Lemma maps_step_other m h q :
  match h with HHost p _ _ => p | HEnd p => p end <> q -> map_of q (maps_step m h) = map_of q m.
Proof.
  destruct h as [p name ip|p]; cbn [maps_step]; intros H.
  - rewrite map_of_set. destruct (p =? q) eqn:E; [apply N.eqb_eq in E; contradiction|reflexivity].
  - destruct (map_of p m); [reflexivity|]. rewrite map_of_set.
    destruct (p =? q) eqn:E; [apply N.eqb_eq in E; contradiction|reflexivity].
Qed.

Lemma maps_step_started m p name ip : In p (List.map fst (maps_step m (HHost p name ip))).
Proof. left. reflexivity. Qed.

Lemma maps_step_mono m h q : In q (List.map fst m) -> In q (List.map fst (maps_step m h)).
Proof.
  destruct h as [p name ip|p]; cbn [maps_step]; intros H; [right; exact H|].
  destruct (map_of p m); [exact H|right; exact H].
Qed.
(* ================================================================== *)
(* 8. Two instances interleaved                                        *)

(* contents obtainable from c0 by SOME serial sequence of whole rewrites of the two instances *)
Inductive reach (pa : N) (ma : list entry) (pb : N) (mb : list entry) (c0 : bytes) : bytes -> Prop :=
| reach_init : reach pa ma pb mb c0 c0
| reach_a c : reach pa ma pb mb c0 c -> reach pa ma pb mb c0 (rw pa ma c)
| reach_b c : reach pa ma pb mb c0 c -> reach pa ma pb mb c0 (rw pb mb c).

Section Good.
  Variable R : bytes -> Prop.
  Variable p : N.
  Variable hm : list entry.
  Hypothesis R_rw : forall c, R c -> R (rw p hm c).

  Definition good (i : inst) (s : fsys) : Prop :=
    i_port i = p /\ i_map i = hm /\
    match i_pc i with
    | AtStat | AtExists | AtLink | AtCopy | AtOpen => exists c, R c /\ i_old i = univ_nl c
    | AtWrite pend => exists c t, R c /\ fs_get (PTmp p) s = Some t /\ f_data t ++ concat pend = rw p hm c
    | AtChown | AtChmod | AtRename => exists c t, R c /\ fs_get (PTmp p) s = Some t /\ f_data t = rw p hm c
    | AtRead | AtDone | AtCrash => True
    end.

  Lemma good_start s : good (start p hm) s.
  Proof. unfold good, start. cbn. repeat split. Qed.

  Ltac open_good := unfold good; cbn [i_port i_map i_pc i_old i_st with_pc].

  Lemma step_good_self i s : R (hosts_data s) -> good i s ->
    R (hosts_data (snd (fst (step i s)))) /\ good (fst (fst (step i s))) (snd (fst (step i s))).
  Proof.
    destruct i as [port map c iold ist]. intros HR Hg.
    unfold good in Hg. cbn [i_port i_map i_pc i_old i_st] in Hg. destruct Hg as [-> [-> H]].
    assert (Hh : forall q f s', q <> PHosts -> hosts_data (fs_set q f s') = hosts_data s').
    { intros q f s' Hq. unfold hosts_data. rewrite fs_get_set_other by congruence. reflexivity. }
    unfold step. cbn [i_port i_map i_pc i_old i_st].
    destruct c.
    - (* AtRead *) destruct (fs_get PHosts s) as [f|] eqn:E; cbn [fst snd]; (split; [exact HR|]).
      + open_good. repeat split. exists (hosts_data s). split; [exact HR|]. unfold hosts_data. rewrite E. reflexivity.
      + open_good. repeat split. unfold after_read. cbn. exists (hosts_data s). split; [exact HR|].
        unfold hosts_data. rewrite E. reflexivity.
    - (* AtStat *) destruct (fs_get PHosts s) as [f|] eqn:E; cbn [fst snd]; (split; [exact HR|]);
        open_good; repeat split; unfold after_read; destruct (nonblank iold); exact H.
    - (* AtExists *) destruct (fs_get PBak s); cbn [fst snd]; (split; [exact HR|]); open_good; repeat split; exact H.
    - (* AtLink *) destruct (fs_get PHosts s) as [f|]; [destruct (fs_get PBak s); [|destruct (link_ok s)]|];
        cbn [fst snd]; rewrite ?Hh by discriminate; (split; [exact HR|]); open_good; repeat split; exact H.
    - (* AtCopy *) destruct (fs_get PHosts s) as [f|]; [destruct (fs_get PBak s) as [b|]; [destruct (f_ino b =? f_ino f)|]|];
        cbn [fs_fresh fst snd]; rewrite ?Hh by discriminate; (split; [exact HR|]); open_good; repeat split; try exact H; exact I.
    - (* AtOpen *) destruct H as [c [Hc Ho]]. subst iold.
      destruct (fs_get (PTmp p) s) as [t|]; cbn [fs_fresh fst snd]; rewrite Hh by discriminate;
        (split; [exact HR|]); open_good; repeat split; exists c; eexists; (split; [exact Hc|]);
        rewrite fs_get_set_same; (split; [reflexivity|reflexivity]).
    - (* AtWrite *) destruct H as [c [t [Hc [Ht Hd]]]]. destruct pending as [|d rest].
      + cbn [fst snd]. split; [exact HR|]. open_good. repeat split. exists c, t. repeat split; try assumption.
        cbn [concat] in Hd. rewrite app_nil_r in Hd. exact Hd.
      + rewrite Ht. cbn [fst snd]. rewrite Hh by discriminate. split; [exact HR|]. open_good. repeat split.
        exists c. eexists. split; [exact Hc|]. rewrite fs_get_set_same. split; [reflexivity|].
        cbn [f_data concat] in *. rewrite <- app_assoc. exact Hd.
    - (* AtChown *) destruct H as [c [t [Hc [Ht Hd]]]]. rewrite Ht.
      destruct (match ist with Some (u, g, _) => (u, g) | None => (0, 0) end) as [u g].
      cbn [fst snd]. rewrite Hh by discriminate. split; [exact HR|]. open_good. repeat split.
      exists c. eexists. split; [exact Hc|]. rewrite fs_get_set_same. split; [reflexivity|exact Hd].
    - (* AtChmod *) destruct H as [c [t [Hc [Ht Hd]]]]. rewrite Ht.
      cbn [fst snd]. rewrite Hh by discriminate. split; [exact HR|]. open_good. repeat split.
      exists c. eexists. split; [exact Hc|]. rewrite fs_get_set_same. split; [reflexivity|exact Hd].
    - (* AtRename *) destruct H as [c [t [Hc [Ht Hd]]]]. rewrite Ht. cbn [fst snd]. split.
      + unfold hosts_data. rewrite fs_get_set_same. cbn [data_of]. rewrite Hd. apply R_rw. exact Hc.
      + open_good. repeat split.
    - cbn [fst snd]. split; [exact HR|]. open_good. repeat split.
    - cbn [fst snd]. split; [exact HR|]. open_good. repeat split.
  Qed.

  (* a step of another instance (different port) does not disturb this one *)
  Lemma step_good_other i j s : good i s -> i_port j <> p -> good i (snd (fst (step j s))).
  Proof.
    intros [Hp [Hm H]] Hj. unfold good. repeat split; try assumption.
    assert (T : fs_get (PTmp p) (snd (fst (step j s))) = fs_get (PTmp p) s)
      by (apply step_other_tmp; congruence).
    destruct (i_pc i); try exact H; rewrite T; exact H.
  Qed.
End Good.

Section Sched.
  Variables (pa : N) (ma : list entry) (pb : N) (mb : list entry) (c0 : bytes).
  Hypothesis ports_differ : pa <> pb.
  Let R := reach pa ma pb mb c0.

  Lemma run_sched_inv sched : forall a b s,
    R (hosts_data s) -> good R pa ma a s -> good R pb mb b s ->
    let '(a', b', s', _) := run_sched sched a b s in
    R (hosts_data s') /\ good R pa ma a' s' /\ good R pb mb b' s'.
  Proof.
    induction sched as [|w sched IH]; intros a b s HR Ha Hb; [cbn [run_sched]; split; [|split]; assumption|].
    cbn [run_sched]. destruct w.
    - pose proof (step_good_self R pb mb (reach_b pa ma pb mb c0) b s HR Hb) as [HR1 Hb1].
      pose proof (step_good_other R pa ma a b s Ha) as Ha1.
      destruct (step b s) as [[b1 s1] e]. cbn [fst snd] in *.
      assert (Ha1' : good R pa ma a s1) by (apply Ha1; destruct Hb as [-> _]; congruence).
      specialize (IH a b1 s1 HR1 Ha1' Hb1). destruct (run_sched sched a b1 s1) as [[[a2 b2] s2] tr]. exact IH.
    - pose proof (step_good_self R pa ma (reach_a pa ma pb mb c0) a s HR Ha) as [HR1 Ha1].
      pose proof (step_good_other R pb mb b a s Hb) as Hb1.
      destruct (step a s) as [[a1 s1] e]. cbn [fst snd] in *.
      assert (Hb1' : good R pb mb b s1) by (apply Hb1; destruct Ha as [-> _]; congruence).
      specialize (IH a1 b s1 HR1 Ha1 Hb1'). destruct (run_sched sched a1 b s1) as [[[a2 b2] s2] tr]. exact IH.
  Qed.
End Sched.

(* base lines survive every serial sequence of rewrites, hence every reachable content *)
Lemma reach_base pa ma pb mb c0 Ps c :
  Forall entry_ok ma -> Forall entry_ok mb -> In pa Ps -> In pb Ps ->
  reach pa ma pb mb c0 c ->
  rstrip_lines (base_of Ps (file_lines c)) = rstrip_lines (base_of Ps (file_lines c0)).
Proof.
  intros Hma Hmb Ha Hb. induction 1 as [|c _ IH|c _ IH]; [reflexivity| |].
  - rewrite (base_rw Ps pa ma c Hma Ha). exact IH.
  - rewrite (base_rw Ps pb mb c Hmb Hb). exact IH.
Qed.

Lemma interleaved_partial sched pa ma pb mb s0 : pa <> pb ->
  let '(_, _, s, _) := run_sched sched (start pa ma) (start pb mb) s0 in
  reach pa ma pb mb (hosts_data s0) (hosts_data s).
Proof.
  intros Hp.
  pose proof (run_sched_inv pa ma pb mb (hosts_data s0) Hp sched (start pa ma) (start pb mb) s0
                (reach_init _ _ _ _ _) (good_start _ pa ma s0) (good_start _ pb mb s0)) as H.
  destruct (run_sched sched (start pa ma) (start pb mb) s0) as [[[a b] s] tr]. apply H.
Qed.
(* ================================================================== *)
(* 9. The full interleaving statement and its refutation (finding F8)  *)
From Coq Require Import String.   (* string literals for the witnesses; nothing below uses List.length *)

(* what a user expects of two helpers running side by side: once both calls have
   returned, each instance's marked lines are exactly its map *)
Definition interleaved_statement : Prop :=
  forall sched pa ma pb mb s0,
    pa <> pb -> Forall entry_ok ma -> Forall entry_ok mb ->
    let '(a, b, s, _) := run_sched sched (start pa ma) (start pb mb) s0 in
    i_pc a = AtDone -> i_pc b = AtDone ->
    own_lines pa (hosts_data s) = marks pa ma /\ own_lines pb (hosts_data s) = marks pb mb.

Definition bs (s : String.string) : bytes := bytes_of_string s.

Lemma entry_ok_b name ip :
  (notin_b ch_hash name && notin_b ch_nl name && notin_b ch_cr name &&
   notin_b ch_hash ip && notin_b ch_nl ip && notin_b ch_cr ip)%bool = true -> entry_ok (name, ip).
Proof.
  intros H. repeat (apply andb_true_iff in H as [H ?]).
  intros c [<-|[<-|[<-|[]]]]; split; apply notin_b_spec; assumption.
Qed.

(* lost update: B reads, A runs completely, B finishes *)
Definition f8_sched : list bool := [true] ++ repeat false 12 ++ repeat true 12.
Definition f8_s0 : fsys := fs_init (Some (bs "127.0.0.1 localhost
")) 0 0 420 true.
Definition f8_ma : list entry := [(bs "a", bs "10.0.0.1")].
Definition f8_mb : list entry := [(bs "b", bs "10.0.0.2")].

Lemma f8_lost_update :
  let '(a, b, s, _) := run_sched f8_sched (start 12300 f8_ma) (start 12301 f8_mb) f8_s0 in
  i_pc a = AtDone /\ i_pc b = AtDone /\
  own_lines 12300 (hosts_data s) = [] /\ marks 12300 f8_ma <> [].
Proof. vm_compute. repeat split; discriminate. Qed.

(* resurrection: A's line is in the file, B reads, A restores (rewrite with {}), B finishes *)
Definition f8_s1 : fsys := fs_init (Some (bs "127.0.0.1 localhost
" ++ marked_line 12300 (bs "a", bs "10.0.0.1") ++ [ch_nl])) 0 0 420 true.

Lemma f8_resurrection :
  let '(a, b, s, _) := run_sched f8_sched (start 12300 []) (start 12301 f8_mb) f8_s1 in
  i_pc a = AtDone /\ i_pc b = AtDone /\
  own_lines 12300 (hosts_data s) <> [] /\ marks 12300 [] = [].
Proof. vm_compute. repeat split; discriminate. Qed.

Lemma interleaved_refuted : ~ interleaved_statement.
Proof.
  intros H.
  specialize (H f8_sched 12300 f8_ma 12301 f8_mb f8_s0).
  pose proof f8_lost_update as W.
  destruct (run_sched f8_sched (start 12300 f8_ma) (start 12301 f8_mb) f8_s0) as [[[a b] s] tr].
  destruct W as [Wa [Wb [Wl Wm]]].
  destruct H as [Ha _]; try assumption.
  - discriminate.
  - constructor; [apply entry_ok_b; vm_compute; reflexivity|constructor].
  - constructor; [apply entry_ok_b; vm_compute; reflexivity|constructor].
  - rewrite Wl in Ha. apply Wm. symmetry. exact Ha.
Qed.

(* and the hypothesis on names is needed: a "name" carrying another port's marker is
   taken for that port's line *)
Lemma hostile_name_confuses :
  exists e, has_marker 12300 (marked_line 12301 e) = true.
Proof. exists (bs "x # sshuttle-firewall-12300 AUTOCREATED", bs "1.1.1.1"). vm_compute. reflexivity. Qed.

(* ---- a later call after a crashed one (stale temporary) ----
   Whatever a call that stopped after k primitives left behind (a backup, a temporary of
   any length and content), a complete call by the same or another port still installs
   exactly the next version computed from the hosts file it finds: open(tmpname, 'w')
   truncates (step, AtOpen).  rewrite_fs_spec is stated for every file system state, so
   this is an instance; it is spelled out because the stale temporary is the one piece of
   state a crash leaves behind that a later call of the same port writes to. *)
Lemma rewrite_after_crash p hm s0 k q hm2 :
  let '(_, s1, _) := run_k k (start p hm) s0 in
  let '(i2, s2, _) := rewrite_fs q hm2 s1 in
  (hosts_data s1 = hosts_data s0 \/ hosts_data s1 = next_version p hm s0) /\
  i_pc i2 = AtDone /\
  fs_get (PTmp q) s2 = None /\
  exists f, fs_get PHosts s2 = Some f /\ f_data f = next_version q hm2 s1.
Proof.
  pose proof (crash_atomic p hm s0 k) as Hc.
  destruct (run_k k (start p hm) s0) as [[i1 s1] tr1].
  pose proof (rewrite_fs_spec q hm2 s1) as Hr.
  destruct (rewrite_fs q hm2 s1) as [[i2 s2] tr2].
  destruct Hr as [Hd [Ht [f [Hf [Hdata _]]]]].
  split.
  - destruct Hc as [Hc|[_ Hc]]; [left; unfold hosts_data; rewrite Hc; reflexivity|right; exact Hc].
  - split; [exact Hd|]. split; [exact Ht|]. exists f. split; assumption.
Qed.

(* a start state with a stale temporary that is longer than the next version and holds
   lines the administrator has deleted since, plus marked lines of the dead session *)
Definition stale_s0 : fsys :=
  fs_set (PTmp 12300)
    (mkFile (bs "127.0.0.1 localhost
10.0.0.8 printer.example.org printer
10.0.0.9 decommissioned-a.example.org olda
192.168.1.1 alpha              # sshuttle-firewall-12300 AUTOCREATED
192.168.1.2 beta               # sshuttle-firewall-12300 AUTOCREATED
") 0 0 384 7)
    (fs_init (Some (bs "127.0.0.1 localhost
")) 0 0 420 true).
