(* Proofs/Stream_cb.v — the contract of one Proxy.callback, of Proxy.pre_select
   and of MuxWrapper.got_packet, in terms of the quantities the global
   invariants talk about. *)
From Coq Require Import List NArith Ascii Bool Lia.
From SV Require Import Lib.Bytes Model.Wire Model.Chan Model.Stream
  Proofs.Wire_lemmas Proofs.Stream_basic Proofs.Stream_wrap.
Import ListNotations.
Local Open Scope N_scope.

Definition eof_frame (c fid : N) : sframe := mkSF c CEof [] (Some fid).
Definition stop_frame (c fid : N) : sframe := mkSF c CStop [] (Some fid).

Definition has_stop (l : list sframe) : Prop := exists f, In f l /\ sf_cmd f = CStop.

(* ---------------- try_connect ---------------- *)
Lemma try_connect_spec s o ok s' : s_try_connect s o ok = Ok s' ->
  same_data s s' /\ sock_flags_mono s s' /\
  (s_sw s = false -> s_sw s' = true -> s_fault s' = true) /\
  (s_sr s = false -> s_sr s' = true -> s_sw s' = true).
Proof.
  unfold s_try_connect.
  set (s0 := if s_conn s && s_sw s then s_set_conn (s_noread s) false else s).
  assert (H0 : same_data s s0 /\ sock_flags_mono s s0 /\ s_sw s0 = s_sw s /\
               (s_sr s = false -> s_sr s0 = true -> s_sw s = true) /\ s_fault s0 = s_fault s).
  { unfold s0. destruct (s_conn s && s_sw s) eqn:E.
    - apply andb_true_iff in E. destruct E as [_ E].
      unfold same_data, sock_flags_mono. cbn. splits; auto.
    - unfold same_data. splits; auto using sfm_refl. intros; congruence. }
  destruct H0 as (D0 & M0 & W0 & R0 & F0).
  destruct (negb (s_conn s0)) eqn:En.
  { intros [= <-]. splits; auto; intros; try congruence. rewrite W0. auto. }
  assert (Hc : forall s1, s1 = s_set_conn s0 false ->
            same_data s s1 /\ sock_flags_mono s s1 /\ s_sw s1 = s_sw s /\ s_sr s1 = s_sr s0 /\ s_fault s1 = s_fault s).
  { intros s1 ->. unfold same_data, sock_flags_mono in *. cbn. destruct D0 as (A & B & C).
    destruct M0 as (M1 & M2 & M3 & M4). splits; auto. }
  destruct o as [|e].
  - intros [= <-]. destruct (Hc _ eq_refl) as (A & B & C & D & E).
    splits; auto; intros; try congruence. rewrite C. apply R0; congruence.
  - destruct e; try discriminate.
    + intros [= <-]. splits; auto; intros; try congruence. rewrite W0. auto.
    + intros [= <-]. destruct (Hc _ eq_refl) as (A & B & C & D & E).
      splits; auto; intros; try congruence. rewrite C. apply R0; congruence.
    + intros [= <-]. destruct (Hc _ eq_refl) as (A & B & C & D & E).
      destruct (seterr_spec (s_set_conn s0 false) ok) as ((A1 & A2 & A3) & B' & C' & D' & E' & F').
      unfold same_data in *. destruct A as (X1 & X2 & X3).
      splits; try congruence; auto.
      eapply sfm_trans; eassumption.
Qed.

(* ---------------- summary of one callback ---------------- *)
Record cb_facts (fid : N) (p p' : proxy) (x x' : mux) : Prop := {
  cb_new : list sframe; cb_r : bytes; cb_d : bytes;
  cbf_ext : mux_ext (m_chan (p_m p)) fid x x' cb_new;
  cbf_cc : chan_change_ok (p_m p) (p_m p') x x';
  cbf_rd : s_rd (p_s p') = s_rd (p_s p) ++ cb_r;
  cbf_rd_shut : s_sr (p_s p) = true -> cb_r = [];
  cbf_wr : s_wr (p_s p') = s_wr (p_s p) ++ cb_d;
  cbf_wr_shut : s_sw (p_s p) = true -> cb_d = [];
  cbf_smono : sock_flags_mono (p_s p) (p_s p');
  cbf_mmono : muxw_mono (p_m p) (p_m p');
  (* sock -> mux direction: conservation, or the drop rule (peer cannot be written) *)
  cbf_s2m : flat (s_buf (p_s p)) ++ cb_r = data_cat cb_new ++ flat (s_buf (p_s p'))
            \/ (m_sw (p_m p) = true /\ s_buf (p_s p') = [] /\ s_sr (p_s p') = true /\
                exists dropped, flat (s_buf (p_s p)) ++ cb_r = data_cat cb_new ++ dropped);
  (* mux -> sock direction *)
  cbf_m2s : flat (m_buf (p_m p)) = cb_d ++ flat (m_buf (p_m p'))
            \/ (s_sw (p_s p') = true /\ m_buf (p_m p') = [] /\
                exists dropped, flat (m_buf (p_m p)) = cb_d ++ dropped);
  (* EOF is emitted only after everything read has been framed, and nothing follows it *)
  cbf_eof : m_sw (p_m p) = false -> m_sw (p_m p') = true ->
            s_buf (p_s p') = [] /\ s_sr (p_s p') = true /\
            exists pre post, cb_new = pre ++ eof_frame (m_chan (p_m p)) fid :: post /\
                             data_cat post = [] /\ flat (s_buf (p_s p)) ++ cb_r = data_cat pre /\
                             (forall f, In f pre -> sf_cmd f <> CEof) /\ (forall f, In f post -> sf_cmd f <> CEof);
  cbf_noeof : m_sw (p_m p') = m_sw (p_m p) -> forall f, In f cb_new -> sf_cmd f <> CEof;
  (* STOP_SENDING is emitted only when the local socket can no longer be written *)
  cbf_stop : m_sr (p_m p) = false -> m_sr (p_m p') = true -> s_sw (p_s p') = true;
  cbf_stop_frame : has_stop cb_new -> s_sw (p_s p') = true /\ m_sr (p_m p) = false;
  (* a shutdown is issued on the clean end-of-stream path, or after a fault *)
  cbf_shut : s_sw (p_s p) = false -> s_sw (p_s p') = true ->
             s_fault (p_s p') = true \/
             (m_sr (p_m p) = true /\ flat (m_buf (p_m p)) = cb_d /\ m_buf (p_m p') = []);
  cbf_data_bound : data_len cb_new <= 2048;
  cbf_too_full : x_too_full x = true -> data_cat cb_new = [];
  cbf_removed : p_removed p' = p_removed p;
  cbf_done : p_ok p' = false -> p_ok p = false \/
             (s_sr (p_s p') = true /\ s_sw (p_s p') = true /\ m_sr (p_m p') = true /\ m_sw (p_m p') = true /\
              s_buf (p_s p') = [] /\ m_buf (p_m p') = []);
  (* STOP_SENDING is emitted exactly when this wrapper's shut_read is newly set by the callback *)
  cbf_stop_sr : has_stop cb_new -> m_sr (p_m p') = true;
  cbf_sr_stop : m_sr (p_m p) = false -> m_sr (p_m p') = true -> has_stop cb_new
}.

(* ---------------- the two copies, in either order ---------------- *)
Definition copies (sd : side) (s1 : sockw) (m0 : muxw) (x : mux) (fid : N) (o : io) : sockw * muxw * mux :=
  match sd with
  | Client =>
    let '(sa, ma, xa) := copy_s_to_m s1 m0 x fid in
    let '(mb, sb) := copy_m_to_s ma sa (io_send o) (io_shut_ok o) in (sb, mb, xa)
  | Server =>
    let '(ma, sa) := copy_m_to_s m0 s1 (io_send o) (io_shut_ok o) in
    let '(sb, mb, xb) := copy_s_to_m sa ma x fid in (sb, mb, xb)
  end.

Lemma copies_spec sd s1 m0 x fid o :
  let '(s2, m2, x2) := copies sd s1 m0 x fid o in
  exists new d,
    mux_ext (m_chan m0) fid x x2 new /\
    flat (s_buf s1) = data_cat new ++ flat (s_buf s2) /\
    flat (m_buf m0) = d ++ flat (m_buf m2) /\ s_wr s2 = s_wr s1 ++ d /\ (s_sw s1 = true -> d = []) /\
    s_rd s2 = s_rd s1 /\ s_conn s2 = s_conn s1 /\ sock_flags_mono s1 s2 /\
    muxw_mono m0 m2 /\ m_sr m2 = m_sr m0 /\
    (m_sw m0 = false -> m_sw m2 = true -> s_buf s2 = [] /\ s_sr s2 = true /\
       exists pre, new = pre ++ [eof_frame (m_chan m0) fid] /\ Forall (fun f => sf_cmd f = CData) pre) /\
    (m_sw m2 = m_sw m0 -> Forall (fun f => sf_cmd f = CData) new) /\
    (s_sw s1 = false -> s_sw s2 = true -> s_fault s2 = true \/ (m_buf m2 = [] /\ m_sr m0 = true)) /\
    data_len new <= 2048 /\ (x_too_full x = true -> data_cat new = []).
Proof.
  destruct sd; unfold copies.
  - pose proof (copy_s_to_m_spec s1 m0 x fid) as H1.
    destruct (copy_s_to_m s1 m0 x fid) as [[sa ma] xa].
    destruct H1 as (new & Hext & Hfl & Hrd & Hwr & Hsr & Hsw & Hcn & Hex & Hft & Hmm & Hmb & Hmsr & Htf & Hdl & Heof & Hne).
    pose proof (copy_m_to_s_spec ma sa (io_send o) (io_shut_ok o)) as H2.
    destruct (copy_m_to_s ma sa (io_send o) (io_shut_ok o)) as [mb sb].
    destruct H2 as (d & Gfl & Gwr & Gch & Gsr & Gsw & Gbuf & Grd & Gcn & Gmono & Gd & Gshut).
    exists new, d. splits.
    + exact Hext.
    + rewrite Gbuf. exact Hfl.
    + rewrite <- Hmb. exact Gfl.
    + congruence.
    + intros H. apply Gd. congruence.
    + congruence.
    + congruence.
    + unfold sock_flags_mono in *. rewrite Hsr, Hsw, Hex, Hft in Gmono. exact Gmono.
    + destruct Hmm as (M1 & M2 & M3). unfold muxw_mono. rewrite Gch, Gsr, Gsw. splits; auto.
    + congruence.
    + intros A B. rewrite Gsw in B. destruct (Heof A B) as (E1 & E2 & pre & E3).
      splits; [congruence| |exists pre; exact E3].
      destruct Gmono as (G1 & _). apply G1. congruence.
    + intros A. apply Hne. congruence.
    + intros A B. rewrite <- Hsw in A. destruct (Gshut A B) as [F|[F1 F2]]; [left; exact F|right].
      split; [exact F1|congruence].
    + exact Hdl.
    + exact Htf.
  - pose proof (copy_m_to_s_spec m0 s1 (io_send o) (io_shut_ok o)) as H2.
    destruct (copy_m_to_s m0 s1 (io_send o) (io_shut_ok o)) as [ma sa].
    destruct H2 as (d & Gfl & Gwr & Gch & Gsr & Gsw & Gbuf & Grd & Gcn & Gmono & Gd & Gshut).
    pose proof (copy_s_to_m_spec sa ma x fid) as H1.
    destruct (copy_s_to_m sa ma x fid) as [[sb mb] xb].
    destruct H1 as (new & Hext & Hfl & Hrd & Hwr & Hsr & Hsw & Hcn & Hex & Hft & Hmm & Hmb & Hmsr & Htf & Hdl & Heof & Hne).
    exists new, d. rewrite Gch in *. splits.
    + exact Hext.
    + rewrite <- Gbuf. exact Hfl.
    + rewrite Hmb. exact Gfl.
    + congruence.
    + exact Gd.
    + congruence.
    + congruence.
    + unfold sock_flags_mono in *. rewrite Hsr, Hsw, Hex, Hft. exact Gmono.
    + destruct Hmm as (M1 & M2 & M3). unfold muxw_mono. splits.
      * congruence.
      * intros A. apply M2. congruence.
      * intros A. apply M3. congruence.
    + congruence.
    + intros A B. rewrite <- Gsw in A. destruct (Heof A B) as (E1 & E2 & pre & E3).
      splits; [exact E1|congruence|exists pre; exact E3].
    + intros A. apply Hne. congruence.
    + intros A B. rewrite Hsw in B. destruct (Gshut A B) as [F|[F1 F2]]; [left; congruence|right].
      split; [congruence|exact F2].
    + exact Hdl.
    + exact Htf.
Qed.

(* channel-table effect of the two copies *)
Lemma copy_s_to_m_cc s m x fid :
  let '(s', m', x') := copy_s_to_m s m x fid in chan_change_ok m m' x x'.
Proof.
  unfold copy_s_to_m.
  assert (P1 : forall buf' x1,
    (match s_buf s with
     | (a :: b0) :: rest => let '(x1, w) := m_uwrite m x fid (a :: b0) in (advance (s_buf s) w, x1)
     | _ => (drop_empty (s_buf s), x)
     end) = (buf', x1) -> x_chan x1 = x_chan x).
  { intros buf' x1. destruct (s_buf s) as [|[|a b0] rest]; try (intros [= _ <-]; reflexivity).
    unfold m_uwrite. destruct (x_too_full x); intros [= _ <-]; reflexivity. }
  destruct (match s_buf s with
     | (a :: b0) :: rest => let '(x1, w) := m_uwrite m x fid (a :: b0) in (advance (s_buf s) w, x1)
     | _ => (drop_empty (s_buf s), x)
     end) as [buf' x1] eqn:E.
  specialize (P1 _ _ eq_refl).
  destruct buf' as [|b1 bs1]; [|left; split; [reflexivity|rewrite P1; reflexivity]].
  destruct (s_sr s); [|left; split; [reflexivity|rewrite P1; reflexivity]].
  pose proof (nowrite_cc m x1 fid) as H. destruct (m_nowrite m x1 fid) as [m' x2]. cbn [fst snd] in H.
  unfold chan_change_ok in *. rewrite P1 in H. exact H.
Qed.

Lemma copies_cc sd s1 m0 x fid o :
  let '(s2, m2, x2) := copies sd s1 m0 x fid o in chan_change_ok m0 m2 x x2.
Proof.
  destruct sd; unfold copies.
  - pose proof (copy_s_to_m_cc s1 m0 x fid) as H1.
    destruct (copy_s_to_m s1 m0 x fid) as [[sa ma] xa].
    pose proof (copy_m_to_s_spec ma sa (io_send o) (io_shut_ok o)) as H2.
    destruct (copy_m_to_s ma sa (io_send o) (io_shut_ok o)) as [mb sb].
    destruct H2 as (d & _ & _ & Gch & Gsr & Gsw & _).
    unfold chan_change_ok, closed in *. rewrite Gsr, Gsw. exact H1.
  - pose proof (copy_m_to_s_spec m0 s1 (io_send o) (io_shut_ok o)) as H2.
    destruct (copy_m_to_s m0 s1 (io_send o) (io_shut_ok o)) as [ma sa].
    destruct H2 as (d & _ & _ & Gch & Gsr & Gsw & _).
    pose proof (copy_s_to_m_cc sa ma x fid) as H1.
    destruct (copy_s_to_m sa ma x fid) as [[sb mb] xb].
    unfold chan_change_ok, closed in *. rewrite Gch, Gsr, Gsw in H1. exact H1.
Qed.

Lemma proxy_callback_unfold sd fid p x o :
  proxy_callback sd fid p x o =
  match s_try_connect (p_s p) (io_conn o) (io_shut_ok o) with
  | Crash c => Crash c
  | Ok s0 =>
    let s1 := s_fill s0 (io_recv o) (io_shut_ok o) in
    let '(s2, m2, x2) := copies sd s1 (p_m p) x fid o in
    let s3 := if nonempty_buf (s_buf s2) && m_sw m2
              then s_noread (mkSock (s_conn s2) (s_sr s2) (s_sw s2) [] (s_exc s2) (s_rd s2) (s_wr s2) (s_fault s2))
              else s2 in
    let '(m3, x3) := if nonempty_buf (m_buf m2) && s_sw s2
                     then m_noread (mkMuxw (m_chan m2) (m_sr m2) (m_sw m2) []) x2 fid
                     else (m2, x2) in
    if s_sr s3 && m_sr m3 && negb (nonempty_buf (s_buf s3)) && negb (nonempty_buf (m_buf m3))
    then
      let s4 := s_nowrite s3 (io_shut_ok o) in
      let '(m4, x4) := m_nowrite m3 x3 fid in
      Ok (mkProxy false (p_removed p) s4 m4, x4)
    else Ok (mkProxy (p_ok p) (p_removed p) s3 m3, x3)
  end.
Proof. unfold proxy_callback, copies. destruct sd; reflexivity. Qed.

Lemma data_cat_stop c fid : data_cat [stop_frame c fid] = [].
Proof. reflexivity. Qed.
Lemma data_cat_eof c fid : data_cat [eof_frame c fid] = [].
Proof. reflexivity. Qed.

Lemma forall_data_no_stop new : Forall (fun f => sf_cmd f = CData) new -> ~ has_stop new.
Proof.
  intros H (f & Hin & Hc). rewrite Forall_forall in H. rewrite (H f Hin) in Hc. discriminate.
Qed.

Lemma callback_spec sd fid p x o p' x' :
  proxy_callback sd fid p x o = Ok (p', x') -> cb_facts fid p p' x x'.
Proof.
  rewrite proxy_callback_unfold.
  destruct (s_try_connect (p_s p) (io_conn o) (io_shut_ok o)) as [s0|c] eqn:Etc; [|discriminate].
  destruct (try_connect_spec _ _ _ _ Etc) as ((T1 & T2 & T3) & Tm & Tshut & Tsr).
  cbv zeta.
  pose proof (fill_spec s0 (io_recv o) (io_shut_ok o)) as Hf. cbv zeta in Hf.
  set (s1 := s_fill s0 (io_recv o) (io_shut_ok o)) in *.
  set (r := recv_bytes s0 (io_recv o)) in *.
  destruct Hf as (F1 & F2 & F3 & Fm & Fc & Fsr & Fshut).
  pose proof (copies_spec sd s1 (p_m p) x fid o) as Hc.
  pose proof (copies_cc sd s1 (p_m p) x fid o) as Hcc.
  destruct (copies sd s1 (p_m p) x fid o) as [[s2 m2] x2].
  destruct Hc as (new & d & Cext & Cs & Cm & Cwr & Cd & Crd & Ccn & Csm & Cmm & Cmsr & Ceof & Cne & Cshut & Cdl & Ctf).
  set (m0 := p_m p) in *. set (c := m_chan m0) in *.
  (* drop rule on the socket side *)
  set (s3 := if nonempty_buf (s_buf s2) && m_sw m2
             then s_noread (mkSock (s_conn s2) (s_sr s2) (s_sw s2) [] (s_exc s2) (s_rd s2) (s_wr s2) (s_fault s2))
             else s2).
  assert (S3 : s_rd s3 = s_rd s2 /\ s_wr s3 = s_wr s2 /\ s_sw s3 = s_sw s2 /\ s_fault s3 = s_fault s2 /\
               sock_flags_mono s2 s3 /\
               (s_buf s3 = s_buf s2 \/ (m_sw m2 = true /\ s_buf s2 <> [] /\ s_buf s3 = [] /\ s_sr s3 = true))).
  { unfold s3. destruct (nonempty_buf (s_buf s2) && m_sw m2) eqn:E.
    - apply andb_true_iff in E. destruct E as [E1 E2].
      unfold sock_flags_mono. cbn. splits; auto. right. splits; auto.
      intros H. rewrite H in E1. discriminate.
    - splits; auto using sfm_refl. }
  destruct S3 as (S3rd & S3wr & S3sw & S3ft & S3m & S3buf).
  (* drop rule on the mux side *)
  set (m2' := mkMuxw (m_chan m2) (m_sr m2) (m_sw m2) []).
  assert (Em2c : m_chan m2 = c) by apply Cmm.
  destruct (if nonempty_buf (m_buf m2) && s_sw s2 then m_noread m2' x2 fid else (m2, x2)) as [m3 x3] eqn:E3.
  assert (M3 : exists sn, mux_ext c fid x2 x3 sn /\ chan_change_ok m2 m3 x2 x3 /\ muxw_mono m2 m3 /\
               m_sw m3 = m_sw m2 /\
               ((sn = [] /\ m_sr m3 = m_sr m2 /\ m_buf m3 = m_buf m2) \/
                (s_sw s2 = true /\ m_buf m3 = [] /\ m_sr m3 = true /\
                 sn = (if m_sr m2 then [] else [stop_frame c fid])))).
  { destruct (nonempty_buf (m_buf m2) && s_sw s2) eqn:E.
    - apply andb_true_iff in E. destruct E as [E1 E2].
      destruct (noread_ext m2' x2 fid) as (sn & N1 & N2 & N3 & N4 & N5 & N6).
      pose proof (noread_cc m2' x2 fid) as N7.
      rewrite E3 in *. cbn [fst snd] in *. cbn [m2' m_chan m_sr m_sw m_buf] in *.
      exists sn. rewrite Em2c in *. splits; auto.
    - inversion E3; subst m3 x3. exists []. splits; auto using mux_ext_refl, cc_refl, muxw_mono_refl. }
  destruct M3 as (sn & M3ext & M3cc & M3m & M3sw & M3case).
  assert (Em3c : m_chan m3 = c) by (destruct M3m as (A & _); congruence).
  (* end condition: summarised uniformly *)
  assert (EP : exists sF mF xF okF en,
    (if s_sr s3 && m_sr m3 && negb (nonempty_buf (s_buf s3)) && negb (nonempty_buf (m_buf m3))
     then let '(m4, x4) := m_nowrite m3 x3 fid in
          Ok (mkProxy false (p_removed p) (s_nowrite s3 (io_shut_ok o)) m4, x4)
     else Ok (mkProxy (p_ok p) (p_removed p) s3 m3, x3)) = Ok (mkProxy okF (p_removed p) sF mF, xF) /\
    same_data s3 sF /\ sock_flags_mono s3 sF /\
    mux_ext c fid x3 xF en /\ chan_change_ok m3 mF x3 xF /\ muxw_mono m3 mF /\
    m_sr mF = m_sr m3 /\ m_buf mF = m_buf m3 /\
    (en = [] \/ en = [eof_frame c fid]) /\
    (m_sw mF = m_sw m3 -> en = []) /\
    (m_sw m3 = false -> m_sw mF = true -> en = [eof_frame c fid]) /\
    ((s_sw sF = s_sw s3 /\ s_fault sF = s_fault s3 /\ m_sw mF = m_sw m3 /\ okF = p_ok p) \/
     (s_sr s3 = true /\ m_sr m3 = true /\ s_buf s3 = [] /\ m_buf m3 = [] /\
      s_sw sF = true /\ m_sw mF = true /\ (s_fault sF = s_fault s3 \/ s_fault sF = true)))).
  { destruct (s_sr s3 && m_sr m3 && negb (nonempty_buf (s_buf s3)) && negb (nonempty_buf (m_buf m3))) eqn:Eend.
    - apply andb_true_iff in Eend. destruct Eend as [Eend E4].
      apply andb_true_iff in Eend. destruct Eend as [Eend E3'].
      apply andb_true_iff in Eend. destruct Eend as [E1 E2].
      apply negb_true_iff in E3', E4. apply nonempty_buf_false in E3', E4.
      destruct (nowrite_spec s3 (io_shut_ok o)) as (Wd & Wm & Wsw & Wcn & Wft).
      destruct (nowrite_ext m3 x3 fid) as (en & N1 & N2 & N3 & N4 & N5 & N6).
      pose proof (nowrite_cc m3 x3 fid) as N7.
      cbv zeta. destruct (m_nowrite m3 x3 fid) as [m4 x4]. cbn [fst snd] in *.
      rewrite Em3c in *.
      exists (s_nowrite s3 (io_shut_ok o)), m4, x4, false, en. splits; auto;
        try (subst en; destruct (m_sw m3); auto; fail);
        try (intros H; subst en; rewrite N4 in H; rewrite <- H; reflexivity);
        try (intros H _; subst en; rewrite H; reflexivity);
        try (right; splits; auto).
    - exists s3, m3, x3, (p_ok p), []. unfold same_data.
      splits; auto using sfm_refl, mux_ext_refl, cc_refl, muxw_mono_refl;
        try (intros; congruence); try (left; splits; auto). }
  destruct EP as (sF & mF & xF & okF & en & -> & (P1 & P2 & P3) & Pm & Pext & Pcc & Pmm & Pmsr & Pmbuf & Pen & Pen0 & Pen1 & Pend).
  intros [= <- <-]. cbn [p_s p_m p_ok p_removed].
  assert (EmFc : m_chan mF = c) by (destruct Pmm as (A & _); congruence).
  (* helper facts *)
  assert (Dsn : data_cat sn = [] /\ data_len sn = 0 /\ (forall fr, In fr sn -> sf_cmd fr = CStop)).
  { destruct M3case as [(-> & _)|(_ & _ & _ & ->)].
    - splits; auto. intros fr [].
    - destruct (m_sr m2); splits; auto.
      + intros fr [].
      + intros fr [<-|[]]. reflexivity. }
  destruct Dsn as (Dsn1 & Dsn2 & Dsn3).
  assert (Den : data_cat en = [] /\ data_len en = 0 /\ (forall fr, In fr en -> sf_cmd fr = CEof)).
  { destruct Pen as [->| ->]; splits; auto.
    - intros fr [].
    - intros fr [<-|[]]. reflexivity. }
  destruct Den as (Den1 & Den2 & Den3).
  assert (SwMono : forall a b, sock_flags_mono a b -> s_sw a = true -> s_sw b = true) by (intros a b (_ & H & _); exact H).
  assert (SrMono : forall a b, sock_flags_mono a b -> s_sr a = true -> s_sr b = true) by (intros a b (H & _); exact H).
  assert (FtMono : forall a b, sock_flags_mono a b -> s_fault a = true -> s_fault b = true) by (intros a b (_ & _ & _ & H); exact H).
  assert (M02 : sock_flags_mono (p_s p) s2) by (eapply sfm_trans; [eapply sfm_trans; eassumption|exact Csm]).
  assert (M2F : sock_flags_mono s2 sF) by (eapply sfm_trans; eassumption).
  apply (Build_cb_facts fid p _ x xF (new ++ sn ++ en) r d); cbn [p_s p_m p_ok p_removed]; fold m0; fold c.
  (* 1 *) - eapply mux_ext_trans; [exact Cext|]. eapply mux_ext_trans; eassumption.
  (* 2 *) - eapply cc_trans; [ | exact Pmm | | exact Pcc].
            + eapply muxw_mono_trans; eassumption.
            + eapply cc_trans; [exact Cmm|exact M3m|exact Hcc|exact M3cc].
  (* 3 *) - congruence.
  (* 4 *) - intros H. apply Fsr. exact (SrMono _ _ Tm H).
  (* 5 *) - congruence.
  (* 6 *) - intros H. apply Cd. apply (SwMono _ _ Fm). exact (SwMono _ _ Tm H).
  (* 7 *) - eapply sfm_trans; eassumption.
  (* 8 *) - eapply muxw_mono_trans; [exact Cmm|]. eapply muxw_mono_trans; eassumption.
  (* 9 *) - rewrite !data_cat_app, Dsn1, Den1, !app_nil_r.
            destruct S3buf as [Hb|(A & B & C & D)].
            + left. rewrite P1, Hb, <- T1, <- F1. exact Cs.
            + right. splits.
              * destruct (m_sw m0) eqn:E; [reflexivity|].
                destruct (Ceof eq_refl A) as (X & _). contradiction.
              * congruence.
              * exact (SrMono _ _ Pm D).
              * exists (flat (s_buf s2)). rewrite <- T1, <- F1. exact Cs.
  (* 10 *) - destruct M3case as [(_ & _ & Hb)|(A & B & _ & _)].
            + left. rewrite Pmbuf, Hb. exact Cm.
            + right. splits; [apply (SwMono _ _ M2F); exact A|congruence|].
              exists (flat (m_buf m2)). exact Cm.
  (* 11 *) - intros A B. destruct (m_sw m2) eqn:E2.
            + destruct (Ceof A eq_refl) as (X1 & X2 & pre & X3 & X4).
              assert (Hs3 : s_buf s3 = []) by (destruct S3buf as [Hb|(_ & Hb & _)]; [congruence|contradiction]).
              assert (Hen : en = []) by (apply Pen0; destruct Pend as [(_ & _ & Q & _)|(_ & _ & _ & _ & _ & Q & _)]; congruence).
              splits; [congruence|exact (SrMono _ _ M2F X2)|].
              exists pre, (sn ++ en). splits.
              * rewrite X3, <- app_assoc. reflexivity.
              * rewrite data_cat_app, Dsn1, Den1. reflexivity.
              * rewrite <- T1, <- F1, Cs, X1, X3, data_cat_app, data_cat_eof, !app_nil_r. reflexivity.
              * intros fr Hin Hc. rewrite Forall_forall in X4. rewrite (X4 fr Hin) in Hc. discriminate.
              * intros fr Hin Hc. rewrite Hen, app_nil_r in Hin. rewrite (Dsn3 fr Hin) in Hc. discriminate.
            + assert (Hm3 : m_sw m3 = false) by congruence.
              destruct Pend as [(_ & _ & Q & _)|(Q1 & Q2 & Q3 & Q4 & Q5 & Q6 & Q7)]; [congruence|].
              assert (Hs2 : s_buf s2 = []) by (destruct S3buf as [Hb|(Hb & _)]; congruence).
              splits; [congruence|exact (SrMono _ _ Pm Q1)|].
              exists (new ++ sn), []. splits.
              * rewrite (Pen1 Hm3 B), <- app_assoc. reflexivity.
              * reflexivity.
              * rewrite data_cat_app, Dsn1, app_nil_r, <- T1, <- F1, Cs, Hs2, app_nil_r. reflexivity.
              * intros fr Hin Hc. apply in_app_or in Hin. destruct Hin as [Hin|Hin].
                -- assert (Hm20 : false = m_sw m0) by congruence.
                   pose proof (Cne Hm20) as Hd. rewrite Forall_forall in Hd. rewrite (Hd fr Hin) in Hc. discriminate.
                -- rewrite (Dsn3 fr Hin) in Hc. discriminate.
              * intros fr [].
  (* 12 *) - intros A f Hin.
            assert (E02 : m_sw m2 = m_sw m0 /\ m_sw mF = m_sw m3).
            { destruct Cmm as (_ & _ & C1). destruct Pmm as (_ & _ & C2). destruct M3m as (_ & _ & C3).
              destruct (m_sw m0), (m_sw m2), (m_sw m3), (m_sw mF); split; try reflexivity; try congruence;
                try (specialize (C1 eq_refl); congruence); try (specialize (C2 eq_refl); congruence);
                try (specialize (C3 eq_refl); congruence). }
            destruct E02 as (E02 & E3F).
            apply in_app_or in Hin. destruct Hin as [Hin|Hin].
            + pose proof (Cne E02) as Hd. rewrite Forall_forall in Hd. rewrite (Hd f Hin). discriminate.
            + apply in_app_or in Hin. destruct Hin as [Hin|Hin].
              * rewrite (Dsn3 f Hin). discriminate.
              * rewrite (Pen0 E3F) in Hin. destruct Hin.
  (* 13 *) - intros A B. rewrite Pmsr in B. rewrite <- Cmsr in A.
            destruct M3case as [(_ & Q & _)|(Q & _)]; [congruence|]. exact (SwMono _ _ M2F Q).
  (* 14 *) - intros (f & Hin & Hc).
            apply in_app_or in Hin. destruct Hin as [Hin|Hin].
            + exfalso. destruct (m_sw m2) eqn:E2; destruct (m_sw m0) eqn:E0.
              * pose proof (Cne eq_refl) as Hd. rewrite Forall_forall in Hd. rewrite (Hd f Hin) in Hc. discriminate.
              * destruct (Ceof eq_refl eq_refl) as (_ & _ & pre & X3 & X4).
                rewrite X3 in Hin. apply in_app_or in Hin. destruct Hin as [Hin|[<-|[]]].
                -- rewrite Forall_forall in X4. rewrite (X4 f Hin) in Hc. discriminate.
                -- discriminate.
              * destruct Cmm as (_ & _ & C1). pose proof (C1 E0). congruence.
              * pose proof (Cne eq_refl) as Hd. rewrite Forall_forall in Hd. rewrite (Hd f Hin) in Hc. discriminate.
            + apply in_app_or in Hin. destruct Hin as [Hin|Hin].
              * destruct M3case as [(-> & _)|(Q1 & _ & _ & Q4)]; [destruct Hin|].
                split; [exact (SwMono _ _ M2F Q1)|].
                rewrite <- Cmsr. destruct (m_sr m2); [subst sn; destruct Hin|reflexivity].
              * rewrite (Den3 f Hin) in Hc. discriminate.
  (* 15 *) - intros A B.
            destruct (s_sw s0) eqn:E0; [left; apply (FtMono _ _ M2F), (FtMono _ _ Csm), (FtMono _ _ Fm); auto|].
            destruct (s_sw s1) eqn:E1; [left; apply (FtMono _ _ M2F), (FtMono _ _ Csm); auto|].
            destruct (s_sw s2) eqn:E2.
            + destruct (Cshut eq_refl eq_refl) as [F|(F1' & F2')]; [left; exact (FtMono _ _ M2F F)|].
              right. splits; auto.
              * rewrite Cm, F1'. apply app_nil_r.
              * rewrite Pmbuf. destruct M3case as [(_ & _ & Hb)|(_ & Hb & _)]; congruence.
            + assert (E3s : s_sw s3 = false) by congruence.
              destruct Pend as [(Q & _)|(Q1 & Q2 & Q3 & Q4 & Q5 & Q6 & Q7)]; [congruence|].
              destruct M3case as [(_ & R2 & R3)|(R & _)]; [|congruence].
              destruct Q7 as [Q7|Q7]; [|left; exact Q7].
              right. splits.
              * congruence.
              * rewrite Cm, <- R3, Q4. apply app_nil_r.
              * congruence.
  (* 16 *) - rewrite !data_len_app, Dsn2, Den2. lia.
  (* 17 *) - intros H. rewrite !data_cat_app, Dsn1, Den1, (Ctf H). reflexivity.
  (* 18 *) - reflexivity.
  (* 19 *) - intros H. destruct Pend as [(_ & _ & _ & Q)|(Q1 & Q2 & Q3 & Q4 & Q5 & Q6 & Q7)]; [left; congruence|].
            right. splits; auto; try congruence. exact (SrMono _ _ Pm Q1).
  (* 20 *) - intros (fr & Hin & Hc). rewrite Pmsr.
            apply in_app_or in Hin. destruct Hin as [Hin|Hin].
            + exfalso. destruct (m_sw m2) eqn:E2; destruct (m_sw m0) eqn:E0.
              * pose proof (Cne eq_refl) as Hd. rewrite Forall_forall in Hd. rewrite (Hd fr Hin) in Hc. discriminate.
              * destruct (Ceof eq_refl eq_refl) as (_ & _ & pre & X3 & X4).
                rewrite X3 in Hin. apply in_app_or in Hin. destruct Hin as [Hin|[<-|[]]].
                -- rewrite Forall_forall in X4. rewrite (X4 fr Hin) in Hc. discriminate.
                -- discriminate.
              * destruct Cmm as (_ & _ & C1). pose proof (C1 E0). congruence.
              * pose proof (Cne eq_refl) as Hd. rewrite Forall_forall in Hd. rewrite (Hd fr Hin) in Hc. discriminate.
            + apply in_app_or in Hin. destruct Hin as [Hin|Hin].
              * destruct M3case as [(-> & _)|(_ & _ & Q3 & _)]; [destruct Hin|exact Q3].
              * rewrite (Den3 fr Hin) in Hc. discriminate.
  (* 21 *) - intros A B. rewrite Pmsr in B. rewrite <- Cmsr in A.
            destruct M3case as [(_ & Q & _)|(_ & _ & _ & Q4)]; [congruence|].
            rewrite A in Q4. exists (stop_frame c fid). split; [|reflexivity].
            apply in_or_app. right. apply in_or_app. left. rewrite Q4. left. reflexivity.
Qed.

(* ---------------- Proxy.pre_select ---------------- *)
Lemma pre_select_spec sd fid p x :
  let '(p', x', ws) := proxy_pre_select sd fid p x in
  exists sn, mux_ext (m_chan (p_m p)) fid x x' sn /\
  chan_change_ok (p_m p) (p_m p') x x' /\ muxw_mono (p_m p) (p_m p') /\
  sn = (if s_sw (p_s p) then (if m_sr (p_m p) then [] else [stop_frame (m_chan (p_m p)) fid]) else []) /\
  m_sr (p_m p') = (m_sr (p_m p) || s_sw (p_s p)) /\ m_sw (p_m p') = m_sw (p_m p) /\ m_buf (p_m p') = m_buf (p_m p) /\
  same_data (p_s p) (p_s p') /\ s_sr (p_s p') = (s_sr (p_s p) || m_sw (p_m p)) /\
  s_sw (p_s p') = s_sw (p_s p) /\ s_fault (p_s p') = s_fault (p_s p) /\ s_conn (p_s p') = s_conn (p_s p) /\
  p_ok p' = p_ok p /\ p_removed p' = p_removed p.
Proof.
  unfold proxy_pre_select.
  set (s := p_s p). set (m := p_m p).
  destruct (if s_sw s then m_noread m x fid else (m, x)) as [m1 x1] eqn:E1.
  assert (H1 : exists sn, mux_ext (m_chan m) fid x x1 sn /\ chan_change_ok m m1 x x1 /\ muxw_mono m m1 /\
            sn = (if s_sw s then (if m_sr m then [] else [stop_frame (m_chan m) fid]) else []) /\
            m_sr m1 = (m_sr m || s_sw s) /\ m_sw m1 = m_sw m /\ m_buf m1 = m_buf m).
  { destruct (s_sw s) eqn:Es.
    - destruct (noread_ext m x fid) as (sn & N1 & N2 & N3 & N4 & N5 & N6).
      pose proof (noread_cc m x fid) as N7. rewrite E1 in *. cbn [fst snd] in *.
      exists sn. splits; auto. rewrite N4. destruct (m_sr m); reflexivity.
    - inversion E1; subst. exists []. splits; auto using mux_ext_refl, cc_refl, muxw_mono_refl.
      destruct (m_sr m); reflexivity. }
  destruct H1 as (sn & A1 & A2 & A3 & A4 & A5 & A6 & A7).
  cbv zeta. exists sn. cbn [p_s p_m p_ok p_removed].
  splits; auto.
  - unfold same_data. destruct (m_sw m); cbn; auto.
  - destruct (m_sw m); cbn; [destruct (s_sr s); reflexivity|destruct (s_sr s); reflexivity].
  - destruct (m_sw m); reflexivity.
  - destruct (m_sw m); reflexivity.
  - destruct (m_sw m); reflexivity.
Qed.

Ltac destr_cb F :=
  destruct F as [cbnew cbr cbd Fext Fcc Frd Frdshut Fwr Fwrshut Fsmono Fmmono Fs2m Fm2s Feof Fnoeof
                 Fstop Fstopf Fshut Fbound Ftf Fremoved Fdone Fstopsr Fsrstop].
