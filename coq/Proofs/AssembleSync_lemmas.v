(* Proofs/AssembleSync_lemmas.v — C18, the client's announcement check (client.py _main:
   `if initstring != expected: raise Fatal`): the converse of sync_ok_verified and the
   stream-level reading of hs_spec.  Together: the client goes on ("Connected to server.")
   EXACTLY when ssh is alive and the 12 bytes that follow the second NUL of the server's
   output are the announcement — a stream that ends inside the announcement is refused. *)
From Coq Require Import List NArith ZArith Ascii Bool Lia.
From SV Require Import Lib.Bytes Model.Wire Proofs.Wire_lemmas Model.Assemble Proofs.Assemble_lemmas Gen.Consts.
Import ListNotations.
Local Open Scope N_scope.

Lemma sync_ok_complete c1 c2 e :
  ce_poll e = None -> fst (hs_run client_sync (ce_server e)) = true ->
  In CSyncOk (client_startup c1 c2 e).
Proof.
  unfold client_startup. intros -> ->. cbn [In]. right. right. right. left. reflexivity.
Qed.

Lemma sync_ok_exactly c1 c2 e : Forall nonempty (ce_server e) ->
  (In CSyncOk (client_startup c1 c2 e) <->
   ce_poll e = None /\ fst (hs_spec client_sync (concat (ce_server e))) = true).
Proof.
  intros HF. split.
  - intros Hin. exact (sync_ok_verified c1 c2 e Hin HF).
  - intros [Hp Hs]. apply sync_ok_complete; [exact Hp|].
    destruct (hs_run_spec client_sync (ce_server e) HF) as [H1 _]. rewrite H1. exact Hs.
Qed.

(* hs_spec accepts exactly when the |expected| bytes after the second NUL ARE expected *)
Lemma hs_spec_exact expected s :
  fst (hs_spec expected s) = true <->
  takeN (lenN expected) (after_nul (after_nul s)) = expected.
Proof. unfold hs_spec. cbn [fst]. apply bytes_eqb_eq. Qed.

(* fewer bytes than the announcement has after the second NUL (incl. no second NUL at all,
   nothing at all): refused, whatever those bytes are — in particular every proper prefix of
   the announcement and the empty string *)
Lemma hs_spec_short expected s :
  lenN (after_nul (after_nul s)) < lenN expected -> fst (hs_spec expected s) = false.
Proof.
  intros Hlt. destruct (fst (hs_spec expected s)) eqn:E; [|reflexivity].
  apply hs_spec_exact in E.
  rewrite takeN_all in E by lia. rewrite E in Hlt. lia.
Qed.

Lemma sync_short_refused c1 c2 e : Forall nonempty (ce_server e) ->
  lenN (after_nul (after_nul (concat (ce_server e)))) < lenN client_sync ->
  ~ In CSyncOk (client_startup c1 c2 e).
Proof.
  intros HF Hlt Hin. apply (sync_ok_exactly c1 c2 e HF) in Hin. destruct Hin as [_ Hs].
  rewrite hs_spec_short in Hs by exact Hlt. discriminate.
Qed.
