(* Proofs/Stream_flow.v — every micro-step of the executable stream model
   induces, on the view of every flow and direction, transitions of
   Stream_view.vstep; hence Vinv holds for all views in every reachable state in
   which no frame reached a wrapper of another incarnation (w_stale = false). *)
From Coq Require Import List NArith Ascii Bool Lia.
From SV Require Import Lib.Bytes Model.Wire Model.Chan Model.Stream
  Proofs.Wire_lemmas Proofs.Chan_lemmas Proofs.Stream_basic Proofs.Stream_wrap Proofs.Stream_cb
  Proofs.Stream_reg Proofs.Stream_fw Proofs.Stream_view.
Import ListNotations.
Local Open Scope N_scope.

Definition fid_is (f : N) (fr : sframe) : bool := same_fid (sf_fid fr) f.
Definition is_stop (fr : sframe) : bool := match sf_cmd fr with CStop => true | _ => false end.
Definition is_stop_of (f : N) (fr : sframe) : bool := fid_is f fr && is_stop fr.

Definition inlink (w : world) (rs : side) : list sframe :=
  match rs with Client => w_cs w | Server => w_sc w end.
Definition path (w : world) (rs : side) : list sframe := inlink w rs ++ x_out (e_mux (get_end w rs)).

Definition pS (o : option proxy) : sockw := match o with Some p => p_s p | None => new_sock false end.
Definition pM (o : option proxy) : muxw := match o with Some p => p_m p | None => new_muxw 0 end.

Definition rprox (w : world) (rs : side) (f : N) := e_prox (get_end w rs) f.
Definition wprox (w : world) (rs : side) (f : N) := e_prox (get_end w (other rs)) f.

Definition view_of (w : world) (rs : side) (f : N) : view :=
  mkView (s_rd (pS (rprox w rs f))) (s_buf (pS (rprox w rs f))) (filter (fid_is f) (path w rs))
         (m_buf (pM (wprox w rs f))) (s_wr (pS (wprox w rs f)))
         (s_sr (pS (rprox w rs f))) (m_sw (pM (rprox w rs f))) (m_sr (pM (wprox w rs f)))
         (s_sw (pS (wprox w rs f))) (existsb (is_stop_of f) (path w (other rs)))
         (s_fault (pS (wprox w rs f))).

(* two transitions in a row (a CONNECT both leaves the path and creates the writer end) *)
Definition vstep2 (v v' : view) : Prop := exists v1, vstep v v1 /\ vstep v1 v'.

Lemma vstep2_one v v' : vstep v v' -> vstep2 v v'.
Proof. intros H. exists v'. split; [exact H|apply VS_same]. Qed.

Lemma Vinv_step2 v v' : Vinv v -> vstep2 v v' -> Vinv v'.
Proof. intros H (v1 & A & B). eapply Vinv_step; [eapply Vinv_step; eassumption|exact B]. Qed.

(* ---------------- frames of other flows do not show in a view ---------------- *)
Lemma flow_frame_fid c g fr f : flow_frame c g fr -> f <> g -> fid_is f fr = false.
Proof.
  intros (_ & Hf & _) Hn. unfold fid_is. rewrite Hf. cbn. apply N.eqb_neq. congruence.
Qed.

Lemma flow_frame_fid_same c g fr : flow_frame c g fr -> fid_is g fr = true.
Proof. intros (_ & Hf & _). unfold fid_is. rewrite Hf. cbn. apply N.eqb_refl. Qed.

Lemma filter_other c g new f : Forall (flow_frame c g) new -> f <> g -> filter (fid_is f) new = [].
Proof.
  intros H Hn. induction H as [|fr l Hfr _ IH]; [reflexivity|].
  cbn [filter]. rewrite (flow_frame_fid _ _ _ _ Hfr Hn). exact IH.
Qed.

Lemma filter_same c g new : Forall (flow_frame c g) new -> filter (fid_is g) new = new.
Proof.
  intros H. induction H as [|fr l Hfr _ IH]; [reflexivity|].
  cbn [filter]. rewrite (flow_frame_fid_same _ _ _ Hfr), IH. reflexivity.
Qed.

Lemma stops_other c g new f : Forall (flow_frame c g) new -> f <> g -> existsb (is_stop_of f) new = false.
Proof.
  intros H Hn. induction H as [|fr l Hfr _ IH]; [reflexivity|].
  cbn [existsb]. unfold is_stop_of at 1. rewrite (flow_frame_fid _ _ _ _ Hfr Hn), IH. reflexivity.
Qed.

Lemma stops_same c g new : Forall (flow_frame c g) new -> existsb (is_stop_of g) new = existsb is_stop new.
Proof.
  intros H. induction H as [|fr l Hfr _ IH]; [reflexivity|].
  cbn [existsb]. unfold is_stop_of at 1. rewrite (flow_frame_fid_same _ _ _ Hfr). cbn [andb]. rewrite IH. reflexivity.
Qed.

Lemma none_fid_filter f fr : sf_fid fr = None -> fid_is f fr = false.
Proof. intros H. unfold fid_is. rewrite H. reflexivity. Qed.

Lemma none_frames_invisible (P : sframe -> Prop) f new :
  Forall (fun fr => sf_fid fr = None /\ P fr) new ->
  filter (fid_is f) new = [] /\ existsb (is_stop_of f) new = false.
Proof.
  induction 1 as [|fr l [Hfr _] _ [IH1 IH2]]; [split; reflexivity|].
  cbn [filter existsb]. unfold is_stop_of at 1. rewrite (none_fid_filter f fr Hfr). cbn [andb orb]. auto.
Qed.

(* ---------------- the alignment invariant between the two ends ---------------- *)
Definition cl (w : world) (f : N) := e_prox (w_cl w) f.
Definition sv (w : world) (f : N) := e_prox (w_sv w) f.

Definition is_connect (fr : sframe) : bool := match sf_cmd fr with CConnect => true | _ => false end.
Definition connect_fids (l : list sframe) : list (option N) := map sf_fid (filter is_connect l).

Lemma connect_fids_app a b : connect_fids (a ++ b) = connect_fids a ++ connect_fids b.
Proof. unfold connect_fids. rewrite filter_app, map_app. reflexivity. Qed.

Lemma connect_fids_flow c g new : Forall (flow_frame c g) new -> connect_fids new = [].
Proof.
  intros H. unfold connect_fids. induction H as [|fr l Hfr _ IH]; [reflexivity|].
  cbn [filter]. unfold is_connect at 1. destruct Hfr as (_ & _ & [F|[[F _]|[F _]]]); rewrite F; exact IH.
Qed.

Record ALinv (w : world) : Prop := {
  al_sv_cl : forall f p, sv w f = Some p -> exists q, cl w f = Some q /\ m_chan (p_m q) = m_chan (p_m p);
  al_cs : forall fr f, In fr (path w Client) -> sf_fid fr = Some f ->
          exists q, cl w f = Some q /\ sf_ch fr = m_chan (p_m q);
  al_sc : forall fr f, In fr (path w Server) -> sf_fid fr = Some f ->
          exists p, sv w f = Some p /\ sf_ch fr = m_chan (p_m p);
  (* until the server has created its end, the flow's first frame on the way is its CONNECT *)
  al_connect_first : forall f q, cl w f = Some q -> sv w f = None ->
          exists fr rest, filter (fid_is f) (path w Client) = fr :: rest /\ sf_cmd fr = CConnect;
  (* a CONNECT on the way belongs to a flow whose server end does not exist yet *)
  al_connect_pending : forall fr f, In fr (path w Client) -> sf_cmd fr = CConnect -> sf_fid fr = Some f ->
          sv w f = None;
  al_connect_nodup : NoDup (connect_fids (path w Client))
}.

Lemma ALinv_world0 maxc lbs : ALinv (world0 maxc lbs).
Proof.
  constructor; unfold cl, sv, path; cbn.
  - intros f p H; discriminate.
  - intros fr f [<-|[]] H; discriminate.
  - intros fr f [<-|[]] H; discriminate.
  - intros f q H; discriminate.
  - intros fr f [<-|[]] H; discriminate.
  - constructor.
Qed.

Lemma oth_oth s : other (other s) = s.
Proof. destruct s; reflexivity. Qed.

Lemma side_eq_dec (a b : side) : {a = b} + {a <> b}.
Proof. decide equality. Defined.

(* ---------------- events that change no view ---------------- *)
Lemma view_ext w w' rs f :
  rprox w' rs f = rprox w rs f -> wprox w' rs f = wprox w rs f ->
  filter (fid_is f) (path w' rs) = filter (fid_is f) (path w rs) ->
  existsb (is_stop_of f) (path w' (other rs)) = existsb (is_stop_of f) (path w (other rs)) ->
  view_of w' rs f = view_of w rs f.
Proof. intros A B C D. unfold view_of. rewrite A, B, C, D. reflexivity. Qed.

Definition rfields (o : option proxy) := (s_rd (pS o), s_buf (pS o), s_sr (pS o), m_sw (pM o)).
Definition wfields (o : option proxy) := (m_buf (pM o), s_wr (pS o), m_sr (pM o), s_sw (pS o), s_fault (pS o)).

Lemma view_ext_fields w w' rs f :
  rfields (rprox w' rs f) = rfields (rprox w rs f) -> wfields (wprox w' rs f) = wfields (wprox w rs f) ->
  filter (fid_is f) (path w' rs) = filter (fid_is f) (path w rs) ->
  existsb (is_stop_of f) (path w' (other rs)) = existsb (is_stop_of f) (path w (other rs)) ->
  view_of w' rs f = view_of w rs f.
Proof.
  unfold rfields, wfields. intros A B C D. inversion A. inversion B. unfold view_of. congruence.
Qed.

Lemma flush_views w sd w' : step w (EvFlush sd) = Ok w' ->
  (forall rs, path w' rs = path w rs) /\ (forall s2 f, e_prox (get_end w' s2) f = e_prox (get_end w s2) f).
Proof.
  cbn [step]. destruct (x_out (e_mux (get_end w sd))) as [|fr rest] eqn:Eo.
  - intros [= <-]. auto.
  - intros [= <-]. split.
    + intros rs. unfold path, inlink. destruct sd, rs; cbn in *; rewrite ?Eo, <- ?app_assoc; reflexivity.
    + intros s2 f. destruct sd, s2; reflexivity.
Qed.

Lemma checkfull_views w sd w' : step w (EvCheckFull sd) = Ok w' ->
  (forall rs f, filter (fid_is f) (path w' rs) = filter (fid_is f) (path w rs) /\
                existsb (is_stop_of f) (path w' rs) = existsb (is_stop_of f) (path w rs)) /\
  (forall s2 f, e_prox (get_end w' s2) f = e_prox (get_end w s2) f) /\
  (forall rs, exists new, path w' rs = path w rs ++ new /\ Forall (fun fr => sf_fid fr = None /\ sf_cmd fr = CPing) new).
Proof.
  cbn [step]. intros [= <-].
  assert (H : forall rs, exists new, path (set_end w sd (set_mux (get_end w sd) (check_fullness (e_mux (get_end w sd)) (w_lbs w)))) rs
                                      = path w rs ++ new /\ Forall (fun fr => sf_fid fr = None /\ sf_cmd fr = CPing) new).
  { intros rs. unfold path, inlink, check_fullness.
    destruct (w_lbs w <? x_full (e_mux (get_end w sd))).
    - destruct (x_too_full (e_mux (get_end w sd))) eqn:Et.
      + exists []. rewrite app_nil_r. split; [destruct sd, rs; reflexivity|constructor].
      + destruct sd, rs; cbn.
        * exists [mkSF 0 CPing rttest None]. rewrite app_assoc. split; [reflexivity|]. constructor; [split; reflexivity|constructor].
        * exists []. rewrite app_nil_r. split; [reflexivity|constructor].
        * exists []. rewrite app_nil_r. split; [reflexivity|constructor].
        * exists [mkSF 0 CPing rttest None]. rewrite app_assoc. split; [reflexivity|]. constructor; [split; reflexivity|constructor].
    - exists []. rewrite app_nil_r. split; [destruct sd, rs; reflexivity|constructor]. }
  split; [|split].
  - intros rs f. destruct (H rs) as (new & -> & Hn).
    rewrite filter_app, existsb_app.
    destruct (none_frames_invisible _ f new Hn) as [E1 E2].
    rewrite E1, E2, app_nil_r, orb_false_r. auto.
  - intros s2 f. destruct sd, s2; reflexivity.
  - exact H.
Qed.

Lemma remove_views w sd g w' : step w (EvRemove sd g) = Ok w' ->
  (forall rs, path w' rs = path w rs) /\
  (forall s2 f, pS (e_prox (get_end w' s2) f) = pS (e_prox (get_end w s2) f) /\
                pM (e_prox (get_end w' s2) f) = pM (e_prox (get_end w s2) f) /\
                (e_prox (get_end w' s2) f = None <-> e_prox (get_end w s2) f = None)).
Proof.
  cbn [step]. destruct (e_prox (get_end w sd) g) as [p|] eqn:Ep; [|discriminate].
  destruct (negb (p_ok p) && live p); [|discriminate].
  intros [= <-]. split.
  - intros rs. unfold path, inlink. destruct sd, rs; reflexivity.
  - intros s2 f. destruct (side_eq_dec s2 sd) as [->|Hne].
    + rewrite get_set_end. cbn [set_prox e_prox]. unfold upd. destruct (N.eqb_spec f g) as [->|Hfg].
      * rewrite Ep. cbn. splits; auto. split; discriminate.
      * splits; auto; reflexivity.
    + assert (get_end (set_end w sd (set_prox (get_end w sd) g (mkProxy (p_ok p) true (p_s p) (p_m p)) (e_mux (get_end w sd)))) s2 = get_end w s2)
        by (destruct sd, s2; try reflexivity; contradiction).
      rewrite H. splits; auto; reflexivity.
Qed.

(* ---------------- one proxy acts (callback or pre_select) ---------------- *)
Section Act.
  Variables (w : world) (sd : side) (g : N) (p p' : proxy) (x' : mux) (new : list sframe).
  Hypothesis Hp : e_prox (get_end w sd) g = Some p.
  Hypothesis Hout : x_out x' = x_out (e_mux (get_end w sd)) ++ new.
  Hypothesis Hnew : Forall (flow_frame (m_chan (p_m p)) g) new.
  Hypothesis Hchan : m_chan (p_m p') = m_chan (p_m p).

  Definition w_act : world := set_end w sd (set_prox (get_end w sd) g p' x').

  Lemma act_path_same : path w_act sd = path w sd ++ new.
  Proof. unfold w_act, path, inlink. destruct sd; cbn; rewrite Hout, app_assoc; reflexivity. Qed.

  Lemma act_path_other : path w_act (other sd) = path w (other sd).
  Proof. unfold w_act, path, inlink. destruct sd; reflexivity. Qed.

  Lemma act_prox_same f : e_prox (get_end w_act sd) f = if f =? g then Some p' else e_prox (get_end w sd) f.
  Proof. unfold w_act. rewrite get_set_end. reflexivity. Qed.

  Lemma act_prox_other f : e_prox (get_end w_act (other sd)) f = e_prox (get_end w (other sd)) f.
  Proof. unfold w_act. destruct sd; reflexivity. Qed.

  Lemma other_other s : other (other s) = s.
  Proof. destruct s; reflexivity. Qed.

  (* views of other flows are untouched *)
  Lemma act_view_other rs f : f <> g -> view_of w_act rs f = view_of w rs f.
  Proof.
    intros Hn. assert (Eb : (f =? g) = false) by (apply N.eqb_neq; exact Hn).
    destruct (side_eq_dec rs sd) as [->|Hne].
    - apply view_ext.
      + unfold rprox. rewrite act_prox_same, Eb. reflexivity.
      + unfold wprox. apply act_prox_other.
      + rewrite act_path_same, filter_app, (filter_other _ _ _ _ Hnew Hn), app_nil_r. reflexivity.
      + rewrite act_path_other. reflexivity.
    - assert (Ers : rs = other sd) by (destruct rs, sd; try reflexivity; contradiction). subst rs.
      apply view_ext.
      + unfold rprox. apply act_prox_other.
      + unfold wprox. rewrite other_other, act_prox_same, Eb. reflexivity.
      + rewrite act_path_other. reflexivity.
      + rewrite other_other, act_path_same, existsb_app, (stops_other _ _ _ _ Hnew Hn), orb_false_r. reflexivity.
  Qed.

  (* the acting proxy in its reader role *)
  Lemma act_view_reader :
    view_of w_act sd g =
    mkView (s_rd (p_s p')) (s_buf (p_s p')) (vP (view_of w sd g) ++ new) (vY (view_of w sd g)) (vD (view_of w sd g))
           (s_sr (p_s p')) (m_sw (p_m p')) (vwmsr (view_of w sd g)) (vfz (view_of w sd g))
           (vstop (view_of w sd g)) (vwfault (view_of w sd g)).
  Proof.
    unfold view_of, rprox, wprox. rewrite act_prox_same, N.eqb_refl, act_prox_other, act_path_same, act_path_other.
    cbn [pS pM vP vY vD vwmsr vfz vstop vwfault]. rewrite filter_app, (filter_same _ _ _ Hnew). reflexivity.
  Qed.

  (* ... and in its writer role *)
  Lemma act_view_writer :
    view_of w_act (other sd) g =
    mkView (vA (view_of w (other sd) g)) (vX (view_of w (other sd) g)) (vP (view_of w (other sd) g))
           (m_buf (p_m p')) (s_wr (p_s p')) (vrsr (view_of w (other sd) g)) (vrmsw (view_of w (other sd) g))
           (m_sr (p_m p')) (s_sw (p_s p'))
           (vstop (view_of w (other sd) g) || existsb is_stop new) (s_fault (p_s p')).
  Proof.
    unfold view_of, rprox, wprox. rewrite other_other, act_prox_same, N.eqb_refl, act_prox_other, act_path_same, act_path_other.
    cbn [pS pM vA vX vP vrsr vrmsw vstop]. rewrite existsb_app.
    pose proof (stops_same _ _ _ Hnew) as E.
    rewrite E. reflexivity.
  Qed.

  Lemma act_old_reader : view_of w sd g =
    mkView (s_rd (p_s p)) (s_buf (p_s p)) (vP (view_of w sd g)) (vY (view_of w sd g)) (vD (view_of w sd g))
           (s_sr (p_s p)) (m_sw (p_m p)) (vwmsr (view_of w sd g)) (vfz (view_of w sd g))
           (vstop (view_of w sd g)) (vwfault (view_of w sd g)).
  Proof. unfold view_of, rprox. rewrite Hp. reflexivity. Qed.

  Lemma act_old_writer : view_of w (other sd) g =
    mkView (vA (view_of w (other sd) g)) (vX (view_of w (other sd) g)) (vP (view_of w (other sd) g))
           (m_buf (p_m p)) (s_wr (p_s p)) (vrsr (view_of w (other sd) g)) (vrmsw (view_of w (other sd) g))
           (m_sr (p_m p)) (s_sw (p_s p)) (vstop (view_of w (other sd) g)) (s_fault (p_s p)).
  Proof. unfold view_of, wprox. rewrite other_other, Hp. reflexivity. Qed.

End Act.

  (* the alignment invariant survives, provided the new frames are not CONNECTs (flow frames never are) *)
Lemma act_ALinv w sd g p p' x' new :
  e_prox (get_end w sd) g = Some p ->
  x_out x' = x_out (e_mux (get_end w sd)) ++ new ->
  Forall (flow_frame (m_chan (p_m p)) g) new ->
  m_chan (p_m p') = m_chan (p_m p) ->
  ALinv w -> ALinv (w_act w sd g p' x').
Proof.
    intros Hp Hout Hnew Hchan [A1 A2 A3 A4 A5 A6].
    pose proof (act_prox_same w sd g p' x') as act_prox_same.
    pose proof (act_path_same w sd g p p' x' new Hp Hout) as act_path_same.
    pose proof (act_path_other w sd g p p' x' new Hp Hout) as act_path_other.
    set (w_act := w_act w sd g p' x') in *.
    assert (Hcl : forall f, cl w_act f = None <-> cl w f = None).
    { intros f. unfold cl. destruct sd.
      - change (w_cl w_act) with (get_end w_act Client). rewrite act_prox_same.
        destruct (N.eqb_spec f g) as [->|]; [|reflexivity]. cbn in Hp. rewrite Hp. split; discriminate.
      - reflexivity. }
    assert (Hsv : forall f, sv w_act f = None <-> sv w f = None).
    { intros f. unfold sv. destruct sd.
      - reflexivity.
      - change (w_sv w_act) with (get_end w_act Server). rewrite act_prox_same.
        destruct (N.eqb_spec f g) as [->|]; [|reflexivity]. cbn in Hp. rewrite Hp. split; discriminate. }
    assert (Hclc : forall f q, cl w_act f = Some q -> exists q0, cl w f = Some q0 /\ m_chan (p_m q0) = m_chan (p_m q)).
    { intros f q. unfold cl. destruct sd.
      - change (w_cl w_act) with (get_end w_act Client). rewrite act_prox_same.
        destruct (N.eqb_spec f g) as [->|].
        + intros [= <-]. exists p. split; [exact Hp|symmetry; exact Hchan].
        + intros H. exists q. auto.
      - intros H. exists q. auto. }
    assert (Hsvc : forall f q, sv w_act f = Some q -> exists q0, sv w f = Some q0 /\ m_chan (p_m q0) = m_chan (p_m q)).
    { intros f q. unfold sv. destruct sd.
      - intros H. exists q. auto.
      - change (w_sv w_act) with (get_end w_act Server). rewrite act_prox_same.
        destruct (N.eqb_spec f g) as [->|].
        + intros [= <-]. exists p. split; [exact Hp|symmetry; exact Hchan].
        + intros H. exists q. auto. }
    assert (Hcl2 : forall f q0, cl w f = Some q0 -> exists q, cl w_act f = Some q /\ m_chan (p_m q) = m_chan (p_m q0)).
    { intros f q0. unfold cl. destruct sd.
      - change (w_cl w_act) with (get_end w_act Client). rewrite act_prox_same.
        destruct (N.eqb_spec f g) as [->|].
        + cbn in Hp. rewrite Hp. intros [= <-]. exists p'. auto.
        + intros H. exists q0. auto.
      - intros H. exists q0. auto. }
    assert (Hsv2 : forall f q0, sv w f = Some q0 -> exists q, sv w_act f = Some q /\ m_chan (p_m q) = m_chan (p_m q0)).
    { intros f q0. unfold sv. destruct sd.
      - intros H. exists q0. auto.
      - change (w_sv w_act) with (get_end w_act Server). rewrite act_prox_same.
        destruct (N.eqb_spec f g) as [->|].
        + cbn in Hp. rewrite Hp. intros [= <-]. exists p'. auto.
        + intros H. exists q0. auto. }
    assert (Hpath : forall s2, exists nw, path w_act s2 = path w s2 ++ nw /\
               Forall (fun fr => flow_frame (m_chan (p_m p)) g fr /\ s2 = sd) nw).
    { intros s2. destruct (side_eq_dec s2 sd) as [->|Hne].
      - exists new. split; [apply act_path_same|]. eapply Forall_impl; [|exact Hnew]. auto.
      - assert (s2 = other sd) by (destruct s2, sd; try reflexivity; contradiction). subst s2.
        exists []. rewrite app_nil_r. split; [apply act_path_other|constructor]. }
    constructor.
    - intros f q Hq. destruct (Hsvc f q Hq) as (q0 & Hq0 & Ec).
      destruct (A1 f q0 Hq0) as (c0 & Hc0 & Ec0). destruct (Hcl2 f c0 Hc0) as (c1 & Hc1 & Ec1).
      exists c1. split; [exact Hc1|congruence].
    - intros fr f Hin Hf. destruct (Hpath Client) as (nw & Epath & Hnw). rewrite Epath in Hin.
      apply in_app_or in Hin. destruct Hin as [Hin|Hin].
      + destruct (A2 fr f Hin Hf) as (q0 & Hq0 & Ec). destruct (Hcl2 f q0 Hq0) as (q & Hq & Ec1).
        exists q. split; [exact Hq|congruence].
      + rewrite Forall_forall in Hnw. destruct (Hnw fr Hin) as [(F1 & F2 & _) <-].
        rewrite F2 in Hf. inversion Hf; subst f.
        destruct (Hcl2 g p Hp) as (q & Hq & Ec1). exists q. split; [exact Hq|congruence].
    - intros fr f Hin Hf. destruct (Hpath Server) as (nw & Epath & Hnw). rewrite Epath in Hin.
      apply in_app_or in Hin. destruct Hin as [Hin|Hin].
      + destruct (A3 fr f Hin Hf) as (q0 & Hq0 & Ec). destruct (Hsv2 f q0 Hq0) as (q & Hq & Ec1).
        exists q. split; [exact Hq|congruence].
      + rewrite Forall_forall in Hnw. destruct (Hnw fr Hin) as [(F1 & F2 & _) <-].
        rewrite F2 in Hf. inversion Hf; subst f.
        destruct (Hsv2 g p Hp) as (q & Hq & Ec1). exists q. split; [exact Hq|congruence].
    - intros f q Hq Hs. destruct (Hclc f q Hq) as (q0 & Hq0 & _).
      destruct (A4 f q0 Hq0 (proj1 (Hsv f) Hs)) as (fr & rest & E & Ec).
      destruct (Hpath Client) as (nw & Epath & _). rewrite Epath, filter_app, E.
      exists fr, (rest ++ filter (fid_is f) nw). split; [reflexivity|exact Ec].
    - intros fr f Hin Hc Hf. apply Hsv. destruct (Hpath Client) as (nw & Epath & Hnw). rewrite Epath in Hin.
      apply in_app_or in Hin. destruct Hin as [Hin|Hin]; [apply (A5 fr f Hin Hc Hf)|].
      rewrite Forall_forall in Hnw. destruct (Hnw fr Hin) as [(_ & _ & [F|[[F _]|[F _]]]) _]; congruence.
    - destruct (Hpath Client) as (nw & Epath & Hnw). rewrite Epath, connect_fids_app.
      assert (E : connect_fids nw = []).
      { eapply (connect_fids_flow (m_chan (p_m p)) g). eapply Forall_impl; [|exact Hnw]. intros a [Ha _]. exact Ha. }
      rewrite E, app_nil_r. exact A6.
Qed.


Lemma flat_nil_of_nil (l : list bytes) : l = [] -> flat l = [].
Proof. intros ->. reflexivity. Qed.

Lemma no_eof_app_eof pre c g : no_eof pre ->
  has_eof (pre ++ [eof_frame c g]) = true /\ data_cat (pre ++ [eof_frame c g]) = data_cat pre /\
  dae false (pre ++ [eof_frame c g]) = [].
Proof.
  intros H. splits.
  - rewrite has_eof_app. cbn. apply orb_true_r.
  - rewrite data_cat_app. cbn. apply app_nil_r.
  - rewrite dae_app, (no_eof_dae _ H), (no_eof_has _ H). reflexivity.
Qed.

(* ---------------- Proxy.callback ---------------- *)
Lemma callback_views w sd g o w' : step w (EvCallback sd g o) = Ok w' ->
  (forall rs f, vstep (view_of w rs f) (view_of w' rs f)) /\ (ALinv w -> ALinv w') /\ w_stale w' = w_stale w.
Proof.
  cbn [step]. destruct (e_prox (get_end w sd) g) as [p|] eqn:Ep; [|discriminate].
  destruct (live p); [|discriminate].
  destruct (proxy_callback sd g p (e_mux (get_end w sd)) o) as [[p' x']|cr] eqn:Ecb; [|discriminate].
  intros [= <-]. pose proof (callback_spec _ _ _ _ _ _ _ Ecb) as F. destr_cb F.
  pose proof (me_out _ _ _ _ _ Fext) as Hout. pose proof (me_frames _ _ _ _ _ Fext) as Hnew.
  assert (Hchan : m_chan (p_m p') = m_chan (p_m p)) by apply Fmmono.
  fold (w_act w sd g p' x').
  split; [|split].
  - intros rs f. destruct (N.eq_dec f g) as [->|Hfg].
    2:{ rewrite (act_view_other w sd g p p' x' cbnew Ep Hout Hnew rs f Hfg). apply VS_same. }
    destruct (side_eq_dec rs sd) as [->|Hne].
    + (* reader role *)
      rewrite (act_view_reader w sd g p p' x' cbnew Ep Hout Hnew), (act_old_reader w sd g p Ep), Frd.
      set (v := mkView (s_rd (p_s p)) (s_buf (p_s p)) (vP (view_of w sd g)) (vY (view_of w sd g)) (vD (view_of w sd g))
                       (s_sr (p_s p)) (m_sw (p_m p)) (vwmsr (view_of w sd g)) (vfz (view_of w sd g))
                       (vstop (view_of w sd g)) (vwfault (view_of w sd g))).
      apply (VS_reader v cbr cbnew (s_buf (p_s p')) (s_sr (p_s p')) (m_sw (p_m p'))); cbn [v vrsr vrmsw vX].
      * exact Frdshut.
      * apply Fsmono.
      * apply Fmmono.
      * destruct Fs2m as [E|(A & B & C & D)]; [left; exact E|right].
        splits; auto. apply flat_nil_of_nil. exact B.
      * intros A B. destruct (Feof A B) as (E1 & E2 & pre & post & E3 & E4 & E5 & E6 & E7).
        splits; [apply flat_nil_of_nil; exact E1|exact E2|].
        destruct (no_eof_app_eof pre (m_chan (p_m p)) g E6) as (Q1 & Q2 & Q3).
        exists (pre ++ [eof_frame (m_chan (p_m p)) g]), post. splits; auto.
        -- rewrite E3, <- app_assoc. reflexivity.
        -- rewrite Q2. exact E5.
      * intros A. exact (Fnoeof A).
    + (* writer role *)
      assert (rs = other sd) by (destruct rs, sd; try reflexivity; contradiction). subst rs.
      rewrite (act_view_writer w sd g p p' x' cbnew Ep Hout Hnew), (act_old_writer w sd g p Ep), Fwr.
      set (v := mkView (vA (view_of w (other sd) g)) (vX (view_of w (other sd) g)) (vP (view_of w (other sd) g))
                       (m_buf (p_m p)) (s_wr (p_s p)) (vrsr (view_of w (other sd) g)) (vrmsw (view_of w (other sd) g))
                       (m_sr (p_m p)) (s_sw (p_s p)) (vstop (view_of w (other sd) g)) (s_fault (p_s p))).
      apply (VS_writer v cbd (m_buf (p_m p')) (s_sw (p_s p')) (m_sr (p_m p'))
                       (vstop (view_of w (other sd) g) || existsb is_stop cbnew) (s_fault (p_s p')));
        cbn [v vfz vwmsr vwfault vY vstop].
      * exact Fwrshut.
      * apply Fsmono.
      * apply Fmmono.
      * apply Fsmono.
      * destruct Fm2s as [E|(A & B & C)]; [left; exact E|right].
        splits; auto. apply flat_nil_of_nil. exact B.
      * exact Fstop.
      * intros H. apply orb_true_iff in H. destruct H as [H|H]; [left; exact H|right].
        apply Fstopf. apply existsb_exists in H. destruct H as (fr & Hin & Hs).
        exists fr. split; [exact Hin|]. unfold is_stop in Hs. destruct (sf_cmd fr); try discriminate. reflexivity.
      * intros A B. destruct (Fshut A B) as [C|(C1 & C2 & C3)]; [left; exact C|right].
        splits; auto. apply flat_nil_of_nil. exact C3.
      * intros H. apply orb_true_iff in H. destruct H as [H|H]; [left; exact H|right].
        apply Fstopsr. apply existsb_exists in H. destruct H as (fr & Hin & Hs).
        exists fr. split; [exact Hin|]. unfold is_stop in Hs. destruct (sf_cmd fr); try discriminate. reflexivity.
      * intros H. rewrite H. reflexivity.
      * intros A B. destruct (Fsrstop A B) as (fr & Hin & Hc). apply orb_true_iff. right.
        apply existsb_exists. exists fr. split; [exact Hin|]. unfold is_stop. rewrite Hc. reflexivity.
  - apply (act_ALinv w sd g p p' x' cbnew Ep Hout Hnew Hchan).
  - destruct sd; reflexivity.
Qed.

Lemma vstep_eq v a b : a = b -> vstep v a -> vstep v b.
Proof. intros ->. auto. Qed.

(* ---------------- Proxy.pre_select ---------------- *)
Lemma preselect_views w sd g w' : step w (EvPreSelect sd g) = Ok w' ->
  (forall rs f, vstep (view_of w rs f) (view_of w' rs f)) /\ (ALinv w -> ALinv w') /\ w_stale w' = w_stale w.
Proof.
  cbn [step]. destruct (e_prox (get_end w sd) g) as [p|] eqn:Ep; [|discriminate].
  destruct (live p); [|discriminate].
  pose proof (pre_select_spec sd g p (e_mux (get_end w sd))) as F.
  destruct (proxy_pre_select sd g p (e_mux (get_end w sd))) as [[p' x'] ws].
  destruct F as (sn & Fext & Fcc & Fmm & Esn & Emsr & Emsw & Embuf & (Sb & Srd & Swr) & Esr & Esw & Eft & Ecn & _ & _).
  intros [= <-].
  pose proof (me_out _ _ _ _ _ Fext) as Hout. pose proof (me_frames _ _ _ _ _ Fext) as Hnew.
  assert (Hchan : m_chan (p_m p') = m_chan (p_m p)) by apply Fmm.
  assert (Hsn : data_cat sn = [] /\ no_eof sn /\ (existsb is_stop sn = true -> s_sw (p_s p) = true)).
  { subst sn. destruct (s_sw (p_s p)) eqn:E1; [destruct (m_sr (p_m p)) eqn:E2|].
    - splits; [reflexivity|intros fr []|reflexivity].
    - splits; [reflexivity| |reflexivity]. intros fr [<-|[]]. discriminate.
    - splits; [reflexivity|intros fr []|discriminate]. }
  destruct Hsn as (Hdc & Hne & Hst).
  fold (w_act w sd g p' x').
  split; [|split].
  - intros rs f. destruct (N.eq_dec f g) as [->|Hfg].
    2:{ rewrite (act_view_other w sd g p p' x' sn Ep Hout Hnew rs f Hfg). apply VS_same. }
    destruct (side_eq_dec rs sd) as [->|Hne2].
    + rewrite (act_view_reader w sd g p p' x' sn Ep Hout Hnew), (act_old_reader w sd g p Ep), Srd, Sb, Emsw.
      set (v := mkView (s_rd (p_s p)) (s_buf (p_s p)) (vP (view_of w sd g)) (vY (view_of w sd g)) (vD (view_of w sd g))
                       (s_sr (p_s p)) (m_sw (p_m p)) (vwmsr (view_of w sd g)) (vfz (view_of w sd g))
                       (vstop (view_of w sd g)) (vwfault (view_of w sd g))).
      eapply vstep_eq; [|apply (VS_reader v [] sn (s_buf (p_s p)) (s_sr (p_s p')) (m_sw (p_m p)))];
        [cbn [v vA vX vP vY vD vrsr vrmsw vwmsr vfz vstop vwfault]; rewrite app_nil_r; reflexivity| | | | | |];
        cbn [v vrsr vrmsw vX].
      * reflexivity.
      * intros H. rewrite Esr, H. reflexivity.
      * auto.
      * left. rewrite Hdc, app_nil_r. reflexivity.
      * intros A B. congruence.
      * intros _. exact Hne.
    + assert (rs = other sd) by (destruct rs, sd; try reflexivity; contradiction). subst rs.
      rewrite (act_view_writer w sd g p p' x' sn Ep Hout Hnew), (act_old_writer w sd g p Ep), Swr, Embuf, Esw, Eft.
      set (v := mkView (vA (view_of w (other sd) g)) (vX (view_of w (other sd) g)) (vP (view_of w (other sd) g))
                       (m_buf (p_m p)) (s_wr (p_s p)) (vrsr (view_of w (other sd) g)) (vrmsw (view_of w (other sd) g))
                       (m_sr (p_m p)) (s_sw (p_s p)) (vstop (view_of w (other sd) g)) (s_fault (p_s p))).
      eapply vstep_eq; [|apply (VS_writer v [] (m_buf (p_m p)) (s_sw (p_s p)) (m_sr (p_m p'))
                       (vstop (view_of w (other sd) g) || existsb is_stop sn) (s_fault (p_s p)))];
        [cbn [v vA vX vP vY vD vrsr vrmsw vwmsr vfz vstop vwfault]; rewrite app_nil_r; reflexivity| | | | | | | | | | |];
        cbn [v vfz vwmsr vwfault vY vstop]; auto.
      * intros H. rewrite Emsr, H. reflexivity.
      * intros A B. rewrite Emsr, A in B. exact B.
      * intros H. apply orb_true_iff in H. destruct H as [H|H]; [left; exact H|right; exact (Hst H)].
      * intros A B. congruence.
      * intros H. apply orb_true_iff in H. destruct H as [H|H]; [left; exact H|right].
        rewrite Emsr, (Hst H). apply orb_true_r.
      * intros H. rewrite H. reflexivity.
      * intros A B. rewrite Emsr, A in B. cbn [orb] in B. rewrite Esn, B, A. cbn. apply orb_true_r.
  - apply (act_ALinv w sd g p p' x' sn Ep Hout Hnew Hchan).
  - destruct sd; reflexivity.
Qed.

Lemma NoDup_app_one {A} (l : list A) (a : A) : NoDup l -> ~ In a l -> NoDup (l ++ [a]).
Proof.
  induction 1 as [|b l Hb Hl IH]; intros Ha.
  - constructor; [intros []|constructor].
  - cbn. constructor.
    + intros Hin. apply in_app_or in Hin. destruct Hin as [Hin|[<-|[]]]; [contradiction|]. apply Ha. left. reflexivity.
    + apply IH. intros Hin. apply Ha. right. exact Hin.
Qed.

(* ---------------- client.onaccept_tcp ---------------- *)
Lemma accept_views w payload w' : step w (EvAccept payload) = Ok w' ->
  Rinv (w_cl w) -> ALinv w ->
  (forall rs f, vstep (view_of w rs f) (view_of w' rs f)) /\ ALinv w' /\ w_stale w' = w_stale w.
Proof.
  cbn [step]. intros [= <-] R AL. unfold client_accept.
  destruct (next_channel (w_maxc w) (occ (e_mux (w_cl w))) (x_chani (e_mux (w_cl w)))) as [r chani'] eqn:En.
  destruct r as [c|].
  2:{ (* no identifier free: only the cursor moves *)
      split; [|split; [|reflexivity]].
      - intros rs f. match goal with |- vstep _ (view_of ?W _ _) => rewrite (view_ext W w rs f) end;
          [apply VS_same| | | |]; destruct rs; reflexivity.
      - destruct AL as [A1 A2 A3 A4 A5 A6]. constructor; auto. }
  set (g := e_next (w_cl w)).
  set (fr0 := mkSF c CConnect payload (Some g)).
  set (np := mkProxy true false (new_sock false) (new_muxw c)).
  match goal with |- (forall rs f, vstep _ (view_of ?W rs f)) /\ _ => set (w1 := W) end.
  assert (Hfresh : cl w g = None).
  { unfold cl. destruct (e_prox (w_cl w) g) as [q|] eqn:E; [|reflexivity].
    pose proof (r_fresh _ R g q E). unfold g in *. lia. }
  assert (Hpc : path w1 Client = path w Client ++ [fr0]).
  { unfold w1, path, inlink. cbn. rewrite app_assoc. reflexivity. }
  assert (Hps : path w1 Server = path w Server) by reflexivity.
  assert (Hclp : forall f, cl w1 f = if f =? g then Some np else cl w f) by (intros f; reflexivity).
  assert (Hsvp : forall f, sv w1 f = sv w f) by (intros f; reflexivity).
  destruct AL as [A1 A2 A3 A4 A5 A6].
  assert (Hnog : filter (fid_is g) (path w Client) = []).
  { destruct (filter (fid_is g) (path w Client)) as [|fr rest] eqn:E; [reflexivity|].
    assert (Hin : In fr (filter (fid_is g) (path w Client))) by (rewrite E; left; reflexivity).
    apply filter_In in Hin. destruct Hin as [Hin Hf]. unfold fid_is, same_fid in Hf.
    destruct (sf_fid fr) as [h|] eqn:Eh; [|discriminate]. apply N.eqb_eq in Hf. subst h.
    destruct (A2 fr g Hin Eh) as (q & Hq & _). congruence. }
  assert (Hsvg : sv w g = None).
  { destruct (sv w g) as [q|] eqn:E; [|reflexivity]. destruct (A1 g q E) as (q0 & Hq0 & _). congruence. }
  split; [|split; [|reflexivity]].
  - intros rs f. destruct (N.eq_dec f g) as [->|Hfg].
    + destruct rs.
      * (* reader view of the new flow: the CONNECT joins its path *)
        assert (E : view_of w1 Client g =
                    mkView (vA (view_of w Client g) ++ []) (vX (view_of w Client g)) (vP (view_of w Client g) ++ [fr0])
                           (vY (view_of w Client g)) (vD (view_of w Client g)) (vrsr (view_of w Client g))
                           (vrmsw (view_of w Client g)) (vwmsr (view_of w Client g)) (vfz (view_of w Client g))
                           (vstop (view_of w Client g)) (vwfault (view_of w Client g))).
        { unfold view_of, rprox, wprox. cbn [get_end other].
          change (e_prox (w_cl w1) g) with (cl w1 g). change (e_prox (w_cl w) g) with (cl w g).
          change (e_prox (w_sv w1) g) with (sv w1 g). change (e_prox (w_sv w) g) with (sv w g).
          rewrite Hclp, N.eqb_refl, Hfresh, Hsvp, Hpc, Hps, filter_app, app_nil_r.
          cbn [filter fid_is same_fid sf_fid fr0]. rewrite N.eqb_refl. reflexivity. }
        rewrite E. apply VS_reader.
        -- reflexivity.
        -- auto.
        -- auto.
        -- left. cbn. rewrite app_nil_r. reflexivity.
        -- intros X Y. congruence.
        -- intros _ fr [<-|[]]. discriminate.
      * rewrite (view_ext_fields w w1 Server g); [apply VS_same| | | |].
        -- reflexivity.
        -- unfold wprox. cbn [get_end other]. change (e_prox (w_cl w1) g) with (cl w1 g).
           change (e_prox (w_cl w) g) with (cl w g). rewrite Hclp, N.eqb_refl, Hfresh.
           (* the new proxy has exactly the default fields *) 
           reflexivity.
        -- rewrite Hps. reflexivity.
        -- cbn [other]. rewrite Hpc, existsb_app. cbn. rewrite orb_false_r.
           unfold is_stop_of, is_stop. cbn. rewrite andb_false_r, ?orb_false_r. reflexivity.
    + assert (Eb : (f =? g) = false) by (apply N.eqb_neq; exact Hfg).
      rewrite (view_ext w1 w rs f); [apply VS_same| | | |].
      * unfold rprox. destruct rs; cbn [get_end]; [|reflexivity].
        change (e_prox (w_cl w1) f) with (cl w1 f). rewrite Hclp, Eb. reflexivity.
      * unfold wprox. destruct rs; cbn [get_end other]; [reflexivity|].
        change (e_prox (w_cl w1) f) with (cl w1 f). rewrite Hclp, Eb. reflexivity.
      * destruct rs; [|rewrite Hps; reflexivity]. rewrite Hpc, filter_app. cbn [filter fid_is same_fid sf_fid fr0].
        rewrite N.eqb_sym, Eb, app_nil_r. reflexivity.
      * destruct rs; cbn [other]; [rewrite Hps; reflexivity|].
        rewrite Hpc, existsb_app. cbn. unfold is_stop_of, is_stop. cbn. rewrite andb_false_r, ?orb_false_r. reflexivity.
  - constructor.
    + intros f p Hp. rewrite Hsvp in Hp. destruct (A1 f p Hp) as (q & Hq & Ec).
      exists q. split; [|exact Ec]. rewrite Hclp. destruct (N.eqb_spec f g) as [->|]; [congruence|exact Hq].
    + intros fr f Hin Hf. rewrite Hpc in Hin. apply in_app_or in Hin. destruct Hin as [Hin|[<-|[]]].
      * destruct (A2 fr f Hin Hf) as (q & Hq & Ec). exists q. split; [|exact Ec].
        rewrite Hclp. destruct (N.eqb_spec f g) as [->|]; [congruence|exact Hq].
      * cbn in Hf. inversion Hf; subst f. exists np. rewrite Hclp, N.eqb_refl. auto.
    + intros fr f Hin Hf. rewrite Hps in Hin. destruct (A3 fr f Hin Hf) as (q & Hq & Ec).
      exists q. rewrite Hsvp. auto.
    + intros f q Hq Hs. rewrite Hsvp in Hs. rewrite Hclp in Hq. rewrite Hpc, filter_app.
      destruct (N.eqb_spec f g) as [->|Hfg].
      * rewrite Hnog. cbn [filter fid_is same_fid sf_fid fr0 app]. rewrite N.eqb_refl.
        exists fr0, []. auto.
      * destruct (A4 f q Hq Hs) as (fr & rest & E & Ec). rewrite E.
        exists fr, (rest ++ filter (fid_is f) [fr0]). auto.
    + intros fr f Hin Hc Hf. rewrite Hsvp. rewrite Hpc in Hin. apply in_app_or in Hin.
      destruct Hin as [Hin|[<-|[]]]; [apply (A5 fr f Hin Hc Hf)|].
      cbn in Hf. inversion Hf; subst f. exact Hsvg.
    + rewrite Hpc, connect_fids_app. cbn. apply NoDup_app_one; [exact A6|].
      intros Hin. unfold connect_fids in Hin. apply in_map_iff in Hin. destruct Hin as (fr & Hf & Hin).
      apply filter_In in Hin. destruct Hin as [Hin _]. destruct (A2 fr g Hin Hf) as (q & Hq & _). congruence.
Qed.

(* ---------------- Mux.handle dispatches one frame ---------------- *)
Lemma deliver_shape w sd o w' fr rest : step w (EvDeliver sd o) = Ok w' ->
  inlink w (other sd) = fr :: rest ->
  exists e' st, mux_got_packet sd (get_end w sd) fr o = Ok (e', st) /\
    get_end w' sd = e' /\ get_end w' (other sd) = get_end w (other sd) /\
    inlink w' (other sd) = rest /\ inlink w' sd = inlink w sd /\ w_stale w' = (w_stale w || st).
Proof.
  cbn [step]. intros Hs Hl.
  assert (E : match sd with Client => w_sc w | Server => w_cs w end = fr :: rest) by (destruct sd; exact Hl).
  rewrite E in Hs.
  destruct (mux_got_packet sd (get_end w sd) fr o) as [[e' st]|cr]; [|discriminate].
  inversion Hs; subst w'. exists e', st. destruct sd; cbn; splits; reflexivity.
Qed.

Lemma deliver_empty w sd o w' : step w (EvDeliver sd o) = Ok w' -> inlink w (other sd) = [] -> w' = w.
Proof.
  cbn [step]. intros Hs Hl.
  assert (E : match sd with Client => w_sc w | Server => w_cs w end = []) by (destruct sd; exact Hl).
  rewrite E in Hs. inversion Hs. reflexivity.
Qed.

(* views when only the head frame of one path disappears, the receiving end's
   queue grows by frames without flow number, and no wrapper field changes *)
Lemma not_stop_of f fr : sf_cmd fr <> CStop -> is_stop_of f fr = false.
Proof. intros H. unfold is_stop_of, is_stop. destruct (sf_cmd fr); try apply andb_false_r. congruence. Qed.

Lemma pop_views w w' sd fr tl nw :
  path w (other sd) = fr :: tl -> path w' (other sd) = tl ->
  path w' sd = path w sd ++ nw -> Forall (fun a => sf_fid a = None /\ True) nw ->
  (forall s2 f, rfields (e_prox (get_end w' s2) f) = rfields (e_prox (get_end w s2) f) /\
                wfields (e_prox (get_end w' s2) f) = wfields (e_prox (get_end w s2) f)) ->
  sf_cmd fr <> CData -> sf_cmd fr <> CEof -> sf_cmd fr <> CStop ->
  forall rs f, vstep (view_of w rs f) (view_of w' rs f).
Proof.
  intros Hp Hp' Hq Hnw Hf C1 C2 C3 rs f.
  destruct (none_frames_invisible _ f nw Hnw) as [N1 N2].
  destruct (side_eq_dec rs sd) as [->|Hne].
  - (* reader end = receiving end: its path grows invisibly, the stops it looks at lose a non-stop *)
    rewrite (view_ext_fields w w' sd f); [apply VS_same| | | |].
    + apply Hf.
    + apply Hf.
    + rewrite Hq, filter_app, N1, app_nil_r. reflexivity.
    + rewrite Hp, Hp'. cbn [existsb]. rewrite (not_stop_of f fr C3). reflexivity.
  - assert (rs = other sd) by (destruct rs, sd; try reflexivity; contradiction). subst rs.
    destruct (fid_is f fr) eqn:Ef.
    + assert (E : view_of w' (other sd) f =
        mkView (vA (view_of w (other sd) f)) (vX (view_of w (other sd) f)) (filter (fid_is f) tl)
               (vY (view_of w (other sd) f)) (vD (view_of w (other sd) f)) (vrsr (view_of w (other sd) f))
               (vrmsw (view_of w (other sd) f)) (vwmsr (view_of w (other sd) f)) (vfz (view_of w (other sd) f))
               (vstop (view_of w (other sd) f)) (vwfault (view_of w (other sd) f))).
      { unfold view_of, rprox, wprox. rewrite oth_oth.
        destruct (Hf (other sd) f) as [R1 _]. destruct (Hf sd f) as [_ W1].
        unfold rfields, wfields in *. inversion R1. inversion W1.
        rewrite Hp', Hq, existsb_app, N2, orb_false_r. cbn [vA vX vY vD vrsr vrmsw vwmsr vfz vstop vwfault]. congruence. }
      rewrite E. apply (VS_pop_other _ fr); auto.
      unfold view_of. cbn [vP]. rewrite Hp. cbn [filter]. rewrite Ef. reflexivity.
    + rewrite (view_ext_fields w w' (other sd) f); [apply VS_same| | | |].
      * apply Hf.
      * apply Hf.
      * rewrite Hp, Hp'. cbn [filter]. rewrite Ef. reflexivity.
      * rewrite oth_oth, Hq, existsb_app, N2, orb_false_r. reflexivity.
Qed.

(* a DATA / EOF / STOP frame is dropped: no wrapper is registered for its channel *)
Lemma drop_views w w' sd fr tl :
  path w (other sd) = fr :: tl -> path w' (other sd) = tl -> path w' sd = path w sd ->
  (forall s2 f, e_prox (get_end w' s2) f = e_prox (get_end w s2) f) ->
  (forall f, fid_is f fr = true -> sf_cmd fr <> CStop -> vwmsr (view_of w (other sd) f) = true) ->
  (forall f, fid_is f fr = true -> sf_cmd fr = CStop -> vrmsw (view_of w sd f) = true) ->
  forall rs f, vstep (view_of w rs f) (view_of w' rs f).
Proof.
  intros Hp Hp' Hq Hf Hclosed Hclosed2 rs f.
  destruct (side_eq_dec rs sd) as [->|Hne].
  - assert (E : view_of w' sd f =
      mkView (vA (view_of w sd f)) (vX (view_of w sd f)) (vP (view_of w sd f)) (vY (view_of w sd f)) (vD (view_of w sd f))
             (vrsr (view_of w sd f)) (vrmsw (view_of w sd f)) (vwmsr (view_of w sd f)) (vfz (view_of w sd f))
             (existsb (is_stop_of f) tl) (vwfault (view_of w sd f))).
    { unfold view_of, rprox, wprox. rewrite !Hf, Hq, Hp'. reflexivity. }
    assert (Est : vstop (view_of w sd f) = (is_stop_of f fr || existsb (is_stop_of f) tl))
      by (unfold view_of; cbn [vstop]; rewrite Hp; reflexivity).
    rewrite E. apply VS_stop_gone.
    + rewrite Est. intros H. rewrite H. apply orb_true_r.
    + rewrite Est. intros H1 H2. rewrite H2, orb_false_r in H1. unfold is_stop_of in H1.
      apply andb_true_iff in H1. destruct H1 as [H1 H3]. apply Hclosed2; [exact H1|].
      unfold is_stop in H3. destruct (sf_cmd fr); try discriminate. reflexivity.
  - assert (rs = other sd) by (destruct rs, sd; try reflexivity; contradiction). subst rs.
    destruct (fid_is f fr) eqn:Ef.
    + assert (E : view_of w' (other sd) f =
        mkView (vA (view_of w (other sd) f)) (vX (view_of w (other sd) f)) (filter (fid_is f) tl)
               (vY (view_of w (other sd) f)) (vD (view_of w (other sd) f)) (vrsr (view_of w (other sd) f))
               (vrmsw (view_of w (other sd) f)) (vwmsr (view_of w (other sd) f)) (vfz (view_of w (other sd) f))
               (vstop (view_of w (other sd) f)) (vwfault (view_of w (other sd) f))).
      { unfold view_of, rprox, wprox. rewrite oth_oth, !Hf, Hq, Hp'. reflexivity. }
      assert (EP : vP (view_of w (other sd) f) = fr :: filter (fid_is f) tl).
      { unfold view_of. cbn [vP]. rewrite Hp. cbn [filter]. rewrite Ef. reflexivity. }
      rewrite E. destruct (sf_cmd fr) eqn:Ec.
      1,2,3,4,7: apply (VS_pop_other _ fr); auto; congruence.
      * apply (VS_pop_drop _ fr); auto. apply Hclosed; [exact Ef|congruence].
      * apply (VS_pop_drop _ fr); auto. apply Hclosed; [exact Ef|congruence].
    + rewrite (view_ext w w' (other sd) f); [apply VS_same| | | |].
      * unfold rprox. apply Hf.
      * unfold wprox. apply Hf.
      * rewrite Hp, Hp'. cbn [filter]. rewrite Ef. reflexivity.
      * rewrite oth_oth, Hq. reflexivity.
Qed.

(* a frame of flow g is handed to the wrapper of flow g at end sd, which only changes its muxw *)
Lemma handed_views w w' sd fr tl g p m' :
  path w (other sd) = fr :: tl -> path w' (other sd) = tl -> path w' sd = path w sd ->
  sf_fid fr = Some g ->
  e_prox (get_end w sd) g = Some p ->
  (forall f, e_prox (get_end w' sd) f = if f =? g then Some (mkProxy (p_ok p) (p_removed p) (p_s p) m') else e_prox (get_end w sd) f) ->
  (forall f, e_prox (get_end w' (other sd)) f = e_prox (get_end w (other sd)) f) ->
  (sf_cmd fr = CData /\ m' = mkMuxw (m_chan (p_m p)) (m_sr (p_m p)) (m_sw (p_m p)) (m_buf (p_m p) ++ [sf_data fr])) \/
  (sf_cmd fr = CEof /\ m_sr m' = true /\ m_sw m' = m_sw (p_m p) /\ m_buf m' = m_buf (p_m p)) \/
  (sf_cmd fr = CStop /\ m_sw m' = true /\ m_sr m' = m_sr (p_m p) /\ m_buf m' = m_buf (p_m p)) ->
  forall rs f, vstep (view_of w rs f) (view_of w' rs f).
Proof.
  intros Hp Hp' Hq Hfid Hpg Hsd Hoth Hcase rs f.
  assert (Efr : fid_is g fr = true) by (unfold fid_is; rewrite Hfid; cbn; apply N.eqb_refl).
  destruct (N.eq_dec f g) as [->|Hfg].
  2:{ assert (Eb : (f =? g) = false) by (apply N.eqb_neq; exact Hfg).
      assert (Ef : fid_is f fr = false) by (unfold fid_is; rewrite Hfid; cbn; apply N.eqb_neq; congruence).
      rewrite (view_ext w w' rs f); [apply VS_same| | | |].
      - unfold rprox. destruct (side_eq_dec rs sd) as [->|Hne]; [rewrite Hsd, Eb; reflexivity|].
        assert (rs = other sd) by (destruct rs, sd; try reflexivity; contradiction). subst rs. apply Hoth.
      - unfold wprox. destruct (side_eq_dec rs sd) as [->|Hne]; [apply Hoth|].
        assert (rs = other sd) by (destruct rs, sd; try reflexivity; contradiction). subst rs.
        rewrite oth_oth, Hsd, Eb. reflexivity.
      - destruct (side_eq_dec rs sd) as [->|Hne]; [rewrite Hq; reflexivity|].
        assert (rs = other sd) by (destruct rs, sd; try reflexivity; contradiction). subst rs.
        rewrite Hp, Hp'. cbn [filter]. rewrite Ef. reflexivity.
      - destruct (side_eq_dec rs sd) as [->|Hne].
        + assert (Es : is_stop_of f fr = false) by (unfold is_stop_of; rewrite Ef; reflexivity).
          rewrite Hp, Hp'. cbn [existsb]. rewrite Es. reflexivity.
        + assert (rs = other sd) by (destruct rs, sd; try reflexivity; contradiction). subst rs.
          rewrite oth_oth, Hq. reflexivity. }
  destruct (side_eq_dec rs sd) as [->|Hne].
  - (* reader role of the receiving proxy: only rmsw and the stop flag can change *)
    assert (E : view_of w' sd g =
      mkView (vA (view_of w sd g)) (vX (view_of w sd g)) (vP (view_of w sd g)) (vY (view_of w sd g)) (vD (view_of w sd g))
             (vrsr (view_of w sd g)) (m_sw m') (vwmsr (view_of w sd g)) (vfz (view_of w sd g))
             (existsb (is_stop_of g) tl) (vwfault (view_of w sd g))).
    { unfold view_of, rprox, wprox. rewrite Hsd, N.eqb_refl, Hoth, Hq, Hp', Hpg. reflexivity. }
    assert (Eold : vrmsw (view_of w sd g) = m_sw (p_m p) /\
                   vstop (view_of w sd g) = (is_stop fr || existsb (is_stop_of g) tl)).
    { unfold view_of, rprox. cbn [vrmsw vstop]. rewrite Hpg, Hp. cbn [existsb pM]. unfold is_stop_of at 1.
      rewrite Efr. auto. }
    destruct Eold as [Eo1 Eo2].
    rewrite E. destruct Hcase as [(Hc & ->)|[(Hc & A & B & C)|(Hc & A & B & C)]].
    + cbn [m_sw]. rewrite <- Eo1.
      apply VS_stop_gone; rewrite Eo2; [intros H; rewrite H; apply orb_true_r|].
      intros H1 H2. rewrite H2 in H1. unfold is_stop in H1. rewrite Hc in H1. discriminate.
    + rewrite B, <- Eo1. apply VS_stop_gone; rewrite Eo2; [intros H; rewrite H; apply orb_true_r|].
      intros H1 H2. rewrite H2 in H1. unfold is_stop in H1. rewrite Hc in H1. discriminate.
    + rewrite A. apply VS_stop_rcvd.
      * rewrite Eo2. unfold is_stop. rewrite Hc. reflexivity.
      * rewrite Eo2. intros H. rewrite H. apply orb_true_r.
  - assert (rs = other sd) by (destruct rs, sd; try reflexivity; contradiction). subst rs.
    assert (E : view_of w' (other sd) g =
      mkView (vA (view_of w (other sd) g)) (vX (view_of w (other sd) g)) (filter (fid_is g) tl)
             (m_buf m') (vD (view_of w (other sd) g)) (vrsr (view_of w (other sd) g))
             (vrmsw (view_of w (other sd) g)) (m_sr m') (vfz (view_of w (other sd) g))
             (vstop (view_of w (other sd) g)) (vwfault (view_of w (other sd) g))).
    { unfold view_of, rprox, wprox. rewrite oth_oth, Hsd, N.eqb_refl, Hoth, Hq, Hp', Hpg. reflexivity. }
    assert (Eold : vP (view_of w (other sd) g) = fr :: filter (fid_is g) tl /\
                   vY (view_of w (other sd) g) = m_buf (p_m p) /\ vwmsr (view_of w (other sd) g) = m_sr (p_m p)).
    { unfold view_of, wprox. cbn [vP vY vwmsr]. rewrite oth_oth, Hpg, Hp. cbn [filter pM]. rewrite Efr. auto. }
    destruct Eold as (Eo1 & Eo2 & Eo3).
    rewrite E. destruct Hcase as [(Hc & ->)|[(Hc & A & B & C)|(Hc & A & B & C)]].
    + cbn [m_buf m_sr]. rewrite <- Eo2, <- Eo3. apply (VS_pop_data _ fr); auto.
    + rewrite A, C, <- Eo2. apply (VS_pop_eof _ fr); auto.
    + rewrite B, C, <- Eo2, <- Eo3. apply (VS_pop_other _ fr); auto; congruence.
Qed.

(* the server handles CONNECT of flow g: the frame leaves the path and the server end is created *)
Lemma connect_views w w' fr tl g c s :
  path w Client = fr :: tl -> path w' Client = tl -> path w' Server = path w Server ->
  sf_fid fr = Some g -> sf_cmd fr = CConnect ->
  sv w g = None ->
  (forall f, sv w' f = if f =? g then Some (mkProxy true false s (new_muxw c)) else sv w f) ->
  (forall f, cl w' f = cl w f) ->
  same_data (new_sock true) s -> (s_sw s = true -> s_fault s = true) ->
  forall rs f, vstep2 (view_of w rs f) (view_of w' rs f).
Proof.
  intros Hp Hp' Hq Hfid Hcmd Hnone Hsv Hcl (Sb & Srd & Swr) Hfault rs f.
  assert (Efr : fid_is g fr = true) by (unfold fid_is; rewrite Hfid; cbn; apply N.eqb_refl).
  assert (Ens : forall h, is_stop_of h fr = false) by (intros h; apply not_stop_of; congruence).
  destruct (N.eq_dec f g) as [->|Hfg].
  2:{ apply vstep2_one.
      assert (Eb : (f =? g) = false) by (apply N.eqb_neq; exact Hfg).
      assert (Ef : fid_is f fr = false) by (unfold fid_is; rewrite Hfid; cbn; apply N.eqb_neq; congruence).
      rewrite (view_ext w w' rs f); [apply VS_same| | | |].
      - unfold rprox. destruct rs; cbn [get_end]; [apply Hcl|]. change (e_prox (w_sv w') f) with (sv w' f).
        rewrite Hsv, Eb. reflexivity.
      - unfold wprox. destruct rs; cbn [get_end other]; [|apply Hcl]. change (e_prox (w_sv w') f) with (sv w' f).
        rewrite Hsv, Eb. reflexivity.
      - destruct rs; [|rewrite Hq; reflexivity]. rewrite Hp, Hp'. cbn [filter]. rewrite Ef. reflexivity.
      - destruct rs; cbn [other]; [rewrite Hq; reflexivity|]. rewrite Hp, Hp'. cbn [existsb]. rewrite Ens. reflexivity. }
  destruct rs.
  - (* direction client -> server: CONNECT leaves, the writer end appears *)
    set (v := view_of w Client g).
    set (v1 := mkView (vA v) (vX v) (filter (fid_is g) tl) (vY v) (vD v) (vrsr v) (vrmsw v) (vwmsr v) (vfz v) (vstop v) (vwfault v)).
    exists v1. split.
    + apply (VS_pop_other v fr); [|congruence|congruence].
      unfold v, view_of. cbn [vP]. rewrite Hp. cbn [filter]. rewrite Efr. reflexivity.
    + assert (Eold : vY v = [] /\ vD v = [] /\ vwmsr v = false /\ vfz v = false /\ vwfault v = false).
      { unfold v, view_of, wprox. cbn [get_end other vY vD vwmsr vfz vwfault].
        change (e_prox (w_sv w) g) with (sv w g). rewrite Hnone. cbn. auto. }
      destruct Eold as (O1 & O2 & O3 & O4 & O5).
      eapply vstep_eq; [|apply (VS_writer v1 [] [] (s_sw s) false (vstop v) (s_fault s))];
        cbn [v1 vA vX vP vY vD vrsr vrmsw vwmsr vfz vstop vwfault].
      * unfold v, view_of, rprox, wprox. cbn [get_end other].
        change (e_prox (w_sv w') g) with (sv w' g). change (e_prox (w_cl w') g) with (cl w' g).
        change (e_prox (w_sv w) g) with (sv w g). change (e_prox (w_cl w) g) with (cl w g).
        rewrite Hsv, N.eqb_refl, Hcl, Hp', Hq, Hnone. cbn [pS pM p_s p_m new_muxw m_buf m_sr vA vX vP vY vD vrsr vrmsw vwmsr vfz vstop vwfault].
        cbn in Swr. rewrite Swr. reflexivity.
      * intros H; reflexivity.
      * intros H; congruence.
      * intros H; congruence.
      * intros H; congruence.
      * left. rewrite O1. reflexivity.
      * intros _ H; discriminate.
      * auto.
      * intros _ H. left. apply Hfault. exact H.
      * intros H. left. exact H.
      * auto.
      * intros _ H. discriminate.
  - (* direction server -> client: the reader end appears *)
    apply vstep2_one. set (v := view_of w Server g).
    assert (Eold : vA v = [] /\ vX v = [] /\ vrsr v = false /\ vrmsw v = false).
    { unfold v, view_of, rprox. cbn [get_end vA vX vrsr vrmsw].
      change (e_prox (w_sv w) g) with (sv w g). rewrite Hnone. cbn. auto. }
    destruct Eold as (O1 & O2 & O3 & O4).
    eapply vstep_eq; [|apply (VS_reader v [] [] [] (s_sr s) false)].
    + unfold v, view_of, rprox, wprox. cbn [get_end other].
      change (e_prox (w_sv w') g) with (sv w' g). change (e_prox (w_cl w') g) with (cl w' g).
      change (e_prox (w_sv w) g) with (sv w g). change (e_prox (w_cl w) g) with (cl w g).
      rewrite Hsv, N.eqb_refl, Hcl, Hp', Hq, Hp, Hnone.
      cbn [pS pM p_s p_m new_muxw m_sw existsb vA vX vP vY vD vrsr vrmsw vwmsr vfz vstop vwfault].
      rewrite Ens, !app_nil_r. cbn in Sb, Srd. rewrite Sb, Srd. reflexivity.
    + reflexivity.
    + intros H; congruence.
    + intros H; congruence.
    + left. rewrite O2. reflexivity.
    + intros _ H; discriminate.
    + intros _ fr0 [].
Qed.

(* ---------------- ALinv under Deliver ---------------- *)
Definition same_shape (w w' : world) : Prop :=
  forall s2 f, match e_prox (get_end w s2) f, e_prox (get_end w' s2) f with
               | Some p, Some p' => m_chan (p_m p') = m_chan (p_m p)
               | None, None => True
               | _, _ => False
               end.

Lemma AL_pop w w' sd fr tl nw :
  ALinv w -> same_shape w w' ->
  path w (other sd) = fr :: tl -> path w' (other sd) = tl ->
  path w' sd = path w sd ++ nw -> Forall (fun a => sf_fid a = None /\ sf_cmd a <> CConnect) nw ->
  (sd = Server -> sf_cmd fr <> CConnect) ->
  ALinv w'.
Proof.
  intros [A1 A2 A3 A4 A5 A6] Hsh Hp Hp' Hq Hnw Hnc.
  assert (Hcl : forall f q, cl w f = Some q -> exists q', cl w' f = Some q' /\ m_chan (p_m q') = m_chan (p_m q)).
  { intros f q Hq0. specialize (Hsh Client f). cbn [get_end] in Hsh. unfold cl in *. rewrite Hq0 in Hsh.
    destruct (e_prox (w_cl w') f) as [q'|]; [|contradiction]. exists q'. auto. }
  assert (Hsv : forall f q, sv w f = Some q -> exists q', sv w' f = Some q' /\ m_chan (p_m q') = m_chan (p_m q)).
  { intros f q Hq0. specialize (Hsh Server f). cbn [get_end] in Hsh. unfold sv in *. rewrite Hq0 in Hsh.
    destruct (e_prox (w_sv w') f) as [q'|]; [|contradiction]. exists q'. auto. }
  assert (Hcl' : forall f q', cl w' f = Some q' -> exists q, cl w f = Some q /\ m_chan (p_m q') = m_chan (p_m q)).
  { intros f q' Hq0. specialize (Hsh Client f). cbn [get_end] in Hsh. unfold cl in *. rewrite Hq0 in Hsh.
    destruct (e_prox (w_cl w) f) as [q|]; [|contradiction]. exists q. auto. }
  assert (Hsv' : forall f q', sv w' f = Some q' -> exists q, sv w f = Some q /\ m_chan (p_m q') = m_chan (p_m q)).
  { intros f q' Hq0. specialize (Hsh Server f). cbn [get_end] in Hsh. unfold sv in *. rewrite Hq0 in Hsh.
    destruct (e_prox (w_sv w) f) as [q|]; [|contradiction]. exists q. auto. }
  assert (Hsvn : forall f, sv w' f = None -> sv w f = None).
  { intros f H. destruct (sv w f) as [q|] eqn:E; [|reflexivity]. destruct (Hsv f q E) as (q' & Hq' & _). congruence. }
  (* membership in the new paths *)
  assert (Hin : forall s2 a, In a (path w' s2) -> In a (path w s2) \/ (sf_fid a = None /\ sf_cmd a <> CConnect)).
  { intros s2 a Ha. destruct (side_eq_dec s2 sd) as [->|Hne].
    - rewrite Hq in Ha. apply in_app_or in Ha. destruct Ha as [Ha|Ha]; [left; exact Ha|right].
      rewrite Forall_forall in Hnw. apply Hnw. exact Ha.
    - assert (s2 = other sd) by (destruct s2, sd; try reflexivity; contradiction). subst s2.
      rewrite Hp' in Ha. left. rewrite Hp. right. exact Ha. }
  constructor.
  - intros f p' Hp0. destruct (Hsv' f p' Hp0) as (p & Hp1 & E1). destruct (A1 f p Hp1) as (q & Hq1 & E2).
    destruct (Hcl f q Hq1) as (q' & Hq2 & E3). exists q'. split; [exact Hq2|congruence].
  - intros a f Ha Hf. destruct (Hin Client a Ha) as [Ha'|[Hn _]]; [|congruence].
    destruct (A2 a f Ha' Hf) as (q & Hq1 & E). destruct (Hcl f q Hq1) as (q' & Hq2 & E2).
    exists q'. split; [exact Hq2|congruence].
  - intros a f Ha Hf. destruct (Hin Server a Ha) as [Ha'|[Hn _]]; [|congruence].
    destruct (A3 a f Ha' Hf) as (q & Hq1 & E). destruct (Hsv f q Hq1) as (q' & Hq2 & E2).
    exists q'. split; [exact Hq2|congruence].
  - intros f q' Hq0 Hs. destruct (Hcl' f q' Hq0) as (q & Hq1 & _).
    destruct (A4 f q Hq1 (Hsvn f Hs)) as (frc & rest & E & Ec).
    destruct sd.
    + (* client received: its own path only grows invisibly *)
      cbn [other] in *. rewrite Hq, filter_app, E.
      exists frc, (rest ++ filter (fid_is f) nw). auto.
    + (* server received the head of the client's path *)
      cbn [other] in *. rewrite Hp'. rewrite Hp in E. cbn [filter] in E.
      destruct (fid_is f fr) eqn:Ef.
      * inversion E; subst frc. exfalso. apply (Hnc eq_refl). exact Ec.
      * exists frc, rest. auto.
  - intros a f Ha Hc Hf. destruct (Hin Client a Ha) as [Ha'|[_ Hn]]; [|contradiction].
    pose proof (A5 a f Ha' Hc Hf) as Hs. destruct (sv w' f) as [p'|] eqn:E; [|reflexivity].
    destruct (Hsv' f p' E) as (p & Hp1 & _). congruence.
  - destruct sd; cbn [other] in *.
    + rewrite Hq, connect_fids_app.
      assert (E : connect_fids nw = []).
      { unfold connect_fids. clear - Hnw. induction Hnw as [|a l [_ Ha] _ IH]; [reflexivity|].
        cbn [filter]. unfold is_connect at 1. destruct (sf_cmd a); try exact IH. congruence. }
      rewrite E, app_nil_r. exact A6.
    + rewrite Hp'. rewrite Hp in A6. unfold connect_fids in *. cbn [filter] in A6.
      destruct (is_connect fr); [inversion A6; assumption|exact A6].
Qed.

Lemma AL_connect w w' fr tl g c s :
  ALinv w ->
  path w Client = fr :: tl -> path w' Client = tl -> path w' Server = path w Server ->
  sf_fid fr = Some g -> sf_cmd fr = CConnect -> sf_ch fr = c ->
  (forall f, sv w' f = if f =? g then Some (mkProxy true false s (new_muxw c)) else sv w f) ->
  (forall f, cl w' f = cl w f) ->
  ALinv w'.
Proof.
  intros [A1 A2 A3 A4 A5 A6] Hp Hp' Hq Hfid Hcmd Hch Hsv Hcl.
  assert (Hing : In fr (path w Client)) by (rewrite Hp; left; reflexivity).
  constructor.
  - intros f p Hp0. rewrite Hsv in Hp0. rewrite Hcl. destruct (N.eqb_spec f g) as [->|Hfg].
    + inversion Hp0; subst p. cbn. destruct (A2 fr g Hing Hfid) as (q & Hq1 & E). exists q. split; [exact Hq1|congruence].
    + apply A1. exact Hp0.
  - intros a f Ha Hf. rewrite Hcl. apply A2; [|exact Hf]. rewrite Hp. right. rewrite <- Hp'. exact Ha.
  - intros a f Ha Hf. rewrite Hq in Ha. destruct (A3 a f Ha Hf) as (p & Hp0 & E).
    rewrite Hsv. destruct (N.eqb_spec f g) as [->|Hfg].
    + (* a frame from a server end that did not exist: impossible *)
      pose proof (A5 fr g Hing Hcmd Hfid). congruence.
    + exists p. auto.
  - intros f q Hq0 Hs. rewrite Hcl in Hq0. rewrite Hsv in Hs. destruct (N.eqb_spec f g) as [->|Hfg]; [discriminate|].
    destruct (A4 f q Hq0 Hs) as (frc & rest & E & Ec). rewrite Hp in E. cbn [filter] in E.
    assert (Ef : fid_is f fr = false) by (unfold fid_is; rewrite Hfid; cbn; apply N.eqb_neq; congruence).
    rewrite Ef in E. rewrite Hp'. exists frc, rest. auto.
  - intros a f Ha Hc Hf. rewrite Hsv. destruct (N.eqb_spec f g) as [->|Hfg].
    + exfalso. rewrite Hp in A6. unfold connect_fids in A6. cbn [filter] in A6. unfold is_connect at 1 in A6.
      rewrite Hcmd in A6. cbn [map] in A6. inversion A6 as [|? ? Hnin _]. apply Hnin. rewrite Hfid.
      apply in_map_iff. exists a. split; [exact Hf|]. apply filter_In. rewrite Hp' in Ha. split; [exact Ha|].
      unfold is_connect. rewrite Hc. reflexivity.
    + apply (A5 a f); [|exact Hc|exact Hf]. rewrite Hp. right. rewrite <- Hp'. exact Ha.
  - rewrite Hp'. rewrite Hp in A6. unfold connect_fids in *. cbn [filter] in A6.
    destruct (is_connect fr); [inversion A6; assumption|exact A6].
Qed.

Lemma get_end_cases w' w sd e' :
  get_end w' sd = e' -> get_end w' (other sd) = get_end w (other sd) ->
  forall s2, get_end w' s2 = if side_eq_dec s2 sd then e' else get_end w s2.
Proof.
  intros A B s2. destruct (side_eq_dec s2 sd) as [->|Hne]; [exact A|].
  assert (s2 = other sd) by (destruct s2, sd; try reflexivity; contradiction). subst s2. exact B.
Qed.

(* the wrapper a non-droppable frame is addressed to is closed when no wrapper is registered *)
Lemma unregistered_closed w sd fr tl f :
  Winv w -> ALinv w -> path w (other sd) = fr :: tl ->
  fid_is f fr = true -> sf_cmd fr <> CConnect ->
  x_chan (e_mux (get_end w sd)) (sf_ch fr) = None ->
  vwmsr (view_of w (other sd) f) = true /\ vrmsw (view_of w sd f) = true.
Proof.
  intros W [A1 A2 A3 A4 A5 A6] Hp Hf Hc Hx.
  assert (Hfid : sf_fid fr = Some f).
  { unfold fid_is, same_fid in Hf. destruct (sf_fid fr) as [h|]; [|discriminate]. apply N.eqb_eq in Hf. congruence. }
  assert (Hin : In fr (path w (other sd))) by (rewrite Hp; left; reflexivity).
  unfold view_of, wprox, rprox. cbn [vwmsr vrmsw]. rewrite oth_oth.
  pose proof (Winv_get w sd W) as R.
  assert (Hw : exists p, e_prox (get_end w sd) f = Some p /\ m_chan (p_m p) = sf_ch fr).
  { destruct sd; cbn [other get_end] in *.
    - (* client receives a frame of the server's flow f *)
      destruct (A3 fr f Hin Hfid) as (p0 & Hp0 & E0). destruct (A1 f p0 Hp0) as (q & Hq & E1).
      exists q. split; [exact Hq|congruence].
    - destruct (A2 fr f Hin Hfid) as (q & Hq & E0).
      destruct (sv w f) as [p0|] eqn:Es.
      + destruct (A1 f p0 Es) as (q' & Hq' & E1). unfold sv in Es. exists p0. split; [exact Es|].
        unfold cl in *. congruence.
      + exfalso. destruct (A4 f q Hq Es) as (frc & rest & E & Ec). rewrite Hp in E. cbn [filter] in E.
        rewrite Hf in E. inversion E; subst frc. contradiction. }
  destruct Hw as (p & Hp0 & Ech). rewrite Hp0. cbn [pM].
  destruct (closed (p_m p)) eqn:Ecl.
  - unfold closed in Ecl. apply andb_true_iff in Ecl. exact Ecl.
  - pose proof (r_open _ R f p Hp0 Ecl) as Hreg. rewrite Ech in Hreg. congruence.
Qed.

Lemma deliver_all w sd o w' : Winv w -> ALinv w -> step w (EvDeliver sd o) = Ok w' -> w_stale w' = false ->
  (forall rs f, vstep2 (view_of w rs f) (view_of w' rs f)) /\ ALinv w'.
Proof.
  intros W AL Hs Hst.
  destruct (inlink w (other sd)) as [|fr rest] eqn:Hl.
  { rewrite (deliver_empty _ _ _ _ Hs Hl). split; [|exact AL]. intros rs f. apply vstep2_one, VS_same. }
  destruct (deliver_shape _ _ _ _ _ _ Hs Hl) as (e' & st & Hg & E1 & E2 & E3 & E4 & E5).
  assert (Est : st = false) by (rewrite E5 in Hst; apply orb_false_iff in Hst; apply Hst).
  subst st.
  set (tl := rest ++ x_out (e_mux (get_end w (other sd)))).
  assert (Hp : path w (other sd) = fr :: tl) by (unfold path; rewrite Hl; reflexivity).
  assert (Hp' : path w' (other sd) = tl) by (unfold path; rewrite E3, E2; reflexivity).
  assert (Hq0 : path w' sd = inlink w sd ++ x_out (e_mux e')) by (unfold path; rewrite E4, E1; reflexivity).
  pose proof (get_end_cases w' w sd e' E1 E2) as Hends.
  pose proof (Winv_get w sd W) as R.
  set (e := get_end w sd) in *.
  (* a helper for the cases where the proxies of end sd are untouched *)
  assert (Hsameprox : e_prox e' = e_prox e -> forall s2 f, e_prox (get_end w' s2) f = e_prox (get_end w s2) f).
  { intros H s2 f. rewrite Hends. destruct (side_eq_dec s2 sd) as [->|]; [rewrite H|]; reflexivity. }
  assert (Hshape_same : e_prox e' = e_prox e -> same_shape w w').
  { intros H s2 f. rewrite (Hsameprox H). destruct (e_prox (get_end w s2) f); auto. }
  unfold mux_got_packet in Hg. fold e in Hg.
  destruct (sf_cmd fr) eqn:Ecmd.
  - (* PING *)
    apply ok_pair_inj in Hg. destruct Hg as [<- _].
    assert (Hq : path w' sd = path w sd ++ [mkSF 0 CPong (sf_data fr) None]).
    { rewrite Hq0. unfold path. cbn. rewrite app_assoc. reflexivity. }
    split.
    + intros rs f. apply vstep2_one.
      apply (pop_views w w' sd fr tl [mkSF 0 CPong (sf_data fr) None] Hp Hp' Hq); try congruence.
      * constructor; [split; [reflexivity|exact I]|constructor].
      * intros s2 f0. rewrite (Hsameprox eq_refl). auto.
    + apply (AL_pop w w' sd fr tl [mkSF 0 CPong (sf_data fr) None] AL (Hshape_same eq_refl) Hp Hp' Hq).
      * constructor; [split; [reflexivity|discriminate]|constructor].
      * intros _. congruence.
  - (* PONG *)
    apply ok_pair_inj in Hg. destruct Hg as [<- _].
    assert (Hq : path w' sd = path w sd ++ []) by (rewrite Hq0, app_nil_r; reflexivity).
    split.
    + intros rs f. apply vstep2_one.
      apply (pop_views w w' sd fr tl [] Hp Hp' Hq); try congruence; [constructor|].
      intros s2 f0. rewrite (Hsameprox eq_refl). auto.
    + apply (AL_pop w w' sd fr tl [] AL (Hshape_same eq_refl) Hp Hp' Hq); [constructor|]. intros _. congruence.
  - (* CONNECT *)
    destruct (occ (e_mux e) (sf_ch fr)) eqn:Eocc; [discriminate|].
    destruct sd.
    + (* at the client: ignored *)
      apply ok_pair_inj in Hg. destruct Hg as [<- _].
      assert (Hq : path w' Client = path w Client ++ []) by (rewrite Hq0, app_nil_r; reflexivity).
      split.
      * intros rs f. apply vstep2_one.
        apply (pop_views w w' Client fr tl [] Hp Hp' Hq); try congruence; [constructor|].
        intros s2 f0. rewrite (Hsameprox eq_refl). auto.
      * apply (AL_pop w w' Client fr tl [] AL (Hshape_same eq_refl) Hp Hp' Hq); [constructor|]. intros; discriminate.
    + (* at the server: new_channel *)
      destruct (server_new_channel e (sf_ch fr) o) as [e1|cr] eqn:En; [|discriminate].
      apply ok_pair_inj in Hg. destruct Hg as [<- Hsf].
      apply negb_false_iff in Hsf. unfold same_fid in Hsf.
      destruct (sf_fid fr) as [g|] eqn:Efid; [|discriminate]. apply N.eqb_eq in Hsf. subst g.
      unfold server_new_channel in En.
      destruct (s_try_connect (new_sock true) (io_conn o) (io_shut_ok o)) as [s|cr] eqn:Etc; [|discriminate].
      injection En as En'. rewrite <- En' in *. clear En'.
      destruct (try_connect_spec _ _ _ _ Etc) as (Sd & _ & Sf & _).
      set (g := e_next e) in *.
      assert (Hnone : sv w g = None).
      { unfold sv. destruct (e_prox (w_sv w) g) as [q|] eqn:E; [|reflexivity].
        pose proof (r_fresh _ R g q E). unfold g, e in *. cbn [get_end] in *. lia. }
      assert (Hsvn : forall f, sv w' f = if f =? g then Some (mkProxy true false s (new_muxw (sf_ch fr))) else sv w f).
      { intros f. unfold sv. change (w_sv w') with (get_end w' Server). rewrite E1. reflexivity. }
      assert (Hcln : forall f, cl w' f = cl w f).
      { intros f. unfold cl. change (w_cl w') with (get_end w' (other Server)). rewrite E2. reflexivity. }
      assert (Hq : path w' Server = path w Server) by (rewrite Hq0; reflexivity).
      cbn [other] in *.
      split.
      * apply (connect_views w w' fr tl g (sf_ch fr) s Hp Hp' Hq Efid Ecmd Hnone Hsvn Hcln Sd).
        intros H. apply Sf; [reflexivity|exact H].
      * apply (AL_connect w w' fr tl g (sf_ch fr) s AL Hp Hp' Hq Efid Ecmd eq_refl Hsvn Hcln).
  - (* STOP *)
    destruct (x_chan (e_mux e) (sf_ch fr)) as [g|] eqn:Ech.
    2:{ apply ok_pair_inj in Hg. destruct Hg as [<- _].
        assert (Hq : path w' sd = path w sd) by (rewrite Hq0; reflexivity).
        split.
        - intros rs f. apply vstep2_one. apply (drop_views w w' sd fr tl Hp Hp' Hq (Hsameprox eq_refl)).
          + intros f0 _ Hc. congruence.
          + intros f0 Hf0 _. apply (unregistered_closed w sd fr tl f0 W AL Hp Hf0); [congruence|exact Ech].
        - apply (AL_pop w w' sd fr tl [] AL (Hshape_same eq_refl) Hp Hp'); [rewrite app_nil_r; exact Hq|constructor|].
          intros _. congruence. }
    destruct (e_prox e g) as [p|] eqn:Epg; [|discriminate].
    cbn [m_got_packet] in Hg.
    destruct (setnowrite_ext (p_m p) (e_mux e) g) as (X1 & X2 & X3 & X4 & X5).
    destruct (m_setnowrite (p_m p) (e_mux e)) as [m' x'] eqn:Em. cbn [fst snd] in *.
    apply ok_pair_inj in Hg. destruct Hg as [<- Hsf].
    apply negb_false_iff in Hsf. unfold same_fid in Hsf.
    destruct (sf_fid fr) as [g0|] eqn:Efid; [|discriminate]. apply N.eqb_eq in Hsf. subst g0.
    assert (Hq : path w' sd = path w sd).
    { rewrite Hq0. unfold path. cbn [set_prox e_mux]. rewrite (me_out _ _ _ _ _ X1), app_nil_r. reflexivity. }
    split.
    + intros rs f. apply vstep2_one.
      apply (handed_views w w' sd fr tl g p m' Hp Hp' Hq Efid Epg).
      * intros f0. rewrite E1. reflexivity.
      * intros f0. rewrite E2. reflexivity.
      * right. right. auto.
    + apply (AL_pop w w' sd fr tl [] AL); [|exact Hp|exact Hp'|rewrite app_nil_r; exact Hq|constructor|intros _; congruence].
      intros s2 f0. rewrite Hends. destruct (side_eq_dec s2 sd) as [->|].
      * cbn [set_prox e_prox]. unfold upd. destruct (N.eqb_spec f0 g) as [->|].
        -- fold e. rewrite Epg. cbn. apply X2.
        -- fold e. destruct (e_prox e f0); auto.
      * destruct (e_prox (get_end w s2) f0); auto.
  - (* EOF *)
    destruct (x_chan (e_mux e) (sf_ch fr)) as [g|] eqn:Ech.
    2:{ apply ok_pair_inj in Hg. destruct Hg as [<- _].
        assert (Hq : path w' sd = path w sd) by (rewrite Hq0; reflexivity).
        split.
        - intros rs f. apply vstep2_one. apply (drop_views w w' sd fr tl Hp Hp' Hq (Hsameprox eq_refl)).
          + intros f0 Hf0 _. apply (unregistered_closed w sd fr tl f0 W AL Hp Hf0); [congruence|exact Ech].
          + intros f0 _ Hc. congruence.
        - apply (AL_pop w w' sd fr tl [] AL (Hshape_same eq_refl) Hp Hp'); [rewrite app_nil_r; exact Hq|constructor|].
          intros _. congruence. }
    destruct (e_prox e g) as [p|] eqn:Epg; [|discriminate].
    cbn [m_got_packet] in Hg.
    destruct (setnoread_ext (p_m p) (e_mux e) g) as (X1 & X2 & X3 & X4 & X5).
    destruct (m_setnoread (p_m p) (e_mux e)) as [m' x'] eqn:Em. cbn [fst snd] in *.
    apply ok_pair_inj in Hg. destruct Hg as [<- Hsf].
    apply negb_false_iff in Hsf. unfold same_fid in Hsf.
    destruct (sf_fid fr) as [g0|] eqn:Efid; [|discriminate]. apply N.eqb_eq in Hsf. subst g0.
    assert (Hq : path w' sd = path w sd).
    { rewrite Hq0. unfold path. cbn [set_prox e_mux]. rewrite (me_out _ _ _ _ _ X1), app_nil_r. reflexivity. }
    split.
    + intros rs f. apply vstep2_one.
      apply (handed_views w w' sd fr tl g p m' Hp Hp' Hq Efid Epg).
      * intros f0. rewrite E1. reflexivity.
      * intros f0. rewrite E2. reflexivity.
      * right. left. auto.
    + apply (AL_pop w w' sd fr tl [] AL); [|exact Hp|exact Hp'|rewrite app_nil_r; exact Hq|constructor|intros _; congruence].
      intros s2 f0. rewrite Hends. destruct (side_eq_dec s2 sd) as [->|].
      * cbn [set_prox e_prox]. unfold upd. destruct (N.eqb_spec f0 g) as [->|].
        -- fold e. rewrite Epg. cbn. apply X2.
        -- fold e. destruct (e_prox e f0); auto.
      * destruct (e_prox (get_end w s2) f0); auto.
  - (* DATA *)
    destruct (x_chan (e_mux e) (sf_ch fr)) as [g|] eqn:Ech.
    2:{ apply ok_pair_inj in Hg. destruct Hg as [<- _].
        assert (Hq : path w' sd = path w sd) by (rewrite Hq0; reflexivity).
        split.
        - intros rs f. apply vstep2_one. apply (drop_views w w' sd fr tl Hp Hp' Hq (Hsameprox eq_refl)).
          + intros f0 Hf0 _. apply (unregistered_closed w sd fr tl f0 W AL Hp Hf0); [congruence|exact Ech].
          + intros f0 _ Hc. congruence.
        - apply (AL_pop w w' sd fr tl [] AL (Hshape_same eq_refl) Hp Hp'); [rewrite app_nil_r; exact Hq|constructor|].
          intros _. congruence. }
    destruct (e_prox e g) as [p|] eqn:Epg; [|discriminate].
    cbn [m_got_packet] in Hg.
    apply ok_pair_inj in Hg. destruct Hg as [<- Hsf].
    apply negb_false_iff in Hsf. unfold same_fid in Hsf.
    destruct (sf_fid fr) as [g0|] eqn:Efid; [|discriminate]. apply N.eqb_eq in Hsf. subst g0.
    assert (Hq : path w' sd = path w sd) by (rewrite Hq0; reflexivity).
    split.
    + intros rs f. apply vstep2_one.
      apply (handed_views w w' sd fr tl g p (mkMuxw (m_chan (p_m p)) (m_sr (p_m p)) (m_sw (p_m p)) (m_buf (p_m p) ++ [sf_data fr])) Hp Hp' Hq Efid Epg).
      * intros f0. rewrite E1. reflexivity.
      * intros f0. rewrite E2. reflexivity.
      * left. auto.
    + apply (AL_pop w w' sd fr tl [] AL); [|exact Hp|exact Hp'|rewrite app_nil_r; exact Hq|constructor|intros _; congruence].
      intros s2 f0. rewrite Hends. destruct (side_eq_dec s2 sd) as [->|].
      * cbn [set_prox e_prox]. unfold upd. destruct (N.eqb_spec f0 g) as [->|].
        -- fold e. rewrite Epg. reflexivity.
        -- fold e. destruct (e_prox e f0); auto.
      * destruct (e_prox (get_end w s2) f0); auto.
  - (* any other command reaching a wrapper raises *)
    destruct (x_chan (e_mux e) (sf_ch fr)) as [g|] eqn:Ech.
    2:{ apply ok_pair_inj in Hg. destruct Hg as [<- _].
        assert (Hq : path w' sd = path w sd ++ []) by (rewrite Hq0, app_nil_r; reflexivity).
        split.
        - intros rs f. apply vstep2_one.
          apply (pop_views w w' sd fr tl [] Hp Hp' Hq); try congruence; [constructor|].
          intros s2 f0. rewrite (Hsameprox eq_refl). auto.
        - apply (AL_pop w w' sd fr tl [] AL (Hshape_same eq_refl) Hp Hp' Hq); [constructor|]. intros _. congruence. }
    destruct (e_prox e g) as [p|] eqn:Epg; [|discriminate]. cbn [m_got_packet] in Hg. discriminate.
Qed.

(* ---------------- the global invariant ---------------- *)
Record Ginv (w : world) : Prop := {
  g_reg : Winv w;
  g_fw : FWinv w;
  g_al : ALinv w;
  g_views : forall rs f, Vinv (view_of w rs f)
}.

Lemma Vinv_view0 maxc lbs rs f : Vinv (view_of (world0 maxc lbs) rs f).
Proof.
  assert (E : filter (fid_is f) (path (world0 maxc lbs) rs) = [] /\
              existsb (is_stop_of f) (path (world0 maxc lbs) (other rs)) = false).
  { unfold path, inlink. destruct rs; cbn; auto. }
  destruct E as [E1 E2].
  unfold view_of, rprox, wprox. rewrite E1, E2.
  assert (P0 : forall s2, e_prox (get_end (world0 maxc lbs) s2) f = None) by (intros [|]; reflexivity).
  rewrite !P0. cbn.
  constructor; cbn; auto; try discriminate.
  exists []. reflexivity.
Qed.

Lemma Ginv_world0 maxc lbs : Ginv (world0 maxc lbs).
Proof.
  constructor.
  - apply Winv_world0.
  - apply FWinv_world0.
  - apply ALinv_world0.
  - apply Vinv_view0.
Qed.

Lemma step_stale_mono w ev w' : step w ev = Ok w' -> w_stale w = true -> w_stale w' = true.
Proof.
  destruct ev as [payload|sd fid o|sd fid|sd|sd o|sd|sd fid]; cbn [step].
  - intros [= <-]. auto.
  - destruct (e_prox (get_end w sd) fid) as [p|]; [|discriminate]. destruct (live p); [|discriminate].
    destruct (proxy_callback sd fid p (e_mux (get_end w sd)) o) as [[p' x']|]; [|discriminate].
    intros [= <-]. destruct sd; auto.
  - destruct (e_prox (get_end w sd) fid) as [p|]; [|discriminate]. destruct (live p); [|discriminate].
    destruct (proxy_pre_select sd fid p (e_mux (get_end w sd))) as [[p' x'] ws].
    intros [= <-]. destruct sd; auto.
  - destruct (x_out (e_mux (get_end w sd))); intros [= <-]; auto. destruct sd; auto.
  - destruct (match sd with Client => w_sc w | Server => w_cs w end); [intros [= <-]; auto|].
    destruct (mux_got_packet sd (get_end w sd) s o) as [[e' st]|]; [|discriminate].
    intros [= <-] H. destruct sd; cbn; rewrite H; reflexivity.
  - intros [= <-]. destruct sd; auto.
  - destruct (e_prox (get_end w sd) fid) as [p|]; [|discriminate].
    destruct (negb (p_ok p) && live p); [|discriminate]. intros [= <-]. destruct sd; auto.
Qed.

Lemma run_stale_mono evs : forall w w', run w evs = Ok w' -> w_stale w = true -> w_stale w' = true.
Proof.
  induction evs as [|ev evs IH]; intros w w'; cbn [run].
  - intros [= <-]. auto.
  - destruct (step w ev) as [w1|] eqn:Es; [|discriminate]. intros Hr H.
    apply (IH _ _ Hr). eapply step_stale_mono; eassumption.
Qed.

Lemma views_from_vstep w w' :
  (forall rs f, Vinv (view_of w rs f)) -> (forall rs f, vstep (view_of w rs f) (view_of w' rs f)) ->
  forall rs f, Vinv (view_of w' rs f).
Proof. intros H1 H2 rs f. eapply Vinv_step; [apply H1|apply H2]. Qed.

Lemma views_eq w w' :
  (forall rs, path w' rs = path w rs) ->
  (forall s2 f, rfields (e_prox (get_end w' s2) f) = rfields (e_prox (get_end w s2) f) /\
                wfields (e_prox (get_end w' s2) f) = wfields (e_prox (get_end w s2) f)) ->
  forall rs f, view_of w' rs f = view_of w rs f.
Proof.
  intros Hp Hf rs f. apply view_ext_fields; try apply Hf; rewrite Hp; reflexivity.
Qed.

Theorem step_Ginv w ev w' : Ginv w -> step w ev = Ok w' -> w_stale w' = false -> Ginv w'.
Proof.
  intros [W FW AL V] Hs Hst.
  constructor.
  - eapply step_Winv; eassumption.
  - eapply step_FWinv; eassumption.
  - destruct ev as [payload|sd fid o|sd fid|sd|sd o|sd|sd fid].
    + destruct (accept_views _ _ _ Hs (proj1 W) AL) as (_ & A & _). exact A.
    + destruct (callback_views _ _ _ _ _ Hs) as (_ & A & _). exact (A AL).
    + destruct (preselect_views _ _ _ _ Hs) as (_ & A & _). exact (A AL).
    + destruct (flush_views _ _ _ Hs) as [Hp Hf].
      destruct AL as [A1 A2 A3 A4 A5 A6]. unfold cl, sv in *.
      constructor; unfold cl, sv.
      * intros f p. rewrite (Hf Server), (Hf Client). apply A1.
      * intros fr f. rewrite Hp, (Hf Client). apply A2.
      * intros fr f. rewrite Hp, (Hf Server). apply A3.
      * intros f q. rewrite (Hf Client), (Hf Server), Hp. apply A4.
      * intros fr f. rewrite Hp, (Hf Server). apply A5.
      * rewrite Hp. exact A6.
    + destruct (deliver_all _ _ _ _ W AL Hs Hst) as [_ A]. exact A.
    + destruct (checkfull_views _ _ _ Hs) as (_ & Hf & Hpath).
      destruct AL as [A1 A2 A3 A4 A5 A6]. unfold cl, sv in *.
      constructor; unfold cl, sv.
      * intros f p. rewrite (Hf Server), (Hf Client). apply A1.
      * intros fr f Hin Hfid. destruct (Hpath Client) as (nw & E & Hn). rewrite E in Hin.
        apply in_app_or in Hin. destruct Hin as [Hin|Hin]; [rewrite (Hf Client); apply (A2 fr f Hin Hfid)|].
        rewrite Forall_forall in Hn. destruct (Hn fr Hin). congruence.
      * intros fr f Hin Hfid. destruct (Hpath Server) as (nw & E & Hn). rewrite E in Hin.
        apply in_app_or in Hin. destruct Hin as [Hin|Hin]; [rewrite (Hf Server); apply (A3 fr f Hin Hfid)|].
        rewrite Forall_forall in Hn. destruct (Hn fr Hin). congruence.
      * intros f q. rewrite (Hf Client), (Hf Server). intros Hq Hsv0.
        destruct (A4 f q Hq Hsv0) as (frc & rest & E & Ec). destruct (Hpath Client) as (nw & E2 & _).
        rewrite E2, filter_app, E. exists frc, (rest ++ filter (fid_is f) nw). auto.
      * intros fr f Hin Hc Hfid. rewrite (Hf Server). destruct (Hpath Client) as (nw & E & Hn). rewrite E in Hin.
        apply in_app_or in Hin. destruct Hin as [Hin|Hin]; [apply (A5 fr f Hin Hc Hfid)|].
        rewrite Forall_forall in Hn. destruct (Hn fr Hin). congruence.
      * destruct (Hpath Client) as (nw & E & Hn). rewrite E, connect_fids_app.
        assert (Enw : connect_fids nw = []).
        { unfold connect_fids. clear - Hn. induction Hn as [|a l [_ Ha] _ IH]; [reflexivity|].
          cbn [filter]. unfold is_connect at 1. rewrite Ha. exact IH. }
        rewrite Enw, app_nil_r. exact A6.
    + destruct (remove_views _ _ _ _ Hs) as [Hp Hf].
      destruct AL as [A1 A2 A3 A4 A5 A6].
      assert (Hpres : forall s2 f, match e_prox (get_end w s2) f, e_prox (get_end w' s2) f with
                                   | Some p, Some p' => m_chan (p_m p') = m_chan (p_m p)
                                   | None, None => True | _, _ => False end).
      { intros s2 f. destruct (Hf s2 f) as (_ & E & [N1 N2]).
        destruct (e_prox (get_end w s2) f) as [p|] eqn:E1; destruct (e_prox (get_end w' s2) f) as [p'|] eqn:E2; auto.
        - cbn in E. rewrite E. reflexivity.
        - specialize (N1 eq_refl). discriminate.
        - specialize (N2 eq_refl). discriminate. }
      assert (Hc1 : forall f q, cl w f = Some q -> exists q', cl w' f = Some q' /\ m_chan (p_m q') = m_chan (p_m q)).
      { intros f q Hq. specialize (Hpres Client f). cbn [get_end] in Hpres. unfold cl in *. rewrite Hq in Hpres.
        destruct (e_prox (w_cl w') f) as [q'|]; [|contradiction]. eauto. }
      assert (Hs1 : forall f q, sv w f = Some q -> exists q', sv w' f = Some q' /\ m_chan (p_m q') = m_chan (p_m q)).
      { intros f q Hq. specialize (Hpres Server f). cbn [get_end] in Hpres. unfold sv in *. rewrite Hq in Hpres.
        destruct (e_prox (w_sv w') f) as [q'|]; [|contradiction]. eauto. }
      assert (Hc2 : forall f q', cl w' f = Some q' -> exists q, cl w f = Some q /\ m_chan (p_m q') = m_chan (p_m q)).
      { intros f q' Hq. specialize (Hpres Client f). cbn [get_end] in Hpres. unfold cl in *. rewrite Hq in Hpres.
        destruct (e_prox (w_cl w) f) as [q|]; [|contradiction]. eauto. }
      assert (Hs2 : forall f q', sv w' f = Some q' -> exists q, sv w f = Some q /\ m_chan (p_m q') = m_chan (p_m q)).
      { intros f q' Hq. specialize (Hpres Server f). cbn [get_end] in Hpres. unfold sv in *. rewrite Hq in Hpres.
        destruct (e_prox (w_sv w) f) as [q|]; [|contradiction]. eauto. }
      assert (Hsn : forall f, sv w' f = None -> sv w f = None).
      { intros f H. destruct (sv w f) as [q|] eqn:E; [|reflexivity]. destruct (Hs1 f q E) as (q' & Hq' & _). congruence. }
      constructor.
      * intros f p' Hp0. destruct (Hs2 f p' Hp0) as (p & Hp1 & E1). destruct (A1 f p Hp1) as (q & Hq1 & E2).
        destruct (Hc1 f q Hq1) as (q' & Hq2 & E3). exists q'. split; [exact Hq2|congruence].
      * intros a f Ha Hfid. rewrite Hp in Ha. destruct (A2 a f Ha Hfid) as (q & Hq1 & E).
        destruct (Hc1 f q Hq1) as (q' & Hq2 & E2). exists q'. split; [exact Hq2|congruence].
      * intros a f Ha Hfid. rewrite Hp in Ha. destruct (A3 a f Ha Hfid) as (q & Hq1 & E).
        destruct (Hs1 f q Hq1) as (q' & Hq2 & E2). exists q'. split; [exact Hq2|congruence].
      * intros f q' Hq0 Hs0. destruct (Hc2 f q' Hq0) as (q & Hq1 & _). rewrite Hp. apply (A4 f q Hq1 (Hsn f Hs0)).
      * intros a f Ha Hc Hfid. rewrite Hp in Ha. pose proof (A5 a f Ha Hc Hfid) as Hn.
        destruct (sv w' f) as [p'|] eqn:E; [|reflexivity]. destruct (Hs2 f p' E) as (p & Hp1 & _). congruence.
      * rewrite Hp. exact A6.
  - destruct ev as [payload|sd fid o|sd fid|sd|sd o|sd|sd fid].
    + destruct (accept_views _ _ _ Hs (proj1 W) AL) as (A & _). apply (views_from_vstep w w' V A).
    + destruct (callback_views _ _ _ _ _ Hs) as (A & _). apply (views_from_vstep w w' V A).
    + destruct (preselect_views _ _ _ _ Hs) as (A & _). apply (views_from_vstep w w' V A).
    + destruct (flush_views _ _ _ Hs) as [Hp Hf]. intros rs f.
      rewrite (views_eq w w' Hp); [apply V|]. intros s2 f0. rewrite Hf. auto.
    + destruct (deliver_all _ _ _ _ W AL Hs Hst) as [A _]. intros rs f.
      eapply Vinv_step2; [apply V|apply A].
    + destruct (checkfull_views _ _ _ Hs) as (Hfl & Hf & _). intros rs f.
      rewrite (view_ext_fields w w' rs f); [apply V| | | |].
      * unfold rprox. rewrite Hf. reflexivity.
      * unfold wprox. rewrite Hf. reflexivity.
      * apply Hfl.
      * apply Hfl.
    + destruct (remove_views _ _ _ _ Hs) as [Hp Hf]. intros rs f.
      rewrite (views_eq w w' Hp); [apply V|]. intros s2 f0. destruct (Hf s2 f0) as (E1 & E2 & _).
      unfold rfields, wfields. rewrite E1, E2. auto.
Qed.

Theorem run_Ginv evs : forall w w', Ginv w -> run w evs = Ok w' -> w_stale w' = false -> Ginv w'.
Proof.
  induction evs as [|ev evs IH]; intros w w' G; cbn [run].
  - intros [= <-] _. exact G.
  - destruct (step w ev) as [w1|] eqn:Es; [|discriminate]. intros Hr Hst.
    apply (IH w1 w'); [|exact Hr|exact Hst].
    apply (step_Ginv w ev w1 G Es).
    destruct (w_stale w1) eqn:E; [|reflexivity].
    rewrite (run_stale_mono _ _ _ Hr E) in Hst. discriminate.
Qed.
