(* Proofs/Hosts_lemmas.v — proofs about Model/Hosts.v (C19) *)
From Coq Require Import List NArith Ascii Bool Lia Arith.
From SV Require Import Lib.Bytes Model.Hosts.
Import ListNotations.
Local Open Scope N_scope.

(* ------------------------------------------------------------------ *)
(* generic list facts                                                  *)

Lemma last_app_nonnil {A} (l1 l2 : list A) d : l2 <> [] -> last (l1 ++ l2) d = last l2 d.
Proof.
  intros H. induction l1 as [|a l1 IH]; [reflexivity|].
  cbn [app]. destruct (l1 ++ l2) eqn:E.
  - apply app_eq_nil in E. destruct E as [_ E]. contradiction.
  - rewrite <- E in *. cbn [last]. rewrite E. rewrite <- E. exact IH.
Qed.

Lemma last_cons_nonnil {A} (a : A) l d : l <> [] -> last (a :: l) d = last l d.
Proof. intros H. destruct l; [contradiction|reflexivity]. Qed.

Lemma removelast_cons_nonnil {A} (a : A) l : l <> [] -> removelast (a :: l) = a :: removelast l.
Proof. intros H. destruct l; [contradiction|reflexivity]. Qed.

Lemma last_in_or_default {A} (l : list A) d : l <> [] -> In (last l d) l.
Proof.
  induction l as [|a l IH]; [contradiction|]. intros _.
  destruct l as [|b l]; [left; reflexivity|].
  right. apply IH. discriminate.
Qed.

Lemma Forall_removelast {A} (P : A -> Prop) l : Forall P l -> Forall P (removelast l).
Proof.
  induction l as [|a l IH]; intros H; [constructor|].
  destruct l as [|b l]; [constructor|].
  inversion H; subst. cbn [removelast]. constructor; [assumption|]. apply IH. assumption.
Qed.

(* ------------------------------------------------------------------ *)
(* split_on / join                                                     *)

Lemma split_on_nonnil sep s : split_on sep s <> [].
Proof.
  destruct s as [|c t]; cbn [split_on]; [discriminate|].
  destruct (Ascii.eqb c sep); [discriminate|].
  destruct (split_on sep t); discriminate.
Qed.

Lemma split_on_nil sep : split_on sep [] = [[]].
Proof. reflexivity. Qed.

Lemma split_on_cons_sep sep t : split_on sep (sep :: t) = [] :: split_on sep t.
Proof. cbn [split_on]. rewrite Ascii.eqb_refl. reflexivity. Qed.

Lemma split_on_cons_other sep c t : c <> sep ->
  split_on sep (c :: t) = (c :: hd [] (split_on sep t)) :: tl (split_on sep t).
Proof.
  intros H. cbn [split_on].
  destruct (Ascii.eqb c sep) eqn:E; [apply Ascii.eqb_eq in E; contradiction|].
  pose proof (split_on_nonnil sep t) as Hn.
  destruct (split_on sep t); [contradiction|reflexivity].
Qed.

Lemma hd_tl_nonnil {A} (l : list (list A)) : l <> [] -> hd [] l :: tl l = l.
Proof. destruct l; [contradiction|reflexivity]. Qed.

Lemma join_cons sep l ls :
  join sep (l :: ls) = match ls with [] => l | _ :: _ => l ++ sep :: join sep ls end.
Proof. destruct ls; reflexivity. Qed.

Lemma join_split sep s : join sep (split_on sep s) = s.
Proof.
  induction s as [|c t IH]; [reflexivity|].
  pose proof (split_on_nonnil sep t) as Hn.
  destruct (ascii_dec c sep) as [->|Hc].
  - rewrite split_on_cons_sep, join_cons.
    destruct (split_on sep t) eqn:E; [contradiction|]. rewrite IH. reflexivity.
  - rewrite split_on_cons_other by assumption.
    destruct (split_on sep t) as [|w ws] eqn:E; [contradiction|].
    cbn [hd tl]. rewrite join_cons. rewrite join_cons in IH.
    destruct ws; rewrite <- IH; reflexivity.
Qed.

Lemma split_no_sep sep s : Forall (fun l => ~ In sep l) (split_on sep s).
Proof.
  induction s as [|c t IH]; [repeat constructor; intros []|].
  pose proof (split_on_nonnil sep t) as Hn.
  destruct (ascii_dec c sep) as [->|Hc].
  - rewrite split_on_cons_sep. constructor; [intros []|exact IH].
  - rewrite split_on_cons_other by assumption.
    destruct (split_on sep t) as [|w ws]; [contradiction|].
    inversion IH; subst. cbn [hd tl]. constructor; [|assumption].
    intros [H|H]; [congruence|contradiction].
Qed.

Lemma split_on_nosep sep l : ~ In sep l -> split_on sep l = [l].
Proof.
  induction l as [|c t IH]; intros H; [reflexivity|].
  rewrite split_on_cons_other by (intros ->; apply H; left; reflexivity).
  rewrite IH by (intros H'; apply H; right; exact H'). reflexivity.
Qed.

Lemma split_on_app_sep sep l r : ~ In sep l ->
  split_on sep (l ++ sep :: r) = l :: split_on sep r.
Proof.
  induction l as [|c t IH]; intros H; [apply split_on_cons_sep|].
  cbn [app]. rewrite split_on_cons_other by (intros ->; apply H; left; reflexivity).
  rewrite IH by (intros H'; apply H; right; exact H'). reflexivity.
Qed.

Lemma split_join sep ls : ls <> [] -> Forall (fun l => ~ In sep l) ls ->
  split_on sep (join sep ls) = ls.
Proof.
  induction ls as [|l ls IH]; intros Hn HF; [contradiction|].
  inversion HF; subst. rewrite join_cons.
  destruct ls as [|l2 ls2]; [apply split_on_nosep; assumption|].
  rewrite split_on_app_sep by assumption. rewrite IH; [reflexivity|discriminate|assumption].
Qed.

(* gluing the field lists of two adjacent pieces *)
Fixpoint glue (la : list bytes) (hb : bytes) : list bytes :=
  match la with
  | [] => [hb]
  | [l] => [l ++ hb]
  | l :: t => l :: glue t hb
  end.

Lemma glue_cons l t hb : t <> [] -> glue (l :: t) hb = l :: glue t hb.
Proof. destruct t; [contradiction|reflexivity]. Qed.

Lemma glue_spec la hb : la <> [] -> glue la hb = removelast la ++ [last la [] ++ hb].
Proof.
  induction la as [|l t IH]; intros H; [contradiction|].
  destruct t as [|l2 t2]; [reflexivity|].
  rewrite glue_cons by discriminate. rewrite IH by discriminate. reflexivity.
Qed.

Lemma glue_nonnil la hb : glue la hb <> [].
Proof. destruct la as [|l [|l2 t]]; discriminate. Qed.

Lemma split_app sep a b :
  split_on sep (a ++ b) = glue (split_on sep a) (hd [] (split_on sep b)) ++ tl (split_on sep b).
Proof.
  induction a as [|c t IH].
  - cbn [app split_on glue]. symmetry. apply (hd_tl_nonnil (split_on sep b)). apply split_on_nonnil.
  - cbn [app]. destruct (ascii_dec c sep) as [->|Hc].
    + rewrite !split_on_cons_sep. rewrite glue_cons by apply split_on_nonnil.
      rewrite IH. reflexivity.
    + rewrite !split_on_cons_other by assumption. rewrite IH.
      pose proof (split_on_nonnil sep t) as Hn.
      destruct (split_on sep t) as [|w [|w2 ws]]; [contradiction| |]; reflexivity.
Qed.

(* ------------------------------------------------------------------ *)
(* records / tail_of / complete                                        *)

Lemma records_tail_join s : join NL (records s ++ [tail_of s]) = s.
Proof.
  unfold records, tail_of.
  rewrite <- app_removelast_last by apply split_on_nonnil. apply join_split.
Qed.

Lemma tail_no_nl s : ~ In NL (tail_of s).
Proof.
  unfold tail_of. pose proof (split_no_sep NL s) as HF.
  rewrite Forall_forall in HF. apply HF. apply last_in_or_default. apply split_on_nonnil.
Qed.

Lemma split_complete_app p x : complete p ->
  split_on NL (p ++ x) = records p ++ split_on NL x.
Proof.
  unfold complete, tail_of, records. intros H.
  rewrite split_app, glue_spec by apply split_on_nonnil. rewrite H.
  rewrite <- app_assoc. f_equal.
  change (hd [] (split_on NL x) :: tl (split_on NL x) = split_on NL x).
  apply hd_tl_nonnil. apply split_on_nonnil.
Qed.

Lemma records_complete_app p x : complete p -> records (p ++ x) = records p ++ records x.
Proof.
  intros H. unfold records at 1. rewrite split_complete_app by assumption.
  rewrite removelast_app by apply split_on_nonnil. reflexivity.
Qed.

Lemma tail_complete_app p x : complete p -> tail_of (p ++ x) = tail_of x.
Proof.
  intros H. unfold tail_of at 1. rewrite split_complete_app by assumption.
  apply last_app_nonnil. apply split_on_nonnil.
Qed.

Lemma complete_nil : complete [].
Proof. reflexivity. Qed.

Lemma complete_app a b : complete a -> complete b -> complete (a ++ b).
Proof. intros Ha Hb. unfold complete. rewrite tail_complete_app by assumption. exact Hb. Qed.

Lemma complete_concat ps : Forall complete ps -> complete (concat ps).
Proof.
  induction 1 as [|p ps Hp _ IH]; [exact complete_nil|]. cbn [concat]. apply complete_app; assumption.
Qed.

(* a complete string is empty or ends in a newline; conversely *)
Lemma complete_snoc s : complete (s ++ [NL]).
Proof.
  unfold complete, tail_of. rewrite split_app. rewrite split_on_cons_sep. cbn [hd tl split_on].
  apply last_app_nonnil. discriminate.
Qed.

Lemma join_snoc_nil : forall rs r, exists q, join NL ((r :: rs) ++ [[]]) = q ++ [NL].
Proof.
  induction rs as [|r2 rs IH]; intros r.
  - exists r. reflexivity.
  - destruct (IH r2) as [q Hq]. exists (r ++ NL :: q).
    change ((r :: r2 :: rs) ++ [[]]) with (r :: ((r2 :: rs) ++ [[]])).
    rewrite join_cons. cbn [app] in *. rewrite Hq. rewrite <- app_assoc. reflexivity.
Qed.

Lemma complete_inv p : complete p -> p = [] \/ exists q, p = q ++ [NL].
Proof.
  intros H. pose proof (records_tail_join p) as J. rewrite H in J.
  destruct (records p) as [|r rs] eqn:E; [left; symmetry; exact J|].
  right. destruct (join_snoc_nil rs r) as [q Hq]. exists q. rewrite <- J. exact Hq.
Qed.

(* ------------------------------------------------------------------ *)
(* hostwatch_ready                                                     *)

Lemma join_cons_nonnil sep l ls : ls <> [] -> join sep (l :: ls) = l ++ sep :: join sep ls.
Proof. destruct ls; [contradiction|reflexivity]. Qed.

Lemma join_removelast_last ls : ls <> [] ->
  join NL (removelast ls ++ [[]]) ++ last ls [] = join NL ls.
Proof.
  induction ls as [|l t IH]; intros H; [contradiction|].
  destruct t as [|l2 t2]; [reflexivity|].
  rewrite removelast_cons_nonnil, last_cons_nonnil by discriminate.
  change ((l :: removelast (l2 :: t2)) ++ [[]]) with (l :: (removelast (l2 :: t2) ++ [[]])).
  rewrite !join_cons_nonnil
    by (first [discriminate | intros E; apply app_eq_nil in E; destruct E; discriminate]).
  rewrite <- app_assoc. cbn [app]. rewrite IH by discriminate. reflexivity.
Qed.

(* the payload and the new leftover of one call, in stream vocabulary *)
Definition payload_of (s : bytes) : bytes := join NL (records s ++ [[]]).

Lemma hw_ready_spec lo c : c <> [] ->
  hw_ready lo c =
  if MUX_MAX <? lenN (payload_of (lo ++ c)) then HwAssert
  else HwOk (tail_of (lo ++ c)) (payload_of (lo ++ c)).
Proof.
  intros Hc. destruct c as [|c0 c']; [contradiction|].
  unfold hw_ready, payload_of, records, tail_of.
  set (s := lo ++ c0 :: c').
  destruct (last (split_on NL s) []) eqn:E; [|reflexivity].
  pose proof (@app_removelast_last bytes (split_on NL s) (@nil ascii : bytes) (split_on_nonnil NL s)) as Hs. rewrite E in Hs.
  match goal with |- _ = (if _ <? lenN ?X then _ else _) =>
    replace X with (join NL (split_on NL s)) by (f_equal; exact Hs) end.
  reflexivity.
Qed.

Lemma payload_tail s : payload_of s ++ tail_of s = s.
Proof.
  unfold payload_of, records, tail_of.
  rewrite join_removelast_last by apply split_on_nonnil. apply join_split.
Qed.

Lemma split_payload s : split_on NL (payload_of s) = records s ++ [[]].
Proof.
  unfold payload_of. apply split_join.
  - intros H. apply app_eq_nil in H. destruct H; discriminate.
  - apply Forall_app. split; [|repeat constructor; intros []].
    unfold records. apply Forall_removelast. apply split_no_sep.
Qed.

Lemma payload_complete s : complete (payload_of s).
Proof.
  unfold complete, tail_of. rewrite split_payload. apply last_app_nonnil. discriminate.
Qed.

Lemma payload_records s : records (payload_of s) = records s.
Proof. unfold records at 1. rewrite split_payload. apply removelast_last. Qed.

(* ------------------------------------------------------------------ *)
(* the chunked run computes the stream-level specification             *)

Lemma tail_of_nosep lo : ~ In NL lo -> tail_of lo = lo.
Proof. intros H. unfold tail_of. rewrite split_on_nosep by assumption. reflexivity. Qed.

Lemma records_nosep lo : ~ In NL lo -> records lo = [].
Proof. intros H. unfold records. rewrite split_on_nosep by assumption. reflexivity. Qed.

Lemma stream_step lo c rest :
  lo ++ c ++ rest = payload_of (lo ++ c) ++ (tail_of (lo ++ c) ++ rest).
Proof. rewrite (app_assoc (payload_of _)), payload_tail, <- app_assoc. reflexivity. Qed.

Lemma hw_run_spec : forall chunks lo, ~ In NL lo ->
  let '(ps, lo', st) := hw_run lo chunks in
  st = RunOk ->
  concat ps ++ lo' = lo ++ concat chunks /\
  lo' = tail_of (lo ++ concat chunks) /\
  Forall complete ps /\
  concat (map records ps) = records (lo ++ concat chunks).
Proof.
  induction chunks as [|c cs IH]; intros lo Hlo.
  - cbn [hw_run concat map]. intros _. rewrite app_nil_r.
    rewrite tail_of_nosep, records_nosep by assumption. repeat split. constructor.
  - cbn [hw_run concat]. destruct c as [|c0 c'] eqn:Ec.
    + cbn [hw_ready]. discriminate.
    + rewrite <- Ec. assert (Hc : c <> []) by (rewrite Ec; discriminate).
      rewrite hw_ready_spec by assumption.
      destruct (MUX_MAX <? lenN (payload_of (lo ++ c))); [discriminate|].
      specialize (IH (tail_of (lo ++ c)) (tail_no_nl _)).
      destruct (hw_run (tail_of (lo ++ c)) cs) as [[ps lo'] st].
      intros Hst. destruct (IH Hst) as (H1 & H2 & H3 & H4).
      rewrite (stream_step lo c (concat cs)).
      pose proof (payload_complete (lo ++ c)) as Hp.
      cbn [concat map]. repeat split.
      * rewrite <- app_assoc, H1. reflexivity.
      * rewrite tail_complete_app by assumption. exact H2.
      * constructor; assumption.
      * rewrite records_complete_app by assumption. rewrite H4. reflexivity.
Qed.

(* the Mux.send assertion cannot fail while every scanner line stays below the bound *)
Definition LINE_MAX : N := 61439.        (* + newline = 61440 = 65536 - 4096 *)

Lemma first_line_bound lo x B : ~ In NL lo ->
  Forall (fun l => lenN l <= B) (split_on NL (lo ++ x)) -> lenN lo <= B.
Proof.
  intros Hlo HF. rewrite split_app, split_on_nosep in HF by assumption.
  cbn [glue app] in HF. inversion HF as [|? ? H1 _]; subst.
  rewrite lenN_app in H1. lia.
Qed.

Lemma hw_run_no_assert : forall chunks lo, ~ In NL lo ->
  Forall (fun c => lenN c <= 4096) chunks ->
  Forall (fun l => lenN l <= LINE_MAX) (split_on NL (lo ++ concat chunks)) ->
  snd (hw_run lo chunks) <> RunAssert.
Proof.
  induction chunks as [|c cs IH]; intros lo Hlo Hc HF; [discriminate|].
  cbn [hw_run concat] in *. inversion Hc as [|? ? Hc1 Hc2]; subst.
  destruct c as [|c0 c'] eqn:Ec; [cbn; discriminate|].
  rewrite <- Ec in *. assert (Hne : c <> []) by (rewrite Ec; discriminate).
  rewrite hw_ready_spec by assumption.
  pose proof (first_line_bound lo (c ++ concat cs) LINE_MAX Hlo HF) as Hb.
  pose proof (payload_tail (lo ++ c)) as Hpt.
  assert (Hlen : lenN (payload_of (lo ++ c)) <= MUX_MAX).
  { apply (f_equal lenN) in Hpt. rewrite !lenN_app in Hpt. unfold MUX_MAX, LINE_MAX in *. lia. }
  apply N.ltb_ge in Hlen. rewrite Hlen.
  rewrite (stream_step lo c (concat cs)) in HF.
  rewrite split_complete_app in HF by apply payload_complete.
  apply Forall_app in HF. destruct HF as [_ HF].
  specialize (IH (tail_of (lo ++ c)) (tail_no_nl _) Hc2 HF).
  destruct (hw_run (tail_of (lo ++ c)) cs) as [[ps lo'] st]. exact IH.
Qed.

(* ------------------------------------------------------------------ *)
(* character classes (finite case analysis on the 256 bytes)           *)

Ltac ascii_cases c :=
  destruct c as [[] [] [] [] [] [] [] []]; vm_compute; try reflexivity; try discriminate;
  try (intros; congruence).

Lemma name_lt128 c : is_name_b c = true -> (cN c <? 128) = true.
Proof. ascii_cases c. Qed.
Lemma ipch_lt128 c : is_ipch_b c = true -> (cN c <? 128) = true.
Proof. ascii_cases c. Qed.
Lemma digit_ipch c : is_digit_b c = true -> is_ipch_b c = true.
Proof. ascii_cases c. Qed.
Lemma name_not_comma c : is_name_b c = true -> c <> COMMA.
Proof. ascii_cases c. Qed.
Lemma name_not_space c : is_name_b c = true -> is_space_s c = false.
Proof. ascii_cases c. Qed.
Lemma ipch_not_space c : is_ipch_b c = true -> is_space_s c = false.
Proof. ascii_cases c. Qed.
Lemma name_not_nl c : is_name_b c = true -> c <> NL.
Proof. ascii_cases c. Qed.
Lemma ipch_not_nl c : is_ipch_b c = true -> c <> NL.
Proof. ascii_cases c. Qed.

Lemma forallb_impl {A} (f g : A -> bool) l :
  (forall x, f x = true -> g x = true) -> forallb f l = true -> forallb g l = true.
Proof.
  intros H. rewrite !forallb_forall. intros Hf x Hx. apply H, Hf, Hx.
Qed.

Lemma forallb_not_in (f : ascii -> bool) l x : forallb f l = true -> f x = false -> ~ In x l.
Proof.
  rewrite forallb_forall. intros Hf Hx Hin. apply Hf in Hin. congruence.
Qed.

(* ------------------------------------------------------------------ *)
(* valid_name / valid_ip                                               *)

Lemma valid_name_inv n : valid_name n = true -> n <> [] /\ forallb is_name_b n = true.
Proof. destruct n; [discriminate|]. intros H. split; [discriminate|exact H]. Qed.

Lemma octet_ok_inv p : octet_ok p = true -> p <> [] /\ forallb is_digit_b p = true.
Proof.
  destruct p; [discriminate|]. unfold octet_ok. intros H.
  apply andb_prop in H. destruct H as [H _]. apply andb_prop in H. destruct H as [H _].
  split; [discriminate|exact H].
Qed.

Lemma valid_ip_inv ip : valid_ip ip = true ->
  exists a b c d, ip = a ++ DOT :: b ++ DOT :: c ++ DOT :: d /\
    octet_ok a = true /\ octet_ok b = true /\ octet_ok c = true /\ octet_ok d = true.
Proof.
  unfold valid_ip. intros H. pose proof (join_split DOT ip) as J.
  destruct (split_on DOT ip) as [|a [|b [|c [|d [|e r]]]]]; try discriminate.
  exists a, b, c, d. split; [symmetry; exact J|].
  apply andb_prop in H. destruct H as [H Hd]. apply andb_prop in H. destruct H as [H Hc].
  apply andb_prop in H. destruct H as [Ha Hb]. auto.
Qed.

Lemma valid_ip_chars ip : valid_ip ip = true -> forallb is_ipch_b ip = true.
Proof.
  intros H. destruct (valid_ip_inv ip H) as (a & b & c & d & -> & Ha & Hb & Hc & Hd).
  apply octet_ok_inv in Ha, Hb, Hc, Hd.
  destruct Ha as [_ Ha], Hb as [_ Hb], Hc as [_ Hc], Hd as [_ Hd].
  apply (forallb_impl _ _ _ digit_ipch) in Ha, Hb, Hc, Hd.
  rewrite !forallb_app. cbn [forallb]. rewrite !forallb_app. cbn [forallb]. rewrite !forallb_app. cbn [forallb].
  rewrite Ha, Hb, Hc, Hd. reflexivity.
Qed.

Lemma valid_ip_last ip : valid_ip ip = true ->
  exists i' x, ip = i' ++ [x] /\ is_digit_b x = true.
Proof.
  intros H. destruct (valid_ip_inv ip H) as (a & b & c & d & -> & _ & _ & _ & Hd).
  apply octet_ok_inv in Hd. destruct Hd as [Hn Hd].
  destruct (exists_last Hn) as (d' & x & ->).
  rewrite forallb_app in Hd. apply andb_prop in Hd. destruct Hd as [_ Hx]. cbn in Hx.
  rewrite andb_true_r in Hx.
  exists (a ++ DOT :: b ++ DOT :: c ++ DOT :: d'), x. split; [|exact Hx].
  rewrite <- !app_assoc. cbn [app]. rewrite <- !app_assoc. cbn [app]. rewrite <- !app_assoc. reflexivity.
Qed.

Lemma sethostip_valid n i : valid_name n = true -> valid_ip i = true ->
  sethostip n i = Some (host_line n i).
Proof.
  intros Hn Hi. unfold sethostip.
  destruct (valid_name_inv n Hn) as [_ Hn']. rewrite Hn'. rewrite (valid_ip_chars i Hi). reflexivity.
Qed.

(* ------------------------------------------------------------------ *)
(* the repaired client                                                 *)

Definition record_lines (t : bytes) : list bytes :=
  match split1 COMMA t with
  | Some (n, i) => if valid_name n && valid_ip i then [host_line n i] else []
  | None => []
  end.

Lemma onhostlist_loop_spec toks : onhostlist_loop toks = (flat_map record_lines toks, COk).
Proof.
  induction toks as [|t ts IH]; [reflexivity|].
  cbn [onhostlist_loop flat_map]. unfold record_lines at 1.
  destruct (split1 COMMA t) as [[n i]|]; [|exact IH].
  destruct (valid_name n && valid_ip i) eqn:E; [|exact IH].
  apply andb_prop in E. destruct E as [Hn Hi].
  rewrite sethostip_valid by assumption. rewrite IH. reflexivity.
Qed.

Definition valid_host_line (l : bytes) : Prop :=
  exists n i, valid_name n = true /\ valid_ip i = true /\ l = host_line n i.

Lemma record_lines_valid t : Forall valid_host_line (record_lines t).
Proof.
  unfold record_lines. destruct (split1 COMMA t) as [[n i]|]; [|constructor].
  destruct (valid_name n && valid_ip i) eqn:E; [|constructor].
  apply andb_prop in E. destruct E as [Hn Hi]. repeat constructor. exists n, i. auto.
Qed.

Lemma flat_map_Forall {A B} (P : B -> Prop) (f : A -> list B) l :
  (forall x, Forall P (f x)) -> Forall P (flat_map f l).
Proof.
  intros H. induction l as [|a l IH]; [constructor|]. cbn [flat_map]. apply Forall_app. split; auto.
Qed.

Lemma onhostlist_ok p :
  snd (onhostlist p) = COk /\ Forall valid_host_line (fst (onhostlist p)).
Proof.
  unfold onhostlist. rewrite onhostlist_loop_spec. split; [reflexivity|].
  apply flat_map_Forall. apply record_lines_valid.
Qed.

Lemma client_run_ok payloads :
  snd (client_run onhostlist payloads) = COk /\
  fst (client_run onhostlist payloads) = flat_map (fun p => fst (onhostlist p)) payloads.
Proof.
  induction payloads as [|p ps IH]; [split; reflexivity|].
  cbn [client_run flat_map]. destruct (onhostlist_ok p) as [Ho _].
  destruct (onhostlist p) as [ls o]. cbn [snd fst] in *. subst o.
  destruct (client_run onhostlist ps) as [ls' o']. cbn [snd fst] in *.
  destruct IH as [-> ->]. split; reflexivity.
Qed.

Lemma client_run_lines payloads : Forall valid_host_line (fst (client_run onhostlist payloads)).
Proof.
  destruct (client_run_ok payloads) as [_ ->]. apply flat_map_Forall.
  intros p. apply onhostlist_ok.
Qed.

(* ------------------------------------------------------------------ *)
(* the helper                                                          *)

Lemma rstrip_snoc_keep sp s c : sp c = false -> rstrip sp (s ++ [c]) = s ++ [c].
Proof.
  intros H. induction s as [|a s IH]; cbn [app rstrip]; [rewrite H; reflexivity|].
  rewrite IH. destruct (s ++ [c]) eqn:E; [apply app_eq_nil in E; destruct E; discriminate|reflexivity].
Qed.

Lemma rstrip_snoc_drop sp s c : sp c = true -> rstrip sp (s ++ [c]) = rstrip sp s.
Proof.
  intros H. induction s as [|a s IH]; cbn [app rstrip]; [rewrite H; reflexivity|].
  rewrite IH. reflexivity.
Qed.

Lemma split1_app sep a b : ~ In sep a -> split1 sep (a ++ sep :: b) = Some (a, b).
Proof.
  induction a as [|c a IH]; intros H; cbn [app split1].
  - rewrite Ascii.eqb_refl. reflexivity.
  - destruct (Ascii.eqb c sep) eqn:E.
    + apply Ascii.eqb_eq in E. exfalso. apply H. left. exact E.
    + rewrite IH; [reflexivity|]. intros Hin. apply H. right. exact Hin.
Qed.

Lemma helper_line_host n i : valid_name n = true -> valid_ip i = true ->
  helper_line (host_line n i) = HSet n i.
Proof.
  intros Hn Hi. destruct (valid_name_inv n Hn) as [_ Hn'].
  pose proof (valid_ip_chars i Hi) as Hi'.
  destruct (valid_ip_last i Hi) as (i' & x & Ei & Hx).
  unfold helper_line, host_line, HOST_PREFIX. cbn [app].
  assert (Hasc : forallb (fun c => cN c <? 128) (n ++ COMMA :: i ++ [NL]) = true).
  { rewrite forallb_app. cbn [forallb]. rewrite forallb_app. cbn [forallb].
    rewrite (forallb_impl _ _ _ name_lt128 Hn'), (forallb_impl _ _ _ ipch_lt128 Hi'). reflexivity. }
  cbn [forallb]. rewrite Hasc. cbn [andb negb].
  (* strip *)
  unfold strip. cbn [lstrip]. change (is_space_s "H") with false. cbv iota.
  set (body := "H"%char :: "O"%char :: "S"%char :: "T"%char :: " "%char :: n ++ COMMA :: i).
  assert (Hs : rstrip is_space_s (body ++ [NL]) = body).
  { rewrite rstrip_snoc_drop by reflexivity.
    unfold body. rewrite Ei.
    replace ("H"%char :: "O"%char :: "S"%char :: "T"%char :: " "%char :: n ++ COMMA :: i' ++ [x])
      with (("H"%char :: "O"%char :: "S"%char :: "T"%char :: " "%char :: n ++ COMMA :: i') ++ [x])
      by (cbn [app]; rewrite <- app_assoc; reflexivity).
    apply rstrip_snoc_keep. apply ipch_not_space. apply digit_ipch. exact Hx. }
  replace ("H"%char :: "O"%char :: "S"%char :: "T"%char :: " "%char :: n ++ COMMA :: i ++ [NL])
    with (body ++ [NL]) by (unfold body; cbn [app]; rewrite <- app_assoc; reflexivity).
  rewrite Hs. unfold body.
  cbn [starts_with]. rewrite !Ascii.eqb_refl. cbn [andb].
  change (dropN 5 ("H"%char :: "O"%char :: "S"%char :: "T"%char :: " "%char :: n ++ COMMA :: i))
    with (n ++ COMMA :: i).
  rewrite split1_app; [reflexivity|].
  intros Hin. rewrite forallb_forall in Hn'. apply Hn' in Hin. apply name_not_comma in Hin. congruence.
Qed.

Definition valid_entry (e : bytes * bytes) : Prop :=
  valid_name (fst e) = true /\ valid_ip (snd e) = true.

Lemma hm_set_valid n i hm : valid_entry (n, i) -> Forall valid_entry hm ->
  Forall valid_entry (hm_set n i hm).
Proof.
  intros He. induction hm as [|[n' i'] hm IH]; intros HF; cbn [hm_set].
  - constructor; [exact He|constructor].
  - inversion HF; subst.
    destruct (bytes_eqb n' n); [constructor; assumption|].
    destruct (bytes_ltb n n'); [constructor; assumption|].
    constructor; [assumption|]. apply IH. assumption.
Qed.

(* --- the helper's reader: one valid HOST line is one result of readline --- *)

Lemma host_line_body n i :
  host_line n i = (HOST_PREFIX ++ n ++ COMMA :: i) ++ DialogueLib.nl :: [].
Proof. unfold host_line. rewrite <- !app_assoc. reflexivity. Qed.

Lemma host_body_nosep n i : valid_name n = true -> valid_ip i = true ->
  DialogueLib.nosep DialogueLib.nl (HOST_PREFIX ++ n ++ COMMA :: i) = true.
Proof.
  intros Hn Hi. destruct (valid_name_inv n Hn) as [_ Hn'].
  pose proof (valid_ip_chars i Hi) as Hi'.
  unfold DialogueLib.nosep. rewrite forallb_app. apply andb_true_intro. split; [reflexivity|].
  rewrite forallb_app. apply andb_true_intro. split.
  - eapply forallb_impl; [|exact Hn']. intros x Hx. apply name_not_nl in Hx.
    apply negb_true_iff. apply Ascii.eqb_neq. exact Hx.
  - cbn [forallb]. apply andb_true_intro. split; [reflexivity|].
    eapply forallb_impl; [|exact Hi']. intros x Hx. apply ipch_not_nl in Hx.
    apply negb_true_iff. apply Ascii.eqb_neq. exact Hx.
Qed.

Lemma line_fits_body lim n i : line_fits lim (host_line n i) ->
  DialogueLib.fits lim (HOST_PREFIX ++ n ++ COMMA :: i) = true.
Proof.
  destruct lim as [k|]; [|reflexivity]. unfold line_fits, DialogueLib.fits.
  rewrite host_line_body, lenN_app. intros H. apply N.leb_le.
  change (lenN [DialogueLib.nl]) with 1 in H. exact H.
Qed.

Lemma chunks_host_line lim n i rest : valid_name n = true -> valid_ip i = true ->
  line_fits lim (host_line n i) ->
  DialogueLib.chunks lim (host_line n i ++ rest) = host_line n i :: DialogueLib.chunks lim rest.
Proof.
  intros Hn Hi Hf. rewrite host_line_body, <- app_assoc. cbn [app].
  apply DialogueLib.chunks_line; [apply host_body_nosep; assumption|apply line_fits_body; exact Hf].
Qed.

(* every valid HOST line that fits is read back exactly as it was written *)
Lemma helper_stdin_lines lim ls : Forall valid_host_line ls -> Forall (line_fits lim) ls ->
  helper_stdin lim ls = ls.
Proof.
  unfold helper_stdin. induction ls as [|l ls IH]; intros Hv Hl.
  - apply DialogueLib.chunks_nil.
  - inversion Hv as [|? ? (n & i & Hn & Hi & ->) Hv']; subst.
    inversion Hl as [|? ? Hl1 Hl']; subst.
    cbn [concat]. rewrite chunks_host_line by assumption. rewrite IH by assumption. reflexivity.
Qed.

(* the whole-line reader: nothing to fit *)
Lemma line_fits_whole lim : lim = None -> forall ls : list bytes, Forall (line_fits lim) ls.
Proof. intros -> ls. apply Forall_forall. intros l _. exact I. Qed.

Lemma line_fits_some n ls : Forall (fun l => lenN l <= n) ls -> Forall (line_fits (Some n)) ls.
Proof. intros H. exact H. Qed.

Lemma helper_reads_valid : forall ls hm,
  Forall valid_entry hm ->
  Forall valid_host_line ls ->
  snd (helper_reads hm ls) = None /\ Forall valid_entry (fst (helper_reads hm ls)).
Proof.
  induction ls as [|l ls IH]; intros hm Hhm Hv; [split; [reflexivity|exact Hhm]|].
  inversion Hv as [|? ? (n & i & Hn & Hi & ->) Hv']; subst.
  cbn [helper_reads]. rewrite helper_line_host by assumption.
  apply IH; [|assumption].
  apply hm_set_valid; [split; assumption|assumption].
Qed.

Lemma helper_run_valid lim : forall ls hm,
  Forall valid_entry hm ->
  Forall valid_host_line ls ->
  Forall (line_fits lim) ls ->
  snd (helper_run lim hm ls) = None /\ Forall valid_entry (fst (helper_run lim hm ls)).
Proof.
  intros ls hm Hhm Hv Hl. unfold helper_run. rewrite helper_stdin_lines by assumption.
  apply helper_reads_valid; assumption.
Qed.

(* each record is delivered exactly once, in order: the helper's host map is the
   fold of the records, and the helper is still waiting for more *)
Definition valid_rec (r : bytes * bytes) : Prop :=
  valid_name (fst r) = true /\ valid_ip (snd r) = true.

Definition rec_line (r : bytes * bytes) : bytes := host_line (fst r) (snd r).

Lemma rec_lines_valid recs : Forall valid_rec recs -> Forall valid_host_line (map rec_line recs).
Proof.
  intros H. apply Forall_map. eapply Forall_impl; [|exact H].
  intros [n i] [Hn Hi]. exists n, i. auto.
Qed.

Lemma helper_reads_delivers : forall recs hm, Forall valid_rec recs ->
  helper_reads hm (map rec_line recs) = (delivered hm recs, None).
Proof.
  induction recs as [|[n i] recs IH]; intros hm Hv; [reflexivity|].
  inversion Hv as [|? ? [Hn Hi] Hv']; subst. cbn [fst snd] in *.
  cbn [map helper_reads]. unfold rec_line at 1. cbn [fst snd].
  rewrite helper_line_host by assumption. rewrite IH by assumption. reflexivity.
Qed.

Lemma helper_run_delivers lim recs hm : Forall valid_rec recs ->
  Forall (line_fits lim) (map rec_line recs) ->
  helper_run lim hm (map rec_line recs) = (delivered hm recs, None).
Proof.
  intros Hv Hl. unfold helper_run.
  rewrite helper_stdin_lines by (try apply rec_lines_valid; assumption).
  apply helper_reads_delivers. exact Hv.
Qed.

(* the client's HOST lines are the lines of valid records *)
Lemma valid_lines_recs ls : Forall valid_host_line ls ->
  exists recs, Forall valid_rec recs /\ ls = map rec_line recs.
Proof.
  induction 1 as [|l ls (n & i & Hn & Hi & ->) _ (recs & Hr & ->)].
  - exists []. split; [constructor|reflexivity].
  - exists ((n, i) :: recs). split; [constructor; [split; assumption|exact Hr]|reflexivity].
Qed.

Lemma hosts_lines_wf marker hm : Forall valid_entry hm -> Forall (wf_line marker) (hosts_lines marker hm).
Proof.
  intros H. unfold hosts_lines. apply Forall_map. eapply Forall_impl; [|exact H].
  intros [n i] [Hn Hi]. exists i, n. cbn [fst snd] in *. auto.
Qed.

(* the whole client + helper pipeline, for every reader limit the lines fit *)
Lemma pipeline_line_form lim marker payloads :
  let ls := fst (client_run onhostlist payloads) in
  Forall (line_fits lim) ls ->
  snd (client_run onhostlist payloads) = COk /\
  snd (helper_run lim [] ls) = None /\
  Forall (wf_line marker) (hosts_lines marker (fst (helper_run lim [] ls))).
Proof.
  intros ls Hl. split; [apply client_run_ok|].
  destruct (helper_run_valid lim ls [] (Forall_nil _) (client_run_lines payloads) Hl) as [H1 H2].
  split; [exact H1|]. apply hosts_lines_wf. exact H2.
Qed.

(* ... and what is delivered: the client's lines are the lines of valid records and the
   helper's host map is exactly their fold (each once, in order) *)
Lemma pipeline_delivers lim payloads :
  let ls := fst (client_run onhostlist payloads) in
  Forall (line_fits lim) ls ->
  exists recs, Forall valid_rec recs /\ ls = map rec_line recs /\
    helper_run lim [] ls = (delivered [] recs, None).
Proof.
  intros ls Hl. destruct (valid_lines_recs ls (client_run_lines payloads)) as (recs & Hr & E).
  exists recs. split; [exact Hr|]. split; [exact E|].
  rewrite E in Hl |- *. apply helper_run_delivers; assumption.
Qed.

(* ------------------------------------------------------------------ *)
(* the fields of a hosts line, as a whitespace-splitting reader sees it *)

Lemma ws_split_space sp c r : sp c = true -> ws_split sp (c :: r) = ws_split sp r.
Proof. intros H. cbn [ws_split]. rewrite H. reflexivity. Qed.

Lemma ws_split_cons2 sp x y r : sp x = false -> sp y = false ->
  ws_split sp (x :: y :: r) =
  match ws_split sp (y :: r) with w :: ws => (x :: w) :: ws | [] => [[x]] end.
Proof. intros Hx Hy. cbn [ws_split]. rewrite Hx, Hy. reflexivity. Qed.

Lemma ws_split_cons1 sp x c r : sp x = false -> sp c = true ->
  ws_split sp (x :: c :: r) = [x] :: ws_split sp r.
Proof. intros Hx Hc. cbn [ws_split]. rewrite Hx, Hc. reflexivity. Qed.

Lemma ws_split_word sp w c r : w <> [] -> forallb (fun x => negb (sp x)) w = true -> sp c = true ->
  ws_split sp (w ++ c :: r) = w :: ws_split sp r.
Proof.
  intros Hw Hf Hc. induction w as [|x w IH]; [contradiction|].
  cbn [forallb] in Hf. apply andb_prop in Hf. destruct Hf as [Hx Hf].
  apply negb_true_iff in Hx.
  destruct w as [|y w'].
  - cbn [app]. apply ws_split_cons1; assumption.
  - specialize (IH ltac:(discriminate) Hf).
    cbn [forallb] in Hf. apply andb_prop in Hf. destruct Hf as [Hy _]. apply negb_true_iff in Hy.
    change ((x :: y :: w') ++ c :: r) with (x :: y :: (w' ++ c :: r)).
    rewrite ws_split_cons2 by assumption.
    change (y :: w' ++ c :: r) with ((y :: w') ++ c :: r). rewrite IH. reflexivity.
Qed.

Lemma ws_split_repeat sp c k r : sp c = true -> ws_split sp (repeat c k ++ r) = ws_split sp r.
Proof.
  intros H. induction k as [|k IH]; [reflexivity|]. cbn [repeat app].
  rewrite ws_split_space by assumption. exact IH.
Qed.

Lemma hosts_line_fields marker n i : valid_name n = true -> valid_ip i = true ->
  ws_split is_space_s (hosts_line marker n i) = i :: n :: ws_split is_space_s marker.
Proof.
  intros Hn Hi. destruct (valid_name_inv n Hn) as [Hnn Hn'].
  pose proof (valid_ip_chars i Hi) as Hi'.
  assert (Hin : i <> []).
  { destruct (valid_ip_last i Hi) as (i' & x & -> & _). intros E. apply app_eq_nil in E. destruct E; discriminate. }
  unfold hosts_line, pad30.
  rewrite <- !app_assoc. cbn [app]. rewrite <- ?app_assoc.
  rewrite ws_split_word; [|assumption| |reflexivity].
  2:{ eapply forallb_impl; [|exact Hi']. intros x Hx. rewrite (ipch_not_space x Hx). reflexivity. }
  f_equal.
  set (k := (30 - length (i ++ SP :: n))%nat).
  assert (Hrep : forall m, repeat SP m ++ SP :: marker = SP :: repeat SP m ++ marker).
  { induction m as [|m IH]; [reflexivity|]. cbn [repeat app]. rewrite IH. reflexivity. }
  rewrite Hrep.
  rewrite ws_split_word; [|assumption| |reflexivity].
  2:{ eapply forallb_impl; [|exact Hn']. intros x Hx. rewrite (name_not_space x Hx). reflexivity. }
  f_equal. apply ws_split_repeat. reflexivity.
Qed.

Lemma hosts_line_no_nl marker n i : valid_name n = true -> valid_ip i = true ->
  ~ In NL marker -> ~ In NL (hosts_line marker n i).
Proof.
  intros Hn Hi Hm. destruct (valid_name_inv n Hn) as [_ Hn'].
  pose proof (valid_ip_chars i Hi) as Hi'.
  rewrite forallb_forall in Hn', Hi'.
  unfold hosts_line, pad30. intros H.
  apply in_app_or in H. destruct H as [H|[H|H]]; [|discriminate|contradiction].
  apply in_app_or in H. destruct H as [H|H]; [|apply repeat_spec in H; discriminate].
  apply in_app_or in H. destruct H as [H|[H|H]]; [|discriminate|].
  - apply Hi' in H. apply ipch_not_nl in H. congruence.
  - apply Hn' in H. apply name_not_nl in H. congruence.
Qed.

(* ------------------------------------------------------------------ *)
(* the scanner                                                         *)

Lemma ustr_eqb_refl s : ustr_eqb s s = true.
Proof. induction s as [|c s IH]; [reflexivity|]. cbn [ustr_eqb]. rewrite N.eqb_refl. exact IH. Qed.

Lemma cut_dots_no_dot : forall s b, ~ In 46 (cut_dots_aux b s).
Proof.
  induction s as [|c s IH]; intros b; [intros []|].
  cbn [cut_dots_aux]. destruct b.
  - destruct (c =? 10) eqn:E; [|apply IH].
    apply N.eqb_eq in E. subst c. intros [H|H]; [discriminate|]. exact (IH false H).
  - destruct (c =? 46) eqn:E; [apply IH|].
    apply N.eqb_neq in E. intros [H|H]; [congruence|]. exact (IH false H).
Qed.

Lemma cut_dots_id s : ~ In 46 s -> cut_dots_aux false s = s.
Proof.
  induction s as [|c s IH]; intros H; [reflexivity|].
  cbn [cut_dots_aux]. destruct (c =? 46) eqn:E.
  - apply N.eqb_eq in E. exfalso. apply H. left. exact E.
  - rewrite IH; [reflexivity|]. intros Hin. apply H. right. exact Hin.
Qed.

Lemma ukeep_95 T : ukeep T 95 = true.
Proof. reflexivity. Qed.

Lemma sanitise_no_dot T s : ~ In 46 s -> ~ In 46 (sanitise T 95 s).
Proof.
  unfold sanitise. intros H Hin. apply in_map_iff in Hin. destruct Hin as (c & Hc & Hin).
  destruct (ukeep T c); [subst c; contradiction|discriminate].
Qed.

Lemma sanitise_idem T s : sanitise T 95 (sanitise T 95 s) = sanitise T 95 s.
Proof.
  unfold sanitise. rewrite map_map. apply map_ext. intros c.
  destruct (ukeep T c) eqn:E; [rewrite E; reflexivity|]. rewrite ukeep_95. reflexivity.
Qed.

Lemma short_name_no_dot T name : ~ In 46 (short_name T name).
Proof. unfold short_name. apply sanitise_no_dot. apply cut_dots_no_dot. Qed.

Lemma short_name_fix T name : short_name T (short_name T name) = short_name T name.
Proof.
  unfold short_name at 1. unfold cut_dots. rewrite cut_dots_id by apply short_name_no_dot.
  unfold short_name. apply sanitise_idem.
Qed.

Lemma short_name_chars T name : Forall (fun c => ukeep T c = true /\ c <> 46) (short_name T name).
Proof.
  pose proof (short_name_no_dot T name) as Hd. rewrite Forall_forall. intros c Hc. split.
  - unfold short_name, sanitise in Hc. apply in_map_iff in Hc. destruct Hc as (x & Hx & _).
    destruct (ukeep T x) eqn:E; subst c; [exact E|apply ukeep_95].
  - intros ->. contradiction.
Qed.

(* the emissions of one found_host call *)
Definition emits_ok (T : utables) (name ip : ustr) (out : list (ustr * ustr)) : Prop :=
  Forall (fun r => snd r = ip /\ (fst r = name \/ fst r = short_name T name)) out.

Lemma found_host_fuel T st name ip :
  exists st' out, found_host T FH_FUEL st name ip = FhOk st' out /\ emits_ok T name ip out.
Proof.
  unfold FH_FUEL, emits_ok. cbn [found_host].
  destruct (ustarts _ ip || ustarts _ ip || ustr_eqb (short_name T name) _) eqn:Ef.
  - exists st, []. split; [reflexivity|constructor].
  - rewrite short_name_fix. rewrite Ef. rewrite ustr_eqb_refl.
    set (h := short_name T name).
    assert (Hinner : exists st1 out1,
      (if ustr_eqb h name then FhOk st []
       else match st_get st h with
            | Some old => if ustr_eqb old ip then FhOk st [] else FhOk (st_set st h ip) ([] ++ [(h, ip)])
            | None => FhOk (st_set st h ip) ([] ++ [(h, ip)])
            end) = FhOk st1 out1 /\
      Forall (fun r => snd r = ip /\ (fst r = name \/ fst r = h)) out1).
    { destruct (ustr_eqb h name); [exists st, []; split; [reflexivity|constructor]|].
      destruct (st_get st h) as [old|].
      - destruct (ustr_eqb old ip); [exists st, []; split; [reflexivity|constructor]|].
        eexists _, _. split; [reflexivity|]. cbn [app]. constructor; [split; [reflexivity|right; reflexivity]|constructor].
      - eexists _, _. split; [reflexivity|]. cbn [app]. constructor; [split; [reflexivity|right; reflexivity]|constructor]. }
    destruct Hinner as (st1 & out1 & -> & Hout1).
    destruct (st_get st1 name) as [old|].
    + destruct (ustr_eqb old ip); [exists st1, out1; split; [reflexivity|exact Hout1]|].
      eexists _, _. split; [reflexivity|]. apply Forall_app. split; [exact Hout1|].
      constructor; [split; [reflexivity|left; reflexivity]|constructor].
    + eexists _, _. split; [reflexivity|]. apply Forall_app. split; [exact Hout1|].
      constructor; [split; [reflexivity|left; reflexivity]|constructor].
Qed.

Lemma found_hosts_fuel T : forall calls st, found_hosts T st calls <> FhFuel.
Proof.
  induction calls as [|[n i] calls IH]; intros st; [discriminate|].
  cbn [found_hosts]. destruct (found_host_fuel T st n i) as (st1 & o1 & -> & _).
  specialize (IH st1). destruct (found_hosts T st1 calls); [discriminate|contradiction].
Qed.

(* ------------------------------------------------------------------ *)
(* totality of the relay under the stated bounds                       *)

Lemma hw_run_ok : forall chunks lo, ~ In NL lo ->
  Forall (fun c => c <> [] /\ lenN c <= 4096) chunks ->
  Forall (fun l => lenN l <= LINE_MAX) (split_on NL (lo ++ concat chunks)) ->
  snd (hw_run lo chunks) = RunOk.
Proof.
  induction chunks as [|c cs IH]; intros lo Hlo Hc HF; [reflexivity|].
  cbn [hw_run concat] in *. inversion Hc as [|? ? [Hne Hc1] Hc2]; subst.
  rewrite hw_ready_spec by assumption.
  pose proof (first_line_bound lo (c ++ concat cs) LINE_MAX Hlo HF) as Hb.
  pose proof (payload_tail (lo ++ c)) as Hpt.
  assert (Hlen : lenN (payload_of (lo ++ c)) <= MUX_MAX).
  { apply (f_equal lenN) in Hpt. rewrite !lenN_app in Hpt. unfold MUX_MAX, LINE_MAX in *. lia. }
  apply N.ltb_ge in Hlen. rewrite Hlen.
  rewrite (stream_step lo c (concat cs)) in HF.
  rewrite split_complete_app in HF by apply payload_complete.
  apply Forall_app in HF. destruct HF as [_ HF].
  specialize (IH (tail_of (lo ++ c)) (tail_no_nl _) Hc2 HF).
  destruct (hw_run (tail_of (lo ++ c)) cs) as [[ps lo'] st]. exact IH.
Qed.

(* a complete prefix followed by a newline-free rest is THE decomposition *)
Lemma complete_prefix_unique p r s : complete p -> ~ In NL r -> p ++ r = s ->
  r = tail_of s /\ records p = records s.
Proof.
  intros Hp Hr <-. split.
  - rewrite tail_complete_app by assumption. symmetry. apply tail_of_nosep. assumption.
  - rewrite records_complete_app by assumption. rewrite (records_nosep r Hr). symmetry. apply app_nil_r.
Qed.
