(* Proofs/DgramMixed_lemmas.v — the two-ended datagram system with DNS, UDP and TCP-accept events mixed
   (C10, C11): (1) every frame sequence the client logic emits satisfies the server's preconditions (16-bit
   identifiers, well-formed bodies, never an opening frame on an identifier that is open), so the server loop
   of the composed system never raises and never leaves through Fatal — for every run, with no hypothesis on
   identifier re-use; (2) under the single system-level hypothesis that an identifier is not put on the wire
   for a new flow while anything of its previous incarnation is in flight, the client never raises either.  *)
From Coq Require Import List NArith Ascii Bool Lia Arith.
From SV Require Import Lib.Bytes Lib.DgramLib Model.Chan Proofs.Chan_lemmas Model.Dgram Proofs.Dgram_lemmas
  Model.DgramSys Proofs.DgramServer_lemmas Proofs.DgramSystem_lemmas Gen.Consts.
Import ListNotations.
Local Open Scope N_scope.

(* ------------------------------------------------------------------ *)
(* the shape of an accept step of the client                           *)

Definition kind_cmd (k : ckind) : N :=
  match k with KDns _ _ _ => CMD_DNS_REQ | KUdp _ => CMD_UDP_OPEN | KTcp => CMD_TCP_CONNECT end.

Definition udp_body (Pd : addr -> Prop) (body : bytes) : Prop :=
  exists d data, body = dgram_hdr d (takeN BUFSIZE data) /\ Pd d.

(* what is known about the original destination of a captured UDP datagram *)
Definition udp_dst_ok (Pd : addr -> Prop) (e : cevent) : Prop :=
  match e with EUdp _ _ (Some d) _ => Pd d | _ => True end.

(* the frames that announce the allocation of identifier ch for an entry k *)
Definition pre_for (Pd : addr -> Prop) (cc : ccfg) (ch : N) (k : ckind) (pre : list cout) : Prop :=
  match k with
  | KDns _ _ _ => exists data, pre = [OFrame ch CMD_DNS_REQ data]
  | KUdp _ => exists body, pre = [OFrame ch CMD_UDP_OPEN (dec (cc_family cc)); OFrame ch CMD_UDP_DATA body] /\ udp_body Pd body
  | KTcp => exists body, pre = [OFrame ch CMD_TCP_CONNECT body]
  end.

Definition step_shape (Pd : addr -> Prop) (cc : ccfg) (c c1 : cstate) (pre : list cout) : Prop :=
  (pre = [] /\ c_chan c1 = c_chan c) \/
  (exists ch src body, pre = [OFrame ch CMD_UDP_DATA body] /\ c_chan c1 = c_chan c /\
                       alookup N.eqb ch (c_chan c) = Some (KUdp src) /\ udp_body Pd body) \/
  (exists ch k, alookup N.eqb ch (c_chan c) = None /\ 1 <= ch <= 65535 /\
                c_chan c1 = aset N.eqb ch k (c_chan c) /\ pre_for Pd cc ch k pre /\
                (forall q f a, k = KDns q f a -> q = c_nq c)).

Lemma accept_decomp Pd cc c e c' o :
  cfg_ok' cc -> cinv cc c -> is_accept e = true -> ev_sane cc c e -> udp_dst_ok Pd e ->
  cstep all_fixed cc c e = Ok (c', o) ->
  (c_chan c' = c_chan c /\ c_udp c' = c_udp c /\ o = []) \/
  exists now c1 pre,
    cinv cc c1 /\ o = pre ++ closes now c1 /\
    (forall ch0, alookup N.eqb ch0 (c_chan c') =
                 if mem ch0 (E1 now c1) || mem ch0 (E2 now c1) then None else alookup N.eqb ch0 (c_chan c1)) /\
    step_shape Pd cc c c1 pre.
Proof.
  intros Hcfg I Ha He HPd E. destruct Hcfg as [Hc1 Hc2].
  destruct e as [now src dst payload|now src dst payload|now fam dst|ch data sr|tch]; [| | |discriminate|discriminate]; cbn [cstep] in E.
  - (* ondns *)
    assert (Hskip : cc_method cc = MTproxy -> dst = None -> c' = c /\ o = []).
    { intros Em Ed. unfold ondns in E. rewrite Em, Ed in E. inversion E; subst. auto. }
    assert (G : (cc_method cc = MTproxy -> dst <> None) ->
      exists now c1 pre, cinv cc c1 /\ o = pre ++ closes now c1 /\
        (forall ch0, alookup N.eqb ch0 (c_chan c') =
           if mem ch0 (E1 now c1) || mem ch0 (E2 now c1) then None else alookup N.eqb ch0 (c_chan c1)) /\
        step_shape Pd cc c c1 pre).
    { intros Hd. pose proof (ondns_spec cc now src dst payload c Hc1 I Hd) as SP. cbv zeta in SP.
      destruct (next_channel (cc_maxc cc) (c_occ c) (c_chani c)) as [[ch|] i] eqn:En; cbn [fst] in SP.
      - destruct SP as (Hfree & Hr & c2 & E2 & I1 & _ & _ & _ & _ & _ & _ & LK).
        pose proof (eq_trans (eq_sym E) E2) as X; inversion X; subst c2 o; clear X.
        eexists now, _, [OFrame ch CMD_DNS_REQ (takeN BUFSIZE payload)]. split; [exact I1|]. split.
        { cbn [app]. unfold closes, c_after_dns. cbn [c_udp]. reflexivity. }
        split; [exact LK|]. right. right. eexists ch, _. split; [exact Hfree|]. split; [exact Hr|].
        split; [reflexivity|]. split; [eexists; reflexivity|]. intros q f a [= <- _ _]. reflexivity.
      - clear SP. unfold ondns in E. rewrite (meth_guard _ _ _ _ Hd) in E. rewrite En in E. cbn [fst snd fx3 all_fixed] in E.
        destruct (expire_spec cc now (set_chani c i) (cinv_chani _ _ _ I)) as (c2 & Ee & _ & _ & _ & _ & _ & LK).
        pose proof (eq_trans (eq_sym E) Ee) as X; inversion X; subst c2 o; clear X.
        exists now, (set_chani c i), []. split; [apply cinv_chani; exact I|]. split; [reflexivity|]. split; [exact LK|].
        left. split; reflexivity. }
    destruct (cc_method cc) eqn:Em.
    + right. apply G. intros; discriminate.
    + destruct dst as [d0|]; [right; apply G; intros; discriminate|].
      left. destruct (Hskip eq_refl eq_refl) as [-> ->]. auto.
  - (* onaccept_udp *)
    destruct He as [Hm Hd]. destruct dst as [d0|].
    2:{ unfold onaccept_udp in E. rewrite Hm in E. inversion E; subst. left. auto. }
    destruct Hd as [Hl Hp]. right. unfold onaccept_udp in E. rewrite Hm in E.
    destruct (alookup addr_eqb src (c_udp c)) as [[ch dl0]|] eqn:Hsrc.
    + pose proof (ci_udp _ _ I _ _ _ Hsrc) as Hk.
      destruct (udp_forward_spec cc now src d0 payload ch c [] I Hk Hl Hp) as (c2 & E2 & I1 & _ & _ & _ & _ & _ & _ & LK).
      pose proof (eq_trans (eq_sym E) E2) as X; inversion X; subst c2 o; clear X.
      eexists now, _, [OFrame ch CMD_UDP_DATA (dgram_hdr d0 (takeN BUFSIZE payload))].
      split; [exact I1|]. split; [reflexivity|]. split; [exact LK|]. right. left.
      exists ch, src, (dgram_hdr d0 (takeN BUFSIZE payload)). split; [reflexivity|]. split; [reflexivity|].
      split; [exact Hk|]. exists d0, payload. split; [reflexivity|exact HPd].
    + destruct (next_channel (cc_maxc cc) (c_occ c) (c_chani c)) as [[ch|] i] eqn:En; cbn [fst snd] in E.
      * destruct (next_channel_fresh _ _ _ _ Hc1 En) as (Hfree & Hr & ->).
        set (c0 := {| c_chan := aset N.eqb ch (KUdp src) (c_chan c); c_chani := ch; c_dns := c_dns c;
                      c_udp := c_udp c; c_nq := c_nq c |}) in *.
        assert (I0 : cinv cc c0) by (apply cinv_add_plain; assumption).
        assert (Hl0 : alookup N.eqb ch (c_chan c0) = Some (KUdp src)) by (apply (alookup_aset_same N.eqb Neqb_eq)).
        destruct (udp_forward_spec cc now src d0 payload ch c0 [OFrame ch CMD_UDP_OPEN (dec (cc_family cc))] I0 Hl0 Hl Hp)
          as (c2 & E2 & I1 & _ & _ & _ & _ & _ & _ & LK).
        rewrite mux_check_ok in E; [cbn [bind] in E|lia|apply cmd_small|pose proof (lenN_dec_le _ Hc2); lia].
        pose proof (eq_trans (eq_sym E) E2) as X; inversion X; subst c2 o; clear X.
        eexists now, _, [OFrame ch CMD_UDP_OPEN (dec (cc_family cc)); OFrame ch CMD_UDP_DATA (dgram_hdr d0 (takeN BUFSIZE payload))].
        split; [exact I1|]. split; [reflexivity|]. split; [exact LK|]. right. right.
        exists ch, (KUdp src). split; [exact Hfree|]. split; [exact Hr|]. split; [reflexivity|].
        split; [|intros; discriminate]. eexists. split; [reflexivity|]. exists d0, payload. split; [reflexivity|exact HPd].
      * cbn [fx3 all_fixed] in E.
        destruct (expire_spec cc now (set_chani c i) (cinv_chani _ _ _ I)) as (c2 & Ee & _ & _ & _ & _ & _ & LK).
        pose proof (eq_trans (eq_sym E) Ee) as X; inversion X; subst c2 o; clear X.
        exists now, (set_chani c i), []. split; [apply cinv_chani; exact I|]. split; [reflexivity|]. split; [exact LK|].
        left. split; reflexivity.
  - (* onaccept_tcp *)
    destruct He as (Hl & Hf & Hp). unfold onaccept_tcp in E.
    destruct (next_channel (cc_maxc cc) (c_occ c) (c_chani c)) as [[ch|] i] eqn:En; cbn [fst snd] in E.
    + destruct (next_channel_fresh _ _ _ _ Hc1 En) as (Hfree & Hr & ->). right.
      set (c1 := {| c_chan := aset N.eqb ch KTcp (c_chan c); c_chani := ch; c_dns := c_dns c; c_udp := c_udp c; c_nq := c_nq c |}) in *.
      assert (I1 : cinv cc c1) by (apply cinv_add_plain; auto).
      destruct (expire_spec cc now c1 I1) as (c2 & Ee & _ & _ & _ & _ & _ & LK).
      rewrite mux_check_ok in E; [|lia|apply cmd_small|].
      2:{ rewrite lenN_app, lenN_cons, lenN_app, lenN_cons.
          pose proof (lenN_dec_le _ Hf). pose proof (lenN_dec_le _ Hp). lia. }
      cbn [bind] in E. rewrite Ee in E. cbn [bind] in E. inversion E; subst c' o; clear E.
      eexists now, c1, [_]. split; [exact I1|]. split; [reflexivity|]. split; [exact LK|]. right. right.
      exists ch, KTcp. split; [exact Hfree|]. split; [exact Hr|]. split; [reflexivity|].
      split; [eexists; reflexivity|intros; discriminate].
    + inversion E; subst. left. auto.
Qed.

(* ------------------------------------------------------------------ *)
(* the ghost view of mux.channels and the frames the client emits      *)

Lemma track_app T a b : track T (a ++ b) = track (track T a) b.
Proof. unfold track. apply fold_left_app. Qed.

Lemma no_reopen_app : forall a b T, no_reopen T (a ++ b) <-> no_reopen T a /\ no_reopen (track T a) b.
Proof.
  induction a as [|f a IH]; intros b T; cbn [app no_reopen].
  - unfold track. cbn. tauto.
  - rewrite IH. rewrite track_cons. tauto.
Qed.

Lemma no_reopen_nonopen : forall fs T, Forall (fun f => opens f = false) fs -> no_reopen T fs.
Proof.
  induction fs as [|f tl IH]; intros T H; cbn [no_reopen]; [exact Logic.I|].
  inversion H as [|? ? H1 H2]; subst. split; [rewrite H1; discriminate|apply IH; exact H2].
Qed.

Lemma chan_track_close f T x : f_cmd f = FUdpClose ->
  (mem x (chan_track f T) = true <-> mem x T = true /\ x <> f_ch f).
Proof.
  intros Hc. unfold chan_track. rewrite Hc. destruct (mem (f_ch f) T) eqn:Em.
  - rewrite mem_remove_chan_iff. tauto.
  - split; [|tauto]. intros H. split; [exact H|]. intros ->. congruence.
Qed.

Lemma track_closes : forall fs T x, Forall (fun f => f_cmd f = FUdpClose) fs ->
  mem x (track T fs) = true -> mem x T = true /\ ~ In x (map f_ch fs).
Proof.
  induction fs as [|f tl IH]; intros T x H Hm.
  - split; [exact Hm|intros []].
  - inversion H as [|? ? H1 H2]; subst. rewrite track_cons in Hm. destruct (IH _ _ H2 Hm) as [A B].
    apply (chan_track_close f T x H1) in A. destruct A as [A1 A2]. split; [exact A1|].
    cbn [map In]. intros [C|C]; [exact (A2 (eq_sym C))|exact (B C)].
Qed.

(* the tracked identifiers are held by UDP associations at the client *)
Definition TR (T : list N) (c : cstate) : Prop :=
  forall ch, mem ch T = true -> exists src, alookup N.eqb ch (c_chan c) = Some (KUdp src).

Definition close_frames (q now : N) (c1 : cstate) : list frame :=
  map (fun p => (chan_of p, FUdpClose, [], q)) (filter (udp_expired now) (c_udp c1)).

Lemma up_of_closes q now c1 : flat_map (up_of q) (closes now c1) = close_frames q now c1.
Proof.
  unfold closes, close_frames. induction (filter (udp_expired now) (c_udp c1)) as [|p tl IH]; [reflexivity|].
  cbn [map flat_map up_of app]. rewrite IH. reflexivity.
Qed.

Lemma close_frames_chans q now c1 : map f_ch (close_frames q now c1) = E2 now c1.
Proof. unfold close_frames, E2. rewrite map_map. reflexivity. Qed.

Lemma close_frames_kind q now c1 : Forall (fun f => f_cmd f = FUdpClose) (close_frames q now c1).
Proof. apply Forall_forall. intros f H. apply in_map_iff in H. destruct H as [p [<- _]]. reflexivity. Qed.

Lemma E2_chan cc now c1 ch : cinv cc c1 -> In ch (E2 now c1) -> exists src, alookup N.eqb ch (c_chan c1) = Some (KUdp src).
Proof.
  intros I H. apply mem_In in H. apply mem_E2 in H; [|apply I]. destruct H as (src & dl & Hu & _).
  exists src. exact (ci_udp _ _ I _ _ _ Hu).
Qed.

(* destinations as the kernel hands them out: an address literal (no comma) and a 16-bit port *)
Definition dst_ok (d : addr) : Prop := no_comma (fst d) /\ snd d <= 65535.

Lemma kudp_chan16 cc c ch src : cinv cc c -> alookup N.eqb ch (c_chan c) = Some (KUdp src) -> ch <= 65535.
Proof. intros I H. destruct (ci_chan _ _ I _ _ H) as [A _]. lia. Qed.

Lemma udp_body_ok body : udp_body dst_ok body ->
  exists ip port p, no_comma ip /\ port <= 65535 /\ body = dgram_hdr (ip, port) p.
Proof. intros ([ip port] & data & -> & A & B). exists ip, port, (takeN BUFSIZE data). cbn [fst snd] in *. auto. Qed.

Lemma TR_aset T c ch k c1 : TR T c -> alookup N.eqb ch (c_chan c) = None ->
  c_chan c1 = aset N.eqb ch k (c_chan c) -> TR T c1.
Proof.
  intros Ht Hf Hc x Hx. destruct (Ht x Hx) as [src Hs]. exists src. rewrite Hc.
  rewrite (alookup_aset_other N.eqb Neqb_eq); [exact Hs|]. intros ->. congruence.
Qed.

(* one accept step: the frames it emits are well-formed, never re-open a tracked identifier, and the tracked
   identifiers stay UDP associations of the new client state *)
Lemma accept_conform cc c e c' o T q :
  cfg_ok' cc -> cinv cc c -> is_accept e = true -> ev_sane cc c e -> udp_dst_ok dst_ok e ->
  cstep all_fixed cc c e = Ok (c', o) -> TR T c ->
  let new := flat_map (up_of q) o in
  Forall chan16 new /\ Forall body_ok new /\ no_reopen T new /\ TR (track T new) c'.
Proof.
  intros Hcfg I Ha He Hd E Ht new.
  destruct (accept_decomp dst_ok cc c e c' o Hcfg I Ha He Hd E) as [(Hc & _ & ->)|(now & c1 & pre & I1 & -> & LK & Sh)].
  { subst new. cbn. split; [constructor|]. split; [constructor|]. split; [exact Logic.I|].
    intros x Hx. rewrite Hc. exact (Ht x Hx). }
  subst new. rewrite flat_map_app, up_of_closes.
  set (P := flat_map (up_of q) pre). set (cl := close_frames q now c1).
  assert (Hcl16 : Forall chan16 cl).
  { apply Forall_forall. intros f Hf. assert (In (f_ch f) (E2 now c1)) by (rewrite <- (close_frames_chans q); apply in_map; exact Hf).
    destruct (E2_chan cc now c1 _ I1 H) as [src Hs]. exact (kudp_chan16 _ _ _ _ I1 Hs). }
  assert (Hclb : Forall body_ok cl).
  { pose proof (close_frames_kind q now c1) as K. revert K. apply Forall_impl. intros f Hf. unfold body_ok. rewrite Hf. exact Logic.I. }
  assert (Hclo : Forall (fun f => opens f = false) cl).
  { pose proof (close_frames_kind q now c1) as K. revert K. apply Forall_impl. intros f Hf. unfold opens. rewrite Hf. reflexivity. }
  (* the part before the closes *)
  assert (HP : Forall chan16 P /\ Forall body_ok P /\ no_reopen T P /\ TR (track T P) c1).
  { unfold P. destruct Sh as [[-> Hc]|[(ch & src & body & -> & Hc & Hk & Hb)|(ch & k & Hf & Hr & Hc & Hp & _)]].
    - cbn. split; [constructor|]. split; [constructor|]. split; [exact Logic.I|]. intros x Hx. rewrite Hc. exact (Ht x Hx).
    - cbn [flat_map up_of app]. change (fcmd_of CMD_UDP_DATA) with FUdpData.
      split; [constructor; [exact (kudp_chan16 _ _ _ _ I Hk)|constructor]|].
      split; [constructor; [exact (udp_body_ok _ Hb)|constructor]|].
      split; [cbn; split; [discriminate|exact Logic.I]|]. intros x Hx. rewrite Hc. exact (Ht x Hx).
    - assert (Hfree : mem ch T = false).
      { destruct (mem ch T) eqn:Em; [|reflexivity]. destruct (Ht _ Em) as [src Hs]. congruence. }
      assert (H16 : chan16 (ch, FOther, @nil ascii, q)) by (unfold chan16, f_ch; cbn; lia).
      destruct k as [q0 f0 a0|src|]; cbn [pre_for] in Hp.
      + destruct Hp as [data ->]. cbn [flat_map up_of app]. change (fcmd_of CMD_DNS_REQ) with FDnsReq.
        split; [constructor; [exact H16|constructor]|]. split; [constructor; [exact Logic.I|constructor]|].
        split; [cbn; split; [intros _; exact Hfree|exact Logic.I]|]. exact (TR_aset _ _ _ _ _ Ht Hf Hc).
      + destruct Hp as (body & -> & Hb). cbn [flat_map up_of app].
        change (fcmd_of CMD_UDP_OPEN) with FUdpOpen. change (fcmd_of CMD_UDP_DATA) with FUdpData.
        split; [constructor; [exact H16|constructor; [exact H16|constructor]]|].
        split. { constructor; [unfold body_ok, f_cmd, f_data; cbn [fst snd]; rewrite undec_dec; discriminate|].
                 constructor; [exact (udp_body_ok _ Hb)|constructor]. }
        split. { cbn [no_reopen]. split; [intros _; exact Hfree|]. split; [discriminate|exact Logic.I]. }
        unfold track. cbn [fold_left]. unfold chan_track at 2. cbn [f_cmd f_ch fst snd]. rewrite Hfree.
        unfold chan_track. cbn [f_cmd fst snd]. intros x Hx. rewrite mem_app in Hx. rewrite Hc.
        destruct (N.eq_dec x ch) as [->|Hne].
        * exists src. apply (alookup_aset_same N.eqb Neqb_eq).
        * cbn [mem existsb] in Hx. replace (N.eqb x ch) with false in Hx by (symmetry; apply N.eqb_neq; exact Hne).
          rewrite !orb_false_r in Hx. destruct (Ht x Hx) as [s0 Hs]. exists s0.
          rewrite (alookup_aset_other N.eqb Neqb_eq) by exact Hne. exact Hs.
      + destruct Hp as [body ->]. cbn [flat_map up_of app]. change (fcmd_of CMD_TCP_CONNECT) with FOther.
        split; [constructor; [exact H16|constructor]|]. split; [constructor; [exact Logic.I|constructor]|].
        split; [cbn; split; [discriminate|exact Logic.I]|]. exact (TR_aset _ _ _ _ _ Ht Hf Hc). }
  destruct HP as (A & B & C & D).
  split; [apply Forall_app; auto|]. split; [apply Forall_app; auto|].
  split; [apply no_reopen_app; split; [exact C|apply no_reopen_nonopen; exact Hclo]|].
  rewrite track_app. intros x Hx.
  destruct (track_closes cl _ x (close_frames_kind q now c1) Hx) as [Hx1 Hx2].
  unfold cl in Hx2. rewrite close_frames_chans in Hx2.
  destruct (D x Hx1) as [src Hs]. exists src. rewrite LK.
  replace (mem x (E2 now c1)) with false by (symmetry; apply mem_false_notin; exact Hx2).
  destruct (mem x (E1 now c1)) eqn:E1m; [|exact Hs].
  exfalso. apply mem_E1 in E1m; [|apply I1]. destruct E1m as (dl & Hdl & _).
  destruct (ci_dns _ _ I1 _ _ Hdl) as (q0 & f0 & a0 & Hk). congruence.
Qed.

(* ------------------------------------------------------------------ *)
(* the composed system: conformance invariant (no hypothesis on re-use) *)

(* recvfrom peers as real sockets report them: an address literal (at most 61000 bytes, no comma), a port < 2^64 *)
Definition io_ok2 (it : io_item) : Prop :=
  match it with
  | IoFrom _ peer => lenN (fst peer) <= 61000 /\ snd peer < 2 ^ 64 /\ no_comma (fst peer)
  | _ => True
  end.

Lemma io_ok2_ok it : io_ok2 it -> io_ok it.
Proof. destruct it; cbn; tauto. Qed.

Definition failed {A} (r : res A) : Prop := r = Fatal \/ exists x, r = Crash x.

Lemma ok_not_failed {A} (a : A) : ~ failed (Ok a).
Proof. intros [H|[x H]]; discriminate. Qed.

Lemma got_packet_keeps_udp cc c ch data sr c' o ch0 src :
  cinv cc c -> got_packet all_fixed cc ch data sr c = Ok (c', o) ->
  alookup N.eqb ch0 (c_chan c) = Some (KUdp src) -> alookup N.eqb ch0 (c_chan c') = Some (KUdp src).
Proof.
  intros I E H. destruct (alookup N.eqb ch (c_chan c)) as [[q0 f0 t0|s0|]|] eqn:Hl.
  - destruct (dns_done_spec cc c ch q0 f0 t0 data sr I Hl) as (E3 & _).
    pose proof (eq_trans (eq_sym E) E3) as X; inversion X; subst c' o; clear X. cbn [c_chan].
    rewrite (alookup_adel_other N.eqb Neqb_eq); [exact H|]. intros ->. congruence.
  - unfold got_packet in E. rewrite Hl in E.
    destruct (split3 data) as [[[a p] d]|]; [|discriminate]. destruct (undec p) as [port|]; [|discriminate].
    destruct (send_udp _ _ _ _ _ _ _) as [o1| |]; cbn [bind] in E; try discriminate. inversion E; subst. exact H.
  - unfold got_packet in E. rewrite Hl in E. discriminate.
  - rewrite (closed_channel_spec _ cc c ch data sr Hl) in E. inversion E; subst. exact H.
Qed.

Lemma up_of_dgrams q o : (forall x, In x o -> exists q0 f a d, x = ODgram q0 f a d) -> flat_map (up_of q) o = [].
Proof.
  induction o as [|x tl IH]; intros H; [reflexivity|]. cbn [flat_map].
  destruct (H x (or_introl eq_refl)) as (q0 & f & a & d & ->). cbn [up_of app]. apply IH. intros y Hy. apply H. right. exact Hy.
Qed.

Section Mixed.
  Context (cc : ccfg) (sc : scfg) (Hcfg : cfg_ok' cc).

  Record minv (y : sys) : Prop := {
    m_c : cinv cc (y_c y);
    m_s : sinv (y_s y);
    m_16 : Forall chan16 (y_up y);
    m_body : Forall body_ok (y_up y);
    m_nore : no_reopen (s_chan (y_s y)) (y_up y);
    m_tr : TR (track (s_chan (y_s y)) (y_up y)) (y_c y)
  }.

  Lemma minv_init : minv y_init.
  Proof.
    constructor; cbn; [apply cinv_init|apply sinv_init|constructor|constructor|exact Logic.I|intros ch H; discriminate].
  Qed.

  (* what the environment may do at an event: listener events as the kernel delivers them, recvfrom peers as
     real sockets report them *)
  Definition step_sane (y : sys) (e : yev) : Prop :=
    match e with
    | YAccept ce => ev_sane cc (y_c y) ce /\ udp_dst_ok dst_ok ce
    | YServer _ _ _ io => Forall io_ok2 io
    | YDeliver _ => True
    end.

  Definition sev_of (y : sys) (now : N) (k : nat) (ready : list N) (io : list io_item) : sevent :=
    {| se_now := now; se_frames := firstn k (y_up y); se_ready := ready; se_io := io |}.

  (* the component that runs event e in state y raises (Crash) or leaves through Fatal *)
  Definition server_fails (y : sys) (e : yev) : Prop :=
    match e with
    | YServer now k ready io => failed (sstep all_fixed sc (y_s y) (sev_of y now k ready io))
    | _ => False
    end.
  Definition client_fails (y : sys) (e : yev) : Prop :=
    match e with
    | YAccept ce => is_accept ce = true /\ failed (cstep all_fixed cc (y_c y) ce)
    | YDeliver sr =>
      match y_down y with
      | [] => False
      | (ch, data, _) :: _ => failed (cstep all_fixed cc (y_c y) (EFrame ch data sr))
      end
    | _ => False
    end.

  Lemma mstep y e : minv y -> step_sane y e ->
    ~ server_fails y e /\
    (match e with YAccept _ => ~ client_fails y e | _ => True end) /\
    forall y' ob, ystep cc sc y e = Some (y', ob) -> minv y'.
  Proof.
    intros M Hs. destruct e as [ce|now k ready io|sr]; unfold ystep; cbn [server_fails client_fails ystep_fx].
    - (* a listener event *)
      split; [tauto|]. destruct Hs as [He Hd].
      destruct (is_accept ce) eqn:Eacc.
      2:{ split; [intros [A _]; discriminate|intros y' ob E; discriminate]. }
      destruct (cstep_ok cc (y_c y) ce Hcfg (m_c _ M) He) as (c1 & o1 & E1 & I1 & _).
      rewrite E1. split; [intros [_ F]; exact (ok_not_failed _ F)|].
      intros y' ob E. inversion E; subst y' ob; clear E.
      destruct (accept_conform cc (y_c y) ce c1 o1 (track (s_chan (y_s y)) (y_up y)) (c_nq (y_c y))
                  Hcfg (m_c _ M) Eacc He Hd E1 (m_tr _ M)) as (A & B & C & D).
      constructor; cbn [y_c y_s y_up y_down].
      + exact I1.
      + exact (m_s _ M).
      + apply Forall_app. split; [exact (m_16 _ M)|exact A].
      + apply Forall_app. split; [exact (m_body _ M)|exact B].
      + apply no_reopen_app. split; [exact (m_nore _ M)|exact C].
      + rewrite track_app. exact D.
    - (* a server iteration *)
      cbn [step_sane] in Hs. fold (sev_of y now k ready io).
      pose proof (m_nore _ M) as Hn. rewrite <- (firstn_skipn k (y_up y)) in Hn. apply no_reopen_app in Hn.
      destruct Hn as [Hn1 Hn2].
      assert (H16 : Forall chan16 (firstn k (y_up y))).
      { apply Forall_forall. intros f Hf. pose proof (m_16 _ M) as H. rewrite Forall_forall in H. exact (H f (in_firstn _ _ _ Hf)). }
      assert (Hb : Forall body_ok (firstn k (y_up y))).
      { apply Forall_forall. intros f Hf. pose proof (m_body _ M) as H. rewrite Forall_forall in H. exact (H f (in_firstn _ _ _ Hf)). }
      pose proof (sstep_inv sc (y_s y) (sev_of y now k ready io) (m_s _ M) H16) as R.
      destruct (sstep all_fixed sc (y_s y) (sev_of y now k ready io)) as [[s' o]| |x0].
      + split; [exact (ok_not_failed _)|]. split; [exact Logic.I|]. intros y' ob E. inversion E; subst y' ob; clear E.
        destruct R as (I' & Hc & _). cbn [sev_of se_frames] in Hc.
        constructor; cbn [y_c y_s y_up y_down].
        * exact (m_c _ M).
        * exact I'.
        * apply Forall_forall. intros f Hf. pose proof (m_16 _ M) as H. rewrite Forall_forall in H. exact (H f (in_skipn _ _ _ Hf)).
        * apply Forall_forall. intros f Hf. pose proof (m_body _ M) as H. rewrite Forall_forall in H. exact (H f (in_skipn _ _ _ Hf)).
        * rewrite Hc. exact Hn2.
        * rewrite Hc, <- track_app, firstn_skipn. exact (m_tr _ M).
      + contradiction.
      + exfalso. cbn [sev_of se_frames se_io] in R. destruct R as [[_ [A|[_ A]]]|[[_ A]|[_ A]]].
        * exact (A Hn1).
        * apply A. revert Hs. apply Forall_impl. exact io_ok2_ok.
        * exact (A Hb).
        * apply A. revert Hb. apply Forall_impl. intros f Hf Hc. unfold body_ok in Hf. rewrite Hc in Hf. exact Hf.
    - (* the client handles a frame: whatever it is, the conformance invariant survives *)
      split; [tauto|]. split; [exact Logic.I|].
      destruct (y_down y) as [|[[ch data] tag] tl]; [intros y' ob E; discriminate|].
      destruct (cstep all_fixed cc (y_c y) (EFrame ch data sr)) as [[c' o]| |] eqn:Ec; intros y' ob E; try discriminate.
      inversion E; subst y' ob; clear E. cbn [cstep] in Ec.
      destruct (deliver_summary cc (y_c y) ch data sr c' o (m_c _ M) Ec) as (I' & Dg & _ & _).
      constructor; cbn [y_c y_s y_up y_down]; rewrite ?(up_of_dgrams _ _ Dg), ?app_nil_r; try apply M.
      + exact I'.
      + intros x Hx. destruct (m_tr _ M x Hx) as [src Hsrc]. exists src.
        exact (got_packet_keeps_udp cc (y_c y) ch data sr c' o x src (m_c _ M) Ec Hsrc).
  Qed.

  (* runs: the environment stays sane along the run *)
  Fixpoint run_sane (y : sys) (evs : list yev) : Prop :=
    match evs with
    | [] => True
    | e :: tl => step_sane y e /\ forall y' ob, ystep cc sc y e = Some (y', ob) -> run_sane y' tl
    end.

  Fixpoint server_never_fails (y : sys) (evs : list yev) : Prop :=
    match evs with
    | [] => True
    | e :: tl => ~ server_fails y e /\ forall y' ob, ystep cc sc y e = Some (y', ob) -> server_never_fails y' tl
    end.

  (* In the composed system the server loop never raises and never leaves through Fatal: every run, every mix of
     DNS / UDP / TCP-accept events, every schedule, socket outcome and time — and NO hypothesis on identifier
     re-use (the frames the client emits always satisfy the server's preconditions) *)
  Theorem system_server_never_fails : forall evs y, minv y -> run_sane y evs -> server_never_fails y evs.
  Proof.
    induction evs as [|e tl IH]; intros y M Hs; cbn [server_never_fails]; [exact Logic.I|].
    destruct Hs as [He Hs]. destruct (mstep y e M He) as (A & _ & B). split; [exact A|].
    intros y' ob E. exact (IH y' (B _ _ E) (Hs _ _ E)).
  Qed.
End Mixed.

(* ------------------------------------------------------------------ *)
(* allocation seen from outside: which entries of mux.channels an accept step can create *)

Definition opening_cmd (cmd : N) : Prop := cmd = CMD_DNS_REQ \/ cmd = CMD_UDP_OPEN \/ cmd = CMD_TCP_CONNECT.

Lemma closes_not_opening now c1 ch cmd d : In (OFrame ch cmd d) (closes now c1) -> ~ opening_cmd cmd.
Proof. intros H. destruct (in_closes _ _ _ H) as [ch' X]. inversion X; subst. intros [A|[A|A]]; discriminate. Qed.

Lemma accept_alloc cc c e c' o :
  cfg_ok' cc -> cinv cc c -> is_accept e = true -> ev_sane cc c e -> cstep all_fixed cc c e = Ok (c', o) ->
  (forall ch0 k, alookup N.eqb ch0 (c_chan c') = Some k ->
     alookup N.eqb ch0 (c_chan c) = Some k \/ exists d, In (OFrame ch0 (kind_cmd k) d) o) /\
  (forall ch1 cmd1 d1, In (OFrame ch1 cmd1 d1) o -> opening_cmd cmd1 ->
     alookup N.eqb ch1 (c_chan c) = None /\
     forall ch2 cmd2 d2, In (OFrame ch2 cmd2 d2) o -> opening_cmd cmd2 -> ch2 = ch1 /\ cmd2 = cmd1).
Proof.
  intros Hcfg I Ha He E.
  assert (Hd : udp_dst_ok (fun _ => True) e) by (destruct e as [| ? ? [?|] ?| | |]; exact Logic.I).
  destruct (accept_decomp (fun _ => True) cc c e c' o Hcfg I Ha He Hd E) as [(Hc & _ & ->)|(now & c1 & pre & I1 & -> & LK & Sh)].
  { split; [intros ch0 k H; left; rewrite <- Hc; exact H|intros ch1 cmd1 d1 []]. }
  assert (Hpre : forall ch1 cmd1 d1, In (OFrame ch1 cmd1 d1) (pre ++ closes now c1) -> opening_cmd cmd1 ->
                   In (OFrame ch1 cmd1 d1) pre).
  { intros ch1 cmd1 d1 H Ho. apply in_app_iff in H. destruct H as [H|H]; [exact H|].
    exfalso. exact (closes_not_opening _ _ _ _ _ H Ho). }
  destruct Sh as [[-> Hc]|[(ch & src & body & -> & Hc & Hk & Hb)|(ch & k & Hf & Hr & Hc & Hp & _)]].
  - split.
    + intros ch0 k H. left. rewrite LK in H. destruct (_ || _); [discriminate|]. rewrite <- Hc. exact H.
    + intros ch1 cmd1 d1 H Ho. destruct (Hpre _ _ _ H Ho).
  - split.
    + intros ch0 k H. left. rewrite LK in H. destruct (_ || _); [discriminate|]. rewrite <- Hc. exact H.
    + intros ch1 cmd1 d1 H Ho. destruct (Hpre _ _ _ H Ho) as [X|[]]. inversion X; subst.
      destruct Ho as [A|[A|A]]; discriminate.
  - assert (Hone : forall ch1 cmd1 d1, In (OFrame ch1 cmd1 d1) pre -> opening_cmd cmd1 -> ch1 = ch /\ cmd1 = kind_cmd k).
    { intros ch1 cmd1 d1 H Ho. destruct k as [q0 f0 a0|src|]; cbn [pre_for] in Hp.
      - destruct Hp as [data ->]. destruct H as [X|[]]. inversion X; subst. auto.
      - destruct Hp as (body & -> & _). destruct H as [X|[X|[]]]; inversion X; subst; [auto|].
        destruct Ho as [A|[A|A]]; discriminate.
      - destruct Hp as [body ->]. destruct H as [X|[]]. inversion X; subst. auto. }
    assert (Hin : exists d, In (OFrame ch (kind_cmd k) d) pre).
    { destruct k as [q0 f0 a0|src|]; cbn [pre_for] in Hp.
      - destruct Hp as [data ->]. eexists. left. reflexivity.
      - destruct Hp as (body & -> & _). eexists. left. reflexivity.
      - destruct Hp as [body ->]. eexists. left. reflexivity. }
    split.
    + intros ch0 k0 H. rewrite LK in H. destruct (_ || _); [discriminate|]. rewrite Hc in H.
      destruct (N.eq_dec ch0 ch) as [->|Hne].
      * rewrite (alookup_aset_same N.eqb Neqb_eq) in H. inversion H; subst k0. right.
        destruct Hin as [d Hd']. exists d. apply in_app_iff. left. exact Hd'.
      * rewrite (alookup_aset_other N.eqb Neqb_eq) in H by exact Hne. left. exact H.
    + intros ch1 cmd1 d1 H Ho. destruct (Hone _ _ _ (Hpre _ _ _ H Ho) Ho) as [-> ->]. split; [exact Hf|].
      intros ch2 cmd2 d2 H2 Ho2. exact (Hone _ _ _ (Hpre _ _ _ H2 Ho2) Ho2).
Qed.

(* ------------------------------------------------------------------ *)
(* server: UdpProxies and the UDP_DATA frames they emit                *)

Lemma fold_steps_gen {X} (f : X -> sstate -> list io_item -> res (sstate * list io_item * list sout))
  (Q : X -> Prop) (Inv : sstate -> list io_item -> Prop) (OutP : sout -> Prop) :
  (forall x s io s' io' o, Q x -> Inv s io -> f x s io = Ok (s', io', o) -> Inv s' io' /\ Forall OutP o) ->
  forall xs s io s' io' o, Forall Q xs -> Inv s io -> fold_steps f xs s io = Ok (s', io', o) ->
    Inv s' io' /\ Forall OutP o.
Proof.
  intros Hf. induction xs as [|x tl IH]; intros s io s' io' o HQ T E; cbn [fold_steps] in E.
  - inversion E; subst. split; [exact T|constructor].
  - inversion HQ as [|? ? Hx HQ']; subst.
    destruct (f x s io) as [[[s1 io1] o1]| |] eqn:E1; cbn [bind] in E; try discriminate.
    destruct (fold_steps f tl s1 io1) as [[[s2 io2] o2]| |] eqn:E2; cbn [bind] in E; try discriminate.
    inversion E; subst. destruct (Hf _ _ _ _ _ _ Hx T E1) as [T1 O1].
    destruct (IH _ _ _ _ _ HQ' T1 E2) as [T2 O2]. split; [exact T2|]. apply Forall_app. split; assumption.
Qed.

Lemma default_peer_no_comma : no_comma (fst default_peer).
Proof. unfold no_comma. cbn. intuition discriminate. Qed.

Section UTags.
  Context (PU : N -> Prop).

  Definition s_utags (s : sstate) : Prop := forall hid u, In (hid, HUdp u) (s_h s) -> PU (u_chan u).
  Definition frame_utags (f : frame) : Prop := f_cmd f = FUdpOpen -> PU (f_ch f).
  (* every frame that is not a DNS_RESPONSE comes from a UdpProxy and is a well-formed 'ip,port,' + payload *)
  Definition out_utags (o : sout) : Prop :=
    match o with SFrame ch cmd data _ => cmd <> CMD_DNS_RESPONSE -> PU ch /\ frame_wf data | _ => True end.

  Lemma no_sframe_utags l : Forall no_sframe l -> Forall out_utags l.
  Proof. apply Forall_impl. intros [] H; cbn in *; tauto. Qed.

  Lemma s_frame_utags fx cfg now f s io s' io' o :
    s_utags s -> frame_utags f -> s_frame fx cfg now f s io = Ok (s', io', o) -> s_utags s' /\ Forall out_utags o.
  Proof.
    destruct f as [[[ch cmd] data] tag]. unfold frame_utags, f_cmd, f_ch. cbn [fst snd].
    intros T Hp E. unfold s_frame in E.
    assert (Hreq : forall c, udp_req fx ch c data s io = Ok (s', io', o) -> s_utags s' /\ Forall out_utags o).
    { intros c Er. unfold udp_req in Er. destruct c; try (inversion Er; subst; split; [exact T|constructor]).
      - destruct (split3 data) as [[[a p] d]|]; [|discriminate]. destruct (undec p); [|discriminate].
        destruct (alookup N.eqb ch (s_udph s)); [|discriminate].
        destruct (alookup N.eqb n0 (s_h s)) as [[d0|u]|]; try discriminate.
        destruct (65535 <? n); [discriminate|]. inversion Er; subst. split; [exact T|repeat constructor].
      - destruct (alookup N.eqb ch (s_udph s)); [|discriminate].
        destruct (alookup N.eqb n (s_h s)) as [[d0|u]|] eqn:Hh; try discriminate.
        inversion Er; subst. split; [|constructor]. intros hid u0 H. cbn [s_h set_handler] in H.
        apply aset_In in H. destruct H as [[_ H]|H]; [|exact (T _ _ H)].
        inversion H; subst. cbn [set_uok u_chan]. apply (alookup_In N.eqb Neqb_eq) in Hh. exact (T _ _ Hh). }
    destruct cmd.
    - destruct (mem ch (s_chan s)); [discriminate|]. unfold dns_req in E.
      destruct (try_send fx cfg _ _ _ _) as [[[[d n] io1] o1]| |] eqn:Et; cbn [bind] in E; try discriminate.
      inversion E; subst. split.
      + intros hid u H. cbn [s_h] in H. apply in_app_iff in H. destruct H as [H|[H|[]]]; [exact (T _ _ H)|discriminate].
      + apply no_sframe_utags. exact (try_send_no_sframe _ _ _ _ _ _ _ _ _ _ Et).
    - destruct (mem ch (s_chan s)); [discriminate|]. unfold udp_open in E.
      destruct (undec data); [|discriminate]. destruct (amem N.eqb ch (s_udph s)); [discriminate|].
      inversion E; subst. split; [|repeat constructor]. intros hid u0 H. cbn [s_h] in H.
      apply in_app_iff in H. destruct H as [H|[H|[]]]; [exact (T _ _ H)|]. inversion H; subst. exact (Hp eq_refl).
    - destruct (mem ch (s_chan s)); [exact (Hreq _ E)|]. inversion E; subst. split; [exact T|constructor].
    - destruct (mem ch (s_chan s)); [exact (Hreq _ E)|]. inversion E; subst. split; [exact T|constructor].
    - destruct (mem ch (s_chan s)); [exact (Hreq _ E)|]. inversion E; subst. split; [exact T|constructor].
  Qed.

  Lemma visit_utags fx cfg ready hid s io s' io' o :
    s_utags s -> Forall io_ok2 io -> visit fx cfg ready hid s io = Ok (s', io', o) -> s_utags s' /\ Forall out_utags o.
  Proof.
    intros T Hio E. unfold visit in E.
    destruct (alookup N.eqb hid (s_h s)) as [[d|u]|] eqn:H; [| |inversion E; subst; split; [exact T|constructor]].
    - destruct (d_socks d) as [|sock tl]; [inversion E; subst; split; [exact T|constructor]|].
      destruct (mem sock ready); [|inversion E; subst; split; [exact T|constructor]].
      assert (G : forall d2 n, s_utags (set_handler s hid (HDns d2) n)).
      { intros d2 n hid0 u0 H0. cbn [set_handler s_h] in H0. apply aset_In in H0.
        destruct H0 as [[_ X]|H0]; [discriminate|exact (T _ _ H0)]. }
      unfold dns_callback in E. destruct (fst (pop io)) eqn:Ei.
      2:{ destruct (is_net_err e).
          - destruct (try_send fx cfg _ _ _ _) as [[[[d2 n2] io2] o2]| |] eqn:Et; cbn [bind] in E; try discriminate.
            inversion E; subst. split; [apply G|]. apply no_sframe_utags. exact (try_send_no_sframe _ _ _ _ _ _ _ _ _ _ Et).
          - inversion E; subst. split; [apply G|constructor]. }
      all: destruct (mux_check _ _ _); cbn [bind] in E; try discriminate; inversion E; subst;
           (split; [apply G|]); constructor; [intros C; exfalso; apply C; reflexivity|constructor].
    - destruct (mem (u_sock u) ready); [|inversion E; subst; split; [exact T|constructor]].
      apply (alookup_In N.eqb Neqb_eq) in H. pose proof (T _ _ H) as Hp.
      assert (Hwf : forall peer data, no_comma (fst peer) -> frame_wf (dgram_hdr peer (takeN BUFSIZE data))).
      { intros [ip port] data Hn. exists ip, port, (takeN BUFSIZE data). split; [exact Hn|reflexivity]. }
      unfold udp_callback in E. destruct (fst (pop io)) as [| e | x | x p | k] eqn:Ei.
      2:{ destruct (fx4 fx); [|discriminate]. inversion E; subst. split; [exact T|constructor]. }
      all: cbv zeta in E; destruct (mux_check _ _ _); cbn [bind] in E; try discriminate; inversion E; subst;
           (split; [exact T|]); constructor; [intros _; split; [exact Hp|]|constructor].
      1,2,4: apply Hwf; exact default_peer_no_comma.
      apply Hwf. destruct io as [|it tl]; [discriminate|]. cbn [pop fst] in Ei. subst it.
      inversion Hio as [|? ? H1 _]; subst. exact (proj2 (proj2 H1)).
  Qed.

  Lemma sweep_utags now s : s_utags s -> s_utags (remove_dead (sweep now s)).
  Proof.
    intros T hid u H. unfold remove_dead in H. cbn [s_h] in H. apply filter_In in H. destruct H as [H _].
    unfold sweep in H. cbn [s_h] in H. apply in_map_iff in H. destruct H as ([hid0 h0] & Hg & Hin). cbn [fst snd] in Hg.
    destruct (mem hid0 _).
    - inversion Hg; subst. destruct h0 as [d0|u0]; [discriminate|]. cbn [h_kill] in *.
      match goal with H : HUdp _ = HUdp u |- _ => inversion H; subst end. exact (T _ _ Hin).
    - inversion Hg; subst. exact (T _ _ Hin).
  Qed.

  (* one iteration of the repaired loop from a state satisfying sinv: UdpProxies afterwards carry identifiers of
     UdpProxies before or of UDP_OPEN frames dispatched; every frame emitted that is not a DNS_RESPONSE is a
     well-formed UDP_DATA of such an identifier *)
  Lemma sstep_utags cfg s e s' o :
    sinv s -> Forall chan16 (se_frames e) -> Forall io_ok2 (se_io e) ->
    s_utags s -> Forall frame_utags (se_frames e) -> sstep all_fixed cfg s e = Ok (s', o) ->
    s_utags s' /\ Forall out_utags o.
  Proof.
    intros I H16 Hio T HF E. unfold sstep in E.
    pose proof (frames_inv cfg (se_now e) (se_frames e) s (se_io e) I H16) as R1.
    destruct (fold_steps (s_frame all_fixed cfg (se_now e)) (se_frames e) s (se_io e)) as [[[s1 io1] o1]| |] eqn:E1;
      cbn [bind] in E; try discriminate.
    destruct R1 as (I1 & _ & Hi1 & _).
    destruct (fold_steps (visit all_fixed cfg _) (map fst (s_h s1)) s1 io1) as [[[s2 io2] o2]| |] eqn:E2;
      cbn [bind] in E; try discriminate.
    inversion E; subst.
    destruct (fold_steps_gen (s_frame all_fixed cfg (se_now e)) frame_utags (fun s _ => s_utags s) out_utags
                (fun x s io s' io' o Hx Ts Ex => s_frame_utags _ _ _ _ _ _ _ _ _ Ts Hx Ex) _ _ _ _ _ _ HF T E1) as [T1 O1].
    set (ready := filter (fun k => k <? s_nsock s) (se_ready e)) in *.
    destruct (fold_steps_gen (visit all_fixed cfg ready) (fun _ => True)
                (fun s io => sinv s /\ s_utags s /\ incl io (se_io e)) out_utags) with
        (xs := map fst (s_h s1)) (s := s1) (io := io1) (s' := s2) (io' := io2) (o := o2) as [(_ & T2 & _) O2].
    - intros hid s0 io0 s0' io0' o0 _ (Is & Ts & Hi) Ev.
      pose proof (visit_inv cfg ready hid s0 io0 Is) as R. rewrite Ev in R. destruct R as (Is' & _ & Hi' & _).
      destruct (visit_utags all_fixed cfg ready hid s0 io0 s0' io0' o0 Ts (incl_Forall Hi Hio) Ev) as [Ts' Os].
      split; [|exact Os]. split; [exact Is'|]. split; [exact Ts'|]. eapply incl_tran; eassumption.
    - apply Forall_forall. intros; exact Logic.I.
    - split; [exact I1|]. split; [exact T1|exact Hi1].
    - exact E2.
    - split; [exact (sweep_utags _ _ T2)|]. apply Forall_app. split; assumption.
  Qed.
End UTags.

(* ------------------------------------------------------------------ *)
(* the client side: needs the hypothesis on identifier re-use          *)

Definition kind_dns (c : cstate) (ch : N) : Prop :=
  forall k, alookup N.eqb ch (c_chan c) = Some k -> exists q f a, k = KDns q f a.
Definition kind_udp (c : cstate) (ch : N) : Prop :=
  forall k, alookup N.eqb ch (c_chan c) = Some k -> exists src, k = KUdp src.

(* something of identifier ch's previous life is still on its way: an opening frame on the up link, a handler on
   the server, any frame on the down link *)
Definition in_flight_any (ch : N) (y : sys) : Prop :=
  (exists f, In f (y_up y) /\ opens f = true /\ f_ch f = ch) \/
  (exists hid h, In (hid, h) (s_h (y_s y)) /\ h_chan h = ch) \/
  (exists data tag, In (ch, data, tag) (y_down y)).

Lemma got_packet_lookup_mono cc c ch data sr c' o ch0 k :
  cinv cc c -> got_packet all_fixed cc ch data sr c = Ok (c', o) ->
  alookup N.eqb ch0 (c_chan c') = Some k -> alookup N.eqb ch0 (c_chan c) = Some k.
Proof.
  intros I E H. destruct (alookup N.eqb ch (c_chan c)) as [[q0 f0 t0|s0|]|] eqn:Hl.
  - destruct (dns_done_spec cc c ch q0 f0 t0 data sr I Hl) as (E3 & _).
    pose proof (eq_trans (eq_sym E) E3) as X; inversion X; subst c' o; clear X. cbn [c_chan] in H.
    destruct (N.eq_dec ch0 ch) as [->|Hne].
    + rewrite (alookup_adel_same N.eqb Neqb_eq) in H by exact (ci_nd_chan _ _ I). discriminate.
    + rewrite (alookup_adel_other N.eqb Neqb_eq) in H by exact Hne. exact H.
  - unfold got_packet in E. rewrite Hl in E.
    destruct (split3 data) as [[[a p] d]|]; [|discriminate]. destruct (undec p) as [port|]; [|discriminate].
    destruct (send_udp _ _ _ _ _ _ _) as [o1| |]; cbn [bind] in E; try discriminate. inversion E; subst. exact H.
  - unfold got_packet in E. rewrite Hl in E. discriminate.
  - rewrite (closed_channel_spec _ cc c ch data sr Hl) in E. inversion E; subst. exact H.
Qed.

Lemma fcmd_of_udpopen cmd : fcmd_of cmd = FUdpOpen -> cmd = CMD_UDP_OPEN.
Proof.
  unfold fcmd_of. destruct (cmd =? CMD_DNS_REQ); [discriminate|].
  destruct (cmd =? CMD_UDP_OPEN) eqn:E; [intros _; apply N.eqb_eq; exact E|].
  destruct (cmd =? CMD_UDP_DATA); [discriminate|]. destruct (cmd =? CMD_UDP_CLOSE); discriminate.
Qed.

Section MixedClient.
  Context (cc : ccfg) (sc : scfg) (Hcfg : cfg_ok' cc).

  Record kinv (y : sys) : Prop := {
    k_up : forall f, In f (y_up y) ->
             (f_cmd f = FDnsReq -> kind_dns (y_c y) (f_ch f)) /\ (f_cmd f = FUdpOpen -> kind_udp (y_c y) (f_ch f));
    k_dns : s_tags (fun ch _ => kind_dns (y_c y) ch) (y_s y);
    k_udp : s_utags (kind_udp (y_c y)) (y_s y);
    k_down : forall ch data tag, In (ch, data, tag) (y_down y) ->
             match tag with Some _ => kind_dns (y_c y) ch | None => kind_udp (y_c y) ch /\ frame_wf data end
  }.

  Lemma kinv_init : kinv y_init.
  Proof. constructor; cbn; [intros f []|intros hid d []|intros hid u []|intros ch data tag []]. Qed.

  (* THE hypothesis, once for the system: whenever the client puts an opening frame (DNS_REQ, UDP_OPEN,
     TCP_CONNECT) for identifier ch on the wire, nothing of a previous incarnation of ch is in flight *)
  Fixpoint no_stale_alloc_any (y : sys) (evs : list yev) : Prop :=
    match evs with
    | [] => True
    | e :: tl =>
      forall y' ob, ystep cc sc y e = Some (y', ob) ->
        match ob with
        | ObsClient _ o => forall ch cmd d, In (OFrame ch cmd d) o -> opening_cmd cmd -> ~ in_flight_any ch y
        | ObsServer _ => True
        end /\ no_stale_alloc_any y' tl
    end.

  Lemma kstep y e y' ob : minv cc y -> kinv y -> step_sane cc y e -> ystep cc sc y e = Some (y', ob) ->
    match ob with
    | ObsClient _ o => forall ch cmd d, In (OFrame ch cmd d) o -> opening_cmd cmd -> ~ in_flight_any ch y
    | ObsServer _ => True
    end -> kinv y'.
  Proof.
    intros M K Hs E Ha. destruct e as [ce|now k ready io|sr]; unfold ystep in E; cbn [ystep_fx] in E.
    - (* a listener event *)
      destruct Hs as [He Hd]. destruct (is_accept ce) eqn:Eacc; [|discriminate].
      destruct (cstep all_fixed cc (y_c y) ce) as [[c' o]| |] eqn:Ec; try discriminate.
      inversion E; subst y' ob; clear E.
      destruct (accept_alloc cc (y_c y) ce c' o Hcfg (m_c _ _ M) Eacc He Ec) as [LK Op].
      assert (Hop : forall k0, opening_cmd (kind_cmd k0)) by (intros [? ? ?|?|]; cbn; unfold opening_cmd; auto).
      assert (Td : forall ch, in_flight_any ch y -> kind_dns (y_c y) ch -> kind_dns c' ch).
      { intros ch Hf Hk k0 H. destruct (LK _ _ H) as [H0|[d Hd']]; [exact (Hk _ H0)|].
        exfalso. exact (Ha _ _ _ Hd' (Hop k0) Hf). }
      assert (Tu : forall ch, in_flight_any ch y -> kind_udp (y_c y) ch -> kind_udp c' ch).
      { intros ch Hf Hk k0 H. destruct (LK _ _ H) as [H0|[d Hd']]; [exact (Hk _ H0)|].
        exfalso. exact (Ha _ _ _ Hd' (Hop k0) Hf). }
      constructor; cbn [y_c y_s y_up y_down].
      + intros f Hf. apply in_app_iff in Hf. destruct Hf as [Hf|Hf].
        * destruct (k_up _ K f Hf) as [A B]. split; intros Hc.
          -- apply Td; [left; exists f; unfold opens; rewrite Hc; auto|exact (A Hc)].
          -- apply Tu; [left; exists f; unfold opens; rewrite Hc; auto|exact (B Hc)].
        * apply in_flat_map in Hf. destruct Hf as (x & Hx & Hfx). destruct x as [ch cmd data|]; [|destruct Hfx].
          destruct Hfx as [<-|[]]. unfold f_cmd, f_ch. cbn [fst snd]. split; intros Hc.
          -- apply fcmd_of_dns in Hc. subst cmd. assert (Ho : opening_cmd CMD_DNS_REQ) by (left; reflexivity).
             destruct (Op _ _ _ Hx Ho) as [Hfree Huniq]. intros k0 H.
             destruct (LK _ _ H) as [H0|[d Hd']]; [congruence|].
             destruct (Huniq _ _ _ Hd' (Hop k0)) as [_ Hk]. destruct k0 as [q0 f0 a0|s0|]; cbn in Hk; try discriminate.
             repeat eexists.
          -- apply fcmd_of_udpopen in Hc. subst cmd. assert (Ho : opening_cmd CMD_UDP_OPEN) by (right; left; reflexivity).
             destruct (Op _ _ _ Hx Ho) as [Hfree Huniq]. intros k0 H.
             destruct (LK _ _ H) as [H0|[d Hd']]; [congruence|].
             destruct (Huniq _ _ _ Hd' (Hop k0)) as [_ Hk]. destruct k0 as [q0 f0 a0|s0|]; cbn in Hk; try discriminate.
             eexists. reflexivity.
      + intros hid d Hd'. apply Td; [right; left; exists hid, (HDns d); auto|exact (k_dns _ K hid d Hd')].
      + intros hid u Hu. apply Tu; [right; left; exists hid, (HUdp u); auto|exact (k_udp _ K hid u Hu)].
      + intros ch data tag Hd'. pose proof (k_down _ K _ _ _ Hd') as Hk.
        assert (Hf : in_flight_any ch y) by (right; right; exists data, tag; exact Hd').
        destruct tag; [exact (Td _ Hf Hk)|]. destruct Hk as [A B]. split; [exact (Tu _ Hf A)|exact B].
    - (* a server iteration: identifiers only move *)
      cbn [step_sane] in Hs.
      destruct (sstep all_fixed sc (y_s y) _) as [[s' o]| |] eqn:Es; try discriminate.
      inversion E; subst y' ob; clear E.
      set (ev := {| se_now := now; se_frames := firstn k (y_up y); se_ready := ready; se_io := io |}) in *.
      assert (HF1 : Forall (frame_tags (fun ch _ => kind_dns (y_c y) ch)) (se_frames ev)).
      { apply Forall_forall. intros f Hf Hc. exact (proj1 (k_up _ K f (in_firstn _ _ _ Hf)) Hc). }
      assert (HF2 : Forall (frame_utags (kind_udp (y_c y))) (se_frames ev)).
      { apply Forall_forall. intros f Hf Hc. exact (proj2 (k_up _ K f (in_firstn _ _ _ Hf)) Hc). }
      assert (H16 : Forall chan16 (se_frames ev)).
      { apply Forall_forall. intros f Hf. pose proof (m_16 _ _ M) as H. rewrite Forall_forall in H. exact (H f (in_firstn _ _ _ Hf)). }
      destruct (sstep_tags _ all_fixed sc (y_s y) ev s' o (k_dns _ K) HF1 Es) as [T1 O1].
      destruct (sstep_utags _ sc (y_s y) ev s' o (m_s _ _ M) H16 Hs (k_udp _ K) HF2 Es) as [T2 O2].
      constructor; cbn [y_c y_s y_up y_down].
      + intros f Hf. exact (k_up _ K f (in_skipn _ _ _ Hf)).
      + exact T1.
      + exact T2.
      + intros ch data tag Hd. apply in_app_iff in Hd. destruct Hd as [Hd|Hd]; [exact (k_down _ K _ _ _ Hd)|].
        apply in_flat_map in Hd. destruct Hd as (x & Hx & Hdx).
        rewrite Forall_forall in O1, O2. specialize (O1 x Hx). specialize (O2 x Hx).
        destruct x as [ch1 cmd data1 tg| | | |]; [|destruct Hdx|destruct Hdx|destruct Hdx|destruct Hdx].
        destruct Hdx as [Hdx|[]]. cbn [out_tags out_utags] in O1, O2.
        destruct (cmd =? CMD_DNS_RESPONSE) eqn:Ecmd; inversion Hdx; subst.
        * apply O1. apply N.eqb_eq. exact Ecmd.
        * apply O2. apply N.eqb_neq. exact Ecmd.
    - (* the client handles a frame: entries only disappear *)
      destruct (y_down y) as [|[[ch data] tag] tl] eqn:Ed; [discriminate|].
      destruct (cstep all_fixed cc (y_c y) (EFrame ch data sr)) as [[c' o]| |] eqn:Ec; try discriminate.
      inversion E; subst y' ob; clear E. cbn [cstep] in Ec.
      destruct (deliver_summary cc (y_c y) ch data sr c' o (m_c _ _ M) Ec) as (_ & Dg & _ & _).
      assert (Td : forall ch0, kind_dns (y_c y) ch0 -> kind_dns c' ch0).
      { intros ch0 Hk k0 H. exact (Hk _ (got_packet_lookup_mono _ _ _ _ _ _ _ _ _ (m_c _ _ M) Ec H)). }
      assert (Tu : forall ch0, kind_udp (y_c y) ch0 -> kind_udp c' ch0).
      { intros ch0 Hk k0 H. exact (Hk _ (got_packet_lookup_mono _ _ _ _ _ _ _ _ _ (m_c _ _ M) Ec H)). }
      constructor; cbn [y_c y_s y_up y_down]; rewrite ?(up_of_dgrams _ _ Dg), ?app_nil_r.
      + intros f Hf. destruct (k_up _ K f Hf) as [A B]. split; intros Hc; [exact (Td _ (A Hc))|exact (Tu _ (B Hc))].
      + intros hid d Hd'. exact (Td _ (k_dns _ K hid d Hd')).
      + intros hid u Hu. exact (Tu _ (k_udp _ K hid u Hu)).
      + intros ch0 data0 tag0 Hd'. assert (Hin : In (ch0, data0, tag0) (y_down y)) by (rewrite Ed; right; exact Hd').
        pose proof (k_down _ K _ _ _ Hin) as Hk. destruct tag0; [exact (Td _ Hk)|].
        destruct Hk as [A B]. split; [exact (Tu _ A)|exact B].
  Qed.

  (* under kinv a frame from the server never crashes the client *)
  Lemma deliver_ok y sr : minv cc y -> kinv y -> ~ client_fails cc y (YDeliver sr).
  Proof.
    intros M K. cbn [client_fails]. destruct (y_down y) as [|[[ch data] tag] tl] eqn:Ed; [tauto|].
    assert (Hin : In (ch, data, tag) (y_down y)) by (rewrite Ed; left; reflexivity).
    pose proof (k_down _ K _ _ _ Hin) as Hk.
    assert (He : ev_sane cc (y_c y) (EFrame ch data sr)).
    { cbn [ev_sane]. destruct (alookup N.eqb ch (y_c y).(c_chan)) as [[q0 f0 a0|src|]|] eqn:Hl; try exact Logic.I.
      - destruct tag; [destruct (Hk _ Hl) as (q & f & a & X); discriminate|exact (proj2 Hk)].
      - destruct tag; [destruct (Hk _ Hl) as (q & f & a & X); discriminate|].
        destruct (proj1 Hk _ Hl) as [src X]. discriminate. }
    destruct (cstep_ok cc (y_c y) _ Hcfg (m_c _ _ M) He) as (c1 & o1 & E1 & _). rewrite E1. exact (ok_not_failed _).
  Qed.

  Fixpoint never_fails (y : sys) (evs : list yev) : Prop :=
    match evs with
    | [] => True
    | e :: tl => (~ server_fails sc y e /\ ~ client_fails cc y e) /\
                 forall y' ob, ystep cc sc y e = Some (y', ob) -> never_fails y' tl
    end.

  (* END TO END: in the composed system neither side ever raises nor leaves through Fatal *)
  Theorem system_never_fails : forall evs y,
    minv cc y -> kinv y -> run_sane cc sc y evs -> no_stale_alloc_any y evs -> never_fails y evs.
  Proof.
    induction evs as [|e tl IH]; intros y M K Hs Hn; cbn [never_fails]; [exact Logic.I|].
    destruct Hs as [He Hs]. cbn [no_stale_alloc_any] in Hn.
    destruct (mstep cc sc Hcfg y e M He) as (A & B & C). split.
    - split; [exact A|]. destruct e as [ce|now k ready io|sr]; [exact B|cbn; tauto|exact (deliver_ok y sr M K)].
    - intros y' ob E. destruct (Hn _ _ E) as [Ha Hn'].
      exact (IH y' (C _ _ E) (kstep y e y' ob M K He E Ha) (Hs _ _ E) Hn').
  Qed.

  Corollary system_never_fails_init evs :
    run_sane cc sc y_init evs -> no_stale_alloc_any y_init evs -> never_fails y_init evs.
  Proof. apply system_never_fails; [apply minv_init|apply kinv_init]. Qed.
End MixedClient.

(* ------------------------------------------------------------------ *)
(* concrete runs: non-vacuity; F80 as found; the client without the hypothesis *)

Fixpoint ystate_after (fx : fixes) (cc : ccfg) (sc : scfg) (y : sys) (evs : list yev) : option sys :=
  match evs with
  | [] => Some y
  | e :: tl => match ystep_fx fx cc sc y e with Some (y', _) => ystate_after fx cc sc y' tl | None => None end
  end.

(* the code with every repair but F80 *)
Definition before_f80 : fixes := {| fx3 := true; fx4 := true; fx10 := true; fx16 := true; fx80 := false |}.

Definition w_cfgT1 : ccfg := {| cc_method := MTproxy; cc_maxc := 1; cc_family := 2 |}.
Definition w_cfgTN : ccfg := {| cc_method := MTproxy; cc_maxc := 65535; cc_family := 2 |}.
Definition w_R : addr := (["8"%char], 53).

(* F80: one identifier; the association of w_a1 expires when w_a2 shows up (first datagram dropped: no
   identifier free), the second datagram of w_a2 re-uses identifier 1; the server reads the first two frames,
   then UDP_CLOSE 1, UDP_OPEN 1, UDP_DATA 1 in one iteration *)
Definition w_f80_accepts : list yev :=
  [YAccept (EUdp 0 w_a1 (Some w_R) ["a"%char]); YServer 0 2 [] [];
   YAccept (EUdp 31 w_a2 (Some w_R) ["x"%char]); YAccept (EUdp 31 w_a2 (Some w_R) ["b"%char])].

Lemma f80_system :
  (exists y, ystate_after before_f80 w_cfgT1 w_scfg y_init w_f80_accepts = Some y /\
             y_up y = [(1, FUdpClose, [], 0); (1, FUdpOpen, dec 2, 0); (1, FUdpData, dgram_hdr w_R ["b"%char], 0)] /\
             sstep before_f80 w_scfg (y_s y) (sev_of y 1 3 [] []) = Fatal) /\
  (exists y, ystate_after all_fixed w_cfgT1 w_scfg y_init w_f80_accepts = Some y /\
             exists s' o, sstep all_fixed w_scfg (y_s y) (sev_of y 1 3 [] []) = Ok (s', o) /\ s_chan s' = [1]).
Proof.
  split.
  - eexists. split; [vm_compute; reflexivity|]. split; vm_compute; reflexivity.
  - eexists. split; [vm_compute; reflexivity|]. eexists. eexists. split; vm_compute; reflexivity.
Qed.

(* without the hypothesis the client can be killed: one identifier; DNS query of w_a1 pending at the server, expired
   at the client; the association of w_a2 re-uses identifier 1; the late DNS answer arrives on it and udp_done's
   split raises ValueError *)
Definition w_sys_clientcrash : list yev :=
  [YAccept (EDns 0 w_a1 (Some w_R) ["q"%char]); YServer 0 1 [] [];
   YAccept (EUdp 31 w_a2 (Some w_R) ["x"%char]); YAccept (EUdp 31 w_a2 (Some w_R) ["b"%char]);
   YServer 30 0 [0] [IoData ["o"%char]]].

Lemma dst_ok_R : dst_ok w_R.
Proof. split; [unfold no_comma; cbn; intuition discriminate|cbn; lia]. Qed.

Lemma clientcrash_system :
  run_sane w_cfgT1 w_scfg y_init (w_sys_clientcrash ++ [YDeliver SendOk]) /\
  exists y, ystate_after all_fixed w_cfgT1 w_scfg y_init w_sys_clientcrash = Some y /\
            y_down y = [(1, ["o"%char], Some 0)] /\
            cstep all_fixed w_cfgT1 (y_c y) (EFrame 1 ["o"%char] SendOk) = Crash XValue.
Proof.
  split.
  - unfold w_sys_clientcrash. cbn [app].
    repeat (cbn [run_sane step_sane ev_sane udp_dst_ok]; split;
            [first [exact Logic.I | split; [first [exact Logic.I|split; [reflexivity|split; [apply N.leb_le; reflexivity|apply N.ltb_lt; reflexivity]]]|first [exact Logic.I|exact dst_ok_R]]
                   | repeat constructor]|];
            intros ? ? E; sys_step E).
  - eexists. split; [vm_compute; reflexivity|]. split; vm_compute; reflexivity.
Qed.

Lemma clientcrash_not_never_fails :
  ~ never_fails w_cfgT1 w_scfg y_init (w_sys_clientcrash ++ [YDeliver SendOk]).
Proof.
  unfold w_sys_clientcrash. cbn [app]. intros H.
  Ltac nf_step H :=
    cbn [never_fails] in H;
    let H2 := fresh "H" in destruct H as [_ H2];
    match type of H2 with
    | forall y' ob, ?X = Some (y', ob) -> _ =>
      let v := eval vm_compute in X in
      match v with
      | Some (?a, ?b) =>
        let H3 := fresh "H" in
        assert (H3 : X = Some (a, b)) by (vm_compute; reflexivity);
        apply H2 in H3; clear H2; rename H3 into H
      end
    end.
  nf_step H. nf_step H. nf_step H. nf_step H. nf_step H.
  cbn [never_fails] in H. destruct H as [[_ Hc] _]. apply Hc. cbn [client_fails y_down].
  right. exists XValue. vm_compute. reflexivity.
Qed.

(* non-vacuity of the end-to-end theorem: DNS and UDP mixed, replies delivered, association expired and the
   identifier space large enough that nothing is re-used *)
Definition w_sys_mixed : list yev :=
  [YAccept (EDns 100 w_a1 (Some w_R) ["q"%char]); YAccept (EUdp 100 w_a2 (Some w_R) [","%char]);
   YServer 100 3 [] []; YServer 101 0 [0; 1] [IoData ["r"%char]; IoFrom ["u"%char] w_R];
   YDeliver SendOk; YDeliver SendOk; YAccept (EUdp 140 w_a1 (Some w_R) []); YServer 141 9 [] []].

Lemma mixed_run :
  yrun w_cfgTN w_scfg y_init w_sys_mixed =
  [ObsClient None [OFrame 1 CMD_DNS_REQ ["q"%char]];
   ObsClient None [OFrame 2 CMD_UDP_OPEN (dec 2); OFrame 2 CMD_UDP_DATA (dgram_hdr w_R [","%char])];
   ObsServer [SConnect 0 (["n"%char], 53) true; SSend 0 ["q"%char] true; SUdpSock 1 2; SSendto 1 w_R [","%char] true];
   ObsServer [SFrame 1 CMD_DNS_RESPONSE ["r"%char] 0; SFrame 2 CMD_UDP_DATA (dgram_hdr w_R ["u"%char]) 0];
   ObsClient (Some 0) [ODgram (Some 0) (Some w_R) w_a1 ["r"%char]];
   ObsClient None [ODgram None (Some w_R) w_a2 ["u"%char]];
   ObsClient None [OFrame 3 CMD_UDP_OPEN (dec 2); OFrame 3 CMD_UDP_DATA (dgram_hdr w_R []); OFrame 2 CMD_UDP_CLOSE []];
   ObsServer [SUdpSock 2 2; SSendto 2 w_R [] true]].
Proof. vm_compute. reflexivity. Qed.

Ltac kill_in :=
  repeat match goal with
         | H : In _ (_ :: _) |- _ => destruct H as [H|H]
         | H : In _ [] |- _ => destruct H
         | H : _ /\ _ |- _ => destruct H
         | H : exists _, _ |- _ => destruct H
         end.

Lemma mixed_hyps :
  run_sane w_cfgTN w_scfg y_init w_sys_mixed /\ no_stale_alloc_any w_cfgTN w_scfg y_init w_sys_mixed.
Proof.
  split.
  - unfold w_sys_mixed.
    repeat (cbn [run_sane step_sane ev_sane udp_dst_ok]; split;
            [first [exact Logic.I | split; [first [exact Logic.I|split; [reflexivity|split; [apply N.leb_le; reflexivity|apply N.ltb_lt; reflexivity]]]|first [exact Logic.I|exact dst_ok_R]]
                   | repeat constructor; cbn; try (apply N.leb_le; reflexivity); try (apply N.ltb_lt; reflexivity);
                     unfold no_comma; cbn; intuition discriminate]|];
            intros ? ? E; sys_step E).
    exact Logic.I.
  - unfold w_sys_mixed.
    repeat (cbn [no_stale_alloc_any]; intros ? ? E; sys_step E; split;
            [try exact Logic.I;
             intros ch cmd d Hin Hop [Hf|[Hf|Hf]]; unfold y_init, s_init in Hf; cbn [y_up y_s y_down s_h] in Hf; kill_in; subst;
             repeat match goal with H : OFrame _ _ _ = OFrame _ _ _ |- _ => inversion H; subst; clear H end;
             repeat match goal with H : (_, _) = (_, _) |- _ => inversion H; subst; clear H end;
             try discriminate;
             try (destruct Hop as [Hop|[Hop|Hop]]; discriminate)|]).
    exact Logic.I.
Qed.
